"""Differential test for proximity / allocation / direction (property C06).

Run from inside the worktree:
    cd /tmp/t5/TC06 && PYTHONPATH=/tmp/t5/TC06 /venv/bin/python equiv.py

Every result (numpy and dask backends, three metrics, bounded / unbounded
max_distance, default / explicit targets, several dtypes, NaN / inf cells,
1xN / Nx1 / non-square / descending coordinates) is hashed bit-for-bit
(dtype + shape + raw bytes) and compared with the digest recorded from the
UNMODIFIED tree (EXPECTED below).  A few independent checks (brute force
nearest-target distance, wrapper behaviour) are done as well.

`equiv.py --record` prints the digests instead of comparing them.
Exit code 0 == identical.
"""
import hashlib
import sys

import dask
import dask.array as da
import numpy as np
import xarray as xr

import xrspatial
from xrspatial import allocation, direction, proximity
from xrspatial.proximity import _calc_direction

FUNCS = (("prox", proximity), ("alloc", allocation), ("dir", direction))
METRICS = ("EUCLIDEAN", "MANHATTAN", "GREAT_CIRCLE")


def digest(arr):
    arr = np.ascontiguousarray(arr)
    h = hashlib.sha256()
    h.update(str(arr.dtype).encode())
    h.update(str(arr.shape).encode())
    h.update(arr.tobytes())
    return h.hexdigest()[:16]


def make_rasters():
    rng = np.random.RandomState(20240611)
    out = {}

    # A: the layout used by the test-suite (inf and nan cells, lat descending)
    a = np.asarray([[0., 0., 0., 0., 0., 2.],
                    [0., 0., 1., 0., 0., 0.],
                    [0., np.inf, 3., 0., 0., 0.],
                    [4., 0., 0., 0., np.nan, 0.]])
    out["A"] = (a, np.linspace(-20, 20, 6), np.linspace(20, -20, 4), (4, 3))

    # B: int32, ascending y, non-square cells
    b = np.zeros((7, 5), dtype=np.int32)
    b[rng.randint(0, 7, 5), rng.randint(0, 5, 5)] = rng.randint(1, 5, 5)
    out["B"] = (b, np.arange(5) * 0.5 + 3.0, np.arange(7) * 2.0 - 6.0, (3, 2))

    # C: single row, float32
    c = np.array([[0, 0, 3, 0, 0, 0, np.nan, 2, 0]], dtype=np.float32)
    out["C"] = (c, np.linspace(10, 18, 9), np.array([5.0]), (1, 4))

    # D: single column, int64, descending y
    d = np.array([[0], [0], [7], [0], [0], [2]], dtype=np.int64)
    out["D"] = (d, np.array([-3.0]), np.linspace(30, 5, 6), (4, 1))

    # E: float64 with NaNs, many targets, descending x, odd shape
    e = np.zeros((9, 11), dtype=np.float64)
    idx = rng.choice(99, 12, replace=False)
    e.ravel()[idx] = rng.randint(1, 5, 12)
    e.ravel()[rng.choice(99, 8, replace=False)] = np.nan
    e[0, 0] = -np.inf
    out["E"] = (e, np.linspace(40, -10, 11), np.linspace(-35, 45, 9), (4, 5))

    # F: no target at all
    out["F"] = (np.zeros((3, 4), dtype=np.float64),
                np.arange(4.0), np.arange(3.0)[::-1], (2, 2))

    # G: exactly one target, uint8
    g = np.zeros((5, 8), dtype=np.uint8)
    g[3, 6] = 9
    out["G"] = (g, np.arange(8) * 1.5, np.arange(5)[::-1] * 1.0, (2, 3))
    return out


def build(data, xs, ys, chunks=None):
    data = data.copy()
    if chunks is not None:
        data = da.from_array(data, chunks=chunks)
    return xr.DataArray(data, dims=["y", "x"], coords={"y": ys, "x": xs},
                        attrs={"res": (abs(xs[1] - xs[0]) if len(xs) > 1 else 1.0,
                                       abs(ys[1] - ys[0]) if len(ys) > 1 else 1.0),
                               "tag": "keep-me"},
                        name="src")


def bounded(metric, xs, ys, pick):
    steps = [abs(c[1] - c[0]) for c in (xs, ys) if len(c) > 1]
    step = pick(steps)
    if metric == "GREAT_CIRCLE":
        return 2.5 * step * 111000.0
    return 2.5 * step


def brute(data, xs, ys, metric, targets):
    """float64 nearest-target distance, independent of the library."""
    if len(targets):
        tmask = np.isin(data, targets)
    else:
        tmask = np.isfinite(data) & (data != 0)
    X, Y = np.meshgrid(xs, ys)
    tx, ty = X[tmask], Y[tmask]
    dx = X[..., None] - tx
    dy = Y[..., None] - ty
    if metric == "EUCLIDEAN":
        d = np.sqrt(dx * dx + dy * dy)
    elif metric == "MANHATTAN":
        d = np.abs(dx) + np.abs(dy)
    else:
        la1, la2 = np.radians(Y[..., None]), np.radians(ty)
        a = np.sin(np.radians(-dy) / 2) ** 2 + \
            np.cos(la1) * np.cos(la2) * np.sin(np.radians(-dx) / 2) ** 2
        d = 6378137 * 2 * np.arcsin(np.sqrt(a))
    return tmask, (d.min(axis=-1) if tmask.any() else np.full(data.shape, np.nan))


def run_cases():
    got = {}
    problems = []
    rasters = make_rasters()
    for rname, (data, xs, ys, chunks) in rasters.items():
        target_sets = [[]]
        if rname in ("A", "E"):
            target_sets.append([2, 3])
        for metric in METRICS:
            for targets in target_sets:
                for md_name in ("inf", "bnd", "wide"):
                    md = {"inf": np.inf,
                          "bnd": bounded(metric, xs, ys, min),
                          "wide": bounded(metric, xs, ys, max)}[md_name]
                    for backend in ("np", "da"):
                        if backend == "da" and md_name != "inf" \
                                and metric == "GREAT_CIRCLE":
                            continue  # padding in cells would be enormous
                        if backend == "da" and (rname in "CDF" or md_name == "wide"):
                            continue
                        if md_name == "wide" and rname not in "BE":
                            continue  # only differs from "bnd" for non-square cells
                        res = {}
                        for fname, func in FUNCS:
                            raster = build(data, xs, ys,
                                           chunks if backend == "da" else None)
                            out = func(raster, target_values=targets,
                                       max_distance=md, distance_metric=metric)
                            key = "|".join((rname, metric, str(targets), md_name,
                                            backend, fname))
                            if backend == "da":
                                if not isinstance(out.data, da.Array):
                                    problems.append(key + ": result not lazy")
                                key += "|chunks_after=%s" % (raster.data.chunks,)
                                vals = out.compute().data
                            else:
                                if not isinstance(out.data, np.ndarray):
                                    problems.append(key + ": result not numpy")
                                vals = out.data
                            if out.dims != raster.dims or out.attrs != raster.attrs \
                                    or not out.coords.to_dataset().identical(
                                        raster.coords.to_dataset()):
                                problems.append(key + ": wrapper metadata differ")
                            got[key] = digest(vals)
                            res[fname] = vals
                        # independent sanity checks of the property itself
                        tmask, exact = brute(data, xs, ys, metric, targets)
                        p = res["prox"]
                        tag = "|".join((rname, metric, str(targets), md_name, backend))
                        if not (p[tmask] == 0).all():
                            problems.append(tag + ": proximity != 0 on a target")
                        ok = ~np.isnan(p)
                        if (p[ok] < exact[ok] * (1 - 1e-5) - 1e-6).any():
                            problems.append(tag + ": proximity underestimates")
                        if (p[ok] > md).any():
                            problems.append(tag + ": proximity > max_distance")
                        if not ((np.isnan(p) == np.isnan(res["alloc"])).all()
                                and (np.isnan(p) == np.isnan(res["dir"])).all()):
                            problems.append(tag + ": NaN masks differ")
                        if md_name == "inf" and tmask.any() and np.isnan(p).any():
                            problems.append(tag + ": NaN with unbounded distance")
                        if not tmask.any() and not np.isnan(p).all():
                            problems.append(tag + ": no target but finite output")
                        if rname == "G" and md_name == "inf":
                            if not np.allclose(p, exact, rtol=1e-5, atol=0):
                                problems.append(tag + ": single target not exact")
    return got, problems


def wrapper_cases():
    """Behaviour of the python-level wrapper (validation, defaults)."""
    got = {}
    data, xs, ys, chunks = make_rasters()["A"]
    for fname, func in FUNCS:
        # wrong dimension names -> ValueError with a fixed message
        bad = xr.DataArray(data, dims=["lat", "lon"],
                           coords={"lat": ys, "lon": xs})
        try:
            func(bad)
            got["baddims|" + fname] = "no error"
        except Exception as exc:  # noqa
            got["baddims|" + fname] = "%s:%s" % (type(exc).__name__, exc)
        ok = func(bad, x="lon", y="lat")
        got["named|" + fname] = digest(ok.data) + str(ok.dims)
        # unknown metric falls back, max_distance=None means unbounded
        r = build(data, xs, ys)
        got["fallback|" + fname] = digest(
            func(r, distance_metric="CHEBYSHEV", max_distance=None).data)
        # integer max_distance, target values given as ndarray / tuple
        got["intmd|" + fname] = digest(
            func(r, max_distance=14, target_values=np.array([1., 4.])).data)
        got["tuple|" + fname] = digest(
            func(r, target_values=(3,), distance_metric="MANHATTAN").data)
        # positional call
        got["positional|" + fname] = digest(
            func(r, "x", "y", [2], 30.0, "EUCLIDEAN").data)
        # dask: the same lazily, several chunkings
        for ch in ((1, 1), (4, 6), (3, 5)):
            rd = build(data, xs, ys, ch)
            o = func(rd, max_distance=9.0)
            got["dask%s|%s" % (ch, fname)] = "%s|%s|%s" % (
                digest(o.compute().data), type(o.data).__name__, rd.data.chunks)
    # compass bearings of the private helper used by direction()
    pts = [(0, 0, 0, 0), (0, 1, 0, 0), (0, 0, 0, 1), (0, -1, 0, 0),
           (0, 0, 0, -1), (1.5, -2.25, 3.0, 7.5), (-3, 4, 2, -9), (5, 5, 1, 1.000001)]
    got["calc_direction"] = repr(
        [(type(v).__name__, float(v)) for v in (_calc_direction(*p) for p in pts)])
    return got


EXPECTED = {
    'A|EUCLIDEAN|[2, 3]|bnd|da|alloc|chunks_after=((4,), (3, 3))': '0f038c4ef1696819',
    'A|EUCLIDEAN|[2, 3]|bnd|da|dir|chunks_after=((4,), (3, 3))': 'b60dea266ba8e767',
    'A|EUCLIDEAN|[2, 3]|bnd|da|prox|chunks_after=((4,), (3, 3))': '53af8dc1b59cd014',
    'A|EUCLIDEAN|[2, 3]|bnd|np|alloc': '0f038c4ef1696819',
    'A|EUCLIDEAN|[2, 3]|bnd|np|dir': 'b60dea266ba8e767',
    'A|EUCLIDEAN|[2, 3]|bnd|np|prox': '53af8dc1b59cd014',
    'A|EUCLIDEAN|[2, 3]|inf|da|alloc|chunks_after=((4,), (6,))': '98c3f988f02fdcd4',
    'A|EUCLIDEAN|[2, 3]|inf|da|dir|chunks_after=((4,), (6,))': '407c98d9d7f833c4',
    'A|EUCLIDEAN|[2, 3]|inf|da|prox|chunks_after=((4,), (6,))': '96e3899b823ca7c0',
    'A|EUCLIDEAN|[2, 3]|inf|np|alloc': '98c3f988f02fdcd4',
    'A|EUCLIDEAN|[2, 3]|inf|np|dir': '407c98d9d7f833c4',
    'A|EUCLIDEAN|[2, 3]|inf|np|prox': '96e3899b823ca7c0',
    'A|EUCLIDEAN|[]|bnd|da|alloc|chunks_after=((4,), (3, 3))': '69b61583b837c331',
    'A|EUCLIDEAN|[]|bnd|da|dir|chunks_after=((4,), (3, 3))': '757858acc27e491a',
    'A|EUCLIDEAN|[]|bnd|da|prox|chunks_after=((4,), (3, 3))': '7545a8b5f9eb4be9',
    'A|EUCLIDEAN|[]|bnd|np|alloc': '69b61583b837c331',
    'A|EUCLIDEAN|[]|bnd|np|dir': '757858acc27e491a',
    'A|EUCLIDEAN|[]|bnd|np|prox': '7545a8b5f9eb4be9',
    'A|EUCLIDEAN|[]|inf|da|alloc|chunks_after=((4,), (6,))': 'ada1532578c84074',
    'A|EUCLIDEAN|[]|inf|da|dir|chunks_after=((4,), (6,))': '7e6f91ea8eefc148',
    'A|EUCLIDEAN|[]|inf|da|prox|chunks_after=((4,), (6,))': '39a54b67f9460d78',
    'A|EUCLIDEAN|[]|inf|np|alloc': 'ada1532578c84074',
    'A|EUCLIDEAN|[]|inf|np|dir': '7e6f91ea8eefc148',
    'A|EUCLIDEAN|[]|inf|np|prox': '39a54b67f9460d78',
    'A|GREAT_CIRCLE|[2, 3]|bnd|np|alloc': '0f038c4ef1696819',
    'A|GREAT_CIRCLE|[2, 3]|bnd|np|dir': 'b60dea266ba8e767',
    'A|GREAT_CIRCLE|[2, 3]|bnd|np|prox': '04bdcc2fef4b61a5',
    'A|GREAT_CIRCLE|[2, 3]|inf|da|alloc|chunks_after=((4,), (6,))': '98c3f988f02fdcd4',
    'A|GREAT_CIRCLE|[2, 3]|inf|da|dir|chunks_after=((4,), (6,))': '407c98d9d7f833c4',
    'A|GREAT_CIRCLE|[2, 3]|inf|da|prox|chunks_after=((4,), (6,))': '53b28ee0431f7bc2',
    'A|GREAT_CIRCLE|[2, 3]|inf|np|alloc': '98c3f988f02fdcd4',
    'A|GREAT_CIRCLE|[2, 3]|inf|np|dir': '407c98d9d7f833c4',
    'A|GREAT_CIRCLE|[2, 3]|inf|np|prox': '53b28ee0431f7bc2',
    'A|GREAT_CIRCLE|[]|bnd|np|alloc': 'bb69c48db36b3281',
    'A|GREAT_CIRCLE|[]|bnd|np|dir': '2b67d5c295b1caf0',
    'A|GREAT_CIRCLE|[]|bnd|np|prox': '03b5353be84982a3',
    'A|GREAT_CIRCLE|[]|inf|da|alloc|chunks_after=((4,), (6,))': 'd03a0f5fc48bc557',
    'A|GREAT_CIRCLE|[]|inf|da|dir|chunks_after=((4,), (6,))': 'bdbc1244f534a3f9',
    'A|GREAT_CIRCLE|[]|inf|da|prox|chunks_after=((4,), (6,))': '6c464a7287f82fd5',
    'A|GREAT_CIRCLE|[]|inf|np|alloc': 'd03a0f5fc48bc557',
    'A|GREAT_CIRCLE|[]|inf|np|dir': 'bdbc1244f534a3f9',
    'A|GREAT_CIRCLE|[]|inf|np|prox': '6c464a7287f82fd5',
    'A|MANHATTAN|[2, 3]|bnd|da|alloc|chunks_after=((4,), (3, 3))': 'dd008c49cc7c3f2d',
    'A|MANHATTAN|[2, 3]|bnd|da|dir|chunks_after=((4,), (3, 3))': '1ca0065267888de1',
    'A|MANHATTAN|[2, 3]|bnd|da|prox|chunks_after=((4,), (3, 3))': '1579f903f4b35593',
    'A|MANHATTAN|[2, 3]|bnd|np|alloc': 'dd008c49cc7c3f2d',
    'A|MANHATTAN|[2, 3]|bnd|np|dir': '1ca0065267888de1',
    'A|MANHATTAN|[2, 3]|bnd|np|prox': '1579f903f4b35593',
    'A|MANHATTAN|[2, 3]|inf|da|alloc|chunks_after=((4,), (6,))': '32cb514635caf914',
    'A|MANHATTAN|[2, 3]|inf|da|dir|chunks_after=((4,), (6,))': 'd068a94e41ca677c',
    'A|MANHATTAN|[2, 3]|inf|da|prox|chunks_after=((4,), (6,))': '3859128659edd359',
    'A|MANHATTAN|[2, 3]|inf|np|alloc': '32cb514635caf914',
    'A|MANHATTAN|[2, 3]|inf|np|dir': 'd068a94e41ca677c',
    'A|MANHATTAN|[2, 3]|inf|np|prox': '3859128659edd359',
    'A|MANHATTAN|[]|bnd|da|alloc|chunks_after=((4,), (3, 3))': '8207a27012155aed',
    'A|MANHATTAN|[]|bnd|da|dir|chunks_after=((4,), (3, 3))': 'e7a36d987f0c9043',
    'A|MANHATTAN|[]|bnd|da|prox|chunks_after=((4,), (3, 3))': '7d07660a3fbf92de',
    'A|MANHATTAN|[]|bnd|np|alloc': '8207a27012155aed',
    'A|MANHATTAN|[]|bnd|np|dir': 'e7a36d987f0c9043',
    'A|MANHATTAN|[]|bnd|np|prox': '7d07660a3fbf92de',
    'A|MANHATTAN|[]|inf|da|alloc|chunks_after=((4,), (6,))': 'd598b0889a59c1c8',
    'A|MANHATTAN|[]|inf|da|dir|chunks_after=((4,), (6,))': '153613ac1fd5fba3',
    'A|MANHATTAN|[]|inf|da|prox|chunks_after=((4,), (6,))': '0516e453933ddafc',
    'A|MANHATTAN|[]|inf|np|alloc': 'd598b0889a59c1c8',
    'A|MANHATTAN|[]|inf|np|dir': '153613ac1fd5fba3',
    'A|MANHATTAN|[]|inf|np|prox': '0516e453933ddafc',
    'B|EUCLIDEAN|[]|bnd|da|alloc|chunks_after=((3, 3, 1), (2, 2, 1))': 'aeb2796728b0b652',
    'B|EUCLIDEAN|[]|bnd|da|dir|chunks_after=((3, 3, 1), (2, 2, 1))': 'a38ebe6f64153422',
    'B|EUCLIDEAN|[]|bnd|da|prox|chunks_after=((3, 3, 1), (2, 2, 1))': 'c6325057776d276d',
    'B|EUCLIDEAN|[]|bnd|np|alloc': 'aeb2796728b0b652',
    'B|EUCLIDEAN|[]|bnd|np|dir': 'a38ebe6f64153422',
    'B|EUCLIDEAN|[]|bnd|np|prox': 'c6325057776d276d',
    'B|EUCLIDEAN|[]|inf|da|alloc|chunks_after=((7,), (5,))': '14e0ca43e1dc7f7e',
    'B|EUCLIDEAN|[]|inf|da|dir|chunks_after=((7,), (5,))': 'd65a96a8843f460f',
    'B|EUCLIDEAN|[]|inf|da|prox|chunks_after=((7,), (5,))': 'b84578b149a58632',
    'B|EUCLIDEAN|[]|inf|np|alloc': '14e0ca43e1dc7f7e',
    'B|EUCLIDEAN|[]|inf|np|dir': 'd65a96a8843f460f',
    'B|EUCLIDEAN|[]|inf|np|prox': 'b84578b149a58632',
    'B|EUCLIDEAN|[]|wide|np|alloc': '14e0ca43e1dc7f7e',
    'B|EUCLIDEAN|[]|wide|np|dir': 'd65a96a8843f460f',
    'B|EUCLIDEAN|[]|wide|np|prox': 'b84578b149a58632',
    'B|GREAT_CIRCLE|[]|bnd|np|alloc': 'aeb2796728b0b652',
    'B|GREAT_CIRCLE|[]|bnd|np|dir': 'a38ebe6f64153422',
    'B|GREAT_CIRCLE|[]|bnd|np|prox': '26329f8fedc9fa44',
    'B|GREAT_CIRCLE|[]|inf|da|alloc|chunks_after=((7,), (5,))': '14e0ca43e1dc7f7e',
    'B|GREAT_CIRCLE|[]|inf|da|dir|chunks_after=((7,), (5,))': 'd65a96a8843f460f',
    'B|GREAT_CIRCLE|[]|inf|da|prox|chunks_after=((7,), (5,))': '92eab1c5be1e93de',
    'B|GREAT_CIRCLE|[]|inf|np|alloc': '14e0ca43e1dc7f7e',
    'B|GREAT_CIRCLE|[]|inf|np|dir': 'd65a96a8843f460f',
    'B|GREAT_CIRCLE|[]|inf|np|prox': '92eab1c5be1e93de',
    'B|GREAT_CIRCLE|[]|wide|np|alloc': '14e0ca43e1dc7f7e',
    'B|GREAT_CIRCLE|[]|wide|np|dir': 'd65a96a8843f460f',
    'B|GREAT_CIRCLE|[]|wide|np|prox': '92eab1c5be1e93de',
    'B|MANHATTAN|[]|bnd|da|alloc|chunks_after=((3, 3, 1), (2, 2, 1))': 'aeb2796728b0b652',
    'B|MANHATTAN|[]|bnd|da|dir|chunks_after=((3, 3, 1), (2, 2, 1))': 'a38ebe6f64153422',
    'B|MANHATTAN|[]|bnd|da|prox|chunks_after=((3, 3, 1), (2, 2, 1))': 'c6325057776d276d',
    'B|MANHATTAN|[]|bnd|np|alloc': 'aeb2796728b0b652',
    'B|MANHATTAN|[]|bnd|np|dir': 'a38ebe6f64153422',
    'B|MANHATTAN|[]|bnd|np|prox': 'c6325057776d276d',
    'B|MANHATTAN|[]|inf|da|alloc|chunks_after=((7,), (5,))': '14e0ca43e1dc7f7e',
    'B|MANHATTAN|[]|inf|da|dir|chunks_after=((7,), (5,))': 'd65a96a8843f460f',
    'B|MANHATTAN|[]|inf|da|prox|chunks_after=((7,), (5,))': 'e5cf84b8269de355',
    'B|MANHATTAN|[]|inf|np|alloc': '14e0ca43e1dc7f7e',
    'B|MANHATTAN|[]|inf|np|dir': 'd65a96a8843f460f',
    'B|MANHATTAN|[]|inf|np|prox': 'e5cf84b8269de355',
    'B|MANHATTAN|[]|wide|np|alloc': '14e0ca43e1dc7f7e',
    'B|MANHATTAN|[]|wide|np|dir': 'd65a96a8843f460f',
    'B|MANHATTAN|[]|wide|np|prox': 'e5cf84b8269de355',
    'C|EUCLIDEAN|[]|bnd|np|alloc': 'be180ee1bbc05385',
    'C|EUCLIDEAN|[]|bnd|np|dir': '2b5f0e16e3ae579c',
    'C|EUCLIDEAN|[]|bnd|np|prox': 'cc373c8a537f795d',
    'C|EUCLIDEAN|[]|inf|np|alloc': 'be180ee1bbc05385',
    'C|EUCLIDEAN|[]|inf|np|dir': '2b5f0e16e3ae579c',
    'C|EUCLIDEAN|[]|inf|np|prox': 'cc373c8a537f795d',
    'C|GREAT_CIRCLE|[]|bnd|np|alloc': 'be180ee1bbc05385',
    'C|GREAT_CIRCLE|[]|bnd|np|dir': '2b5f0e16e3ae579c',
    'C|GREAT_CIRCLE|[]|bnd|np|prox': 'f74a73ffdc0fa316',
    'C|GREAT_CIRCLE|[]|inf|np|alloc': 'be180ee1bbc05385',
    'C|GREAT_CIRCLE|[]|inf|np|dir': '2b5f0e16e3ae579c',
    'C|GREAT_CIRCLE|[]|inf|np|prox': 'f74a73ffdc0fa316',
    'C|MANHATTAN|[]|bnd|np|alloc': 'be180ee1bbc05385',
    'C|MANHATTAN|[]|bnd|np|dir': '2b5f0e16e3ae579c',
    'C|MANHATTAN|[]|bnd|np|prox': 'cc373c8a537f795d',
    'C|MANHATTAN|[]|inf|np|alloc': 'be180ee1bbc05385',
    'C|MANHATTAN|[]|inf|np|dir': '2b5f0e16e3ae579c',
    'C|MANHATTAN|[]|inf|np|prox': 'cc373c8a537f795d',
    'D|EUCLIDEAN|[]|bnd|np|alloc': 'a6024aad5d7c71cd',
    'D|EUCLIDEAN|[]|bnd|np|dir': 'e988a3f09a038bd7',
    'D|EUCLIDEAN|[]|bnd|np|prox': '27fa4028e33498a1',
    'D|EUCLIDEAN|[]|inf|np|alloc': 'a6024aad5d7c71cd',
    'D|EUCLIDEAN|[]|inf|np|dir': 'e988a3f09a038bd7',
    'D|EUCLIDEAN|[]|inf|np|prox': '27fa4028e33498a1',
    'D|GREAT_CIRCLE|[]|bnd|np|alloc': 'a6024aad5d7c71cd',
    'D|GREAT_CIRCLE|[]|bnd|np|dir': 'e988a3f09a038bd7',
    'D|GREAT_CIRCLE|[]|bnd|np|prox': 'f823167744d0a80f',
    'D|GREAT_CIRCLE|[]|inf|np|alloc': 'a6024aad5d7c71cd',
    'D|GREAT_CIRCLE|[]|inf|np|dir': 'e988a3f09a038bd7',
    'D|GREAT_CIRCLE|[]|inf|np|prox': 'f823167744d0a80f',
    'D|MANHATTAN|[]|bnd|np|alloc': 'a6024aad5d7c71cd',
    'D|MANHATTAN|[]|bnd|np|dir': 'e988a3f09a038bd7',
    'D|MANHATTAN|[]|bnd|np|prox': '27fa4028e33498a1',
    'D|MANHATTAN|[]|inf|np|alloc': 'a6024aad5d7c71cd',
    'D|MANHATTAN|[]|inf|np|dir': 'e988a3f09a038bd7',
    'D|MANHATTAN|[]|inf|np|prox': '27fa4028e33498a1',
    'E|EUCLIDEAN|[2, 3]|bnd|da|alloc|chunks_after=((4, 4, 1), (5, 5, 1))': '5ba55b7710687513',
    'E|EUCLIDEAN|[2, 3]|bnd|da|dir|chunks_after=((4, 4, 1), (5, 5, 1))': 'c257bcba9c73a882',
    'E|EUCLIDEAN|[2, 3]|bnd|da|prox|chunks_after=((4, 4, 1), (5, 5, 1))': 'a3eb16e4678cfd9a',
    'E|EUCLIDEAN|[2, 3]|bnd|np|alloc': '5ba55b7710687513',
    'E|EUCLIDEAN|[2, 3]|bnd|np|dir': 'c257bcba9c73a882',
    'E|EUCLIDEAN|[2, 3]|bnd|np|prox': 'a3eb16e4678cfd9a',
    'E|EUCLIDEAN|[2, 3]|inf|da|alloc|chunks_after=((9,), (11,))': '9dae8feb279eff67',
    'E|EUCLIDEAN|[2, 3]|inf|da|dir|chunks_after=((9,), (11,))': '5917ba83ef247baa',
    'E|EUCLIDEAN|[2, 3]|inf|da|prox|chunks_after=((9,), (11,))': '1eb6b71465298fd6',
    'E|EUCLIDEAN|[2, 3]|inf|np|alloc': '9dae8feb279eff67',
    'E|EUCLIDEAN|[2, 3]|inf|np|dir': '5917ba83ef247baa',
    'E|EUCLIDEAN|[2, 3]|inf|np|prox': '1eb6b71465298fd6',
    'E|EUCLIDEAN|[2, 3]|wide|np|alloc': '9dae8feb279eff67',
    'E|EUCLIDEAN|[2, 3]|wide|np|dir': '5917ba83ef247baa',
    'E|EUCLIDEAN|[2, 3]|wide|np|prox': '1eb6b71465298fd6',
    'E|EUCLIDEAN|[]|bnd|da|alloc|chunks_after=((4, 4, 1), (5, 5, 1))': 'e1d2860e4d0c0f77',
    'E|EUCLIDEAN|[]|bnd|da|dir|chunks_after=((4, 4, 1), (5, 5, 1))': 'cfeacb034aff5454',
    'E|EUCLIDEAN|[]|bnd|da|prox|chunks_after=((4, 4, 1), (5, 5, 1))': '65437d1cd2c596d5',
    'E|EUCLIDEAN|[]|bnd|np|alloc': 'e1d2860e4d0c0f77',
    'E|EUCLIDEAN|[]|bnd|np|dir': 'cfeacb034aff5454',
    'E|EUCLIDEAN|[]|bnd|np|prox': '65437d1cd2c596d5',
    'E|EUCLIDEAN|[]|inf|da|alloc|chunks_after=((9,), (11,))': 'd7c26a28a4177b44',
    'E|EUCLIDEAN|[]|inf|da|dir|chunks_after=((9,), (11,))': 'b211c67df331bbe4',
    'E|EUCLIDEAN|[]|inf|da|prox|chunks_after=((9,), (11,))': 'ccd470dde5a8ccd7',
    'E|EUCLIDEAN|[]|inf|np|alloc': 'd7c26a28a4177b44',
    'E|EUCLIDEAN|[]|inf|np|dir': 'b211c67df331bbe4',
    'E|EUCLIDEAN|[]|inf|np|prox': 'ccd470dde5a8ccd7',
    'E|EUCLIDEAN|[]|wide|np|alloc': 'd7c26a28a4177b44',
    'E|EUCLIDEAN|[]|wide|np|dir': 'b211c67df331bbe4',
    'E|EUCLIDEAN|[]|wide|np|prox': 'ccd470dde5a8ccd7',
    'E|GREAT_CIRCLE|[2, 3]|bnd|np|alloc': '5f967fe3659057ff',
    'E|GREAT_CIRCLE|[2, 3]|bnd|np|dir': '0d780319a899fc1c',
    'E|GREAT_CIRCLE|[2, 3]|bnd|np|prox': '2b5621ca0285a287',
    'E|GREAT_CIRCLE|[2, 3]|inf|da|alloc|chunks_after=((9,), (11,))': 'dfc87a6b2feaabd9',
    'E|GREAT_CIRCLE|[2, 3]|inf|da|dir|chunks_after=((9,), (11,))': 'a4e32e073d5fc502',
    'E|GREAT_CIRCLE|[2, 3]|inf|da|prox|chunks_after=((9,), (11,))': 'd767616814563160',
    'E|GREAT_CIRCLE|[2, 3]|inf|np|alloc': 'dfc87a6b2feaabd9',
    'E|GREAT_CIRCLE|[2, 3]|inf|np|dir': 'a4e32e073d5fc502',
    'E|GREAT_CIRCLE|[2, 3]|inf|np|prox': 'd767616814563160',
    'E|GREAT_CIRCLE|[2, 3]|wide|np|alloc': 'dfc87a6b2feaabd9',
    'E|GREAT_CIRCLE|[2, 3]|wide|np|dir': 'a4e32e073d5fc502',
    'E|GREAT_CIRCLE|[2, 3]|wide|np|prox': 'd767616814563160',
    'E|GREAT_CIRCLE|[]|bnd|np|alloc': '2dd22cfb8ff8c3e3',
    'E|GREAT_CIRCLE|[]|bnd|np|dir': '4d76c124938f7432',
    'E|GREAT_CIRCLE|[]|bnd|np|prox': '5267827a74bc480f',
    'E|GREAT_CIRCLE|[]|inf|da|alloc|chunks_after=((9,), (11,))': '4a239751d6903614',
    'E|GREAT_CIRCLE|[]|inf|da|dir|chunks_after=((9,), (11,))': '87d10727a7a74a42',
    'E|GREAT_CIRCLE|[]|inf|da|prox|chunks_after=((9,), (11,))': '33946f4c3a718e9c',
    'E|GREAT_CIRCLE|[]|inf|np|alloc': '4a239751d6903614',
    'E|GREAT_CIRCLE|[]|inf|np|dir': '87d10727a7a74a42',
    'E|GREAT_CIRCLE|[]|inf|np|prox': '33946f4c3a718e9c',
    'E|GREAT_CIRCLE|[]|wide|np|alloc': '4a239751d6903614',
    'E|GREAT_CIRCLE|[]|wide|np|dir': '87d10727a7a74a42',
    'E|GREAT_CIRCLE|[]|wide|np|prox': '33946f4c3a718e9c',
    'E|MANHATTAN|[2, 3]|bnd|da|alloc|chunks_after=((4, 4, 1), (5, 5, 1))': '69f673170126a9ca',
    'E|MANHATTAN|[2, 3]|bnd|da|dir|chunks_after=((4, 4, 1), (5, 5, 1))': '500d561074f5bf44',
    'E|MANHATTAN|[2, 3]|bnd|da|prox|chunks_after=((4, 4, 1), (5, 5, 1))': '3bde5bac1f709fc9',
    'E|MANHATTAN|[2, 3]|bnd|np|alloc': '69f673170126a9ca',
    'E|MANHATTAN|[2, 3]|bnd|np|dir': '500d561074f5bf44',
    'E|MANHATTAN|[2, 3]|bnd|np|prox': '3bde5bac1f709fc9',
    'E|MANHATTAN|[2, 3]|inf|da|alloc|chunks_after=((9,), (11,))': '7b41049b03c5d442',
    'E|MANHATTAN|[2, 3]|inf|da|dir|chunks_after=((9,), (11,))': '683294ef4c3e104c',
    'E|MANHATTAN|[2, 3]|inf|da|prox|chunks_after=((9,), (11,))': 'a777408717d72a2d',
    'E|MANHATTAN|[2, 3]|inf|np|alloc': '7b41049b03c5d442',
    'E|MANHATTAN|[2, 3]|inf|np|dir': '683294ef4c3e104c',
    'E|MANHATTAN|[2, 3]|inf|np|prox': 'a777408717d72a2d',
    'E|MANHATTAN|[2, 3]|wide|np|alloc': '29f0fcde9daa3dcd',
    'E|MANHATTAN|[2, 3]|wide|np|dir': '584db9a0307e3ba5',
    'E|MANHATTAN|[2, 3]|wide|np|prox': 'c05d8a5c94a1dc47',
    'E|MANHATTAN|[]|bnd|da|alloc|chunks_after=((4, 4, 1), (5, 5, 1))': 'e8fc21459d71eced',
    'E|MANHATTAN|[]|bnd|da|dir|chunks_after=((4, 4, 1), (5, 5, 1))': 'b9217a93a44afcd0',
    'E|MANHATTAN|[]|bnd|da|prox|chunks_after=((4, 4, 1), (5, 5, 1))': '227465eb01d74ac6',
    'E|MANHATTAN|[]|bnd|np|alloc': 'e8fc21459d71eced',
    'E|MANHATTAN|[]|bnd|np|dir': 'b9217a93a44afcd0',
    'E|MANHATTAN|[]|bnd|np|prox': '227465eb01d74ac6',
    'E|MANHATTAN|[]|inf|da|alloc|chunks_after=((9,), (11,))': 'e518b2fedcc2660e',
    'E|MANHATTAN|[]|inf|da|dir|chunks_after=((9,), (11,))': 'f1ac613f3e46385e',
    'E|MANHATTAN|[]|inf|da|prox|chunks_after=((9,), (11,))': '3a93c9dbdbc95374',
    'E|MANHATTAN|[]|inf|np|alloc': 'e518b2fedcc2660e',
    'E|MANHATTAN|[]|inf|np|dir': 'f1ac613f3e46385e',
    'E|MANHATTAN|[]|inf|np|prox': '3a93c9dbdbc95374',
    'E|MANHATTAN|[]|wide|np|alloc': 'cb4e41dab78849d0',
    'E|MANHATTAN|[]|wide|np|dir': 'ab8e7cd9b9e94c36',
    'E|MANHATTAN|[]|wide|np|prox': '71beb2f30d24eff0',
    'F|EUCLIDEAN|[]|bnd|np|alloc': 'b627778b404e96c4',
    'F|EUCLIDEAN|[]|bnd|np|dir': 'b627778b404e96c4',
    'F|EUCLIDEAN|[]|bnd|np|prox': 'b627778b404e96c4',
    'F|EUCLIDEAN|[]|inf|np|alloc': 'b627778b404e96c4',
    'F|EUCLIDEAN|[]|inf|np|dir': 'b627778b404e96c4',
    'F|EUCLIDEAN|[]|inf|np|prox': 'b627778b404e96c4',
    'F|GREAT_CIRCLE|[]|bnd|np|alloc': 'b627778b404e96c4',
    'F|GREAT_CIRCLE|[]|bnd|np|dir': 'b627778b404e96c4',
    'F|GREAT_CIRCLE|[]|bnd|np|prox': 'b627778b404e96c4',
    'F|GREAT_CIRCLE|[]|inf|np|alloc': 'b627778b404e96c4',
    'F|GREAT_CIRCLE|[]|inf|np|dir': 'b627778b404e96c4',
    'F|GREAT_CIRCLE|[]|inf|np|prox': 'b627778b404e96c4',
    'F|MANHATTAN|[]|bnd|np|alloc': 'b627778b404e96c4',
    'F|MANHATTAN|[]|bnd|np|dir': 'b627778b404e96c4',
    'F|MANHATTAN|[]|bnd|np|prox': 'b627778b404e96c4',
    'F|MANHATTAN|[]|inf|np|alloc': 'b627778b404e96c4',
    'F|MANHATTAN|[]|inf|np|dir': 'b627778b404e96c4',
    'F|MANHATTAN|[]|inf|np|prox': 'b627778b404e96c4',
    'G|EUCLIDEAN|[]|bnd|da|alloc|chunks_after=((2, 2, 1), (3, 3, 2))': '9e8a41d23bd2086f',
    'G|EUCLIDEAN|[]|bnd|da|dir|chunks_after=((2, 2, 1), (3, 3, 2))': 'f03e8ac1cda93528',
    'G|EUCLIDEAN|[]|bnd|da|prox|chunks_after=((2, 2, 1), (3, 3, 2))': 'a9e19de204450970',
    'G|EUCLIDEAN|[]|bnd|np|alloc': '9e8a41d23bd2086f',
    'G|EUCLIDEAN|[]|bnd|np|dir': 'f03e8ac1cda93528',
    'G|EUCLIDEAN|[]|bnd|np|prox': 'a9e19de204450970',
    'G|EUCLIDEAN|[]|inf|da|alloc|chunks_after=((5,), (8,))': '7e3306a0cb5e0766',
    'G|EUCLIDEAN|[]|inf|da|dir|chunks_after=((5,), (8,))': 'c2248d506987fa88',
    'G|EUCLIDEAN|[]|inf|da|prox|chunks_after=((5,), (8,))': 'b413cf9bfc01f76c',
    'G|EUCLIDEAN|[]|inf|np|alloc': '7e3306a0cb5e0766',
    'G|EUCLIDEAN|[]|inf|np|dir': 'c2248d506987fa88',
    'G|EUCLIDEAN|[]|inf|np|prox': 'b413cf9bfc01f76c',
    'G|GREAT_CIRCLE|[]|bnd|np|alloc': '6b851126dbef4c3d',
    'G|GREAT_CIRCLE|[]|bnd|np|dir': 'c21f5259fa703d72',
    'G|GREAT_CIRCLE|[]|bnd|np|prox': 'a0c3b1429fb9e43b',
    'G|GREAT_CIRCLE|[]|inf|da|alloc|chunks_after=((5,), (8,))': '7e3306a0cb5e0766',
    'G|GREAT_CIRCLE|[]|inf|da|dir|chunks_after=((5,), (8,))': 'c2248d506987fa88',
    'G|GREAT_CIRCLE|[]|inf|da|prox|chunks_after=((5,), (8,))': '035ec6c84a60bcd0',
    'G|GREAT_CIRCLE|[]|inf|np|alloc': '7e3306a0cb5e0766',
    'G|GREAT_CIRCLE|[]|inf|np|dir': 'c2248d506987fa88',
    'G|GREAT_CIRCLE|[]|inf|np|prox': '035ec6c84a60bcd0',
    'G|MANHATTAN|[]|bnd|da|alloc|chunks_after=((2, 2, 1), (3, 3, 2))': '6b851126dbef4c3d',
    'G|MANHATTAN|[]|bnd|da|dir|chunks_after=((2, 2, 1), (3, 3, 2))': 'c21f5259fa703d72',
    'G|MANHATTAN|[]|bnd|da|prox|chunks_after=((2, 2, 1), (3, 3, 2))': 'afe02df57a5ee479',
    'G|MANHATTAN|[]|bnd|np|alloc': '6b851126dbef4c3d',
    'G|MANHATTAN|[]|bnd|np|dir': 'c21f5259fa703d72',
    'G|MANHATTAN|[]|bnd|np|prox': 'afe02df57a5ee479',
    'G|MANHATTAN|[]|inf|da|alloc|chunks_after=((5,), (8,))': '7e3306a0cb5e0766',
    'G|MANHATTAN|[]|inf|da|dir|chunks_after=((5,), (8,))': 'c2248d506987fa88',
    'G|MANHATTAN|[]|inf|da|prox|chunks_after=((5,), (8,))': '36c34ede7c48b3c2',
    'G|MANHATTAN|[]|inf|np|alloc': '7e3306a0cb5e0766',
    'G|MANHATTAN|[]|inf|np|dir': 'c2248d506987fa88',
    'G|MANHATTAN|[]|inf|np|prox': '36c34ede7c48b3c2',
    'baddims|alloc': 'ValueError:raster.coords should be named as coordinates:(y, x)',
    'baddims|dir': 'ValueError:raster.coords should be named as coordinates:(y, x)',
    'baddims|prox': 'ValueError:raster.coords should be named as coordinates:(y, x)',
    'calc_direction': "[('float', 0.0), ('float', 90.0), ('float', 180.0), ('float', 270.0), ('float', 360.0), ('float', 219.80557250976562), ('float', 32.47119140625), ('float', 180.0)]",
    'dask(1, 1)|alloc': 'f9fcc3b151170486|Array|((1, 1, 1, 1), (1, 1, 1, 1, 1, 1))',
    'dask(1, 1)|dir': '6603eba11a281bdb|Array|((1, 1, 1, 1), (1, 1, 1, 1, 1, 1))',
    'dask(1, 1)|prox': '70dbdc73ae55335c|Array|((1, 1, 1, 1), (1, 1, 1, 1, 1, 1))',
    'dask(3, 5)|alloc': 'f9fcc3b151170486|Array|((3, 1), (5, 1))',
    'dask(3, 5)|dir': '6603eba11a281bdb|Array|((3, 1), (5, 1))',
    'dask(3, 5)|prox': '70dbdc73ae55335c|Array|((3, 1), (5, 1))',
    'dask(4, 6)|alloc': 'f9fcc3b151170486|Array|((4,), (6,))',
    'dask(4, 6)|dir': '6603eba11a281bdb|Array|((4,), (6,))',
    'dask(4, 6)|prox': '70dbdc73ae55335c|Array|((4,), (6,))',
    'fallback|alloc': 'ada1532578c84074',
    'fallback|dir': '7e6f91ea8eefc148',
    'fallback|prox': '39a54b67f9460d78',
    'intmd|alloc': 'f5e1cb9dc7fca482',
    'intmd|dir': '6ddd444728eaec8a',
    'intmd|prox': '37140391286b1faf',
    'named|alloc': "ada1532578c84074('lat', 'lon')",
    'named|dir': "7e6f91ea8eefc148('lat', 'lon')",
    'named|prox': "39a54b67f9460d78('lat', 'lon')",
    'positional|alloc': '2d284f45a5f7396a',
    'positional|dir': '23b03fc5c0bf8387',
    'positional|prox': 'd8cb5e7e67ed22ed',
    'tuple|alloc': '1408a2367f130977',
    'tuple|dir': 'aa1237f460b0f97f',
    'tuple|prox': '2d811d188e3a45b2',
}


def main():
    assert xrspatial.__file__.startswith("/tmp/t5/TC06/"), xrspatial.__file__
    with dask.config.set(scheduler="synchronous"):
        got, problems = run_cases()
        got.update(wrapper_cases())
    if "--record" in sys.argv:
        print("EXPECTED = {")
        for k in sorted(got):
            print("    %r: %r," % (k, got[k]))
        print("}")
        return 0
    bad = 0
    for k in sorted(set(got) | set(EXPECTED)):
        if got.get(k) != EXPECTED.get(k):
            bad += 1
            print("MISMATCH", k, got.get(k), EXPECTED.get(k))
    for p in problems:
        bad += 1
        print("PROPERTY", p)
    print("%d cases compared, %d problems" % (len(got), bad))
    return 1 if bad else 0


if __name__ == "__main__":
    sys.exit(main())
