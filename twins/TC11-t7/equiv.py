"""Differential test for the proximity.py signature refactoring (t7).

Runs proximity / allocation / direction on numpy and dask rasters with several
dtypes, NaNs, odd shapes, target lists, max distances and metrics, interleaved
and repeated, and compares a sha256 digest of every result (dtype + shape +
raw bytes, so bit-exact including NaN payload positions) with digests recorded
from the unmodified tree.  Also checks the private helper `_distance` against
the public distance functions.

usage: equiv.py            -> compare, exit 0 if identical
       equiv.py --record   -> print the digest table
"""
import hashlib
import sys

import dask.array as da
import numpy as np
import xarray as xr

import xrspatial
from xrspatial import (allocation, direction, euclidean_distance, great_circle_distance,
                       manhattan_distance, proximity)

prox_mod = sys.modules['xrspatial.proximity']


def digest(arr):
    arr = np.ascontiguousarray(np.asarray(arr))
    h = hashlib.sha256()
    h.update(str(arr.dtype).encode())
    h.update(str(arr.shape).encode())
    h.update(arr.tobytes())
    return h.hexdigest()[:24]


def make_raster(shape, dtype, seed, nan_frac=0.0, density=0.15, lonlat=False, chunks=None):
    rng = np.random.RandomState(seed)
    h, w = shape
    data = np.zeros(shape, dtype=np.float64)
    mask = rng.rand(h, w) < density
    data[mask] = rng.randint(1, 5, size=mask.sum())
    if nan_frac and np.issubdtype(np.dtype(dtype), np.floating):
        data[rng.rand(h, w) < nan_frac] = np.nan
        data = data.astype(dtype)
    else:
        data = data.astype(dtype)
    if chunks is not None:
        data = da.from_array(data, chunks=chunks)
    r = xr.DataArray(data, dims=['lat', 'lon'], attrs={'res': 1})
    if lonlat:
        r['lon'] = np.linspace(-170, 170, w)
        r['lat'] = np.linspace(80, -80, h)
    else:
        r['lon'] = np.linspace(0, 3.5 * (w - 1), w)
        r['lat'] = np.linspace(2.0 * (h - 1), 0, h)
    return r


FUNCS = {'prox': proximity, 'alloc': allocation, 'dir': direction}

CASES = []
_metrics = ['EUCLIDEAN', 'MANHATTAN', 'GREAT_CIRCLE']
_n = 0
for shape in [(1, 1), (1, 7), (9, 1), (13, 11)]:
    for dtype in [np.float32, np.float64, np.int32, np.uint8]:
        CASES.append(dict(shape=shape, dtype=dtype, metric=_metrics[_n % 3], tv=[], md=np.inf,
                          nan=0.1, chunks=None))
        _n += 1
for metric, tv, md in [
        ('EUCLIDEAN', [], None), ('EUCLIDEAN', [2], 4.0), ('EUCLIDEAN', [1, 3], 9.5),
        ('EUCLIDEAN', [7], np.inf), ('EUCLIDEAN', [], 0.0),
        ('MANHATTAN', [], 4.0), ('MANHATTAN', [2], np.inf), ('MANHATTAN', [1, 3], 1e6),
        ('GREAT_CIRCLE', [], 9.5), ('GREAT_CIRCLE', [1, 3], None), ('GREAT_CIRCLE', [2], 4.0),
        ('bogus', [], 4.0), ('bogus', [1, 3], np.inf)]:
    CASES.append(dict(shape=(12, 15), dtype=np.float64, metric=metric, tv=tv, md=md,
                      nan=0.08, chunks=None))
# dask
for metric, tv, md, chunks, dtype in [
        ('EUCLIDEAN', [], np.inf, (4, 5), np.float64),
        ('EUCLIDEAN', [2, 4], 4.0, (4, 5), np.float32),
        ('EUCLIDEAN', [], 8.0, (5, 15), np.float64),
        ('EUCLIDEAN', [], 4.0, (12, 15), np.int32),
        ('MANHATTAN', [], 4.0, (4, 5), np.float64),
        ('MANHATTAN', [2, 4], np.inf, (5, 15), np.float32),
        ('MANHATTAN', [2, 4], 8.0, (4, 5), np.float64),
        ('GREAT_CIRCLE', [], np.inf, (4, 5), np.float64),
        ('GREAT_CIRCLE', [2, 4], 1e9, (5, 15), np.float32)]:
    CASES.append(dict(shape=(12, 15), dtype=dtype, metric=metric, tv=tv, md=md,
                      nan=0.08, chunks=chunks))


def run_case(i, c, fname):
    lonlat = c['metric'] == 'GREAT_CIRCLE'
    md = c['md']
    if lonlat and md is not None and np.isfinite(md):
        md = md * 250000.0
    r = make_raster(c['shape'], c['dtype'], seed=i % 7, nan_frac=c['nan'], lonlat=lonlat,
                    chunks=c['chunks'])
    out = FUNCS[fname](r, x='lon', y='lat', target_values=c['tv'], max_distance=md,
                       distance_metric=c['metric'])
    assert isinstance(out, xr.DataArray)
    if c['chunks'] is not None:
        assert isinstance(out.data, da.Array)
        return out.data.compute()
    return out.data


def helper_checks():
    """_distance must agree with the public distance functions (float32 cast)."""
    _distance = prox_mod._distance
    import inspect
    params = list(inspect.signature(_distance.py_func).parameters)
    pts = [(0.0, 0.0, 0.0, 0.0), (1.5, -3.0, 20.0, 7.25), (-170.0, 170.0, -80.0, 80.0),
           (12.0, 12.0, 5.0, -5.0), (179.0, -179.0, 0.0, 0.5)]
    rows = []
    for (x1, x2, y1, y2) in pts:
        ref = [np.float32(euclidean_distance(x1, x2, y1, y2)),
               np.float32(great_circle_distance(x1, x2, y1, y2)),
               np.float32(manhattan_distance(x1, x2, y1, y2))]
        for metric in (0, 1, 2):
            if params[:4] == ['x1', 'x2', 'y1', 'y2']:
                got = _distance(x1, x2, y1, y2, metric)
            else:
                # refactored order: point a (x, y), point b (x, y), metric
                got = _distance(x1, y1, x2, y2, metric)
            assert np.float32(got).tobytes() == ref[metric].tobytes(), (x1, x2, y1, y2, metric)
            rows.append(np.float32(got))
    return np.array(rows, dtype=np.float32)


def collect():
    table = {}
    table['helper'] = digest(helper_checks())
    order = list(range(len(CASES)))
    # forward pass, interleaving output modes
    for i in order:
        for fname in ('prox', 'alloc', 'dir'):
            table['%d-%s' % (i, fname)] = digest(run_case(i, CASES[i], fname))
    # reverse pass with a different interleaving: results must repeat exactly
    for i in reversed(order[::3]):
        for fname in ('dir', 'prox', 'alloc'):
            d = digest(run_case(i, CASES[i], fname))
            assert d == table['%d-%s' % (i, fname)], ('not repeatable', i, fname)
    return table


# recorded from the unmodified tree with --record
EXPECTED = {
    'helper': '656d5a59bc0df2c3e1d2d360',
    '0-prox': '3d8106d92e9af40a72494b9e',
    '0-alloc': '3d8106d92e9af40a72494b9e',
    '0-dir': '3d8106d92e9af40a72494b9e',
    '1-prox': '3d8106d92e9af40a72494b9e',
    '1-alloc': '3d8106d92e9af40a72494b9e',
    '1-dir': '3d8106d92e9af40a72494b9e',
    '2-prox': '3d8106d92e9af40a72494b9e',
    '2-alloc': '3d8106d92e9af40a72494b9e',
    '2-dir': '3d8106d92e9af40a72494b9e',
    '3-prox': '3d8106d92e9af40a72494b9e',
    '3-alloc': '3d8106d92e9af40a72494b9e',
    '3-dir': '3d8106d92e9af40a72494b9e',
    '4-prox': '28f42df74ea583cef8628cce',
    '4-alloc': '28f42df74ea583cef8628cce',
    '4-dir': '28f42df74ea583cef8628cce',
    '5-prox': '28f42df74ea583cef8628cce',
    '5-alloc': '28f42df74ea583cef8628cce',
    '5-dir': '28f42df74ea583cef8628cce',
    '6-prox': '3e11ea7087a7aef05d7113b0',
    '6-alloc': '2607b5b008d84c2620ea1e2d',
    '6-dir': 'bd6161ff530b98ddb2d0ab5a',
    '7-prox': '28f42df74ea583cef8628cce',
    '7-alloc': '28f42df74ea583cef8628cce',
    '7-dir': '28f42df74ea583cef8628cce',
    '8-prox': 'bd5b5dd7b670cf8f5f3da290',
    '8-alloc': '81d6c8b39eefb0372deebc70',
    '8-dir': '30f5aae523fae660c5d2d7e5',
    '9-prox': '3b3364e4962a30fb2d8bc73f',
    '9-alloc': '28579fbdda9e94408c39a8f1',
    '9-dir': 'fd5a02b455d80031e59fb3a2',
    '10-prox': 'a2ceda9262172032fdebee33',
    '10-alloc': 'a5d78d49bcc6080c60ed10f9',
    '10-dir': '5f973f0d7f3f3d8bec641123',
    '11-prox': '02501fc4761c9b77ebbb0831',
    '11-alloc': 'a5d78d49bcc6080c60ed10f9',
    '11-dir': 'f7c679126b0837ab4b1001b3',
    '12-prox': '2d146e7f1e90f739c789fb4b',
    '12-alloc': '9bd50690af50c31a24b98761',
    '12-dir': '156954cf60ca71d8b29d1a21',
    '13-prox': '0fcce7222cc3322fdf359afc',
    '13-alloc': '9bc233647c5bdf013e8d3b4a',
    '13-dir': 'ca483ca3a7289b086ebab7dd',
    '14-prox': '41c95bec47017dc7c26c5bde',
    '14-alloc': 'da365621002c17c6e1c4e220',
    '14-dir': 'df5c00b3cbd2eece10932dcf',
    '15-prox': 'ee1039ab74007b3b89582f8a',
    '15-alloc': '8eba8a4aa7abba158a8698b9',
    '15-dir': '3118b0b3becd9ae3227b572d',
    '16-prox': 'ba5789bf7eec47e0f3e12419',
    '16-alloc': 'f443a17bc77cd5da6999d6b1',
    '16-dir': 'd2fd882753dc4aa808b99633',
    '17-prox': 'ad5774aba28efa3b90f3f938',
    '17-alloc': 'c59b6241fc9aa89cb89cd078',
    '17-dir': 'f8f1ccb33085356272cc20da',
    '18-prox': 'b4f862e5294ec1489d6edb5b',
    '18-alloc': '6f052ab60253025a902e9eef',
    '18-dir': '55881802b4608b41ce083562',
    '19-prox': '5e262b86f9c57ad81ad5f875',
    '19-alloc': '5e262b86f9c57ad81ad5f875',
    '19-dir': '5e262b86f9c57ad81ad5f875',
    '20-prox': '7a9162670fac40d511fc3a1f',
    '20-alloc': '463f647042f2a14654016aa8',
    '20-dir': '7a9162670fac40d511fc3a1f',
    '21-prox': '71188cb91759f23e0ab028f9',
    '21-alloc': 'ba75aff2c289ac4fe0775975',
    '21-dir': '7b180dc5e9a2563bd5ea9d90',
    '22-prox': '9ded97c8195fbe6f297efa18',
    '22-alloc': '10e072514b0e1c9b85ad2d97',
    '22-dir': '6537e87d361660583f0f244c',
    '23-prox': '8766f18e957ed6a80231904c',
    '23-alloc': 'ee5d86b59894a6462c639dde',
    '23-dir': 'dc45939867ef883453970b46',
    '24-prox': '87aeceb4a7cfd532e75a517b',
    '24-alloc': '952d6529163384865251bc60',
    '24-dir': 'af491ae0dbc1ea606a617b3a',
    '25-prox': '46798d2bcf9d2e55e154b110',
    '25-alloc': 'dd8ba62ca6c77203eb98bcfc',
    '25-dir': '2c693c3b889dcd5fdc9454fc',
    '26-prox': 'b8d3187adcdd4eb2bed10782',
    '26-alloc': '8a27a1ee55a3113e7e129fcc',
    '26-dir': 'b8d3187adcdd4eb2bed10782',
    '27-prox': 'cdc1d2af2f09f8fff103806e',
    '27-alloc': 'dc783fc75a496e3c54fc3e05',
    '27-dir': '49e72c2439ac43bea4f2faf4',
    '28-prox': '33127ab18c5b4e834f638abd',
    '28-alloc': 'fd4b083fa70c2c2f1484026e',
    '28-dir': '8fa945ce4c1b25d32616fcb5',
    '29-prox': '273374c0e3488ff4d491b31e',
    '29-alloc': '1f8b1250e9542dbab3357349',
    '29-dir': '884179d0dae93081ac5f242c',
    '30-prox': '8382548c3b0d9e3c6fc13110',
    '30-alloc': 'a0d691940d3e33765d4ee8f9',
    '30-dir': '67877de8681cddde41de76d6',
    '31-prox': '7667f313740a56d7cd90d4d0',
    '31-alloc': '58ed27357bad433b8f57c76f',
    '31-dir': '41bd65c8383f451a4108d004',
    '32-prox': '0e24b2513dfd01ae8b1adb83',
    '32-alloc': '797ec1db6856b86d6c687595',
    '32-dir': '4a2022195971176f6467ee50',
    '33-prox': '369ab1926a22f56657de45c3',
    '33-alloc': 'a4792e70a1872ce738ae7f60',
    '33-dir': 'f2ca45987a5a9098731da29c',
    '34-prox': 'bfc5eac1a6defbdc3755d93c',
    '34-alloc': 'd8cb3410982fd944fe870cce',
    '34-dir': '4c71544f80e36fbd799af031',
    '35-prox': '69f4557477b7dac347337cd4',
    '35-alloc': '50b581655bde37b11a08bfdd',
    '35-dir': '9d841951b7aba389ac34e927',
    '36-prox': 'b91e10b7bf423a17a318a018',
    '36-alloc': 'fa9729ce2adf46652cf6bbbf',
    '36-dir': '6e244ec772ecb33d784f4036',
    '37-prox': '07f7a2a3fc867d276ccbce6b',
    '37-alloc': 'c6b9f11d4847681f283c5199',
    '37-dir': 'f0d3029b0d54970ebae23212',
}


def main():
    assert '/tmp/t4/TC11/' in xrspatial.__file__ or '--anywhere' in sys.argv, xrspatial.__file__
    table = collect()
    if '--record' in sys.argv:
        print('EXPECTED = {')
        for k, v in table.items():
            print('    %r: %r,' % (k, v))
        print('}')
        return 0
    bad = [k for k in table if EXPECTED.get(k) != table[k]]
    missing = [k for k in EXPECTED if k not in table]
    if bad or missing:
        print('MISMATCH', bad[:20], missing[:20])
        return 1
    print('OK: %d results identical' % len(table))
    return 0


if __name__ == '__main__':
    sys.exit(main())
