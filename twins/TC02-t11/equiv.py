"""Differential test for property C02 (zonal stats summarise exactly the valid
cells of each zone).

Two independent checks:
  1. every result (numpy DataFrame, numpy DataArray, dask DataFrame, crosstab which
     shares the sort/stride helpers) is serialised bit-exactly (dtype, shape, raw
     bytes, column names) and its sha256 compared with the digest recorded on the
     UNMODIFIED tree (EXPECTED below);
  2. the numpy results are compared with a brute-force oracle written here.

Usage:  python equiv.py            -> exit 0 if identical
        python equiv.py --record   -> print the digests (run on the unmodified tree)
"""
import hashlib
import sys
import warnings

import dask.array as da
import numpy as np
import pandas as pd
import xarray as xr

import xrspatial
from xrspatial.zonal import crosstab, stats

warnings.filterwarnings('ignore')

ALL = ['mean', 'max', 'min', 'sum', 'std', 'var', 'count']


def _ser(obj):
    """bit-exact serialisation of a result"""
    h = hashlib.sha256()
    if isinstance(obj, BaseException):
        h.update(('EXC:' + type(obj).__name__ + ':' + str(obj)).encode())
    elif isinstance(obj, pd.DataFrame):
        h.update(repr(list(obj.columns)).encode())
        h.update(repr(list(obj.index)).encode())
        for c in obj.columns:
            a = np.asarray(obj[c])
            h.update(str(a.dtype).encode())
            h.update(repr(a.shape).encode())
            h.update(np.ascontiguousarray(a).tobytes())
    elif isinstance(obj, xr.DataArray):
        a = np.asarray(obj.data)
        h.update(repr(obj.dims).encode())
        h.update(repr([(k, list(np.asarray(v).ravel())) for k, v in obj.coords.items()]).encode())
        h.update(repr(sorted(obj.attrs.items())).encode())
        h.update(str(a.dtype).encode())
        h.update(repr(a.shape).encode())
        h.update(np.ascontiguousarray(a).tobytes())
    else:
        raise TypeError(type(obj))
    return h.hexdigest()


def _run(f):
    try:
        r = f()
        if hasattr(r, 'compute'):
            r = r.compute()
        return r
    except Exception as e:  # recorded too: same exception type and message
        return e


def make_cases():
    rng = np.random.RandomState(20240102)
    cases = []

    def add(name, zones, values, **kw):
        cases.append((name, zones, values, kw))

    # 1 integer zones, interleaved, float values with nan/inf
    z = rng.randint(-2, 4, size=(7, 9)).astype(np.int64)
    v = rng.randn(7, 9) * 10
    v[0, 0] = np.nan
    v[1, 3] = np.inf
    v[2, 5] = -np.inf
    v[3, 3] = 5.0
    add('int_zones_float_vals', z, v)
    add('int_zones_float_vals_nodata', z, v, nodata_values=5.0)
    add('int_zones_ids', z, v, zone_ids=[3, -2, 17, 0])
    add('int_zones_ids_subset', z, v, zone_ids=[1], stats_funcs=['max', 'count'])
    # 2 float zones with fractional and negative ids, NaN / inf zone cells
    zf = rng.choice([-1.5, 0.0, 0.25, 2.0, 7.75], size=(6, 5))
    zf[0, 1] = np.nan
    zf[2, 2] = np.inf
    zf[3, 0] = -np.inf
    zf[5, 4] = np.nan
    vf = rng.randint(-5, 6, size=(6, 5)).astype(np.float64)
    vf[1, 1] = np.nan
    add('float_zones', zf, vf)
    add('float_zones_nodata0', zf, vf, nodata_values=0)
    add('float_zones_ids', zf, vf, zone_ids=[7.75, -1.5, 3.0], stats_funcs=['sum', 'mean', 'var'])
    # 3 integer values, several int dtypes
    for dt in (np.int32, np.int64, np.uint8, np.int16):
        zi = rng.randint(0, 5, size=(5, 8)).astype(np.int32)
        vi = rng.randint(0, 50, size=(5, 8)).astype(dt)
        add('intvals_%s' % np.dtype(dt).name, zi, vi, nodata_values=3)
    # 4 float32 values / float32 zones
    z32 = rng.choice([1, 2, 3, 10], size=(4, 11)).astype(np.float32)
    z32[1, 1] = np.nan
    v32 = (rng.rand(4, 11) * 100).astype(np.float32)
    v32[0, 10] = np.nan
    add('float32', z32, v32)
    add('float32_nodata', z32, v32, nodata_values=float(v32[2, 2]))
    # 5 a zone made only of invalid cells -> NaN row
    zz = np.array([[1, 1, 2, 2], [3, 3, 2, 2], [3, 3, 4, 4]], dtype=np.int64)
    vv = np.array([[np.nan, np.nan, 1., 2.], [9., 9., 3., 4.], [9., 9., np.inf, -np.inf]])
    add('empty_zones', zz, vv, nodata_values=9.0)
    add('empty_zones_ids', zz, vv, nodata_values=9.0, zone_ids=[4, 1, 2])
    # 6 odd shapes
    add('one_row', rng.randint(0, 3, size=(1, 13)).astype(np.int64), rng.randn(1, 13))
    add('one_col', rng.randint(0, 3, size=(13, 1)).astype(np.int64), rng.randn(13, 1))
    add('one_cell', np.array([[4]], dtype=np.int64), np.array([[2.5]]))
    add('all_nan_zones', np.full((3, 3), np.nan), rng.randn(3, 3))
    add('single_zone', np.zeros((4, 4), dtype=np.int64), rng.randn(4, 4))
    # 7 larger random
    zl = rng.randint(-50, 50, size=(37, 41)).astype(np.int64)
    vl = rng.randn(37, 41) * 1e3
    vl[rng.rand(37, 41) < 0.1] = np.nan
    add('large', zl, vl)
    add('large_ids', zl, vl, zone_ids=[49, -50, 0, 3, 1000, 7])
    return cases


def oracle(zones, values, zone_ids, nodata, names):
    zf = zones.ravel()
    vf = values.ravel()
    uz = sorted(set(float(x) for x in zf if np.isfinite(x)))
    if zone_ids is not None:
        uz = [u for u in uz if any(u == zid for zid in zone_ids)]
    rows = []
    for u in uz:
        sel = []
        for zc, vc in zip(zf, vf):
            if zc == u and np.isfinite(vc) and (nodata is None or vc != nodata):
                sel.append(vc)
        sel = np.array(sel, dtype=vf.dtype)
        row = [u]
        for n in names:
            if len(sel) == 0:
                row.append(np.nan)
            elif n == 'count':
                row.append(float(len(sel)))
            else:
                row.append(float(getattr(sel, n)()))
        rows.append(row)
    return uz, np.array(rows, dtype=np.float64).reshape(len(uz), 1 + len(names))


def chunks_for(shape):
    return (max(1, (shape[0] + 1) // 2), max(1, (shape[1] + 2) // 3))


def main():
    record = '--record' in sys.argv
    assert xrspatial.__file__.startswith(WORKTREE), xrspatial.__file__
    got = {}
    failures = []
    for name, z, v, kw in make_cases():
        names = kw.get('stats_funcs', ALL)
        zx, vx = xr.DataArray(z, dims=('y', 'x')), xr.DataArray(v, dims=('y', 'x'), attrs={'res': 1})
        # numpy, DataFrame
        df = _run(lambda: stats(zx, vx, **kw))
        got[name + '/np_df'] = _ser(df)
        # numpy, DataArray
        xa = _run(lambda: stats(zx, vx, return_type='xarray.DataArray', **kw))
        got[name + '/np_da'] = _ser(xa)
        # user reducers
        custom = {'rng': lambda a: a.max() - a.min(), 'n': lambda a: a.size, 'first': lambda a: a[0]}
        kw2 = dict(kw)
        kw2['stats_funcs'] = custom
        got[name + '/np_custom'] = _ser(_run(lambda: stats(zx, vx, **kw2)))
        got[name + '/np_custom_da'] = _ser(
            _run(lambda: stats(zx, vx, return_type='xarray.DataArray', **kw2)))
        # dask
        ch = chunks_for(z.shape)
        zd = xr.DataArray(da.from_array(z, chunks=ch), dims=('y', 'x'))
        vd = xr.DataArray(da.from_array(v, chunks=ch), dims=('y', 'x'))
        kwd = dict(kw)
        kwd.setdefault('stats_funcs', list(ALL))
        ddf = _run(lambda: stats(zd, vd, **kwd))
        got[name + '/dask_df'] = _ser(ddf)
        # dask, every kind of subset of the statistics (which basis stats get computed)
        if name in DASK_SUBSET_CASES:
            for sub in (['std'], ['var'], ['mean'], ['min'], ['count'], ['sum'],
                        ['count', 'sum'], ['std', 'max'], ['var', 'std', 'mean'],
                        ['count', 'min', 'max', 'mean', 'sum', 'var', 'std']):
                kws = dict(kw)
                kws['stats_funcs'] = sub
                got[name + '/dask_' + '+'.join(sub)] = _ser(_run(lambda: stats(zd, vd, **kws)))
                got[name + '/np_' + '+'.join(sub)] = _ser(_run(lambda: stats(zx, vx, **kws)))
        # crosstab shares _sort_and_stride / _strides
        for agg in ('count', 'percentage'):
            ct_kw = {k: kw[k] for k in ('zone_ids', 'nodata_values') if k in kw}
            got[name + '/ct_' + agg] = _ser(_run(lambda: crosstab(zx, vx, agg=agg, **ct_kw)))
        got[name + '/ct_dask'] = _ser(_run(lambda: crosstab(zd, vd, **ct_kw)))

        # oracle on the numpy path
        if not isinstance(df, BaseException):
            uz, exp = oracle(z, v, kw.get('zone_ids'), kw.get('nodata_values'), names)
            if list(df.columns) != ['zone'] + list(names):
                failures.append(name + ': columns')
            arr = np.column_stack([np.asarray(df[c], dtype=np.float64) for c in df.columns]) \
                if len(df) else np.zeros((0, 1 + len(names)))
            if arr.shape != exp.shape or not np.allclose(arr, exp, rtol=1e-5, atol=1e-6,
                                                          equal_nan=True):
                failures.append(name + ': numpy DataFrame differs from oracle')
            if not isinstance(xa, BaseException):
                for si, n in enumerate(names):
                    expmap = np.full(z.shape, np.nan)
                    for r, u in enumerate(uz):
                        expmap[z == u] = exp[r, 1 + si]
                    if not np.allclose(xa.data[si], expmap, rtol=1e-5, atol=1e-6, equal_nan=True):
                        failures.append(name + ': numpy DataArray differs from oracle (%s)' % n)
            if not isinstance(ddf, BaseException) and len(ddf) == len(df):
                darr = np.column_stack([np.asarray(ddf[c], dtype=np.float64) for c in df.columns]) \
                    if len(df) else arr
                if not np.allclose(darr, exp, rtol=1e-4, atol=1e-4, equal_nan=True):
                    failures.append(name + ': dask DataFrame differs from oracle')

    if record:
        print('EXPECTED = {')
        for k in sorted(got):
            print('    %r: %r,' % (k, got[k]))
        print('}')
        print('# oracle failures:', failures, file=sys.stderr)
        return 0
    for k in sorted(got):
        if EXPECTED.get(k) != got[k]:
            failures.append('digest mismatch: ' + k)
    if set(EXPECTED) != set(got):
        failures.append('case set differs')
    if failures:
        print('FAIL')
        for f in failures:
            print('  ', f)
        return 1
    print('OK: %d results bit-identical to the recorded baseline, oracle agrees' % len(got))
    return 0


WORKTREE = '/tmp/t5/TC02'
DASK_SUBSET_CASES = ('int_zones_float_vals_nodata', 'float_zones_ids', 'intvals_int32',
                     'float32', 'empty_zones_ids', 'large_ids')

EXPECTED = {
    'all_nan_zones/ct_count': 'c643d069460ab7de4de0d05eca993c70ce91705b38e5f5b1e040905476644c20',
    'all_nan_zones/ct_dask': 'c643d069460ab7de4de0d05eca993c70ce91705b38e5f5b1e040905476644c20',
    'all_nan_zones/ct_percentage': 'c643d069460ab7de4de0d05eca993c70ce91705b38e5f5b1e040905476644c20',
    'all_nan_zones/dask_df': 'a179dec6c3d4d86340f865d5fe4eb30d69cc5f6d707683155e80b6a2972273fe',
    'all_nan_zones/np_custom': 'b0904b02b4a98a71f1f07c9e0f6dca6e49a411084e4daa220395b5fe2cda1c1c',
    'all_nan_zones/np_custom_da': 'b5c353c8a136a2f50240b9027446e33ddbfed617dd5fe52aacd0abe67094a1d9',
    'all_nan_zones/np_da': '4967e1db78ed69d76fa74eb904ba59b783d642cce71a8eb32d71668d8283ebb4',
    'all_nan_zones/np_df': 'a179dec6c3d4d86340f865d5fe4eb30d69cc5f6d707683155e80b6a2972273fe',
    'empty_zones/ct_count': '798566884f8f3d3d231120a10d3f18ee6b79229478ae8824ee92fae98b4042e1',
    'empty_zones/ct_dask': '798566884f8f3d3d231120a10d3f18ee6b79229478ae8824ee92fae98b4042e1',
    'empty_zones/ct_percentage': 'c2c904022cd3a4404e5391fe5d34da9b5eb40eb87db576586b29193510b6f64f',
    'empty_zones/dask_df': '70d095a57a54ad531cee81ccdf57f59fe930584dafb45df275ea773e0dfe0777',
    'empty_zones/np_custom': '8edb4aa2fe57a0cc33f8db31d0790f5f5aba097f39f56f758e2ac122e52423cc',
    'empty_zones/np_custom_da': '17c1ab580db66952fafcfb8f0adde7f52660e84f7f625f6c84059bc011a27b09',
    'empty_zones/np_da': '67282db648e044abd90b58e37226ec4ffbf917b2686bbf1fda5755a7ae46a1b4',
    'empty_zones/np_df': '70d095a57a54ad531cee81ccdf57f59fe930584dafb45df275ea773e0dfe0777',
    'empty_zones_ids/ct_count': '5da67d8b3ad4ca0969a02f9ea3312a585e8384b8e01534c1f034ff5ac604877e',
    'empty_zones_ids/ct_dask': '5da67d8b3ad4ca0969a02f9ea3312a585e8384b8e01534c1f034ff5ac604877e',
    'empty_zones_ids/ct_percentage': 'ba8e489a186f1920cde8ff071661d6594256608ff3d04e2b099be3db63297d68',
    'empty_zones_ids/dask_count': '5d3921338747c9c61ffdbf4f80b71b0117070d46bb70e8607c64216c0824c9cd',
    'empty_zones_ids/dask_count+min+max+mean+sum+var+std': '79857961010e4d9e32aa99ba4fc4033b88040c1169151ceebd5c15f124219f65',
    'empty_zones_ids/dask_count+sum': '017b2c863b49ca17325ab75745fbfbf9e7cc39765626f785e27c3dfc8384fb5d',
    'empty_zones_ids/dask_df': 'f9690a4c8eccc36256e5e3beb7bb1bf8fab878c34b439a950cb6264c213a6109',
    'empty_zones_ids/dask_mean': '4756bb783caa4e0123aa9d8789400c3d200192773e82087ca7b8d426fce2b3c9',
    'empty_zones_ids/dask_min': 'fb477af9a2a96e7b6d7ac4ec630051ae41349af28ba31c716122398e2955ad19',
    'empty_zones_ids/dask_std': 'ffe6822762cc17f44d2643c58b6d71827b184ea80a615484e8e7db79fbec7246',
    'empty_zones_ids/dask_std+max': 'fc8846d9944b5cf62077684883cf46dc5af8d20d391332092584d6debc395b30',
    'empty_zones_ids/dask_sum': 'a75c3730093220479dcfc7014a3f2d368d58b5919d41759f62309fab0a9c3edf',
    'empty_zones_ids/dask_var': '4bb0673e202c0d0cd48ee0e03d675e3297edbbd0047f911c1cb0b50c7670ccf8',
    'empty_zones_ids/dask_var+std+mean': 'fd4411ba10306c01c1cac23b12af7f01bdc7efe94e3f208d486576f165771e42',
    'empty_zones_ids/np_count': '2ed77644814e738d1b09bdcf76e378ae4c34943fc614c27ded127b80e087251f',
    'empty_zones_ids/np_count+min+max+mean+sum+var+std': '1fc5b5e395a7e9e5663e835aac8ab22de1b0ac8132f0f5926cc90e1b2c549177',
    'empty_zones_ids/np_count+sum': '76918df0ac9a12340301339087f94ba2b5b87d8bf5d71da1a0022d0486dca852',
    'empty_zones_ids/np_custom': '338d761f05b746a2523e0c4b5e8ef5d3055ce9299a3caf54ba3e056665e57b3b',
    'empty_zones_ids/np_custom_da': '17c1ab580db66952fafcfb8f0adde7f52660e84f7f625f6c84059bc011a27b09',
    'empty_zones_ids/np_da': '67282db648e044abd90b58e37226ec4ffbf917b2686bbf1fda5755a7ae46a1b4',
    'empty_zones_ids/np_df': '246f2cb9d2dc016a040aaeca8d07a09b49b42db1fe2279ebcf846e9a9af0139b',
    'empty_zones_ids/np_mean': 'c84a24f94a6051b54007b5608ab1dddf803c763a430ca5627982ec45c73c4717',
    'empty_zones_ids/np_min': '2aacf437d10d7fb2ebf96f7202ec3b3027c301915f8e1a57de9665bafa5e8600',
    'empty_zones_ids/np_std': 'a78a319b825268590a30f299173501ffbe57b4ca66d16afd9ac43ed284094a3b',
    'empty_zones_ids/np_std+max': 'b73a2a163dc2c5ce05f187895e5d7904f21204e13496d1f32dbcd12c172a2d01',
    'empty_zones_ids/np_sum': '50c617ca91b7abba6f94d354d8f28bb4b92b0a24389360006bafc3a0095429c4',
    'empty_zones_ids/np_var': '89540a4c3d5209c04dee51a4dd98d9e5c68ea7c0ec83d5e697de3d28f7a1ab24',
    'empty_zones_ids/np_var+std+mean': '67fcf8fbf6bf2b07331445185b8b9a9a074b5e4368e6b6b101e75f1d8b3e65c7',
    'float32/ct_count': 'e295d944b73c8d68f1c05f284cdd7cf3b2097fb6caac052ccfe717c84ec89bd0',
    'float32/ct_dask': 'e295d944b73c8d68f1c05f284cdd7cf3b2097fb6caac052ccfe717c84ec89bd0',
    'float32/ct_percentage': 'd39a94948265223bbff98892ecb3542da01d3dc00ad141ac462adcecfef38dfb',
    'float32/dask_count': '17843954407a8819625a3fd1f70072ede7c7be98e3fe5bdfaa2a277c675390f7',
    'float32/dask_count+min+max+mean+sum+var+std': 'abe3ae4525acdcbb0d2f72268b4c89c5652643d54417cd08adeb889e16196f62',
    'float32/dask_count+sum': '89f8debc47b80c113c4a61bb62265e906dacbf42a9dfc9a7677b96f40d4f937d',
    'float32/dask_df': '48319ddf5141dd4435268a0113bd943de330ee3cd20017731f01df355b08e443',
    'float32/dask_mean': '1441ee4a7bd5912f762e17d926e6c0cb35fc0cbe00fa0eb81595f8856aab8e26',
    'float32/dask_min': 'e758c8ef75ed72593ec292b2c6d0033adc91b5e666785da8ca953dc088cb0db8',
    'float32/dask_std': '201c17f52beebd2cd934a1e4fed458cad71c20fb72b657832edba6664dd6d25b',
    'float32/dask_std+max': '81b5391bfaf036515c498057ef09cf7f992a57608af2965f1132bbd3b71fdf7a',
    'float32/dask_sum': '2e21bf2402368dce5a4c2db589d688e612a4d9f1152b82e74b60bbfa1c5c7d3e',
    'float32/dask_var': 'ce03a4bc66d392ea58c805854a597e3fc2356707c97a3e93e27b6c892475af42',
    'float32/dask_var+std+mean': 'ca2eeaed1de2c87cdf699a0ee269c86c708d768cdcf11cc4836554369e8a8b26',
    'float32/np_count': '17843954407a8819625a3fd1f70072ede7c7be98e3fe5bdfaa2a277c675390f7',
    'float32/np_count+min+max+mean+sum+var+std': '47f1d6c44618ba414bf39d6c5281288fda718068adf46a3dc517f5b12f479a8f',
    'float32/np_count+sum': '5dbec040b42fbcf5f570879300a1510f9c0f5defec85d0164c7a9422b9a3444a',
    'float32/np_custom': 'd859b283164f020dbf84351a420240e8f093f9f704d933f63df905109dbedc7f',
    'float32/np_custom_da': 'cb9ad5aa426647b1501359cdf7d16589bac0b8eb27fba83694b45d2d974ce754',
    'float32/np_da': '138186caf752717c9e2dbae99bf4ae87de7fe67dabc14c8d235248eb11b4d750',
    'float32/np_df': 'b71e9e2fc6190d0b50218ff2c6c37923d0655a36cb80418fe29539fc40cee5ab',
    'float32/np_mean': '1b36d50438fc3c400faf427e276ad5da70b2338bae9501b0f624a1020aa3c14f',
    'float32/np_min': 'e758c8ef75ed72593ec292b2c6d0033adc91b5e666785da8ca953dc088cb0db8',
    'float32/np_std': '3fe80b075dbcd07d3977efe531544d5820531732ed82213f811d5ae41462a359',
    'float32/np_std+max': '5900c4d23cf8b470c999f6d6331df60796e0d3c18b59fdb1afb015f6782e98cb',
    'float32/np_sum': '1eacbc91a449f4163c4d168f72802a6036b417f90b03f546e69573ace9b256dc',
    'float32/np_var': '70f527d46f233b015cab38f13e3a920b5f98f0fca7eb6f94f8d700f4199ccc18',
    'float32/np_var+std+mean': '9bed8081a398a5bd9f0de502267603254627712a22fa2e35470b86899a84d188',
    'float32_nodata/ct_count': 'bb083632fcf85f464734b71abed71b0bf882be39810b8b1e7de8680980fb625e',
    'float32_nodata/ct_dask': 'bb083632fcf85f464734b71abed71b0bf882be39810b8b1e7de8680980fb625e',
    'float32_nodata/ct_percentage': 'f9ccc7cf69ba42e29f0192d2eba9fe5f4a96c2fdc492bddecc0ae61c250bf740',
    'float32_nodata/dask_df': '0aab41811d94e40a08e961568c0d238b918d0f837add5b926b29c20ae4d27fa2',
    'float32_nodata/np_custom': 'a6754ddf175b8f495c2dc38be9bf7cc8d1ab11fca6be51a733f04cd71c632b5c',
    'float32_nodata/np_custom_da': '241552dfacd4f668a05ff6969f2567203516c21b3c505ac1c4ff905c7c18bf60',
    'float32_nodata/np_da': 'c35aed8be624f39010dd440a5606da41a3623f828563c5db30f0fc8baad3c89b',
    'float32_nodata/np_df': 'c583f5fd8087a6295f30a2d3f618f195ec83a0322a966b0743c26f957fbaa368',
    'float_zones/ct_count': '7ebf10a9e1e6e9eda24f96f16c4403c0a0bc895998f690bc5d09c0324dae6e88',
    'float_zones/ct_dask': '7ebf10a9e1e6e9eda24f96f16c4403c0a0bc895998f690bc5d09c0324dae6e88',
    'float_zones/ct_percentage': 'b3d32c22f7fda1f5aab84cc708be0f26e05a1f22be047372e348d87a6f4d2255',
    'float_zones/dask_df': '6c65b3bb864849fb4d30fd3def047a9a94efdc3f0a92ef0c71e68b851ac09726',
    'float_zones/np_custom': '7444787e63abc89bed12e3c43f8183be88a2ee071cc2a2a46604d83f04e00bbd',
    'float_zones/np_custom_da': '7f03567e53695bb62ef5a0f7bc7df4bcc68e8c7a61b15a29f1d6c97d7035b47c',
    'float_zones/np_da': 'b6154e5107a6e113506b4fa5df05962c84c8ea5bfb2c8de7511a960bfa1586b2',
    'float_zones/np_df': '2bb87e1532e158f5a8d7b208ba03e5611f59fca98ab03192b429106f02bf9b6e',
    'float_zones_ids/ct_count': '10809b8fe9f17879e56d64bd256f6ced7aebd050c552bcca1d6e50bccc131ef3',
    'float_zones_ids/ct_dask': '10809b8fe9f17879e56d64bd256f6ced7aebd050c552bcca1d6e50bccc131ef3',
    'float_zones_ids/ct_percentage': 'b46de76f65acfb34bc659a6f633f3ee8c3ba267c329edb968a248c0c7369921c',
    'float_zones_ids/dask_count': '8987e712ef2d3338eef0c64d2165307bfe981dbfac32b74ea0b687c1bf9f8f7f',
    'float_zones_ids/dask_count+min+max+mean+sum+var+std': '7ba91971cc034f55dff3cb003b4bf8c8a01a0b51aeface4b1c3a7c45b0de64e4',
    'float_zones_ids/dask_count+sum': 'e84c0f43190ddba2f5ccde4c745e7a953b36a70005bed6b43eb04eba2edc2c71',
    'float_zones_ids/dask_df': '50ce60350c437b8812e5a22f5416705a4710531c57a3b1543d5d9b729b1f9316',
    'float_zones_ids/dask_mean': '61916704b8661110c02457c0e297dc2ba5a9da789c992494f80708e45f40f8c7',
    'float_zones_ids/dask_min': '2aae98ca1431092e294496390e7c265b64e565add3ad1bbbb388fbe7b1493bc9',
    'float_zones_ids/dask_std': '55f1e30b8b40ed51b5b05b89c848eb02c143d4aa0d64cb85202d0fa92982e719',
    'float_zones_ids/dask_std+max': 'bd950f72265933c38a1f265225a1945b8f3770e26ae9cf2602f0e632fa76d947',
    'float_zones_ids/dask_sum': '3b2a3a2b6914790f2a9c4d77eea7a5a335a1e86533044190976ee7463309a66a',
    'float_zones_ids/dask_var': '823cc551ee1cb36e22e490757ee7b1bd918a419c5dd15133878a0a2521b46b03',
    'float_zones_ids/dask_var+std+mean': '7aa4f847f50595ec90d077774405eca792a9bbc3b8bf6cf7ac8f63494e0cc329',
    'float_zones_ids/np_count': '1b1c02ee53896322d9bb3a9604f46384d68df5011d0ef705c32607ebfa7e2cf4',
    'float_zones_ids/np_count+min+max+mean+sum+var+std': '8aa03b58e23f49940aeb9aebc514a8b56246e941860125473460f7641820aefa',
    'float_zones_ids/np_count+sum': 'd63db5013f912ef8a8e206ab5741d9e8151502d8df25e3bbaf80bd13e0b98a1f',
    'float_zones_ids/np_custom': '101a426436ce35bb969d3013c75fb2e2920bd876f11425cc29cba79612578e74',
    'float_zones_ids/np_custom_da': '58b55a9fdf3c76b56a9c687588926e58cbcee5613d97fc4c4d07bfb0cde501c4',
    'float_zones_ids/np_da': '866513f6864a5a2018465703519beb949053ea638423847b07ab5e50135eb49e',
    'float_zones_ids/np_df': '9327bbe4eab66b4ffb5e6d2b2a1f74f37802c4f0a20e077a3923002296ed770b',
    'float_zones_ids/np_mean': '43714eb5d9aa540f13aafd79a9335d2842998f5857ba21ea94f67dda319f2d1b',
    'float_zones_ids/np_min': 'd6d5a58019cdf0c151ea2d95f1e72afb6253987f4d00b4b321c48747db111d6f',
    'float_zones_ids/np_std': 'cdd5bb438bff2016de09fe4bb3e66b20e13d5e265edafa1dccc5cb4992e0182c',
    'float_zones_ids/np_std+max': '4612669fdf2a584aad014eb7ca7f34dd0c2c913d6486c9bf6eb4a5a9b4893bdf',
    'float_zones_ids/np_sum': '887ffd86ced36e889fa5db1d92ebdadb727afaaa74daf7ea825131aa656ac1c4',
    'float_zones_ids/np_var': '2b4afe14371f918b4c4747c2e01934a7ae536be79b14c8b43fcbffa1609b9b2d',
    'float_zones_ids/np_var+std+mean': 'c023b9e542627fd85ba0ff30cf07665fee96bd7669286297a0ba792344519949',
    'float_zones_nodata0/ct_count': 'c9e13f58b3f761dc6ff523638a1413834e5714878edbaf944aa8e60a30e7dd7d',
    'float_zones_nodata0/ct_dask': 'c9e13f58b3f761dc6ff523638a1413834e5714878edbaf944aa8e60a30e7dd7d',
    'float_zones_nodata0/ct_percentage': '24a9873cbdf63c490565b3cbd71310ed6b9e754ab28c231638d20c797fec7694',
    'float_zones_nodata0/dask_df': '36368878d8964c7b0eb20ba82cf759fd7114543cab01a45971287533b2ffaee5',
    'float_zones_nodata0/np_custom': '63acc90401fd854f3c1923a30e92d5ac89edd76a586ebb1606a83cb6e7a15eb6',
    'float_zones_nodata0/np_custom_da': 'c1aed8775e45355f53077c7934b6ed112d35edbc4820a013ce12e2e0cba1f8a7',
    'float_zones_nodata0/np_da': '9a95a0db85e80fb5ad63c30bcf37228901fee804b2ccac117d5628ce47c03890',
    'float_zones_nodata0/np_df': 'b6f0487d2595d6591c4301f21465e62aae071f734a5fbf3af066633cc0b4d771',
    'int_zones_float_vals/ct_count': '8ccc8628f05ea2350539ab847b2b18bede8d98fc416bb80ef4f66853f5e22369',
    'int_zones_float_vals/ct_dask': '8ccc8628f05ea2350539ab847b2b18bede8d98fc416bb80ef4f66853f5e22369',
    'int_zones_float_vals/ct_percentage': 'f26bf20a038b3b3773f5acf39815b1b4ac3cc282123b5df3c8bfdce530e12e79',
    'int_zones_float_vals/dask_df': '134f136f80fd44b17be230a5e14878588a32c9153b0f72ef2178e81b862332e1',
    'int_zones_float_vals/np_custom': '57d53ccd14c77ca9b5ad92f42ae6211a1419a4721bbb6469c9866801dfe3cd21',
    'int_zones_float_vals/np_custom_da': 'e2687287eb07efbb9ee405c2c962e3b60ef0f5dff6e7f68f5bbea123b64d4500',
    'int_zones_float_vals/np_da': '018e550761157e4dc4bdb864d73db2cffd28dd3d72eaa99468f7120bf5d67309',
    'int_zones_float_vals/np_df': 'af208516b85008b2d9618ffd1cb582b01ed16c4c20fe57aaf4034d7059927b2d',
    'int_zones_float_vals_nodata/ct_count': '189d8c72c447d1f33926fb4141d7e12584524b6b63630967d8893c6a3ece9c87',
    'int_zones_float_vals_nodata/ct_dask': '189d8c72c447d1f33926fb4141d7e12584524b6b63630967d8893c6a3ece9c87',
    'int_zones_float_vals_nodata/ct_percentage': '4f948d18d95d66e7d9644ff01417c1e9096e997bc9f61f259fbc71ce82ff4d99',
    'int_zones_float_vals_nodata/dask_count': '4840d5de14e45701e4928ffc1e00f7e76992670b456d6a26f01f42e75a80fb4e',
    'int_zones_float_vals_nodata/dask_count+min+max+mean+sum+var+std': '2cb26ca34d7d098589048e8f24eae6e0aed13f4bf7a0f26a851fd501006689fd',
    'int_zones_float_vals_nodata/dask_count+sum': 'bed8ebd0ea5957ca3ae7591dbf9660d943ceed17fb9d067ff8281c32c99584f6',
    'int_zones_float_vals_nodata/dask_df': '4976893efd07c10be338ff79ad470f5a4d8144c4b64c5d27a7b0308e1ffc4230',
    'int_zones_float_vals_nodata/dask_mean': '34fecc80256ded6499e3f068023e3aae5fd911d82cc0566a386cf99d947358fb',
    'int_zones_float_vals_nodata/dask_min': '5dc8c9955031b38e0ab36cad0831b2fec6542687f4788943ff061c2766d7b68c',
    'int_zones_float_vals_nodata/dask_std': '9750035c02d2b66f7cb8ebb74307ba3cf3c2b92d909c60111b62c588a292d21e',
    'int_zones_float_vals_nodata/dask_std+max': 'd43fff3efa33785eb2d1b2e9339c69008c9f5c75bef3ece9ae8e7a07fc5d5134',
    'int_zones_float_vals_nodata/dask_sum': '00bb10a2e31bb0cea7dc8933a8563febb1a01958a2f1173c121258e800e5e66f',
    'int_zones_float_vals_nodata/dask_var': '352595d979785f3a9f3381f3b6e1fb9d41d9999f622b8ea0e7d3f1df30ae7801',
    'int_zones_float_vals_nodata/dask_var+std+mean': '49c05b92bc2464f7681cbd62a4f4eed4d19a2bb07b562dc6f76354c58ba9fef7',
    'int_zones_float_vals_nodata/np_count': '4840d5de14e45701e4928ffc1e00f7e76992670b456d6a26f01f42e75a80fb4e',
    'int_zones_float_vals_nodata/np_count+min+max+mean+sum+var+std': 'b5c9dc55c287b3ca108ad33f00e91270df71584bf3e182400f1d3cf4533e3386',
    'int_zones_float_vals_nodata/np_count+sum': 'db6bcf5824b47e6ba38bfa1593ee02e72ebc8c87140f7605d2bc674b70947177',
    'int_zones_float_vals_nodata/np_custom': '9940418dec3366feec4408a5e7d5bee594c8298cef8c1d73351753d58507aa23',
    'int_zones_float_vals_nodata/np_custom_da': 'ac9d300528c3e11e24a81820e92cdef27f0e34d2f1aae36667d603713c62ee9b',
    'int_zones_float_vals_nodata/np_da': 'f096149d896a5a556660646530e2e4b34a5890c93544963fb09e64c0984aeab8',
    'int_zones_float_vals_nodata/np_df': '28d8daabfa5bd09ab9428815c50b618a0167e5104bd37f27b31773861d162524',
    'int_zones_float_vals_nodata/np_mean': '3da801353ba0090288b893fca6b4e5fde4552b900f6acbe9fce9eae0dd7b6e46',
    'int_zones_float_vals_nodata/np_min': '5dc8c9955031b38e0ab36cad0831b2fec6542687f4788943ff061c2766d7b68c',
    'int_zones_float_vals_nodata/np_std': '3c5ae982d7f9241b52d67ec37e49eecad53db9abb2cbe0b7d6f73e27d489ddc4',
    'int_zones_float_vals_nodata/np_std+max': 'a9f97e87bf5d122efd947077805290cfcdef1b0e5bf59c82c7673a2f3d621b1b',
    'int_zones_float_vals_nodata/np_sum': 'f668d3fd5e91cbeec256d8b8ed125a5baeec066628bbf6f8d1a66372601ca8c8',
    'int_zones_float_vals_nodata/np_var': '7b0af61aa7bb1e0fbbd354fe2494244b2ae35d4588086fb1f9866430f96208df',
    'int_zones_float_vals_nodata/np_var+std+mean': '84986d0faa11dc7fc568b1e99ad66da9257171455a6ac310d22b2c0abce9febe',
    'int_zones_ids/ct_count': 'cf79432cf289a26186df9fc1d51e967dd69b162f5fbdfeb859a3a50c2b160226',
    'int_zones_ids/ct_dask': 'cf79432cf289a26186df9fc1d51e967dd69b162f5fbdfeb859a3a50c2b160226',
    'int_zones_ids/ct_percentage': 'e9d7722f0071fa2175ca1a821e191e9ff425da3040321184a95f9d13d00a4457',
    'int_zones_ids/dask_df': 'd7195b09d72ce991bfbda3d1500a5ff15a103677085a4de0c9c4bb16fdbe6785',
    'int_zones_ids/np_custom': '119e93fd1ce687a1b406977db8be4060b8bf0afb1ee3044ecdc52421bf964f26',
    'int_zones_ids/np_custom_da': 'c517c8f46dbaaefa479ec7e46e735472704a651e5a83092e28ea6234ce5bcade',
    'int_zones_ids/np_da': '1e1962f6fd55f0b8b5641bc354e53a6d9b199a22beaddfde74bf8c607ec80cfa',
    'int_zones_ids/np_df': 'b38111033bc22824a9e813ab15dbde146a04506255884d4841b47c40c06f2049',
    'int_zones_ids_subset/ct_count': '210e73bccd082c86cc52547293c7ed3266719ddeabaa2594cae7b02639896971',
    'int_zones_ids_subset/ct_dask': '210e73bccd082c86cc52547293c7ed3266719ddeabaa2594cae7b02639896971',
    'int_zones_ids_subset/ct_percentage': '697237adb76cb63372d75387b85c994e64dbb964cc8b3f0af7869382deb8b6e2',
    'int_zones_ids_subset/dask_df': '13d26c4d7dc4c04dcd16829e783102e0e6b5ae9e96ceb1a8af74ca66c2bf81a7',
    'int_zones_ids_subset/np_custom': 'ee275291bbadb4c82905d8427b488c728bcc331f62d3db0d04bd1930c2c256be',
    'int_zones_ids_subset/np_custom_da': '5350d624052a25376b7d9437dbd566b34472f77975745591e4c135ce9b9d6339',
    'int_zones_ids_subset/np_da': 'eb2f57dca7f7b5047b78956cea4929547398839050a4250f1ca5ce8a82433d8b',
    'int_zones_ids_subset/np_df': 'fc09183eca6222429f29b5f384560f288ef703ccc17f00839356557de903a24d',
    'intvals_int16/ct_count': '9475e83c873f16b84ee9d64918ba5c23fac12114db45e31c8fcbc3b911bbd4ae',
    'intvals_int16/ct_dask': '9475e83c873f16b84ee9d64918ba5c23fac12114db45e31c8fcbc3b911bbd4ae',
    'intvals_int16/ct_percentage': '2a7b5304f0aef366b08154a1ffc7b4b2bce55c332b0c661d5b7b3476abce4ad7',
    'intvals_int16/dask_df': 'ee6c8d0ca0c6eee5f60d8a83cbb9a172e868b42dd6103c4f581f217df09e6118',
    'intvals_int16/np_custom': '88410897fb706b35b9465213366351abeb1a92dbd88ed27378b2ea0466959d77',
    'intvals_int16/np_custom_da': 'b3a9f2b2ec4a22a90214c925f2caf0db884e1ea609e26957ac6a7411ba04c1a9',
    'intvals_int16/np_da': '0cada9d3bf4c2e195a977a051f2931111f64bdfacb13e76eb066076d70f757fb',
    'intvals_int16/np_df': 'be401d2628540f3ae42478d8c6461b572af1067f5857d08a1bfc78c2ac3e0b63',
    'intvals_int32/ct_count': '469289a6f57a3c18855b6fc8feb9e1b18b0c0e07a8cc21ecf9bd045d4c92453f',
    'intvals_int32/ct_dask': '469289a6f57a3c18855b6fc8feb9e1b18b0c0e07a8cc21ecf9bd045d4c92453f',
    'intvals_int32/ct_percentage': 'fcde74cbc5c0912a56416df7a1b2cf99403da0b5688a0c60244433bc015660d5',
    'intvals_int32/dask_count': 'c9ba77c7b385ca38718252b2fb07d80af8addd1934ca8cac7bc9f480902c9a57',
    'intvals_int32/dask_count+min+max+mean+sum+var+std': '59bacbc60763d4f9e1bb4f670a82d3bfec4eb042a522206d4e995cce6f2fa08b',
    'intvals_int32/dask_count+sum': 'e8198377d3ada967734677a12b199353a2e0808a26bd9aa6fc66e93323cb3b45',
    'intvals_int32/dask_df': '088c818e5aa8be2b14c929487b3aca59fadb3308a81342a67875ddc58ebf5fc8',
    'intvals_int32/dask_mean': '3820924a8628774713006b7132df07c9e0a74fca97f9614c3bb4f96d8ad3320a',
    'intvals_int32/dask_min': '4ec634877da1d1204068646506cf5aea967721852fa66c112aebad0e6a601a2f',
    'intvals_int32/dask_std': '2fe1af7347152058334a4fd73b3d207dd5f963f256242b94ad271c567043dbee',
    'intvals_int32/dask_std+max': 'f741780ebdd50580e3e6a44b7ae4309298c5d670a5a8cd20350d3e25e26c9da6',
    'intvals_int32/dask_sum': '329ee92d7ea46a9da715642884e1844cde498564bb4164623ba898261b30b762',
    'intvals_int32/dask_var': 'cbcd0f873794a7b029c88f33cb677431e4d72895ccf8c66cbce32ca51dc5943f',
    'intvals_int32/dask_var+std+mean': '2f2a4171e773f5efadf512b1d853d133305cd8c8d8e1168c1a2c329efe9a39ba',
    'intvals_int32/np_count': 'c9ba77c7b385ca38718252b2fb07d80af8addd1934ca8cac7bc9f480902c9a57',
    'intvals_int32/np_count+min+max+mean+sum+var+std': '1fc6132d12f9f4df34c54191b43d9c49e5fd1296a9df6e842c4bf2c840575584',
    'intvals_int32/np_count+sum': 'e8198377d3ada967734677a12b199353a2e0808a26bd9aa6fc66e93323cb3b45',
    'intvals_int32/np_custom': '29ce0083f7e63c4917aed4507f29c7f5162a6707ac62945bb461ef4451865870',
    'intvals_int32/np_custom_da': '3d2192ca7d63acbd54dcb005294aeda87c9c219730c82d9efb482e690011cca5',
    'intvals_int32/np_da': '707c587949201ab40ece0ccbf2aa8adf105b570cd12d0e0fdfc774de6e64c0c5',
    'intvals_int32/np_df': '888b5f5f50ea99813f5f51a9e0ecbdd6f90b9912f4473f13f14d1ec358f362da',
    'intvals_int32/np_mean': '3820924a8628774713006b7132df07c9e0a74fca97f9614c3bb4f96d8ad3320a',
    'intvals_int32/np_min': '4ec634877da1d1204068646506cf5aea967721852fa66c112aebad0e6a601a2f',
    'intvals_int32/np_std': '75e2338549c0a3c190d9f6ef2b3424e0957b56f56512cc3b97aaac2e5ceb559c',
    'intvals_int32/np_std+max': '651c971a6efedef8153bd7e8fe40c4c907b3d0a5eef228fe87a332d6165c21fd',
    'intvals_int32/np_sum': '329ee92d7ea46a9da715642884e1844cde498564bb4164623ba898261b30b762',
    'intvals_int32/np_var': '434f0334f6345fe2429d6725438a2879195f86bb7e4d00f63e071267414ddc1e',
    'intvals_int32/np_var+std+mean': 'dddfcf4c2ad79d68ac417d06c3b40c080c627559ba1a9d9f45129864cc2edeb6',
    'intvals_int64/ct_count': '73d5c1fbb49c1ae6a87b1cf36b296d5b5aaf1789cb8fcbef8df8d9e2de55dfea',
    'intvals_int64/ct_dask': '73d5c1fbb49c1ae6a87b1cf36b296d5b5aaf1789cb8fcbef8df8d9e2de55dfea',
    'intvals_int64/ct_percentage': '2ad91728ed894278787da1d0547b7a8b4222de92ce3441c7eda4231d1cf842f4',
    'intvals_int64/dask_df': '86aedc62affdd3c035a67a0f6c2196795bef64fb16c2861052f9b8eb6a67d04a',
    'intvals_int64/np_custom': '61478dacef0bcb014eca3982dc81aef8629eb4635627ef593c12e91c3f1eaefa',
    'intvals_int64/np_custom_da': 'ba4b24cc4b4aa7da8e2ebd3f78400fe34fa804f037f5fedde73b7635762c9301',
    'intvals_int64/np_da': '54590312e209d82fc6d0ecdea6495363c012aa5039a86cda476df097b58899c8',
    'intvals_int64/np_df': '5a07e0f59d5bd9f6ca284a5a2bdac1e0bfe12c2c119000b5be134293eb9734d2',
    'intvals_uint8/ct_count': '1c8b1c1d35aac839ba84968cfcc2c4708a738aa972cced6e7ea23ac6c1e1419e',
    'intvals_uint8/ct_dask': '1c8b1c1d35aac839ba84968cfcc2c4708a738aa972cced6e7ea23ac6c1e1419e',
    'intvals_uint8/ct_percentage': '602cf3feae6f791f4036486c1f127f9786dfb8e5bc52745b6a3a3834bd9c5fbd',
    'intvals_uint8/dask_df': '253b41ccd891052c5c3a267c2c6943944bbae8d605d69c2ab413d40795b04310',
    'intvals_uint8/np_custom': '3cd89ab8aa6a741392150fa67185528a04e515c286919bcf04a976eef8c7e813',
    'intvals_uint8/np_custom_da': '49a2b7d77e123c27ec1ccb5a7003c6ca80869eb8d8527718a32d2b10e31d3e9e',
    'intvals_uint8/np_da': '345284cccfccb3232b73b0d4b2a40f7d0b20f3a5ec9495e2b996c2777b3a509b',
    'intvals_uint8/np_df': '49fe16ee2b7c0de4969afe54736589f89506467cf49e81257b5020af87521e95',
    'large/ct_count': '1722523b4ed0f43f5d89c4318aaba34623fb01a237bdf545ef1eef6780ffa56f',
    'large/ct_dask': '1722523b4ed0f43f5d89c4318aaba34623fb01a237bdf545ef1eef6780ffa56f',
    'large/ct_percentage': 'f2300dd88358fa4be87da41677ddf94a3d7ea520909f4b4896f98cebc1d6a75a',
    'large/dask_df': 'e57d2d48dd952c0ddd6850dae1ebf227a51aead09d588fb9d79a363d2d29f1cd',
    'large/np_custom': 'e0802ecb074f6024a16bf46e7519a63a236ee902520669a5b8dd4a783cd1c2d0',
    'large/np_custom_da': '82c6bfc8b7db25fae243f95affced0f32f3399c8cce154c6454067cdbd6e92d1',
    'large/np_da': 'cf2f12933671ef2e1932c7f6d8373da9005db6295bc39e9b17d972ee5b775530',
    'large/np_df': '6b4e16ae3b3d3d13d90cf618732fd0182b6ba94f74a38ae1c8f31224b0dad78d',
    'large_ids/ct_count': '6fb53e3e40766f161c57b3ce2643979e2fcb1666b805a5634aeef61ac59081b3',
    'large_ids/ct_dask': '6fb53e3e40766f161c57b3ce2643979e2fcb1666b805a5634aeef61ac59081b3',
    'large_ids/ct_percentage': '17d6a1e7f8d6e5a4855485415c39228e096594ddf56601597f15bcbb2bfbb1fa',
    'large_ids/dask_count': 'a94d975c825f10e75d15a2b4c367154b43ae801d84d200c695964382cf55ef7a',
    'large_ids/dask_count+min+max+mean+sum+var+std': '199502fc135b8b7925c348de9b37eb5fd2238797c0a88aaf6694914934a526f0',
    'large_ids/dask_count+sum': '12478f41127bf89bb26a70c0697b85f312a63d327fcd6732244f0f66351343c3',
    'large_ids/dask_df': 'f99df56d90ba502ff5c1cd2f534660ee3a23739b3c4fdcea59b45a314bffc333',
    'large_ids/dask_mean': '786827495c8766af5fb330b74113a24e170a40d850edce7eb2fff10a9ec010c5',
    'large_ids/dask_min': '8be0c3962c8868a0970d2224835b7a2d0be54b2f890645d47f3eafdf01a867f1',
    'large_ids/dask_std': '0506b44a72898c9d928f242c8ce8add080570afcf21c40c8a96bec738c987b67',
    'large_ids/dask_std+max': 'b2f2819863fa0e07845190f68f24077e1e4a40b541d838e29d684529102a9967',
    'large_ids/dask_sum': '75d7e47dc95ca1fd4657b41742d7d14a3b47f927094229427ba7a797aacebc00',
    'large_ids/dask_var': 'd20fd92e72aedfc0c49bfa533e341128147db1c57bb6b0d4a7668deb3a101fa3',
    'large_ids/dask_var+std+mean': 'a5a86f70bdfa4dab53f11b4cbf77ca92cbc0288b51399e930987b63a9d581ec9',
    'large_ids/np_count': '3fbf85780d2e459113d4ca09a71e281f9a9f356615f60c45c10a53b0d3d1db3b',
    'large_ids/np_count+min+max+mean+sum+var+std': 'b3c6bd4c306e46b3f7d43061763855c4c60d630f931f98feb7ae7fb242c67bf1',
    'large_ids/np_count+sum': '8a34915ecc6b62cdbc6228d77ea6e4ef5b04533f8fbe1aefe314d2b7ae05c403',
    'large_ids/np_custom': '2f6e34769f045423da25ab1e9138f92bf747b56ddbeb7987e8168019940053f2',
    'large_ids/np_custom_da': '1b95d16c9da51d7d5787aae675d1de7f6baf7b80608c79e5b5c45f737cca627c',
    'large_ids/np_da': 'cab4ce6bcc22b857da728c55e239a5976fb738c59ea03b6cb29810d4490096ca',
    'large_ids/np_df': 'ff6bc8b857397d95ee3fe8a5d45cf00f90f70b803acba9b51ef3d34adab441ed',
    'large_ids/np_mean': '63703b9e8b5874903f22d8cf478d6fb678479b5dbd6a3d9c2be1e524ad6906b3',
    'large_ids/np_min': '5443a03a0a66a260e51bd8014b27a5c321005d48bff9d16dd65a6b924faae114',
    'large_ids/np_std': '8158237ec6f3cddb2a5d58b6b7fc8d08fabe7e31948a861a15a30db61a4f5c73',
    'large_ids/np_std+max': '62f62323908ac68c399ea0032a040da8c305440f0c282143e5e2f9c8c76dddae',
    'large_ids/np_sum': '423e37e57e67233a33f39042834f2bce0e3c16a5f42aa81050a61bb7e5db3570',
    'large_ids/np_var': 'ce854d0173b41aff3746a75179a3cfb3d7df9fb17b8eb17b7c0f8a81d2bc42f2',
    'large_ids/np_var+std+mean': '0c7652e4ab71afd74534416907452e5666a0c3b965bfb18ca1aa6444ff22a11f',
    'one_cell/ct_count': 'b4b541d7a19c7f2e0af3f18da3c5b68f4353a3a9467da7abf97bccf1a0eb4b3d',
    'one_cell/ct_dask': 'b4b541d7a19c7f2e0af3f18da3c5b68f4353a3a9467da7abf97bccf1a0eb4b3d',
    'one_cell/ct_percentage': '6aa1a020e08a7658cb70eb4190218e9ada96213154259426375291a67f10d45e',
    'one_cell/dask_df': 'd5aa6658c6712594d1c48a7095d395821544af7db613a232b20c2d19b606f036',
    'one_cell/np_custom': 'a28198ee3379bafc23758e6fb487139fba90bd4cbd5c9962b2bdeb4fd1f1ea4d',
    'one_cell/np_custom_da': 'e27d1ff16e5c831193c1e77091acd9f917b536913487479d7332a64c36f60b6a',
    'one_cell/np_da': 'dbda59d678cafa112ab5b8f5b085b596149067e99285ea3457a3023d463af46f',
    'one_cell/np_df': 'd5aa6658c6712594d1c48a7095d395821544af7db613a232b20c2d19b606f036',
    'one_col/ct_count': '18d066782c0f34e80e726de8be988764067a41c5744f35ce346f38cb29ce16f7',
    'one_col/ct_dask': '18d066782c0f34e80e726de8be988764067a41c5744f35ce346f38cb29ce16f7',
    'one_col/ct_percentage': '1127ad9264c5020d0ee3b8ee24989083c736b476613f977c67eccd9cf1a29e58',
    'one_col/dask_df': 'c4a86908ccef11408431e04356b5cfb723681cd8165877b6198deda283fb0cdb',
    'one_col/np_custom': '7d972bfbb31a3c0432f4434d8bee679ebb84e67ee76cbeefa6e02f96ab1055b7',
    'one_col/np_custom_da': '5720b494ba5c872cbbee41397dce89f3989ff98f25e658cbc13d799d7aef595e',
    'one_col/np_da': '1e2874d461329dc0d3859ae05b157564e81702d0e35537378b4d5b4b291b9d09',
    'one_col/np_df': '577d9fee7052df7d89156f34da547f3c73b01ea49b54c1fcb23d7472a36330bc',
    'one_row/ct_count': '2c441c1133a1e50b1d032a6b8c7992183c89703de0e1998755188df8e6886ee7',
    'one_row/ct_dask': '2c441c1133a1e50b1d032a6b8c7992183c89703de0e1998755188df8e6886ee7',
    'one_row/ct_percentage': 'd861a15ad29f72a4150ac8b7ae1eb113eee779f50264e22c0480b387a6980eb1',
    'one_row/dask_df': '8e6179336bb4f77389b63d4d8535e5016ddc6306ba2720b091e52684cc60c70c',
    'one_row/np_custom': 'a9189003ce5134bcd6a475004cb2f31ee6e9a20b165b079bcfaba9cd75ca77e9',
    'one_row/np_custom_da': 'ae63c1216089a8c593aced2b17099ab609ad20186b06eb6516e69077bfb07ecd',
    'one_row/np_da': 'a75754bf3038cf510077250fa4b45338e989c0baf9703063162cbf4c7d121f49',
    'one_row/np_df': 'a23e52d805428afe80c2f4666c4ec464c4e174cace5d7422fa3e40dea15a6459',
    'single_zone/ct_count': '9a8f91d1875c3f22b32e3829288607f8d4f14f976346c37987d70a04516149bf',
    'single_zone/ct_dask': '9a8f91d1875c3f22b32e3829288607f8d4f14f976346c37987d70a04516149bf',
    'single_zone/ct_percentage': 'a9ef584b1c4cf543fbadb40282c29e009819888a8bb63a9ee962e0dbf3abf771',
    'single_zone/dask_df': '080d11b6754cfd509e924c5d09904cc9b34ab877fcc9c6e18809e5d0ac679aed',
    'single_zone/np_custom': '81c006b4c7c5a545b0c2f0819d91d8cd19a36f1a84b0de052cf73cf458a1b63b',
    'single_zone/np_custom_da': '5f71b00c73a270a95a6ba084b141f4add0f48f7b2befca3ca45cc041dc9edcba',
    'single_zone/np_da': '3715891ac64b1daaa87c65b690f2ae745f8460f7915c8e5074ce3106ae812ac3',
    'single_zone/np_df': '080d11b6754cfd509e924c5d09904cc9b34ab877fcc9c6e18809e5d0ac679aed',
}

if __name__ == '__main__':
    sys.exit(main())
