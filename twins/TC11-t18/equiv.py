"""Differential test for proximity / allocation / direction (numpy + dask).

Usage (from inside the worktree):
    PYTHONPATH=<worktree> python equiv.py            # check, exit 0 if identical
    PYTHONPATH=<worktree> python equiv.py --record   # print digests of this tree

Checks
  1. bit-exact digests (values, dtype, shape; or exception type + message) recorded
     from the UNMODIFIED tree, for calls that vary targets, max_distance, metric,
     output mode, dtype and backend and that are deliberately interleaved;
  2. independent checks: a brute-force distance / nearest-value / compass direction
     for single-target rasters (where the scan algorithm is exact); an unknown or
     missing metric behaves as EUCLIDEAN; max_distance=None behaves as inf;
     repeating a call after all the others gives the identical result.
"""
import hashlib
import sys
import warnings

import dask.array as da
import numpy as np
import xarray as xr

import xrspatial
from xrspatial import allocation, direction, proximity

warnings.filterwarnings('ignore')
MODES = {'prox': proximity, 'alloc': allocation, 'dir': direction}


def digest(a):
    a = np.asarray(a)
    h = hashlib.sha256()
    h.update(str(a.dtype).encode())
    h.update(str(a.shape).encode())
    h.update(np.ascontiguousarray(a).tobytes())
    return h.hexdigest()[:20]


def raster(data, chunks=None, lonlat=False, dims=('y', 'x'), ydesc=True):
    data = np.array(data)
    h, w = data.shape
    if lonlat:
        xs = np.linspace(-170, 170, w)
        ys = np.linspace(80, -80, h)
    else:
        xs = np.arange(w) * 0.5 + 10.0
        ys = (np.arange(h)[::-1] if ydesc else np.arange(h)) * 2.0
    if chunks is not None:
        data = da.from_array(data, chunks=chunks)
    r = xr.DataArray(data, dims=list(dims), attrs={'res': (0.5, 2.0), 'k': 'v'})
    r[dims[0]] = ys
    r[dims[1]] = xs
    return r


def datasets():
    rs = np.random.RandomState(7)
    d = {}
    a = np.zeros((6, 9))
    a[1, 2] = 1
    a[4, 7] = 2
    a[5, 0] = 3
    a[0, 8] = np.nan
    a[3, 3] = np.inf
    d['f64'] = a
    d['f32'] = a.astype(np.float32)
    b = np.zeros((5, 7), dtype=np.int32)
    b[0, 0] = 4
    b[2, 5] = -1
    b[4, 3] = 2
    d['i32'] = b
    d['u8'] = (rs.uniform(size=(7, 5)) > 0.8).astype(np.uint8) * rs.randint(1, 4, size=(7, 5)).astype(np.uint8)
    d['empty'] = np.zeros((3, 4))
    d['single'] = np.zeros((5, 6))
    d['single'][3, 1] = 5.0
    d['row'] = np.array([[0., 1., 0., 0., 2., 0., 0.]])
    return d


def calls():
    """(key, mode, dataset, raster kwargs, call kwargs) - order matters: interleaved."""
    c = []
    for mode in ('prox', 'alloc', 'dir'):
        c.append((mode, 'f64', {}, {}))
        c.append((mode, 'f64', {}, dict(target_values=[2, 3])))
        c.append((mode, 'f32', {}, dict(max_distance=3.0)))
        c.append((mode, 'f64', {}, dict(distance_metric='MANHATTAN')))
        c.append((mode, 'i32', {}, dict(target_values=[-1])))
        c.append((mode, 'f64', dict(chunks=(3, 4)), dict(max_distance=3.0)))
        c.append((mode, 'f64', dict(chunks=(3, 4)), {}))
        c.append((mode, 'f64', dict(lonlat=True), dict(distance_metric='GREAT_CIRCLE')))
        c.append((mode, 'u8', {}, dict(max_distance=2)))
    c += [
        ('prox', 'f64', {}, dict(distance_metric='NO_SUCH_METRIC')),
        ('prox', 'f64', {}, dict(distance_metric=None)),
        ('dir', 'f64', {}, dict(distance_metric='euclidean')),
        ('prox', 'f64', {}, dict(max_distance=None)),
        ('alloc', 'f64', {}, dict(max_distance=None, target_values=[1])),
        ('prox', 'f64', dict(chunks=(2, 9)), dict(max_distance=None)),
        ('prox', 'i32', dict(chunks=(5, 3)), dict(max_distance=1.5, distance_metric='MANHATTAN',
                                                   target_values=[4, 2])),
        ('alloc', 'f64', dict(lonlat=True, chunks=(3, 3)),
         dict(distance_metric='GREAT_CIRCLE', max_distance=3.0e6)),
        ('prox', 'empty', {}, {}),
        ('alloc', 'empty', {}, dict(target_values=[0])),
        ('dir', 'single', {}, {}),
        ('prox', 'single', dict(ydesc=False), {}),
        ('alloc', 'single', {}, dict(distance_metric='MANHATTAN')),
        ('prox', 'row', {}, dict(target_values=[2.0])),
        ('prox', 'f64', dict(dims=('lat', 'lon')), dict(x='lon', y='lat')),
        # errors: message text must stay the same
        ('prox', 'f64', dict(dims=('lat', 'lon')), {}),
        ('dir', 'f64', {}, dict(x='y', y='x')),
        ('alloc', 'f64', dict(dims=('x', 'y')), {}),
        ('prox', 'f64', {}, dict(distance_metric=['EUCLIDEAN'])),
        ('prox', 'f64', {}, dict(distance_metric='GREAT_CIRCLE')),   # coords out of lat range
        # and the very first call again
        ('prox', 'f64', {}, {}),
    ]
    return c


def one(mode, dname, rkw, ckw, D):
    r = raster(D[dname], **rkw)
    before = digest(r.data) if not isinstance(r.data, da.Array) else None
    try:
        out = MODES[mode](r, **ckw)
    except Exception as e:  # noqa
        return 'EXC %s: %s' % (type(e).__name__, str(e)[:200]), None
    note = ''
    if isinstance(r.data, da.Array):
        if not isinstance(out.data, da.Array):
            note = ' NOTLAZY'
        val = out.data.compute()
    else:
        val = out.data
        if digest(r.data) != before:
            note = ' INPUTMODIFIED'
    meta = '%s|%s|%s' % (out.dims, sorted(out.attrs.items()), [k for k in out.coords])
    return digest(val) + ' ' + hashlib.sha256(meta.encode()).hexdigest()[:8] + note, val


def brute(data, xs, ys, metric):
    ty, tx = [int(v[0]) for v in np.nonzero(data)]
    X, Y = np.meshgrid(xs, ys)
    if metric == 'MANHATTAN':
        dist = np.abs(X - xs[tx]) + np.abs(Y - ys[ty])
    else:
        dist = np.hypot(X - xs[tx], Y - ys[ty])
    ang = np.arctan2(-(ys[ty] - Y), xs[tx] - X) * 57.29578   # library's rad->deg constant
    comp = np.where(ang < 0, 90.0 - ang, np.where(ang > 90, 450.0 - ang, 90.0 - ang))
    comp[ty, tx] = 0
    return dist, np.full(data.shape, data[ty, tx]), comp


def run():
    D = datasets()
    got, vals, bad = {}, {}, []
    for n, (mode, dname, rkw, ckw) in enumerate(calls()):
        key = '%02d %s %s %s %s' % (n, mode, dname, sorted(rkw.items()), sorted(ckw.items(), key=str))
        got[key], vals[n] = one(mode, dname, rkw, ckw, D)
        if 'NOTLAZY' in got[key] or 'INPUTMODIFIED' in got[key]:
            bad.append(key + got[key])

    keys = list(got)
    # independent: unknown / None metric == EUCLIDEAN; None max_distance == inf
    base = got[keys[0]].split()[0]
    for n in (27, 28, 30, len(keys) - 1):
        if got[keys[n]].split()[0] != base:
            bad.append('%s: expected to equal the default proximity call' % keys[n])
    if vals[0].dtype != np.float32:
        bad.append('proximity dtype %s' % vals[0].dtype)

    # independent: brute force on single target rasters
    r = raster(D['single'])
    xs, ys = r['x'].values, r['y'].values
    dist, near, comp = brute(D['single'], xs, ys, 'EUCLIDEAN')
    if not np.allclose(vals[37], comp, atol=1e-3):
        bad.append('direction(single) differs from brute force')
    r2 = raster(D['single'], ydesc=False)
    dist2, _, _ = brute(D['single'], r2['x'].values, r2['y'].values, 'EUCLIDEAN')
    if not np.allclose(vals[38], dist2, rtol=1e-6):
        bad.append('proximity(single) differs from brute force')
    if not np.array_equal(vals[39], near):
        bad.append('allocation(single) differs from brute force')
    return got, bad


# recorded from the unmodified tree with --record
EXPECTED = {'00 prox f64 [] []': 'eafc3f84e5c574bd804d 5bac0d73',
 "01 prox f64 [] [('target_values', [2, 3])]": '3170acc0a73aae499997 5bac0d73',
 "02 prox f32 [] [('max_distance', 3.0)]": '9f6c1419b429b663710e 5bac0d73',
 "03 prox f64 [] [('distance_metric', 'MANHATTAN')]": '770a53d9d01db2e7f881 5bac0d73',
 "04 prox i32 [] [('target_values', [-1])]": '55305c2d24fcf5067cd0 5bac0d73',
 "05 prox f64 [('chunks', (3, 4))] [('max_distance', 3.0)]": '9f6c1419b429b663710e 5bac0d73',
 "06 prox f64 [('chunks', (3, 4))] []": 'eafc3f84e5c574bd804d 5bac0d73',
 "07 prox f64 [('lonlat', True)] [('distance_metric', 'GREAT_CIRCLE')]": 'd6d06a114f6022567b71 5bac0d73',
 "08 prox u8 [] [('max_distance', 2)]": '0efc4ddfeabc0443cce3 5bac0d73',
 '09 alloc f64 [] []': '7e18e17143ac6700a7dd 5bac0d73',
 "10 alloc f64 [] [('target_values', [2, 3])]": '256da28cd714a10cb452 5bac0d73',
 "11 alloc f32 [] [('max_distance', 3.0)]": '128472824dfcc99c0089 5bac0d73',
 "12 alloc f64 [] [('distance_metric', 'MANHATTAN')]": 'ae6f5c9c5a2bcdba2f68 5bac0d73',
 "13 alloc i32 [] [('target_values', [-1])]": '7a8cd5704cfa70ed34ca 5bac0d73',
 "14 alloc f64 [('chunks', (3, 4))] [('max_distance', 3.0)]": '128472824dfcc99c0089 5bac0d73',
 "15 alloc f64 [('chunks', (3, 4))] []": '7e18e17143ac6700a7dd 5bac0d73',
 "16 alloc f64 [('lonlat', True)] [('distance_metric', 'GREAT_CIRCLE')]": '5fcc43b2349cfc250009 5bac0d73',
 "17 alloc u8 [] [('max_distance', 2)]": '405dfa45d0ddf41db3cc 5bac0d73',
 '18 dir f64 [] []': '9161842e631b15dc24a6 5bac0d73',
 "19 dir f64 [] [('target_values', [2, 3])]": '57884bd7f92fe4d8f298 5bac0d73',
 "20 dir f32 [] [('max_distance', 3.0)]": '618506093e8501dcbcb7 5bac0d73',
 "21 dir f64 [] [('distance_metric', 'MANHATTAN')]": '03a7160d9513470cc9ac 5bac0d73',
 "22 dir i32 [] [('target_values', [-1])]": '6103ee467e313ba1705f 5bac0d73',
 "23 dir f64 [('chunks', (3, 4))] [('max_distance', 3.0)]": '618506093e8501dcbcb7 5bac0d73',
 "24 dir f64 [('chunks', (3, 4))] []": '9161842e631b15dc24a6 5bac0d73',
 "25 dir f64 [('lonlat', True)] [('distance_metric', 'GREAT_CIRCLE')]": 'e991ed59e2c38d127dad 5bac0d73',
 "26 dir u8 [] [('max_distance', 2)]": '4864f31a771d95a0a175 5bac0d73',
 "27 prox f64 [] [('distance_metric', 'NO_SUCH_METRIC')]": 'eafc3f84e5c574bd804d 5bac0d73',
 "28 prox f64 [] [('distance_metric', None)]": 'eafc3f84e5c574bd804d 5bac0d73',
 "29 dir f64 [] [('distance_metric', 'euclidean')]": '9161842e631b15dc24a6 5bac0d73',
 "30 prox f64 [] [('max_distance', None)]": 'eafc3f84e5c574bd804d 5bac0d73',
 "31 alloc f64 [] [('max_distance', None), ('target_values', [1])]": '2d54bd2d4978ab4776d3 5bac0d73',
 "32 prox f64 [('chunks', (2, 9))] [('max_distance', None)]": 'eafc3f84e5c574bd804d 5bac0d73',
 "33 prox i32 [('chunks', (5, 3))] [('distance_metric', 'MANHATTAN'), ('max_distance', 1.5), ('target_values', [4, 2])]": 'd0b2c4447f29b06c37cb 5bac0d73',
 "34 alloc f64 [('chunks', (3, 3)), ('lonlat', True)] [('distance_metric', 'GREAT_CIRCLE'), ('max_distance', 3000000.0)]": 'EXC ValueError: The overlapping depth 1500000 is larger than your array 6.',
 '35 prox empty [] []': 'b627778b404e96c4a0f4 5bac0d73',
 "36 alloc empty [] [('target_values', [0])]": 'fd04be91b2b250549585 5bac0d73',
 '37 dir single [] []': '9b163fb3e4c547fa09cc 5bac0d73',
 "38 prox single [('ydesc', False)] []": '19c6adf03b32fce0ade4 5bac0d73',
 "39 alloc single [] [('distance_metric', 'MANHATTAN')]": '89c83b30215cfc71296f 5bac0d73',
 "40 prox row [] [('target_values', [2.0])]": '535596377623fab4e69a 5bac0d73',
 "41 prox f64 [('dims', ('lat', 'lon'))] [('x', 'lon'), ('y', 'lat')]": 'eafc3f84e5c574bd804d 073dec43',
 "42 prox f64 [('dims', ('lat', 'lon'))] []": 'EXC ValueError: raster.coords should be named as coordinates:(y, x)',
 "43 dir f64 [] [('x', 'y'), ('y', 'x')]": 'EXC ValueError: raster.coords should be named as coordinates:(x, y)',
 "44 alloc f64 [('dims', ('x', 'y'))] []": 'EXC ValueError: raster.coords should be named as coordinates:(y, x)',
 "45 prox f64 [] [('distance_metric', ['EUCLIDEAN'])]": "EXC TypeError: unhashable type: 'list'",
 "46 prox f64 [] [('distance_metric', 'GREAT_CIRCLE')]": '4c354f0a751c72ecff1b 5bac0d73',
 '47 prox f64 [] []': 'eafc3f84e5c574bd804d 5bac0d73'}


def main():
    got, bad = run()
    if '--record' in sys.argv:
        import pprint
        pprint.pprint(got, width=200)
        print('independent problems:', bad, file=sys.stderr)
        return 0 if not bad else 2
    for k, v in EXPECTED.items():
        if got.get(k) != v:
            bad.append('%s: %s != recorded %s' % (k, got.get(k), v))
    if set(got) != set(EXPECTED):
        bad.append('case set differs')
    print('xrspatial from', xrspatial.__file__)
    print('%d calls' % len(got))
    if bad:
        print('\n'.join(bad[:40]))
        print('FAILED: %d problems' % len(bad))
        return 1
    print('OK')
    return 0


if __name__ == '__main__':
    sys.exit(main())
