"""Differential test for property C09 (focal / convolution / hotspots).

Runs xrspatial.focal.{apply, focal_stats, mean, hotspots} and
xrspatial.convolution.convolution_2d on a deterministic family of inputs
(several dtypes, NaN/inf cells, odd / non-square / asymmetric kernels,
numpy and dask backends) and compares

  1. a sha256 digest of every result (backend type, lazy dtype, chunks,
     name, dims, attrs, computed dtype, shape, raw bytes) against the digests
     recorded from the UNMODIFIED tree (embedded below as EXPECTED), and
  2. a handful of results against an independent pure-numpy reference.

Usage:  cd <worktree> && PYTHONPATH=<worktree> /venv/bin/python equiv.py
        (set RECORD=1 to print the digest table instead of checking it)
Exit status 0 iff everything is identical.
"""
import hashlib
import json
import os
import re
import sys
import warnings

import dask
import dask.array as da
import numpy as np
import xarray as xr

warnings.filterwarnings('ignore')
dask.config.set(scheduler='synchronous')

import xrspatial  # noqa: E402
from xrspatial.convolution import (annulus_kernel, circle_kernel,  # noqa: E402
                                   convolution_2d)
from xrspatial.focal import apply, focal_stats, hotspots, mean  # noqa: E402
from xrspatial.utils import ngjit  # noqa: E402

print('xrspatial from', xrspatial.__file__)


# ----------------------------------------------------------------- inputs
def rasters():
    rng = np.random.RandomState(909)
    out = {}
    a = rng.uniform(-50, 50, (7, 9))
    a[1, 2] = np.nan
    a[6, 8] = np.nan
    a[3, 3:6] = np.nan
    out['f64_nan_7x9'] = a
    b = rng.normal(0, 10, (8, 6)).astype(np.float32)
    b[0, 0] = np.nan
    b[4, 1] = np.inf
    out['f32_naninf_8x6'] = b
    out['i32_5x7'] = rng.randint(-20, 20, (5, 7)).astype(np.int32)
    out['i64_6x6'] = rng.randint(0, 5, (6, 6)).astype(np.int64)
    out['u8_9x5'] = rng.randint(0, 255, (9, 5)).astype(np.uint8)
    out['f64_3x3'] = rng.uniform(0, 1, (3, 3))
    out['f64_1x5'] = rng.uniform(0, 1, (1, 5))
    c = np.zeros((10, 11))
    c[2:5, 2:5] = 1000.
    c[6:9, 6:10] = -1000.
    c[0, 10] = 7.
    out['f64_blobs_10x11'] = c
    big = rng.normal(0, 1, (12, 13))
    big[rng.uniform(size=big.shape) < 0.15] = np.nan
    out['f64_sparse_12x13'] = big
    return out


def kernels():
    rng = np.random.RandomState(99)
    k53 = (rng.uniform(size=(5, 3)) < 0.6).astype(float)
    k53[2, 1] = 1.0
    k35 = (rng.uniform(size=(3, 5)) < 0.5).astype(np.int64)
    return {
        'full3': np.ones((3, 3)),
        'cross3': circle_kernel(1, 1, 1),
        'row_asym': np.array([[1, 1, 0]]),
        'col3': np.array([[1.], [0.], [1.]]),
        'k5x3': k53,
        'k3x5_int': k35,
        'ann5': annulus_kernel(1, 1, 2, 1),
        'k1x1': np.ones((1, 1)),
    }


def weighted_kernels():
    rng = np.random.RandomState(7)
    return {
        'w3': rng.uniform(-1, 1, (3, 3)),
        'w1x3': np.array([[0.25, 0.5, 0.25]]),
        'w5x3_int': rng.randint(-3, 4, (5, 3)),
        'sobel': np.array([[1, 0, -1], [2, 0, -2], [1, 0, -1]], dtype=np.float32),
        'w3x5': rng.normal(size=(3, 5)),
    }


CHUNKS = {'a': (3, 4), 'b': (5, 5), 'c': (100, 100)}


@ngjit
def _red_weighted(w):
    weight = np.array([[0., 0.5, 0.], [0., 1., 0.5], [0., 0.5, 0.]])
    return np.nansum(w * weight)


@ngjit
def _red_count(w):
    n = 0
    for v in w.ravel():
        if not np.isnan(v):
            n += 1
    return n


@ngjit
def _red_first_minus_last(w):
    # depends on the POSITION of the values inside the window
    flat = w.ravel()
    first = np.nan
    last = np.nan
    for i in range(flat.size):
        if not np.isnan(flat[i]):
            if np.isnan(first):
                first = flat[i]
            last = flat[i]
    return first - last + w.shape[0] * 100 + w.shape[1]


# ---------------------------------------------------------------- digests
def digest(res):
    h = hashlib.sha256()
    if isinstance(res, Exception):
        return 'EXC:' + type(res).__name__
    data = res.data
    h.update(type(data).__name__.encode())
    h.update(str(data.dtype).encode())
    if isinstance(data, da.Array):
        h.update(repr(data.chunks).encode())
    # hotspots() on dask inherits the dask graph token as name: strip the hash
    name = res.name if isinstance(res.name, str) else repr(res.name)
    h.update(re.sub(r'-[0-9a-f]{32}$', '-<token>', name).encode())
    h.update(repr(res.dims).encode())
    h.update(repr(sorted((k, str(v)) for k, v in res.attrs.items())).encode())
    h.update(repr(sorted(res.coords)).encode())
    try:
        val = np.ascontiguousarray(np.asarray(res.compute().data))
    except Exception as e:   # lazily raised (dask): still part of the behaviour
        return 'LAZYEXC:' + type(e).__name__
    h.update(str(val.dtype).encode())
    h.update(repr(val.shape).encode())
    h.update(val.tobytes())
    return h.hexdigest()[:20]


def run(fn, *args, **kw):
    try:
        return fn(*args, **kw)
    except Exception as e:  # recorded as part of the behaviour
        return e


def wrap(arr, chunks=None, named=True):
    data = arr if chunks is None else da.from_array(arr, chunks=chunks)
    if not named:
        return xr.DataArray(data)
    h, w = arr.shape
    return xr.DataArray(data, dims=['y', 'x'], name='r',
                        coords={'y': np.arange(h)[::-1] * 2.0, 'x': np.arange(w) * 0.5},
                        attrs={'res': (0.5, 2.0), 'foo': 'bar'})


def collect():
    R, K, W = rasters(), kernels(), weighted_kernels()
    results = {}
    values = {}

    def put(key, res):
        results[key] = digest(res)
        if 'EXC:' not in results[key]:
            values[key] = np.asarray(res.compute().data)

    backends = [('np', None), ('da_a', CHUNKS['a']), ('da_b', CHUNKS['b']), ('da_c', CHUNKS['c'])]

    for rn, arr in R.items():
        for bn, ch in backends:
            agg = wrap(arr, ch)
            # focal.apply / focal_stats
            for kn, k in K.items():
                if bn in ('da_a', 'da_b') and kn not in ('full3', 'row_asym', 'k5x3', 'k3x5_int'):
                    continue
                if k.shape[0] // 2 > min(arr.shape[0], 3) or k.shape[1] // 2 > min(arr.shape[1], 3):
                    if ch is not None:
                        continue   # dask overlap depth larger than chunk: not of interest
                put(f'apply|{rn}|{bn}|{kn}', run(apply, agg, k))
                put(f'stats|{rn}|{bn}|{kn}', run(focal_stats, agg, k))
            put(f'stats2|{rn}|{bn}', run(focal_stats, agg, K['cross3'], stats_funcs=['sum', 'min']))
            put(f'apply_w|{rn}|{bn}', run(apply, agg, K['full3'], _red_weighted, name='ww'))
            put(f'apply_c|{rn}|{bn}', run(apply, agg, K['k3x5_int'], _red_count))
            put(f'apply_p|{rn}|{bn}', run(apply, agg, K['k5x3'], func=_red_first_minus_last))
            # focal.mean
            for passes in (0, 1, 2, 3):
                put(f'mean|{rn}|{bn}|p{passes}', run(mean, agg, passes=passes))
            put(f'mean_ex0|{rn}|{bn}', run(mean, agg, passes=2, excludes=[np.nan, 0.0]))
            put(f'mean_exmixed|{rn}|{bn}', run(mean, agg, passes=1, excludes=[np.nan, 0]))
            put(f'mean_ex1|{rn}|{bn}', run(mean, agg, excludes=[1.0, 3.0], name='m'))
            put(f'mean_exarr|{rn}|{bn}', run(mean, agg, passes=1, excludes=np.array([2.0])))
            # convolution_2d
            for wn, w in W.items():
                put(f'conv|{rn}|{bn}|{wn}', run(convolution_2d, agg, w))
            put(f'conv_k|{rn}|{bn}', run(convolution_2d, agg, K['cross3'], name='cc'))
            # hotspots (+ negation)
            for kn in ('full3', 'cross3', 'row_asym', 'k5x3', 'k3x5_int'):
                put(f'hot|{rn}|{bn}|{kn}', run(hotspots, agg, K[kn]))
                put(f'hotneg|{rn}|{bn}|{kn}', run(hotspots, wrap(-arr.astype(float), ch), K[kn]))
        put(f'apply_unnamed|{rn}', run(apply, wrap(arr, named=False), K['full3']))
        put(f'hot_unnamed|{rn}', run(hotspots, wrap(arr, named=False), K['full3']))

    # non-contiguous memory layouts (F-order raster, strided raster, transposed kernels)
    base = R['f64_nan_7x9']
    lay = {'F': np.asfortranarray(base), 'strided': np.repeat(np.repeat(base, 2, 0), 2, 1)[::2, ::2],
           'T': R['i32_5x7'].T}
    for ln, arr in lay.items():
        for bn, ch in (('np', None), ('da_a', CHUNKS['a'])):
            agg = wrap(arr, ch)
            put(f'lay_conv|{ln}|{bn}', run(convolution_2d, agg, W['w3x5'].T))
            put(f'lay_conv2|{ln}|{bn}', run(convolution_2d, agg, W['w3'][::-1, ::-1]))
            put(f'lay_apply|{ln}|{bn}', run(apply, agg, K['k5x3'].T))
            put(f'lay_stats|{ln}|{bn}', run(focal_stats, agg, K['k3x5_int'].T))
            put(f'lay_mean|{ln}|{bn}', run(mean, agg, passes=2))
            put(f'lay_hot|{ln}|{bn}', run(hotspots, agg, K['k5x3'].T))

    # error paths / degenerate inputs
    const = wrap(np.full((4, 4), 3.0))
    put('hot_const', run(hotspots, const, K['full3']))
    put('hot_bool', run(hotspots, wrap(np.ones((4, 4), dtype=bool)), K['full3']))
    put('hot_3d', run(hotspots, xr.DataArray(np.ones((2, 3, 3))), K['full3']))
    put('hot_notda', run(hotspots, np.ones((3, 3)), K['full3']))
    put('apply_even', run(apply, const, np.ones((2, 3))))
    put('apply_list', run(apply, const, [[1, 1, 1]]))
    put('apply_notda', run(apply, np.ones((3, 3)), K['full3']))
    put('apply_3d', run(apply, xr.DataArray(np.ones((2, 3, 3))), K['full3']))
    put('stats_even', run(focal_stats, const, np.ones((3, 4))))
    put('stats_notda', run(focal_stats, np.ones((3, 3)), K['full3']))
    put('stats_bad', run(focal_stats, const, K['full3'], stats_funcs=['median']))
    put('mean_allnan', run(mean, wrap(np.full((3, 4), np.nan)), passes=2))
    put('apply_allnan', run(apply, wrap(np.full((3, 4), np.nan)), K['cross3']))
    put('apply_zero_kernel', run(apply, const, np.zeros((3, 3))))
    return results, values


# -------------------------------------------------- independent reference
def ref_apply(arr, kernel, stat):
    data = arr.astype(np.float32)
    rows, cols = data.shape
    kr, kc = kernel.shape
    out = np.zeros((rows, cols), dtype=np.float32)
    for y in range(rows):
        for x in range(cols):
            vals = []
            for a in range(kr):
                for b in range(kc):
                    yy, xx = y + a - kr // 2, x + b - kc // 2
                    if 0 <= yy < rows and 0 <= xx < cols and kernel[a, b] == 1:
                        if not np.isnan(data[yy, xx]):
                            vals.append(np.float64(data[yy, xx]))
            out[y, x] = stat(vals) if vals else (0.0 if stat is np.sum else np.nan)
    return out


def ref_conv(arr, kernel):
    data = arr.astype(np.float32)
    rows, cols = data.shape
    kr, kc = kernel.shape
    out = np.full((rows, cols), np.nan, dtype=np.float32)
    for y in range(kr // 2, rows - kr // 2):
        for x in range(kc // 2, cols - kc // 2):
            s = 0.0
            for a in range(kr):
                for b in range(kc):
                    s += float(kernel[a, b]) * float(data[y + a - kr // 2, x + b - kc // 2])
            out[y, x] = s
    return out


def ref_mean(arr, passes, excludes):
    out = arr.astype(float)
    for _ in range(passes):
        new = out.copy()
        rows, cols = out.shape
        for y in range(rows):
            for x in range(cols):
                v = out[y, x]
                if any((v == e) or (np.isnan(v) and np.isnan(e)) for e in excludes):
                    continue
                win = out[max(y - 1, 0):y + 2, max(x - 1, 0):x + 2]
                win = win[~np.isnan(win)]
                new[y, x] = win.sum() / win.size if win.size else np.nan
        out = new
    return out


def ref_hotspots(arr, kernel):
    data = arr.astype(np.float32)
    m = ref_conv(data, kernel / kernel.sum())
    z = (m - np.nanmean(data)) / np.nanstd(data)
    out = np.zeros(z.shape, dtype=np.int8)
    az = np.abs(z)
    out[az > 1.65] = 90
    out[az > 1.96] = 95
    out[az > 2.58] = 99
    return (out * np.sign(np.nan_to_num(z))).astype(np.int8)


def reference_checks(values):
    R, K, W = rasters(), kernels(), weighted_kernels()
    bad = []

    def close(key, ref, **kw):
        if key not in values:
            return
        got = values[key]
        with np.errstate(all='ignore'):
            ok = got.shape == ref.shape and np.allclose(got, ref, equal_nan=True, **kw)
        if not ok:
            bad.append(key)

    for rn in ('f64_nan_7x9', 'i32_5x7', 'u8_9x5', 'f64_sparse_12x13', 'f64_1x5'):
        for bn in ('np', 'da_a'):
            for kn in ('full3', 'row_asym', 'k5x3', 'k3x5_int'):
                key = f'apply|{rn}|{bn}|{kn}'
                if key in values:
                    close(key, ref_apply(R[rn], K[kn], np.mean), rtol=1e-5, atol=1e-5)
                key = f'stats|{rn}|{bn}|{kn}'
                if key in values:
                    ref = np.stack([
                        ref_apply(R[rn], K[kn], f) for f in
                        (np.mean, np.max, np.min, lambda v: np.max(v) - np.min(v),
                         np.std, np.var, np.sum)])
                    close(key, ref, rtol=1e-4, atol=1e-3)
            for wn in ('w3', 'w1x3', 'w5x3_int', 'w3x5'):
                close(f'conv|{rn}|{bn}|{wn}', ref_conv(R[rn], W[wn]), rtol=1e-5, atol=1e-4)
            for p in (0, 1, 2, 3):
                close(f'mean|{rn}|{bn}|p{p}', ref_mean(R[rn], p, [np.nan]), rtol=1e-12, atol=1e-12)
            close(f'mean_ex0|{rn}|{bn}', ref_mean(R[rn], 2, [np.nan, 0]), rtol=1e-12, atol=1e-12)
    for rn in ('f64_blobs_10x11', 'i32_5x7', 'u8_9x5'):
        for kn in ('full3', 'row_asym', 'k5x3'):
            key = f'hot|{rn}|np|{kn}'
            got = values[key]
            if not np.array_equal(got, ref_hotspots(R[rn], K[kn])):
                bad.append(key)
            if not set(np.unique(got)) <= {0, 90, 95, 99, -90, -95, -99}:
                bad.append(key + ':values')
            if not np.array_equal(values[f'hotneg|{rn}|np|{kn}'], -got):
                bad.append(key + ':neg')
    return bad


def classifier_check():
    """z-score classification exactly at / next to the thresholds (kernel-level check)."""
    import xrspatial.focal as F
    bad = []
    t = np.array([0.0, 1.29, 1.65, 1.96, 2.33, 2.58, 5.0])
    for dt in (np.float32, np.float64):
        base = t.astype(dt)
        z = np.concatenate([base, np.nextafter(base, dt(10)), np.nextafter(base, dt(-10)),
                            np.array([np.nan, np.inf, 1e-30], dtype=dt)])
        z = np.concatenate([z, -z]).reshape(4, -1)
        got = F._calc_hotspots_numpy(z)
        z64 = z.astype(np.float64)
        az = np.abs(z64)
        ref = np.zeros(z.shape, dtype=np.int64)
        ref[az > 1.65] = 90
        ref[az > 1.96] = 95
        ref[az > 2.58] = 99
        ref = ref * np.where(z64 > 0, 1, np.where(z64 < 0, -1, 0))
        if got.dtype != np.int8 or not np.array_equal(got, ref):
            bad.append('classifier:' + np.dtype(dt).name)
    return bad


EXPECTED = {
    'apply_3d': 'EXC:ValueError',
    'apply_allnan': '8aa174f1c8a1cfaff8de',
    'apply_c|f32_naninf_8x6|da_a': 'b2b89a298017acfbfeb4',
    'apply_c|f32_naninf_8x6|da_b': '5c6f046f2e4414d38362',
    'apply_c|f32_naninf_8x6|da_c': '7f2393882849c2323b7e',
    'apply_c|f32_naninf_8x6|np': 'a90f43bf0d7d7a504eb4',
    'apply_c|f64_1x5|da_a': '2b20618348c818793b57',
    'apply_c|f64_1x5|da_b': '0347771cf9cf3ff7bd7d',
    'apply_c|f64_1x5|da_c': '0347771cf9cf3ff7bd7d',
    'apply_c|f64_1x5|np': '37f2198118ee70b8c507',
    'apply_c|f64_3x3|da_a': 'bc5b462a1c221d7362ef',
    'apply_c|f64_3x3|da_b': 'bc5b462a1c221d7362ef',
    'apply_c|f64_3x3|da_c': 'bc5b462a1c221d7362ef',
    'apply_c|f64_3x3|np': '25be9581549188e4b0b0',
    'apply_c|f64_blobs_10x11|da_a': 'b7504a6d025515ab3aff',
    'apply_c|f64_blobs_10x11|da_b': '5557898732cc73b21c3e',
    'apply_c|f64_blobs_10x11|da_c': '67a03b2427378bcd10ac',
    'apply_c|f64_blobs_10x11|np': 'f8f7cbf64f53b919da71',
    'apply_c|f64_nan_7x9|da_a': '2e0aa90b23bfa31382dc',
    'apply_c|f64_nan_7x9|da_b': '10d27db91836f4883351',
    'apply_c|f64_nan_7x9|da_c': 'b52deffda8df6ccb841e',
    'apply_c|f64_nan_7x9|np': '70ce635f19eaf88418ce',
    'apply_c|f64_sparse_12x13|da_a': '3c2326b53622c5c0e3e2',
    'apply_c|f64_sparse_12x13|da_b': 'a55ff8b9b5d68f635606',
    'apply_c|f64_sparse_12x13|da_c': 'a9718a0e0566782e1706',
    'apply_c|f64_sparse_12x13|np': '0998d1ba4bb9a51a0f86',
    'apply_c|i32_5x7|da_a': '06404bc3dc45486f50e7',
    'apply_c|i32_5x7|da_b': '248ec2a121f2c81ca483',
    'apply_c|i32_5x7|da_c': '8a6414a0c4dd7d8f0891',
    'apply_c|i32_5x7|np': '03c67d60f051d939b66f',
    'apply_c|i64_6x6|da_a': '12034a00f7f85d8cec1d',
    'apply_c|i64_6x6|da_b': '74b056cc58f9b8772f9f',
    'apply_c|i64_6x6|da_c': '9f98c7a7e6a054d3d7f9',
    'apply_c|i64_6x6|np': '31b20b4987d3e9df2a13',
    'apply_c|u8_9x5|da_a': '320766fe47eaee979880',
    'apply_c|u8_9x5|da_b': 'e6cef5bb96387876db5e',
    'apply_c|u8_9x5|da_c': '37c8460542ad99ec92c7',
    'apply_c|u8_9x5|np': '017da76605af2b53a345',
    'apply_even': 'EXC:ValueError',
    'apply_list': 'EXC:ValueError',
    'apply_notda': 'EXC:TypeError',
    'apply_p|f32_naninf_8x6|da_a': '2b136ce03d326ce49d78',
    'apply_p|f32_naninf_8x6|da_b': 'a1033c3679b043cf944a',
    'apply_p|f32_naninf_8x6|da_c': '199ef2763015faebed8c',
    'apply_p|f32_naninf_8x6|np': '2e57e9cc7637b28544ab',
    'apply_p|f64_1x5|da_a': 'EXC:ValueError',
    'apply_p|f64_1x5|da_b': 'EXC:ValueError',
    'apply_p|f64_1x5|da_c': 'EXC:ValueError',
    'apply_p|f64_1x5|np': '82689afd628eeb089bc2',
    'apply_p|f64_3x3|da_a': 'dbbc08ff52075fedf194',
    'apply_p|f64_3x3|da_b': 'dbbc08ff52075fedf194',
    'apply_p|f64_3x3|da_c': 'dbbc08ff52075fedf194',
    'apply_p|f64_3x3|np': '707c93fff288338b610e',
    'apply_p|f64_blobs_10x11|da_a': 'c26d358056009a8a9b0c',
    'apply_p|f64_blobs_10x11|da_b': 'a89b7e63af2c06ca370b',
    'apply_p|f64_blobs_10x11|da_c': '2a8c1c08cf0fad6c0358',
    'apply_p|f64_blobs_10x11|np': 'c39c098f25447c960fa6',
    'apply_p|f64_nan_7x9|da_a': '9312b960bb2f13814f7b',
    'apply_p|f64_nan_7x9|da_b': 'b47c48a561fd8c72462f',
    'apply_p|f64_nan_7x9|da_c': '8135c6707bd08d1b8789',
    'apply_p|f64_nan_7x9|np': '34e361e573cbd3498aed',
    'apply_p|f64_sparse_12x13|da_a': '37ea033a081e401ab749',
    'apply_p|f64_sparse_12x13|da_b': 'a6183dd81a0d90909109',
    'apply_p|f64_sparse_12x13|da_c': 'c23e23588a5b96191760',
    'apply_p|f64_sparse_12x13|np': 'fd39531012ecfe562a08',
    'apply_p|i32_5x7|da_a': '5eb6b2f306b6c79e3b9f',
    'apply_p|i32_5x7|da_b': '5a031e817b942e7acaa6',
    'apply_p|i32_5x7|da_c': '59756273a6b5e66604b1',
    'apply_p|i32_5x7|np': '36a1a76729fad1ffbffb',
    'apply_p|i64_6x6|da_a': '12c48361a6c96b97d3b5',
    'apply_p|i64_6x6|da_b': 'aeb11bd195162083618b',
    'apply_p|i64_6x6|da_c': '2dd5fe6d24c76fc9cc25',
    'apply_p|i64_6x6|np': 'a2b2b237231b49df12ef',
    'apply_p|u8_9x5|da_a': '33857abc94eb50571309',
    'apply_p|u8_9x5|da_b': 'cc0e623aec94082ba23a',
    'apply_p|u8_9x5|da_c': '660a57ebb4bc8249bf3b',
    'apply_p|u8_9x5|np': '52a1c058d92b928452ae',
    'apply_unnamed|f32_naninf_8x6': 'da64f1f03ecd689702eb',
    'apply_unnamed|f64_1x5': '81b9525b92e56a15fb6b',
    'apply_unnamed|f64_3x3': '1c58bebb8883ba155907',
    'apply_unnamed|f64_blobs_10x11': 'f33d38f3e3619f97b4e0',
    'apply_unnamed|f64_nan_7x9': '31985a0fb1d114b524dd',
    'apply_unnamed|f64_sparse_12x13': '629be612c47ae0f415c4',
    'apply_unnamed|i32_5x7': '34825d86163fb44e5b70',
    'apply_unnamed|i64_6x6': '369d147e3251001b5bb5',
    'apply_unnamed|u8_9x5': 'be6bb08b1392d780201b',
    'apply_w|f32_naninf_8x6|da_a': '9e03a30a55862d2dffd9',
    'apply_w|f32_naninf_8x6|da_b': '06f6ec8f477965932352',
    'apply_w|f32_naninf_8x6|da_c': '47c379b658015316f113',
    'apply_w|f32_naninf_8x6|np': 'aeccf8994b4f0b1c29eb',
    'apply_w|f64_1x5|da_a': '97889c74e25774135f5e',
    'apply_w|f64_1x5|da_b': 'cb362a2bc35e81d8c235',
    'apply_w|f64_1x5|da_c': 'cb362a2bc35e81d8c235',
    'apply_w|f64_1x5|np': '3045269b502157102d83',
    'apply_w|f64_3x3|da_a': 'ff8fff34f6c833f388d0',
    'apply_w|f64_3x3|da_b': 'ff8fff34f6c833f388d0',
    'apply_w|f64_3x3|da_c': 'ff8fff34f6c833f388d0',
    'apply_w|f64_3x3|np': 'c3159694019680e039ca',
    'apply_w|f64_blobs_10x11|da_a': 'dfd4438654ad1a1f84fc',
    'apply_w|f64_blobs_10x11|da_b': '29671684e88b0190f2f1',
    'apply_w|f64_blobs_10x11|da_c': '4e2c0e60f5388664672e',
    'apply_w|f64_blobs_10x11|np': '42db4d11de516a2640fe',
    'apply_w|f64_nan_7x9|da_a': 'ec284ac5187cffdf867a',
    'apply_w|f64_nan_7x9|da_b': '1edac9871bb3b1f53632',
    'apply_w|f64_nan_7x9|da_c': 'e1734156d64078abcbc9',
    'apply_w|f64_nan_7x9|np': 'e2bbe6502a59fa17326b',
    'apply_w|f64_sparse_12x13|da_a': 'd5191d1f156451bdb389',
    'apply_w|f64_sparse_12x13|da_b': '60dd9ea96b842e291665',
    'apply_w|f64_sparse_12x13|da_c': 'a6774e645eb1cbf62226',
    'apply_w|f64_sparse_12x13|np': 'e641c47a95b7aadef0c0',
    'apply_w|i32_5x7|da_a': 'a48e6d7b2335b8bf3097',
    'apply_w|i32_5x7|da_b': '96add2bb3114a003cd35',
    'apply_w|i32_5x7|da_c': '87f75ab7236e8fa54330',
    'apply_w|i32_5x7|np': '8cc32b054a7ab90f1b99',
    'apply_w|i64_6x6|da_a': '0d272720c185cf8c8265',
    'apply_w|i64_6x6|da_b': 'a7f02e59ef40178c5f93',
    'apply_w|i64_6x6|da_c': '12b26d5d835f1655c2e7',
    'apply_w|i64_6x6|np': 'e15b294ee7eaf34883ed',
    'apply_w|u8_9x5|da_a': 'a98376c3db690983978d',
    'apply_w|u8_9x5|da_b': '02a159a0c6bad575e079',
    'apply_w|u8_9x5|da_c': '0a5efd6355208bb61519',
    'apply_w|u8_9x5|np': 'd7271306c17f983cf10e',
    'apply_zero_kernel': 'e5943aebc556bd35b138',
    'apply|f32_naninf_8x6|da_a|full3': 'bdc60da5a62c4f51a400',
    'apply|f32_naninf_8x6|da_a|k3x5_int': 'ca69a05512e5f91f06dc',
    'apply|f32_naninf_8x6|da_a|k5x3': '27bb0eeff9ea7ec5bc3f',
    'apply|f32_naninf_8x6|da_a|row_asym': 'f6db5baed8f79f0dc992',
    'apply|f32_naninf_8x6|da_b|full3': '7ee8b1172d2314d299db',
    'apply|f32_naninf_8x6|da_b|k3x5_int': '18ce1e856b0022a034ff',
    'apply|f32_naninf_8x6|da_b|k5x3': 'a57298c93d187e579e98',
    'apply|f32_naninf_8x6|da_b|row_asym': 'ccce231b005cb05edbf9',
    'apply|f32_naninf_8x6|da_c|ann5': '61e9286911c27545d7e2',
    'apply|f32_naninf_8x6|da_c|col3': 'b3d22649f21dae31e100',
    'apply|f32_naninf_8x6|da_c|cross3': '919d4327d648150adc7b',
    'apply|f32_naninf_8x6|da_c|full3': 'fdc764cfffc83dbc07c5',
    'apply|f32_naninf_8x6|da_c|k1x1': 'dc03ce666f8f8e0c593b',
    'apply|f32_naninf_8x6|da_c|k3x5_int': 'b4e469c1f09258c96f13',
    'apply|f32_naninf_8x6|da_c|k5x3': '63392cc533c05100fbcd',
    'apply|f32_naninf_8x6|da_c|row_asym': '11803ae5549eaac7cb41',
    'apply|f32_naninf_8x6|np|ann5': '25e2574b0b5b82b71e5e',
    'apply|f32_naninf_8x6|np|col3': '07fdf34fe33d94ea45fb',
    'apply|f32_naninf_8x6|np|cross3': '8ca0ba666a8ac124c036',
    'apply|f32_naninf_8x6|np|full3': 'd8f810be36b186d5c06d',
    'apply|f32_naninf_8x6|np|k1x1': '2e40cea402a957a39010',
    'apply|f32_naninf_8x6|np|k3x5_int': 'bdda914fc01c4489d1b3',
    'apply|f32_naninf_8x6|np|k5x3': '9108e8c2bc4752050fa4',
    'apply|f32_naninf_8x6|np|row_asym': '8720d3c59826da2f17e8',
    'apply|f64_1x5|da_a|full3': '25262ca947ad54fbd2ea',
    'apply|f64_1x5|da_a|k3x5_int': 'e0985b61c598e5b1c7d1',
    'apply|f64_1x5|da_a|row_asym': '393b3e8005561c92c6f3',
    'apply|f64_1x5|da_b|full3': 'cff8763bf8c9cc191382',
    'apply|f64_1x5|da_b|k3x5_int': '062ff11631ed6b0b194a',
    'apply|f64_1x5|da_b|row_asym': '10f08c94a2034befa259',
    'apply|f64_1x5|da_c|col3': 'bd899585229cd17c38a7',
    'apply|f64_1x5|da_c|cross3': 'cff8763bf8c9cc191382',
    'apply|f64_1x5|da_c|full3': 'cff8763bf8c9cc191382',
    'apply|f64_1x5|da_c|k1x1': '794c72df76cf5cc52aee',
    'apply|f64_1x5|da_c|k3x5_int': '062ff11631ed6b0b194a',
    'apply|f64_1x5|da_c|row_asym': '10f08c94a2034befa259',
    'apply|f64_1x5|np|ann5': 'bf39084985f2b424a81d',
    'apply|f64_1x5|np|col3': '69cfbe3df83f4652ed44',
    'apply|f64_1x5|np|cross3': 'cb6f5d1b3429d8ae332d',
    'apply|f64_1x5|np|full3': 'cb6f5d1b3429d8ae332d',
    'apply|f64_1x5|np|k1x1': '4a5faba75e09754f1492',
    'apply|f64_1x5|np|k3x5_int': 'f0b0c5bd7cb44f81a26f',
    'apply|f64_1x5|np|k5x3': '1aced56c8a0a0daa61be',
    'apply|f64_1x5|np|row_asym': '1aced56c8a0a0daa61be',
    'apply|f64_3x3|da_a|full3': '22cb342e8c9c878994f7',
    'apply|f64_3x3|da_a|k3x5_int': '6ccbab280788e51aabfe',
    'apply|f64_3x3|da_a|k5x3': '801ee22abe51a7b224dd',
    'apply|f64_3x3|da_a|row_asym': 'f86a46459d6449140cf7',
    'apply|f64_3x3|da_b|full3': '22cb342e8c9c878994f7',
    'apply|f64_3x3|da_b|k3x5_int': '6ccbab280788e51aabfe',
    'apply|f64_3x3|da_b|k5x3': '801ee22abe51a7b224dd',
    'apply|f64_3x3|da_b|row_asym': 'f86a46459d6449140cf7',
    'apply|f64_3x3|da_c|ann5': '944bfb664fc37232af4a',
    'apply|f64_3x3|da_c|col3': 'ce6078657ce5d5e56743',
    'apply|f64_3x3|da_c|cross3': '16e0f2f995e3b30747d7',
    'apply|f64_3x3|da_c|full3': '22cb342e8c9c878994f7',
    'apply|f64_3x3|da_c|k1x1': 'dc503ebe47539202fff5',
    'apply|f64_3x3|da_c|k3x5_int': '6ccbab280788e51aabfe',
    'apply|f64_3x3|da_c|k5x3': '801ee22abe51a7b224dd',
    'apply|f64_3x3|da_c|row_asym': 'f86a46459d6449140cf7',
    'apply|f64_3x3|np|ann5': '0f0cfbd9c4122710c4c8',
    'apply|f64_3x3|np|col3': '6c2861f6cdf17596cfb4',
    'apply|f64_3x3|np|cross3': 'f36135e04eaa08947e82',
    'apply|f64_3x3|np|full3': '07c83e8ec023df4769bd',
    'apply|f64_3x3|np|k1x1': 'e0f5093b4ee9bd36aaf5',
    'apply|f64_3x3|np|k3x5_int': 'bed12fefb4e0def2198a',
    'apply|f64_3x3|np|k5x3': '8d8e9ac8133c63571e1c',
    'apply|f64_3x3|np|row_asym': '3ec9a48f9042bd611e3f',
    'apply|f64_blobs_10x11|da_a|full3': 'b1a191a84c8a604eca5f',
    'apply|f64_blobs_10x11|da_a|k3x5_int': 'd1ab2ee44db24f3b316f',
    'apply|f64_blobs_10x11|da_a|k5x3': '462b1f0d7fcaaa162610',
    'apply|f64_blobs_10x11|da_a|row_asym': 'ef958c068a0c718322fd',
    'apply|f64_blobs_10x11|da_b|full3': 'dc752d1405d4e0f254cf',
    'apply|f64_blobs_10x11|da_b|k3x5_int': 'fb427958ff5792f5625d',
    'apply|f64_blobs_10x11|da_b|k5x3': 'a05e3a8281dcf8ea6812',
    'apply|f64_blobs_10x11|da_b|row_asym': '2c957bc97bdf642fdc03',
    'apply|f64_blobs_10x11|da_c|ann5': '5966f7705c34a931a9dc',
    'apply|f64_blobs_10x11|da_c|col3': '10259bd13c9498479101',
    'apply|f64_blobs_10x11|da_c|cross3': 'cca02f42470209327a82',
    'apply|f64_blobs_10x11|da_c|full3': '1b12b7667f3e15ae4005',
    'apply|f64_blobs_10x11|da_c|k1x1': '0698219f9419798e4020',
    'apply|f64_blobs_10x11|da_c|k3x5_int': '800223a61a5195efcf0a',
    'apply|f64_blobs_10x11|da_c|k5x3': '626a5ae84c276e7cb359',
    'apply|f64_blobs_10x11|da_c|row_asym': 'eaa7eab5f7b9ea994061',
    'apply|f64_blobs_10x11|np|ann5': 'ea90051b75122c8510da',
    'apply|f64_blobs_10x11|np|col3': '6bbf4c12e15c96b268b4',
    'apply|f64_blobs_10x11|np|cross3': 'b209aeb101fe4ae94fbf',
    'apply|f64_blobs_10x11|np|full3': 'cd0681ca915eec5acc4e',
    'apply|f64_blobs_10x11|np|k1x1': '73fa838e99d2fc5859a8',
    'apply|f64_blobs_10x11|np|k3x5_int': '92e1068429c2a6badf8f',
    'apply|f64_blobs_10x11|np|k5x3': '3a2410b4b754ea6e27ff',
    'apply|f64_blobs_10x11|np|row_asym': '771917707e9373c8898d',
    'apply|f64_nan_7x9|da_a|full3': '9a8ccd4ad549e6cf6035',
    'apply|f64_nan_7x9|da_a|k3x5_int': 'b925fbcb6129c4af200e',
    'apply|f64_nan_7x9|da_a|k5x3': '5942f923ab853746e625',
    'apply|f64_nan_7x9|da_a|row_asym': 'cce01e85ab5056df7134',
    'apply|f64_nan_7x9|da_b|full3': 'b32d8c57054c3af43f56',
    'apply|f64_nan_7x9|da_b|k3x5_int': '414b820bfc7e40568ec3',
    'apply|f64_nan_7x9|da_b|k5x3': '0cf2d03793f1ee8fdcd2',
    'apply|f64_nan_7x9|da_b|row_asym': 'b19873e2ef595080ce9d',
    'apply|f64_nan_7x9|da_c|ann5': 'ae6e6b661a0815f27103',
    'apply|f64_nan_7x9|da_c|col3': '7160e68cb5366029b348',
    'apply|f64_nan_7x9|da_c|cross3': 'd0cc2926c362378d1aaf',
    'apply|f64_nan_7x9|da_c|full3': '0b620fb7319a48f91463',
    'apply|f64_nan_7x9|da_c|k1x1': '3cf945bc801547e6d004',
    'apply|f64_nan_7x9|da_c|k3x5_int': 'a10e94a280e41b74f514',
    'apply|f64_nan_7x9|da_c|k5x3': 'e702becff2883c81abde',
    'apply|f64_nan_7x9|da_c|row_asym': '8e316fdcad5726ac62dd',
    'apply|f64_nan_7x9|np|ann5': 'f78f0f7e5d0520912e79',
    'apply|f64_nan_7x9|np|col3': '7499136adfb095e180e2',
    'apply|f64_nan_7x9|np|cross3': '2539dd430c06a6505d06',
    'apply|f64_nan_7x9|np|full3': '50415d5294cc2159f3b1',
    'apply|f64_nan_7x9|np|k1x1': 'bf97ba9e4b5229e1503a',
    'apply|f64_nan_7x9|np|k3x5_int': 'cc6f6008113eadd79948',
    'apply|f64_nan_7x9|np|k5x3': '1584ba738d3ccf2aeabb',
    'apply|f64_nan_7x9|np|row_asym': '954b702e8ba48fcfed34',
    'apply|f64_sparse_12x13|da_a|full3': '2b017b62329ed2cd81e1',
    'apply|f64_sparse_12x13|da_a|k3x5_int': 'b58b316fbce3d87913c4',
    'apply|f64_sparse_12x13|da_a|k5x3': '96947053c3c244da04fa',
    'apply|f64_sparse_12x13|da_a|row_asym': 'bb2b4a615570b3faaac0',
    'apply|f64_sparse_12x13|da_b|full3': '2cfcee380667d4ef3e74',
    'apply|f64_sparse_12x13|da_b|k3x5_int': '9f87bf40b444d6a323b7',
    'apply|f64_sparse_12x13|da_b|k5x3': 'b8768bacbcae2e497ba4',
    'apply|f64_sparse_12x13|da_b|row_asym': '96e66b013915734dba81',
    'apply|f64_sparse_12x13|da_c|ann5': '7ff0e318db731daab7e9',
    'apply|f64_sparse_12x13|da_c|col3': 'bc77e9967abef6f47543',
    'apply|f64_sparse_12x13|da_c|cross3': 'cae4587b4cf4d5ba3184',
    'apply|f64_sparse_12x13|da_c|full3': '587e388a2bde4c8eba24',
    'apply|f64_sparse_12x13|da_c|k1x1': 'b2ef5d83caf28e6c8ab6',
    'apply|f64_sparse_12x13|da_c|k3x5_int': 'b7821055f957368a0386',
    'apply|f64_sparse_12x13|da_c|k5x3': '9275e5286040af886a0c',
    'apply|f64_sparse_12x13|da_c|row_asym': '5fb8fa18a79556451183',
    'apply|f64_sparse_12x13|np|ann5': '2e0faf3c5269618c912b',
    'apply|f64_sparse_12x13|np|col3': '10e56d76300dc9fc2c50',
    'apply|f64_sparse_12x13|np|cross3': 'eb69944cdedff81ce5bc',
    'apply|f64_sparse_12x13|np|full3': '846b17d6ae48976f66a1',
    'apply|f64_sparse_12x13|np|k1x1': 'a9a1c4f84ca960d80df6',
    'apply|f64_sparse_12x13|np|k3x5_int': '48e24294c3d69eae84a6',
    'apply|f64_sparse_12x13|np|k5x3': '49d070c72b9479a15212',
    'apply|f64_sparse_12x13|np|row_asym': '8f55517fed3746ab1161',
    'apply|i32_5x7|da_a|full3': '8feaf11ccc3ebd779c69',
    'apply|i32_5x7|da_a|k3x5_int': '4336455257de3bd43ad5',
    'apply|i32_5x7|da_a|k5x3': 'a56f5a18800ab0a1e682',
    'apply|i32_5x7|da_a|row_asym': '1954a8b13c7777ed16c8',
    'apply|i32_5x7|da_b|full3': 'b783518a4d6250406335',
    'apply|i32_5x7|da_b|k3x5_int': '75e844c6d88870038263',
    'apply|i32_5x7|da_b|k5x3': 'e63ede262dac1a7a7576',
    'apply|i32_5x7|da_b|row_asym': 'a38c095d86384f22a53c',
    'apply|i32_5x7|da_c|ann5': '34be053519938751dfaa',
    'apply|i32_5x7|da_c|col3': 'f5f5a73a1b5197bd4d63',
    'apply|i32_5x7|da_c|cross3': '445b9088d32dae38c3f3',
    'apply|i32_5x7|da_c|full3': 'd42202ed408a132eb1ce',
    'apply|i32_5x7|da_c|k1x1': '7d83ef5f2d41e5f55ec6',
    'apply|i32_5x7|da_c|k3x5_int': 'e250b2598b622c07967d',
    'apply|i32_5x7|da_c|k5x3': '71b31c4810b69a5dd3d6',
    'apply|i32_5x7|da_c|row_asym': '36339ecc6753767c1c3b',
    'apply|i32_5x7|np|ann5': '2089e29283e5686431a7',
    'apply|i32_5x7|np|col3': 'ba2a3c7c595c21ddf88b',
    'apply|i32_5x7|np|cross3': '9144416ca3cc625d79c9',
    'apply|i32_5x7|np|full3': '6fb5e606874281c49366',
    'apply|i32_5x7|np|k1x1': '8df5d4df84caf5cdd23f',
    'apply|i32_5x7|np|k3x5_int': '4c0d35899eb2f558ac19',
    'apply|i32_5x7|np|k5x3': '0fe7e3d116ea1409b49f',
    'apply|i32_5x7|np|row_asym': 'c76b4aa99f1db256f5e0',
    'apply|i64_6x6|da_a|full3': '833c04c2e98bf97693de',
    'apply|i64_6x6|da_a|k3x5_int': '9f843db5e0a646f03b69',
    'apply|i64_6x6|da_a|k5x3': '53133d081ca625dd5ba2',
    'apply|i64_6x6|da_a|row_asym': 'daefc19650c2a93f5a4c',
    'apply|i64_6x6|da_b|full3': 'b4c70a24608bfbe6743a',
    'apply|i64_6x6|da_b|k3x5_int': '390c89c1b94d4c734739',
    'apply|i64_6x6|da_b|k5x3': 'fa227f8ed13a3324ee82',
    'apply|i64_6x6|da_b|row_asym': '1361b95bf1795d3e2dfd',
    'apply|i64_6x6|da_c|ann5': 'f91bd5201cc335232176',
    'apply|i64_6x6|da_c|col3': '875d68d87483e40b8a66',
    'apply|i64_6x6|da_c|cross3': '4f5dd347111c5c511390',
    'apply|i64_6x6|da_c|full3': '62c9682e2dcac4f05ac5',
    'apply|i64_6x6|da_c|k1x1': '0482d5aaf8030f073e63',
    'apply|i64_6x6|da_c|k3x5_int': '1b03ccf1d6014c0e43c5',
    'apply|i64_6x6|da_c|k5x3': '12347ce6df523b0c51ce',
    'apply|i64_6x6|da_c|row_asym': '85027d0ae8acb0517aa8',
    'apply|i64_6x6|np|ann5': '975f4b74b221ca95077f',
    'apply|i64_6x6|np|col3': '5b0a5d358a137d1b4501',
    'apply|i64_6x6|np|cross3': '12b21a439308fc1f0ac3',
    'apply|i64_6x6|np|full3': '762946ec62d8e754cc38',
    'apply|i64_6x6|np|k1x1': 'b49048a8631a5d5c1ac0',
    'apply|i64_6x6|np|k3x5_int': '1db141817317dd3607e4',
    'apply|i64_6x6|np|k5x3': '462d309937146d201ac2',
    'apply|i64_6x6|np|row_asym': '2abd3b10660576c1b255',
    'apply|u8_9x5|da_a|full3': '24b909f3d35560c3a698',
    'apply|u8_9x5|da_a|k3x5_int': 'd3334abaea8e78b1605f',
    'apply|u8_9x5|da_a|k5x3': '05eeb9572754994d0083',
    'apply|u8_9x5|da_a|row_asym': '441a59f1b5bf95d8dc82',
    'apply|u8_9x5|da_b|full3': '3c67636c90d0112f8a4b',
    'apply|u8_9x5|da_b|k3x5_int': 'eae56597b74b5c220f51',
    'apply|u8_9x5|da_b|k5x3': 'e08e94fd7c5f3436ac7c',
    'apply|u8_9x5|da_b|row_asym': '91d5d40e51a95f6bf465',
    'apply|u8_9x5|da_c|ann5': '1d6313fbbed4018aeb05',
    'apply|u8_9x5|da_c|col3': '448aa114ab5252bc9826',
    'apply|u8_9x5|da_c|cross3': 'cb0fa74fcecdcbe6559c',
    'apply|u8_9x5|da_c|full3': '0437f8f4f04af7fa8775',
    'apply|u8_9x5|da_c|k1x1': '70a7a9a0da51c211ab4b',
    'apply|u8_9x5|da_c|k3x5_int': 'a2fefa3b1c6f067a053d',
    'apply|u8_9x5|da_c|k5x3': '9cde4fc013bff833eaaa',
    'apply|u8_9x5|da_c|row_asym': '5d3c5524eaadfe7d3cb8',
    'apply|u8_9x5|np|ann5': '8e9e240d25d748a40af6',
    'apply|u8_9x5|np|col3': 'c34a37ebd8bedd13679b',
    'apply|u8_9x5|np|cross3': 'd2f9f0f1fb0556d5fc6d',
    'apply|u8_9x5|np|full3': '5e5f3d0bdcd99c178c07',
    'apply|u8_9x5|np|k1x1': 'd0e5f2ebc7e1d61c7b7e',
    'apply|u8_9x5|np|k3x5_int': '08e9552e4c6d999e9827',
    'apply|u8_9x5|np|k5x3': '521faf1c8e86df2983fa',
    'apply|u8_9x5|np|row_asym': '051e775322c6d17e18f4',
    'conv_k|f32_naninf_8x6|da_a': 'b0fd5ee140c3d883d319',
    'conv_k|f32_naninf_8x6|da_b': '1947611e982df3de924a',
    'conv_k|f32_naninf_8x6|da_c': '651679d07cdba86830e6',
    'conv_k|f32_naninf_8x6|np': '35146509df3b1c89ea6e',
    'conv_k|f64_1x5|da_a': 'c84367f7c5f401e52dff',
    'conv_k|f64_1x5|da_b': '8cc1e29357b6d54a2810',
    'conv_k|f64_1x5|da_c': '8cc1e29357b6d54a2810',
    'conv_k|f64_1x5|np': '0bc49df60c05e2b26e0b',
    'conv_k|f64_3x3|da_a': 'cd71b3c157f2baa17cdc',
    'conv_k|f64_3x3|da_b': 'cd71b3c157f2baa17cdc',
    'conv_k|f64_3x3|da_c': 'cd71b3c157f2baa17cdc',
    'conv_k|f64_3x3|np': '0542cd5792b7a3a53744',
    'conv_k|f64_blobs_10x11|da_a': 'c8e808fb72b80ea4017b',
    'conv_k|f64_blobs_10x11|da_b': '4e71bb7fccc2903be267',
    'conv_k|f64_blobs_10x11|da_c': 'fdbc23a27062dac88047',
    'conv_k|f64_blobs_10x11|np': '043072b3ed120f8b505e',
    'conv_k|f64_nan_7x9|da_a': '4e9ac8b65dbd28d1a72a',
    'conv_k|f64_nan_7x9|da_b': 'eb8cce1db5c0926d5ba4',
    'conv_k|f64_nan_7x9|da_c': '44b5c4c53541bf7e05c1',
    'conv_k|f64_nan_7x9|np': 'ee0bd590b089e7c4be78',
    'conv_k|f64_sparse_12x13|da_a': 'eb8c015190bfe1a4590b',
    'conv_k|f64_sparse_12x13|da_b': '5abcf7d117ce2f01b2ee',
    'conv_k|f64_sparse_12x13|da_c': 'ab449487478b82ec71a6',
    'conv_k|f64_sparse_12x13|np': '15b07a195b40e4898bcc',
    'conv_k|i32_5x7|da_a': '5c148200f5637606c046',
    'conv_k|i32_5x7|da_b': '7dc3a82cdd8fd11297c0',
    'conv_k|i32_5x7|da_c': '49cc2fdfa0cdc0f7e3bc',
    'conv_k|i32_5x7|np': '2ea3d91ad801afebab1c',
    'conv_k|i64_6x6|da_a': '98f8e7c71cf9a42ce6b5',
    'conv_k|i64_6x6|da_b': 'ef1dc420b0800225deca',
    'conv_k|i64_6x6|da_c': 'adaa13e2d67bf7c6d76f',
    'conv_k|i64_6x6|np': '88bf67b26ec56271cc9b',
    'conv_k|u8_9x5|da_a': '17c9f6e0a2ca46ac936f',
    'conv_k|u8_9x5|da_b': 'ad019cf476127e322f2d',
    'conv_k|u8_9x5|da_c': '9c97113235d65c4bf3d1',
    'conv_k|u8_9x5|np': '00df6e861cf2aa074157',
    'conv|f32_naninf_8x6|da_a|sobel': '2cbf3431abf1cd55edf9',
    'conv|f32_naninf_8x6|da_a|w1x3': 'd75b3c3d7aa4c43832a6',
    'conv|f32_naninf_8x6|da_a|w3': '4be00d9dc15cadb53571',
    'conv|f32_naninf_8x6|da_a|w3x5': '7458d5a29146c7d67518',
    'conv|f32_naninf_8x6|da_a|w5x3_int': '6fe4c080a9aec6edb786',
    'conv|f32_naninf_8x6|da_b|sobel': '8119c80bdeb78bfbc788',
    'conv|f32_naninf_8x6|da_b|w1x3': '5e255a65261f9c56d940',
    'conv|f32_naninf_8x6|da_b|w3': '93e2a5fd7c7fc88c66a8',
    'conv|f32_naninf_8x6|da_b|w3x5': '26ad0740c3baec6a9917',
    'conv|f32_naninf_8x6|da_b|w5x3_int': 'd189c59340eba326e41c',
    'conv|f32_naninf_8x6|da_c|sobel': '6570d858bac47f3ad489',
    'conv|f32_naninf_8x6|da_c|w1x3': '418efa54233c69b4d1c3',
    'conv|f32_naninf_8x6|da_c|w3': 'c0e2d42014bbda56e030',
    'conv|f32_naninf_8x6|da_c|w3x5': '19d963f97e99c4f484c4',
    'conv|f32_naninf_8x6|da_c|w5x3_int': 'a2d99525ec43c82e6823',
    'conv|f32_naninf_8x6|np|sobel': '6b7d53c30856fd09452c',
    'conv|f32_naninf_8x6|np|w1x3': '843f4096228b17ec80ea',
    'conv|f32_naninf_8x6|np|w3': '8f3255f36badd2803202',
    'conv|f32_naninf_8x6|np|w3x5': 'bf18f7336261ac81b0a0',
    'conv|f32_naninf_8x6|np|w5x3_int': '0874414db4657b7005dc',
    'conv|f64_1x5|da_a|sobel': '8e6c05c1535ac7ff6e91',
    'conv|f64_1x5|da_a|w1x3': 'de026c46caf1f5282ff3',
    'conv|f64_1x5|da_a|w3': '8e6c05c1535ac7ff6e91',
    'conv|f64_1x5|da_a|w3x5': '35df0fe24a05aaf95e76',
    'conv|f64_1x5|da_a|w5x3_int': 'EXC:ValueError',
    'conv|f64_1x5|da_b|sobel': '396b93371de9aa6e9e1e',
    'conv|f64_1x5|da_b|w1x3': '8582b011d3576e4f96fb',
    'conv|f64_1x5|da_b|w3': '396b93371de9aa6e9e1e',
    'conv|f64_1x5|da_b|w3x5': '396b93371de9aa6e9e1e',
    'conv|f64_1x5|da_b|w5x3_int': 'EXC:ValueError',
    'conv|f64_1x5|da_c|sobel': '396b93371de9aa6e9e1e',
    'conv|f64_1x5|da_c|w1x3': '8582b011d3576e4f96fb',
    'conv|f64_1x5|da_c|w3': '396b93371de9aa6e9e1e',
    'conv|f64_1x5|da_c|w3x5': '396b93371de9aa6e9e1e',
    'conv|f64_1x5|da_c|w5x3_int': 'EXC:ValueError',
    'conv|f64_1x5|np|sobel': '6d62f34aace9d65317e0',
    'conv|f64_1x5|np|w1x3': '89c59d9f9f6bde93372b',
    'conv|f64_1x5|np|w3': '6d62f34aace9d65317e0',
    'conv|f64_1x5|np|w3x5': '6d62f34aace9d65317e0',
    'conv|f64_1x5|np|w5x3_int': '6d62f34aace9d65317e0',
    'conv|f64_3x3|da_a|sobel': '4e15bf6b42098d4e6fd2',
    'conv|f64_3x3|da_a|w1x3': 'a56ec95a8c304f2ff457',
    'conv|f64_3x3|da_a|w3': '1c303a1cda32e05825db',
    'conv|f64_3x3|da_a|w3x5': 'f0713a4cbe9e8111d64d',
    'conv|f64_3x3|da_a|w5x3_int': 'f0713a4cbe9e8111d64d',
    'conv|f64_3x3|da_b|sobel': '4e15bf6b42098d4e6fd2',
    'conv|f64_3x3|da_b|w1x3': 'a56ec95a8c304f2ff457',
    'conv|f64_3x3|da_b|w3': '1c303a1cda32e05825db',
    'conv|f64_3x3|da_b|w3x5': 'f0713a4cbe9e8111d64d',
    'conv|f64_3x3|da_b|w5x3_int': 'f0713a4cbe9e8111d64d',
    'conv|f64_3x3|da_c|sobel': '4e15bf6b42098d4e6fd2',
    'conv|f64_3x3|da_c|w1x3': 'a56ec95a8c304f2ff457',
    'conv|f64_3x3|da_c|w3': '1c303a1cda32e05825db',
    'conv|f64_3x3|da_c|w3x5': 'f0713a4cbe9e8111d64d',
    'conv|f64_3x3|da_c|w5x3_int': 'f0713a4cbe9e8111d64d',
    'conv|f64_3x3|np|sobel': '2ac242001ca55db1bf67',
    'conv|f64_3x3|np|w1x3': 'd64237fd5b6802ea9222',
    'conv|f64_3x3|np|w3': '383957bfc60550626489',
    'conv|f64_3x3|np|w3x5': '6b563977c045a317e7b4',
    'conv|f64_3x3|np|w5x3_int': '6b563977c045a317e7b4',
    'conv|f64_blobs_10x11|da_a|sobel': '00746b36ede836733a27',
    'conv|f64_blobs_10x11|da_a|w1x3': 'd07842a164f4c3fa682b',
    'conv|f64_blobs_10x11|da_a|w3': 'da9b5b74e725cc5bc358',
    'conv|f64_blobs_10x11|da_a|w3x5': 'eb6f330fc53c5a93c943',
    'conv|f64_blobs_10x11|da_a|w5x3_int': '70286d3d95cbc3d40840',
    'conv|f64_blobs_10x11|da_b|sobel': 'e3b05d01f3c5fe05d097',
    'conv|f64_blobs_10x11|da_b|w1x3': '5877f9695201b12811ce',
    'conv|f64_blobs_10x11|da_b|w3': '1863ade58486946d1ef8',
    'conv|f64_blobs_10x11|da_b|w3x5': '090c9ec0d36ef6185863',
    'conv|f64_blobs_10x11|da_b|w5x3_int': 'ee9028386d579ee5f203',
    'conv|f64_blobs_10x11|da_c|sobel': 'd60a0272d342b30e25b4',
    'conv|f64_blobs_10x11|da_c|w1x3': 'fc6a05a2c863daf66a56',
    'conv|f64_blobs_10x11|da_c|w3': '10dcece92f6bad45fc1c',
    'conv|f64_blobs_10x11|da_c|w3x5': '058b7b70bd2db88774c7',
    'conv|f64_blobs_10x11|da_c|w5x3_int': '8252b41071d0785317fc',
    'conv|f64_blobs_10x11|np|sobel': 'f6229438ec4d4323a6db',
    'conv|f64_blobs_10x11|np|w1x3': '39f4ef41fb3586a14e74',
    'conv|f64_blobs_10x11|np|w3': '9932232a141d13acff90',
    'conv|f64_blobs_10x11|np|w3x5': '0d88330caa1211786e6a',
    'conv|f64_blobs_10x11|np|w5x3_int': '1e9f23a92ac8a417ba62',
    'conv|f64_nan_7x9|da_a|sobel': '85f81901fa68341e74c2',
    'conv|f64_nan_7x9|da_a|w1x3': '8fc7b12fcac5744ceeba',
    'conv|f64_nan_7x9|da_a|w3': 'cf8e8813187d6426634f',
    'conv|f64_nan_7x9|da_a|w3x5': '0efca826184c7dd6732c',
    'conv|f64_nan_7x9|da_a|w5x3_int': 'f57d4d51f8a9207f3b17',
    'conv|f64_nan_7x9|da_b|sobel': '330ca2dc3f17c3d16b81',
    'conv|f64_nan_7x9|da_b|w1x3': '7837e5cc9e4f58dbb703',
    'conv|f64_nan_7x9|da_b|w3': 'e782bc2a85938be31d9b',
    'conv|f64_nan_7x9|da_b|w3x5': '0dcbae854118ea5b9f0a',
    'conv|f64_nan_7x9|da_b|w5x3_int': '5bdcfa4379104556a5b5',
    'conv|f64_nan_7x9|da_c|sobel': 'f8e09e598b622c0591e7',
    'conv|f64_nan_7x9|da_c|w1x3': 'ae95cb843c395105e74d',
    'conv|f64_nan_7x9|da_c|w3': 'a7660694be5d8d7e2e74',
    'conv|f64_nan_7x9|da_c|w3x5': 'dacc661294e63b2bdda0',
    'conv|f64_nan_7x9|da_c|w5x3_int': 'c634316fed63e9c0e8cf',
    'conv|f64_nan_7x9|np|sobel': 'edca670276108e9f252d',
    'conv|f64_nan_7x9|np|w1x3': '1546dca1561b3c710fa8',
    'conv|f64_nan_7x9|np|w3': 'f138c191edd6fdafebbe',
    'conv|f64_nan_7x9|np|w3x5': 'fb0b68753a4e9f42a6e1',
    'conv|f64_nan_7x9|np|w5x3_int': '4dbe4bb407c4b0e40a32',
    'conv|f64_sparse_12x13|da_a|sobel': '85d194b30619e0383ed9',
    'conv|f64_sparse_12x13|da_a|w1x3': '4e8fdb229cc3896336f5',
    'conv|f64_sparse_12x13|da_a|w3': 'd4d6ded9c5c3fca82f51',
    'conv|f64_sparse_12x13|da_a|w3x5': '6880698f6d10ab0a3496',
    'conv|f64_sparse_12x13|da_a|w5x3_int': 'de5686cfa58555eb1bad',
    'conv|f64_sparse_12x13|da_b|sobel': '1a35b44f4c8206a02df3',
    'conv|f64_sparse_12x13|da_b|w1x3': 'c12bdae255911136ecf8',
    'conv|f64_sparse_12x13|da_b|w3': 'd7414afee9efad836f30',
    'conv|f64_sparse_12x13|da_b|w3x5': 'b16a5b419ce569afcb5a',
    'conv|f64_sparse_12x13|da_b|w5x3_int': '0f03f144515f63508a04',
    'conv|f64_sparse_12x13|da_c|sobel': '8efc9ced3654de440a02',
    'conv|f64_sparse_12x13|da_c|w1x3': '12a76a99e139c33f092d',
    'conv|f64_sparse_12x13|da_c|w3': 'e5c7f96cc5bda184ab80',
    'conv|f64_sparse_12x13|da_c|w3x5': '7ab0b174554f14751fdf',
    'conv|f64_sparse_12x13|da_c|w5x3_int': '4d2ff25962239f48f81a',
    'conv|f64_sparse_12x13|np|sobel': '5dbda60fee6406a3172e',
    'conv|f64_sparse_12x13|np|w1x3': 'bf2b4dfdad943a0ab547',
    'conv|f64_sparse_12x13|np|w3': 'f392380928d6cebf26eb',
    'conv|f64_sparse_12x13|np|w3x5': '91256e31ff13a2ebf591',
    'conv|f64_sparse_12x13|np|w5x3_int': '1d6dead447e2c7ceb3ca',
    'conv|i32_5x7|da_a|sobel': '01d193fb2aee4030868a',
    'conv|i32_5x7|da_a|w1x3': '71020aec946578a424a6',
    'conv|i32_5x7|da_a|w3': '432275100d7994766e13',
    'conv|i32_5x7|da_a|w3x5': 'a37696268a67a8bf322f',
    'conv|i32_5x7|da_a|w5x3_int': 'fab23a655af2eb1d9aa5',
    'conv|i32_5x7|da_b|sobel': 'fab9833c091a5b261ea9',
    'conv|i32_5x7|da_b|w1x3': '172ec2fce4db232d6c60',
    'conv|i32_5x7|da_b|w3': '18fb5a2239edd50313fa',
    'conv|i32_5x7|da_b|w3x5': '040c30a7aac60c59fe97',
    'conv|i32_5x7|da_b|w5x3_int': '5f00724b95af79a56665',
    'conv|i32_5x7|da_c|sobel': '9ac4737551b95f44fa43',
    'conv|i32_5x7|da_c|w1x3': '9a358fd1095422f8f6fe',
    'conv|i32_5x7|da_c|w3': 'ff2446cb9e128e7f9e4e',
    'conv|i32_5x7|da_c|w3x5': 'd52c3557f4d6905ec4b9',
    'conv|i32_5x7|da_c|w5x3_int': '7812db71b5570ccefc07',
    'conv|i32_5x7|np|sobel': 'a53c741ac1db0f27cf69',
    'conv|i32_5x7|np|w1x3': '157f3513e8ff55c0445f',
    'conv|i32_5x7|np|w3': 'aca1abd96896ad38c4fb',
    'conv|i32_5x7|np|w3x5': 'b425e1a0b81bbfd504bc',
    'conv|i32_5x7|np|w5x3_int': '2a12f9fda44b236c40ce',
    'conv|i64_6x6|da_a|sobel': '5ec5f0188869d977b265',
    'conv|i64_6x6|da_a|w1x3': '903aee227a34642bbc02',
    'conv|i64_6x6|da_a|w3': '7807da559721f61e3326',
    'conv|i64_6x6|da_a|w3x5': '06a87d9114b90c09a3b4',
    'conv|i64_6x6|da_a|w5x3_int': '84f5379a50291b2eb6ac',
    'conv|i64_6x6|da_b|sobel': '630fd14bed45537868ff',
    'conv|i64_6x6|da_b|w1x3': 'dacf484729cea7303ada',
    'conv|i64_6x6|da_b|w3': '2d7e8610bc6edebc550c',
    'conv|i64_6x6|da_b|w3x5': 'aa417ab3a50a3b67d3a9',
    'conv|i64_6x6|da_b|w5x3_int': 'fb33721123ca16b79aa2',
    'conv|i64_6x6|da_c|sobel': '69fccce8b22c3b4e113a',
    'conv|i64_6x6|da_c|w1x3': '6bbf2476bcf3a2d23a4c',
    'conv|i64_6x6|da_c|w3': 'f5bd22007567d9c70358',
    'conv|i64_6x6|da_c|w3x5': '0a3b3375c54203dccd0b',
    'conv|i64_6x6|da_c|w5x3_int': 'd663e096de15086af340',
    'conv|i64_6x6|np|sobel': '593e52a0d455fc833537',
    'conv|i64_6x6|np|w1x3': 'e8a354846d882a999928',
    'conv|i64_6x6|np|w3': 'f5b92ae292bb66e99bcb',
    'conv|i64_6x6|np|w3x5': 'd1c44aa679ca1fe13220',
    'conv|i64_6x6|np|w5x3_int': 'fed14d01f07d4ab39980',
    'conv|u8_9x5|da_a|sobel': '2dfaea98a40a299b396c',
    'conv|u8_9x5|da_a|w1x3': '20052db6a3080de2cf49',
    'conv|u8_9x5|da_a|w3': '05a33eb4572154d9255c',
    'conv|u8_9x5|da_a|w3x5': 'ec8fca15c0729f9130f1',
    'conv|u8_9x5|da_a|w5x3_int': '327392aa69c7d96b67bc',
    'conv|u8_9x5|da_b|sobel': 'd9da0373b3ed1861c2d0',
    'conv|u8_9x5|da_b|w1x3': 'e6710751298f2e2a6624',
    'conv|u8_9x5|da_b|w3': '99d8aa37858a69e3227c',
    'conv|u8_9x5|da_b|w3x5': 'a42e885ebdeb6bf59fcc',
    'conv|u8_9x5|da_b|w5x3_int': 'dd335a23e4a757acb6bc',
    'conv|u8_9x5|da_c|sobel': '47be32305e0be2a6cb89',
    'conv|u8_9x5|da_c|w1x3': '7073d7a1932634fd2d68',
    'conv|u8_9x5|da_c|w3': 'cdae6844cfc2d6422835',
    'conv|u8_9x5|da_c|w3x5': '3d298ba06044fb579cbf',
    'conv|u8_9x5|da_c|w5x3_int': '1019fc9dcdc95331ddf5',
    'conv|u8_9x5|np|sobel': '8760f5fbdf0859da2c7e',
    'conv|u8_9x5|np|w1x3': '3ff73742bf5b8585fbc8',
    'conv|u8_9x5|np|w3': '96e1009c441a6bfacb84',
    'conv|u8_9x5|np|w3x5': '821c4f0007fb1a76a320',
    'conv|u8_9x5|np|w5x3_int': '4f09db8c835d7256d6c0',
    'hot_3d': 'EXC:ValueError',
    'hot_bool': 'EXC:ValueError',
    'hot_const': 'EXC:ZeroDivisionError',
    'hot_notda': 'EXC:TypeError',
    'hot_unnamed|f32_naninf_8x6': 'd3ab77ba554cf4d2bf5d',
    'hot_unnamed|f64_1x5': '0cfa3541783836f8d6ac',
    'hot_unnamed|f64_3x3': '3ace7c201364f3ad9744',
    'hot_unnamed|f64_blobs_10x11': '7cf074dd1d8829a69dad',
    'hot_unnamed|f64_nan_7x9': 'a0b80e6313b65a92c3b2',
    'hot_unnamed|f64_sparse_12x13': '408671ef5b6e6882d585',
    'hot_unnamed|i32_5x7': '257f33126c5823a41ec7',
    'hot_unnamed|i64_6x6': '459687952944d2307cf8',
    'hot_unnamed|u8_9x5': '9fd489d1b6a1da2eb468',
    'hotneg|f32_naninf_8x6|da_a|cross3': 'ecc5418ff289bd2f032c',
    'hotneg|f32_naninf_8x6|da_a|full3': 'ecc5418ff289bd2f032c',
    'hotneg|f32_naninf_8x6|da_a|k3x5_int': 'ecc5418ff289bd2f032c',
    'hotneg|f32_naninf_8x6|da_a|k5x3': 'ecc5418ff289bd2f032c',
    'hotneg|f32_naninf_8x6|da_a|row_asym': 'ecc5418ff289bd2f032c',
    'hotneg|f32_naninf_8x6|da_b|cross3': '7b4bb69afaf674d5039b',
    'hotneg|f32_naninf_8x6|da_b|full3': '7b4bb69afaf674d5039b',
    'hotneg|f32_naninf_8x6|da_b|k3x5_int': 'ac2e56cf02be94503599',
    'hotneg|f32_naninf_8x6|da_b|k5x3': '7b4bb69afaf674d5039b',
    'hotneg|f32_naninf_8x6|da_b|row_asym': '7b4bb69afaf674d5039b',
    'hotneg|f32_naninf_8x6|da_c|cross3': '404108b9407e9308c94d',
    'hotneg|f32_naninf_8x6|da_c|full3': '404108b9407e9308c94d',
    'hotneg|f32_naninf_8x6|da_c|k3x5_int': '404108b9407e9308c94d',
    'hotneg|f32_naninf_8x6|da_c|k5x3': '404108b9407e9308c94d',
    'hotneg|f32_naninf_8x6|da_c|row_asym': '404108b9407e9308c94d',
    'hotneg|f32_naninf_8x6|np|cross3': 'b4abc08d5f08b09deed0',
    'hotneg|f32_naninf_8x6|np|full3': 'b4abc08d5f08b09deed0',
    'hotneg|f32_naninf_8x6|np|k3x5_int': 'b4abc08d5f08b09deed0',
    'hotneg|f32_naninf_8x6|np|k5x3': 'b4abc08d5f08b09deed0',
    'hotneg|f32_naninf_8x6|np|row_asym': 'b4abc08d5f08b09deed0',
    'hotneg|f64_1x5|da_a|cross3': 'dba968a12781ffde3617',
    'hotneg|f64_1x5|da_a|full3': 'dba968a12781ffde3617',
    'hotneg|f64_1x5|da_a|k3x5_int': '4d35a64dc6c02e5b0838',
    'hotneg|f64_1x5|da_a|k5x3': 'EXC:ValueError',
    'hotneg|f64_1x5|da_a|row_asym': 'dba968a12781ffde3617',
    'hotneg|f64_1x5|da_b|cross3': 'b653c005188d8a06003b',
    'hotneg|f64_1x5|da_b|full3': 'b653c005188d8a06003b',
    'hotneg|f64_1x5|da_b|k3x5_int': 'b653c005188d8a06003b',
    'hotneg|f64_1x5|da_b|k5x3': 'EXC:ValueError',
    'hotneg|f64_1x5|da_b|row_asym': 'b653c005188d8a06003b',
    'hotneg|f64_1x5|da_c|cross3': 'b653c005188d8a06003b',
    'hotneg|f64_1x5|da_c|full3': 'b653c005188d8a06003b',
    'hotneg|f64_1x5|da_c|k3x5_int': 'b653c005188d8a06003b',
    'hotneg|f64_1x5|da_c|k5x3': 'EXC:ValueError',
    'hotneg|f64_1x5|da_c|row_asym': 'b653c005188d8a06003b',
    'hotneg|f64_1x5|np|cross3': 'fde7ca3b13b79080b4f9',
    'hotneg|f64_1x5|np|full3': 'fde7ca3b13b79080b4f9',
    'hotneg|f64_1x5|np|k3x5_int': 'fde7ca3b13b79080b4f9',
    'hotneg|f64_1x5|np|k5x3': 'fde7ca3b13b79080b4f9',
    'hotneg|f64_1x5|np|row_asym': 'fde7ca3b13b79080b4f9',
    'hotneg|f64_3x3|da_a|cross3': '3e596e52a140f48b70f4',
    'hotneg|f64_3x3|da_a|full3': '3e596e52a140f48b70f4',
    'hotneg|f64_3x3|da_a|k3x5_int': '3e596e52a140f48b70f4',
    'hotneg|f64_3x3|da_a|k5x3': '3e596e52a140f48b70f4',
    'hotneg|f64_3x3|da_a|row_asym': '3e596e52a140f48b70f4',
    'hotneg|f64_3x3|da_b|cross3': '3e596e52a140f48b70f4',
    'hotneg|f64_3x3|da_b|full3': '3e596e52a140f48b70f4',
    'hotneg|f64_3x3|da_b|k3x5_int': '3e596e52a140f48b70f4',
    'hotneg|f64_3x3|da_b|k5x3': '3e596e52a140f48b70f4',
    'hotneg|f64_3x3|da_b|row_asym': '3e596e52a140f48b70f4',
    'hotneg|f64_3x3|da_c|cross3': '3e596e52a140f48b70f4',
    'hotneg|f64_3x3|da_c|full3': '3e596e52a140f48b70f4',
    'hotneg|f64_3x3|da_c|k3x5_int': '3e596e52a140f48b70f4',
    'hotneg|f64_3x3|da_c|k5x3': '3e596e52a140f48b70f4',
    'hotneg|f64_3x3|da_c|row_asym': '3e596e52a140f48b70f4',
    'hotneg|f64_3x3|np|cross3': 'cdec9e1a3f93fd328ec2',
    'hotneg|f64_3x3|np|full3': 'cdec9e1a3f93fd328ec2',
    'hotneg|f64_3x3|np|k3x5_int': 'cdec9e1a3f93fd328ec2',
    'hotneg|f64_3x3|np|k5x3': 'cdec9e1a3f93fd328ec2',
    'hotneg|f64_3x3|np|row_asym': 'cdec9e1a3f93fd328ec2',
    'hotneg|f64_blobs_10x11|da_a|cross3': '8835837c01a5aa15838d',
    'hotneg|f64_blobs_10x11|da_a|full3': 'd341571b233b141d5458',
    'hotneg|f64_blobs_10x11|da_a|k3x5_int': '214c179fe3250b6ccf61',
    'hotneg|f64_blobs_10x11|da_a|k5x3': 'da7f735a64deaa2dc570',
    'hotneg|f64_blobs_10x11|da_a|row_asym': 'b719dfae1eba529c6d97',
    'hotneg|f64_blobs_10x11|da_b|cross3': 'c814259468658136ab9e',
    'hotneg|f64_blobs_10x11|da_b|full3': 'aa58792a2f83c28a5af3',
    'hotneg|f64_blobs_10x11|da_b|k3x5_int': '13050febb8752d02d2d4',
    'hotneg|f64_blobs_10x11|da_b|k5x3': '3229b283f5e3306c03a7',
    'hotneg|f64_blobs_10x11|da_b|row_asym': 'e75b53dadcedad846343',
    'hotneg|f64_blobs_10x11|da_c|cross3': 'cd937d78cbcc62776dcc',
    'hotneg|f64_blobs_10x11|da_c|full3': 'c6969a8ce3d326001052',
    'hotneg|f64_blobs_10x11|da_c|k3x5_int': '75bd9c83b36a9b81c87b',
    'hotneg|f64_blobs_10x11|da_c|k5x3': 'b94ce8da341f80584e1c',
    'hotneg|f64_blobs_10x11|da_c|row_asym': 'e0b6a4cce99045693c51',
    'hotneg|f64_blobs_10x11|np|cross3': '2be9b969084825548c8b',
    'hotneg|f64_blobs_10x11|np|full3': 'c85df48c7b96d7bbe9c2',
    'hotneg|f64_blobs_10x11|np|k3x5_int': '805ffcbd5a09b78861db',
    'hotneg|f64_blobs_10x11|np|k5x3': 'b774df9f7460dc1a4938',
    'hotneg|f64_blobs_10x11|np|row_asym': '5e668dd8580b81835218',
    'hotneg|f64_nan_7x9|da_a|cross3': '40d8248f2300a0b5f723',
    'hotneg|f64_nan_7x9|da_a|full3': '40d8248f2300a0b5f723',
    'hotneg|f64_nan_7x9|da_a|k3x5_int': 'e25b49f5d585a98369e1',
    'hotneg|f64_nan_7x9|da_a|k5x3': '7661c392814787d2bfce',
    'hotneg|f64_nan_7x9|da_a|row_asym': '40d8248f2300a0b5f723',
    'hotneg|f64_nan_7x9|da_b|cross3': '36770cac3e68271ce6f8',
    'hotneg|f64_nan_7x9|da_b|full3': '36770cac3e68271ce6f8',
    'hotneg|f64_nan_7x9|da_b|k3x5_int': '36770cac3e68271ce6f8',
    'hotneg|f64_nan_7x9|da_b|k5x3': '36770cac3e68271ce6f8',
    'hotneg|f64_nan_7x9|da_b|row_asym': '36770cac3e68271ce6f8',
    'hotneg|f64_nan_7x9|da_c|cross3': '5214c849d2aa77b98668',
    'hotneg|f64_nan_7x9|da_c|full3': '5214c849d2aa77b98668',
    'hotneg|f64_nan_7x9|da_c|k3x5_int': '5214c849d2aa77b98668',
    'hotneg|f64_nan_7x9|da_c|k5x3': '5214c849d2aa77b98668',
    'hotneg|f64_nan_7x9|da_c|row_asym': '5214c849d2aa77b98668',
    'hotneg|f64_nan_7x9|np|cross3': 'bd7d9e5ef0ee64c83cd6',
    'hotneg|f64_nan_7x9|np|full3': 'bd7d9e5ef0ee64c83cd6',
    'hotneg|f64_nan_7x9|np|k3x5_int': 'bd7d9e5ef0ee64c83cd6',
    'hotneg|f64_nan_7x9|np|k5x3': 'bd7d9e5ef0ee64c83cd6',
    'hotneg|f64_nan_7x9|np|row_asym': 'bd7d9e5ef0ee64c83cd6',
    'hotneg|f64_sparse_12x13|da_a|cross3': 'b1db20a4f45ed460e655',
    'hotneg|f64_sparse_12x13|da_a|full3': 'b1db20a4f45ed460e655',
    'hotneg|f64_sparse_12x13|da_a|k3x5_int': '29d906375f307ce06651',
    'hotneg|f64_sparse_12x13|da_a|k5x3': 'b1db20a4f45ed460e655',
    'hotneg|f64_sparse_12x13|da_a|row_asym': '46328ef7f480b5f80423',
    'hotneg|f64_sparse_12x13|da_b|cross3': 'bdf334f78f63732cf3bf',
    'hotneg|f64_sparse_12x13|da_b|full3': 'bdf334f78f63732cf3bf',
    'hotneg|f64_sparse_12x13|da_b|k3x5_int': 'bdf334f78f63732cf3bf',
    'hotneg|f64_sparse_12x13|da_b|k5x3': 'bdf334f78f63732cf3bf',
    'hotneg|f64_sparse_12x13|da_b|row_asym': '28c5034b80ba472e57ed',
    'hotneg|f64_sparse_12x13|da_c|cross3': 'c2efa61494b3ee242465',
    'hotneg|f64_sparse_12x13|da_c|full3': 'c2efa61494b3ee242465',
    'hotneg|f64_sparse_12x13|da_c|k3x5_int': 'c2efa61494b3ee242465',
    'hotneg|f64_sparse_12x13|da_c|k5x3': 'c2efa61494b3ee242465',
    'hotneg|f64_sparse_12x13|da_c|row_asym': '922819a7952204314885',
    'hotneg|f64_sparse_12x13|np|cross3': '5d6145103f458eb7bd19',
    'hotneg|f64_sparse_12x13|np|full3': '5d6145103f458eb7bd19',
    'hotneg|f64_sparse_12x13|np|k3x5_int': '5d6145103f458eb7bd19',
    'hotneg|f64_sparse_12x13|np|k5x3': '5d6145103f458eb7bd19',
    'hotneg|f64_sparse_12x13|np|row_asym': 'e4e5cea547f80836582c',
    'hotneg|i32_5x7|da_a|cross3': 'e34859062ca90302bcc4',
    'hotneg|i32_5x7|da_a|full3': 'e34859062ca90302bcc4',
    'hotneg|i32_5x7|da_a|k3x5_int': 'e34859062ca90302bcc4',
    'hotneg|i32_5x7|da_a|k5x3': 'e34859062ca90302bcc4',
    'hotneg|i32_5x7|da_a|row_asym': 'e34859062ca90302bcc4',
    'hotneg|i32_5x7|da_b|cross3': '2f8ca5cf9ca826b5f3db',
    'hotneg|i32_5x7|da_b|full3': '2f8ca5cf9ca826b5f3db',
    'hotneg|i32_5x7|da_b|k3x5_int': '2f8ca5cf9ca826b5f3db',
    'hotneg|i32_5x7|da_b|k5x3': '2f8ca5cf9ca826b5f3db',
    'hotneg|i32_5x7|da_b|row_asym': '2f8ca5cf9ca826b5f3db',
    'hotneg|i32_5x7|da_c|cross3': '169276d2d18b8d823cb1',
    'hotneg|i32_5x7|da_c|full3': '169276d2d18b8d823cb1',
    'hotneg|i32_5x7|da_c|k3x5_int': '169276d2d18b8d823cb1',
    'hotneg|i32_5x7|da_c|k5x3': '169276d2d18b8d823cb1',
    'hotneg|i32_5x7|da_c|row_asym': '169276d2d18b8d823cb1',
    'hotneg|i32_5x7|np|cross3': '8270ccdf6d4a973b975a',
    'hotneg|i32_5x7|np|full3': '8270ccdf6d4a973b975a',
    'hotneg|i32_5x7|np|k3x5_int': '8270ccdf6d4a973b975a',
    'hotneg|i32_5x7|np|k5x3': '8270ccdf6d4a973b975a',
    'hotneg|i32_5x7|np|row_asym': '8270ccdf6d4a973b975a',
    'hotneg|i64_6x6|da_a|cross3': '7a9758620db9b22220cf',
    'hotneg|i64_6x6|da_a|full3': '7a9758620db9b22220cf',
    'hotneg|i64_6x6|da_a|k3x5_int': '7a9758620db9b22220cf',
    'hotneg|i64_6x6|da_a|k5x3': '7a9758620db9b22220cf',
    'hotneg|i64_6x6|da_a|row_asym': '7a9758620db9b22220cf',
    'hotneg|i64_6x6|da_b|cross3': '6a87a5106df5b98ecbb9',
    'hotneg|i64_6x6|da_b|full3': '6a87a5106df5b98ecbb9',
    'hotneg|i64_6x6|da_b|k3x5_int': '9705c626447b729df3f9',
    'hotneg|i64_6x6|da_b|k5x3': '5ce4f15a098c8a8deff8',
    'hotneg|i64_6x6|da_b|row_asym': '6a87a5106df5b98ecbb9',
    'hotneg|i64_6x6|da_c|cross3': 'ed6d63a9247b7057994c',
    'hotneg|i64_6x6|da_c|full3': 'ed6d63a9247b7057994c',
    'hotneg|i64_6x6|da_c|k3x5_int': 'ed6d63a9247b7057994c',
    'hotneg|i64_6x6|da_c|k5x3': 'ed6d63a9247b7057994c',
    'hotneg|i64_6x6|da_c|row_asym': 'ed6d63a9247b7057994c',
    'hotneg|i64_6x6|np|cross3': 'f691216a04f358687064',
    'hotneg|i64_6x6|np|full3': 'f691216a04f358687064',
    'hotneg|i64_6x6|np|k3x5_int': 'f691216a04f358687064',
    'hotneg|i64_6x6|np|k5x3': 'f691216a04f358687064',
    'hotneg|i64_6x6|np|row_asym': 'f691216a04f358687064',
    'hotneg|u8_9x5|da_a|cross3': 'cf84a6bcf8a7d43b5b4b',
    'hotneg|u8_9x5|da_a|full3': 'cf84a6bcf8a7d43b5b4b',
    'hotneg|u8_9x5|da_a|k3x5_int': '95b272ef58e4ec8a45a2',
    'hotneg|u8_9x5|da_a|k5x3': 'cf84a6bcf8a7d43b5b4b',
    'hotneg|u8_9x5|da_a|row_asym': '1dfcfe3b2c0531fc86ed',
    'hotneg|u8_9x5|da_b|cross3': 'f55df83f75fe1c7ef4a8',
    'hotneg|u8_9x5|da_b|full3': 'f55df83f75fe1c7ef4a8',
    'hotneg|u8_9x5|da_b|k3x5_int': 'f55df83f75fe1c7ef4a8',
    'hotneg|u8_9x5|da_b|k5x3': 'f55df83f75fe1c7ef4a8',
    'hotneg|u8_9x5|da_b|row_asym': '8e534d855aa214f0ae04',
    'hotneg|u8_9x5|da_c|cross3': 'e54b998d896de55ed4d8',
    'hotneg|u8_9x5|da_c|full3': 'e54b998d896de55ed4d8',
    'hotneg|u8_9x5|da_c|k3x5_int': 'e54b998d896de55ed4d8',
    'hotneg|u8_9x5|da_c|k5x3': 'e54b998d896de55ed4d8',
    'hotneg|u8_9x5|da_c|row_asym': 'e614e701bc93dc6579e5',
    'hotneg|u8_9x5|np|cross3': '6a209e9ecf67e038cd0c',
    'hotneg|u8_9x5|np|full3': '6a209e9ecf67e038cd0c',
    'hotneg|u8_9x5|np|k3x5_int': '6a209e9ecf67e038cd0c',
    'hotneg|u8_9x5|np|k5x3': '6a209e9ecf67e038cd0c',
    'hotneg|u8_9x5|np|row_asym': '523caa7cf2b88c731456',
    'hot|f32_naninf_8x6|da_a|cross3': 'ecc5418ff289bd2f032c',
    'hot|f32_naninf_8x6|da_a|full3': 'ecc5418ff289bd2f032c',
    'hot|f32_naninf_8x6|da_a|k3x5_int': 'ecc5418ff289bd2f032c',
    'hot|f32_naninf_8x6|da_a|k5x3': 'ecc5418ff289bd2f032c',
    'hot|f32_naninf_8x6|da_a|row_asym': 'ecc5418ff289bd2f032c',
    'hot|f32_naninf_8x6|da_b|cross3': '7b4bb69afaf674d5039b',
    'hot|f32_naninf_8x6|da_b|full3': '7b4bb69afaf674d5039b',
    'hot|f32_naninf_8x6|da_b|k3x5_int': 'ac2e56cf02be94503599',
    'hot|f32_naninf_8x6|da_b|k5x3': '7b4bb69afaf674d5039b',
    'hot|f32_naninf_8x6|da_b|row_asym': '7b4bb69afaf674d5039b',
    'hot|f32_naninf_8x6|da_c|cross3': '404108b9407e9308c94d',
    'hot|f32_naninf_8x6|da_c|full3': '404108b9407e9308c94d',
    'hot|f32_naninf_8x6|da_c|k3x5_int': '404108b9407e9308c94d',
    'hot|f32_naninf_8x6|da_c|k5x3': '404108b9407e9308c94d',
    'hot|f32_naninf_8x6|da_c|row_asym': '404108b9407e9308c94d',
    'hot|f32_naninf_8x6|np|cross3': 'b4abc08d5f08b09deed0',
    'hot|f32_naninf_8x6|np|full3': 'b4abc08d5f08b09deed0',
    'hot|f32_naninf_8x6|np|k3x5_int': 'b4abc08d5f08b09deed0',
    'hot|f32_naninf_8x6|np|k5x3': 'b4abc08d5f08b09deed0',
    'hot|f32_naninf_8x6|np|row_asym': 'b4abc08d5f08b09deed0',
    'hot|f64_1x5|da_a|cross3': 'dba968a12781ffde3617',
    'hot|f64_1x5|da_a|full3': 'dba968a12781ffde3617',
    'hot|f64_1x5|da_a|k3x5_int': '4d35a64dc6c02e5b0838',
    'hot|f64_1x5|da_a|k5x3': 'EXC:ValueError',
    'hot|f64_1x5|da_a|row_asym': 'dba968a12781ffde3617',
    'hot|f64_1x5|da_b|cross3': 'b653c005188d8a06003b',
    'hot|f64_1x5|da_b|full3': 'b653c005188d8a06003b',
    'hot|f64_1x5|da_b|k3x5_int': 'b653c005188d8a06003b',
    'hot|f64_1x5|da_b|k5x3': 'EXC:ValueError',
    'hot|f64_1x5|da_b|row_asym': 'b653c005188d8a06003b',
    'hot|f64_1x5|da_c|cross3': 'b653c005188d8a06003b',
    'hot|f64_1x5|da_c|full3': 'b653c005188d8a06003b',
    'hot|f64_1x5|da_c|k3x5_int': 'b653c005188d8a06003b',
    'hot|f64_1x5|da_c|k5x3': 'EXC:ValueError',
    'hot|f64_1x5|da_c|row_asym': 'b653c005188d8a06003b',
    'hot|f64_1x5|np|cross3': 'fde7ca3b13b79080b4f9',
    'hot|f64_1x5|np|full3': 'fde7ca3b13b79080b4f9',
    'hot|f64_1x5|np|k3x5_int': 'fde7ca3b13b79080b4f9',
    'hot|f64_1x5|np|k5x3': 'fde7ca3b13b79080b4f9',
    'hot|f64_1x5|np|row_asym': 'fde7ca3b13b79080b4f9',
    'hot|f64_3x3|da_a|cross3': '3e596e52a140f48b70f4',
    'hot|f64_3x3|da_a|full3': '3e596e52a140f48b70f4',
    'hot|f64_3x3|da_a|k3x5_int': '3e596e52a140f48b70f4',
    'hot|f64_3x3|da_a|k5x3': '3e596e52a140f48b70f4',
    'hot|f64_3x3|da_a|row_asym': '3e596e52a140f48b70f4',
    'hot|f64_3x3|da_b|cross3': '3e596e52a140f48b70f4',
    'hot|f64_3x3|da_b|full3': '3e596e52a140f48b70f4',
    'hot|f64_3x3|da_b|k3x5_int': '3e596e52a140f48b70f4',
    'hot|f64_3x3|da_b|k5x3': '3e596e52a140f48b70f4',
    'hot|f64_3x3|da_b|row_asym': '3e596e52a140f48b70f4',
    'hot|f64_3x3|da_c|cross3': '3e596e52a140f48b70f4',
    'hot|f64_3x3|da_c|full3': '3e596e52a140f48b70f4',
    'hot|f64_3x3|da_c|k3x5_int': '3e596e52a140f48b70f4',
    'hot|f64_3x3|da_c|k5x3': '3e596e52a140f48b70f4',
    'hot|f64_3x3|da_c|row_asym': '3e596e52a140f48b70f4',
    'hot|f64_3x3|np|cross3': 'cdec9e1a3f93fd328ec2',
    'hot|f64_3x3|np|full3': 'cdec9e1a3f93fd328ec2',
    'hot|f64_3x3|np|k3x5_int': 'cdec9e1a3f93fd328ec2',
    'hot|f64_3x3|np|k5x3': 'cdec9e1a3f93fd328ec2',
    'hot|f64_3x3|np|row_asym': 'cdec9e1a3f93fd328ec2',
    'hot|f64_blobs_10x11|da_a|cross3': '1abbd9c32d1e1b2d6386',
    'hot|f64_blobs_10x11|da_a|full3': 'e203f1e660cf7b48e843',
    'hot|f64_blobs_10x11|da_a|k3x5_int': 'bca4b218fcd5836e5e69',
    'hot|f64_blobs_10x11|da_a|k5x3': 'da7f735a64deaa2dc570',
    'hot|f64_blobs_10x11|da_a|row_asym': '70aa6ff9f706d6667027',
    'hot|f64_blobs_10x11|da_b|cross3': '7ac3f6b9c6a577b7ae9f',
    'hot|f64_blobs_10x11|da_b|full3': '2cc17b888c37660bcbc8',
    'hot|f64_blobs_10x11|da_b|k3x5_int': '153985cde8ce44d22e83',
    'hot|f64_blobs_10x11|da_b|k5x3': '3229b283f5e3306c03a7',
    'hot|f64_blobs_10x11|da_b|row_asym': '3441e9c189ca9dbe95b0',
    'hot|f64_blobs_10x11|da_c|cross3': 'd912a75b0f5e9238c295',
    'hot|f64_blobs_10x11|da_c|full3': 'b34f682985fad12036aa',
    'hot|f64_blobs_10x11|da_c|k3x5_int': 'd863bc4ff5275c81719e',
    'hot|f64_blobs_10x11|da_c|k5x3': 'b94ce8da341f80584e1c',
    'hot|f64_blobs_10x11|da_c|row_asym': 'a914d5fad088a93295a7',
    'hot|f64_blobs_10x11|np|cross3': '29ecd6940e5bd692293e',
    'hot|f64_blobs_10x11|np|full3': '2568d5657cb3014dd014',
    'hot|f64_blobs_10x11|np|k3x5_int': '076468b4c318685f55e3',
    'hot|f64_blobs_10x11|np|k5x3': 'b774df9f7460dc1a4938',
    'hot|f64_blobs_10x11|np|row_asym': 'f5b9918e092815f4e9ac',
    'hot|f64_nan_7x9|da_a|cross3': '40d8248f2300a0b5f723',
    'hot|f64_nan_7x9|da_a|full3': '40d8248f2300a0b5f723',
    'hot|f64_nan_7x9|da_a|k3x5_int': 'e25b49f5d585a98369e1',
    'hot|f64_nan_7x9|da_a|k5x3': '7661c392814787d2bfce',
    'hot|f64_nan_7x9|da_a|row_asym': '40d8248f2300a0b5f723',
    'hot|f64_nan_7x9|da_b|cross3': '36770cac3e68271ce6f8',
    'hot|f64_nan_7x9|da_b|full3': '36770cac3e68271ce6f8',
    'hot|f64_nan_7x9|da_b|k3x5_int': '36770cac3e68271ce6f8',
    'hot|f64_nan_7x9|da_b|k5x3': '36770cac3e68271ce6f8',
    'hot|f64_nan_7x9|da_b|row_asym': '36770cac3e68271ce6f8',
    'hot|f64_nan_7x9|da_c|cross3': '5214c849d2aa77b98668',
    'hot|f64_nan_7x9|da_c|full3': '5214c849d2aa77b98668',
    'hot|f64_nan_7x9|da_c|k3x5_int': '5214c849d2aa77b98668',
    'hot|f64_nan_7x9|da_c|k5x3': '5214c849d2aa77b98668',
    'hot|f64_nan_7x9|da_c|row_asym': '5214c849d2aa77b98668',
    'hot|f64_nan_7x9|np|cross3': 'bd7d9e5ef0ee64c83cd6',
    'hot|f64_nan_7x9|np|full3': 'bd7d9e5ef0ee64c83cd6',
    'hot|f64_nan_7x9|np|k3x5_int': 'bd7d9e5ef0ee64c83cd6',
    'hot|f64_nan_7x9|np|k5x3': 'bd7d9e5ef0ee64c83cd6',
    'hot|f64_nan_7x9|np|row_asym': 'bd7d9e5ef0ee64c83cd6',
    'hot|f64_sparse_12x13|da_a|cross3': 'b1db20a4f45ed460e655',
    'hot|f64_sparse_12x13|da_a|full3': 'b1db20a4f45ed460e655',
    'hot|f64_sparse_12x13|da_a|k3x5_int': '29d906375f307ce06651',
    'hot|f64_sparse_12x13|da_a|k5x3': 'b1db20a4f45ed460e655',
    'hot|f64_sparse_12x13|da_a|row_asym': 'ef830736bd7178a2eac4',
    'hot|f64_sparse_12x13|da_b|cross3': 'bdf334f78f63732cf3bf',
    'hot|f64_sparse_12x13|da_b|full3': 'bdf334f78f63732cf3bf',
    'hot|f64_sparse_12x13|da_b|k3x5_int': 'bdf334f78f63732cf3bf',
    'hot|f64_sparse_12x13|da_b|k5x3': 'bdf334f78f63732cf3bf',
    'hot|f64_sparse_12x13|da_b|row_asym': '4ff3da35279823420f52',
    'hot|f64_sparse_12x13|da_c|cross3': 'c2efa61494b3ee242465',
    'hot|f64_sparse_12x13|da_c|full3': 'c2efa61494b3ee242465',
    'hot|f64_sparse_12x13|da_c|k3x5_int': 'c2efa61494b3ee242465',
    'hot|f64_sparse_12x13|da_c|k5x3': 'c2efa61494b3ee242465',
    'hot|f64_sparse_12x13|da_c|row_asym': '29eb16daff743784dd8f',
    'hot|f64_sparse_12x13|np|cross3': '5d6145103f458eb7bd19',
    'hot|f64_sparse_12x13|np|full3': '5d6145103f458eb7bd19',
    'hot|f64_sparse_12x13|np|k3x5_int': '5d6145103f458eb7bd19',
    'hot|f64_sparse_12x13|np|k5x3': '5d6145103f458eb7bd19',
    'hot|f64_sparse_12x13|np|row_asym': 'ce2ae117f3cbf6f85917',
    'hot|i32_5x7|da_a|cross3': 'e34859062ca90302bcc4',
    'hot|i32_5x7|da_a|full3': 'e34859062ca90302bcc4',
    'hot|i32_5x7|da_a|k3x5_int': 'e34859062ca90302bcc4',
    'hot|i32_5x7|da_a|k5x3': 'e34859062ca90302bcc4',
    'hot|i32_5x7|da_a|row_asym': 'e34859062ca90302bcc4',
    'hot|i32_5x7|da_b|cross3': '2f8ca5cf9ca826b5f3db',
    'hot|i32_5x7|da_b|full3': '2f8ca5cf9ca826b5f3db',
    'hot|i32_5x7|da_b|k3x5_int': '2f8ca5cf9ca826b5f3db',
    'hot|i32_5x7|da_b|k5x3': '2f8ca5cf9ca826b5f3db',
    'hot|i32_5x7|da_b|row_asym': '2f8ca5cf9ca826b5f3db',
    'hot|i32_5x7|da_c|cross3': '169276d2d18b8d823cb1',
    'hot|i32_5x7|da_c|full3': '169276d2d18b8d823cb1',
    'hot|i32_5x7|da_c|k3x5_int': '169276d2d18b8d823cb1',
    'hot|i32_5x7|da_c|k5x3': '169276d2d18b8d823cb1',
    'hot|i32_5x7|da_c|row_asym': '169276d2d18b8d823cb1',
    'hot|i32_5x7|np|cross3': '8270ccdf6d4a973b975a',
    'hot|i32_5x7|np|full3': '8270ccdf6d4a973b975a',
    'hot|i32_5x7|np|k3x5_int': '8270ccdf6d4a973b975a',
    'hot|i32_5x7|np|k5x3': '8270ccdf6d4a973b975a',
    'hot|i32_5x7|np|row_asym': '8270ccdf6d4a973b975a',
    'hot|i64_6x6|da_a|cross3': '7a9758620db9b22220cf',
    'hot|i64_6x6|da_a|full3': '7a9758620db9b22220cf',
    'hot|i64_6x6|da_a|k3x5_int': '7a9758620db9b22220cf',
    'hot|i64_6x6|da_a|k5x3': '7a9758620db9b22220cf',
    'hot|i64_6x6|da_a|row_asym': '7a9758620db9b22220cf',
    'hot|i64_6x6|da_b|cross3': '6a87a5106df5b98ecbb9',
    'hot|i64_6x6|da_b|full3': '6a87a5106df5b98ecbb9',
    'hot|i64_6x6|da_b|k3x5_int': '9705c626447b729df3f9',
    'hot|i64_6x6|da_b|k5x3': '5ce4f15a098c8a8deff8',
    'hot|i64_6x6|da_b|row_asym': '6a87a5106df5b98ecbb9',
    'hot|i64_6x6|da_c|cross3': 'ed6d63a9247b7057994c',
    'hot|i64_6x6|da_c|full3': 'ed6d63a9247b7057994c',
    'hot|i64_6x6|da_c|k3x5_int': 'ed6d63a9247b7057994c',
    'hot|i64_6x6|da_c|k5x3': 'ed6d63a9247b7057994c',
    'hot|i64_6x6|da_c|row_asym': 'ed6d63a9247b7057994c',
    'hot|i64_6x6|np|cross3': 'f691216a04f358687064',
    'hot|i64_6x6|np|full3': 'f691216a04f358687064',
    'hot|i64_6x6|np|k3x5_int': 'f691216a04f358687064',
    'hot|i64_6x6|np|k5x3': 'f691216a04f358687064',
    'hot|i64_6x6|np|row_asym': 'f691216a04f358687064',
    'hot|u8_9x5|da_a|cross3': 'cf84a6bcf8a7d43b5b4b',
    'hot|u8_9x5|da_a|full3': 'cf84a6bcf8a7d43b5b4b',
    'hot|u8_9x5|da_a|k3x5_int': '95b272ef58e4ec8a45a2',
    'hot|u8_9x5|da_a|k5x3': 'cf84a6bcf8a7d43b5b4b',
    'hot|u8_9x5|da_a|row_asym': '5bc9d34f1a8d3a61ff20',
    'hot|u8_9x5|da_b|cross3': 'f55df83f75fe1c7ef4a8',
    'hot|u8_9x5|da_b|full3': 'f55df83f75fe1c7ef4a8',
    'hot|u8_9x5|da_b|k3x5_int': 'f55df83f75fe1c7ef4a8',
    'hot|u8_9x5|da_b|k5x3': 'f55df83f75fe1c7ef4a8',
    'hot|u8_9x5|da_b|row_asym': '062d0c2db80e63b3d551',
    'hot|u8_9x5|da_c|cross3': 'e54b998d896de55ed4d8',
    'hot|u8_9x5|da_c|full3': 'e54b998d896de55ed4d8',
    'hot|u8_9x5|da_c|k3x5_int': 'e54b998d896de55ed4d8',
    'hot|u8_9x5|da_c|k5x3': 'e54b998d896de55ed4d8',
    'hot|u8_9x5|da_c|row_asym': 'd6a16b484f96c4280ef6',
    'hot|u8_9x5|np|cross3': '6a209e9ecf67e038cd0c',
    'hot|u8_9x5|np|full3': '6a209e9ecf67e038cd0c',
    'hot|u8_9x5|np|k3x5_int': '6a209e9ecf67e038cd0c',
    'hot|u8_9x5|np|k5x3': '6a209e9ecf67e038cd0c',
    'hot|u8_9x5|np|row_asym': '3dee0721924537eea326',
    'lay_apply|F|da_a': '9466325b488126e68cd4',
    'lay_apply|F|np': 'd0958b9583477a0b44d8',
    'lay_apply|T|da_a': 'd526ae2a278d9caad5e7',
    'lay_apply|T|np': 'c1fc328ea47502258e7b',
    'lay_apply|strided|da_a': '9466325b488126e68cd4',
    'lay_apply|strided|np': 'd0958b9583477a0b44d8',
    'lay_conv2|F|da_a': 'd2a59953a6fc10e575a8',
    'lay_conv2|F|np': '9928de68eb7a28a79ca7',
    'lay_conv2|T|da_a': '41280ca2f85bc3602c71',
    'lay_conv2|T|np': '197fa3c482b9701f043c',
    'lay_conv2|strided|da_a': 'd2a59953a6fc10e575a8',
    'lay_conv2|strided|np': '9928de68eb7a28a79ca7',
    'lay_conv|F|da_a': 'f5d54832b01c23f7b5b4',
    'lay_conv|F|np': '789db6e3657c9959a3b1',
    'lay_conv|T|da_a': 'ad511f47e6965ee3ab68',
    'lay_conv|T|np': '5ba3793dd2c24a4b82fd',
    'lay_conv|strided|da_a': 'f5d54832b01c23f7b5b4',
    'lay_conv|strided|np': '789db6e3657c9959a3b1',
    'lay_hot|F|da_a': 'e25b49f5d585a98369e1',
    'lay_hot|F|np': 'bd7d9e5ef0ee64c83cd6',
    'lay_hot|T|da_a': '6a70729d7514e8abc4c5',
    'lay_hot|T|np': '6fc301e80a1840a3b1a9',
    'lay_hot|strided|da_a': 'e25b49f5d585a98369e1',
    'lay_hot|strided|np': 'bd7d9e5ef0ee64c83cd6',
    'lay_mean|F|da_a': '3f4b50f2d7efb20fdb21',
    'lay_mean|F|np': '5c2262cb0306c7f4b94e',
    'lay_mean|T|da_a': '096b5e93f55bac64dc6a',
    'lay_mean|T|np': 'd7404dd2b2e6f09a8a02',
    'lay_mean|strided|da_a': '3f4b50f2d7efb20fdb21',
    'lay_mean|strided|np': '5c2262cb0306c7f4b94e',
    'lay_stats|F|da_a': 'e33e3891c4e16b8cbec1',
    'lay_stats|F|np': '600cab7569182d0b2959',
    'lay_stats|T|da_a': 'aabffd5df1813dbbfb42',
    'lay_stats|T|np': '6af5cfa839fe5d8a15c3',
    'lay_stats|strided|da_a': 'e33e3891c4e16b8cbec1',
    'lay_stats|strided|np': '600cab7569182d0b2959',
    'mean_allnan': '6fea2967fb1f479aacfb',
    'mean_ex0|f32_naninf_8x6|da_a': '875ab5b57a677c2cb6e4',
    'mean_ex0|f32_naninf_8x6|da_b': '790f5f8673a2a338d609',
    'mean_ex0|f32_naninf_8x6|da_c': 'f25854a75e330e353f0e',
    'mean_ex0|f32_naninf_8x6|np': '9ddfc99ae359e0d11b5d',
    'mean_ex0|f64_1x5|da_a': '61cfbbcfec567ad98f7e',
    'mean_ex0|f64_1x5|da_b': '4f2f65e413492cf69bd6',
    'mean_ex0|f64_1x5|da_c': '4f2f65e413492cf69bd6',
    'mean_ex0|f64_1x5|np': '2cb175924c48e0c6fee3',
    'mean_ex0|f64_3x3|da_a': 'b2edbd0d9ae77644afc6',
    'mean_ex0|f64_3x3|da_b': 'b2edbd0d9ae77644afc6',
    'mean_ex0|f64_3x3|da_c': 'b2edbd0d9ae77644afc6',
    'mean_ex0|f64_3x3|np': 'e1c4b08bdb706d45e636',
    'mean_ex0|f64_blobs_10x11|da_a': '424e319f8fe561e49f2c',
    'mean_ex0|f64_blobs_10x11|da_b': 'b80563a9ac258553ef06',
    'mean_ex0|f64_blobs_10x11|da_c': '7dd2c1784651413c3af0',
    'mean_ex0|f64_blobs_10x11|np': '8b6e2cef63b80a2276c6',
    'mean_ex0|f64_nan_7x9|da_a': '3f4b50f2d7efb20fdb21',
    'mean_ex0|f64_nan_7x9|da_b': 'd4f6c58f99f0009426c3',
    'mean_ex0|f64_nan_7x9|da_c': '6f9c9f19222211b3eb62',
    'mean_ex0|f64_nan_7x9|np': '5c2262cb0306c7f4b94e',
    'mean_ex0|f64_sparse_12x13|da_a': 'a231609c1044d6abae76',
    'mean_ex0|f64_sparse_12x13|da_b': '8049412013d96e5ab8f7',
    'mean_ex0|f64_sparse_12x13|da_c': 'fe4c2a4cd1ed6912afa9',
    'mean_ex0|f64_sparse_12x13|np': '3816eb138548490cfb5e',
    'mean_ex0|i32_5x7|da_a': 'b8a60dc8a17f1acc28ac',
    'mean_ex0|i32_5x7|da_b': 'd3d050006a0ac1bc4feb',
    'mean_ex0|i32_5x7|da_c': 'ecee1dd249d1e143a79c',
    'mean_ex0|i32_5x7|np': 'defb2f0f8a8bff727ab6',
    'mean_ex0|i64_6x6|da_a': 'c45be1b5f0be71450e16',
    'mean_ex0|i64_6x6|da_b': 'dc6e93890c979d052a5d',
    'mean_ex0|i64_6x6|da_c': 'cfe84fc9e53d47e4b5b0',
    'mean_ex0|i64_6x6|np': 'b0b11f7c37a9057435f7',
    'mean_ex0|u8_9x5|da_a': '726c9223c437411cdb38',
    'mean_ex0|u8_9x5|da_b': '6940ea489f6623ed44bf',
    'mean_ex0|u8_9x5|da_c': 'ceb7c43aa098f7fbb0f7',
    'mean_ex0|u8_9x5|np': '145039a43ac05693b2ae',
    'mean_ex1|f32_naninf_8x6|da_a': '06b780d90b108e2ca841',
    'mean_ex1|f32_naninf_8x6|da_b': '0876fc6c5262f735952d',
    'mean_ex1|f32_naninf_8x6|da_c': '7943cdaa652acd1b1eef',
    'mean_ex1|f32_naninf_8x6|np': 'e5aaccaaa27d66b424d7',
    'mean_ex1|f64_1x5|da_a': '94990e2590f10e057fdb',
    'mean_ex1|f64_1x5|da_b': 'f21b999ad6cacc79beb2',
    'mean_ex1|f64_1x5|da_c': 'f21b999ad6cacc79beb2',
    'mean_ex1|f64_1x5|np': 'a23969f275c060299b25',
    'mean_ex1|f64_3x3|da_a': 'fddce4b8b6bac0d9ded4',
    'mean_ex1|f64_3x3|da_b': 'fddce4b8b6bac0d9ded4',
    'mean_ex1|f64_3x3|da_c': 'fddce4b8b6bac0d9ded4',
    'mean_ex1|f64_3x3|np': '3a4eae75158379b62c4d',
    'mean_ex1|f64_blobs_10x11|da_a': '99322c6cad46a4b8b3f2',
    'mean_ex1|f64_blobs_10x11|da_b': '077efe43533c2fdca4cd',
    'mean_ex1|f64_blobs_10x11|da_c': 'cf194cd4f841a25bce83',
    'mean_ex1|f64_blobs_10x11|np': '5c55d07393e699dbd5f1',
    'mean_ex1|f64_nan_7x9|da_a': '45a3d8a85c8830dbdac2',
    'mean_ex1|f64_nan_7x9|da_b': '5332c2d2ec3d7867a243',
    'mean_ex1|f64_nan_7x9|da_c': '0a849db7efd3c3248a6b',
    'mean_ex1|f64_nan_7x9|np': 'c38ea70eb630524cafa4',
    'mean_ex1|f64_sparse_12x13|da_a': 'a2fd534e4a62c1010f2a',
    'mean_ex1|f64_sparse_12x13|da_b': '6fada9b2877c6d7736a3',
    'mean_ex1|f64_sparse_12x13|da_c': '33393ae9ae4adc7d121d',
    'mean_ex1|f64_sparse_12x13|np': 'cfa9123f8ed8195622b0',
    'mean_ex1|i32_5x7|da_a': '11a46869ee67556bad14',
    'mean_ex1|i32_5x7|da_b': '05f4b57494bb82c51a6b',
    'mean_ex1|i32_5x7|da_c': '8867e70c0891bf88d272',
    'mean_ex1|i32_5x7|np': '4ef7e49ede1dacc7154d',
    'mean_ex1|i64_6x6|da_a': '29d6932f87fa8c55c3f9',
    'mean_ex1|i64_6x6|da_b': '8a71503faa7927b84e00',
    'mean_ex1|i64_6x6|da_c': 'f268b3182fe75ca94818',
    'mean_ex1|i64_6x6|np': '5f459eb504595f329832',
    'mean_ex1|u8_9x5|da_a': 'ce21bbc67595b868650b',
    'mean_ex1|u8_9x5|da_b': 'fd788a2dad648de5d301',
    'mean_ex1|u8_9x5|da_c': 'f47ffe6842ca971287be',
    'mean_ex1|u8_9x5|np': '3d1af915b25faea6442a',
    'mean_exarr|f32_naninf_8x6|da_a': '3d940ea7cf6af9f1a83c',
    'mean_exarr|f32_naninf_8x6|da_b': '8b114165a91acf82f595',
    'mean_exarr|f32_naninf_8x6|da_c': 'f18fdf447fe2f9374e14',
    'mean_exarr|f32_naninf_8x6|np': '59b9334d831aaf3e7448',
    'mean_exarr|f64_1x5|da_a': '481fdbbd01fe544da8c6',
    'mean_exarr|f64_1x5|da_b': '7d92babc58bddcab4ee6',
    'mean_exarr|f64_1x5|da_c': '7d92babc58bddcab4ee6',
    'mean_exarr|f64_1x5|np': '67b19f75fefa38e2e8d9',
    'mean_exarr|f64_3x3|da_a': '0404c57e9725ac6f2711',
    'mean_exarr|f64_3x3|da_b': '0404c57e9725ac6f2711',
    'mean_exarr|f64_3x3|da_c': '0404c57e9725ac6f2711',
    'mean_exarr|f64_3x3|np': 'd443ebea1b69029ebc11',
    'mean_exarr|f64_blobs_10x11|da_a': '1307a7bb247161d12ed3',
    'mean_exarr|f64_blobs_10x11|da_b': '68d6771dae16dad3183c',
    'mean_exarr|f64_blobs_10x11|da_c': '141c4691e79bcd0cf62f',
    'mean_exarr|f64_blobs_10x11|np': '65f075b0c2b54b2e1ed7',
    'mean_exarr|f64_nan_7x9|da_a': '6331d75f29261d58c61c',
    'mean_exarr|f64_nan_7x9|da_b': '7bfeb6e27657526f26ef',
    'mean_exarr|f64_nan_7x9|da_c': '0af0295f63abfcbca3e0',
    'mean_exarr|f64_nan_7x9|np': '6dfe7bdbad745eebae30',
    'mean_exarr|f64_sparse_12x13|da_a': '04de5fe1c10aaeb06c32',
    'mean_exarr|f64_sparse_12x13|da_b': 'df7cc98298b88c0ff493',
    'mean_exarr|f64_sparse_12x13|da_c': 'e7e24a783cf828232739',
    'mean_exarr|f64_sparse_12x13|np': 'bc899e6b07d5cfc4b2c2',
    'mean_exarr|i32_5x7|da_a': '99eeb0a23f16919cbb85',
    'mean_exarr|i32_5x7|da_b': 'cec1de85262cd5bc8339',
    'mean_exarr|i32_5x7|da_c': '1e1955aa08ed35840fe3',
    'mean_exarr|i32_5x7|np': 'ac84ea95fb14e7632274',
    'mean_exarr|i64_6x6|da_a': 'b87b00cb1ecfcc0d42b4',
    'mean_exarr|i64_6x6|da_b': 'dac8686b65484ef00913',
    'mean_exarr|i64_6x6|da_c': '24476cc553b19f63d03f',
    'mean_exarr|i64_6x6|np': 'b3a6fae4f3683b34a27d',
    'mean_exarr|u8_9x5|da_a': '4ae9938b167e9599dff9',
    'mean_exarr|u8_9x5|da_b': '4d220ac88d35660d1d1c',
    'mean_exarr|u8_9x5|da_c': 'ba7f1a9dc800b7a44700',
    'mean_exarr|u8_9x5|np': '08aef5c33a398f96d580',
    'mean_exmixed|f32_naninf_8x6|da_a': 'LAZYEXC:TypingError',
    'mean_exmixed|f32_naninf_8x6|da_b': 'LAZYEXC:TypingError',
    'mean_exmixed|f32_naninf_8x6|da_c': 'LAZYEXC:TypingError',
    'mean_exmixed|f32_naninf_8x6|np': 'EXC:TypingError',
    'mean_exmixed|f64_1x5|da_a': 'LAZYEXC:TypingError',
    'mean_exmixed|f64_1x5|da_b': 'LAZYEXC:TypingError',
    'mean_exmixed|f64_1x5|da_c': 'LAZYEXC:TypingError',
    'mean_exmixed|f64_1x5|np': 'EXC:TypingError',
    'mean_exmixed|f64_3x3|da_a': 'LAZYEXC:TypingError',
    'mean_exmixed|f64_3x3|da_b': 'LAZYEXC:TypingError',
    'mean_exmixed|f64_3x3|da_c': 'LAZYEXC:TypingError',
    'mean_exmixed|f64_3x3|np': 'EXC:TypingError',
    'mean_exmixed|f64_blobs_10x11|da_a': 'LAZYEXC:TypingError',
    'mean_exmixed|f64_blobs_10x11|da_b': 'LAZYEXC:TypingError',
    'mean_exmixed|f64_blobs_10x11|da_c': 'LAZYEXC:TypingError',
    'mean_exmixed|f64_blobs_10x11|np': 'EXC:TypingError',
    'mean_exmixed|f64_nan_7x9|da_a': 'LAZYEXC:TypingError',
    'mean_exmixed|f64_nan_7x9|da_b': 'LAZYEXC:TypingError',
    'mean_exmixed|f64_nan_7x9|da_c': 'LAZYEXC:TypingError',
    'mean_exmixed|f64_nan_7x9|np': 'EXC:TypingError',
    'mean_exmixed|f64_sparse_12x13|da_a': 'LAZYEXC:TypingError',
    'mean_exmixed|f64_sparse_12x13|da_b': 'LAZYEXC:TypingError',
    'mean_exmixed|f64_sparse_12x13|da_c': 'LAZYEXC:TypingError',
    'mean_exmixed|f64_sparse_12x13|np': 'EXC:TypingError',
    'mean_exmixed|i32_5x7|da_a': 'LAZYEXC:TypingError',
    'mean_exmixed|i32_5x7|da_b': 'LAZYEXC:TypingError',
    'mean_exmixed|i32_5x7|da_c': 'LAZYEXC:TypingError',
    'mean_exmixed|i32_5x7|np': 'EXC:TypingError',
    'mean_exmixed|i64_6x6|da_a': 'LAZYEXC:TypingError',
    'mean_exmixed|i64_6x6|da_b': 'LAZYEXC:TypingError',
    'mean_exmixed|i64_6x6|da_c': 'LAZYEXC:TypingError',
    'mean_exmixed|i64_6x6|np': 'EXC:TypingError',
    'mean_exmixed|u8_9x5|da_a': 'LAZYEXC:TypingError',
    'mean_exmixed|u8_9x5|da_b': 'LAZYEXC:TypingError',
    'mean_exmixed|u8_9x5|da_c': 'LAZYEXC:TypingError',
    'mean_exmixed|u8_9x5|np': 'EXC:TypingError',
    'mean|f32_naninf_8x6|da_a|p0': '5487d78fb4546f42c639',
    'mean|f32_naninf_8x6|da_a|p1': 'ec33dfdedb7d70017cff',
    'mean|f32_naninf_8x6|da_a|p2': '875ab5b57a677c2cb6e4',
    'mean|f32_naninf_8x6|da_a|p3': 'f8020d3bdeee43cdecf1',
    'mean|f32_naninf_8x6|da_b|p0': 'e901559932b43ab7e1a1',
    'mean|f32_naninf_8x6|da_b|p1': 'e90bcc509e86018871b9',
    'mean|f32_naninf_8x6|da_b|p2': '790f5f8673a2a338d609',
    'mean|f32_naninf_8x6|da_b|p3': '95a15af639d8efc4280e',
    'mean|f32_naninf_8x6|da_c|p0': 'e48d8e81782ca63a873d',
    'mean|f32_naninf_8x6|da_c|p1': '32f199b51a5b12967d3c',
    'mean|f32_naninf_8x6|da_c|p2': 'f25854a75e330e353f0e',
    'mean|f32_naninf_8x6|da_c|p3': 'c33d315f5539d234b291',
    'mean|f32_naninf_8x6|np|p0': '9779047bcb42d66d7d97',
    'mean|f32_naninf_8x6|np|p1': 'bbc9329c4e01c6769cae',
    'mean|f32_naninf_8x6|np|p2': '9ddfc99ae359e0d11b5d',
    'mean|f32_naninf_8x6|np|p3': '7c5d7e8686a0657bf6e5',
    'mean|f64_1x5|da_a|p0': '80efe8f16a630fae426e',
    'mean|f64_1x5|da_a|p1': '481fdbbd01fe544da8c6',
    'mean|f64_1x5|da_a|p2': '61cfbbcfec567ad98f7e',
    'mean|f64_1x5|da_a|p3': 'f85ba598890de91470a6',
    'mean|f64_1x5|da_b|p0': '3fdbc75ff4c7f87d5bd5',
    'mean|f64_1x5|da_b|p1': '7d92babc58bddcab4ee6',
    'mean|f64_1x5|da_b|p2': '4f2f65e413492cf69bd6',
    'mean|f64_1x5|da_b|p3': '9bc7a3fd97525d52f74b',
    'mean|f64_1x5|da_c|p0': '3fdbc75ff4c7f87d5bd5',
    'mean|f64_1x5|da_c|p1': '7d92babc58bddcab4ee6',
    'mean|f64_1x5|da_c|p2': '4f2f65e413492cf69bd6',
    'mean|f64_1x5|da_c|p3': '9bc7a3fd97525d52f74b',
    'mean|f64_1x5|np|p0': '170effe93550bd692f45',
    'mean|f64_1x5|np|p1': '67b19f75fefa38e2e8d9',
    'mean|f64_1x5|np|p2': '2cb175924c48e0c6fee3',
    'mean|f64_1x5|np|p3': 'dade7ff8c9bd4c372717',
    'mean|f64_3x3|da_a|p0': '352e843e1aeb2b913f38',
    'mean|f64_3x3|da_a|p1': '0404c57e9725ac6f2711',
    'mean|f64_3x3|da_a|p2': 'b2edbd0d9ae77644afc6',
    'mean|f64_3x3|da_a|p3': '1d15b0ff5b6110dcc543',
    'mean|f64_3x3|da_b|p0': '352e843e1aeb2b913f38',
    'mean|f64_3x3|da_b|p1': '0404c57e9725ac6f2711',
    'mean|f64_3x3|da_b|p2': 'b2edbd0d9ae77644afc6',
    'mean|f64_3x3|da_b|p3': '1d15b0ff5b6110dcc543',
    'mean|f64_3x3|da_c|p0': '352e843e1aeb2b913f38',
    'mean|f64_3x3|da_c|p1': '0404c57e9725ac6f2711',
    'mean|f64_3x3|da_c|p2': 'b2edbd0d9ae77644afc6',
    'mean|f64_3x3|da_c|p3': '1d15b0ff5b6110dcc543',
    'mean|f64_3x3|np|p0': 'f88b8cd5e0037d028670',
    'mean|f64_3x3|np|p1': 'd443ebea1b69029ebc11',
    'mean|f64_3x3|np|p2': 'e1c4b08bdb706d45e636',
    'mean|f64_3x3|np|p3': '10b54e533c4d374367f1',
    'mean|f64_blobs_10x11|da_a|p0': '3e18ec3eca817b2cc9c2',
    'mean|f64_blobs_10x11|da_a|p1': '1307a7bb247161d12ed3',
    'mean|f64_blobs_10x11|da_a|p2': 'd399f2415ce07175fceb',
    'mean|f64_blobs_10x11|da_a|p3': 'cfcf9f3b9bb361b6d470',
    'mean|f64_blobs_10x11|da_b|p0': 'e8a66b516338b8357a07',
    'mean|f64_blobs_10x11|da_b|p1': '68d6771dae16dad3183c',
    'mean|f64_blobs_10x11|da_b|p2': '66a4746864354ba5664c',
    'mean|f64_blobs_10x11|da_b|p3': '037b8a94f13e17b12595',
    'mean|f64_blobs_10x11|da_c|p0': 'f96a2a96093ae1f6ee07',
    'mean|f64_blobs_10x11|da_c|p1': '141c4691e79bcd0cf62f',
    'mean|f64_blobs_10x11|da_c|p2': '62c58324cdc6f5eaa15c',
    'mean|f64_blobs_10x11|da_c|p3': '3efb80182bb7baa7897b',
    'mean|f64_blobs_10x11|np|p0': '02432ec22f1089328b03',
    'mean|f64_blobs_10x11|np|p1': '65f075b0c2b54b2e1ed7',
    'mean|f64_blobs_10x11|np|p2': '09c0d8f8807d81bbb6d9',
    'mean|f64_blobs_10x11|np|p3': '03b287494491b29c21db',
    'mean|f64_nan_7x9|da_a|p0': '74e09ecd9a7432031a4a',
    'mean|f64_nan_7x9|da_a|p1': '1da6da0ac6b87041ba51',
    'mean|f64_nan_7x9|da_a|p2': '3f4b50f2d7efb20fdb21',
    'mean|f64_nan_7x9|da_a|p3': '3c9df63c549cd0006409',
    'mean|f64_nan_7x9|da_b|p0': '60979dce89ed7841db27',
    'mean|f64_nan_7x9|da_b|p1': 'ccd16d066427761b9991',
    'mean|f64_nan_7x9|da_b|p2': 'd4f6c58f99f0009426c3',
    'mean|f64_nan_7x9|da_b|p3': 'a37351487808911c3125',
    'mean|f64_nan_7x9|da_c|p0': '791d93f6b368c06f72cc',
    'mean|f64_nan_7x9|da_c|p1': '1dfc6a839fbfb66934a0',
    'mean|f64_nan_7x9|da_c|p2': '6f9c9f19222211b3eb62',
    'mean|f64_nan_7x9|da_c|p3': '9b00f2e4af4eafb9cb1c',
    'mean|f64_nan_7x9|np|p0': 'd8b0257af679511a36e0',
    'mean|f64_nan_7x9|np|p1': '30ab87dbbbd0bc3c95fb',
    'mean|f64_nan_7x9|np|p2': '5c2262cb0306c7f4b94e',
    'mean|f64_nan_7x9|np|p3': '8e8eaaa67979c06ab8a2',
    'mean|f64_sparse_12x13|da_a|p0': '50218a9543c98bb38078',
    'mean|f64_sparse_12x13|da_a|p1': '82ed6438adcc94d98108',
    'mean|f64_sparse_12x13|da_a|p2': 'a231609c1044d6abae76',
    'mean|f64_sparse_12x13|da_a|p3': 'bc1cf4506f6735e1bcf1',
    'mean|f64_sparse_12x13|da_b|p0': '296e83985b1143675e45',
    'mean|f64_sparse_12x13|da_b|p1': '89f95e961eedc37b3d5e',
    'mean|f64_sparse_12x13|da_b|p2': '8049412013d96e5ab8f7',
    'mean|f64_sparse_12x13|da_b|p3': 'bf58817fc054b01d112a',
    'mean|f64_sparse_12x13|da_c|p0': '46f6a0625adbe8cb9a5e',
    'mean|f64_sparse_12x13|da_c|p1': '47f10f90828960a5f6f7',
    'mean|f64_sparse_12x13|da_c|p2': 'fe4c2a4cd1ed6912afa9',
    'mean|f64_sparse_12x13|da_c|p3': 'f72af9a23bef83e12ecb',
    'mean|f64_sparse_12x13|np|p0': '3c9aec5186369b3c8867',
    'mean|f64_sparse_12x13|np|p1': 'a46b323f3e617c50fe2a',
    'mean|f64_sparse_12x13|np|p2': '3816eb138548490cfb5e',
    'mean|f64_sparse_12x13|np|p3': '0999caed219eb3b28b7e',
    'mean|i32_5x7|da_a|p0': '7ccde829097cad82f717',
    'mean|i32_5x7|da_a|p1': '8789274989fca08377ae',
    'mean|i32_5x7|da_a|p2': '3a6a9163e4e2073a44eb',
    'mean|i32_5x7|da_a|p3': 'f00e43f0db834d5ca018',
    'mean|i32_5x7|da_b|p0': 'd17286cc9e96557857e9',
    'mean|i32_5x7|da_b|p1': '537e73846d16afd18667',
    'mean|i32_5x7|da_b|p2': 'aa353b596adbe76171f7',
    'mean|i32_5x7|da_b|p3': '488eabab1f19fb881daf',
    'mean|i32_5x7|da_c|p0': 'fb37758d192f2ffc8810',
    'mean|i32_5x7|da_c|p1': '84bc166afffe8f1e97a3',
    'mean|i32_5x7|da_c|p2': '1c7aef65928b7a655468',
    'mean|i32_5x7|da_c|p3': '4ac63a3829244a78d770',
    'mean|i32_5x7|np|p0': 'a1aad7d4d66a3d686c96',
    'mean|i32_5x7|np|p1': '9db434c3dc9236ce353a',
    'mean|i32_5x7|np|p2': '636dde4c7ab45f2eee5d',
    'mean|i32_5x7|np|p3': '57892119d8db81e7652d',
    'mean|i64_6x6|da_a|p0': '840b3dcb31c4edfec9c5',
    'mean|i64_6x6|da_a|p1': 'b66cc35973ffadbf6fbf',
    'mean|i64_6x6|da_a|p2': '03042a89068a0794795c',
    'mean|i64_6x6|da_a|p3': '129c099c623488fa2601',
    'mean|i64_6x6|da_b|p0': '223e64016b5c3a92e92a',
    'mean|i64_6x6|da_b|p1': '751c9915401e7146a2a9',
    'mean|i64_6x6|da_b|p2': '709b91306d0029a0287d',
    'mean|i64_6x6|da_b|p3': '5a93ffc1326db3854151',
    'mean|i64_6x6|da_c|p0': '2fe8a715a271e3f14b5d',
    'mean|i64_6x6|da_c|p1': '55e327a39e16840b604c',
    'mean|i64_6x6|da_c|p2': '920881d6a4fd0414a4b7',
    'mean|i64_6x6|da_c|p3': '2411433bd730d4e1f625',
    'mean|i64_6x6|np|p0': 'e3c40490855585c88dea',
    'mean|i64_6x6|np|p1': 'e3ed2859cd6be042fe40',
    'mean|i64_6x6|np|p2': '7e28c59dd96bad73158b',
    'mean|i64_6x6|np|p3': '15a15cc3982dca3226cd',
    'mean|u8_9x5|da_a|p0': '4200b5f91943e2251b56',
    'mean|u8_9x5|da_a|p1': '4ae9938b167e9599dff9',
    'mean|u8_9x5|da_a|p2': '726c9223c437411cdb38',
    'mean|u8_9x5|da_a|p3': 'c54f2e5e54eb31797847',
    'mean|u8_9x5|da_b|p0': '3ff128ec407ec58c9217',
    'mean|u8_9x5|da_b|p1': '4d220ac88d35660d1d1c',
    'mean|u8_9x5|da_b|p2': '6940ea489f6623ed44bf',
    'mean|u8_9x5|da_b|p3': '04d58bfc26e216c3b1e4',
    'mean|u8_9x5|da_c|p0': 'd5cfb626e160fb594001',
    'mean|u8_9x5|da_c|p1': 'ba7f1a9dc800b7a44700',
    'mean|u8_9x5|da_c|p2': 'ceb7c43aa098f7fbb0f7',
    'mean|u8_9x5|da_c|p3': '9471ee0d1ac7d1b6f320',
    'mean|u8_9x5|np|p0': '777349b749256d68c21b',
    'mean|u8_9x5|np|p1': '08aef5c33a398f96d580',
    'mean|u8_9x5|np|p2': '145039a43ac05693b2ae',
    'mean|u8_9x5|np|p3': 'a787e62d2e81f80e9d56',
    'stats2|f32_naninf_8x6|da_a': '8b48d21ff676927fa413',
    'stats2|f32_naninf_8x6|da_b': 'e686f4c7a2c2e55ef482',
    'stats2|f32_naninf_8x6|da_c': '46ec5091c5db263239a8',
    'stats2|f32_naninf_8x6|np': '5bcbc5419aba46f82879',
    'stats2|f64_1x5|da_a': 'effcc72fbad7030a8b15',
    'stats2|f64_1x5|da_b': '584cdac06fc2e27a4a2f',
    'stats2|f64_1x5|da_c': '584cdac06fc2e27a4a2f',
    'stats2|f64_1x5|np': '2f54fe31a117246af490',
    'stats2|f64_3x3|da_a': '20685f2a88a9991838ae',
    'stats2|f64_3x3|da_b': '20685f2a88a9991838ae',
    'stats2|f64_3x3|da_c': '20685f2a88a9991838ae',
    'stats2|f64_3x3|np': '8c2f8047b124e2aed486',
    'stats2|f64_blobs_10x11|da_a': '432a133b6a86b9cfc105',
    'stats2|f64_blobs_10x11|da_b': '445010bfcdc87d0283d2',
    'stats2|f64_blobs_10x11|da_c': 'ce10ffb64e30a60d37b5',
    'stats2|f64_blobs_10x11|np': '1835437b9f691635128f',
    'stats2|f64_nan_7x9|da_a': '8750d1bf7acd15b8e0e4',
    'stats2|f64_nan_7x9|da_b': 'ee2f8e39bfceb2ef679f',
    'stats2|f64_nan_7x9|da_c': '60a9172ed8357bc648d2',
    'stats2|f64_nan_7x9|np': 'aafdacf8b6d0afe78eaa',
    'stats2|f64_sparse_12x13|da_a': 'a869800f756c77bbf60e',
    'stats2|f64_sparse_12x13|da_b': '3d1e73cfffb1369c3717',
    'stats2|f64_sparse_12x13|da_c': '9762f3fac67fded1ff53',
    'stats2|f64_sparse_12x13|np': 'db6aa4da15d380e7d733',
    'stats2|i32_5x7|da_a': 'b39a861a1c4e000cf530',
    'stats2|i32_5x7|da_b': 'be9a6372a916d7feaff6',
    'stats2|i32_5x7|da_c': '6ad6ee06a7c12e5fb9d4',
    'stats2|i32_5x7|np': 'd94e6d90d8525ef562b0',
    'stats2|i64_6x6|da_a': 'ec4c825c29948143e636',
    'stats2|i64_6x6|da_b': 'a4e0968f4fa2a2477dc6',
    'stats2|i64_6x6|da_c': '3ae8b54f9f837ee25168',
    'stats2|i64_6x6|np': '7aa4bdd3c50f356611de',
    'stats2|u8_9x5|da_a': '0e039c7ab2c95387ae56',
    'stats2|u8_9x5|da_b': 'a81b3ab186f09bd49af2',
    'stats2|u8_9x5|da_c': '7fd137bba422e3b3ccdb',
    'stats2|u8_9x5|np': 'a6b25e217ec178487df7',
    'stats_bad': 'EXC:KeyError',
    'stats_even': 'EXC:ValueError',
    'stats_notda': 'EXC:TypeError',
    'stats|f32_naninf_8x6|da_a|full3': 'f3f8cc4b00c8deaff5ed',
    'stats|f32_naninf_8x6|da_a|k3x5_int': '9140c7f2bdc31c30103a',
    'stats|f32_naninf_8x6|da_a|k5x3': '71ba9ef48bd1762ae1d3',
    'stats|f32_naninf_8x6|da_a|row_asym': 'a187ecd6604ff046bff3',
    'stats|f32_naninf_8x6|da_b|full3': '004da6569d5631e69783',
    'stats|f32_naninf_8x6|da_b|k3x5_int': 'c62cf4ba185be4e59100',
    'stats|f32_naninf_8x6|da_b|k5x3': '1d300f357b4ac5181f3b',
    'stats|f32_naninf_8x6|da_b|row_asym': 'aeebe40ed38bfb72ef1e',
    'stats|f32_naninf_8x6|da_c|ann5': '5b4708acde47b60e9e88',
    'stats|f32_naninf_8x6|da_c|col3': '35d326d9b704b30b9be2',
    'stats|f32_naninf_8x6|da_c|cross3': 'a9e5b0b1fb461c0785cb',
    'stats|f32_naninf_8x6|da_c|full3': '0a4cbd0d5232fa67ab32',
    'stats|f32_naninf_8x6|da_c|k1x1': '1046caa03b3db4457bfd',
    'stats|f32_naninf_8x6|da_c|k3x5_int': '5f138b678e8aed6eaa4e',
    'stats|f32_naninf_8x6|da_c|k5x3': '3a1f7a2ff37ae95e3651',
    'stats|f32_naninf_8x6|da_c|row_asym': '1d68c7606ad838ef097c',
    'stats|f32_naninf_8x6|np|ann5': 'dc7a199d87b6c051814c',
    'stats|f32_naninf_8x6|np|col3': '253dd110b9048b0f81d0',
    'stats|f32_naninf_8x6|np|cross3': '0adb7f1950499d551581',
    'stats|f32_naninf_8x6|np|full3': 'eae3e8eb3b2d1884abd1',
    'stats|f32_naninf_8x6|np|k1x1': '0c786fdc66be8f494920',
    'stats|f32_naninf_8x6|np|k3x5_int': 'b39c80ad0aa9dd473339',
    'stats|f32_naninf_8x6|np|k5x3': '5fcea43d3d386beb3d63',
    'stats|f32_naninf_8x6|np|row_asym': '14267fc9bc04b3314dbb',
    'stats|f64_1x5|da_a|full3': 'db3fb9b9a796dfe907cf',
    'stats|f64_1x5|da_a|k3x5_int': '8964a66c6ef467fad7d8',
    'stats|f64_1x5|da_a|row_asym': '17a9af2987c486e3b5fc',
    'stats|f64_1x5|da_b|full3': '4a855aa48a4843938a8f',
    'stats|f64_1x5|da_b|k3x5_int': '814828a971ca12e4f11b',
    'stats|f64_1x5|da_b|row_asym': '8b81aa7e9ea1b22c8f12',
    'stats|f64_1x5|da_c|col3': '42b6e55ce239894c2acc',
    'stats|f64_1x5|da_c|cross3': '4a855aa48a4843938a8f',
    'stats|f64_1x5|da_c|full3': '4a855aa48a4843938a8f',
    'stats|f64_1x5|da_c|k1x1': '0b3558a0f7a23b6579b4',
    'stats|f64_1x5|da_c|k3x5_int': '814828a971ca12e4f11b',
    'stats|f64_1x5|da_c|row_asym': '8b81aa7e9ea1b22c8f12',
    'stats|f64_1x5|np|ann5': '94ad6aa7d49a71812937',
    'stats|f64_1x5|np|col3': '692c2afc1c662d811318',
    'stats|f64_1x5|np|cross3': '2480b8acf2b4f170e1db',
    'stats|f64_1x5|np|full3': '2480b8acf2b4f170e1db',
    'stats|f64_1x5|np|k1x1': '0cf479c4568c5de03e9d',
    'stats|f64_1x5|np|k3x5_int': '5f532d257ec18df51bb5',
    'stats|f64_1x5|np|k5x3': '83089cb63db971311046',
    'stats|f64_1x5|np|row_asym': '83089cb63db971311046',
    'stats|f64_3x3|da_a|full3': 'a0811bdb5b040ef48e1c',
    'stats|f64_3x3|da_a|k3x5_int': 'cd6ed7afe1fde659a5cd',
    'stats|f64_3x3|da_a|k5x3': '389bbf153507971da6a1',
    'stats|f64_3x3|da_a|row_asym': 'b6225f105a8147a35ea6',
    'stats|f64_3x3|da_b|full3': 'a0811bdb5b040ef48e1c',
    'stats|f64_3x3|da_b|k3x5_int': 'cd6ed7afe1fde659a5cd',
    'stats|f64_3x3|da_b|k5x3': '389bbf153507971da6a1',
    'stats|f64_3x3|da_b|row_asym': 'b6225f105a8147a35ea6',
    'stats|f64_3x3|da_c|ann5': '7059cbd09b53ce769ab6',
    'stats|f64_3x3|da_c|col3': '1ebe59efc6afeaa7d6cc',
    'stats|f64_3x3|da_c|cross3': 'a7bc89045ffa58a06961',
    'stats|f64_3x3|da_c|full3': 'a0811bdb5b040ef48e1c',
    'stats|f64_3x3|da_c|k1x1': '208c3846833852e30c37',
    'stats|f64_3x3|da_c|k3x5_int': 'cd6ed7afe1fde659a5cd',
    'stats|f64_3x3|da_c|k5x3': '389bbf153507971da6a1',
    'stats|f64_3x3|da_c|row_asym': 'b6225f105a8147a35ea6',
    'stats|f64_3x3|np|ann5': '92efa3941d84a5aa8336',
    'stats|f64_3x3|np|col3': '422f587f8257561dad83',
    'stats|f64_3x3|np|cross3': 'd9be539661ad02fe3562',
    'stats|f64_3x3|np|full3': 'aec69a9dab73bd204129',
    'stats|f64_3x3|np|k1x1': '65f37dca0e276d47d0c6',
    'stats|f64_3x3|np|k3x5_int': '697af17a42e8c786a47e',
    'stats|f64_3x3|np|k5x3': '5b670af47c08efe0c21d',
    'stats|f64_3x3|np|row_asym': '6f23a00040a73ec0d370',
    'stats|f64_blobs_10x11|da_a|full3': 'c761f85a646a40511ee7',
    'stats|f64_blobs_10x11|da_a|k3x5_int': 'c8714d8e7d7f456876b8',
    'stats|f64_blobs_10x11|da_a|k5x3': 'eeed6deb99db47c25b01',
    'stats|f64_blobs_10x11|da_a|row_asym': '98cc7e003afc6b898fbd',
    'stats|f64_blobs_10x11|da_b|full3': 'b6bff69786b013b853fe',
    'stats|f64_blobs_10x11|da_b|k3x5_int': '50097ffeddaa45b40e16',
    'stats|f64_blobs_10x11|da_b|k5x3': 'daed3cc11d30cd869f90',
    'stats|f64_blobs_10x11|da_b|row_asym': '1105cdae314a2a5d2963',
    'stats|f64_blobs_10x11|da_c|ann5': '590c74d1da852ffd6941',
    'stats|f64_blobs_10x11|da_c|col3': '03c7b088091bc11bb6c0',
    'stats|f64_blobs_10x11|da_c|cross3': 'e8e109924d606d0cd9eb',
    'stats|f64_blobs_10x11|da_c|full3': '3aad991a81d32b149ff7',
    'stats|f64_blobs_10x11|da_c|k1x1': 'ad05cd3eb135bdd15106',
    'stats|f64_blobs_10x11|da_c|k3x5_int': '0366bb0ac29f54f6c31f',
    'stats|f64_blobs_10x11|da_c|k5x3': '5c1511b58c00fc3dd64e',
    'stats|f64_blobs_10x11|da_c|row_asym': 'ba5c321946ff0ff84b90',
    'stats|f64_blobs_10x11|np|ann5': '21a33687ba9874991831',
    'stats|f64_blobs_10x11|np|col3': '2a7904b8bf9bdde5a71b',
    'stats|f64_blobs_10x11|np|cross3': '406d7cfd111f59a26c67',
    'stats|f64_blobs_10x11|np|full3': 'a5330d5af67b535705df',
    'stats|f64_blobs_10x11|np|k1x1': '649d7eaebfa5e8ad9513',
    'stats|f64_blobs_10x11|np|k3x5_int': '6f388f6cf0e9734ed19c',
    'stats|f64_blobs_10x11|np|k5x3': '1729b843c31d12ffcd7d',
    'stats|f64_blobs_10x11|np|row_asym': 'ef5fe65193e231ddd1bd',
    'stats|f64_nan_7x9|da_a|full3': 'ad802347aba36e6eb749',
    'stats|f64_nan_7x9|da_a|k3x5_int': '51b14ca6577a8cd03481',
    'stats|f64_nan_7x9|da_a|k5x3': '33f1e397e0b9d1ed2a00',
    'stats|f64_nan_7x9|da_a|row_asym': '147abc3817e2416f882e',
    'stats|f64_nan_7x9|da_b|full3': 'a4b8ee97fad3b02cf6f8',
    'stats|f64_nan_7x9|da_b|k3x5_int': '9cc7eb1a4afc2892da8a',
    'stats|f64_nan_7x9|da_b|k5x3': '32e328729081d0e28980',
    'stats|f64_nan_7x9|da_b|row_asym': '1ead3fbf9e31575afa20',
    'stats|f64_nan_7x9|da_c|ann5': '9dcb505a4919306e2173',
    'stats|f64_nan_7x9|da_c|col3': '6c88baf36e075bd81b2b',
    'stats|f64_nan_7x9|da_c|cross3': 'cd63ffe4b8c331fe7062',
    'stats|f64_nan_7x9|da_c|full3': 'd694e59f890d562b2d49',
    'stats|f64_nan_7x9|da_c|k1x1': '77ac74e62c5546209261',
    'stats|f64_nan_7x9|da_c|k3x5_int': '674833b61a451384bef1',
    'stats|f64_nan_7x9|da_c|k5x3': 'f52a04c2366a6556ceb5',
    'stats|f64_nan_7x9|da_c|row_asym': 'e877cc29b1bb416d3670',
    'stats|f64_nan_7x9|np|ann5': '5d038fab13bf4caab9e1',
    'stats|f64_nan_7x9|np|col3': '339fa08a611f9e154498',
    'stats|f64_nan_7x9|np|cross3': 'e9dac47fb9ba696a1213',
    'stats|f64_nan_7x9|np|full3': 'b6ac547363a1b83a74ae',
    'stats|f64_nan_7x9|np|k1x1': '8514cee12aaf5cab2b4b',
    'stats|f64_nan_7x9|np|k3x5_int': 'b082c14ef31b6e3d0100',
    'stats|f64_nan_7x9|np|k5x3': '94f29d85bf266bc31a6a',
    'stats|f64_nan_7x9|np|row_asym': 'b11d8c6e2be2ed70af48',
    'stats|f64_sparse_12x13|da_a|full3': '462ef0ef8a1f605d9452',
    'stats|f64_sparse_12x13|da_a|k3x5_int': 'd787633eec9be3cf4250',
    'stats|f64_sparse_12x13|da_a|k5x3': 'b3c87f5230ed0348e082',
    'stats|f64_sparse_12x13|da_a|row_asym': '4d946210483a74315beb',
    'stats|f64_sparse_12x13|da_b|full3': 'caba25e57cb5205ea616',
    'stats|f64_sparse_12x13|da_b|k3x5_int': 'f56379ad1becb7bbf442',
    'stats|f64_sparse_12x13|da_b|k5x3': 'dcb07043dc7d29a02a40',
    'stats|f64_sparse_12x13|da_b|row_asym': '32ad4913648263c7cc29',
    'stats|f64_sparse_12x13|da_c|ann5': '6b8b8a15905fd20190ac',
    'stats|f64_sparse_12x13|da_c|col3': '78b5273a6882bbd39e6e',
    'stats|f64_sparse_12x13|da_c|cross3': '8e0ad7316d159f9bf45b',
    'stats|f64_sparse_12x13|da_c|full3': 'e8ac08c932a81f5e308b',
    'stats|f64_sparse_12x13|da_c|k1x1': '63bea52dd44413e626c1',
    'stats|f64_sparse_12x13|da_c|k3x5_int': '7bb7dea8d8ded4b1413b',
    'stats|f64_sparse_12x13|da_c|k5x3': 'e636fbf92f67ff6caddd',
    'stats|f64_sparse_12x13|da_c|row_asym': 'fd5f470b40cd39b57e91',
    'stats|f64_sparse_12x13|np|ann5': 'f3b05d9ecc4543038d7c',
    'stats|f64_sparse_12x13|np|col3': '114478ac057f693d4fea',
    'stats|f64_sparse_12x13|np|cross3': 'ec487d207767d5c87e9b',
    'stats|f64_sparse_12x13|np|full3': 'e4b17aabfa913abf18f8',
    'stats|f64_sparse_12x13|np|k1x1': '7cc2cb7a020674c969ef',
    'stats|f64_sparse_12x13|np|k3x5_int': '175696a02edf0beee3ed',
    'stats|f64_sparse_12x13|np|k5x3': '6da0adf1d9104bec654b',
    'stats|f64_sparse_12x13|np|row_asym': '389787f61343b167ef3a',
    'stats|i32_5x7|da_a|full3': '0547817ac5b6335614a9',
    'stats|i32_5x7|da_a|k3x5_int': '809e9d3d1746abea32cc',
    'stats|i32_5x7|da_a|k5x3': 'bb656c2d3d91c9a00469',
    'stats|i32_5x7|da_a|row_asym': 'd883c282894a8280a387',
    'stats|i32_5x7|da_b|full3': '1beb978b52235263e762',
    'stats|i32_5x7|da_b|k3x5_int': 'cb0402906bd789143f9b',
    'stats|i32_5x7|da_b|k5x3': '1812a45150c6d94bae6e',
    'stats|i32_5x7|da_b|row_asym': '0ff618fc12d284675ad4',
    'stats|i32_5x7|da_c|ann5': 'f4e2f9a1da666848c473',
    'stats|i32_5x7|da_c|col3': '916248e482c82bbf6e98',
    'stats|i32_5x7|da_c|cross3': '46b4be61e739682ba4f5',
    'stats|i32_5x7|da_c|full3': 'b1182475f9869d00e1ae',
    'stats|i32_5x7|da_c|k1x1': 'c83ddc05aedf07209cf8',
    'stats|i32_5x7|da_c|k3x5_int': '640252089c453a459f74',
    'stats|i32_5x7|da_c|k5x3': 'dc8c896b27668dd4e007',
    'stats|i32_5x7|da_c|row_asym': '070b58ff2a928745480c',
    'stats|i32_5x7|np|ann5': '51eac7d92e0ed0702968',
    'stats|i32_5x7|np|col3': '254b6f1c3e9224fc57a1',
    'stats|i32_5x7|np|cross3': 'a5297ae9074ebeb7616d',
    'stats|i32_5x7|np|full3': '86d59031d17dc4fa5a6c',
    'stats|i32_5x7|np|k1x1': '27435282b081e60878f6',
    'stats|i32_5x7|np|k3x5_int': '7df02dc86c199e3e90df',
    'stats|i32_5x7|np|k5x3': '100355b3423c3d58e3b6',
    'stats|i32_5x7|np|row_asym': '508a32ff9702e3714677',
    'stats|i64_6x6|da_a|full3': '9e599a76a8232a770a53',
    'stats|i64_6x6|da_a|k3x5_int': '0480517f03f6acc3c84b',
    'stats|i64_6x6|da_a|k5x3': '9603ddacc241e07b2f6f',
    'stats|i64_6x6|da_a|row_asym': 'b359f827a55dccea700c',
    'stats|i64_6x6|da_b|full3': '81c626569ced595c4449',
    'stats|i64_6x6|da_b|k3x5_int': '359468c83f41f55fef6a',
    'stats|i64_6x6|da_b|k5x3': '941673495d56f8bf7652',
    'stats|i64_6x6|da_b|row_asym': 'd093b00018737b6a76d2',
    'stats|i64_6x6|da_c|ann5': '43aaea66242c5e3be305',
    'stats|i64_6x6|da_c|col3': '6d6e0ff53c4a4df05024',
    'stats|i64_6x6|da_c|cross3': '0ac7fe7910f3dfefc6b0',
    'stats|i64_6x6|da_c|full3': '72b80d69509b43ead509',
    'stats|i64_6x6|da_c|k1x1': '1fdc5083e3f2a0dffec2',
    'stats|i64_6x6|da_c|k3x5_int': '5332f17b9c95ad99e6bf',
    'stats|i64_6x6|da_c|k5x3': 'af60e0b6830bb2c71ac6',
    'stats|i64_6x6|da_c|row_asym': 'f41e9acce761cfaa17d5',
    'stats|i64_6x6|np|ann5': 'f4a16e3ba38c21988d5f',
    'stats|i64_6x6|np|col3': 'd1691e67b6cd0eeae2de',
    'stats|i64_6x6|np|cross3': '9dc6f80067d33000395e',
    'stats|i64_6x6|np|full3': 'c03894b400214e9fdf3a',
    'stats|i64_6x6|np|k1x1': '2cce74a1f8968bceb89f',
    'stats|i64_6x6|np|k3x5_int': 'cabdead07fcfbc6751e0',
    'stats|i64_6x6|np|k5x3': '5c739ad6c42d747abf30',
    'stats|i64_6x6|np|row_asym': 'd84a892dfb80584e20de',
    'stats|u8_9x5|da_a|full3': '65d2603cd497a14cfa80',
    'stats|u8_9x5|da_a|k3x5_int': 'f5d70d34a9893bcf1b12',
    'stats|u8_9x5|da_a|k5x3': 'bbac64dfc6f0d2de70c7',
    'stats|u8_9x5|da_a|row_asym': '1786014d515945693ca0',
    'stats|u8_9x5|da_b|full3': '8ccc13f25e160ee34c25',
    'stats|u8_9x5|da_b|k3x5_int': '1c3ab5aa76f0449470fc',
    'stats|u8_9x5|da_b|k5x3': 'ece59a4bf376d0b19df5',
    'stats|u8_9x5|da_b|row_asym': 'a2f6b1e02786410b5629',
    'stats|u8_9x5|da_c|ann5': 'fda64f1a6511b9acf010',
    'stats|u8_9x5|da_c|col3': '84f418d51f54e51e5d56',
    'stats|u8_9x5|da_c|cross3': 'd2fdd4deeb6c166995d8',
    'stats|u8_9x5|da_c|full3': '740648b44047090e3409',
    'stats|u8_9x5|da_c|k1x1': 'cec31226167f1a66c8b6',
    'stats|u8_9x5|da_c|k3x5_int': '66666de83bb55216a30f',
    'stats|u8_9x5|da_c|k5x3': '0af0426a69d51320992e',
    'stats|u8_9x5|da_c|row_asym': '81bb2d29c72d5f6d1739',
    'stats|u8_9x5|np|ann5': '8fb7147c9aba03ed7d39',
    'stats|u8_9x5|np|col3': '0cde9c65a6f1c50ad4f4',
    'stats|u8_9x5|np|cross3': 'f729f01a1fcda42b4510',
    'stats|u8_9x5|np|full3': '244aeb82dda9f422934d',
    'stats|u8_9x5|np|k1x1': '03184a874b40a0d6fa4e',
    'stats|u8_9x5|np|k3x5_int': '71ee1b72eede8ef6de11',
    'stats|u8_9x5|np|k5x3': '55191596b147f2b00c44',
    'stats|u8_9x5|np|row_asym': '23ccf475d6fc922121df',
}


def main():
    results, values = collect()
    if os.environ.get('RECORD'):
        print(json.dumps(results, indent=0, sort_keys=True))
        return 0
    rc = 0
    bad = reference_checks(values) + classifier_check()
    if bad:
        print('REFERENCE MISMATCH:', bad[:20])
        rc = 1
    if set(results) != set(EXPECTED):
        print('case set differs', sorted(set(results) ^ set(EXPECTED))[:10])
        rc = 1
    diff = [k for k in results if EXPECTED.get(k) != results[k]]
    if diff:
        print('%d of %d digests differ, e.g.:' % (len(diff), len(results)))
        for k in diff[:15]:
            print('  ', k, EXPECTED.get(k), '->', results[k])
        rc = 1
    n_exc = sum(1 for v in results.values() if 'EXC:' in v)
    print('%d cases (%d raising), %s' % (len(results), n_exc, 'IDENTICAL' if rc == 0 else 'DIFFERENT'))
    return rc


if __name__ == '__main__':
    sys.exit(main())
