"""Differential test for TC07-t17 (`_process_dask` closure turned into the
module-level function `_process_dask_overlap`; the coordinate grids are
wrapped into dask arrays inside it).

Runs proximity / allocation / direction on model rasters (float64 with NaN
and +-inf, float32, int32, int64, uint8, 1xN and Nx1 shapes, square and
non-square cells, lon/lat grid) on the NumPy backend and on the Dask backend
(several regular / irregular chunkings, synchronous and threaded scheduler),
for max_distance = default inf, None, fractions of a cell, halo-sized values,
the raster diagonal and beyond, the three metrics (and an unknown one), with
and without target_values.

Checks, bit for bit (dtype, shape, bytes):
  * NumPy results against arrays recorded from the unmodified tree
    (embedded below as a base64 .npz),
  * every Dask result against the NumPy result of the same call (property C07),
and also: laziness and chunks of the Dask result, the re-chunking side effect
on the input raster, dims / coords / attrs / name, input left untouched, the
text of the error messages, the public module constants.

Run:  cd /tmp/t5/TC07 && PYTHONPATH=/tmp/t5/TC07 /venv/bin/python equiv.py
Exit code 0 = identical.
"""
import base64
import io
import json
import sys
import warnings

import dask
import dask.array as da
import numpy as np
import xarray as xr

import xrspatial
from xrspatial import allocation, direction, proximity

warnings.filterwarnings("ignore")

FUNCS = {"proximity": proximity, "allocation": allocation,
         "direction": direction}


# --------------------------------------------------------------------------
# deterministic model rasters
# --------------------------------------------------------------------------
def _rasters():
    rng = np.random.RandomState(20240707)
    out = {}

    # A: 10x12 float64, unit cells, y descending, NaN / inf / several ids
    a = np.zeros((10, 12), dtype=np.float64)
    for (r, c, v) in [(0, 0, 1), (3, 4, 2), (3, 5, 3), (8, 1, 2), (9, 11, 1),
                      (5, 9, 3), (6, 2, np.nan), (1, 7, np.inf),
                      (7, 7, -np.inf), (2, 10, 2.5)]:
        a[r, c] = v
    out["A"] = (a, np.arange(10)[::-1] * 1.0, np.arange(12) * 1.0)

    # B: 7x9 int32, non square cells (x 0.5, y 2.0), y ascending
    b = (rng.rand(7, 9) > 0.85).astype(np.int32) * \
        rng.randint(1, 4, size=(7, 9)).astype(np.int32)
    b[0, 0] = 1
    out["B"] = (b, np.arange(7) * 2.0 + 10.0, np.arange(9) * 0.5 - 1.0)

    # C: 9x6 float32 on a lon / lat grid (for GREAT_CIRCLE), with NaN
    c = np.zeros((9, 6), dtype=np.float32)
    c[1, 1] = 4
    c[7, 4] = 5
    c[4, 0] = 6
    c[4, 3] = np.nan
    out["C"] = (c, 40.0 - np.arange(9) * 10.0, -30.0 + np.arange(6) * 12.0)

    # D / E: degenerate shapes
    d = np.array([[0, 0, 3, 0, 0, 0, 0, 1]], dtype=np.float64)
    out["D"] = (d, np.array([5.0]), np.arange(8) * 1.0)
    e = np.array([[0], [2], [0], [0], [0], [0], [7], [0]], dtype=np.int64)
    out["E"] = (e, np.arange(8)[::-1] * 1.0, np.array([3.0]))

    # F: 12x12 float64 targets placed on / next to chunk and halo borders
    f = np.zeros((12, 12), dtype=np.float64)
    for (r, c_, v) in [(3, 3, 1), (4, 8, 2), (7, 4, 3), (11, 11, 4),
                       (0, 6, 5), (8, 0, 6)]:
        f[r, c_] = v
    out["F"] = (f, np.arange(12)[::-1] * 1.0, np.arange(12) * 1.0)

    # G: 6x7 uint8
    g = np.zeros((6, 7), dtype=np.uint8)
    g[0, 6] = 200
    g[5, 0] = 7
    g[2, 3] = 7
    out["G"] = (g, np.arange(6)[::-1] * 3.0, np.arange(7) * 3.0)
    return out


RASTERS = _rasters()

CHUNKS = {
    "A": [(3, 4), (5, 5), ((4, 6), (7, 5)), (2, 3), ((1, 9), (12,)),
          (10, 12)],
    "B": [(3, 3), ((2, 5), (4, 5)), (7, 2), (4, 9)],
    "C": [(3, 3), (4, 6), ((5, 4), (2, 4))],
    "D": [(1, 3), (1, 8), (1, 1)],
    "E": [(3, 1), (8, 1), (1, 1)],
    "F": [(4, 4), (6, 6), ((5, 7), (3, 9)), (3, 5)],
    "G": [(2, 3), (3, 7), ((4, 2), (1, 6))],
}

SCHEDULERS = ["synchronous", "threads"]


def _configs():
    """(raster name, function name, kwargs) triples."""
    cfg = []
    for fn in ("proximity", "allocation", "direction"):
        cfg += [
            ("A", fn, {}),
            ("A", fn, dict(max_distance=2.5)),
            ("A", fn, dict(max_distance=3.0, distance_metric="MANHATTAN")),
            ("A", fn, dict(max_distance=0.4)),
            ("A", fn, dict(max_distance=1.0, target_values=[2, 3])),
            ("A", fn, dict(max_distance=None, distance_metric="FOO",
                           target_values=[1.0, 2.5])),
            ("B", fn, dict(max_distance=1.0)),
            ("B", fn, dict(max_distance=2.2, distance_metric="MANHATTAN")),
            ("B", fn, dict(max_distance=0.2)),
            ("B", fn, dict(target_values=[1])),
            ("C", fn, dict(distance_metric="GREAT_CIRCLE")),
            ("C", fn, dict(distance_metric="GREAT_CIRCLE", max_distance=30.0)),
            ("C", fn, dict(distance_metric="GREAT_CIRCLE", max_distance=1e8)),
            ("G", fn, dict(max_distance=6.0)),
        ]
    for fn in ("proximity", "direction"):
        cfg += [("D", fn, {}), ("D", fn, dict(max_distance=0.4))]
    for fn in ("proximity", "allocation"):
        cfg += [("E", fn, {}), ("E", fn, dict(max_distance=0.4))]
        for md in (1.5, 2.0, 2.4, 3.0):
            cfg.append(("F", fn, dict(max_distance=md)))
    # max_distance exactly the raster diagonal (float32 value used inside)
    diag = float(np.float32(np.sqrt(np.float32(11.0 ** 2 + 9.0 ** 2))))
    cfg.append(("A", "proximity", dict(max_distance=diag)))
    return cfg


def _key(rname, fn, kw):
    return "%s|%s|%s" % (rname, fn, json.dumps(
        {k: (repr(v)) for k, v in sorted(kw.items())}, sort_keys=True))


def _make(rname, chunks=None):
    data, ys, xs = RASTERS[rname]
    data = data.copy()
    if chunks is not None:
        data = da.from_array(data, chunks=chunks)
    attrs = {"source": "model", "unit": "m"}
    if rname in ("A", "D", "E"):
        # consistent with the coordinates (cell size 1 x 1)
        attrs["res"] = (1.0, 1.0)
    return xr.DataArray(data, dims=["y", "x"],
                        coords={"y": ys.copy(), "x": xs.copy()},
                        attrs=attrs, name="model_" + rname)


def _norm_chunks(ch):
    return [[int(v) for v in dim] for dim in ch]


def _collect():
    """Run every case; return (arrays, small) where arrays maps key->ndarray
    (NumPy backend result) and small maps key->json-able facts."""
    arrays = {}
    small = {}
    failures = []
    for idx, (rname, fn, kw) in enumerate(_configs()):
        key = _key(rname, fn, kw)
        f = FUNCS[fn]

        # ---- numpy backend
        r = _make(rname)
        before = r.data.copy()
        res = f(r, **kw)
        if not isinstance(res.data, np.ndarray):
            failures.append(key + ": numpy result is not ndarray")
        if before.tobytes() != r.data.tobytes():
            failures.append(key + ": numpy input modified")
        if res.dims != r.dims or res.attrs != r.attrs \
                or not res.coords.to_dataset().equals(r.coords.to_dataset()):
            failures.append(key + ": numpy dims/attrs/coords differ")
        ref = np.asarray(res.data)
        arrays[key] = ref
        small[key] = {"name": repr(res.name)}

        # ---- dask backend, two chunkings, alternating schedulers
        clist = CHUNKS[rname]
        for j in range(2):
            ch = clist[(idx + j * 2) % len(clist)]
            sched = SCHEDULERS[(idx + j) % 2]
            rd = _make(rname, ch)
            resd = f(rd, **kw)
            dkey = "%s#%s" % (key, json.dumps(ch))
            if not isinstance(resd.data, da.Array):
                failures.append(dkey + ": dask result is not lazy")
                continue
            facts = {
                "out_chunks": _norm_chunks(resd.data.chunks),
                "in_chunks_after": _norm_chunks(rd.data.chunks),
                "dtype": str(resd.data.dtype),
                # dask derives the name from a content hash of the kernel;
                # only the stable prefix is behaviour
                "name": str(resd.name).rsplit("-", 1)[0],
            }
            small[dkey] = facts
            with dask.config.set(scheduler=sched):
                val = resd.compute()
                again = np.asarray(resd.data)
            v = np.asarray(val.data)
            if v.dtype != ref.dtype or v.shape != ref.shape \
                    or v.tobytes() != ref.tobytes():
                failures.append(dkey + ": dask result != numpy result")
            if again.tobytes() != v.tobytes():
                failures.append(dkey + ": recompute differs")
            if resd.dims != rd.dims or resd.attrs != rd.attrs or not \
                    resd.coords.to_dataset().equals(rd.coords.to_dataset()):
                failures.append(dkey + ": dask dims/attrs/coords differ")
            if np.asarray(rd.data).tobytes() != RASTERS[rname][0].tobytes():
                failures.append(dkey + ": dask input values modified")

    # ---- error behaviour (message text is part of behaviour)
    errs = {}

    def _err(label, thunk):
        try:
            thunk()
            errs[label] = "NO ERROR"
        except Exception as e:  # noqa
            errs[label] = "%s: %s" % (type(e).__name__, e)

    bad = _make("A").rename({"y": "lat", "x": "lon"})
    _err("dims_default", lambda: proximity(bad))
    _err("dims_swapped", lambda: allocation(_make("A"), x="y", y="x"))
    _err("dims_dask", lambda: direction(
        _make("A", (3, 4)).rename({"y": "lat"}), y="y"))
    ok = proximity(bad, x="lon", y="lat")
    arrays["renamed_dims"] = np.asarray(ok.data)
    far = _make("A")
    far["x"] = np.arange(12) * 100.0
    _err("gc_range_numpy", lambda: proximity(
        far, distance_metric="GREAT_CIRCLE"))
    fard = _make("A", (3, 4))
    fard["x"] = np.arange(12) * 100.0
    _err("gc_range_dask", lambda: proximity(
        fard, distance_metric="GREAT_CIRCLE"))
    _err("halo_too_large", lambda: proximity(
        _make("A", (3, 4)), max_distance=11).compute())
    _err("unhashable_metric", lambda: proximity(
        _make("A"), distance_metric=["EUCLIDEAN"]))
    small["__errors__"] = errs

    # module level constants that callers can see
    pm = sys.modules["xrspatial.proximity"]
    small["__consts__"] = {
        "DISTANCE_METRICS": {k: int(v) for k, v in
                             sorted(pm.DISTANCE_METRICS.items())},
        "order": list(pm.DISTANCE_METRICS.keys()),
        "modes": [pm.PROXIMITY, pm.ALLOCATION, pm.DIRECTION],
    }
    return arrays, small, failures


# recorded from the unmodified tree with `equiv.py --record FILE`
EXPECTED_META = (
    '{"names": ["A|allocation|{\\"distance_metric\\": \\"\'FOO\'\\", \\"max_dist'
    'ance\\": \\"None\\", \\"target_values\\": \\"[1.0, 2.5]\\"}", "A|allocation'
    '|{\\"distance_metric\\": \\"\'MANHATTAN\'\\", \\"max_distance\\": \\"3.0\\"}",'
    ' "A|allocation|{\\"max_distance\\": \\"0.4\\"}", "A|allocation|{\\"max_di'
    'stance\\": \\"1.0\\", \\"target_values\\": \\"[2, 3]\\"}", "A|allocation|{\\'
    '"max_distance\\": \\"2.5\\"}", "A|allocation|{}", "A|direction|{\\"dista'
    'nce_metric\\": \\"\'FOO\'\\", \\"max_distance\\": \\"None\\", \\"target_values'
    '\\": \\"[1.0, 2.5]\\"}", "A|direction|{\\"distance_metric\\": \\"\'MANHATTA'
    'N\'\\", \\"max_distance\\": \\"3.0\\"}", "A|direction|{\\"max_distance\\": \\'
    '"0.4\\"}", "A|direction|{\\"max_distance\\": \\"1.0\\", \\"target_values\\"'
    ': \\"[2, 3]\\"}", "A|direction|{\\"max_distance\\": \\"2.5\\"}", "A|direct'
    'ion|{}", "A|proximity|{\\"distance_metric\\": \\"\'FOO\'\\", \\"max_distanc'
    'e\\": \\"None\\", \\"target_values\\": \\"[1.0, 2.5]\\"}", "A|proximity|{\\"'
    'distance_metric\\": \\"\'MANHATTAN\'\\", \\"max_distance\\": \\"3.0\\"}", "A|'
    'proximity|{\\"max_distance\\": \\"0.4\\"}", "A|proximity|{\\"max_distance'
    '\\": \\"1.0\\", \\"target_values\\": \\"[2, 3]\\"}", "A|proximity|{\\"max_di'
    'stance\\": \\"14.21267032623291\\"}", "A|proximity|{\\"max_distance\\": \\'
    '"2.5\\"}", "A|proximity|{}", "B|allocation|{\\"distance_metric\\": \\"\'M'
    'ANHATTAN\'\\", \\"max_distance\\": \\"2.2\\"}", "B|allocation|{\\"max_dista'
    'nce\\": \\"0.2\\"}", "B|allocation|{\\"max_distance\\": \\"1.0\\"}", "B|all'
    'ocation|{\\"target_values\\": \\"[1]\\"}", "B|direction|{\\"distance_metr'
    'ic\\": \\"\'MANHATTAN\'\\", \\"max_distance\\": \\"2.2\\"}", "B|direction|{\\"'
    'max_distance\\": \\"0.2\\"}", "B|direction|{\\"max_distance\\": \\"1.0\\"}"'
    ', "B|direction|{\\"target_values\\": \\"[1]\\"}", "B|proximity|{\\"distan'
    'ce_metric\\": \\"\'MANHATTAN\'\\", \\"max_distance\\": \\"2.2\\"}", "B|proxim'
    'ity|{\\"max_distance\\": \\"0.2\\"}", "B|proximity|{\\"max_distance\\": \\"'
    '1.0\\"}", "B|proximity|{\\"target_values\\": \\"[1]\\"}", "C|allocation|{'
    '\\"distance_metric\\": \\"\'GREAT_CIRCLE\'\\", \\"max_distance\\": \\"1000000'
    '00.0\\"}", "C|allocation|{\\"distance_metric\\": \\"\'GREAT_CIRCLE\'\\", \\"'
    'max_distance\\": \\"30.0\\"}", "C|allocation|{\\"distance_metric\\": \\"\'G'
    'REAT_CIRCLE\'\\"}", "C|direction|{\\"distance_metric\\": \\"\'GREAT_CIRCLE'
    '\'\\", \\"max_distance\\": \\"100000000.0\\"}", "C|direction|{\\"distance_m'
    'etric\\": \\"\'GREAT_CIRCLE\'\\", \\"max_distance\\": \\"30.0\\"}", "C|direct'
    'ion|{\\"distance_metric\\": \\"\'GREAT_CIRCLE\'\\"}", "C|proximity|{\\"dist'
    'ance_metric\\": \\"\'GREAT_CIRCLE\'\\", \\"max_distance\\": \\"100000000.0\\"'
    '}", "C|proximity|{\\"distance_metric\\": \\"\'GREAT_CIRCLE\'\\", \\"max_dis'
    'tance\\": \\"30.0\\"}", "C|proximity|{\\"distance_metric\\": \\"\'GREAT_CIR'
    'CLE\'\\"}", "D|direction|{\\"max_distance\\": \\"0.4\\"}", "D|direction|{}'
    '", "D|proximity|{\\"max_distance\\": \\"0.4\\"}", "D|proximity|{}", "E|a'
    'llocation|{\\"max_distance\\": \\"0.4\\"}", "E|allocation|{}", "E|proxim'
    'ity|{\\"max_distance\\": \\"0.4\\"}", "E|proximity|{}", "F|allocation|{\\'
    '"max_distance\\": \\"1.5\\"}", "F|allocation|{\\"max_distance\\": \\"2.0\\"'
    '}", "F|allocation|{\\"max_distance\\": \\"2.4\\"}", "F|allocation|{\\"max'
    '_distance\\": \\"3.0\\"}", "F|proximity|{\\"max_distance\\": \\"1.5\\"}", "'
    'F|proximity|{\\"max_distance\\": \\"2.0\\"}", "F|proximity|{\\"max_distan'
    'ce\\": \\"2.4\\"}", "F|proximity|{\\"max_distance\\": \\"3.0\\"}", "G|alloc'
    'ation|{\\"max_distance\\": \\"6.0\\"}", "G|direction|{\\"max_distance\\": '
    '\\"6.0\\"}", "G|proximity|{\\"max_distance\\": \\"6.0\\"}", "renamed_dims"'
    '], "small": {"A|allocation|{\\"distance_metric\\": \\"\'FOO\'\\", \\"max_di'
    'stance\\": \\"None\\", \\"target_values\\": \\"[1.0, 2.5]\\"}": {"name": "N'
    'one"}, "A|allocation|{\\"distance_metric\\": \\"\'FOO\'\\", \\"max_distance'
    '\\": \\"None\\", \\"target_values\\": \\"[1.0, 2.5]\\"}#[2, 3]": {"dtype": '
    '"float64", "in_chunks_after": [[10], [12]], "name": "_process_numpy"'
    ', "out_chunks": [[10], [12]]}, "A|allocation|{\\"distance_metric\\": \\'
    '"\'FOO\'\\", \\"max_distance\\": \\"None\\", \\"target_values\\": \\"[1.0, 2.5'
    ']\\"}#[5, 5]": {"dtype": "float64", "in_chunks_after": [[10], [12]], '
    '"name": "_process_numpy", "out_chunks": [[10], [12]]}, "A|allocation'
    '|{\\"distance_metric\\": \\"\'MANHATTAN\'\\", \\"max_distance\\": \\"3.0\\"}":'
    ' {"name": "None"}, "A|allocation|{\\"distance_metric\\": \\"\'MANHATTAN\''
    '\\", \\"max_distance\\": \\"3.0\\"}#[3, 4]": {"dtype": "float64", "in_chu'
    'nks_after": [[3, 3, 3, 1], [4, 4, 4]], "name": "_trim", "out_chunks"'
    ': [[3, 3, 4], [4, 4, 4]]}, "A|allocation|{\\"distance_metric\\": \\"\'MA'
    'NHATTAN\'\\", \\"max_distance\\": \\"3.0\\"}#[[1, 9], [12]]": {"dtype": "f'
    'loat64", "in_chunks_after": [[1, 9], [12]], "name": "_trim", "out_ch'
    'unks": [[10], [12]]}, "A|allocation|{\\"max_distance\\": \\"0.4\\"}": {"'
    'name": "None"}, "A|allocation|{\\"max_distance\\": \\"0.4\\"}#[10, 12]":'
    ' {"dtype": "float64", "in_chunks_after": [[10], [12]], "name": "_pro'
    'cess_numpy", "out_chunks": [[10], [12]]}, "A|allocation|{\\"max_dista'
    'nce\\": \\"0.4\\"}#[5, 5]": {"dtype": "float64", "in_chunks_after": [[5'
    ', 5], [5, 5, 2]], "name": "_process_numpy", "out_chunks": [[5, 5], ['
    '5, 5, 2]]}, "A|allocation|{\\"max_distance\\": \\"1.0\\", \\"target_value'
    's\\": \\"[2, 3]\\"}": {"name": "None"}, "A|allocation|{\\"max_distance\\"'
    ': \\"1.0\\", \\"target_values\\": \\"[2, 3]\\"}#[3, 4]": {"dtype": "float6'
    '4", "in_chunks_after": [[3, 3, 3, 1], [4, 4, 4]], "name": "_trim", "'
    'out_chunks": [[3, 3, 3, 1], [4, 4, 4]]}, "A|allocation|{\\"max_distan'
    'ce\\": \\"1.0\\", \\"target_values\\": \\"[2, 3]\\"}#[[4, 6], [7, 5]]": {"d'
    'type": "float64", "in_chunks_after": [[4, 6], [7, 5]], "name": "_tri'
    'm", "out_chunks": [[4, 6], [7, 5]]}, "A|allocation|{\\"max_distance\\"'
    ': \\"2.5\\"}": {"name": "None"}, "A|allocation|{\\"max_distance\\": \\"2.'
    '5\\"}#[10, 12]": {"dtype": "float64", "in_chunks_after": [[10], [12]]'
    ', "name": "_trim", "out_chunks": [[10], [12]]}, "A|allocation|{\\"max'
    '_distance\\": \\"2.5\\"}#[2, 3]": {"dtype": "float64", "in_chunks_after'
    '": [[2, 2, 2, 2, 2], [3, 3, 3, 3]], "name": "_trim", "out_chunks": ['
    '[4, 6], [3, 3, 3, 3]]}, "A|allocation|{}": {"name": "None"}, "A|allo'
    'cation|{}#[[1, 9], [12]]": {"dtype": "float64", "in_chunks_after": ['
    '[10], [12]], "name": "_process_numpy", "out_chunks": [[10], [12]]}, '
    '"A|allocation|{}#[[4, 6], [7, 5]]": {"dtype": "float64", "in_chunks_'
    'after": [[10], [12]], "name": "_process_numpy", "out_chunks": [[10],'
    ' [12]]}, "A|direction|{\\"distance_metric\\": \\"\'FOO\'\\", \\"max_distanc'
    'e\\": \\"None\\", \\"target_values\\": \\"[1.0, 2.5]\\"}": {"name": "None"}'
    ', "A|direction|{\\"distance_metric\\": \\"\'FOO\'\\", \\"max_distance\\": \\"'
    'None\\", \\"target_values\\": \\"[1.0, 2.5]\\"}#[10, 12]": {"dtype": "flo'
    'at64", "in_chunks_after": [[10], [12]], "name": "_process_numpy", "o'
    'ut_chunks": [[10], [12]]}, "A|direction|{\\"distance_metric\\": \\"\'FOO'
    '\'\\", \\"max_distance\\": \\"None\\", \\"target_values\\": \\"[1.0, 2.5]\\"}#'
    '[2, 3]": {"dtype": "float64", "in_chunks_after": [[10], [12]], "name'
    '": "_process_numpy", "out_chunks": [[10], [12]]}, "A|direction|{\\"di'
    'stance_metric\\": \\"\'MANHATTAN\'\\", \\"max_distance\\": \\"3.0\\"}": {"nam'
    'e": "None"}, "A|direction|{\\"distance_metric\\": \\"\'MANHATTAN\'\\", \\"m'
    'ax_distance\\": \\"3.0\\"}#[3, 4]": {"dtype": "float64", "in_chunks_aft'
    'er": [[3, 3, 3, 1], [4, 4, 4]], "name": "_trim", "out_chunks": [[3, '
    '3, 4], [4, 4, 4]]}, "A|direction|{\\"distance_metric\\": \\"\'MANHATTAN\''
    '\\", \\"max_distance\\": \\"3.0\\"}#[[4, 6], [7, 5]]": {"dtype": "float64'
    '", "in_chunks_after": [[4, 6], [7, 5]], "name": "_trim", "out_chunks'
    '": [[4, 6], [7, 5]]}, "A|direction|{\\"max_distance\\": \\"0.4\\"}": {"n'
    'ame": "None"}, "A|direction|{\\"max_distance\\": \\"0.4\\"}#[2, 3]": {"d'
    'type": "float64", "in_chunks_after": [[2, 2, 2, 2, 2], [3, 3, 3, 3]]'
    ', "name": "_process_numpy", "out_chunks": [[2, 2, 2, 2, 2], [3, 3, 3'
    ', 3]]}, "A|direction|{\\"max_distance\\": \\"0.4\\"}#[5, 5]": {"dtype": '
    '"float64", "in_chunks_after": [[5, 5], [5, 5, 2]], "name": "_process'
    '_numpy", "out_chunks": [[5, 5], [5, 5, 2]]}, "A|direction|{\\"max_dis'
    'tance\\": \\"1.0\\", \\"target_values\\": \\"[2, 3]\\"}": {"name": "None"},'
    ' "A|direction|{\\"max_distance\\": \\"1.0\\", \\"target_values\\": \\"[2, 3'
    ']\\"}#[[1, 9], [12]]": {"dtype": "float64", "in_chunks_after": [[1, 9'
    '], [12]], "name": "_trim", "out_chunks": [[1, 9], [12]]}, "A|directi'
    'on|{\\"max_distance\\": \\"1.0\\", \\"target_values\\": \\"[2, 3]\\"}#[[4, 6'
    '], [7, 5]]": {"dtype": "float64", "in_chunks_after": [[4, 6], [7, 5]'
    '], "name": "_trim", "out_chunks": [[4, 6], [7, 5]]}, "A|direction|{\\'
    '"max_distance\\": \\"2.5\\"}": {"name": "None"}, "A|direction|{\\"max_di'
    'stance\\": \\"2.5\\"}#[10, 12]": {"dtype": "float64", "in_chunks_after"'
    ': [[10], [12]], "name": "_trim", "out_chunks": [[10], [12]]}, "A|dir'
    'ection|{\\"max_distance\\": \\"2.5\\"}#[5, 5]": {"dtype": "float64", "in'
    '_chunks_after": [[5, 5], [5, 5, 2]], "name": "_trim", "out_chunks": '
    '[[5, 5], [5, 4, 3]]}, "A|direction|{}": {"name": "None"}, "A|directi'
    'on|{}#[3, 4]": {"dtype": "float64", "in_chunks_after": [[10], [12]],'
    ' "name": "_process_numpy", "out_chunks": [[10], [12]]}, "A|direction'
    '|{}#[[1, 9], [12]]": {"dtype": "float64", "in_chunks_after": [[10], '
    '[12]], "name": "_process_numpy", "out_chunks": [[10], [12]]}, "A|pro'
    'ximity|{\\"distance_metric\\": \\"\'FOO\'\\", \\"max_distance\\": \\"None\\", '
    '\\"target_values\\": \\"[1.0, 2.5]\\"}": {"name": "None"}, "A|proximity|'
    '{\\"distance_metric\\": \\"\'FOO\'\\", \\"max_distance\\": \\"None\\", \\"targe'
    't_values\\": \\"[1.0, 2.5]\\"}#[10, 12]": {"dtype": "float64", "in_chun'
    'ks_after": [[10], [12]], "name": "_process_numpy", "out_chunks": [[1'
    '0], [12]]}, "A|proximity|{\\"distance_metric\\": \\"\'FOO\'\\", \\"max_dist'
    'ance\\": \\"None\\", \\"target_values\\": \\"[1.0, 2.5]\\"}#[5, 5]": {"dtyp'
    'e": "float64", "in_chunks_after": [[10], [12]], "name": "_process_nu'
    'mpy", "out_chunks": [[10], [12]]}, "A|proximity|{\\"distance_metric\\"'
    ': \\"\'MANHATTAN\'\\", \\"max_distance\\": \\"3.0\\"}": {"name": "None"}, "A'
    '|proximity|{\\"distance_metric\\": \\"\'MANHATTAN\'\\", \\"max_distance\\": '
    '\\"3.0\\"}#[[1, 9], [12]]": {"dtype": "float64", "in_chunks_after": [['
    '1, 9], [12]], "name": "_trim", "out_chunks": [[10], [12]]}, "A|proxi'
    'mity|{\\"distance_metric\\": \\"\'MANHATTAN\'\\", \\"max_distance\\": \\"3.0\\'
    '"}#[[4, 6], [7, 5]]": {"dtype": "float64", "in_chunks_after": [[4, 6'
    '], [7, 5]], "name": "_trim", "out_chunks": [[4, 6], [7, 5]]}, "A|pro'
    'ximity|{\\"max_distance\\": \\"0.4\\"}": {"name": "None"}, "A|proximity|'
    '{\\"max_distance\\": \\"0.4\\"}#[10, 12]": {"dtype": "float64", "in_chun'
    'ks_after": [[10], [12]], "name": "_process_numpy", "out_chunks": [[1'
    '0], [12]]}, "A|proximity|{\\"max_distance\\": \\"0.4\\"}#[2, 3]": {"dtyp'
    'e": "float64", "in_chunks_after": [[2, 2, 2, 2, 2], [3, 3, 3, 3]], "'
    'name": "_process_numpy", "out_chunks": [[2, 2, 2, 2, 2], [3, 3, 3, 3'
    ']]}, "A|proximity|{\\"max_distance\\": \\"1.0\\", \\"target_values\\": \\"['
    '2, 3]\\"}": {"name": "None"}, "A|proximity|{\\"max_distance\\": \\"1.0\\"'
    ', \\"target_values\\": \\"[2, 3]\\"}#[3, 4]": {"dtype": "float64", "in_c'
    'hunks_after": [[3, 3, 3, 1], [4, 4, 4]], "name": "_trim", "out_chunk'
    's": [[3, 3, 3, 1], [4, 4, 4]]}, "A|proximity|{\\"max_distance\\": \\"1.'
    '0\\", \\"target_values\\": \\"[2, 3]\\"}#[[1, 9], [12]]": {"dtype": "floa'
    't64", "in_chunks_after": [[1, 9], [12]], "name": "_trim", "out_chunk'
    's": [[1, 9], [12]]}, "A|proximity|{\\"max_distance\\": \\"14.2126703262'
    '3291\\"}": {"name": "None"}, "A|proximity|{\\"max_distance\\": \\"14.212'
    '67032623291\\"}#[3, 4]": {"dtype": "float64", "in_chunks_after": [[10'
    '], [12]], "name": "_process_numpy", "out_chunks": [[10], [12]]}, "A|'
    'proximity|{\\"max_distance\\": \\"14.21267032623291\\"}#[[1, 9], [12]]":'
    ' {"dtype": "float64", "in_chunks_after": [[10], [12]], "name": "_pro'
    'cess_numpy", "out_chunks": [[10], [12]]}, "A|proximity|{\\"max_distan'
    'ce\\": \\"2.5\\"}": {"name": "None"}, "A|proximity|{\\"max_distance\\": \\'
    '"2.5\\"}#[2, 3]": {"dtype": "float64", "in_chunks_after": [[2, 2, 2, '
    '2, 2], [3, 3, 3, 3]], "name": "_trim", "out_chunks": [[4, 6], [3, 3,'
    ' 3, 3]]}, "A|proximity|{\\"max_distance\\": \\"2.5\\"}#[5, 5]": {"dtype"'
    ': "float64", "in_chunks_after": [[5, 5], [5, 5, 2]], "name": "_trim"'
    ', "out_chunks": [[5, 5], [5, 4, 3]]}, "A|proximity|{}": {"name": "No'
    'ne"}, "A|proximity|{}#[3, 4]": {"dtype": "float64", "in_chunks_after'
    '": [[10], [12]], "name": "_process_numpy", "out_chunks": [[10], [12]'
    ']}, "A|proximity|{}#[[4, 6], [7, 5]]": {"dtype": "float64", "in_chun'
    'ks_after": [[10], [12]], "name": "_process_numpy", "out_chunks": [[1'
    '0], [12]]}, "B|allocation|{\\"distance_metric\\": \\"\'MANHATTAN\'\\", \\"m'
    'ax_distance\\": \\"2.2\\"}": {"name": "None"}, "B|allocation|{\\"distanc'
    'e_metric\\": \\"\'MANHATTAN\'\\", \\"max_distance\\": \\"2.2\\"}#[4, 9]": {"d'
    'type": "float64", "in_chunks_after": [[4, 3], [9]], "name": "_trim",'
    ' "out_chunks": [[4, 3], [9]]}, "B|allocation|{\\"distance_metric\\": \\'
    '"\'MANHATTAN\'\\", \\"max_distance\\": \\"2.2\\"}#[[2, 5], [4, 5]]": {"dtyp'
    'e": "float64", "in_chunks_after": [[2, 5], [4, 5]], "name": "_trim",'
    ' "out_chunks": [[2, 5], [4, 5]]}, "B|allocation|{\\"max_distance\\": \\'
    '"0.2\\"}": {"name": "None"}, "B|allocation|{\\"max_distance\\": \\"0.2\\"'
    '}#[3, 3]": {"dtype": "float64", "in_chunks_after": [[3, 3, 1], [3, 3'
    ', 3]], "name": "_process_numpy", "out_chunks": [[3, 3, 1], [3, 3, 3]'
    ']}, "B|allocation|{\\"max_distance\\": \\"0.2\\"}#[7, 2]": {"dtype": "fl'
    'oat64", "in_chunks_after": [[7], [2, 2, 2, 2, 1]], "name": "_process'
    '_numpy", "out_chunks": [[7], [2, 2, 2, 2, 1]]}, "B|allocation|{\\"max'
    '_distance\\": \\"1.0\\"}": {"name": "None"}, "B|allocation|{\\"max_dista'
    'nce\\": \\"1.0\\"}#[3, 3]": {"dtype": "float64", "in_chunks_after": [[3'
    ', 3, 1], [3, 3, 3]], "name": "_trim", "out_chunks": [[3, 3, 1], [3, '
    '3, 3]]}, "B|allocation|{\\"max_distance\\": \\"1.0\\"}#[7, 2]": {"dtype"'
    ': "float64", "in_chunks_after": [[7], [2, 2, 2, 2, 1]], "name": "_tr'
    'im", "out_chunks": [[7], [2, 2, 2, 3]]}, "B|allocation|{\\"target_val'
    'ues\\": \\"[1]\\"}": {"name": "None"}, "B|allocation|{\\"target_values\\"'
    ': \\"[1]\\"}#[4, 9]": {"dtype": "float64", "in_chunks_after": [[7], [9'
    ']], "name": "_process_numpy", "out_chunks": [[7], [9]]}, "B|allocati'
    'on|{\\"target_values\\": \\"[1]\\"}#[[2, 5], [4, 5]]": {"dtype": "float6'
    '4", "in_chunks_after": [[7], [9]], "name": "_process_numpy", "out_ch'
    'unks": [[7], [9]]}, "B|direction|{\\"distance_metric\\": \\"\'MANHATTAN\''
    '\\", \\"max_distance\\": \\"2.2\\"}": {"name": "None"}, "B|direction|{\\"d'
    'istance_metric\\": \\"\'MANHATTAN\'\\", \\"max_distance\\": \\"2.2\\"}#[4, 9]'
    '": {"dtype": "float64", "in_chunks_after": [[4, 3], [9]], "name": "_'
    'trim", "out_chunks": [[4, 3], [9]]}, "B|direction|{\\"distance_metric'
    '\\": \\"\'MANHATTAN\'\\", \\"max_distance\\": \\"2.2\\"}#[[2, 5], [4, 5]]": {'
    '"dtype": "float64", "in_chunks_after": [[2, 5], [4, 5]], "name": "_t'
    'rim", "out_chunks": [[2, 5], [4, 5]]}, "B|direction|{\\"max_distance\\'
    '": \\"0.2\\"}": {"name": "None"}, "B|direction|{\\"max_distance\\": \\"0.'
    '2\\"}#[3, 3]": {"dtype": "float64", "in_chunks_after": [[3, 3, 1], [3'
    ', 3, 3]], "name": "_process_numpy", "out_chunks": [[3, 3, 1], [3, 3,'
    ' 3]]}, "B|direction|{\\"max_distance\\": \\"0.2\\"}#[7, 2]": {"dtype": "'
    'float64", "in_chunks_after": [[7], [2, 2, 2, 2, 1]], "name": "_proce'
    'ss_numpy", "out_chunks": [[7], [2, 2, 2, 2, 1]]}, "B|direction|{\\"ma'
    'x_distance\\": \\"1.0\\"}": {"name": "None"}, "B|direction|{\\"max_dista'
    'nce\\": \\"1.0\\"}#[3, 3]": {"dtype": "float64", "in_chunks_after": [[3'
    ', 3, 1], [3, 3, 3]], "name": "_trim", "out_chunks": [[3, 3, 1], [3, '
    '3, 3]]}, "B|direction|{\\"max_distance\\": \\"1.0\\"}#[7, 2]": {"dtype":'
    ' "float64", "in_chunks_after": [[7], [2, 2, 2, 2, 1]], "name": "_tri'
    'm", "out_chunks": [[7], [2, 2, 2, 3]]}, "B|direction|{\\"target_value'
    's\\": \\"[1]\\"}": {"name": "None"}, "B|direction|{\\"target_values\\": \\'
    '"[1]\\"}#[4, 9]": {"dtype": "float64", "in_chunks_after": [[7], [9]],'
    ' "name": "_process_numpy", "out_chunks": [[7], [9]]}, "B|direction|{'
    '\\"target_values\\": \\"[1]\\"}#[[2, 5], [4, 5]]": {"dtype": "float64", '
    '"in_chunks_after": [[7], [9]], "name": "_process_numpy", "out_chunks'
    '": [[7], [9]]}, "B|proximity|{\\"distance_metric\\": \\"\'MANHATTAN\'\\", '
    '\\"max_distance\\": \\"2.2\\"}": {"name": "None"}, "B|proximity|{\\"dista'
    'nce_metric\\": \\"\'MANHATTAN\'\\", \\"max_distance\\": \\"2.2\\"}#[4, 9]": {'
    '"dtype": "float64", "in_chunks_after": [[4, 3], [9]], "name": "_trim'
    '", "out_chunks": [[4, 3], [9]]}, "B|proximity|{\\"distance_metric\\": '
    '\\"\'MANHATTAN\'\\", \\"max_distance\\": \\"2.2\\"}#[[2, 5], [4, 5]]": {"dty'
    'pe": "float64", "in_chunks_after": [[2, 5], [4, 5]], "name": "_trim"'
    ', "out_chunks": [[2, 5], [4, 5]]}, "B|proximity|{\\"max_distance\\": \\'
    '"0.2\\"}": {"name": "None"}, "B|proximity|{\\"max_distance\\": \\"0.2\\"}'
    '#[3, 3]": {"dtype": "float64", "in_chunks_after": [[3, 3, 1], [3, 3,'
    ' 3]], "name": "_process_numpy", "out_chunks": [[3, 3, 1], [3, 3, 3]]'
    '}, "B|proximity|{\\"max_distance\\": \\"0.2\\"}#[7, 2]": {"dtype": "floa'
    't64", "in_chunks_after": [[7], [2, 2, 2, 2, 1]], "name": "_process_n'
    'umpy", "out_chunks": [[7], [2, 2, 2, 2, 1]]}, "B|proximity|{\\"max_di'
    'stance\\": \\"1.0\\"}": {"name": "None"}, "B|proximity|{\\"max_distance\\'
    '": \\"1.0\\"}#[3, 3]": {"dtype": "float64", "in_chunks_after": [[3, 3,'
    ' 1], [3, 3, 3]], "name": "_trim", "out_chunks": [[3, 3, 1], [3, 3, 3'
    ']]}, "B|proximity|{\\"max_distance\\": \\"1.0\\"}#[7, 2]": {"dtype": "fl'
    'oat64", "in_chunks_after": [[7], [2, 2, 2, 2, 1]], "name": "_trim", '
    '"out_chunks": [[7], [2, 2, 2, 3]]}, "B|proximity|{\\"target_values\\":'
    ' \\"[1]\\"}": {"name": "None"}, "B|proximity|{\\"target_values\\": \\"[1]'
    '\\"}#[4, 9]": {"dtype": "float64", "in_chunks_after": [[7], [9]], "na'
    'me": "_process_numpy", "out_chunks": [[7], [9]]}, "B|proximity|{\\"ta'
    'rget_values\\": \\"[1]\\"}#[[2, 5], [4, 5]]": {"dtype": "float64", "in_'
    'chunks_after": [[7], [9]], "name": "_process_numpy", "out_chunks": ['
    '[7], [9]]}, "C|allocation|{\\"distance_metric\\": \\"\'GREAT_CIRCLE\'\\", '
    '\\"max_distance\\": \\"100000000.0\\"}": {"name": "None"}, "C|allocation'
    '|{\\"distance_metric\\": \\"\'GREAT_CIRCLE\'\\", \\"max_distance\\": \\"10000'
    '0000.0\\"}#[4, 6]": {"dtype": "float64", "in_chunks_after": [[9], [6]'
    '], "name": "_process_numpy", "out_chunks": [[9], [6]]}, "C|allocatio'
    'n|{\\"distance_metric\\": \\"\'GREAT_CIRCLE\'\\", \\"max_distance\\": \\"1000'
    '00000.0\\"}#[[5, 4], [2, 4]]": {"dtype": "float64", "in_chunks_after"'
    ': [[9], [6]], "name": "_process_numpy", "out_chunks": [[9], [6]]}, "'
    'C|allocation|{\\"distance_metric\\": \\"\'GREAT_CIRCLE\'\\", \\"max_distanc'
    'e\\": \\"30.0\\"}": {"name": "None"}, "C|allocation|{\\"distance_metric\\'
    '": \\"\'GREAT_CIRCLE\'\\", \\"max_distance\\": \\"30.0\\"}#[3, 3]": {"dtype"'
    ': "float64", "in_chunks_after": [[3, 3, 3], [3, 3]], "name": "_trim"'
    ', "out_chunks": [[3, 3, 3], [3, 3]]}, "C|allocation|{\\"distance_metr'
    'ic\\": \\"\'GREAT_CIRCLE\'\\", \\"max_distance\\": \\"30.0\\"}#[4, 6]": {"dty'
    'pe": "float64", "in_chunks_after": [[4, 4, 1], [6]], "name": "_trim"'
    ', "out_chunks": [[4, 5], [6]]}, "C|allocation|{\\"distance_metric\\": '
    '\\"\'GREAT_CIRCLE\'\\"}": {"name": "None"}, "C|allocation|{\\"distance_me'
    'tric\\": \\"\'GREAT_CIRCLE\'\\"}#[3, 3]": {"dtype": "float64", "in_chunks'
    '_after": [[9], [6]], "name": "_process_numpy", "out_chunks": [[9], ['
    '6]]}, "C|allocation|{\\"distance_metric\\": \\"\'GREAT_CIRCLE\'\\"}#[[5, 4'
    '], [2, 4]]": {"dtype": "float64", "in_chunks_after": [[9], [6]], "na'
    'me": "_process_numpy", "out_chunks": [[9], [6]]}, "C|direction|{\\"di'
    'stance_metric\\": \\"\'GREAT_CIRCLE\'\\", \\"max_distance\\": \\"100000000.0'
    '\\"}": {"name": "None"}, "C|direction|{\\"distance_metric\\": \\"\'GREAT_'
    'CIRCLE\'\\", \\"max_distance\\": \\"100000000.0\\"}#[3, 3]": {"dtype": "fl'
    'oat64", "in_chunks_after": [[9], [6]], "name": "_process_numpy", "ou'
    't_chunks": [[9], [6]]}, "C|direction|{\\"distance_metric\\": \\"\'GREAT_'
    'CIRCLE\'\\", \\"max_distance\\": \\"100000000.0\\"}#[4, 6]": {"dtype": "fl'
    'oat64", "in_chunks_after": [[9], [6]], "name": "_process_numpy", "ou'
    't_chunks": [[9], [6]]}, "C|direction|{\\"distance_metric\\": \\"\'GREAT_'
    'CIRCLE\'\\", \\"max_distance\\": \\"30.0\\"}": {"name": "None"}, "C|direct'
    'ion|{\\"distance_metric\\": \\"\'GREAT_CIRCLE\'\\", \\"max_distance\\": \\"30'
    '.0\\"}#[3, 3]": {"dtype": "float64", "in_chunks_after": [[3, 3, 3], ['
    '3, 3]], "name": "_trim", "out_chunks": [[3, 3, 3], [3, 3]]}, "C|dire'
    'ction|{\\"distance_metric\\": \\"\'GREAT_CIRCLE\'\\", \\"max_distance\\": \\"'
    '30.0\\"}#[[5, 4], [2, 4]]": {"dtype": "float64", "in_chunks_after": ['
    '[5, 4], [2, 4]], "name": "_trim", "out_chunks": [[5, 4], [6]]}, "C|d'
    'irection|{\\"distance_metric\\": \\"\'GREAT_CIRCLE\'\\"}": {"name": "None"'
    '}, "C|direction|{\\"distance_metric\\": \\"\'GREAT_CIRCLE\'\\"}#[4, 6]": {'
    '"dtype": "float64", "in_chunks_after": [[9], [6]], "name": "_process'
    '_numpy", "out_chunks": [[9], [6]]}, "C|direction|{\\"distance_metric\\'
    '": \\"\'GREAT_CIRCLE\'\\"}#[[5, 4], [2, 4]]": {"dtype": "float64", "in_c'
    'hunks_after": [[9], [6]], "name": "_process_numpy", "out_chunks": [['
    '9], [6]]}, "C|proximity|{\\"distance_metric\\": \\"\'GREAT_CIRCLE\'\\", \\"'
    'max_distance\\": \\"100000000.0\\"}": {"name": "None"}, "C|proximity|{\\'
    '"distance_metric\\": \\"\'GREAT_CIRCLE\'\\", \\"max_distance\\": \\"10000000'
    '0.0\\"}#[3, 3]": {"dtype": "float64", "in_chunks_after": [[9], [6]], '
    '"name": "_process_numpy", "out_chunks": [[9], [6]]}, "C|proximity|{\\'
    '"distance_metric\\": \\"\'GREAT_CIRCLE\'\\", \\"max_distance\\": \\"10000000'
    '0.0\\"}#[[5, 4], [2, 4]]": {"dtype": "float64", "in_chunks_after": [['
    '9], [6]], "name": "_process_numpy", "out_chunks": [[9], [6]]}, "C|pr'
    'oximity|{\\"distance_metric\\": \\"\'GREAT_CIRCLE\'\\", \\"max_distance\\": '
    '\\"30.0\\"}": {"name": "None"}, "C|proximity|{\\"distance_metric\\": \\"\''
    'GREAT_CIRCLE\'\\", \\"max_distance\\": \\"30.0\\"}#[4, 6]": {"dtype": "flo'
    'at64", "in_chunks_after": [[4, 4, 1], [6]], "name": "_trim", "out_ch'
    'unks": [[4, 5], [6]]}, "C|proximity|{\\"distance_metric\\": \\"\'GREAT_C'
    'IRCLE\'\\", \\"max_distance\\": \\"30.0\\"}#[[5, 4], [2, 4]]": {"dtype": "'
    'float64", "in_chunks_after": [[5, 4], [2, 4]], "name": "_trim", "out'
    '_chunks": [[5, 4], [6]]}, "C|proximity|{\\"distance_metric\\": \\"\'GREA'
    'T_CIRCLE\'\\"}": {"name": "None"}, "C|proximity|{\\"distance_metric\\": '
    '\\"\'GREAT_CIRCLE\'\\"}#[3, 3]": {"dtype": "float64", "in_chunks_after":'
    ' [[9], [6]], "name": "_process_numpy", "out_chunks": [[9], [6]]}, "C'
    '|proximity|{\\"distance_metric\\": \\"\'GREAT_CIRCLE\'\\"}#[4, 6]": {"dtyp'
    'e": "float64", "in_chunks_after": [[9], [6]], "name": "_process_nump'
    'y", "out_chunks": [[9], [6]]}, "D|direction|{\\"max_distance\\": \\"0.4'
    '\\"}": {"name": "None"}, "D|direction|{\\"max_distance\\": \\"0.4\\"}#[1,'
    ' 1]": {"dtype": "float64", "in_chunks_after": [[1], [1, 1, 1, 1, 1, '
    '1, 1, 1]], "name": "_process_numpy", "out_chunks": [[1], [1, 1, 1, 1'
    ', 1, 1, 1, 1]]}, "D|direction|{\\"max_distance\\": \\"0.4\\"}#[1, 3]": {'
    '"dtype": "float64", "in_chunks_after": [[1], [3, 3, 2]], "name": "_p'
    'rocess_numpy", "out_chunks": [[1], [3, 3, 2]]}, "D|direction|{}": {"'
    'name": "None"}, "D|direction|{}#[1, 1]": {"dtype": "float64", "in_ch'
    'unks_after": [[1], [8]], "name": "_process_numpy", "out_chunks": [[1'
    '], [8]]}, "D|direction|{}#[1, 8]": {"dtype": "float64", "in_chunks_a'
    'fter": [[1], [8]], "name": "_process_numpy", "out_chunks": [[1], [8]'
    ']}, "D|proximity|{\\"max_distance\\": \\"0.4\\"}": {"name": "None"}, "D|'
    'proximity|{\\"max_distance\\": \\"0.4\\"}#[1, 3]": {"dtype": "float64", '
    '"in_chunks_after": [[1], [3, 3, 2]], "name": "_process_numpy", "out_'
    'chunks": [[1], [3, 3, 2]]}, "D|proximity|{\\"max_distance\\": \\"0.4\\"}'
    '#[1, 8]": {"dtype": "float64", "in_chunks_after": [[1], [8]], "name"'
    ': "_process_numpy", "out_chunks": [[1], [8]]}, "D|proximity|{}": {"n'
    'ame": "None"}, "D|proximity|{}#[1, 1]": {"dtype": "float64", "in_chu'
    'nks_after": [[1], [8]], "name": "_process_numpy", "out_chunks": [[1]'
    ', [8]]}, "D|proximity|{}#[1, 3]": {"dtype": "float64", "in_chunks_af'
    'ter": [[1], [8]], "name": "_process_numpy", "out_chunks": [[1], [8]]'
    '}, "E|allocation|{\\"max_distance\\": \\"0.4\\"}": {"name": "None"}, "E|'
    'allocation|{\\"max_distance\\": \\"0.4\\"}#[1, 1]": {"dtype": "float64",'
    ' "in_chunks_after": [[1, 1, 1, 1, 1, 1, 1, 1], [1]], "name": "_proce'
    'ss_numpy", "out_chunks": [[1, 1, 1, 1, 1, 1, 1, 1], [1]]}, "E|alloca'
    'tion|{\\"max_distance\\": \\"0.4\\"}#[8, 1]": {"dtype": "float64", "in_c'
    'hunks_after": [[8], [1]], "name": "_process_numpy", "out_chunks": [['
    '8], [1]]}, "E|allocation|{}": {"name": "None"}, "E|allocation|{}#[3,'
    ' 1]": {"dtype": "float64", "in_chunks_after": [[8], [1]], "name": "_'
    'process_numpy", "out_chunks": [[8], [1]]}, "E|allocation|{}#[8, 1]":'
    ' {"dtype": "float64", "in_chunks_after": [[8], [1]], "name": "_proce'
    'ss_numpy", "out_chunks": [[8], [1]]}, "E|proximity|{\\"max_distance\\"'
    ': \\"0.4\\"}": {"name": "None"}, "E|proximity|{\\"max_distance\\": \\"0.4'
    '\\"}#[1, 1]": {"dtype": "float64", "in_chunks_after": [[1, 1, 1, 1, 1'
    ', 1, 1, 1], [1]], "name": "_process_numpy", "out_chunks": [[1, 1, 1,'
    ' 1, 1, 1, 1, 1], [1]]}, "E|proximity|{\\"max_distance\\": \\"0.4\\"}#[8,'
    ' 1]": {"dtype": "float64", "in_chunks_after": [[8], [1]], "name": "_'
    'process_numpy", "out_chunks": [[8], [1]]}, "E|proximity|{}": {"name"'
    ': "None"}, "E|proximity|{}#[3, 1]": {"dtype": "float64", "in_chunks_'
    'after": [[8], [1]], "name": "_process_numpy", "out_chunks": [[8], [1'
    ']]}, "E|proximity|{}#[8, 1]": {"dtype": "float64", "in_chunks_after"'
    ': [[8], [1]], "name": "_process_numpy", "out_chunks": [[8], [1]]}, "'
    'F|allocation|{\\"max_distance\\": \\"1.5\\"}": {"name": "None"}, "F|allo'
    'cation|{\\"max_distance\\": \\"1.5\\"}#[4, 4]": {"dtype": "float64", "in'
    '_chunks_after": [[4, 4, 4], [4, 4, 4]], "name": "_trim", "out_chunks'
    '": [[4, 4, 4], [4, 4, 4]]}, "F|allocation|{\\"max_distance\\": \\"1.5\\"'
    '}#[[5, 7], [3, 9]]": {"dtype": "float64", "in_chunks_after": [[5, 7]'
    ', [3, 9]], "name": "_trim", "out_chunks": [[5, 7], [3, 9]]}, "F|allo'
    'cation|{\\"max_distance\\": \\"2.0\\"}": {"name": "None"}, "F|allocation'
    '|{\\"max_distance\\": \\"2.0\\"}#[3, 5]": {"dtype": "float64", "in_chunk'
    's_after": [[3, 3, 3, 3], [5, 5, 2]], "name": "_trim", "out_chunks": '
    '[[3, 3, 3, 3], [5, 5, 2]]}, "F|allocation|{\\"max_distance\\": \\"2.0\\"'
    '}#[6, 6]": {"dtype": "float64", "in_chunks_after": [[6, 6], [6, 6]],'
    ' "name": "_trim", "out_chunks": [[6, 6], [6, 6]]}, "F|allocation|{\\"'
    'max_distance\\": \\"2.4\\"}": {"name": "None"}, "F|allocation|{\\"max_di'
    'stance\\": \\"2.4\\"}#[4, 4]": {"dtype": "float64", "in_chunks_after": '
    '[[4, 4, 4], [4, 4, 4]], "name": "_trim", "out_chunks": [[4, 4, 4], ['
    '4, 4, 4]]}, "F|allocation|{\\"max_distance\\": \\"2.4\\"}#[[5, 7], [3, 9'
    ']]": {"dtype": "float64", "in_chunks_after": [[5, 7], [3, 9]], "name'
    '": "_trim", "out_chunks": [[5, 7], [3, 9]]}, "F|allocation|{\\"max_di'
    'stance\\": \\"3.0\\"}": {"name": "None"}, "F|allocation|{\\"max_distance'
    '\\": \\"3.0\\"}#[3, 5]": {"dtype": "float64", "in_chunks_after": [[3, 3'
    ', 3, 3], [5, 5, 2]], "name": "_trim", "out_chunks": [[3, 3, 3, 3], ['
    '5, 4, 3]]}, "F|allocation|{\\"max_distance\\": \\"3.0\\"}#[6, 6]": {"dty'
    'pe": "float64", "in_chunks_after": [[6, 6], [6, 6]], "name": "_trim"'
    ', "out_chunks": [[6, 6], [6, 6]]}, "F|proximity|{\\"max_distance\\": \\'
    '"1.5\\"}": {"name": "None"}, "F|proximity|{\\"max_distance\\": \\"1.5\\"}'
    '#[4, 4]": {"dtype": "float64", "in_chunks_after": [[4, 4, 4], [4, 4,'
    ' 4]], "name": "_trim", "out_chunks": [[4, 4, 4], [4, 4, 4]]}, "F|pro'
    'ximity|{\\"max_distance\\": \\"1.5\\"}#[[5, 7], [3, 9]]": {"dtype": "flo'
    'at64", "in_chunks_after": [[5, 7], [3, 9]], "name": "_trim", "out_ch'
    'unks": [[5, 7], [3, 9]]}, "F|proximity|{\\"max_distance\\": \\"2.0\\"}":'
    ' {"name": "None"}, "F|proximity|{\\"max_distance\\": \\"2.0\\"}#[3, 5]":'
    ' {"dtype": "float64", "in_chunks_after": [[3, 3, 3, 3], [5, 5, 2]], '
    '"name": "_trim", "out_chunks": [[3, 3, 3, 3], [5, 5, 2]]}, "F|proxim'
    'ity|{\\"max_distance\\": \\"2.0\\"}#[6, 6]": {"dtype": "float64", "in_ch'
    'unks_after": [[6, 6], [6, 6]], "name": "_trim", "out_chunks": [[6, 6'
    '], [6, 6]]}, "F|proximity|{\\"max_distance\\": \\"2.4\\"}": {"name": "No'
    'ne"}, "F|proximity|{\\"max_distance\\": \\"2.4\\"}#[4, 4]": {"dtype": "f'
    'loat64", "in_chunks_after": [[4, 4, 4], [4, 4, 4]], "name": "_trim",'
    ' "out_chunks": [[4, 4, 4], [4, 4, 4]]}, "F|proximity|{\\"max_distance'
    '\\": \\"2.4\\"}#[[5, 7], [3, 9]]": {"dtype": "float64", "in_chunks_afte'
    'r": [[5, 7], [3, 9]], "name": "_trim", "out_chunks": [[5, 7], [3, 9]'
    ']}, "F|proximity|{\\"max_distance\\": \\"3.0\\"}": {"name": "None"}, "F|'
    'proximity|{\\"max_distance\\": \\"3.0\\"}#[3, 5]": {"dtype": "float64", '
    '"in_chunks_after": [[3, 3, 3, 3], [5, 5, 2]], "name": "_trim", "out_'
    'chunks": [[3, 3, 3, 3], [5, 4, 3]]}, "F|proximity|{\\"max_distance\\":'
    ' \\"3.0\\"}#[6, 6]": {"dtype": "float64", "in_chunks_after": [[6, 6], '
    '[6, 6]], "name": "_trim", "out_chunks": [[6, 6], [6, 6]]}, "G|alloca'
    'tion|{\\"max_distance\\": \\"6.0\\"}": {"name": "None"}, "G|allocation|{'
    '\\"max_distance\\": \\"6.0\\"}#[2, 3]": {"dtype": "float64", "in_chunks_'
    'after": [[2, 2, 2], [3, 3, 1]], "name": "_trim", "out_chunks": [[2, '
    '2, 2], [3, 4]]}, "G|allocation|{\\"max_distance\\": \\"6.0\\"}#[[4, 2], '
    '[1, 6]]": {"dtype": "float64", "in_chunks_after": [[4, 2], [1, 6]], '
    '"name": "_trim", "out_chunks": [[4, 2], [7]]}, "G|direction|{\\"max_d'
    'istance\\": \\"6.0\\"}": {"name": "None"}, "G|direction|{\\"max_distance'
    '\\": \\"6.0\\"}#[3, 7]": {"dtype": "float64", "in_chunks_after": [[3, 3'
    '], [7]], "name": "_trim", "out_chunks": [[3, 3], [7]]}, "G|direction'
    '|{\\"max_distance\\": \\"6.0\\"}#[[4, 2], [1, 6]]": {"dtype": "float64",'
    ' "in_chunks_after": [[4, 2], [1, 6]], "name": "_trim", "out_chunks":'
    ' [[4, 2], [7]]}, "G|proximity|{\\"max_distance\\": \\"6.0\\"}": {"name":'
    ' "None"}, "G|proximity|{\\"max_distance\\": \\"6.0\\"}#[2, 3]": {"dtype"'
    ': "float64", "in_chunks_after": [[2, 2, 2], [3, 3, 1]], "name": "_tr'
    'im", "out_chunks": [[2, 2, 2], [3, 4]]}, "G|proximity|{\\"max_distanc'
    'e\\": \\"6.0\\"}#[3, 7]": {"dtype": "float64", "in_chunks_after": [[3, '
    '3], [7]], "name": "_trim", "out_chunks": [[3, 3], [7]]}, "__consts__'
    '": {"DISTANCE_METRICS": {"EUCLIDEAN": 0, "GREAT_CIRCLE": 1, "MANHATT'
    'AN": 2}, "modes": [0, 1, 2], "order": ["EUCLIDEAN", "GREAT_CIRCLE", '
    '"MANHATTAN"]}, "__errors__": {"dims_dask": "ValueError: raster.coord'
    's should be named as coordinates:(y, x)", "dims_default": "ValueErro'
    'r: raster.coords should be named as coordinates:(y, x)", "dims_swapp'
    'ed": "ValueError: raster.coords should be named as coordinates:(x, y'
    ')", "gc_range_dask": "ValueError: Invalid x-coordinate of the second'
    ' point.Must be in the range [-180, 180]", "gc_range_numpy": "ValueEr'
    'ror: Invalid x-coordinate of the second point.Must be in the range ['
    '-180, 180]", "halo_too_large": "ValueError: The overlapping depth 11'
    ' is larger than your array 10.", "unhashable_metric": "TypeError: un'
    'hashable type: \'list\'"}}}'
)

EXPECTED_BLOB = (
    'UEsDBC0AAAAIAAAAIQBoBgLD//////////8JABQAYTAwMDAubnB5AQAQAGACAAAAAAAAXgAA'
    'AAAAAACb7BfqGxDJyFDGUK2eklqcXKRupaBuk2airqOgnpZfVFKUmBefX5SSChJ3S8wpTgWK'
    'F2ckFqQC+RqGBjoKhkaaOgq1CmQCLgaGBnvsWMEBO6aGelxqh6J6XOExODAAUEsDBC0AAAAI'
    'AAAAIQBKkSpZ//////////8JABQAYTAwMDEubnB5AQAQAGACAAAAAAAAnAAAAAAAAACb7Bfq'
    'GxDJyFDGUK2eklqcXKRupaBuk2airqOgnpZfVFKUmBefX5SSChJ3S8wpTgWKF2ckFqQC+RqG'
    'BjoKhkaaOgq1CmQCLgaGBntUzOAAREB8oB6BFRwQGF0tTD1MD7JaZPUwtcjq0dXC1COrRVaP'
    'TQ/MjbjUo+uDqUXWg009DCObC9MD8ysh9TA9yBhZLTa/4tKDLRyxqUWNTwBQSwMELQAAAAgA'
    'AAAhAPd78wv//////////wkAFABhMDAwMi5ucHkBABAAYAIAAAAAAABnAAAAAAAAAJvsF+ob'
    'EMnIUMZQrZ6SWpxcpG6loG6TZqKuo6Cell9UUpSYF59flJIKEndLzClOBYoXZyQWpAL5GoYG'
    'OgqGRpo6CrUKZAIuBoYGewaGA/UDjxUcsIszAMUdcMjRCtPbPgYa2ddgDwBQSwMELQAAAAgA'
    'AAAhAMSNgZX//////////wkAFABhMDAwMy5ucHkBABAAYAIAAAAAAABvAAAAAAAAAJvsF+ob'
    'EMnIUMZQrZ6SWpxcpG6loG6TZqKuo6Cell9UUpSYF59flJIKEndLzClOBYoXZyQWpAL5GoYG'
    'OgqGRpo6CrUKZAIuBoYD9fTFDA5A5EC8Wph6UvSgqyVWL0wtKfZhM5+BBL0wP5Kqhzi1AFBL'
    'AwQtAAAACAAAACEA3PE43P//////////CQAUAGEwMDA0Lm5weQEAEABgAgAAAAAAAIwAAAAA'
    'AAAAm+wX6hsQychQxlCtnpJanFykbqWgbpNmoq6joJ6WX1RSlJgXn1+UkgoSd0vMKU4Fihdn'
    'JBakAvkahgY6CoZGmjoKtQpkAi4GhgZ7BD5Qjx0rOCAwsnoGBwh2gGJ0tcjqYWqR1Ts4YKqH'
    '2Ukt9eh6kf1FSL2DA6q56OFCSD0hPejhgk09CGMLc+LUAwBQSwMELQAAAAgAAAAhAFDcTfH/'
    '/////////wkAFABhMDAwNS5ucHkBABAAYAIAAAAAAAB7AAAAAAAAAJvsF+obEMnIUMZQrZ6S'
    'WpxcpG6loG6TZqKuo6Cell9UUpSYF59flJIKEndLzClOBYoXZyQWpAL5GoYGOgqGRpo6CrUK'
    'ZAIuBoYGe1TM4ABESFgBDaOrJVY9TC0x6pHVUqoeXS+6WnzqHWisHpvbsenBFubY1KPHZYM9'
    'AFBLAwQtAAAACAAAACEAeo2AD///////////CQAUAGEwMDA2Lm5weQEAEABgAgAAAAAAAGAB'
    'AAAAAAAAm+wX6hsQychQxlCtnpJanFykbqWgbpNmoq6joJ6WX1RSlJgXn1+UkgoSd0vMKU4F'
    'ihdnJBakAvkahgY6CoZGmjoKtQpkAi4GMGh3RsfJe2ud4m0TnRgYTJwsW684MjBscV6zfRlQ'
    'zgSIE50j84udl0+odt75rd45JKLRufDtdCc/xX4nkD6QHpB6hoa5YPXLJ/iB9UT454D1AeWc'
    'MDHMHSZANW7OKzaEgvX4KWY6r593yqlf6ILTpns3gHa8BKplh7sDRLtzOoHt2HQvAiwWNOs+'
    'WF1g4new2sh8SSR3mADdYe+sedYT6PYg55cropyL3n4EuvsvWG2EvxBQnSLcHSA6uswWzAbp'
    'B7nr5QoGZ5BaP0V+kLzTwkNsTseqJoPDCKTeT9HGme2Ts/N1I2/nr9JTwOGyLrXDCVuYgtQz'
    'KliD/fBv/1KgmsVOXsILgW6f64Q1TIHqxcOtcIQhZpgCAFBLAwQtAAAACAAAACEAAEG+yv//'
    '////////CQAUAGEwMDA3Lm5weQEAEABgAgAAAAAAANsAAAAAAAAAm+wX6hsQychQxlCtnpJa'
    'nFykbqWgbpNmoq6joJ6WX1RSlJgXn1+UkgoSd0vMKU4FihdnJBakAvkahgY6CoZGmjoKtQpk'
    'Ai4GMGh3RuAtUHygHoYtW684gsTWbF8GFDcB4kTnyPxiZ5g4Qu5AffLeWiegGieweMNcsPrl'
    'E/ycUcThclucEBjmDhMs4gg3+im+BIqxw90BcyOqOMKNCDsh7oCoh/gvMl8Srh4ih+6WdmdU'
    'v4P0wsxHtxPNPqD/QjymoIQjsp1Q+5zR7YNgVD1QO6H+QLcPXS1q2AEAUEsDBC0AAAAIAAAA'
    'IQADOlOt//////////8JABQAYTAwMDgubnB5AQAQAGACAAAAAAAAWwAAAAAAAACb7BfqGxDJ'
    'yFDGUK2eklqcXKRupaBuk2airqOgnpZfVFKUmBefX5SSChJ3S8wpTgWKF2ckFqQC+RqGBjoK'
    'hkaaOgq1CmQCLgYwOFA/8BiXO2BgMLhlqNnHwAAAUEsDBC0AAAAIAAAAIQBpvem4////////'
    '//8JABQAYTAwMDkubnB5AQAQAGACAAAAAAAAbgAAAAAAAACb7BfqGxDJyFDGUK2eklqcXKRu'
    'paBuk2airqOgnpZfVFKUmBefX5SSChJ3S8wpTgWKF2ckFqQC+RqGBjoKhkaaOgq1CmQCLgaG'
    'A/X0xVucIZgotU4McNBOpB4TZwhGt5No9zmRZh/MzoG0DzcGAFBLAwQtAAAACAAAACEAaTAu'
    'Jv//////////CQAUAGEwMDEwLm5weQEAEABgAgAAAAAAANYAAAAAAAAAm+wX6hsQychQxlCt'
    'npJanFykbqWgbpNmoq6joJ6WX1RSlJgXn1+UkgoSd0vMKU4FihdnJBakAvkahgY6CoZGmjoK'
    'tQpkAi4GMGh3huAD9diwZesVRwaGLc5rti8DqjEB4kTnyPxiZ5g4Qu5AffLeWiegGieweMNc'
    'sPrlE/ycUcShciEeU0BsJwiGuQNmL7I4wo1+ii+BYuxwd8DUo4oj3IjsFpA7kP0VmS8JVw+R'
    'Q3dLuzOq31HDBd0t6PZB/IeqB2Yn1D5ndPuwhT9q2KHbhy3OEP4AAFBLAwQtAAAACAAAACEA'
    'tTqDy///////////CQAUAGEwMDExLm5weQEAEABgAgAAAAAAAAABAAAAAAAAm+wX6hsQychQ'
    'xlCtnpJanFykbqWgbpNmoq6joJ6WX1RSlJgXn1+UkgoSd0vMKU4FihdnJBakAvkahgY6CoZG'
    'mjoKtQpkAi4GMGh3RuAtYBxyYpXzGvXFQLaJk2XrFUeQ2Jrty0B8IE50jswvdoaJw+Ua5jon'
    '7611AukBiwP5IPXLJ/ihikPlQjymgNhOEAxzhwmSGEwc4UY/xZdAMXa4O0D0pns3nFDFEW5E'
    'dgvIHceqJkPdzA6Ul4SrB8lhuqXdGcXvUP+AcGS+G4Zb0O0D+W+N+QSwfGDidydkO6H2OaPb'
    'h8DszhH+QkB1imhhh2rf8gnVzju/1QPdwo8WbhBzAVBLAwQtAAAACAAAACEATrOYmf//////'
    '////CQAUAGEwMDEyLm5weQEAEABgAgAAAAAAACABAAAAAAAAm+wX6hsQychQxlCtnpJanFyk'
    'bqWgbpNmoq6joJ6WX1RSlJgXn1+UkgoSd0vMKU4FihdnJBakAvkahgY6CoZGmjoKtQpkAi4G'
    'MGiwBxIOQATEDUC8wGGvdL9D1ME0h88spkA2vwNIHkI32H9m2WoPYh9K8nKo/tDsoK29GEyD'
    '+CBxkDxMHUwfyByQeSBzQeZD7HFwgNgLth/qDgewOSC12w63g9XiN78BLAczFyjm4Bq8Bo/7'
    'IeaB1GhM3+WQ+uwMmAaJg+wD6QHZA3MHA8MBh39LDwHZpxxmr7wGlH8G1gOyB5seBoYHDgZu'
    'jxxWfnvhkLXlM5gG6cXlJiB2ZPrP4Fj9gRlMg/SC7MPlZwYGAcc7jwQcQTRIL8g+kBtxhSkA'
    'UEsDBC0AAAAIAAAAIQCNNKWU//////////8JABQAYTAwMTMubnB5AQAQAGACAAAAAAAAlgAA'
    'AAAAAACb7BfqGxDJyFDGUK2eklqcXKRupaBuk2airqOgnpZfVFKUmBefX5SSChJ3S8wpTgWK'
    'F2ckFqQC+RqGBjoKhkaaOgq1CmQCLgYwaLAHEg5AhIQP1CMwiA+TR1fLgCSHrBamDl0tSBzZ'
    'DLhaqDvQ1cIAVj0OmG7EaT6aG5H14HILsjiyHlx+xWUfrrDEZR8uPTA1RKtlAABQSwMELQAA'
    'AAgAAAAhAAM6U63//////////wkAFABhMDAxNC5ucHkBABAAYAIAAAAAAABbAAAAAAAAAJvs'
    'F+obEMnIUMZQrZ6SWpxcpG6loG6TZqKuo6Cell9UUpSYF59flJIKEndLzClOBYoXZyQWpAL5'
    'GoYGOgqGRpo6CrUKZAIuBjA4UD/wGJc7YGAwuGWo2cfAAABQSwMELQAAAAgAAAAhAMGs74r/'
    '/////////wkAFABhMDAxNS5ucHkBABAAYAIAAAAAAABmAAAAAAAAAJvsF+obEMnIUMZQrZ6S'
    'WpxcpG6loG6TZqKuo6Cell9UUpSYF59flJIKEndLzClOBYoXZyQWpAL5GoYGOgqGRpo6CrUK'
    'ZAIuBoYD9fTFDfYQTKxaGCBFD7paYvUi20mqnoG0DzcGAFBLAwQtAAAACAAAACEAYrVcd///'
    '////////CQAUAGEwMDE2Lm5weQEAEABgAgAAAAAAAM0AAAAAAAAAm+wX6hsQychQxlCtnpJa'
    'nFykbqWgbpNmoq6joJ6WX1RSlJgXn1+UkgoSd0vMKU4FihdnJBakAvkahgY6CoZGmjoKtQpk'
    'Ai4GMGiwBxIOQATHh5K8HKIOpjl8ZjF12CvN7wCSh9AN9p9ZttqD2DBxmBxMLUgepg4mhyyO'
    'bAZEP9h+qDtgbkAWR7gR0/wGsFtxmY+sFsQHqQWZj+wvhN/Q3cKA4neQHuTwwWY+dvsacIQl'
    'pn0Q8xscth1uB+vBZg+6+dUfmoF6FoD1oYcdAFBLAwQtAAAACAAAACEAo6rvt///////////'
    'CQAUAGEwMDE3Lm5weQEAEABgAgAAAAAAAKsAAAAAAAAAm+wX6hsQychQxlCtnpJanFykbqWg'
    'bpNmoq6joJ6WX1RSlJgXn1+UkgoSd0vMKU4FihdnJBakAvkahgY6CoZGmjoKtQpkAi4GMGiw'
    'BxIODAwH6rHhvdL8DiB5CN1g/5llqz2IDRNHyEHUguRh6mByyOLIZkD0g+2HugNmL7I4wo2Y'
    '5iPciM18ZLUwN6L7C+F+dLcgxNH1YvMrIfswwxLTPlzhj+pn3Oajhx0AUEsDBC0AAAAIAAAA'
    'IQBitVx3//////////8JABQAYTAwMTgubnB5AQAQAGACAAAAAAAAzQAAAAAAAACb7BfqGxDJ'
    'yFDGUK2eklqcXKRupaBuk2airqOgnpZfVFKUmBefX5SSChJ3S8wpTgWKF2ckFqQC+RqGBjoK'
    'hkaaOgq1CmQCLgYwaLAHEg5ABMeHkrwcog6mOXxmMXXYK83vAJKH0A32n1m22oPYMHGYHEwt'
    'SB6mDiaHLI5sBkQ/2H6oO2BuQBZHuBHT/AawW3GZj6wWxAepBZmP7C+E39DdwoDid5Ae5PDB'
    'Zj52+xpwhCWmfRDzGxy2HW4H68FmD7r51R+agXoWgPWhhx0AUEsDBC0AAAAIAAAAIQDR7aio'
    '//////////8JABQAYTAwMTkubnB5AQAQAHwBAAAAAAAAcQAAAAAAAACb7BfqGxDJyFDGUK2e'
    'klqcXKRupaBuk2airqOgnpZfVFKUmBefX5SSChJ3S8wpTgWKF2ckFqQC+RrmOgqWmjoKtQpk'
    'Ay4GhgZ7TOzgwMBwoB6BYWL4MLJ6mB50jCwP04Oslxh70O1CN4cBiY8NM8AxAFBLAwQtAAAA'
    'CAAAACEAEOnYQ///////////CQAUAGEwMDIwLm5weQEAEAB8AQAAAAAAAGEAAAAAAAAAm+wX'
    '6hsQychQxlCtnpJanFykbqWgbpNmoq6joJ6WX1RSlJgXn1+UkgoSd0vMKU4FihdnJBakAvka'
    '5joKlpo6CrUKZAMuBoYGewaGA/WkYwcH0tSTYw/MDlLtIuRWBjAfAFBLAwQtAAAACAAAACEA'
    'x4iPCf//////////CQAUAGEwMDIxLm5weQEAEAB8AQAAAAAAAGIAAAAAAAAAm+wX6hsQychQ'
    'xlCtnpJanFykbqWgbpNmoq6joJ6WX1RSlJgXn1+UkgoSd0vMKU4FihdnJBakAvka5joKlpo6'
    'CrUKZAMuBoYGewQ+UE8YOzhgYnzqSTUflx3E2EWMOQxwDABQSwMELQAAAAgAAAAhAEpmVFj/'
    '/////////wkAFABhMDAyMi5ucHkBABAAfAEAAAAAAABMAAAAAAAAAJvsF+obEMnIUMZQrZ6S'
    'WpxcpG6loG6TZqKuo6Cell9UUpSYF59flJIKEndLzClOBYoXZyQWpAL5GuY6CpaaOgq1CmQD'
    'LgaGBvuRigFQSwMELQAAAAgAAAAhAEo98wP//////////wkAFABhMDAyMy5ucHkBABAAfAEA'
    'AAAAAAB5AAAAAAAAAJvsF+obEMnIUMZQrZ6SWpxcpG6loG6TZqKuo6Cell9UUpSYF59flJIK'
    'EndLzClOBYoXZyQWpAL5GuY6CpaaOgq1CmQDLgYwaHdGxSZAfKAegbcA+VucUDG6PmT1YD1Y'
    '1CPLw+xAtgvdHpgd+Oza4oxKw8zD5VYEHwBQSwMELQAAAAgAAAAhAMe3A07//////////wkA'
    'FABhMDAyNC5ucHkBABAAfAEAAAAAAABaAAAAAAAAAJvsF+obEMnIUMZQrZ6SWpxcpG6loG6T'
    'ZqKuo6Cell9UUpSYF59flJIKEndLzClOBYoXZyQWpAL5GuY6CpaaOgq1CmQDLgYwOFBPOiZV'
    'Hzn2wPSQ60ZcdkP4AFBLAwQtAAAACAAAACEAveY6Kf//////////CQAUAGEwMDI1Lm5weQEA'
    'EAB8AQAAAAAAAGQAAAAAAAAAm+wX6hsQychQxlCtnpJanFykbqWgbpNmoq6joJ6WX1RSlJgX'
    'n1+UkgoSd0vMKU4FihdnJBakAvka5joKlpo6CrUKZAMuBjBod4bgA/WE8RYnCCZWH7J6YszH'
    'ZgepbsTnVgQfAFBLAwQtAAAACAAAACEA86SbS///////////CQAUAGEwMDI2Lm5weQEAEAB8'
    'AQAAAAAAAOIAAAAAAAAAm+wX6hsQychQxlCtnpJanFykbqWgbpNmoq6joJ6WX1RSlJgXn1+U'
    'kgoSd0vMKU4FihdnJBakAvka5joKlpo6CrUKZAMuBjBod8aPtzjH/F7jvGb7MuflExY6MzTM'
    'dfZT5HeOzJd03vlNFShvAlYDxE64MQND8t5aJzvWQqd420Sn6BhfoJiJ07EqYSfL1iuOxVMS'
    'HCFmmDgl71MBizezMoDlThQtAcsrMjxxAKlZeIjNSZ/3kyNIrvrrFsdjVZPB8qtTxR33588A'
    'qwHJfefYC9bLfbULLC/9ShNsxrJHKWA1AFBLAwQtAAAACAAAACEAcMtINv//////////CQAU'
    'AGEwMDI3Lm5weQEAEAB8AQAAAAAAAHkAAAAAAAAAm+wX6hsQychQxlCtnpJanFykbqWgbpNm'
    'oq6joJ6WX1RSlJgXn1+UkgoSd0vMKU4FihdnJBakAvka5joKlpo6CrUKZAMuBgiwZ2BoAOID'
    'QMzgAMEH6hEYLgZVB1KPrg9ZPUwPunoM+XpUu3DZgc8udHPg5uFwK4IPAFBLAwQtAAAACAAA'
    'ACEAx7cDTv//////////CQAUAGEwMDI4Lm5weQEAEAB8AQAAAAAAAFoAAAAAAAAAm+wX6hsQ'
    'ychQxlCtnpJanFykbqWgbpNmoq6joJ6WX1RSlJgXn1+UkgoSd0vMKU4FihdnJBakAvka5joK'
    'lpo6CrUKZAMuBjA4UE86JlUfOfbA9JDrRlx2Q/gAUEsDBC0AAAAIAAAAIQDbKBZy////////'
    '//8JABQAYTAwMjkubnB5AQAQAHwBAAAAAAAAZgAAAAAAAACb7BfqGxDJyFDGUK2eklqcXKRu'
    'paBuk2airqOgnpZfVFKUmBefX5SSChJ3S8wpTgWKF2ckFqQC+RrmOgqWmjoKtQpkAy4GCLBn'
    'YGgA4gP1hDFIHUg9sfqQ1RNjPjY7SHUjPrci+ABQSwMELQAAAAgAAAAhAOmTctz/////////'
    '/wkAFABhMDAzMC5ucHkBABAAfAEAAAAAAAD1AAAAAAAAAJvsF+obEMnIUMZQrZ6SWpxcpG6l'
    'oG6TZqKuo6Cell9UUpSYF59flJIKEndLzClOBYoXZyQWpAL5GuY6CpaaOgq1CmQDLgYIsGdg'
    'aADiA0DM4MDAoADEDkCcAMQNDiCx6g/MDnul+cFyn1lMwTSIDxKH6GmAqneA6geJHYCaCzKf'
    'gWGvdL8D0/8Gh6iDaQ6pz3ywmvOZZauDiOgqIHuBw7SP0xxAemy3dADlm8F6QfZEHXzmUOx+'
    'z2H2ymtA/gWHQ0mnHHa+OOrwb+khh/hVB0D2gsx0PLGN29F2C4fjHik2R6D5jmzWTI5M/xkc'
    'P9gzOALtcgQAUEsDBC0AAAAIAAAAIQDkDfyh//////////8JABQAYTAwMzEubnB5AQAQAFgB'
    'AAAAAAAAYgAAAAAAAACb7BfqGxDJyFDGUK2eklqcXKRupaBuk2airqOgnpZfVFKUmBefX5SS'
    'ChJ3S8wpTgWKF2ckFqQC+RqWOgpmmjoKtQpkAy4GhgYH6uADUIwstgBJ/ACUv4BI8QVYxNHF'
    'cIsDAFBLAwQtAAAACAAAACEALxX3lP//////////CQAUAGEwMDMyLm5weQEAEABYAQAAAAAA'
    'AFoAAAAAAAAAm+wX6hsQychQxlCtnpJanFykbqWgbpNmoq6joJ6WX1RSlJgXn1+UkgoSd0vM'
    'KU4FihdnJBakAvkaljoKZpo6CrUKZAMuBoYD9bhxgwN+eaIwNczAghfgNRcAUEsDBC0AAAAI'
    'AAAAIQDkDfyh//////////8JABQAYTAwMzMubnB5AQAQAFgBAAAAAAAAYgAAAAAAAACb7Bfq'
    'GxDJyFDGUK2eklqcXKRupaBuk2airqOgnpZfVFKUmBefX5SSChJ3S8wpTgWKF2ckFqQC+RqW'
    'OgpmmjoKtQpkAy4GhgYH6uADUIwstgBJ/ACUv4BI8QVYxNHFcIsDAFBLAwQtAAAACAAAACEA'
    '/O95iP//////////CQAUAGEwMDM0Lm5weQEAEABYAQAAAAAAAMQAAAAAAAAAm+wX6hsQychQ'
    'xlCtnpJanFykbqWgbpNmoq6joJ6WX1RSlJgXn1+UkgoSd0vMKU4FihdnJBakAvkaljoKZpo6'
    'CrUKZAMuieMeTgwMW5xln89yjvCf5Cx2uM85/FGPM1AMKA4C7c7I2OocI5A2cT5mmOYcmFju'
    'fKWyznmlbKMzzIyd34LAcmyfCpzrl612RjbDM3OdI0hdtuRKFDOObf0OFl/SsgQsDjJj4aE2'
    'J2S3gcQhboJhmLkmzhE8l53ibR86IbsNAFBLAwQtAAAACAAAACEAScsppv//////////CQAU'
    'AGEwMDM1Lm5weQEAEABYAQAAAAAAAFcAAAAAAAAAm+wX6hsQychQxlCtnpJanFykbqWgbpNm'
    'oq6joJ6WX1RSlJgXn1+UkgoSd0vMKU4FihdnJBakAvkaljoKZpo6CrUKZAMuBoYD9bgxCOCT'
    'JwZTwwzSzQUAUEsDBC0AAAAIAAAAIQD873mI//////////8JABQAYTAwMzYubnB5AQAQAFgB'
    'AAAAAAAAxAAAAAAAAACb7BfqGxDJyFDGUK2eklqcXKRupaBuk2airqOgnpZfVFKUmBefX5SS'
    'ChJ3S8wpTgWKF2ckFqQC+RqWOgpmmjoKtQpkAy6J4x5ODAxbnGWfz3KO8J/kLHa4zzn8UY8z'
    'UAwoDgLtzsjY6hwjkDZxPmaY5hyYWO58pbLOeaVsozPMjJ3fgsBybJ8KnOuXrXZGNsMzc50j'
    'SF225EoUM45t/Q4WX9KyBCwOMmPhoTYnZLeBxCFugmGYuSbOETyXneJtHzohuw0AUEsDBC0A'
    'AAAIAAAAIQB+c0Kp//////////8JABQAYTAwMzcubnB5AQAQAFgBAAAAAAAA1QAAAAAAAACb'
    '7BfqGxDJyFDGUK2eklqcXKRupaBuk2airqOgnpZfVFKUmBefX5SSChJ3S8wpTgWKF2ckFqQC'
    '+RqWOgpmmjoKtQpkAy5eo32e4Y/bPUF0i5Gol8erQK81Mh1edeq9ngxAAKLVvvJ4zXkX5HVF'
    'scfLoeEEWD2IDjRS8go4kuaV0DnNCyS2af5lz1M7pL1SHnl7Bcxo8dIs6PUCmXFeYLHneQFl'
    'r9WyUV7MV73BNEz94Qf6XiA94Y/Z4fSE2bJeILOR7QLpA7kB5BZktwHlwW4GuR3ZLwBQSwME'
    'LQAAAAgAAAAhAEnLKab//////////wkAFABhMDAzOC5ucHkBABAAWAEAAAAAAABXAAAAAAAA'
    'AJvsF+obEMnIUMZQrZ6SWpxcpG6loG6TZqKuo6Cell9UUpSYF59flJIKEndLzClOBYoXZyQW'
    'pAL5GpY6CmaaOgq1CmQDLgaGA/W4MQjgkycGU8MM0s0FAFBLAwQtAAAACAAAACEAfnNCqf//'
    '////////CQAUAGEwMDM5Lm5weQEAEABYAQAAAAAAANUAAAAAAAAAm+wX6hsQychQxlCtnpJa'
    'nFykbqWgbpNmoq6joJ6WX1RSlJgXn1+UkgoSd0vMKU4FihdnJBakAvkaljoKZpo6CrUKZAMu'
    'XqN9nuGP2z1BdIuRqJfHq0CvNTIdXnXqvZ4MQACi1b7yeM15F+R1RbHHy6HhBFg9iA40UvIK'
    'OJLmldA5zQsktmn+Zc9TO6S9Uh55ewXMaPHSLOj1AplxXmCx53kBZa/VslFezFe9wTRM/eEH'
    '+l4gPeGP2eH0hNmyXiCzke0C6QO5AeQWZLcB5cFuBrkd2S8AUEsDBC0AAAAIAAAAIQCLJSoa'
    '//////////8JABQAYTAwNDAubnB5AQAQAKAAAAAAAAAAUQAAAAAAAACb7BfqGxDJyFDGUK2e'
    'klqcXKRupaBuk2airqOgnpZfVFKUmBefX5SSChJ3S8wpTgWKF2ckFqQC+RqGOgoWmjoKtQpk'
    'Ay4GhgP1EAwCMDZCDABQSwMELQAAAAgAAAAhAIlPLF7//////////wkAFABhMDA0MS5ucHkB'
    'ABAAoAAAAAAAAABTAAAAAAAAAJvsF+obEMnIUMZQrZ6SWpxcpG6loG6TZqKuo6Cell9UUpSY'
    'F59flJIKEndLzClOBYoXZyQWpAL5GoY6ChaaOgq1CmQDLgaGLU4QDALtzhCMEAMAUEsDBC0A'
    'AAAIAAAAIQCLJSoa//////////8JABQAYTAwNDIubnB5AQAQAKAAAAAAAAAAUQAAAAAAAACb'
    '7BfqGxDJyFDGUK2eklqcXKRupaBuk2airqOgnpZfVFKUmBefX5SSChJ3S8wpTgWKF2ckFqQC'
    '+RqGOgoWmjoKtQpkAy4GhgP1EAwCMDZCDABQSwMELQAAAAgAAAAhAMH4mZv//////////wkA'
    'FABhMDA0My5ucHkBABAAoAAAAAAAAABVAAAAAAAAAJvsF+obEMnIUMZQrZ6SWpxcpG6loG6T'
    'ZqKuo6Cell9UUpSYF59flJIKEndLzClOBYoXZyQWpAL5GoY6ChaaOgq1CmQDLgYGBgcGhgZ7'
    'BjAA0w7IYgBQSwMELQAAAAgAAAAhACJgv+r//////////wkAFABhMDA0NC5ucHkBABAAoAAA'
    'AAAAAABVAAAAAAAAAJvsF+obEMnIUMZQrZ6SWpxcpG6loG6TZqKuo6Cell9UUpSYF59flJIK'
    'EndLzClOBYoXZyQWpAL5GhY6CoaaOgq1CmQDLgaGA/UMDAwOEBoZPwCLAQBQSwMELQAAAAgA'
    'AAAhAIe2OUH//////////wkAFABhMDA0NS5ucHkBABAAoAAAAAAAAABPAAAAAAAAAJvsF+ob'
    'EMnIUMZQrZ6SWpxcpG6loG6TZqKuo6Cell9UUpSYF59flJIKEndLzClOBYoXZyQWpAL5GhY6'
    'CoaaOgq1CmQDLgYGBgdU/AAFAwBQSwMELQAAAAgAAAAhABC4JR///////////wkAFABhMDA0'
    'Ni5ucHkBABAAoAAAAAAAAABSAAAAAAAAAJvsF+obEMnIUMZQrZ6SWpxcpG6loG6TZqKuo6Ce'
    'll9UUpSYF59flJIKEndLzClOBYoXZyQWpAL5GhY6CoaaOgq1CmQDLgaGA/UMYACikTFEDABQ'
    'SwMELQAAAAgAAAAhADA6IoD//////////wkAFABhMDA0Ny5ucHkBABAAoAAAAAAAAABTAAAA'
    'AAAAAJvsF+obEMnIUMZQrZ6SWpxcpG6loG6TZqKuo6Cell9UUpSYF59flJIKEndLzClOBYoX'
    'ZyQWpAL5GhY6CoaaOgq1CmQDLgaGBnsGMADTDhCMEAMAUEsDBC0AAAAIAAAAIQBdVxKe////'
    '//////8JABQAYTAwNDgubnB5AQAQAMACAAAAAAAAewAAAAAAAACb7BfqGxDJyFDGUK2eklqc'
    'XKRupaBuk2airqOgnpZfVFKUmBefX5SSChJ3S8wpTgWKF2ckFqQC+RqGRjoKhkaaOgq1CmQC'
    'LgaGA/WYeIEDAmOTJ0d9gz0CE2MmNvUMDghMqXpsmJB6BwcExmmOAxTTQT01cYMDBJOmHgBQ'
    'SwMELQAAAAgAAAAhANQMLaj//////////wkAFABhMDA0OS5ucHkBABAAwAIAAAAAAACiAAAA'
    'AAAAAJvsF+obEMnIUMZQrZ6SWpxcpG6loG6TZqKuo6Cell9UUpSYF59flJIKEndLzClOBYoX'
    'ZyQWpAL5GoZGOgqGRpo6CrUKZAIuBoYD9ah4gQMmRlcDww32mHrwqYVhmB4QzYBFD7JaZD0g'
    'tTBMyHxktfj0OCCJY1WLxAaphWFkPSjmOkCwAxaMNWwcsOvBFY5w9UhuwhnmaGrxYZDaBhLV'
    'NjgAAFBLAwQtAAAACAAAACEAzRWzpv//////////CQAUAGEwMDUwLm5weQEAEADAAgAAAAAA'
    'AJgAAAAAAAAAm+wX6hsQychQxlCtnpJanFykbqWgbpNmoq6joJ6WX1RSlJgXn1+UkgoSd0vM'
    'KU4FihdnJBakAvkahkY6CoZGmjoKtQpkAi4GhgP1qHiBAyZGVwPCDfYQTIx6mFpsehigGJ96'
    'EGZwwMTkqkfW4+AAwTjVO0CwAxaM1Ww86rGFI0w9Nj2kqMcIcwcIhqvHZhaa2gYC6jDVAwBQ'
    'SwMELQAAAAgAAAAhAJ2MNAX//////////wkAFABhMDA1MS5ucHkBABAAwAIAAAAAAACgAAAA'
    'AAAAAJvsF+obEMnIUMZQrZ6SWpxcpG6loG6TZqKuo6Cell9UUpSYF59flJIKEndLzClOBYoX'
    'ZyQWpAL5GoZGOgqGRpo6CrUKZAIuBoYD9Qi8wAE3RlbXYI/AhNSiq0fXw4CEsamFYQYHTIzL'
    'fFzqwXocUNU5OEAwTvOhehywYFLVOyCrq0dVj00PRjg6EKcepA6GkdWD5HCZi6K+HjdGVtvg'
    'AABQSwMELQAAAAgAAAAhANpo6ob//////////wkAFABhMDA1Mi5ucHkBABAAwAIAAAAAAACA'
    'AAAAAAAAAJvsF+obEMnIUMZQrZ6SWpxcpG6loG6TZqKuo6Cell9UUpSYF59flJIKEndLzClO'
    'BYoXZyQWpAL5GoZGOgqGRpo6CrUKZAIuBoYD9Zi4wZ4BDEA0NnlU/Jllqz1ILYQmXw0hN+Az'
    'A7scdf1BnB+Q5YmxHyFPuvnUwzC7idcD8RsAUEsDBC0AAAAIAAAAIQAOfb9d//////////8J'
    'ABQAYTAwNTMubnB5AQAQAMACAAAAAAAAmwAAAAAAAACb7BfqGxDJyFDGUK2eklqcXKRupaBu'
    'k2airqOgnpZfVFKUmBefX5SSChJ3S8wpTgWKF2ckFqQC+RqGRjoKhkaaOgq1CmQCLgaGA/Wo'
    'mMGBgaHBngEMwLQDphpktQfqP7NstQephdDY1WKqgZmLzXzsbsBnD3bzCfkDJIYQx24+8fIQ'
    'DJMnNhwR8sSEI2H7cfsPH4bZTYxaZL8BAFBLAwQtAAAACAAAACEAPbaS2f//////////CQAU'
    'AGEwMDU0Lm5weQEAEADAAgAAAAAAAKYAAAAAAAAAm+wX6hsQychQxlCtnpJanFykbqWgbpNm'
    'oq6joJ6WX1RSlJgXn1+UkgoSd0vMKU4FihdnJBakAvkahkY6CoZGmjoKtQpkAi4GhgP1qJjB'
    'gYGhwZ4BDMC0A6aaA/V7pfkdQHIg+jPLVnuQWhANEcdUi6kGohdB43cDPntwmY/PHwg1ELNx'
    'm49bHrv7IfLEhiOyPKFwRDYft/3Y/YfdLMzww6cOW/wAAFBLAwQtAAAACAAAACEAo+Obov//'
    '////////CQAUAGEwMDU1Lm5weQEAEADAAgAAAAAAALMAAAAAAAAAm+wX6hsQychQxlCtnpJa'
    'nFykbqWgbpNmoq6joJ6WX1RSlJgXn1+UkgoSd0vMKU4FihdnJBakAvkahkY6CoZGmjoKtQpk'
    'Ai4GhgP1COzgwAAkGBga7BnAAEw7QMQR6j6zmDrsleYHqwXRn1m22oPUgmiIOLKZB+qxq2FA'
    'M8PUAZ8b8NmDy3zs/nBwQHY/zGzc5uOWx+5+iDw++1HDByFPKBwhegnZjxo/2MMXd/xgk8eX'
    'RgBQSwMELQAAAAgAAAAhAJPgqjb//////////wkAFABhMDA1Ni5ucHkBABAAKAEAAAAAAABq'
    'AAAAAAAAAJvsF+obEMnIUMZQrZ6SWpxcpG6loG6TZqKuo6Cell9UUpSYF59flJIKEndLzClO'
    'BYoXZyQWpAL5GmY6CuaaOgq1CmQDLgaGA/UI/MCBgcHDGYGRxWEYWQ5ZHFkeRKPLo5sFY6Pb'
    'j64eggFQSwMELQAAAAgAAAAhAN7U4oL//////////wkAFABhMDA1Ny5ucHkBABAAKAEAAAAA'
    'AACCAAAAAAAAAJvsF+obEMnIUMZQrZ6SWpxcpG6loG6TZqKuo6Cell9UUpSYF59flJIKEndL'
    'zClOBYoXZyQWpAL5GmY6CuaaOgq1CmQDLgaGA/UIvMUZiJ0gGARg4iZOYLmGuUB5diA2cYaq'
    'R1Lb7gzBILktUHmY2kRnFDvA5oDNdUa1H9kcZPED9QBQSwMELQAAAAgAAAAhABgsmLP/////'
    '/////wkAFABhMDA1OC5ucHkBABAAKAEAAAAAAAB1AAAAAAAAAJvsF+obEMnIUMZQrZ6SWpxc'
    'pG6loG6TZqKuo6Cell9UUpSYF59flJIKEndLzClOBYoXZyQWpAL5GmY6CuaaOgq1CmQDLgaG'
    'A/VI2AGCHYAYBCDi2w63g8VANIyNUA9T6+CA0A/GKPoQdqDwHVDtRzEH2V31AFBLAwQtAAAA'
    'CAAAACEAYrVcd///////////CQAUAGEwMDU5Lm5weQEAEABgAgAAAAAAAM0AAAAAAAAAm+wX'
    '6hsQychQxlCtnpJanFykbqWgbpNmoq6joJ6WX1RSlJgXn1+UkgoSd0vMKU4FihdnJBakAvka'
    'hgY6CoZGmjoKtQpkAi4GMGiwBxIOQATHh5K8HKIOpjl8ZjF12CvN7wCSh9AN9p9ZttqD2DBx'
    'mBxMLUgepg4mhyyObAZEP9h+qDtgbkAWR7gR0/wGsFtxmY+sFsQHqQWZj+wvhN/Q3cKA4neQ'
    'HuTwwWY+dvsacIQlpn0Q8xscth1uB+vBZg+6+dUfmoF6FoD1oYcdAFBLAQItAy0AAAAIAAAA'
    'IQBoBgLDXgAAAGACAAAJAAAAAAAAAAAAAACAAQAAAABhMDAwMC5ucHlQSwECLQMtAAAACAAA'
    'ACEASpEqWZwAAABgAgAACQAAAAAAAAAAAAAAgAGZAAAAYTAwMDEubnB5UEsBAi0DLQAAAAgA'
    'AAAhAPd78wtnAAAAYAIAAAkAAAAAAAAAAAAAAIABcAEAAGEwMDAyLm5weVBLAQItAy0AAAAI'
    'AAAAIQDEjYGVbwAAAGACAAAJAAAAAAAAAAAAAACAARICAABhMDAwMy5ucHlQSwECLQMtAAAA'
    'CAAAACEA3PE43IwAAABgAgAACQAAAAAAAAAAAAAAgAG8AgAAYTAwMDQubnB5UEsBAi0DLQAA'
    'AAgAAAAhAFDcTfF7AAAAYAIAAAkAAAAAAAAAAAAAAIABgwMAAGEwMDA1Lm5weVBLAQItAy0A'
    'AAAIAAAAIQB6jYAPYAEAAGACAAAJAAAAAAAAAAAAAACAATkEAABhMDAwNi5ucHlQSwECLQMt'
    'AAAACAAAACEAAEG+ytsAAABgAgAACQAAAAAAAAAAAAAAgAHUBQAAYTAwMDcubnB5UEsBAi0D'
    'LQAAAAgAAAAhAAM6U61bAAAAYAIAAAkAAAAAAAAAAAAAAIAB6gYAAGEwMDA4Lm5weVBLAQIt'
    'Ay0AAAAIAAAAIQBpvem4bgAAAGACAAAJAAAAAAAAAAAAAACAAYAHAABhMDAwOS5ucHlQSwEC'
    'LQMtAAAACAAAACEAaTAuJtYAAABgAgAACQAAAAAAAAAAAAAAgAEpCAAAYTAwMTAubnB5UEsB'
    'Ai0DLQAAAAgAAAAhALU6g8sAAQAAYAIAAAkAAAAAAAAAAAAAAIABOgkAAGEwMDExLm5weVBL'
    'AQItAy0AAAAIAAAAIQBOs5iZIAEAAGACAAAJAAAAAAAAAAAAAACAAXUKAABhMDAxMi5ucHlQ'
    'SwECLQMtAAAACAAAACEAjTSllJYAAABgAgAACQAAAAAAAAAAAAAAgAHQCwAAYTAwMTMubnB5'
    'UEsBAi0DLQAAAAgAAAAhAAM6U61bAAAAYAIAAAkAAAAAAAAAAAAAAIABoQwAAGEwMDE0Lm5w'
    'eVBLAQItAy0AAAAIAAAAIQDBrO+KZgAAAGACAAAJAAAAAAAAAAAAAACAATcNAABhMDAxNS5u'
    'cHlQSwECLQMtAAAACAAAACEAYrVcd80AAABgAgAACQAAAAAAAAAAAAAAgAHYDQAAYTAwMTYu'
    'bnB5UEsBAi0DLQAAAAgAAAAhAKOq77erAAAAYAIAAAkAAAAAAAAAAAAAAIAB4A4AAGEwMDE3'
    'Lm5weVBLAQItAy0AAAAIAAAAIQBitVx3zQAAAGACAAAJAAAAAAAAAAAAAACAAcYPAABhMDAx'
    'OC5ucHlQSwECLQMtAAAACAAAACEA0e2oqHEAAAB8AQAACQAAAAAAAAAAAAAAgAHOEAAAYTAw'
    'MTkubnB5UEsBAi0DLQAAAAgAAAAhABDp2ENhAAAAfAEAAAkAAAAAAAAAAAAAAIABehEAAGEw'
    'MDIwLm5weVBLAQItAy0AAAAIAAAAIQDHiI8JYgAAAHwBAAAJAAAAAAAAAAAAAACAARYSAABh'
    'MDAyMS5ucHlQSwECLQMtAAAACAAAACEASmZUWEwAAAB8AQAACQAAAAAAAAAAAAAAgAGzEgAA'
    'YTAwMjIubnB5UEsBAi0DLQAAAAgAAAAhAEo98wN5AAAAfAEAAAkAAAAAAAAAAAAAAIABOhMA'
    'AGEwMDIzLm5weVBLAQItAy0AAAAIAAAAIQDHtwNOWgAAAHwBAAAJAAAAAAAAAAAAAACAAe4T'
    'AABhMDAyNC5ucHlQSwECLQMtAAAACAAAACEAveY6KWQAAAB8AQAACQAAAAAAAAAAAAAAgAGD'
    'FAAAYTAwMjUubnB5UEsBAi0DLQAAAAgAAAAhAPOkm0viAAAAfAEAAAkAAAAAAAAAAAAAAIAB'
    'IhUAAGEwMDI2Lm5weVBLAQItAy0AAAAIAAAAIQBwy0g2eQAAAHwBAAAJAAAAAAAAAAAAAACA'
    'AT8WAABhMDAyNy5ucHlQSwECLQMtAAAACAAAACEAx7cDTloAAAB8AQAACQAAAAAAAAAAAAAA'
    'gAHzFgAAYTAwMjgubnB5UEsBAi0DLQAAAAgAAAAhANsoFnJmAAAAfAEAAAkAAAAAAAAAAAAA'
    'AIABiBcAAGEwMDI5Lm5weVBLAQItAy0AAAAIAAAAIQDpk3Lc9QAAAHwBAAAJAAAAAAAAAAAA'
    'AACAASkYAABhMDAzMC5ucHlQSwECLQMtAAAACAAAACEA5A38oWIAAABYAQAACQAAAAAAAAAA'
    'AAAAgAFZGQAAYTAwMzEubnB5UEsBAi0DLQAAAAgAAAAhAC8V95RaAAAAWAEAAAkAAAAAAAAA'
    'AAAAAIAB9hkAAGEwMDMyLm5weVBLAQItAy0AAAAIAAAAIQDkDfyhYgAAAFgBAAAJAAAAAAAA'
    'AAAAAACAAYsaAABhMDAzMy5ucHlQSwECLQMtAAAACAAAACEA/O95iMQAAABYAQAACQAAAAAA'
    'AAAAAAAAgAEoGwAAYTAwMzQubnB5UEsBAi0DLQAAAAgAAAAhAEnLKaZXAAAAWAEAAAkAAAAA'
    'AAAAAAAAAIABJxwAAGEwMDM1Lm5weVBLAQItAy0AAAAIAAAAIQD873mIxAAAAFgBAAAJAAAA'
    'AAAAAAAAAACAAbkcAABhMDAzNi5ucHlQSwECLQMtAAAACAAAACEAfnNCqdUAAABYAQAACQAA'
    'AAAAAAAAAAAAgAG4HQAAYTAwMzcubnB5UEsBAi0DLQAAAAgAAAAhAEnLKaZXAAAAWAEAAAkA'
    'AAAAAAAAAAAAAIAByB4AAGEwMDM4Lm5weVBLAQItAy0AAAAIAAAAIQB+c0Kp1QAAAFgBAAAJ'
    'AAAAAAAAAAAAAACAAVofAABhMDAzOS5ucHlQSwECLQMtAAAACAAAACEAiyUqGlEAAACgAAAA'
    'CQAAAAAAAAAAAAAAgAFqIAAAYTAwNDAubnB5UEsBAi0DLQAAAAgAAAAhAIlPLF5TAAAAoAAA'
    'AAkAAAAAAAAAAAAAAIAB9iAAAGEwMDQxLm5weVBLAQItAy0AAAAIAAAAIQCLJSoaUQAAAKAA'
    'AAAJAAAAAAAAAAAAAACAAYQhAABhMDA0Mi5ucHlQSwECLQMtAAAACAAAACEAwfiZm1UAAACg'
    'AAAACQAAAAAAAAAAAAAAgAEQIgAAYTAwNDMubnB5UEsBAi0DLQAAAAgAAAAhACJgv+pVAAAA'
    'oAAAAAkAAAAAAAAAAAAAAIABoCIAAGEwMDQ0Lm5weVBLAQItAy0AAAAIAAAAIQCHtjlBTwAA'
    'AKAAAAAJAAAAAAAAAAAAAACAATAjAABhMDA0NS5ucHlQSwECLQMtAAAACAAAACEAELglH1IA'
    'AACgAAAACQAAAAAAAAAAAAAAgAG6IwAAYTAwNDYubnB5UEsBAi0DLQAAAAgAAAAhADA6IoBT'
    'AAAAoAAAAAkAAAAAAAAAAAAAAIABRyQAAGEwMDQ3Lm5weVBLAQItAy0AAAAIAAAAIQBdVxKe'
    'ewAAAMACAAAJAAAAAAAAAAAAAACAAdUkAABhMDA0OC5ucHlQSwECLQMtAAAACAAAACEA1Awt'
    'qKIAAADAAgAACQAAAAAAAAAAAAAAgAGLJQAAYTAwNDkubnB5UEsBAi0DLQAAAAgAAAAhAM0V'
    's6aYAAAAwAIAAAkAAAAAAAAAAAAAAIABaCYAAGEwMDUwLm5weVBLAQItAy0AAAAIAAAAIQCd'
    'jDQFoAAAAMACAAAJAAAAAAAAAAAAAACAATsnAABhMDA1MS5ucHlQSwECLQMtAAAACAAAACEA'
    '2mjqhoAAAADAAgAACQAAAAAAAAAAAAAAgAEWKAAAYTAwNTIubnB5UEsBAi0DLQAAAAgAAAAh'
    'AA59v12bAAAAwAIAAAkAAAAAAAAAAAAAAIAB0SgAAGEwMDUzLm5weVBLAQItAy0AAAAIAAAA'
    'IQA9tpLZpgAAAMACAAAJAAAAAAAAAAAAAACAAacpAABhMDA1NC5ucHlQSwECLQMtAAAACAAA'
    'ACEAo+OborMAAADAAgAACQAAAAAAAAAAAAAAgAGIKgAAYTAwNTUubnB5UEsBAi0DLQAAAAgA'
    'AAAhAJPgqjZqAAAAKAEAAAkAAAAAAAAAAAAAAIABdisAAGEwMDU2Lm5weVBLAQItAy0AAAAI'
    'AAAAIQDe1OKCggAAACgBAAAJAAAAAAAAAAAAAACAARssAABhMDA1Ny5ucHlQSwECLQMtAAAA'
    'CAAAACEAGCyYs3UAAAAoAQAACQAAAAAAAAAAAAAAgAHYLAAAYTAwNTgubnB5UEsBAi0DLQAA'
    'AAgAAAAhAGK1XHfNAAAAYAIAAAkAAAAAAAAAAAAAAIABiC0AAGEwMDU5Lm5weVBLBQYAAAAA'
    'PAA8AOQMAACQLgAAAAA='
)


def _encode(arrays, small):
    buf = io.BytesIO()
    names = sorted(arrays)
    np.savez_compressed(buf, **{"a%04d" % i: arrays[n]
                                for i, n in enumerate(names)})
    blob = base64.b64encode(buf.getvalue()).decode("ascii")
    return blob, json.dumps({"names": names, "small": small}, sort_keys=True)


def main():
    assert "/tmp/t5/TC07/" in xrspatial.__file__, xrspatial.__file__
    arrays, small, failures = _collect()
    if len(sys.argv) > 1 and sys.argv[1] == "--record":
        blob, meta = _encode(arrays, small)
        with open(sys.argv[2], "w") as fh:
            fh.write("EXPECTED_META = %r\n\nEXPECTED_BLOB = (\n" % meta)
            for i in range(0, len(blob), 72):
                fh.write("    %r\n" % blob[i:i + 72])
            fh.write(")\n")
        print("recorded %d arrays, %d facts, %d internal failures"
              % (len(arrays), len(small), len(failures)))
        for m in failures:
            print("  FAIL", m)
        return 1 if failures else 0

    meta = json.loads(EXPECTED_META)  # noqa: F821
    npz = np.load(io.BytesIO(base64.b64decode(EXPECTED_BLOB)))  # noqa: F821
    exp_arrays = {n: npz["a%04d" % i] for i, n in enumerate(meta["names"])}
    exp_small = meta["small"]

    if sorted(exp_arrays) != sorted(arrays):
        failures.append("case list differs from the recorded one")
    for n in sorted(set(exp_arrays) & set(arrays)):
        e, g = exp_arrays[n], arrays[n]
        if e.dtype != g.dtype or e.shape != g.shape \
                or e.tobytes() != g.tobytes():
            failures.append("%s: result differs from recorded baseline "
                            "(dtype %s/%s)" % (n, e.dtype, g.dtype))
    got_small = json.loads(json.dumps(small, sort_keys=True))
    if sorted(got_small) != sorted(exp_small):
        failures.append("fact list differs from the recorded one")
    for n in sorted(set(got_small) & set(exp_small)):
        if got_small[n] != exp_small[n]:
            failures.append("%s: facts differ: %r != %r"
                            % (n, got_small[n], exp_small[n]))

    for m in failures:
        print("FAIL", m)
    print("%d arrays, %d facts compared; %d failures"
          % (len(arrays), len(small), len(failures)))
    return 1 if failures else 0


if __name__ == "__main__":
    sys.exit(main())
