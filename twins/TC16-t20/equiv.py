"""Differential test for xrspatial.zonal.regions (property C16).

Runs regions() on a deterministic battery of inputs (exhaustive small rasters
over small alphabets, random larger ones, several dtypes, NaNs, 1xN / Nx1 /
empty shapes, neighbourhood 4 and 8, float rasters with near-tolerance values)
and checks
  (a) bit-identical output (dtype, shape, raw bytes) against sha256 digests
      recorded from the unmodified tree, and
  (b) for integer-valued rasters, an independent flood-fill reference:
      same label <=> same connected component, labels positive, NaN kept.
Exit code 0 if everything matches, 1 otherwise.
"""
import hashlib
import itertools
import sys
from collections import deque

import numpy as np
import xarray as xr

import xrspatial
from xrspatial import regions
from xrspatial.zonal import regions as regions_zonal

EXPECTED = {
    'dask': 'exc:TypingError',
    'exh_f32_2nan': '323bc445b5f80ff6dd93e0986b7571a1f87bd9e65a31ba920f911e610ab146a7',
    'exh_f64_01_3x3': '28c19a83750f7518822f3246a6cdf9553a9b18024d7c7b56b74693b5fcd7ac55',
    'exh_f64_01nan': 'ee56d669381b04a9a330e6fb5a9ff9bc250d2e979f8ece29636ddf2fa7536bee',
    'exh_i32_012': '91ed2d7b77fe181cf815c65ac95006476197c185e203102a07db8f6ac93214c3',
    'exh_i64_01': '00f939ef9e6a71b9abe7721654b9daacafcb008d84bedf74a3ee39234f0d420f',
    'exh_i8_neg': '64e4ac076b9358786fd077276014c79534a653b38f9295bc71bd610184f4bc41',
    'exh_u8_0_255': 'b54798ec6fd2131d49916ac33c6488008f4b53aa3f66d3f7ee5ea38788476407',
    'float_nbh': 'exc:TypingError',
    'odd': '6c87ef7ac5328f806eb7cbe4e19187a06e5497158b1cc75f756a54b0cdefb661',
    'rnd_float': '2c0d971201f601a77172d28d15896dbee31c2234cdd76a8369d50a8596db15f1',
    'rnd_float_nonan': '40ad0d8e47f6acf6a03161f17107c7216215d246e5a08de7d31e8be641e783ab',
    'rnd_int': '7cb297a59d3d53516f892488c209bde977548f224e566583e0b7f62cfe6a06dd',
    'structured': '9e3091af0f66a15b98350fc5a20db9272b8570b7449a0b5dff649389c92645d5',
    'tolerance': 'a3bf238c37428b5ca6697dc3c51a83a71f9a172f9aac68da9a90f7e65522f316',
}


def ref_components(arr, n):
    """Independent BFS labelling -> int array of component ids (-1 for NaN)."""
    rows, cols = arr.shape
    comp = np.full(arr.shape, -1, dtype=np.int64)
    if n == 4:
        nbrs = [(-1, 0), (1, 0), (0, -1), (0, 1)]
    else:
        nbrs = [(dy, dx) for dy in (-1, 0, 1) for dx in (-1, 0, 1) if (dy, dx) != (0, 0)]
    isnan = np.isnan(arr) if arr.dtype.kind == 'f' else np.zeros(arr.shape, bool)
    cid = 0
    for y in range(rows):
        for x in range(cols):
            if isnan[y, x] or comp[y, x] >= 0:
                continue
            comp[y, x] = cid
            q = deque([(y, x)])
            while q:
                cy, cx = q.popleft()
                for dy, dx in nbrs:
                    yy, xx = cy + dy, cx + dx
                    if 0 <= yy < rows and 0 <= xx < cols and comp[yy, xx] < 0 \
                            and not isnan[yy, xx] and arr[yy, xx] == arr[cy, cx]:
                        comp[yy, xx] = cid
                        q.append((yy, xx))
            cid += 1
    return comp, isnan


def check_partition(arr, out, n):
    comp, isnan = ref_components(arr, n)
    if out.shape != arr.shape:
        return False
    if out.dtype.kind == 'f':
        if not np.array_equal(np.isnan(out), isnan):
            return False
    elif isnan.any():
        return False
    valid = ~isnan
    if not np.all(out[valid] > 0):
        return False
    pairs = set(zip(comp[valid].tolist(), out[valid].tolist()))
    # bijection between reference component ids and labels
    return len(pairs) == len({p[0] for p in pairs}) == len({p[1] for p in pairs})


def make(arr, tag):
    h, w = arr.shape
    return xr.DataArray(
        arr, dims=('lat', 'lon'), name='src_' + tag,
        coords={'lat': np.linspace(10.0, 20.0, h) if h else np.zeros(0),
                'lon': np.arange(w) * 2.5},
        attrs={'res': (2.5, 1.0), 'tag': tag})


def groups():
    # ---- exhaustive small rasters -------------------------------------
    def exhaustive(shapes, alphabet, dtype):
        for shape in shapes:
            ncell = shape[0] * shape[1]
            for combo in itertools.product(alphabet, repeat=ncell):
                yield np.array(combo, dtype=dtype).reshape(shape)

    small_shapes = [(1, 1), (1, 4), (4, 1), (2, 2), (2, 3), (3, 2), (3, 3)]
    yield 'exh_f64_01nan', True, exhaustive(
        [(1, 1), (1, 4), (4, 1), (2, 2), (2, 3), (3, 2)], [0.0, 1.0, np.nan], np.float64)
    yield 'exh_f64_01_3x3', True, exhaustive([(3, 3), (2, 5), (5, 2)], [0.0, 1.0], np.float64)
    yield 'exh_i64_01', True, exhaustive(small_shapes + [(2, 5), (1, 9)], [0, 1], np.int64)
    yield 'exh_i32_012', True, exhaustive([(1, 5), (5, 1), (2, 3), (3, 2), (2, 4)], [0, 1, 2], np.int32)
    yield 'exh_u8_0_255', True, exhaustive(small_shapes, [0, 255], np.uint8)
    yield 'exh_i8_neg', True, exhaustive([(2, 3), (3, 3)], [-128, 127], np.int8)
    yield 'exh_f32_2nan', True, exhaustive([(2, 3), (3, 2), (1, 6)], [2.0, -3.0, np.nan], np.float32)

    # ---- random larger rasters ------------------------------------------
    def rnd(seed, dtypes, with_nan):
        rng = np.random.RandomState(seed)
        shapes = [(7, 9), (12, 5), (1, 30), (30, 1), (16, 16), (23, 11), (4, 40)]
        for dtype in dtypes:
            for shape in shapes:
                for k in (2, 3, 5):
                    a = rng.randint(0, k, size=shape).astype(dtype)
                    if with_nan:
                        a[rng.rand(*shape) < 0.15] = np.nan
                    yield a

    yield 'rnd_int', True, rnd(1, [np.int8, np.int16, np.int32, np.int64,
                                    np.uint8, np.uint16, np.uint32], False)
    yield 'rnd_float', True, rnd(2, [np.float32, np.float64], True)
    yield 'rnd_float_nonan', True, rnd(3, [np.float64], False)

    # ---- special structure: spirals / combs need many merges --------------
    def structured():
        for nrow, ncol in [(9, 9), (10, 13), (15, 8)]:
            a = np.zeros((nrow, ncol))
            a[:, ::2] = 1
            a[-1, :] = 1          # comb, joined at the bottom
            yield a
            yield a[::-1].copy()
            yield a.T.copy()
            yield a.astype(np.int16)
            b = (np.add.outer(np.arange(nrow), np.arange(ncol)) % 2).astype(np.float64)
            yield b               # checkerboard: 4 -> all singletons, 8 -> two regions
            yield b.astype(np.int64)
            c = np.full((nrow, ncol), 7.0)
            yield c
            c2 = c.copy()
            c2[nrow // 2, :] = np.nan
            yield c2
            yield np.full((nrow, ncol), np.nan)
        u = np.zeros((6, 7), dtype=np.int32)
        u[1:5, 1] = u[1:5, 5] = u[4, 1:6] = 3     # a "U"
        yield u
        yield u[::-1].copy()
        yield np.asfortranarray(u)
        yield u.astype(np.float32)[:, ::-1]        # non-contiguous view

    yield 'structured', True, structured()

    # ---- float rasters near the tolerance (hash only) -----------------------
    def tolerance():
        rng = np.random.RandomState(7)
        for shape in [(5, 6), (1, 12), (9, 1), (8, 8)]:
            base = rng.randint(1, 4, size=shape).astype(np.float64) * 1000.0
            yield base + rng.randint(-3, 4, size=shape) * 0.004
            yield base + rng.randint(-3, 4, size=shape) * 0.011
            yield (base + rng.randint(-3, 4, size=shape) * 0.011).astype(np.float32)
            yield rng.randint(-2, 3, size=shape) * 1e-8
            z = rng.rand(*shape)
            z[rng.rand(*shape) < 0.2] = np.nan
            yield z
            g = np.cumsum(np.full(shape, 1e-6), axis=1) + 1.0   # chains of "close" values
            yield g
            i = rng.randint(0, 2, size=shape).astype(np.float64)
            i[i == 1] = np.inf
            yield i
            yield -i

    yield 'tolerance', False, tolerance()

    # ---- other dtypes / degenerate shapes -----------------------------------
    def odd():
        yield np.zeros((0, 3))
        yield np.zeros((3, 0))
        yield np.zeros((0, 0), dtype=np.int32)
        yield np.array([[True, False, True], [True, True, False]])
        yield np.array([[2 ** 62, 2 ** 62 + 1, 2 ** 62], [5, 5, 2 ** 62]], dtype=np.int64)
        yield np.array([[2 ** 63, 2 ** 63 + 1, 0], [2 ** 63, 0, 0]], dtype=np.uint64)
        yield np.array([[1.5, 1.5, np.nan, 1.5]], dtype=np.float16).astype(np.float32)

    yield 'odd', False, odd()


def main():
    if '/tmp/t5/TC16/' not in xrspatial.__file__:
        print('WARNING: xrspatial imported from', xrspatial.__file__)
    assert regions is regions_zonal
    record = '--record' in sys.argv
    ok = True
    got = {}
    ncases = 0
    for gname, check_ref, arrays in groups():
        h = hashlib.sha256()
        for idx, arr in enumerate(arrays):
            for n in (4, 8):
                tag = '%s_%d_%d' % (gname, idx, n)
                src = make(arr, tag)
                before = arr.copy()
                if n == 4 and idx % 2 == 0:
                    res = regions(src)                       # default neighbourhood
                    expect_name = 'regions'
                elif idx % 3 == 0:
                    res = regions(src, n, 'lbl')             # positional
                    expect_name = 'lbl'
                else:
                    res = regions(raster=src, name='lbl', neighborhood=n)
                    expect_name = 'lbl'
                ncases += 1
                out = res.data
                # metadata
                meta_ok = (isinstance(res, xr.DataArray) and isinstance(out, np.ndarray)
                           and res.name == expect_name and res.dims == src.dims
                           and res.shape == src.shape and res.attrs == src.attrs
                           and set(res.coords) == set(src.coords)
                           and all(np.array_equal(res[c].values, src[c].values) for c in src.coords)
                           and out is not arr and not np.shares_memory(out, arr))
                # input untouched
                same_in = (before.tobytes() == arr.tobytes())
                want_dtype = np.int64 if arr.dtype.kind in 'iu' else np.float64
                if not (meta_ok and same_in and out.dtype == want_dtype):
                    print('FAIL metadata/dtype', tag, out.dtype)
                    ok = False
                if check_ref and arr.size and not check_partition(arr, out, n):
                    print('FAIL partition', tag)
                    print(arr)
                    print(out)
                    ok = False
                h.update(str((out.dtype.str, out.shape)).encode())
                h.update(np.ascontiguousarray(out).tobytes())
        got[gname] = h.hexdigest()

    # invalid neighbourhood -> ValueError, message unchanged
    for bad in (0, 5, 6, '4', None, 4.5):
        try:
            regions(make(np.zeros((2, 2)), 'bad'), neighborhood=bad)
            print('FAIL no error for neighbourhood', bad)
            ok = False
        except ValueError as e:
            if str(e) != "`neighborhood` value must be either 4 or 8)":
                print('FAIL message', e)
                ok = False
    # float neighbourhood equal to 4 / 8 is accepted by the `in` test
    try:
        r = regions(make(np.array([[1., 1.], [0., 1.]]), 'f'), neighborhood=8.0)
        got['float_nbh'] = 'ok:' + hashlib.sha256(r.data.tobytes()).hexdigest()
    except Exception as e:   # noqa
        got['float_nbh'] = 'exc:' + type(e).__name__
    # dask-backed input: not supported by regions; the failure mode must not change
    try:
        import dask.array as da
        d = xr.DataArray(da.from_array(np.arange(12.).reshape(3, 4), chunks=2))
        try:
            r = regions(d)
            got['dask'] = 'ok:' + type(r.data).__name__
        except Exception as e:   # noqa
            got['dask'] = 'exc:' + type(e).__name__
    except ImportError:
        got['dask'] = EXPECTED.get('dask')

    if record:
        import pprint
        pprint.pprint(got)
        print('cases', ncases)
        return 0 if ok else 1
    for k in sorted(set(got) | set(EXPECTED)):
        if got.get(k) != EXPECTED.get(k):
            print('MISMATCH', k, got.get(k), EXPECTED.get(k))
            ok = False
    print('cases run: %d; %s' % (ncases, 'IDENTICAL' if ok else 'DIFFERENT'))
    return 0 if ok else 1


if __name__ == '__main__':
    sys.exit(main())
