"""Differential test for the focal.apply / focal_stats refactoring (C11).

1. Every call is hashed (dtype + shape + raw bytes -> bit-exact, NaNs
   included) and compared with the hash recorded from the unmodified tree.
2. min / max / range are additionally compared with an independent pure
   Python / NumPy reference implementation (exact, no rounding involved).
3. The call list is executed forward, backward and under other numba / dask
   thread settings, interleaved with calls that use other kernel shapes,
   dtypes and backends, so a dependence on earlier calls shows up too.

    RECORD=1 python equiv.py    # print the table of expected hashes
"""
import hashlib
import os
import sys
import warnings

import dask
import dask.array as da
import numba
import numpy as np
import xarray as xr

import xrspatial
from xrspatial.convolution import annulus_kernel, circle_kernel
from xrspatial.focal import (_calc_max, _calc_mean, _calc_min, _calc_range, _calc_std,
                             _calc_sum, _calc_var, apply, focal_stats, hotspots, mean)
from xrspatial.utils import ngjit

warnings.filterwarnings("ignore")


@ngjit
def weighted(kernel_data):
    # user supplied function, depends on the position inside the window
    total = 0.0
    n = 0
    for i in range(kernel_data.shape[0]):
        for j in range(kernel_data.shape[1]):
            v = kernel_data[i, j]
            if not np.isnan(v):
                total += v * (1 + i + 2 * j)
                n += 1
    return total - n


@ngjit
def count_valid(kernel_data):
    return np.sum(~np.isnan(kernel_data))


FUNCS = {"mean": _calc_mean, "sum": _calc_sum, "min": _calc_min, "max": _calc_max,
         "std": _calc_std, "var": _calc_var, "range": _calc_range,
         "weighted": weighted, "count": count_valid}

KERNELS = {
    "circle1": circle_kernel(1, 1, 1),                       # 3x3 cross, float
    "circle2x1": circle_kernel(1, 2, 2),                     # 3x5, float
    "annulus": annulus_kernel(1, 1, 3, 1),                   # 7x7 ring
    "one": np.array([[1]]),                                  # 1x1 int
    "row": np.array([[1, 0, 1]], dtype=np.int32),            # 1x3 int32
    "col5": np.array([[1.], [1.], [0.], [1.], [1.]]),        # 5x1
    "asym": np.array([[1, 1, 0], [0, 1, 0], [0, 0, 0]]),     # asymmetric footprint
    "weights": np.array([[0.5, 1, 2], [1, 1, 1], [2, 1, 0]]),  # only the ==1 cells count
    "full5x3": np.ones((5, 3), dtype=np.float32),
}


def digest(a):
    a = np.ascontiguousarray(a)
    h = hashlib.sha256()
    h.update(str(a.dtype).encode())
    h.update(str(a.shape).encode())
    h.update(a.tobytes())
    return h.hexdigest()[:20]


def make_data(kind):
    rng = np.random.RandomState(7)
    if kind == "f64":
        d = rng.rand(7, 5) * 100 - 50
        d[0, 0] = np.nan; d[3, 2] = np.nan; d[6, 4] = np.nan; d[2, 2] = np.inf
    elif kind == "f32":
        d = (rng.rand(4, 6) * 10).astype(np.float32)
        d[1, 1] = np.nan
    elif kind == "i32":
        d = rng.randint(-5, 6, (6, 9)).astype(np.int32)
    elif kind == "u8":
        d = rng.randint(0, 255, (2, 9)).astype(np.uint8)
    elif kind == "i64big":
        d = rng.randint(-2**40, 2**40, (5, 4)).astype(np.int64)   # not exact in float32
    elif kind == "one":
        d = np.array([[3.5]])
    elif kind == "allnan":
        d = np.full((3, 4), np.nan, dtype=np.float32)
    elif kind == "rowvec":
        d = np.arange(8, dtype=np.float64).reshape(1, 8)
    return d


def make_raster(kind, chunks=None):
    d = make_data(kind)
    if chunks is not None:
        d = da.from_array(d, chunks=chunks)
    r = xr.DataArray(d, dims=["y", "x"], attrs={"res": (1, 1), "tag": kind}, name="in")
    r["x"] = np.arange(d.shape[1]) * 2.0
    r["y"] = np.arange(d.shape[0])[::-1] * 3.0
    return r


def describe(res, r):
    lazy = isinstance(res.data, da.Array)
    info = (str(res.dtype), type(res.data).__name__, res.data.chunks if lazy else None,
            tuple(res.dims), tuple(sorted(res.coords)),
            tuple(sorted((k, str(v)) for k, v in res.attrs.items())),
            res.name if not lazy or res.name in ("focal_apply", "mean", "custom") else "?")
    ok_coords = all(np.array_equal(res[c].values, r[c].values) for c in ("x", "y"))
    return (digest(res.values), info, ok_coords)


def cases():
    out = []
    spec = [
        # data kind, chunks, kernel, funcs
        ("f64", None, "circle1", ["mean", "min", "weighted"]),
        ("f64", None, "annulus", ["sum", "max", "count"]),
        ("f64", None, "asym", ["weighted", "std", "range"]),
        ("f64", (3, 2), "circle1", ["mean", "range", "weighted"]),
        ("f64", (7, 5), "circle2x1", ["var", "min"]),
        ("f64", (4, 5), "col5", ["sum", "max"]),
        ("f32", None, "circle2x1", ["mean", "std", "count"]),
        ("f32", None, "one", ["mean", "max"]),
        ("f32", None, "weights", ["sum", "min", "weighted"]),
        ("f32", (2, 3), "row", ["sum", "range"]),
        ("f32", (4, 6), "full5x3", ["mean", "var"]),
        ("i32", None, "circle1", ["mean", "sum", "min", "max", "std", "var", "range"]),
        ("i32", None, "full5x3", ["weighted", "count"]),
        ("i32", (3, 9), "asym", ["mean", "weighted"]),
        ("i32", (2, 4), "circle1", ["max", "sum"]),
        ("u8", None, "row", ["mean", "min"]),
        ("u8", None, "col5", ["max", "count"]),
        ("u8", (2, 4), "circle1", ["sum", "std"]),
        ("i64big", None, "circle1", ["sum", "max"]),
        ("i64big", (5, 2), "asym", ["min", "mean"]),
        ("one", None, "circle1", ["mean", "weighted", "count"]),
        ("one", None, "one", ["min"]),
        ("allnan", None, "circle1", ["mean", "sum", "min", "count"]),
        ("allnan", (2, 2), "row", ["max", "sum"]),
        ("rowvec", None, "annulus", ["mean", "sum"]),
        ("rowvec", (1, 3), "row", ["weighted", "range"]),
    ]
    for kind, chunks, kname, funcs in spec:
        for fname in funcs:
            name = "apply-%s-%s-%s-%s" % (kind, chunks, kname, fname)

            def fn(kind=kind, chunks=chunks, kname=kname, fname=fname):
                r = make_raster(kind, chunks)
                k0 = KERNELS[kname].copy()
                res = apply(r, KERNELS[kname], FUNCS[fname])
                assert np.array_equal(k0, KERNELS[kname]), "kernel was modified"
                return describe(res, r)
            out.append((name, fn))
    # default func, custom name, positional call
    out.append(("apply-default", lambda: describe(apply(make_raster("f64"), KERNELS["circle1"]),
                                                  make_raster("f64"))))
    out.append(("apply-named", lambda: describe(
        apply(make_raster("i32", (3, 9)), KERNELS["asym"], _calc_sum, "custom"),
        make_raster("i32"))))
    # focal_stats goes through apply() once per statistic
    for kind, chunks, kname in [("f64", None, "circle1"), ("i32", (3, 4), "circle2x1"),
                                ("f32", None, "asym"), ("u8", (2, 9), "row")]:
        name = "stats-%s-%s-%s" % (kind, chunks, kname)

        def fn(kind=kind, chunks=chunks, kname=kname):
            r = make_raster(kind, chunks)
            res = focal_stats(r, KERNELS[kname])
            some = focal_stats(r, KERNELS[kname], stats_funcs=["sum", "min"])
            return (digest(res.values), str(res.dtype), type(res.data).__name__, tuple(res.dims),
                    tuple(res["stats"].values), digest(some.values), tuple(some["stats"].values))
        out.append((name, fn))
    # neighbours that share helpers with apply (interleaving only)
    out.append(("mean-f64", lambda: describe(mean(make_raster("f64"), passes=2), make_raster("f64"))))
    out.append(("hotspots-i32", lambda: digest(hotspots(make_raster("i32"), KERNELS["circle1"]).values)))
    return out


def reference_minmax(failures):
    """min / max / range against a straightforward Python window walk."""
    for kind in ["f64", "f32", "i32", "u8", "allnan", "rowvec", "one"]:
        data = make_data(kind).astype(np.float32)
        rows, cols = data.shape
        for kname, kernel in KERNELS.items():
            kr, kc = kernel.shape
            hr, hc = kr // 2, kc // 2
            exp_min = np.empty((rows, cols), np.float32)
            exp_max = np.empty((rows, cols), np.float32)
            for y in range(rows):
                for x in range(cols):
                    vals = [data[y + i - hr, x + j - hc]
                            for i in range(kr) for j in range(kc)
                            if kernel[i, j] == 1
                            and 0 <= y + i - hr < rows and 0 <= x + j - hc < cols]
                    vals = [v for v in vals if not np.isnan(v)]
                    exp_min[y, x] = min(vals) if vals else np.nan
                    exp_max[y, x] = max(vals) if vals else np.nan
            exp_range = exp_max - exp_min
            # dask cannot overlap deeper than the array itself
            for chunks in ((None, (2, 3)) if hr <= rows and hc <= cols else (None,)):
                r = make_raster(kind, chunks)
                for fname, exp in (("min", exp_min), ("max", exp_max), ("range", exp_range)):
                    got = apply(r, kernel, FUNCS[fname]).values
                    if got.dtype != np.float32 or digest(got) != digest(exp):
                        failures.append("reference %s %s %s %s" % (fname, kind, kname, chunks))


def error_checks(failures):
    r = make_raster("f64")
    k = KERNELS["circle1"]

    def expect(exc, text, f, *a, **kw):
        try:
            f(*a, **kw)
        except exc as e:
            if text not in str(e):
                failures.append("message changed: %r" % (e,))
        except Exception as e:   # noqa
            failures.append("wrong exception %r (wanted %s)" % (e, exc.__name__))
        else:
            failures.append("no %s raised" % exc.__name__)
    expect(TypeError, "`raster` must be instance of DataArray", apply, r.values, k)
    expect(ValueError, "`raster` must be 2D", apply, r.expand_dims("b"), k)
    expect(ValueError, "not a Numpy array", apply, r, k.tolist())
    expect(ValueError, "improper dimensions", apply, r, np.ones((2, 3)))
    # validation order: the raster is checked before the kernel
    expect(TypeError, "`raster` must be instance of DataArray", apply, r.values, np.ones((2, 2)))
    expect(ValueError, "`raster` must be 2D", apply, r.expand_dims("b"), "kernel")
    expect(TypeError, "`agg` must be instance of DataArray", focal_stats, r.values, k)
    expect(ValueError, "`agg` must be 2D", focal_stats, r.expand_dims("b"), k)


EXPECTED = {
    'apply-f64-None-circle1-mean': ('d77515ae25a5688121ff', ('float32', 'ndarray', None, ('y', 'x'), ('x', 'y'), (('res', '(1, 1)'), ('tag', 'f64')), 'focal_apply'), True),
    'apply-f64-None-circle1-min': ('144f6ecc97406af2f02c', ('float32', 'ndarray', None, ('y', 'x'), ('x', 'y'), (('res', '(1, 1)'), ('tag', 'f64')), 'focal_apply'), True),
    'apply-f64-None-circle1-weighted': ('af7fee57fc5fe5d8b177', ('float32', 'ndarray', None, ('y', 'x'), ('x', 'y'), (('res', '(1, 1)'), ('tag', 'f64')), 'focal_apply'), True),
    'apply-f64-None-annulus-sum': ('1b927cfcea4d49940b26', ('float32', 'ndarray', None, ('y', 'x'), ('x', 'y'), (('res', '(1, 1)'), ('tag', 'f64')), 'focal_apply'), True),
    'apply-f64-None-annulus-max': ('dfba3833d133acadbfc0', ('float32', 'ndarray', None, ('y', 'x'), ('x', 'y'), (('res', '(1, 1)'), ('tag', 'f64')), 'focal_apply'), True),
    'apply-f64-None-annulus-count': ('b993b94fa109504a7cb1', ('float32', 'ndarray', None, ('y', 'x'), ('x', 'y'), (('res', '(1, 1)'), ('tag', 'f64')), 'focal_apply'), True),
    'apply-f64-None-asym-weighted': ('4a7626f35d995e9e3b3d', ('float32', 'ndarray', None, ('y', 'x'), ('x', 'y'), (('res', '(1, 1)'), ('tag', 'f64')), 'focal_apply'), True),
    'apply-f64-None-asym-std': ('acd5980febc2f09de300', ('float32', 'ndarray', None, ('y', 'x'), ('x', 'y'), (('res', '(1, 1)'), ('tag', 'f64')), 'focal_apply'), True),
    'apply-f64-None-asym-range': ('db600ae0ef6485d05c8e', ('float32', 'ndarray', None, ('y', 'x'), ('x', 'y'), (('res', '(1, 1)'), ('tag', 'f64')), 'focal_apply'), True),
    'apply-f64-(3, 2)-circle1-mean': ('d77515ae25a5688121ff', ('float64', 'Array', ((3, 3, 1), (2, 2, 1)), ('y', 'x'), ('x', 'y'), (('res', '(1, 1)'), ('tag', 'f64')), 'focal_apply'), True),
    'apply-f64-(3, 2)-circle1-range': ('b14b26ae15fd0eec88d9', ('float64', 'Array', ((3, 3, 1), (2, 2, 1)), ('y', 'x'), ('x', 'y'), (('res', '(1, 1)'), ('tag', 'f64')), 'focal_apply'), True),
    'apply-f64-(3, 2)-circle1-weighted': ('af7fee57fc5fe5d8b177', ('float64', 'Array', ((3, 3, 1), (2, 2, 1)), ('y', 'x'), ('x', 'y'), (('res', '(1, 1)'), ('tag', 'f64')), 'focal_apply'), True),
    'apply-f64-(7, 5)-circle2x1-var': ('4ac8216571deeec3711d', ('float64', 'Array', ((7,), (5,)), ('y', 'x'), ('x', 'y'), (('res', '(1, 1)'), ('tag', 'f64')), 'focal_apply'), True),
    'apply-f64-(7, 5)-circle2x1-min': ('5345fbabe3f98f094461', ('float64', 'Array', ((7,), (5,)), ('y', 'x'), ('x', 'y'), (('res', '(1, 1)'), ('tag', 'f64')), 'focal_apply'), True),
    'apply-f64-(4, 5)-col5-sum': ('ed99efc48b8916568d06', ('float64', 'Array', ((4, 3), (5,)), ('y', 'x'), ('x', 'y'), (('res', '(1, 1)'), ('tag', 'f64')), 'focal_apply'), True),
    'apply-f64-(4, 5)-col5-max': ('0dcd632d0b8f6302614b', ('float64', 'Array', ((4, 3), (5,)), ('y', 'x'), ('x', 'y'), (('res', '(1, 1)'), ('tag', 'f64')), 'focal_apply'), True),
    'apply-f32-None-circle2x1-mean': ('6ed95d8febb147d238f3', ('float32', 'ndarray', None, ('y', 'x'), ('x', 'y'), (('res', '(1, 1)'), ('tag', 'f32')), 'focal_apply'), True),
    'apply-f32-None-circle2x1-std': ('652f9e940ecc2668b008', ('float32', 'ndarray', None, ('y', 'x'), ('x', 'y'), (('res', '(1, 1)'), ('tag', 'f32')), 'focal_apply'), True),
    'apply-f32-None-circle2x1-count': ('acb38fe02e7d5d9225be', ('float32', 'ndarray', None, ('y', 'x'), ('x', 'y'), (('res', '(1, 1)'), ('tag', 'f32')), 'focal_apply'), True),
    'apply-f32-None-one-mean': ('27446044549e93f0e792', ('float32', 'ndarray', None, ('y', 'x'), ('x', 'y'), (('res', '(1, 1)'), ('tag', 'f32')), 'focal_apply'), True),
    'apply-f32-None-one-max': ('66c5de89966a64b9b01c', ('float32', 'ndarray', None, ('y', 'x'), ('x', 'y'), (('res', '(1, 1)'), ('tag', 'f32')), 'focal_apply'), True),
    'apply-f32-None-weights-sum': ('2ee90375b5fd76f409f6', ('float32', 'ndarray', None, ('y', 'x'), ('x', 'y'), (('res', '(1, 1)'), ('tag', 'f32')), 'focal_apply'), True),
    'apply-f32-None-weights-min': ('e30fa505628c2313b7f4', ('float32', 'ndarray', None, ('y', 'x'), ('x', 'y'), (('res', '(1, 1)'), ('tag', 'f32')), 'focal_apply'), True),
    'apply-f32-None-weights-weighted': ('844fb48ac3050223c821', ('float32', 'ndarray', None, ('y', 'x'), ('x', 'y'), (('res', '(1, 1)'), ('tag', 'f32')), 'focal_apply'), True),
    'apply-f32-(2, 3)-row-sum': ('5b67303af5b6dfb55586', ('float64', 'Array', ((2, 2), (3, 3)), ('y', 'x'), ('x', 'y'), (('res', '(1, 1)'), ('tag', 'f32')), 'focal_apply'), True),
    'apply-f32-(2, 3)-row-range': ('1107f62217fe3fb4948c', ('float64', 'Array', ((2, 2), (3, 3)), ('y', 'x'), ('x', 'y'), (('res', '(1, 1)'), ('tag', 'f32')), 'focal_apply'), True),
    'apply-f32-(4, 6)-full5x3-mean': ('4048b62e947a222f7ef1', ('float64', 'Array', ((4,), (6,)), ('y', 'x'), ('x', 'y'), (('res', '(1, 1)'), ('tag', 'f32')), 'focal_apply'), True),
    'apply-f32-(4, 6)-full5x3-var': ('b9943dcf890a792a564c', ('float64', 'Array', ((4,), (6,)), ('y', 'x'), ('x', 'y'), (('res', '(1, 1)'), ('tag', 'f32')), 'focal_apply'), True),
    'apply-i32-None-circle1-mean': ('4bf5326a83adc2558b5b', ('float32', 'ndarray', None, ('y', 'x'), ('x', 'y'), (('res', '(1, 1)'), ('tag', 'i32')), 'focal_apply'), True),
    'apply-i32-None-circle1-sum': ('dcd0e4a8ea6287ca0871', ('float32', 'ndarray', None, ('y', 'x'), ('x', 'y'), (('res', '(1, 1)'), ('tag', 'i32')), 'focal_apply'), True),
    'apply-i32-None-circle1-min': ('b353433c4415780b104e', ('float32', 'ndarray', None, ('y', 'x'), ('x', 'y'), (('res', '(1, 1)'), ('tag', 'i32')), 'focal_apply'), True),
    'apply-i32-None-circle1-max': ('5f7bc987bffc96a74155', ('float32', 'ndarray', None, ('y', 'x'), ('x', 'y'), (('res', '(1, 1)'), ('tag', 'i32')), 'focal_apply'), True),
    'apply-i32-None-circle1-std': ('5a05708cef8eedee989d', ('float32', 'ndarray', None, ('y', 'x'), ('x', 'y'), (('res', '(1, 1)'), ('tag', 'i32')), 'focal_apply'), True),
    'apply-i32-None-circle1-var': ('df9afb494e2a94968288', ('float32', 'ndarray', None, ('y', 'x'), ('x', 'y'), (('res', '(1, 1)'), ('tag', 'i32')), 'focal_apply'), True),
    'apply-i32-None-circle1-range': ('0a27c0619f7055ac68ad', ('float32', 'ndarray', None, ('y', 'x'), ('x', 'y'), (('res', '(1, 1)'), ('tag', 'i32')), 'focal_apply'), True),
    'apply-i32-None-full5x3-weighted': ('4bf54cfe666a5f5e9755', ('float32', 'ndarray', None, ('y', 'x'), ('x', 'y'), (('res', '(1, 1)'), ('tag', 'i32')), 'focal_apply'), True),
    'apply-i32-None-full5x3-count': ('fbb03c8b81731ca201a1', ('float32', 'ndarray', None, ('y', 'x'), ('x', 'y'), (('res', '(1, 1)'), ('tag', 'i32')), 'focal_apply'), True),
    'apply-i32-(3, 9)-asym-mean': ('ff109c752ff5255f95b4', ('float64', 'Array', ((3, 3), (9,)), ('y', 'x'), ('x', 'y'), (('res', '(1, 1)'), ('tag', 'i32')), 'focal_apply'), True),
    'apply-i32-(3, 9)-asym-weighted': ('c308f435c253decf3cc0', ('float64', 'Array', ((3, 3), (9,)), ('y', 'x'), ('x', 'y'), (('res', '(1, 1)'), ('tag', 'i32')), 'focal_apply'), True),
    'apply-i32-(2, 4)-circle1-max': ('5f7bc987bffc96a74155', ('float64', 'Array', ((2, 2, 2), (4, 4, 1)), ('y', 'x'), ('x', 'y'), (('res', '(1, 1)'), ('tag', 'i32')), 'focal_apply'), True),
    'apply-i32-(2, 4)-circle1-sum': ('dcd0e4a8ea6287ca0871', ('float64', 'Array', ((2, 2, 2), (4, 4, 1)), ('y', 'x'), ('x', 'y'), (('res', '(1, 1)'), ('tag', 'i32')), 'focal_apply'), True),
    'apply-u8-None-row-mean': ('7fa680fe79cd607d8fd8', ('float32', 'ndarray', None, ('y', 'x'), ('x', 'y'), (('res', '(1, 1)'), ('tag', 'u8')), 'focal_apply'), True),
    'apply-u8-None-row-min': ('47b09afa7013456a8906', ('float32', 'ndarray', None, ('y', 'x'), ('x', 'y'), (('res', '(1, 1)'), ('tag', 'u8')), 'focal_apply'), True),
    'apply-u8-None-col5-max': ('de24d9072bdb637ede3f', ('float32', 'ndarray', None, ('y', 'x'), ('x', 'y'), (('res', '(1, 1)'), ('tag', 'u8')), 'focal_apply'), True),
    'apply-u8-None-col5-count': ('c22c92704753e27b9a67', ('float32', 'ndarray', None, ('y', 'x'), ('x', 'y'), (('res', '(1, 1)'), ('tag', 'u8')), 'focal_apply'), True),
    'apply-u8-(2, 4)-circle1-sum': ('1931b42b79cd75be34bf', ('float64', 'Array', ((2,), (4, 4, 1)), ('y', 'x'), ('x', 'y'), (('res', '(1, 1)'), ('tag', 'u8')), 'focal_apply'), True),
    'apply-u8-(2, 4)-circle1-std': ('18dbaf1f133c0cd182e8', ('float64', 'Array', ((2,), (4, 4, 1)), ('y', 'x'), ('x', 'y'), (('res', '(1, 1)'), ('tag', 'u8')), 'focal_apply'), True),
    'apply-i64big-None-circle1-sum': ('628161a1e05bd25cabe1', ('float32', 'ndarray', None, ('y', 'x'), ('x', 'y'), (('res', '(1, 1)'), ('tag', 'i64big')), 'focal_apply'), True),
    'apply-i64big-None-circle1-max': ('2655e005f268c0641acd', ('float32', 'ndarray', None, ('y', 'x'), ('x', 'y'), (('res', '(1, 1)'), ('tag', 'i64big')), 'focal_apply'), True),
    'apply-i64big-(5, 2)-asym-min': ('25bc4cf7c555afd3e044', ('float64', 'Array', ((5,), (2, 2)), ('y', 'x'), ('x', 'y'), (('res', '(1, 1)'), ('tag', 'i64big')), 'focal_apply'), True),
    'apply-i64big-(5, 2)-asym-mean': ('9e947ec1c8c77e407b13', ('float64', 'Array', ((5,), (2, 2)), ('y', 'x'), ('x', 'y'), (('res', '(1, 1)'), ('tag', 'i64big')), 'focal_apply'), True),
    'apply-one-None-circle1-mean': ('e9aab6518c8f7909b224', ('float32', 'ndarray', None, ('y', 'x'), ('x', 'y'), (('res', '(1, 1)'), ('tag', 'one')), 'focal_apply'), True),
    'apply-one-None-circle1-weighted': ('4472fa1f196c9164c6d0', ('float32', 'ndarray', None, ('y', 'x'), ('x', 'y'), (('res', '(1, 1)'), ('tag', 'one')), 'focal_apply'), True),
    'apply-one-None-circle1-count': ('864e69e570f0d91cdbaf', ('float32', 'ndarray', None, ('y', 'x'), ('x', 'y'), (('res', '(1, 1)'), ('tag', 'one')), 'focal_apply'), True),
    'apply-one-None-one-min': ('e9aab6518c8f7909b224', ('float32', 'ndarray', None, ('y', 'x'), ('x', 'y'), (('res', '(1, 1)'), ('tag', 'one')), 'focal_apply'), True),
    'apply-allnan-None-circle1-mean': ('42ca0b47d5c294af4ba3', ('float32', 'ndarray', None, ('y', 'x'), ('x', 'y'), (('res', '(1, 1)'), ('tag', 'allnan')), 'focal_apply'), True),
    'apply-allnan-None-circle1-sum': ('fd04be91b2b250549585', ('float32', 'ndarray', None, ('y', 'x'), ('x', 'y'), (('res', '(1, 1)'), ('tag', 'allnan')), 'focal_apply'), True),
    'apply-allnan-None-circle1-min': ('b627778b404e96c4a0f4', ('float32', 'ndarray', None, ('y', 'x'), ('x', 'y'), (('res', '(1, 1)'), ('tag', 'allnan')), 'focal_apply'), True),
    'apply-allnan-None-circle1-count': ('fd04be91b2b250549585', ('float32', 'ndarray', None, ('y', 'x'), ('x', 'y'), (('res', '(1, 1)'), ('tag', 'allnan')), 'focal_apply'), True),
    'apply-allnan-(2, 2)-row-max': ('b627778b404e96c4a0f4', ('float64', 'Array', ((2, 1), (2, 2)), ('y', 'x'), ('x', 'y'), (('res', '(1, 1)'), ('tag', 'allnan')), 'focal_apply'), True),
    'apply-allnan-(2, 2)-row-sum': ('fd04be91b2b250549585', ('float64', 'Array', ((2, 1), (2, 2)), ('y', 'x'), ('x', 'y'), (('res', '(1, 1)'), ('tag', 'allnan')), 'focal_apply'), True),
    'apply-rowvec-None-annulus-mean': ('df1e94e129d4f8e947b6', ('float32', 'ndarray', None, ('y', 'x'), ('x', 'y'), (('res', '(1, 1)'), ('tag', 'rowvec')), 'focal_apply'), True),
    'apply-rowvec-None-annulus-sum': ('b34b9b5142e4cdcb9c93', ('float32', 'ndarray', None, ('y', 'x'), ('x', 'y'), (('res', '(1, 1)'), ('tag', 'rowvec')), 'focal_apply'), True),
    'apply-rowvec-(1, 3)-row-weighted': ('c350fcaa0e63bb574b43', ('float64', 'Array', ((1,), (3, 3, 2)), ('y', 'x'), ('x', 'y'), (('res', '(1, 1)'), ('tag', 'rowvec')), 'focal_apply'), True),
    'apply-rowvec-(1, 3)-row-range': ('b46d764ac35660f1bca2', ('float64', 'Array', ((1,), (3, 3, 2)), ('y', 'x'), ('x', 'y'), (('res', '(1, 1)'), ('tag', 'rowvec')), 'focal_apply'), True),
    'apply-default': ('d77515ae25a5688121ff', ('float32', 'ndarray', None, ('y', 'x'), ('x', 'y'), (('res', '(1, 1)'), ('tag', 'f64')), 'focal_apply'), True),
    'apply-named': ('023275d5245d6b0cb3af', ('float64', 'Array', ((3, 3), (9,)), ('y', 'x'), ('x', 'y'), (('res', '(1, 1)'), ('tag', 'i32')), 'custom'), True),
    'stats-f64-None-circle1': ('a756958466b4925ddbd0', 'float32', 'ndarray', ('stats', 'y', 'x'), ('mean', 'max', 'min', 'range', 'std', 'var', 'sum'), 'd220d4fabcda828f0316', ('sum', 'min')),
    'stats-i32-(3, 4)-circle2x1': ('a95f29b5c0b158ff5645', 'float64', 'Array', ('stats', 'y', 'x'), ('mean', 'max', 'min', 'range', 'std', 'var', 'sum'), '608cb61521a9bf88bc8d', ('sum', 'min')),
    'stats-f32-None-asym': ('3cbf61b02b9c62d20fe2', 'float32', 'ndarray', ('stats', 'y', 'x'), ('mean', 'max', 'min', 'range', 'std', 'var', 'sum'), '01ce8835cc4712110b7d', ('sum', 'min')),
    'stats-u8-(2, 9)-row': ('e81751244c52ea9b690b', 'float64', 'Array', ('stats', 'y', 'x'), ('mean', 'max', 'min', 'range', 'std', 'var', 'sum'), '05eaebafd2c4088ecc0d', ('sum', 'min')),
    'mean-f64': ('c6bad35f201966dbfca8', ('float64', 'ndarray', None, ('y', 'x'), ('x', 'y'), (('res', '(1, 1)'), ('tag', 'f64')), 'mean'), True),
    'hotspots-i32': '8985d6accf4d142684b5',
}


def run(order, label, failures):
    got = {}
    for name, fn in order:
        got[name] = fn()
    if os.environ.get("RECORD"):
        return got
    for name, val in got.items():
        if EXPECTED.get(name) != val:
            failures.append("%s [%s]: expected %r got %r" % (name, label, EXPECTED.get(name), val))
    return got


def main():
    print("xrspatial from", xrspatial.__file__)
    cs = cases()
    failures = []
    got = run(cs, "forward", failures)
    if os.environ.get("RECORD"):
        print("EXPECTED = {")
        for k, v in got.items():
            print("    %r: %r," % (k, v))
        print("}")
        return 0
    run(cs[::-1], "backward", failures)
    reference_minmax(failures)
    error_checks(failures)
    numba.set_num_threads(1)
    with dask.config.set(scheduler="threads", num_workers=9):
        run(cs[::2] + cs[1::2], "threads-1/9", failures)
    numba.set_num_threads(min(numba.config.NUMBA_NUM_THREADS, 4))
    with dask.config.set(scheduler="synchronous"):
        run(cs[1::3][::-1], "threads-4/sync", failures)
    lazy = apply(make_raster("f64", (3, 2)), KERNELS["circle1"])
    if not isinstance(lazy.data, da.Array):
        failures.append("apply() on dask input is not lazy any more")
    if failures:
        print("%d MISMATCHES" % len(failures))
        for f in failures[:20]:
            print("  ", f)
        return 1
    print("OK: %d cases identical in every order / thread setting" % len(cs))
    return 0


if __name__ == "__main__":
    sys.exit(main())
