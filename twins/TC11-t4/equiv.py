"""Differential test for proximity / allocation / direction (C11, refactoring t4).

Run from inside the worktree:
    cd /tmp/t3/TC11 && PYTHONPATH=/tmp/t3/TC11 /venv/bin/python /tmp/t3/out/TC11-t4/equiv.py
Digests in EXPECTED were recorded on the unmodified tree (``--record``).
In addition a brute-force nearest-target oracle checks the unbounded euclidean case.
"""
import hashlib
import json
import sys

import dask.array as da
import numpy as np
import xarray as xr

import xrspatial
from xrspatial import allocation, direction, proximity

assert xrspatial.__file__.startswith('/tmp/t3/TC11/'), xrspatial.__file__

FUNCS = {'proximity': proximity, 'allocation': allocation, 'direction': direction}


def digest(a):
    a = np.asarray(a)
    h = hashlib.sha256()
    h.update(str(a.dtype).encode())
    h.update(str(a.shape).encode())
    h.update(np.ascontiguousarray(a).tobytes())
    return h.hexdigest()[:20]


def make_raster(shape, dtype, seed, nan_frac=0.0, density=0.15, lonlat=False, flip_y=True):
    rng = np.random.RandomState(seed)
    h, w = shape
    data = np.zeros(shape, dtype=np.float64)
    mask = rng.rand(h, w) < density
    data[mask] = rng.randint(1, 5, size=mask.sum())
    if nan_frac and np.issubdtype(np.dtype(dtype), np.floating):
        data[rng.rand(h, w) < nan_frac] = np.nan
        data[rng.rand(h, w) < nan_frac / 2] = np.inf
    data = data.astype(dtype)
    r = xr.DataArray(data, dims=['y', 'x'], attrs={'res': (1, 1)})
    if lonlat:
        xs = np.linspace(-170, 170, w)
        ys = np.linspace(-80, 80, h)
    else:
        xs = np.arange(w) * 1.5 + 0.25
        ys = np.arange(h) * 0.75
    r['x'] = xs
    r['y'] = ys[::-1] if flip_y else ys
    return r


def cases():
    spec = [((1, 1), np.float64), ((1, 7), np.int32), ((6, 1), np.float32),
            ((7, 11), np.float64), ((13, 4), np.uint8), ((5, 6), np.int64)]
    for k, (shape, dtype) in enumerate(spec, 1):
        yield ('s%dx%d_%s' % (shape[0], shape[1], np.dtype(dtype).name),
               make_raster(shape, dtype, seed=k, nan_frac=0.15 if k % 2 else 0.0,
                           flip_y=bool(k % 3)))


PARAMS = [
    dict(),
    dict(target_values=[1]),
    dict(target_values=[2, 3, 3]),
    dict(target_values=[9]),            # no target present
    dict(max_distance=2.0),
    dict(max_distance=0.0),
    dict(target_values=[1, 4], max_distance=3.5, distance_metric='MANHATTAN'),
    dict(distance_metric='MANHATTAN'),
    dict(distance_metric='NOT_A_METRIC'),
    dict(max_distance=None),
]


def run_all():
    out = {}
    # numpy: every raster sees 4 of the parameter sets (rotating), all three modes
    for ci, (cname, r) in enumerate(cases()):
        for pi in [(ci * 3 + j) % len(PARAMS) for j in range(4)]:
            p = PARAMS[pi]
            for fname, f in FUNCS.items():
                before = r.data.copy()
                res = f(r, **p)
                assert isinstance(res.data, np.ndarray)
                np.testing.assert_array_equal(r.data, before)
                out['np/%s/%d/%s' % (cname, pi, fname)] = digest(res.data)
    # great circle on lon/lat rasters
    for k, (shape, dtype) in enumerate([((6, 9), np.float64), ((4, 5), np.int32)]):
        r = make_raster(shape, dtype, seed=100 + k, nan_frac=0.1, lonlat=True)
        for pi, p in enumerate([dict(), dict(max_distance=3.0e6, target_values=[2, 1])]):
            for fname, f in FUNCS.items():
                res = f(r, distance_metric='GREAT_CIRCLE', **p)
                out['gc/%d/%d/%s' % (k, pi, fname)] = digest(res.data)
    # dask: bounded (map_overlap with depth) and unbounded (single chunk)
    for k, (shape, chunks, dtype) in enumerate([((9, 12), (4, 5), np.float64),
                                                ((10, 7), (3, 7), np.int64)]):
        for pi, p in enumerate([dict(max_distance=2.0), dict(),
                                dict(target_values=[1, 2], max_distance=3.0,
                                     distance_metric='MANHATTAN')]):
            for fname, f in FUNCS.items():
                r = make_raster(shape, dtype, seed=200 + k, nan_frac=0.1)
                r.data = da.from_array(r.data, chunks=chunks)
                res = f(r, **p)
                assert isinstance(res.data, da.Array)
                got = res.data.compute()
                out['da/%d/%d/%s' % (k, pi, fname)] = digest(got)
    # order independence: interleaved + repeated calls give the same answers
    r = make_raster((7, 11), np.float64, seed=4, nan_frac=0.0)
    seq = [(f, p) for p in (0, 4, 6, 2) for f in FUNCS]
    for fname, pi in seq[::-1] + seq:
        d = digest(FUNCS[fname](r, **PARAMS[pi]).data)
        key = 'np/s7x11_float64/%d/%s' % (pi, fname)
        assert out.setdefault(key, d) == d, key
    return out


def brute_force_check():
    # independent oracle: unbounded euclidean on a regular grid == exact nearest target
    for seed, dtype in [(1, np.float64), (2, np.int32), (3, np.float32)]:
        r = make_raster((9, 10), dtype, seed=seed, nan_frac=0.1 if seed != 2 else 0)
        xs, ys = np.meshgrid(r['x'].data, r['y'].data)
        d = r.data.astype(np.float64)
        tgt = np.isfinite(d) & (d != 0)
        if not tgt.any():
            continue
        ty, tx = np.nonzero(tgt)
        dist = np.sqrt((xs[..., None] - xs[ty, tx]) ** 2 + (ys[..., None] - ys[ty, tx]) ** 2)
        want = dist.min(axis=-1)
        got = proximity(r).data
        # the scan algorithm is approximate by design only in rare configurations;
        # targets must be exact zeros and nothing may be below the true minimum
        assert got.dtype == np.float32
        assert np.all(got[tgt] == 0)
        assert np.all(got >= want.astype(np.float32) * (1 - 1e-6))


EXPECTED = {'da/0/0/allocation': '44bc3082a0aa3d57f3df',
 'da/0/0/direction': '368d78cac320a5e56358',
 'da/0/0/proximity': '03e2f3e13efc20af52d2',
 'da/0/1/allocation': 'a5d1a828722871f81857',
 'da/0/1/direction': '841ba04c21f5b5adbd54',
 'da/0/1/proximity': '95b0f9462543bc3549b2',
 'da/0/2/allocation': '6e197681fbd9839820d7',
 'da/0/2/direction': 'afc8c023f1739c1603a1',
 'da/0/2/proximity': 'baeb7326038c7c0ad579',
 'da/1/0/allocation': '30f650d8a8f5a89660b8',
 'da/1/0/direction': 'b74fae142f4c206154ce',
 'da/1/0/proximity': 'f67a3f5a641df3786a84',
 'da/1/1/allocation': '8d2ca85b31bea1c14a00',
 'da/1/1/direction': '4060928ac0444005df57',
 'da/1/1/proximity': 'f8532ddc38d71f7dde92',
 'da/1/2/allocation': 'ca8c5b9e7fd3d5ba9b76',
 'da/1/2/direction': '7a7c59cb27bf4595b384',
 'da/1/2/proximity': '0f3633e73559fc0b1d48',
 'gc/0/0/allocation': 'f014e9475f543ed19835',
 'gc/0/0/direction': '282f685c8308d044c061',
 'gc/0/0/proximity': '393ef9c6a723cb24bfa4',
 'gc/0/1/allocation': 'ffbfe0c03e5ba2425705',
 'gc/0/1/direction': 'cd7f4be82b46c03c0e74',
 'gc/0/1/proximity': '07f308873b804c5abe0d',
 'gc/1/0/allocation': '9abe49cf8c29ecad7244',
 'gc/1/0/direction': '75d0ecfdbe54d40e79d8',
 'gc/1/0/proximity': '2fc745685d296700eee5',
 'gc/1/1/allocation': '3a49e8089643f3392620',
 'gc/1/1/direction': 'dc869415e3dac7ab64f0',
 'gc/1/1/proximity': '5c030f39f40abe7f16af',
 'np/s13x4_uint8/2/allocation': '5b1fce5d46a26819e62f',
 'np/s13x4_uint8/2/direction': 'c49a9591bbf672698cff',
 'np/s13x4_uint8/2/proximity': '269bd77561ce7af498e9',
 'np/s13x4_uint8/3/allocation': 'e95dcf41cb0c75d1eedf',
 'np/s13x4_uint8/3/direction': 'e95dcf41cb0c75d1eedf',
 'np/s13x4_uint8/3/proximity': 'e95dcf41cb0c75d1eedf',
 'np/s13x4_uint8/4/allocation': 'b19e2e847c1bfc593d45',
 'np/s13x4_uint8/4/direction': 'c628fb4f182a1da71907',
 'np/s13x4_uint8/4/proximity': '3aa4dc66366500e626e0',
 'np/s13x4_uint8/5/allocation': 'b97853a248e20370e50a',
 'np/s13x4_uint8/5/direction': '4d7f50a998f45616bd00',
 'np/s13x4_uint8/5/proximity': '4d7f50a998f45616bd00',
 'np/s1x1_float64/0/allocation': '3d8106d92e9af40a7249',
 'np/s1x1_float64/0/direction': '3d8106d92e9af40a7249',
 'np/s1x1_float64/0/proximity': '3d8106d92e9af40a7249',
 'np/s1x1_float64/1/allocation': '3d8106d92e9af40a7249',
 'np/s1x1_float64/1/direction': '3d8106d92e9af40a7249',
 'np/s1x1_float64/1/proximity': '3d8106d92e9af40a7249',
 'np/s1x1_float64/2/allocation': '3d8106d92e9af40a7249',
 'np/s1x1_float64/2/direction': '3d8106d92e9af40a7249',
 'np/s1x1_float64/2/proximity': '3d8106d92e9af40a7249',
 'np/s1x1_float64/3/allocation': '3d8106d92e9af40a7249',
 'np/s1x1_float64/3/direction': '3d8106d92e9af40a7249',
 'np/s1x1_float64/3/proximity': '3d8106d92e9af40a7249',
 'np/s1x7_int32/3/allocation': '28f42df74ea583cef862',
 'np/s1x7_int32/3/direction': '28f42df74ea583cef862',
 'np/s1x7_int32/3/proximity': '28f42df74ea583cef862',
 'np/s1x7_int32/4/allocation': '9afe930c24a4c041047c',
 'np/s1x7_int32/4/direction': 'd841e6d784b2611670f2',
 'np/s1x7_int32/4/proximity': 'cc55aa3a76fa88846ea4',
 'np/s1x7_int32/5/allocation': '415c6349647070f81d82',
 'np/s1x7_int32/5/direction': '921bb1250821990597c9',
 'np/s1x7_int32/5/proximity': '921bb1250821990597c9',
 'np/s1x7_int32/6/allocation': '28f42df74ea583cef862',
 'np/s1x7_int32/6/direction': '28f42df74ea583cef862',
 'np/s1x7_int32/6/proximity': '28f42df74ea583cef862',
 'np/s5x6_int64/5/allocation': '83a7dbb8ad6684d6f521',
 'np/s5x6_int64/5/direction': '0594f54b63f527314720',
 'np/s5x6_int64/5/proximity': '0594f54b63f527314720',
 'np/s5x6_int64/6/allocation': '5fd6ea6f15f893379159',
 'np/s5x6_int64/6/direction': '5fd6ea6f15f893379159',
 'np/s5x6_int64/6/proximity': '5fd6ea6f15f893379159',
 'np/s5x6_int64/7/allocation': 'b0c86940d6588613d828',
 'np/s5x6_int64/7/direction': 'e8c68ad4ad305eee2f87',
 'np/s5x6_int64/7/proximity': '8ab3633f78f9cabf06d7',
 'np/s5x6_int64/8/allocation': '038a0680ff901f04058a',
 'np/s5x6_int64/8/direction': '1f66cea36e9c23456259',
 'np/s5x6_int64/8/proximity': 'bc14e5d4b24663a8a5fd',
 'np/s6x1_float32/6/allocation': 'b0beda72bcdda20b98d3',
 'np/s6x1_float32/6/direction': 'b0beda72bcdda20b98d3',
 'np/s6x1_float32/6/proximity': 'b0beda72bcdda20b98d3',
 'np/s6x1_float32/7/allocation': 'b0beda72bcdda20b98d3',
 'np/s6x1_float32/7/direction': 'b0beda72bcdda20b98d3',
 'np/s6x1_float32/7/proximity': 'b0beda72bcdda20b98d3',
 'np/s6x1_float32/8/allocation': 'b0beda72bcdda20b98d3',
 'np/s6x1_float32/8/direction': 'b0beda72bcdda20b98d3',
 'np/s6x1_float32/8/proximity': 'b0beda72bcdda20b98d3',
 'np/s6x1_float32/9/allocation': 'b0beda72bcdda20b98d3',
 'np/s6x1_float32/9/direction': 'b0beda72bcdda20b98d3',
 'np/s6x1_float32/9/proximity': 'b0beda72bcdda20b98d3',
 'np/s7x11_float64/0/allocation': '2fb3e136e601512a0e1d',
 'np/s7x11_float64/0/direction': '7297aa50b232c35013f2',
 'np/s7x11_float64/0/proximity': 'cf8a2fe3498117e64c8b',
 'np/s7x11_float64/1/allocation': '16df7e800cec68a15df6',
 'np/s7x11_float64/1/direction': '7c027db8b763fb4e837f',
 'np/s7x11_float64/1/proximity': '4eac7856ef4f867d49a7',
 'np/s7x11_float64/2/allocation': '05b2c2015068eb231f51',
 'np/s7x11_float64/2/direction': 'd213fc66a8ba2f166c99',
 'np/s7x11_float64/2/proximity': '1c4bc3772ddf1457ae64',
 'np/s7x11_float64/4/allocation': 'e159b03484ca950ddfe5',
 'np/s7x11_float64/4/direction': '40e70a7dbdbbb403e695',
 'np/s7x11_float64/4/proximity': '9d30f8fade2aa27e534f',
 'np/s7x11_float64/6/allocation': '423f7f7d597f4c02cdb7',
 'np/s7x11_float64/6/direction': '3ed9bc24f917b8060d41',
 'np/s7x11_float64/6/proximity': '30e96241b903278958f5',
 'np/s7x11_float64/9/allocation': '2fb3e136e601512a0e1d',
 'np/s7x11_float64/9/direction': '7297aa50b232c35013f2',
 'np/s7x11_float64/9/proximity': 'cf8a2fe3498117e64c8b'}


if __name__ == '__main__':
    got = run_all()
    brute_force_check()
    if '--record' in sys.argv:
        print(json.dumps(got, sort_keys=True))
        sys.exit(0)
    bad = [k for k in sorted(set(got) | set(EXPECTED)) if got.get(k) != EXPECTED.get(k)]
    if bad:
        print('MISMATCH in %d / %d cases, e.g. %s' % (len(bad), len(EXPECTED), bad[:10]))
        sys.exit(1)
    print('OK: %d cases identical' % len(got))
    sys.exit(0)
