"""Differential test for zonal.crosstab (property C04) and zonal.stats.

Two independent checks:
  1. crosstab (2-D count / percentage, 3-D count) is compared against a
     brute-force contingency table computed here with plain Python loops,
     for numpy and dask, with zone_ids / cat_ids subsets, permutations and
     absent ids, several dtypes, NaN / inf cells, nodata values, odd shapes.
  2. a sha256 digest over the raw bytes (values + dtypes + column labels) of
     every result, including the 3-D float aggregates and zonal.stats, is
     compared with the digest recorded from the unmodified tree.

Run:  cd <worktree> && PYTHONPATH=<worktree> /venv/bin/python equiv.py
      (add --record to print the digest instead of checking it)
"""
import hashlib
import sys
import warnings

import dask.array as da
import numpy as np
import pandas as pd
import xarray as xr

import xrspatial
from xrspatial.zonal import crosstab, stats

warnings.filterwarnings("ignore")

EXPECTED_DIGEST = "705d50239ce2ffe8c367b0f20ad4202bd6a10fe5e51d1ca812a9ba3aca0d8c17"

H = hashlib.sha256()
FAILS = []


def feed(tag, df):
    if hasattr(df, "compute"):
        df = df.compute()
    H.update(tag.encode())
    H.update(repr([(repr(c), type(c).__name__) for c in df.columns]).encode())
    H.update(repr(list(df.index)).encode())
    for c in df.columns:
        col = np.asarray(df[c])
        H.update(str(col.dtype).encode())
        H.update(np.ascontiguousarray(col).tobytes())
    return df


def brute_2d(z, v, zone_ids, cat_ids, nodata, agg):
    zf = z.astype(float).ravel()
    vf = v.ravel()
    ok_z = np.isfinite(zf)
    uz = sorted(set(zf[ok_z].tolist()))
    ok_v = np.isfinite(vf.astype(float))
    if nodata is not None:
        ok_v &= vf != nodata
    uc = sorted(set(vf[ok_v].tolist()))
    rows = uz if zone_ids is None else [x for x in uz if x in list(zone_ids)]
    cols = uc if cat_ids is None else [c for c in cat_ids if c in uc]
    table = []
    for r in rows:
        inz = ok_z & (zf == r) & ok_v
        tot = int(inz.sum())
        line = []
        for c in cols:
            n = int((inz & (vf == c)).sum())
            if agg == "percentage":
                line.append(np.nan if tot == 0 else n / tot * 100)
            else:
                line.append(n)
        table.append(line)
    return rows, cols, table


def check_2d(tag, df, z, v, zone_ids, cat_ids, nodata, agg):
    rows, cols, table = brute_2d(z, v, zone_ids, cat_ids, nodata, agg)
    got_cols = list(df.columns)
    if got_cols[0] != "zone" or [float(c) for c in got_cols[1:]] != [float(c) for c in cols]:
        FAILS.append((tag, "columns", got_cols, cols))
        return
    if [float(x) for x in df["zone"]] != [float(x) for x in rows]:
        FAILS.append((tag, "zones", list(df["zone"]), rows))
        return
    got = np.asarray(df[got_cols[1:]], dtype=float).reshape(len(rows), len(cols))
    exp = np.asarray(table, dtype=float).reshape(len(rows), len(cols))
    if agg == "count":
        same = np.array_equal(got, exp)
    else:
        # library divides by a float32 total: allow float32 rounding
        same = np.allclose(got, exp, rtol=1e-6, atol=0, equal_nan=True)
        nonempty = ~np.isnan(got).all(axis=1) if got.size else np.array([], bool)
        if cat_ids is None and got.size and not np.allclose(
                np.nansum(got[nonempty], axis=1), 100.0, rtol=1e-5):
            same = False
    if not same:
        FAILS.append((tag, "table", got.tolist(), exp.tolist()))


def rasters(rng):
    out = []
    for shape in [(1, 1), (1, 7), (5, 1), (6, 8), (9, 11), (13, 4)]:
        for zd in (np.int32, np.int64, np.float32, np.float64):
            for vd in (np.int8, np.int32, np.float32, np.float64):
                z = rng.integers(0, 5, size=shape).astype(zd) * 3 - 2
                v = rng.integers(-1, 6, size=shape).astype(vd)
                if np.issubdtype(zd, np.floating) and z.size > 3:
                    z.ravel()[rng.integers(0, z.size, 2)] = np.nan
                    z.ravel()[rng.integers(0, z.size)] = np.inf
                if np.issubdtype(vd, np.floating) and v.size > 3:
                    v.ravel()[rng.integers(0, v.size, 3)] = np.nan
                    v.ravel()[rng.integers(0, v.size)] = -np.inf
                out.append((z, v))
    return out[::3]


def chunks_for(shape):
    return (max(1, shape[0] // 2 + 1), max(1, shape[1] // 3 + 1))


def run_2d(rng):
    k = 0
    for z, v in rasters(rng):
        uz = np.unique(z[np.isfinite(z)]).tolist()
        uv = np.unique(v[np.isfinite(v.astype(float))]).tolist()
        sels = [
            (None, None),
            (uz[::-1], None),
            (None, uv[::-1]),
            (uz[::2][::-1] + [99], [77] + uv[1::2][::-1]),
            ([uz[-1], uz[0]], [uv[-1], uv[0], uv[len(uv) // 2]]),
            ([99], [77]),
        ]
        # no duplicate ids inside one list (keeps column labels unique)
        sels = [(None if a is None else list(dict.fromkeys(a)),
                 None if b is None else list(dict.fromkeys(b))) for a, b in sels]
        for nodata in (None, 0, 3):
            for agg in ("count", "percentage"):
                for zi, ci in sels[(k % 2)::2] if nodata == 3 else sels:
                    k += 1
                    tag = f"2d-{k}"
                    zx = xr.DataArray(z, dims=("y", "x"))
                    vx = xr.DataArray(v, dims=("y", "x"))
                    df = crosstab(zx, vx, zone_ids=zi, cat_ids=ci,
                                  agg=agg, nodata_values=nodata)
                    df = feed(tag + "np", df)
                    check_2d(tag + "np", df, z, v, zi, ci, nodata, agg)
                    if k % 3 == 0:
                        ch = chunks_for(z.shape)
                        zd_ = xr.DataArray(da.from_array(z, chunks=ch), dims=("y", "x"))
                        vd_ = xr.DataArray(da.from_array(v, chunks=ch), dims=("y", "x"))
                        ddf = crosstab(zd_, vd_, zone_ids=zi, cat_ids=ci,
                                       agg=agg, nodata_values=nodata)
                        ddf = feed(tag + "da", ddf)
                        check_2d(tag + "da", ddf, z, v, zi, ci, nodata, agg)


def run_3d(rng):
    aggs = ["mean", "max", "min", "sum", "std", "var", "count"]
    k = 0
    for shape in [(3, 5, 7), (2, 1, 4), (4, 6, 6)]:
        for vd in (np.float64, np.float32, np.int32):
            for zd in (np.int64, np.float64):
                z = rng.integers(1, 5, size=shape[1:]).astype(zd)
                v = (rng.normal(size=shape) * 10).astype(vd)
                if np.issubdtype(vd, np.floating) and v.size > 8:
                    v.ravel()[rng.integers(0, v.size, 4)] = np.nan
                    v.ravel()[rng.integers(0, v.size)] = np.inf
                if np.issubdtype(zd, np.floating) and z.size > 4:
                    z.ravel()[rng.integers(0, z.size)] = np.nan
                if v.size > 8:
                    v.ravel()[rng.integers(0, v.size, 2)] = 7
                layers = [10 * (i + 1) for i in range(shape[0])]
                uz = np.unique(z[np.isfinite(z)]).tolist()
                for layout in (0, 1):
                    if layout == 0:
                        vx = xr.DataArray(v, dims=("l", "y", "x"), coords={"l": layers})
                        layer = None
                    else:
                        vx = xr.DataArray(np.moveaxis(v, 0, 2).copy(), dims=("y", "x", "l"),
                                          coords={"l": layers})
                        layer = 2
                    zx = xr.DataArray(z, dims=("y", "x"))
                    for zi, ci in [(None, None), (uz[::-1][:2] + [42], layers[::-1]),
                                   ([uz[0]], [layers[-1], 5])]:
                        for nodata in (None, 7):
                            for agg in aggs:
                                k += 1
                                df = crosstab(zx, vx, zone_ids=zi, cat_ids=ci, layer=layer,
                                              agg=agg, nodata_values=nodata)
                                df = feed(f"3d-{k}", df)
                                # independent check of every entry
                                rows = uz if zi is None else [x for x in uz if x in zi]
                                cols = layers if ci is None else [c for c in ci if c in layers]
                                if [float(x) for x in df["zone"]] != [float(x) for x in rows] \
                                        or list(df.columns[1:]) != cols:
                                    FAILS.append((f"3d-{k}", "labels"))
                                    continue
                                for ri, r in enumerate(rows):
                                    for c in cols:
                                        cell = v[layers.index(c)][z == r]
                                        cell = cell[np.isfinite(cell)]
                                        if nodata is not None:
                                            cell = cell[cell != nodata]
                                        with np.errstate(all="ignore"):
                                            exp = (len(cell) if agg == "count" else
                                                   getattr(cell, agg)() if len(cell) or
                                                   agg not in ("max", "min") else None)
                                        got = df[c].iloc[ri]
                                        if exp is None:
                                            continue
                                        if not np.allclose(float(got), float(exp), rtol=1e-4,
                                                           atol=1e-4, equal_nan=True):
                                            FAILS.append((f"3d-{k}", agg, r, c, got, exp))
                    # dask 3-D: only count
                    ch = chunks_for(z.shape)
                    zd_ = xr.DataArray(da.from_array(z, chunks=ch), dims=("y", "x"))
                    vd_ = xr.DataArray(da.from_array(np.asarray(vx.data), chunks=-1),
                                       dims=vx.dims, coords={"l": layers})
                    for zi, ci in [(None, None), (uz[::-1][:2], layers[::-1])]:
                        k += 1
                        try:
                            ddf = crosstab(zd_, vd_, zone_ids=zi, cat_ids=ci, layer=layer,
                                           agg="count", nodata_values=7)
                            feed(f"3d-da-{k}", ddf)
                        except Exception as e:  # recorded as part of behaviour
                            H.update(f"3d-da-{k}-EXC-{type(e).__name__}".encode())


def run_stats(rng):
    k = 0
    for z, v in rasters(rng)[::2]:
        if not np.issubdtype(z.dtype, np.integer) and z.size < 4:
            continue
        uz = np.unique(z[np.isfinite(z)]).tolist()
        for zi in (None, uz[::-1][:2]):
            for nodata in (None, 0):
                k += 1
                zx = xr.DataArray(z, dims=("y", "x"))
                vx = xr.DataArray(v, dims=("y", "x"))
                try:
                    df = stats(zx, vx, zone_ids=zi, nodata_values=nodata)
                    feed(f"st-{k}", df)
                except Exception as e:
                    H.update(f"st-{k}-EXC-{type(e).__name__}".encode())
                if k % 2 == 0:
                    ch = chunks_for(z.shape)
                    zd_ = xr.DataArray(da.from_array(z, chunks=ch), dims=("y", "x"))
                    vd_ = xr.DataArray(da.from_array(v, chunks=ch), dims=("y", "x"))
                    try:
                        ddf = stats(zd_, vd_, zone_ids=zi, nodata_values=nodata)
                        feed(f"st-da-{k}", ddf)
                    except Exception as e:
                        H.update(f"st-da-{k}-EXC-{type(e).__name__}".encode())


def run_views(rng):
    # 3-D values handed over as non-contiguous views (strided layer axis,
    # reversed rows, Fortran order): same table as for a contiguous copy
    aggs = ["mean", "max", "min", "sum", "std", "var", "count"]
    base = rng.normal(size=(6, 7, 9)) * 5
    base.ravel()[rng.integers(0, base.size, 9)] = np.nan
    z = rng.integers(0, 4, size=(7, 9)).astype(np.float64)
    z[0, 0] = np.nan
    z[3, 4] = -np.inf
    views = [base[::2], base[:, ::-1, :], np.asfortranarray(base), base[1::2, :, ::-1]]
    for n, view in enumerate(views):
        zz = z if n != 3 else z.copy()
        layers = list(range(view.shape[0]))
        zx = xr.DataArray(zz, dims=("y", "x"))
        for agg in aggs:
            a = crosstab(zx, xr.DataArray(view, dims=("l", "y", "x"), coords={"l": layers}),
                         agg=agg, zone_ids=[3.0, 1.0, 0.0])
            b = crosstab(zx, xr.DataArray(view.copy(order="C"), dims=("l", "y", "x"),
                                          coords={"l": layers}),
                         agg=agg, zone_ids=[3.0, 1.0, 0.0])
            feed(f"view-{n}-{agg}", a)
            if not (list(a.columns) == list(b.columns) and all(
                    np.asarray(a[c]).tobytes() == np.asarray(b[c]).tobytes()
                    for c in a.columns)):
                FAILS.append(("view", n, agg))
    if not np.isnan(base).any() or base.shape != (6, 7, 9):
        FAILS.append(("view", "input mutated"))


def main():
    print("xrspatial from", xrspatial.__file__)
    rng = np.random.default_rng(20240404)
    run_2d(rng)
    run_3d(rng)
    run_stats(rng)
    run_views(rng)
    digest = H.hexdigest()
    if "--record" in sys.argv:
        print(digest)
        return 0
    rc = 0
    if FAILS:
        print("ORACLE MISMATCHES:", len(FAILS))
        for f in FAILS[:10]:
            print("  ", f)
        rc = 1
    if digest != EXPECTED_DIGEST:
        print("DIGEST MISMATCH", digest, "expected", EXPECTED_DIGEST)
        rc = 1
    if rc == 0:
        print("OK: identical (oracle + recorded digest)")
    return rc


if __name__ == "__main__":
    sys.exit(main())
