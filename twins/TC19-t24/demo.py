"""Demo for C19: radius-string parsing and circle/annulus kernels vs brute-force oracles."""
import sys

import numpy as np

from xrspatial.convolution import _get_distance, annulus_kernel, circle_kernel

FACT = {'m': 1, 'meter': 1, 'meters': 1, 'km': 1000, 'kilometer': 1000,
        'kilometers': 1000, 'ft': 0.3048, 'foot': 0.3048, 'feet': 0.3048,
        'ml': 1609.344, 'mls': 1609.344, 'miles': 1609.344}
fails = []


def check(cond, msg):
    if not cond:
        fails.append(msg)


def oracle_meters(radius):
    """Independent parser: leading signed number, then optional unit text."""
    s = str(radius)
    i = 0
    if i < len(s) and s[i] == '-':
        i += 1
    j = i
    while j < len(s) and (s[j].isdigit() or s[j] == '.'):
        j += 1
    val = float(s[:j])
    unit = s[j:].replace(' ', '').lower() or 'meter'
    if val <= 0 or unit not in FACT:
        raise ValueError
    return val * FACT[unit]


def oracle_circle(cx, cy, radius):
    r = oracle_meters(radius)
    hw, hh = int(r / cx), int(r / cy)
    out = np.zeros((2 * hh + 1, 2 * hw + 1), dtype=np.float64)
    for i in range(2 * hh + 1):
        for j in range(2 * hw + 1):
            dx, dy = j - hw, i - hh
            if (dx * hh) ** 2 + (dy * hw) ** 2 <= (hw * hh) ** 2:
                out[i, j] = 1.0
    return out


def oracle_annulus(cx, cy, ro, ri):
    outer, inner = oracle_circle(cx, cy, ro), oracle_circle(cx, cy, ri)
    res = outer.copy()
    r0 = (outer.shape[0] - inner.shape[0]) // 2
    c0 = (outer.shape[1] - inner.shape[1]) // 2
    for i in range(inner.shape[0]):
        for j in range(inner.shape[1]):
            res[r0 + i, c0 + j] -= inner[i, j]
    return res


def same(a, b):
    return a.dtype == b.dtype and a.shape == b.shape and a.tobytes() == b.tobytes()


# 1. radius strings -> metres
good = {'3': 3.0, '3km': 3000.0, '2.5 Miles': 2.5 * 1609.344, '10 FT': 10 * 0.3048,
        '.5km': 500.0, '5 k m': 5000.0, '7meters': 7.0, '1 foot': 0.3048,
        '12.75 mls': 12.75 * 1609.344, '0.001 kilometers': 0.001 * 1000}
for s, want in good.items():
    got = _get_distance(s)
    check(type(got) is float and got == want and got == oracle_meters(s), 'parse %r -> %r' % (s, got))

bad = ['0', '-5', '-0.0km', 'abc', '', 'km5', '5 parsecs', '1 2 3', '1e3', '5 mile', '3..5']
for s in bad:
    try:
        _get_distance(s)
        check(False, 'no error for %r' % s)
    except ValueError:
        pass

check(_get_distance('nan') != _get_distance('nan'), 'nan string passes through as NaN')

# 2. circle kernels: several cellsizes (non-square), dtypes of the arguments, units
cases = [(1, 1, 3), (1, 2, 3), (2, 1, 7), (0.5, 0.25, 2), (1, 1, 0.5), (3, 1, 2),
         (np.float32(1.5), np.int64(2), np.float64(9)), (1, 1, '4m'), (100, 250, '1km'),
         (0.3048, 0.3048, '10ft'), (400, 800, '2 miles'), (np.int32(1), np.uint8(3), np.int16(10)),
         (1, 1, 1), (7, 7, 7), (1.0, 4.0, 12.0)]
for cx, cy, r in cases:
    k = circle_kernel(cx, cy, r)
    o = oracle_circle(cx, cy, r)
    check(same(k, o), 'circle %r' % ((cx, cy, r),))
    check(k.shape[0] % 2 == 1 and k.shape[1] % 2 == 1, 'odd shape %r' % ((cx, cy, r),))
    check(np.array_equal(k, k[::-1]) and np.array_equal(k, k[:, ::-1]), 'flip %r' % ((cx, cy, r),))
    check(set(np.unique(k)) <= {0.0, 1.0}, 'mask %r' % ((cx, cy, r),))

# 3. annulus kernels, incl. ties (inner == outer), non-square, unit mixes
acases = [(1, 1, 3, 1), (1, 2, 5, 2), (2, 1, 9, 4), (1, 1, 4, 4), (0.5, 0.25, 3, 0.5),
          (1, 3, 10, 2), (100, 250, '2km', '500m'), (1, 1, '30ft', '3m'),
          (np.float32(1), np.int64(2), 8, np.float32(2.5)), (1, 1, 6, 0.5), (3, 2, 13, 5)]
for cx, cy, ro, ri in acases:
    k = annulus_kernel(cx, cy, ro, ri)
    o = oracle_annulus(cx, cy, ro, ri)
    check(same(k, o), 'annulus %r' % ((cx, cy, ro, ri),))
    check(k.min() >= 0, 'annulus negative %r' % ((cx, cy, ro, ri),))
    check(k.shape == circle_kernel(cx, cy, ro).shape, 'annulus shape %r' % ((cx, cy, ro, ri),))

# inner larger than outer and invalid radii are rejected
for args in [(1, 1, 2, 5), (1, 2, 3, 9), (1, 1, 0, 1), (1, 1, 3, -1), (1, 1, 'x', 1), (1, 1, float('nan'), 1)]:
    try:
        annulus_kernel(*args)
        check(False, 'no error for annulus %r' % (args,))
    except ValueError:
        pass

if fails:
    print('FAIL')
    for f in fails:
        print('  ', f)
    sys.exit(1)
print('OK')
