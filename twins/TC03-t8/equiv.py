"""Differential test for property C03 (zonal stats / crosstab, numpy vs dask, any chunking).

Run from inside the worktree:
    cd /tmp/t4/TC03 && PYTHONPATH=/tmp/t4/TC03 /venv/bin/python /tmp/t4/out/TC03-tK/equiv.py

Two independent checks:
  1. every result table is compared with a brute-force re-computation written
     here with plain numpy boolean masks (no sorting / striding / blocks);
  2. a sha256 digest over the exact bytes (values + dtypes + column names) of
     every result is compared against the digest recorded on the unmodified
     tree (RECORDED below).  `--record` prints the digest instead.
Exit status 0 iff everything is identical.
"""
import hashlib
import sys
import warnings

import dask
import dask.array as da
import numpy as np
import pandas as pd
import xarray as xr

import xrspatial
from xrspatial import zonal
from xrspatial.zonal import crosstab, stats

warnings.filterwarnings("ignore")

RECORDED = "d283f30b1a06f53a270e8e0f8e8c1b22b2f76b6a16b804d458bbe2d0ab50dfb6"

NODATA = 3
ALL_STATS = ['mean', 'max', 'min', 'sum', 'std', 'var', 'count']

failures = []
exceptions = []
hasher = hashlib.sha256()
ncases = 0


def feed(tag, obj):
    """add an exact, dtype-aware serialisation of obj to the digest"""
    hasher.update(tag.encode())
    if isinstance(obj, pd.DataFrame):
        hasher.update(repr([str(c) for c in obj.columns]).encode())
        hasher.update(repr(list(obj.index)).encode())
        for c in obj.columns:
            col = obj[c].to_numpy()
            hasher.update(str(col.dtype).encode())
            hasher.update(np.ascontiguousarray(col).tobytes())
    elif isinstance(obj, np.ndarray):
        hasher.update(str(obj.dtype).encode() + repr(obj.shape).encode())
        hasher.update(np.ascontiguousarray(obj).tobytes())
    else:
        hasher.update(repr(obj).encode())


# --------------------------------------------------------------------------
# inputs
# --------------------------------------------------------------------------
def make_rasters(seed, shape, zdtype, vdtype):
    rng = np.random.RandomState(seed)
    zones = rng.choice([0, 1, 2, 5, 7, 11], size=shape).astype(zdtype)
    # make zone 11 live in one corner only (absent from most blocks) and
    # zone 7 spread everywhere
    zones[zones == 11] = 7
    zones[-1, -1] = 11
    values = rng.randint(0, 6, size=shape).astype(vdtype)
    if np.issubdtype(np.dtype(zdtype), np.floating):
        zones.ravel()[rng.choice(zones.size, max(1, zones.size // 9), replace=False)] = np.nan
        zones.ravel()[0] = np.inf
        if zones.size > 3:
            zones.ravel()[3] = -np.inf
    if np.issubdtype(np.dtype(vdtype), np.floating):
        values = values + (rng.rand(*shape) > 0.5).astype(vdtype) * np.asarray(0.25, vdtype)
        values.ravel()[rng.choice(values.size, max(1, values.size // 7), replace=False)] = np.nan
        if values.size > 5:
            values.ravel()[5] = np.inf
    # one zone whose cells are all nodata / invalid
    values[zones == 5] = NODATA
    return zones, values


CHUNKINGS = {
    # (zones chunks, values chunks): equal, split in many blocks, different
    # chunkings for zones and values, irregular chunks
    (7, 9): [((7, 9), (7, 9)), ((3, 4), (3, 4)), ((4, 9), (7, 3)),
             (((1, 2, 4), (5, 4)), ((3, 3, 1), (2, 7)))],
    (5, 13): [((2, 13), (5, 5)), ((5, 4), (5, 4))],
    (1, 6): [((1, 2), (1, 6)), ((1, 4), (1, 1))],
}
DTYPES = [(np.int32, np.float64), (np.float64, np.float32), (np.int64, np.int32)]
ZONE_IDS = [None, [7, 1], [11], [0, 5, 11, 99], [2, 7, 1, 0]]
STAT_SUBSETS = [ALL_STATS, ['count'], ['min', 'max'], ['mean'], ['std', 'sum'], ['var', 'count', 'min']]


# --------------------------------------------------------------------------
# brute force references
# --------------------------------------------------------------------------
def brute_stats(zones, values, zone_ids, stat_names):
    uz = np.unique(zones[np.isfinite(zones)])
    if zone_ids is not None:
        uz = np.array([z for z in uz if z in zone_ids])
    rows = []
    for z in uz:
        v = values[zones == z].astype(np.float64)
        v = v[np.isfinite(v) & (v != NODATA)]
        row = {'zone': z}
        for s in stat_names:
            if v.size == 0:
                row[s] = np.nan
            elif s == 'count':
                row[s] = v.size
            elif s == 'sum':
                row[s] = v.sum()
            elif s == 'mean':
                row[s] = v.sum() / v.size
            elif s == 'min':
                row[s] = v.min()
            elif s == 'max':
                row[s] = v.max()
            elif s == 'var':
                row[s] = ((v - v.mean()) ** 2).sum() / v.size
            elif s == 'std':
                row[s] = np.sqrt(((v - v.mean()) ** 2).sum() / v.size)
        rows.append(row)
    return pd.DataFrame(rows, columns=['zone'] + list(stat_names))


def brute_crosstab_2d(zones, values, zone_ids, cat_ids, agg):
    uz = np.unique(zones[np.isfinite(zones)])
    if zone_ids is not None:
        uz = np.array([z for z in uz if z in zone_ids])
    valid = np.isfinite(values) & (values != NODATA)
    ucats = np.unique(values[valid])
    cats = list(ucats) if cat_ids is None else [c for c in cat_ids if c in ucats]
    rows = []
    for z in uz:
        m = (zones == z) & valid
        total = m.sum()
        row = {'zone': z}
        for c in cats:
            n = (m & (values == c)).sum()
            if agg == 'count':
                row[c] = n
            else:
                row[c] = np.nan if total == 0 else n / total * 100
        rows.append(row)
    return pd.DataFrame(rows, columns=['zone'] + cats)


def same_table(got, want, exact_cols=('zone', 'count', 'min', 'max'), exact_all=False):
    if list(got.columns) != list(want.columns) or len(got) != len(want):
        return False
    for c in got.columns:
        g = np.asarray(got[c].to_numpy(), dtype=np.float64)
        w = np.asarray(want[c].to_numpy(), dtype=np.float64)
        if exact_all or c in exact_cols:
            if not np.array_equal(g, w, equal_nan=True):
                return False
        elif not np.allclose(g, w, rtol=1e-5, atol=1e-6, equal_nan=True):
            return False
    return True


def run(tag, fn):
    """run fn, return result or ('EXC', type name); exceptions are part of the behaviour"""
    try:
        return fn()
    except Exception as e:  # noqa
        return ('EXC', type(e).__name__)


def check(tag, got, want, **kw):
    global ncases
    ncases += 1
    feed(tag, got if not isinstance(got, tuple) else repr(got))
    if isinstance(got, tuple):
        exceptions.append((tag, got[1]))
        # an exception on this input: must be the same on both trees (digest),
        # nothing to compare with brute force
        return
    if want is not None and not same_table(got.reset_index(drop=True), want, **kw):
        failures.append(tag)
        print("MISMATCH vs brute force:", tag)
        print(got)
        print(want)


def main():
    assert xrspatial.__file__.startswith('/tmp/t4/TC03/'), xrspatial.__file__
    seed = 0
    for shape, chunkings in CHUNKINGS.items():
        for zdtype, vdtype in DTYPES:
            seed += 1
            zones, values = make_rasters(seed, shape, zdtype, vdtype)
            zx, vx = xr.DataArray(zones, dims=['y', 'x']), xr.DataArray(values, dims=['y', 'x'])
            k = 0
            for zone_ids in ZONE_IDS:
                for stat_names in STAT_SUBSETS:
                    k += 1
                    if (k + seed) % 4:      # thin out the product
                        continue
                    base = f"stats|{shape}|{np.dtype(zdtype)}|{np.dtype(vdtype)}|{zone_ids}|{stat_names}"
                    want = brute_stats(zones, values, zone_ids, stat_names)
                    got = run(base, lambda: stats(zx, vx, zone_ids=zone_ids, stats_funcs=list(stat_names),
                                                  nodata_values=NODATA))
                    check(base + "|numpy", got, want)
                    for ci, (zc, vc) in enumerate(chunkings):
                        if (ci + k + seed) % len(chunkings):
                            continue    # one chunking per (raster, zone_ids, stats) combination
                        sched = 'threads' if (ci + k) % 4 == 0 else 'synchronous'
                        zd = xr.DataArray(da.from_array(zones, chunks=zc), dims=['y', 'x'])
                        vd = xr.DataArray(da.from_array(values, chunks=vc), dims=['y', 'x'])

                        def f():
                            with dask.config.set(scheduler=sched, num_workers=3):
                                return stats(zd, vd, zone_ids=zone_ids, stats_funcs=list(stat_names),
                                             nodata_values=NODATA).compute()
                        check(base + f"|dask{zc}{vc}{sched}", run(base, f), want if len(want) else None)
            # numpy raster output + custom stats funcs
            got = run('xr', lambda: stats(zx, vx, zone_ids=[7, 0, 11], stats_funcs=['mean', 'count'],
                                          nodata_values=NODATA, return_type='xarray.DataArray').values)
            feed(f"stats-xr|{shape}|{seed}", got if not isinstance(got, tuple) else repr(got))
            got = run('custom', lambda: stats(zx, vx, stats_funcs={'rng': lambda z: z.max() - z.min(),
                                                                  'n': lambda z: z.size}))
            feed(f"stats-custom|{shape}|{seed}", got if not isinstance(got, tuple) else repr(got))

            # ---- crosstab 2D
            k = 0
            for zone_ids in [None, [7, 1], [0, 5, 11, 99], [11]]:
                for cat_ids in [None, [1, 4], [0, 2, 77], [5]]:
                    for agg in ['count', 'percentage']:
                        k += 1
                        if (k + seed) % 3:
                            continue
                        base = f"crosstab|{shape}|{np.dtype(zdtype)}|{np.dtype(vdtype)}|{zone_ids}|{cat_ids}|{agg}"
                        want = brute_crosstab_2d(zones, values, zone_ids, cat_ids, agg)
                        got = run(base, lambda: crosstab(zx, vx, zone_ids=zone_ids, cat_ids=cat_ids,
                                                         nodata_values=NODATA, agg=agg))
                        check(base + "|numpy", got, want, exact_all=(agg == 'count'))
                        for ci, (zc, vc) in enumerate(chunkings):
                            if (ci + k + seed) % len(chunkings):
                                continue
                            sched = 'threads' if (ci + k) % 4 == 0 else 'synchronous'
                            zd = xr.DataArray(da.from_array(zones, chunks=zc), dims=['y', 'x'])
                            vd = xr.DataArray(da.from_array(values, chunks=vc), dims=['y', 'x'])

                            def f():
                                with dask.config.set(scheduler=sched, num_workers=3):
                                    return crosstab(zd, vd, zone_ids=zone_ids, cat_ids=cat_ids,
                                                    nodata_values=NODATA, agg=agg).compute()
                            check(base + f"|dask{zc}{vc}{sched}", run(base, f),
                                  want if len(want) else None, exact_all=(agg == 'count'))

            # ---- crosstab 3D (layer dimension = categories)
            rng = np.random.RandomState(100 + seed)
            v3 = rng.randint(0, 5, size=(3,) + shape).astype(vdtype)
            if np.issubdtype(np.dtype(vdtype), np.floating):
                v3.ravel()[rng.choice(v3.size, v3.size // 6, replace=False)] = np.nan
            v3x = xr.DataArray(v3, dims=['band', 'y', 'x'], coords={'band': ['a', 'b', 'c']})
            for agg in ['count', 'mean', 'var']:
                for zone_ids, cat_ids in [(None, None), ([7, 1, 99], ['c', 'a'])]:
                    tag = f"crosstab3d|{shape}|{seed}|{agg}|{zone_ids}|{cat_ids}"
                    got = run(tag, lambda: crosstab(zx, v3x, zone_ids=zone_ids, cat_ids=cat_ids, layer=0,
                                                    nodata_values=NODATA, agg=agg))
                    check(tag + "|numpy", got, None)
                    if agg != 'count':
                        continue
                    np_got = got
                    for ci, (zc, vc) in enumerate(chunkings[seed % 2::2]):
                        zd = xr.DataArray(da.from_array(zones, chunks=zc), dims=['y', 'x'])
                        v3d = xr.DataArray(da.from_array(v3, chunks=(2,) + tuple(vc)), dims=['band', 'y', 'x'],
                                           coords={'band': ['a', 'b', 'c']})

                        def f():
                            with dask.config.set(scheduler='synchronous'):
                                return crosstab(zd, v3d, zone_ids=zone_ids, cat_ids=cat_ids, layer=0,
                                                nodata_values=NODATA, agg=agg).compute()
                        dg = run(tag, f)
                        check(tag + f"|dask{zc}{vc}", dg,
                              np_got if isinstance(np_got, pd.DataFrame) and len(np_got) else None,
                              exact_all=True)

    # private numba kernel used by both backends, called directly with odd inputs
    for arr, ids in [(np.array([], dtype=np.int64), np.array([1, 2])),
                     (np.array([1, 1, 2, 4, 4, 4]), np.array([0, 1, 2, 3, 4, 9])),
                     (np.array([0.5, 0.5, 2.0]), np.array([0.5, 1.0, 2.0])),
                     (np.array([3, 3, 3], dtype=np.int32), np.array([3], dtype=np.int32))]:
        s = zonal._strides
        try:
            out = s(arr, ids)
        except TypeError:
            out = None
        if out is None or out.shape != ids.shape:
            # (a refactoring may have re-ordered the private parameters)
            out = s(ids, arr)
        feed("strides", out)

    digest = hasher.hexdigest()
    if '--record' in sys.argv:
        print(digest, ncases, len(failures))
        for e in exceptions:
            print(e)
        return 0
    print("cases:", ncases, "brute-force mismatches:", len(failures),
          "cases raising (same on both trees, in digest):", len(exceptions))
    print("digest:", digest)
    if failures:
        return 1
    if digest != RECORDED:
        print("DIGEST DIFFERS from the one recorded on the unmodified tree:", RECORDED)
        return 2
    print("OK: identical")
    return 0


if __name__ == '__main__':
    sys.exit(main())
