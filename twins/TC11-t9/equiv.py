"""Differential test for the focal.py iteration rewrite (t9).

focal.mean (several `excludes` / `passes`), focal.apply (several kernel shapes
and reducer functions) and focal_stats are run on numpy and dask rasters of
several dtypes, with NaNs and odd shapes, interleaved and repeated.  Results are
compared bit-exactly (sha256 over dtype + shape + bytes) against digests
recorded from the unmodified tree, and additionally against independent
pure-python/numpy reference implementations.

usage: equiv.py            -> compare, exit 0 if identical
       equiv.py --record   -> print the digest table
"""
import hashlib
import sys
import warnings

import dask.array as da
import numpy as np
import xarray as xr

import xrspatial
from xrspatial import focal
from xrspatial.convolution import annulus_kernel, circle_kernel
from xrspatial.utils import ngjit

warnings.simplefilter('ignore')


def digest(arr, extra=b''):
    arr = np.ascontiguousarray(np.asarray(arr))
    h = hashlib.sha256()
    h.update(str(arr.dtype).encode())
    h.update(str(arr.shape).encode())
    h.update(arr.tobytes())
    h.update(extra)
    return h.hexdigest()[:24]


def raster(shape, dtype, seed, chunks=None, nan_frac=0.15):
    rng = np.random.RandomState(seed)
    data = rng.randint(0, 6, size=shape).astype(np.float64)
    data += (rng.rand(*shape) < 0.5) * 0.5
    if np.issubdtype(np.dtype(dtype), np.floating):
        data[rng.rand(*shape) < nan_frac] = np.nan
        data = data.astype(dtype)
    else:
        data = data.astype(dtype)
    if chunks is not None:
        data = da.from_array(data, chunks=chunks)
    return xr.DataArray(data, dims=['y', 'x'], attrs={'k': 'v'})


def values(agg):
    d = agg.data
    if isinstance(d, da.Array):
        d = d.compute()
    return d


# ---------------------------------------------------------------- references
def ref_mean(data, excludes, passes):
    out = np.asarray(data).astype(float)
    for _ in range(passes):
        src = out
        out = np.zeros_like(src)
        rows, cols = src.shape
        for y in range(rows):
            for x in range(cols):
                v = src[y, x]
                if any((v == e) or (np.isnan(v) and np.isnan(e)) for e in excludes):
                    out[y, x] = v
                    continue
                win = src[max(y - 1, 0):y + 2, max(x - 1, 0):x + 2]
                out[y, x] = np.nan if np.all(np.isnan(win)) else np.nanmean(win)
    return out


def ref_apply(data, kernel, red):
    data = np.asarray(data).astype(np.float32)
    rows, cols = data.shape
    kr, kc = kernel.shape
    hr, hc = kr // 2, kc // 2
    padded = np.full((rows + 2 * hr, cols + 2 * hc), np.nan, dtype=np.float32)
    padded[hr:hr + rows, hc:hc + cols] = data
    out = np.zeros_like(data)
    for y in range(rows):
        for x in range(cols):
            win = padded[y:y + kr, x:x + kc].copy()
            win[kernel != 1] = np.nan
            out[y, x] = red(win)
    return out


@ngjit
def _wsum(kernel_data):
    return np.nansum(kernel_data * 0.5) + 1.0


@ngjit
def _count(kernel_data):
    return np.sum(np.isfinite(kernel_data))


def _np_nansum_half(w):
    return np.nansum(w * np.float32(0.5)) + 1.0


KERNELS = {
    'c1': circle_kernel(1, 1, 1),
    'c2': circle_kernel(1, 1, 2),
    'row': np.array([[1., 1., 0.]]),
    'col': np.array([[1.], [0.], [1.], [1.], [1.]]),
    'one': np.array([[1.]]),
    'int': np.array([[1, 0, 2], [0, 1, 0], [1, 1, 1]]),
    'ann': annulus_kernel(1, 1, 3, 1),
    'wide': np.ones((3, 7)),
}

SHAPES = [(1, 1), (1, 6), (7, 1), (5, 8), (11, 9)]
DTYPES = [np.float32, np.float64, np.int32, np.uint8]


def collect():
    table = {}
    n = 0
    # focal.mean ----------------------------------------------------------
    mean_cases = []
    for shape in SHAPES:
        for dtype in DTYPES:
            mean_cases.append((shape, dtype, None, [np.nan], 1))
    for excludes, passes in [([np.nan], 2), ([], 1), ([0.0], 1), ([np.nan, 0.0, 2.5], 3),
                             ([3.0, 4.0], 1), ([np.nan], 0)]:
        mean_cases.append(((9, 10), np.float64, None, excludes, passes))
        mean_cases.append(((9, 10), np.float32, (4, 5), excludes, passes))
        mean_cases.append(((9, 10), np.int32, (9, 3), excludes, passes))
    for i, (shape, dtype, chunks, excludes, passes) in enumerate(mean_cases):
        r = raster(shape, dtype, seed=i % 5, chunks=chunks)
        try:
            out = focal.mean(r, passes=passes, excludes=excludes)
            v = values(out)
            assert out.name == 'mean' and out.attrs == {'k': 'v'}
            ref = ref_mean(values(r), excludes, passes)
            # summation order inside nanmean may differ by an ulp between numba
            # and numpy; the digests below are the bit-exact comparison
            assert v.dtype == ref.dtype and np.allclose(
                v, ref, rtol=1e-12, atol=0, equal_nan=True), ('mean differs from reference', i)
            table['mean-%d' % i] = digest(v)
        except AssertionError:
            raise
        except Exception as e:  # e.g. numba cannot type an empty `excludes`
            table['mean-%d' % i] = 'raises ' + type(e).__name__
        n += 1

    # focal.apply ---------------------------------------------------------
    funcs = {'mean': (focal._calc_mean, np.nanmean), 'sum': (focal._calc_sum, np.nansum),
             'min': (focal._calc_min, np.nanmin), 'max': (focal._calc_max, np.nanmax),
             'wsum': (_wsum, _np_nansum_half),
             'count': (_count, lambda w: np.sum(np.isfinite(w)))}
    apply_cases = []
    k = 0
    for kname in KERNELS:
        for shape in SHAPES:
            dtype = DTYPES[k % 4]
            fname = list(funcs)[k % len(funcs)]
            apply_cases.append((kname, shape, dtype, None, fname))
            k += 1
    for kname in ['c2', 'row', 'col', 'int', 'wide']:
        for chunks in [(4, 5), (11, 9), (3, 9), (11, 2)]:
            fname = list(funcs)[k % len(funcs)]
            apply_cases.append((kname, (11, 9), DTYPES[k % 4], chunks, fname))
            k += 1
    for i, (kname, shape, dtype, chunks, fname) in enumerate(apply_cases):
        r = raster(shape, dtype, seed=i % 6, chunks=chunks)
        jfunc, npfunc = funcs[fname]
        out = focal.apply(r, KERNELS[kname], jfunc)
        v = values(out)
        assert out.name == 'focal_apply' and out.attrs == {'k': 'v'}
        ref = ref_apply(values(r), KERNELS[kname], npfunc)
        assert v.dtype == ref.dtype, (v.dtype, ref.dtype)
        if fname in ('min', 'max', 'count'):
            assert np.array_equal(v, ref, equal_nan=True), ('apply differs from reference', i)
        else:
            assert np.allclose(v, ref, rtol=1e-5, atol=1e-6, equal_nan=True), \
                ('apply differs from reference', i)
        table['apply-%d' % i] = digest(v)

    # focal_stats ---------------------------------------------------------
    stats_cases = [('c1', (5, 8), np.float64, None), ('int', (11, 9), np.int32, None),
                   ('row', (1, 6), np.float32, None), ('c2', (11, 9), np.float32, (4, 5)),
                   ('col', (11, 9), np.float64, (11, 3))]
    for i, (kname, shape, dtype, chunks) in enumerate(stats_cases):
        r = raster(shape, dtype, seed=i, chunks=chunks)
        out = focal.focal_stats(r, KERNELS[kname])
        table['stats-%d' % i] = digest(values(out), repr(list(out['stats'].values)).encode())
        out2 = focal.focal_stats(r, KERNELS[kname], stats_funcs=['max', 'sum'])
        table['stats2-%d' % i] = digest(values(out2))

    # repeat a subset in reverse order
    for i in reversed(range(0, len(apply_cases), 4)):
        kname, shape, dtype, chunks, fname = apply_cases[i]
        r = raster(shape, dtype, seed=i % 6, chunks=chunks)
        assert digest(values(focal.apply(r, KERNELS[kname], funcs[fname][0]))) == \
            table['apply-%d' % i], ('not repeatable', i)
    for i in reversed(range(0, len(mean_cases), 3)):
        shape, dtype, chunks, excludes, passes = mean_cases[i]
        if table['mean-%d' % i].startswith('raises'):
            continue
        r = raster(shape, dtype, seed=i % 5, chunks=chunks)
        assert digest(values(focal.mean(r, passes=passes, excludes=excludes))) == \
            table['mean-%d' % i], ('not repeatable', i)
    return table


# recorded from the unmodified tree with --record
EXPECTED = {
    'mean-0': '9f058e420a4bd1edb91a3adf',
    'mean-1': '447dee49bbf7dbc4b062d5d8',
    'mean-2': 'e56288798f789d09d7398145',
    'mean-3': '9c56fe16681b566e3be673b7',
    'mean-4': '15c8db4f05a84bec9f259c38',
    'mean-5': 'fa7b2cbffb5c5a5fd6499ad1',
    'mean-6': '524e784d8e350c5f947bfbe8',
    'mean-7': '2d932d329d7bc304cb3d491f',
    'mean-8': '15eda7ad2e530bc3097cc51e',
    'mean-9': '5092f4d43bead287f436c14b',
    'mean-10': '5a70c51bee8a5660c0780917',
    'mean-11': '58b44b3a8527b4067dfabd62',
    'mean-12': 'afd0833a71a32c9bb67c2d3e',
    'mean-13': 'ec4f8d4fd3b2d94b4e071d86',
    'mean-14': 'd29227e3c931e73e69a9deb6',
    'mean-15': 'bb0225cab40bc1e587122b31',
    'mean-16': 'fa3c712245baaa260b5f5cc1',
    'mean-17': '3099a845514f5e4166542d0c',
    'mean-18': 'dc62f884f785b26966b4273b',
    'mean-19': '5cbd27699ad6b30dd2fb1c59',
    'mean-20': 'cdfdd31b3c72ae6beb2f8792',
    'mean-21': '22e96a4ac0f1c4d8d4166353',
    'mean-22': 'be04a69159abe2415dd6d37b',
    'mean-23': 'raises TypingError',
    'mean-24': 'raises TypingError',
    'mean-25': 'raises TypingError',
    'mean-26': 'fcb232e27eadd7f759d9295d',
    'mean-27': '93ac84dc9156f55b468cb639',
    'mean-28': 'ddcadde4b29dee66745f4227',
    'mean-29': 'a991a260a2446d59c132417e',
    'mean-30': '259815be951f9b8afa15b3a1',
    'mean-31': '0ae352cba104fd02fb2aee8a',
    'mean-32': '9fde77e6df45bb3ccbec050f',
    'mean-33': '5651b3d47846c4cf3c6ee69e',
    'mean-34': '45d716e1afe15fe46065af19',
    'mean-35': '0d0e7ad1333a8bff3e83ce1f',
    'mean-36': '6376df6a22148af6b09bc13e',
    'mean-37': 'f561930667f43df2590ba24b',
    'apply-0': 'cf7823b3318a381d21f26145',
    'apply-1': '54812ba5d5f5134f75c8f2d4',
    'apply-2': 'ff32460429b738bc141c428a',
    'apply-3': '2039662b0d18b8f9f06a6e5d',
    'apply-4': '9f0a9d1e77fd417c8a16eadf',
    'apply-5': '864e69e570f0d91cdbaf1495',
    'apply-6': '46bc061b0177b6acb76c3f00',
    'apply-7': '85c679a71f04dbbcca9c806c',
    'apply-8': '080100b16f8362b797e93c53',
    'apply-9': '29684ea94a9e1c57105f1246',
    'apply-10': 'c076640afeb7e425c465134d',
    'apply-11': '93e8e7565e763dcae15e37f8',
    'apply-12': 'a8d7cbb25ab1792e551ffb25',
    'apply-13': '09dfc34a727eeb0a8e2534e6',
    'apply-14': '90ae8a4856f9ea729ddb0a30',
    'apply-15': 'c076640afeb7e425c465134d',
    'apply-16': 'd5ca7436886d28f6c560cb2f',
    'apply-17': 'd4278968579e3278ff984065',
    'apply-18': '4dbad9e43925a9e6d59b9514',
    'apply-19': 'ffbc67ec4cb0edb56db44f01',
    'apply-20': '5f88dacaf7af275b4839b3c6',
    'apply-21': 'b6b371c7bcfdf4967311f9b6',
    'apply-22': '00a3ff8e39ec537b91051af3',
    'apply-23': 'eb5a246f868a13adb6d34a02',
    'apply-24': '5968865f1cd2dbfd6f9b6753',
    'apply-25': 'a16a7f1fd4edf631e7c96b60',
    'apply-26': '541005d841b43885c668802f',
    'apply-27': '9b8b0d5b92d9121ceecbe880',
    'apply-28': 'cad060f7ea58ee0336486743',
    'apply-29': '69973a7092f6446483d8e521',
    'apply-30': 'd9f317de3544663ea1c42666',
    'apply-31': 'edc541dab5415ae985031252',
    'apply-32': '63ed5ffd84114c8c53ae1f39',
    'apply-33': '274ca606ac98233586fbe4f3',
    'apply-34': 'cc1101623917617b8200134f',
    'apply-35': '864e69e570f0d91cdbaf1495',
    'apply-36': '88f08ab6e575aa0705b996b6',
    'apply-37': '18b7963dae1b9cc6a4eaa784',
    'apply-38': '5c7734b6f6e899062084add8',
    'apply-39': '42b1d26861385fcb361341d4',
    'apply-40': '876d8cb5be731eec1583992e',
    'apply-41': '67bf8b5b92b8e55968557e2e',
    'apply-42': '7a285331a2d39054db2c4fcc',
    'apply-43': 'c2c33c422d1d009a7d5dc2a3',
    'apply-44': 'a30918f8dc0f0f5aefdc8fd7',
    'apply-45': '74d87ef95cc3fac7b7a3303d',
    'apply-46': 'e0adb4f17816850461731dde',
    'apply-47': '3246c09835e88e6b57db800e',
    'apply-48': '6d17fe8c0349e17bc47b10ff',
    'apply-49': 'f623d975c93c2fe4764fea9f',
    'apply-50': '4fb2125b94c72d4d5c8cf007',
    'apply-51': 'dde57fc2b19f069a0700d8c8',
    'apply-52': '7ce34d498ee1c69e85bdaf26',
    'apply-53': '69973a7092f6446483d8e521',
    'apply-54': 'b23bd302f0424233383f6f82',
    'apply-55': 'cd94a057f53a87c1ec3f3baf',
    'apply-56': '095bc9e1f54e8f87749a063d',
    'apply-57': '21fbb10c43e44a94a13709c3',
    'apply-58': '94bd01e7d570a1ce935b8e03',
    'apply-59': '2dfc44808c43cab61ec0177f',
    'stats-0': '94af0ef75d152d09a54d4513',
    'stats2-0': 'fccff2d5d982b781a746e4e8',
    'stats-1': '148d5d0e4aab521dc80528a9',
    'stats2-1': '5c9770485e46ad205b507ae5',
    'stats-2': '71f438ba98b41c2ee266a1dd',
    'stats2-2': 'eb8605652d0503f47cc66a10',
    'stats-3': '018fd546553aa359234c19f0',
    'stats2-3': '02b90cdce78fc62cffd6718c',
    'stats-4': 'ea13bcb7e88ba645150c1c9f',
    'stats2-4': '854fb3aa7376198037112cb3',
}


def main():
    assert '/tmp/t4/TC11/' in xrspatial.__file__ or '--anywhere' in sys.argv, xrspatial.__file__
    table = collect()
    if '--record' in sys.argv:
        print('EXPECTED = {')
        for k, v in table.items():
            print('    %r: %r,' % (k, v))
        print('}')
        return 0
    bad = [k for k in table if EXPECTED.get(k) != table[k]]
    missing = [k for k in EXPECTED if k not in table]
    if bad or missing:
        print('MISMATCH', bad[:20], missing[:20])
        return 1
    print('OK: %d results identical' % len(table))
    return 0


if __name__ == '__main__':
    sys.exit(main())
