"""Differential test for refactoring TC01-t15 (dask glue of slope / curvature / aspect:
`data.map_overlap(partial(kernel, ...))` respelt as `da.map_overlap(kernel, data, ..., **kw)`,
a closure, and the bare kernel).

Run from inside the worktree:
    cd <worktree> && PYTHONPATH=<worktree> python equiv.py            # check
    cd <worktree> && PYTHONPATH=<worktree> python equiv.py --record   # print digests
Exit status 0 iff every result is identical (values, dtype, shape, lazy dtype, chunks,
metadata) to what was recorded on the unmodified tree, dask == numpy cell for cell, and the
independent numpy reference implementations below agree.
"""
import hashlib
import sys
import warnings

import dask
import dask.array as da
import numpy as np
import xarray as xr

import xrspatial
from xrspatial import aspect, curvature, slope

warnings.simplefilter('ignore')
FAILS = []
RESULTS = {}


def check(cond, msg):
    if not cond:
        FAILS.append(msg)
        print('FAIL:', msg)


def digest(a):
    a = np.asarray(a)
    if a.dtype.kind == 'f':
        a = np.where(np.isnan(a), np.array(np.nan, dtype=a.dtype), a).astype(a.dtype)
    h = hashlib.sha256()
    h.update(str(a.dtype).encode())
    h.update(str(a.shape).encode())
    h.update(np.ascontiguousarray(a).tobytes())
    return h.hexdigest()[:16]


def raster(data, chunks=None, res=None, coords=True):
    if chunks is not None:
        data = da.from_array(data, chunks=chunks)
    h, w = data.shape
    kw = {}
    if coords:
        kw['coords'] = {'y': np.arange(h)[::-1] * 2.5 + 10, 'x': np.arange(w) * 0.5 - 3}
    attrs = {'crs': 'none'}
    if res is not None:
        attrs['res'] = res
    return xr.DataArray(data, dims=['y', 'x'], attrs=attrs, name='elev', **kw)


def make(shape, dtype, seed):
    r = np.random.RandomState(seed)
    a = (r.rand(*shape) * 200 - 40)
    if np.dtype(dtype).kind == 'u':
        a = np.abs(a)
    a = a.astype(dtype)
    if a.size >= 9:
        a[-2:, -2:] = a[-1, -1]          # a flat patch (aspect == -1, slope == 0)
    if np.dtype(dtype).kind == 'f' and a.size > 6:
        flat = a.reshape(-1)
        flat[r.randint(0, a.size, size=max(1, a.size // 10))] = np.nan
        flat[r.randint(0, a.size)] = np.inf
        flat[r.randint(0, a.size)] = -np.inf
    return a


SHAPES = [(1, 1), (1, 7), (2, 2), (3, 3), (4, 1), (5, 8), (9, 6)]
DTYPES = ['float64', 'float32', 'int32', 'uint8', 'int64']
# cell sizes: from coords (x 0.5, y 2.5), unit, non-square, scalar, numpy scalar pair
RES = [None, (1, 1), (3.0, 0.5), 30, (np.float64(2.0), np.float64(7.0))]
SCHEDULERS = [dict(scheduler='synchronous'), dict(scheduler='threads', num_workers=1),
              dict(scheduler='threads', num_workers=4)]
FUNCS = {'slope': slope, 'aspect': aspect, 'curvature': curvature}


def chunkings(shape):
    h, w = shape
    out = [(h, w), (1, 1), (2, 3), (max(1, h - 1), max(1, w // 2))]
    if h >= 5 and w >= 6:
        out.append(((1, 2, h - 3), (3, 1, 1, w - 5)))
        out.append(((h - 1, 1), (1, w - 1)))
    return out


def same(a, b):
    return (a.dtype == b.dtype and a.shape == b.shape and np.array_equal(a, b, equal_nan=True))


# ------------------------------------------------------------------ independent references
def _neigh(d):
    p = np.full((d.shape[0] + 2, d.shape[1] + 2), np.nan, dtype=np.float32)
    p[1:-1, 1:-1] = d
    H, W = d.shape
    g = lambda dy, dx: p[1 + dy:1 + dy + H, 1 + dx:1 + dx + W]  # noqa: E731
    return g


def _border_nan(out):
    out[0, :] = np.nan
    out[-1, :] = np.nan
    out[:, 0] = np.nan
    out[:, -1] = np.nan
    return out


def ref_slope(data, cx, cy):
    d = data.astype(np.float32)
    g = _neigh(d)
    with np.errstate(all='ignore'):
        a, b, c = g(1, -1), g(1, 0), g(1, 1)
        dd, f = g(0, -1), g(0, 1)
        gg, h, i = g(-1, -1), g(-1, 0), g(-1, 1)
        dzdx = ((c + 2 * f + i) - (a + 2 * dd + gg)).astype(np.float64) / (8 * cx)
        dzdy = ((gg + 2 * h + i) - (a + 2 * b + c)).astype(np.float64) / (8 * cy)
        out = (np.arctan(np.sqrt(dzdx * dzdx + dzdy * dzdy)) * 57.29578).astype(np.float32)
    return _border_nan(out)


def ref_curvature(data, cell):
    d = data.astype(np.float32)
    g = _neigh(d)
    with np.errstate(all='ignore'):
        dd = (g(1, 0) + g(-1, 0)) / 2 - d
        e = (g(0, 1) + g(0, -1)) / 2 - d
        out = (-2 * (dd + e).astype(np.float64) * 100 / (cell * cell)).astype(np.float32)
    return _border_nan(out)


def ref_aspect(data):
    d = data.astype(np.float32)
    g = _neigh(d)
    with np.errstate(all='ignore'):
        a, b, c = g(-1, -1), g(-1, 0), g(-1, 1)
        dd, f = g(0, -1), g(0, 1)
        gg, h, i = g(1, -1), g(1, 0), g(1, 1)
        dzdx = ((c + 2 * f + i) - (a + 2 * dd + gg)) / 8
        dzdy = ((gg + 2 * h + i) - (a + 2 * b + c)) / 8
        asp = np.arctan2(dzdy, -dzdx).astype(np.float64) * (180 / np.pi)
        out = np.where(asp < 0, 90.0 - asp, np.where(asp > 90.0, 360.0 - asp + 90.0, 90.0 - asp))
        out = np.where((dzdx == 0) & (dzdy == 0), -1.0, out).astype(np.float32)
    return _border_nan(out)


def cellsizes(res):
    if res is None:
        return 0.5, 2.5
    if isinstance(res, tuple):
        return float(res[0]), float(res[1])
    return float(res), float(res)


# ------------------------------------------------------------------ cases
for si_, shape in enumerate(SHAPES):
    for dtype in DTYPES:
        data = make(shape, dtype, 300 + si_)
        for ri, res in enumerate(RES):
            if ri > 1 and dtype not in ('float64', 'int32'):
                continue
            coords = not (res is not None and ri in (1, 3))   # some rasters without coords
            if res is None and (shape[0] < 2 or shape[1] < 2):
                continue   # resolution from coords needs 2 cells
            for fname, fn in FUNCS.items():
                if fname == 'aspect' and ri > 1:
                    continue   # aspect ignores the cell size
                tag = '%s/%s/%s/res%d' % (fname, shape, dtype, ri)
                try:
                    ref = fn(raster(data, None, res, coords))
                except Exception as e:
                    RESULTS[tag] = 'EXC %s' % type(e).__name__
                    ref = None
                if ref is not None:
                    ref_v = ref.values
                    RESULTS[tag] = '%s %s %s' % (digest(ref_v), ref.name, sorted(ref.attrs))
                    check(isinstance(ref.data, np.ndarray), tag + ' numpy stays numpy')
                    cx, cy = cellsizes(res)
                    if min(shape) >= 1:
                        if fname == 'slope':
                            exp = ref_slope(data, cx, cy)
                        elif fname == 'curvature':
                            exp = ref_curvature(data, (cx + cy) / 2)
                        else:
                            exp = ref_aspect(data)
                        ok = (ref_v.dtype == np.float32 and ref_v.shape == exp.shape and
                              np.allclose(ref_v, exp, rtol=2e-4, atol=2e-3, equal_nan=True))
                        check(ok, tag + ' vs independent reference')
                for ci, ch in enumerate(chunkings(shape)):
                    ctag = '%s/c%d' % (tag, ci)
                    try:
                        res_d = fn(raster(data, ch, res, coords), name='out')
                    except Exception as e:
                        RESULTS[ctag] = 'EXC %s' % type(e).__name__
                        continue
                    check(isinstance(res_d.data, da.Array), ctag + ' dask stays dask')
                    RESULTS[ctag] = '%s %s %s' % (res_d.data.dtype, res_d.data.chunks, res_d.name)
                    for si, sched in enumerate(SCHEDULERS):
                        if si > 0 and ci not in (1, 2, 4):
                            continue
                        try:
                            with dask.config.set(**sched):
                                got = res_d.compute()
                        except Exception as e:
                            RESULTS['%s/s%d' % (ctag, si)] = 'EXC %s' % type(e).__name__
                            continue
                        RESULTS['%s/s%d' % (ctag, si)] = digest(got.values)
                        if ref is not None:
                            check(same(got.values, ref_v),
                                  '%s sched %d: dask == numpy' % (ctag, si))
                            check(got.dims == ref.dims and got.attrs == ref.attrs and
                                  got.name == 'out' and
                                  all(np.array_equal(got[c], ref[c]) for c in ref.coords),
                                  ctag + ' metadata')

# the input raster is not modified and keeps its dtype / chunks
src = make((5, 8), 'int32', 1)
r_in = raster(src.copy(), (2, 3), (3.0, 0.5))
before = (r_in.data.name, r_in.dtype, r_in.chunks)
for fn in FUNCS.values():
    fn(r_in).compute()
check((r_in.data.name, r_in.dtype, r_in.chunks) == before and np.array_equal(r_in.values, src),
      'input raster untouched')


def grouped(results):
    """Collapse the per-case results into one digest per '<function>/<shape>' group."""
    groups = {}
    for k in sorted(results):
        g = '/'.join(k.split('/')[:2])
        groups.setdefault(g, hashlib.sha256()).update(('%s=%s;' % (k, results[k])).encode())
    return {g: '%d:%s' % (sum(1 for k in results if '/'.join(k.split('/')[:2]) == g),
                          h.hexdigest()[:20]) for g, h in groups.items()}


GROUPS = grouped(RESULTS)

# --- recorded on the unmodified tree (number of cases : digest of all case results) ---
EXPECTED = {
    'aspect/(1, 1)': '65:8d5b44236c9cc05bd9e5',
    'aspect/(1, 7)': '65:3cd49acec9f7786513ef',
    'aspect/(2, 2)': '130:043b447129dde97195b9',
    'aspect/(3, 3)': '130:e2421f1b6bd58c3edf5a',
    'aspect/(4, 1)': '65:2eb83197ecfa3c88e69e',
    'aspect/(5, 8)': '190:4a265012bc633ac59da7',
    'aspect/(9, 6)': '190:d5aeb2cd510cc618b012',
    'curvature/(1, 1)': '143:abfab796e45002460641',
    'curvature/(1, 7)': '143:3629fa2bdbe46e99b110',
    'curvature/(2, 2)': '208:f68b0dbb3c6bb5751e19',
    'curvature/(3, 3)': '208:14cb25fbe7942db63db7',
    'curvature/(4, 1)': '143:b27731d90ea4cfff7b54',
    'curvature/(5, 8)': '304:544b1915b42703559d11',
    'curvature/(9, 6)': '304:3e8607024c3f137a64b2',
    'slope/(1, 1)': '143:9b458ddd0494b3a96627',
    'slope/(1, 7)': '143:fcffdb9a76d40d7db86a',
    'slope/(2, 2)': '208:739b393467fd863f7c36',
    'slope/(3, 3)': '208:d5ea8e0ea93d11af72ba',
    'slope/(4, 1)': '143:5b93ae72051cd20eeaf4',
    'slope/(5, 8)': '304:bce6cade8b4abc386d2d',
    'slope/(9, 6)': '304:99d34196bfac8ea19b13',
}

if '--record' in sys.argv:
    print('EXPECTED = {')
    for k in sorted(GROUPS):
        print('    %r: %r,' % (k, GROUPS[k]))
    print('}')
    if '--verbose' in sys.argv:
        for k in sorted(RESULTS):
            print('#', k, RESULTS[k])
    sys.exit(1 if FAILS else 0)

check(set(EXPECTED) == set(GROUPS), 'same set of recorded groups')
for k in sorted(GROUPS):
    check(EXPECTED.get(k) == GROUPS[k], 'recorded results differ in group: %s' % k)

print('xrspatial from', xrspatial.__file__)
print('cases: %d in %d groups, failures: %d' % (len(RESULTS), len(GROUPS), len(FAILS)))
sys.exit(1 if FAILS else 0)
