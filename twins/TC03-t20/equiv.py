"""Differential test for zonal stats / crosstab (property C03).

Runs xrspatial.zonal.stats and xrspatial.zonal.crosstab on a fixed set of
deterministic inputs (several dtypes, NaN / inf / nodata, odd shapes, many
chunkings, zone_ids / cat_ids selections, stat subsets, numpy and dask) and

  1. compares a bit-exact digest (column names, dtypes, index, raw bytes) of
     every result against the digest recorded from the unmodified tree,
  2. compares every numpy result against an independent brute-force
     computation (boolean masks per zone, no sorting / strides),
  3. compares every dask result with the numpy one (exact for ids, counts,
     min, max; to rounding for sum, mean, std, var).

Exit code 0 when everything is identical, 1 otherwise.
`python equiv.py --record` prints the digest table instead of checking it.
"""
import hashlib
import os
import sys
import warnings

import dask
import dask.array as da
import numpy as np
import pandas as pd
import xarray as xr

import xrspatial
from xrspatial.zonal import crosstab, stats

warnings.filterwarnings('ignore')

SECTIONS = ('crosstab2d', 'crosstab3d', 'stats')  # what this script exercises
ALL_STATS = ['mean', 'max', 'min', 'sum', 'std', 'var', 'count']

RECORDED = {
    'stats/f64f64/s0/z0/np': 'cacd9d6761805a9870fe2b35',
    'stats/f64f64/s0/z0/c0v0': 'ff635708a307e3484238d6b9',
    'stats/f64f64/s0/z0/c1v0': 'ce0114fd731d00587981d0cf',
    'stats/f64f64/s0/z0/c1v1': 'ce0114fd731d00587981d0cf',
    'stats/f64f64/s0/z0/c2v0': '4f528f746058baa08b76111b',
    'stats/f64f64/s0/z0/c3v0': '7a325169d4e8d9deadab1155',
    'stats/f64f64/s0/z0/c4v0': '5c0e0476c26c8dfc65f36e55',
    'stats/f64f64/s0/z1/np': '44afa7b1a8708096baf007ac',
    'stats/f64f64/s0/z1/c1v0': '6ad30b76c62f1c6803853f5c',
    'stats/f64f64/s0/z2/np': '4d7b96f1f5d9ccac3030fdc4',
    'stats/f64f64/s3/z0/np': 'e806b4f45023d45e2295473c',
    'stats/f64f64/s3/z0/c4v0': 'eb4258751c5b0887050e00b9',
    'stats/i32f32/s0/z0/np': '47c3a30332a04c9008212830',
    'stats/i32f32/s0/z0/c0v0': 'da46d0b475ac625d74b84d0e',
    'stats/i32f32/s0/z0/c1v0': '4fe2d6cdb314d00e896aa5be',
    'stats/i32f32/s0/z0/c2v0': 'ee6f01776d8eac72a125f93d',
    'stats/i32f32/s0/z0/c2v1': 'ee6f01776d8eac72a125f93d',
    'stats/i32f32/s0/z0/c3v0': '524593282fa65947f0576a6f',
    'stats/i32f32/s0/z0/c4v0': 'b8780b557bbd40bd582452ff',
    'stats/i32f32/s0/z2/np': '4cbd7b008180d13335698567',
    'stats/i32f32/s1/z0/np': '1bc7cd56eb4829e33a372c42',
    'stats/i32f32/s1/z0/c3v0': '1bc7cd56eb4829e33a372c42',
    'stats/i32f32/s1/z1/np': 'baee560cdb4bf4273897dc22',
    'stats/i32f32/s1/z1/c3v0': 'ababf652abbcc665a3499dec',
    'stats/i32f32/s1/z2/np': '86579d801d3adbe1493eb50e',
    'stats/i32f32/s4/z0/np': 'aa6d560e4169aaaa0214a91e',
    'stats/i32f32/s4/z0/c2v0': '6b465bbcbe15f5e231b922ca',
    'stats/i64i64/s0/z0/np': 'be42e46706c3f5574de1da17',
    'stats/i64i64/s0/z0/c0v0': 'fffceefa8bc05750dd0fdfee',
    'stats/i64i64/s0/z0/c1v0': 'fffceefa8bc05750dd0fdfee',
    'stats/i64i64/s0/z0/c2v0': 'fffceefa8bc05750dd0fdfee',
    'stats/i64i64/s0/z0/c3v0': 'fffceefa8bc05750dd0fdfee',
    'stats/i64i64/s0/z0/c3v1': 'fffceefa8bc05750dd0fdfee',
    'stats/i64i64/s0/z0/c4v0': 'fffceefa8bc05750dd0fdfee',
    'stats/i64i64/s0/z1/np': '6d5d29f5ec12ccc66837c5bd',
    'stats/i64i64/s0/z1/c3v0': '363360caccabaed5abf88b03',
    'stats/i64i64/s0/z2/np': 'b179384632fcd55ed3c9433b',
    'stats/i64i64/s2/z0/np': '58bf304a637c5d43b3ee5ffd',
    'stats/i64i64/s2/z0/c1v0': '58bf304a637c5d43b3ee5ffd',
    'stats/i64i64/s5/z0/np': '3b17bbe209cea8fa965f0374',
    'stats/i64i64/s5/z0/c4v0': '3b17bbe209cea8fa965f0374',
    'stats/f32i16/s0/z0/np': 'd2dfa71c9c509bf0178fc944',
    'stats/f32i16/s0/z0/c0v0': 'd2dfa71c9c509bf0178fc944',
    'stats/f32i16/s0/z0/c1v0': 'd2dfa71c9c509bf0178fc944',
    'stats/f32i16/s0/z0/c2v0': 'd2dfa71c9c509bf0178fc944',
    'stats/f32i16/s0/z0/c3v0': 'd2dfa71c9c509bf0178fc944',
    'stats/f32i16/s0/z0/c4v0': 'd2dfa71c9c509bf0178fc944',
    'stats/f32i16/s0/z0/c4v1': 'd2dfa71c9c509bf0178fc944',
    'stats/f32i16/s0/z2/np': '7e846ca28afdc24dcffb9f32',
    'stats/f32i16/s3/z0/np': '7031890777a1ff5b7db45129',
    'stats/f32i16/s3/z0/c3v0': '7031890777a1ff5b7db45129',
    'stats/u8f64n/s0/z0/np': '06480faee23d865925076c79',
    'stats/u8f64n/s0/z0/c0v0': '26ed2229c9a9aa125197b2d3',
    'stats/u8f64n/s0/z0/c1v0': '5068bb7a5c772c5a78a274bf',
    'stats/u8f64n/s0/z0/c1v1': '5068bb7a5c772c5a78a274bf',
    'stats/u8f64n/s0/z0/c2v0': 'b1c87fbf40f0e4969fe14f7c',
    'stats/u8f64n/s0/z0/c3v0': '125c17b9d8a360eea265ecf0',
    'stats/u8f64n/s0/z0/c4v0': '000085eb3be1c8ad69f6a2f9',
    'stats/u8f64n/s0/z1/np': '26f2e81efbee00e7fb78db29',
    'stats/u8f64n/s0/z1/c1v0': 'ea0cad85673f67271f13fb8d',
    'stats/u8f64n/s0/z2/np': 'b8b5a0180481aa4cd424e9ff',
    'stats/u8f64n/s1/z0/np': 'b038155fbedfd99ca10fa50f',
    'stats/u8f64n/s1/z0/c2v0': 'b038155fbedfd99ca10fa50f',
    'stats/u8f64n/s1/z2/np': '1062c600fbbfc3eba9340a00',
    'stats/u8f64n/s4/z0/np': '64d8619df287983c216d8951',
    'stats/u8f64n/s4/z0/c1v0': 'a6e5b04a430bdd8e8edf0766',
    'stats/f64f64row/s0/z0/np': '8eee4f41dc2651ea26b8fc89',
    'stats/f64f64row/s0/z0/c0v0': '18d9b4eda8faf35fb51855cc',
    'stats/f64f64row/s0/z0/c1v0': '18d9b4eda8faf35fb51855cc',
    'stats/f64f64row/s0/z0/c2v0': '18d9b4eda8faf35fb51855cc',
    'stats/f64f64row/s0/z0/c2v1': '18d9b4eda8faf35fb51855cc',
    'stats/f64f64row/s0/z0/c3v0': '18d9b4eda8faf35fb51855cc',
    'stats/f64f64row/s0/z0/c4v0': '18d9b4eda8faf35fb51855cc',
    'stats/f64f64row/s0/z2/np': 'afef52f2a42c5802121f961b',
    'stats/f64f64row/s2/z0/np': 'd2ca94cbc2479fb53542f3e4',
    'stats/f64f64row/s2/z0/c4v0': 'd2ca94cbc2479fb53542f3e4',
    'stats/f64f64row/s5/z0/np': '3a1a98a79aaee10a0961fecb',
    'stats/f64f64row/s5/z0/c3v0': '3a1a98a79aaee10a0961fecb',
    'stats/f64f64col/s0/z0/np': 'ee9b97c4c1c4dbfa8e011506',
    'stats/f64f64col/s0/z0/c0v0': 'aa232918f8001b7a54d66e03',
    'stats/f64f64col/s0/z0/c1v0': 'aa232918f8001b7a54d66e03',
    'stats/f64f64col/s0/z0/c2v0': 'aa232918f8001b7a54d66e03',
    'stats/f64f64col/s0/z0/c3v0': 'aa232918f8001b7a54d66e03',
    'stats/f64f64col/s0/z0/c3v1': 'aa232918f8001b7a54d66e03',
    'stats/f64f64col/s0/z0/c4v0': 'aa232918f8001b7a54d66e03',
    'stats/f64f64col/s0/z1/np': 'a3d56f05445a777c1f2c8709',
    'stats/f64f64col/s0/z1/c3v0': '422466b08d44f8eabd647a35',
    'stats/f64f64col/s0/z2/np': '9b71b3b6ee0d60b6da62ed70',
    'stats/f64f64col/s3/z0/np': '4e2bd7fd294f32ddcd12d980',
    'stats/f64f64col/s3/z0/c2v0': '0761b8391cd1c4587357235c',
    'stats/banded/np': 'c8d9b4788cedf98ab8347ab5',
    'stats/banded/c0/synchronous': 'deccfb380726699acf4d98c6',
    'stats/banded/c0/threads': 'deccfb380726699acf4d98c6',
    'stats/banded/c1/synchronous': 'b22b0492e611e9eada432593',
    'stats/banded/c1/threads': 'b22b0492e611e9eada432593',
    'stats/banded/c2/synchronous': '2916c3ba2fd607eac070c2a9',
    'stats/banded/c2/threads': '2916c3ba2fd607eac070c2a9',
    'stats/banded/c3/synchronous': 'b609052b032bb60442fb0375',
    'stats/banded/c3/threads': 'b609052b032bb60442fb0375',
    'stats/banded/c4/synchronous': 'deccfb380726699acf4d98c6',
    'stats/banded/c4/threads': 'deccfb380726699acf4d98c6',
    'stats/custom': 'd54b9d6ade831d17a5e98ae3',
    'stats/xarray/z0': '2e43f85cc23ba8fa2284eedb',
    'stats/xarray/z1': 'c8b51a53d7ab5d38730ea867',
    'stats/xarray/z2': '1c14928b5c5cb0202821e54f',
    'ct2/f64f64/count/z0k0/np': '8f5a3da05c151b1f69b501ab',
    'ct2/f64f64/count/z0k0/c0': '8f5a3da05c151b1f69b501ab',
    'ct2/f64f64/count/z0k0/c1': '8f5a3da05c151b1f69b501ab',
    'ct2/f64f64/count/z0k0/c2': '8f5a3da05c151b1f69b501ab',
    'ct2/f64f64/count/z0k0/c3': '8f5a3da05c151b1f69b501ab',
    'ct2/f64f64/count/z0k0/c4': '8f5a3da05c151b1f69b501ab',
    'ct2/f64f64/count/z0k0/c5': '8f5a3da05c151b1f69b501ab',
    'ct2/f64f64/count/z0k0/c6': '8f5a3da05c151b1f69b501ab',
    'ct2/f64f64/count/z0k0/c7': '8f5a3da05c151b1f69b501ab',
    'ct2/f64f64/count/z0k1/np': '4ca114354450e2f29282c3a3',
    'ct2/f64f64/count/z0k1/c2': '4ca114354450e2f29282c3a3',
    'ct2/f64f64/count/z0k2/np': 'f39de233957ac7fc3bc0ff44',
    'ct2/f64f64/count/z0k2/c3': 'f39de233957ac7fc3bc0ff44',
    'ct2/f64f64/count/z1k0/np': 'aa7c154c61b3bb4883502f5d',
    'ct2/f64f64/count/z1k0/c2': 'aa7c154c61b3bb4883502f5d',
    'ct2/f64f64/count/z1k1/np': 'bb903a399059678ce3a10c74',
    'ct2/f64f64/count/z1k1/c3': 'bb903a399059678ce3a10c74',
    'ct2/f64f64/count/z2k0/np': '1dbd089d6328cb22777c973e',
    'ct2/f64f64/count/z2k0/c3': '1dbd089d6328cb22777c973e',
    'ct2/f64f64/count/z2k2/np': '536f390b78a58c78ba714fc6',
    'ct2/f64f64/count/z2k2/c1': '536f390b78a58c78ba714fc6',
    'ct2/f64f64/percentage/z0k0/np': 'aaeabe4fab982021421d11cc',
    'ct2/f64f64/percentage/z0k0/c0': 'aaeabe4fab982021421d11cc',
    'ct2/f64f64/percentage/z0k0/c1': 'aaeabe4fab982021421d11cc',
    'ct2/f64f64/percentage/z0k0/c2': 'aaeabe4fab982021421d11cc',
    'ct2/f64f64/percentage/z0k0/c3': 'aaeabe4fab982021421d11cc',
    'ct2/f64f64/percentage/z0k0/c4': 'aaeabe4fab982021421d11cc',
    'ct2/f64f64/percentage/z0k0/c5': 'aaeabe4fab982021421d11cc',
    'ct2/f64f64/percentage/z0k0/c6': 'aaeabe4fab982021421d11cc',
    'ct2/f64f64/percentage/z0k0/c7': 'aaeabe4fab982021421d11cc',
    'ct2/f64f64/percentage/z0k1/np': 'fc62a2e145a665db768c407a',
    'ct2/f64f64/percentage/z0k1/c2': 'fc62a2e145a665db768c407a',
    'ct2/f64f64/percentage/z0k2/np': '61d9d9f37050c0d315f98e55',
    'ct2/f64f64/percentage/z0k2/c3': '61d9d9f37050c0d315f98e55',
    'ct2/f64f64/percentage/z1k0/np': '22005fd5ea3e2e80d8eb736a',
    'ct2/f64f64/percentage/z1k0/c2': '22005fd5ea3e2e80d8eb736a',
    'ct2/f64f64/percentage/z1k1/np': 'a95d5d78c8dcef0cf69bea29',
    'ct2/f64f64/percentage/z1k1/c3': 'a95d5d78c8dcef0cf69bea29',
    'ct2/f64f64/percentage/z2k0/np': '34bb9cbe882246b378765d55',
    'ct2/f64f64/percentage/z2k0/c3': '34bb9cbe882246b378765d55',
    'ct2/f64f64/percentage/z2k2/np': 'cc3b314c122058862be5b9b3',
    'ct2/f64f64/percentage/z2k2/c1': 'cc3b314c122058862be5b9b3',
    'ct2/i32f32/count/z0k0/np': 'd29b95c551c3412efc2d0152',
    'ct2/i32f32/count/z0k0/c0': 'd29b95c551c3412efc2d0152',
    'ct2/i32f32/count/z0k0/c1': 'd29b95c551c3412efc2d0152',
    'ct2/i32f32/count/z0k0/c2': 'd29b95c551c3412efc2d0152',
    'ct2/i32f32/count/z0k0/c3': 'd29b95c551c3412efc2d0152',
    'ct2/i32f32/count/z0k0/c4': 'd29b95c551c3412efc2d0152',
    'ct2/i32f32/count/z0k1/np': 'b56e1a9d5c18140d81ad329d',
    'ct2/i32f32/count/z0k1/c3': 'b56e1a9d5c18140d81ad329d',
    'ct2/i32f32/count/z0k2/np': '6d8065dabfae802eeefab5cf',
    'ct2/i32f32/count/z0k2/c4': '6d8065dabfae802eeefab5cf',
    'ct2/i32f32/count/z1k0/np': 'e330865e654725fb115a69f2',
    'ct2/i32f32/count/z1k0/c3': 'e330865e654725fb115a69f2',
    'ct2/i32f32/count/z1k1/np': '3eb30a7636e8e74cc46a7bf7',
    'ct2/i32f32/count/z1k1/c4': '3eb30a7636e8e74cc46a7bf7',
    'ct2/i32f32/count/z2k0/np': 'cf158c16088acad8b92bd6d5',
    'ct2/i32f32/count/z2k0/c4': 'cf158c16088acad8b92bd6d5',
    'ct2/i32f32/count/z2k2/np': 'f2deb7aa44ed84193a6c19c9',
    'ct2/i32f32/count/z2k2/c2': 'f2deb7aa44ed84193a6c19c9',
    'ct2/i32f32/percentage/z0k0/np': '586394104fdf52bd79b79658',
    'ct2/i32f32/percentage/z0k0/c0': '586394104fdf52bd79b79658',
    'ct2/i32f32/percentage/z0k0/c1': '586394104fdf52bd79b79658',
    'ct2/i32f32/percentage/z0k0/c2': '586394104fdf52bd79b79658',
    'ct2/i32f32/percentage/z0k0/c3': '586394104fdf52bd79b79658',
    'ct2/i32f32/percentage/z0k0/c4': '586394104fdf52bd79b79658',
    'ct2/i32f32/percentage/z0k1/np': 'adc8b8d18703602609c63ed8',
    'ct2/i32f32/percentage/z0k1/c3': 'adc8b8d18703602609c63ed8',
    'ct2/i32f32/percentage/z0k2/np': 'ce39f42b40ea53040da979ae',
    'ct2/i32f32/percentage/z0k2/c4': 'ce39f42b40ea53040da979ae',
    'ct2/i32f32/percentage/z1k0/np': '1ff0f641dc1290badc289a3a',
    'ct2/i32f32/percentage/z1k0/c3': '1ff0f641dc1290badc289a3a',
    'ct2/i32f32/percentage/z1k1/np': '70ca03e55b9ccb462026c191',
    'ct2/i32f32/percentage/z1k1/c4': '70ca03e55b9ccb462026c191',
    'ct2/i32f32/percentage/z2k0/np': '46327392e083d1a46c71469a',
    'ct2/i32f32/percentage/z2k0/c4': '46327392e083d1a46c71469a',
    'ct2/i32f32/percentage/z2k2/np': 'd23b855099bb642cffd58c03',
    'ct2/i32f32/percentage/z2k2/c2': 'd23b855099bb642cffd58c03',
    'ct2/i64i64/count/z0k0/np': '1d08ec43e8f85d359d54ef10',
    'ct2/i64i64/count/z0k0/c0': '1d08ec43e8f85d359d54ef10',
    'ct2/i64i64/count/z0k0/c1': '1d08ec43e8f85d359d54ef10',
    'ct2/i64i64/count/z0k0/c2': '1d08ec43e8f85d359d54ef10',
    'ct2/i64i64/count/z0k0/c3': '1d08ec43e8f85d359d54ef10',
    'ct2/i64i64/count/z0k0/c4': '1d08ec43e8f85d359d54ef10',
    'ct2/i64i64/count/z0k1/np': '1650ea089db93dac1a388b4c',
    'ct2/i64i64/count/z0k1/c4': '1650ea089db93dac1a388b4c',
    'ct2/i64i64/count/z0k2/np': 'e46c2a0a07acdfb59222c5f5',
    'ct2/i64i64/count/z0k2/c1': 'e46c2a0a07acdfb59222c5f5',
    'ct2/i64i64/count/z1k0/np': 'd9196e9bc216fe2d003f67dc',
    'ct2/i64i64/count/z1k0/c4': 'd9196e9bc216fe2d003f67dc',
    'ct2/i64i64/count/z1k1/np': '2f136a19143feeef1a39bfe3',
    'ct2/i64i64/count/z1k1/c1': '2f136a19143feeef1a39bfe3',
    'ct2/i64i64/count/z2k0/np': 'b7822f643d8c883d41b506e9',
    'ct2/i64i64/count/z2k0/c1': 'b7822f643d8c883d41b506e9',
    'ct2/i64i64/count/z2k2/np': 'ea7abb783db9af4c8424fd6b',
    'ct2/i64i64/count/z2k2/c3': 'ea7abb783db9af4c8424fd6b',
    'ct2/i64i64/percentage/z0k0/np': '62e9902b00fef318e846256b',
    'ct2/i64i64/percentage/z0k0/c0': '62e9902b00fef318e846256b',
    'ct2/i64i64/percentage/z0k0/c1': '62e9902b00fef318e846256b',
    'ct2/i64i64/percentage/z0k0/c2': '62e9902b00fef318e846256b',
    'ct2/i64i64/percentage/z0k0/c3': '62e9902b00fef318e846256b',
    'ct2/i64i64/percentage/z0k0/c4': '62e9902b00fef318e846256b',
    'ct2/i64i64/percentage/z0k1/np': '123cdb9c98ef448879267e3d',
    'ct2/i64i64/percentage/z0k1/c4': '123cdb9c98ef448879267e3d',
    'ct2/i64i64/percentage/z0k2/np': '1b4acdc6ce46a427bad98569',
    'ct2/i64i64/percentage/z0k2/c1': '1b4acdc6ce46a427bad98569',
    'ct2/i64i64/percentage/z1k0/np': 'f74d7d3ef491407135c1f34c',
    'ct2/i64i64/percentage/z1k0/c4': 'f74d7d3ef491407135c1f34c',
    'ct2/i64i64/percentage/z1k1/np': '21a8b76a1c142d64d65535de',
    'ct2/i64i64/percentage/z1k1/c1': '21a8b76a1c142d64d65535de',
    'ct2/i64i64/percentage/z2k0/np': '12820e972a151d46da6e134a',
    'ct2/i64i64/percentage/z2k0/c1': '12820e972a151d46da6e134a',
    'ct2/i64i64/percentage/z2k2/np': 'c8c64ac2e0fd3b6d2f30234a',
    'ct2/i64i64/percentage/z2k2/c3': 'c8c64ac2e0fd3b6d2f30234a',
    'ct2/f32i16/count/z0k0/np': 'c09a22e788bb142942c847d2',
    'ct2/f32i16/count/z0k0/c0': 'c09a22e788bb142942c847d2',
    'ct2/f32i16/count/z0k0/c1': 'c09a22e788bb142942c847d2',
    'ct2/f32i16/count/z0k0/c2': 'c09a22e788bb142942c847d2',
    'ct2/f32i16/count/z0k0/c3': 'c09a22e788bb142942c847d2',
    'ct2/f32i16/count/z0k0/c4': 'c09a22e788bb142942c847d2',
    'ct2/f32i16/count/z0k1/np': 'bb05108a7555c4555b85d813',
    'ct2/f32i16/count/z0k1/c1': 'bb05108a7555c4555b85d813',
    'ct2/f32i16/count/z0k2/np': '2cf584253b8a8d8af06286c9',
    'ct2/f32i16/count/z0k2/c2': '2cf584253b8a8d8af06286c9',
    'ct2/f32i16/count/z1k0/np': '4482d575f9e752837c492515',
    'ct2/f32i16/count/z1k0/c1': '4482d575f9e752837c492515',
    'ct2/f32i16/count/z1k1/np': '9902b24a2bfe098bdff7939f',
    'ct2/f32i16/count/z1k1/c2': '9902b24a2bfe098bdff7939f',
    'ct2/f32i16/count/z2k0/np': '3b05b4e5768e0d273158758f',
    'ct2/f32i16/count/z2k0/c2': '3b05b4e5768e0d273158758f',
    'ct2/f32i16/count/z2k2/np': 'c893c8bd4d36e1878cc8e561',
    'ct2/f32i16/count/z2k2/c4': 'c893c8bd4d36e1878cc8e561',
    'ct2/f32i16/percentage/z0k0/np': '5c2ca132bf1763d1fb03c44a',
    'ct2/f32i16/percentage/z0k0/c0': '5c2ca132bf1763d1fb03c44a',
    'ct2/f32i16/percentage/z0k0/c1': '5c2ca132bf1763d1fb03c44a',
    'ct2/f32i16/percentage/z0k0/c2': '5c2ca132bf1763d1fb03c44a',
    'ct2/f32i16/percentage/z0k0/c3': '5c2ca132bf1763d1fb03c44a',
    'ct2/f32i16/percentage/z0k0/c4': '5c2ca132bf1763d1fb03c44a',
    'ct2/f32i16/percentage/z0k1/np': 'cb3ee54e652da64d630f810a',
    'ct2/f32i16/percentage/z0k1/c1': 'cb3ee54e652da64d630f810a',
    'ct2/f32i16/percentage/z0k2/np': 'a8386242ff825a0eda7a6150',
    'ct2/f32i16/percentage/z0k2/c2': 'a8386242ff825a0eda7a6150',
    'ct2/f32i16/percentage/z1k0/np': '4e6fa9e950d48c42fd669bbf',
    'ct2/f32i16/percentage/z1k0/c1': '4e6fa9e950d48c42fd669bbf',
    'ct2/f32i16/percentage/z1k1/np': 'd6763c07f31c421d94ec2168',
    'ct2/f32i16/percentage/z1k1/c2': 'd6763c07f31c421d94ec2168',
    'ct2/f32i16/percentage/z2k0/np': '4c7e9b23bc440278e6671d7d',
    'ct2/f32i16/percentage/z2k0/c2': '4c7e9b23bc440278e6671d7d',
    'ct2/f32i16/percentage/z2k2/np': '5e2f6298bb49bc038c7f18ba',
    'ct2/f32i16/percentage/z2k2/c4': '5e2f6298bb49bc038c7f18ba',
    'ct2/f64u8/count/z0k0/np': 'a24cd8a56ca94f66e93aa58e',
    'ct2/f64u8/count/z0k0/c0': 'a24cd8a56ca94f66e93aa58e',
    'ct2/f64u8/count/z0k0/c1': 'a24cd8a56ca94f66e93aa58e',
    'ct2/f64u8/count/z0k0/c2': 'a24cd8a56ca94f66e93aa58e',
    'ct2/f64u8/count/z0k0/c3': 'a24cd8a56ca94f66e93aa58e',
    'ct2/f64u8/count/z0k0/c4': 'a24cd8a56ca94f66e93aa58e',
    'ct2/f64u8/count/z0k1/np': '79aef9ea5a5f8d7ae7852862',
    'ct2/f64u8/count/z0k1/c2': '79aef9ea5a5f8d7ae7852862',
    'ct2/f64u8/count/z0k2/np': 'e1f56a000aee3ed702e302c0',
    'ct2/f64u8/count/z0k2/c3': 'e1f56a000aee3ed702e302c0',
    'ct2/f64u8/count/z1k0/np': '0d49b229d1282af3301ade17',
    'ct2/f64u8/count/z1k0/c2': '0d49b229d1282af3301ade17',
    'ct2/f64u8/count/z1k1/np': '0ee3688e6fed69ff2020f687',
    'ct2/f64u8/count/z1k1/c3': '0ee3688e6fed69ff2020f687',
    'ct2/f64u8/count/z2k0/np': 'a34e91e1e79cff18d1ab3860',
    'ct2/f64u8/count/z2k0/c3': 'a34e91e1e79cff18d1ab3860',
    'ct2/f64u8/count/z2k2/np': 'c0fe62e575a9f5c1cc8d1855',
    'ct2/f64u8/count/z2k2/c1': 'c0fe62e575a9f5c1cc8d1855',
    'ct2/f64u8/percentage/z0k0/np': 'be5f9bd9c94950cac2d5b39d',
    'ct2/f64u8/percentage/z0k0/c0': 'be5f9bd9c94950cac2d5b39d',
    'ct2/f64u8/percentage/z0k0/c1': 'be5f9bd9c94950cac2d5b39d',
    'ct2/f64u8/percentage/z0k0/c2': 'be5f9bd9c94950cac2d5b39d',
    'ct2/f64u8/percentage/z0k0/c3': 'be5f9bd9c94950cac2d5b39d',
    'ct2/f64u8/percentage/z0k0/c4': 'be5f9bd9c94950cac2d5b39d',
    'ct2/f64u8/percentage/z0k1/np': '83b15373fc844c51d1ae7ce8',
    'ct2/f64u8/percentage/z0k1/c2': '83b15373fc844c51d1ae7ce8',
    'ct2/f64u8/percentage/z0k2/np': 'f39d80fbf9e211a606ade820',
    'ct2/f64u8/percentage/z0k2/c3': 'f39d80fbf9e211a606ade820',
    'ct2/f64u8/percentage/z1k0/np': '6a49d2851611f3bdafe21fbb',
    'ct2/f64u8/percentage/z1k0/c2': '6a49d2851611f3bdafe21fbb',
    'ct2/f64u8/percentage/z1k1/np': '9b94dfd30b7f36ca41519cbb',
    'ct2/f64u8/percentage/z1k1/c3': '9b94dfd30b7f36ca41519cbb',
    'ct2/f64u8/percentage/z2k0/np': '4ff19262ff0c847536287b96',
    'ct2/f64u8/percentage/z2k0/c3': '4ff19262ff0c847536287b96',
    'ct2/f64u8/percentage/z2k2/np': 'a692f81d1b2288b3e29b8ee2',
    'ct2/f64u8/percentage/z2k2/c1': 'a692f81d1b2288b3e29b8ee2',
    'ct2/i16f64/count/z0k0/np': 'a8356b8a4d7b6c222c91e712',
    'ct2/i16f64/count/z0k0/c0': 'a8356b8a4d7b6c222c91e712',
    'ct2/i16f64/count/z0k0/c1': 'a8356b8a4d7b6c222c91e712',
    'ct2/i16f64/count/z0k0/c2': 'a8356b8a4d7b6c222c91e712',
    'ct2/i16f64/count/z0k0/c3': 'a8356b8a4d7b6c222c91e712',
    'ct2/i16f64/count/z0k0/c4': 'a8356b8a4d7b6c222c91e712',
    'ct2/i16f64/count/z0k1/np': '66286dcca68252f755e7a3ed',
    'ct2/i16f64/count/z0k1/c3': '66286dcca68252f755e7a3ed',
    'ct2/i16f64/count/z0k2/np': 'f0b26560f8bafac3ebe40ca4',
    'ct2/i16f64/count/z0k2/c4': 'f0b26560f8bafac3ebe40ca4',
    'ct2/i16f64/count/z1k0/np': 'fa685a7e46f855d18c12825e',
    'ct2/i16f64/count/z1k0/c3': 'fa685a7e46f855d18c12825e',
    'ct2/i16f64/count/z1k1/np': 'fab8a63b0a0781e2b461a4b0',
    'ct2/i16f64/count/z1k1/c4': 'fab8a63b0a0781e2b461a4b0',
    'ct2/i16f64/count/z2k0/np': '115728aa6403f1ae7a62cbfc',
    'ct2/i16f64/count/z2k0/c4': '115728aa6403f1ae7a62cbfc',
    'ct2/i16f64/count/z2k2/np': '700e6d850576162b72526f1c',
    'ct2/i16f64/count/z2k2/c2': '700e6d850576162b72526f1c',
    'ct2/i16f64/percentage/z0k0/np': '900597c6900d426344eae0ec',
    'ct2/i16f64/percentage/z0k0/c0': '900597c6900d426344eae0ec',
    'ct2/i16f64/percentage/z0k0/c1': '900597c6900d426344eae0ec',
    'ct2/i16f64/percentage/z0k0/c2': '900597c6900d426344eae0ec',
    'ct2/i16f64/percentage/z0k0/c3': '900597c6900d426344eae0ec',
    'ct2/i16f64/percentage/z0k0/c4': '900597c6900d426344eae0ec',
    'ct2/i16f64/percentage/z0k1/np': '8aca987b031854bc6269234d',
    'ct2/i16f64/percentage/z0k1/c3': '8aca987b031854bc6269234d',
    'ct2/i16f64/percentage/z0k2/np': 'd4cde7778cadf3c3310960c8',
    'ct2/i16f64/percentage/z0k2/c4': 'd4cde7778cadf3c3310960c8',
    'ct2/i16f64/percentage/z1k0/np': 'e6bf82bfbbd70da6873e70f6',
    'ct2/i16f64/percentage/z1k0/c3': 'e6bf82bfbbd70da6873e70f6',
    'ct2/i16f64/percentage/z1k1/np': '9b874e3b823c0a10ce539f0d',
    'ct2/i16f64/percentage/z1k1/c4': '9b874e3b823c0a10ce539f0d',
    'ct2/i16f64/percentage/z2k0/np': '16b786ba7ee36076a991e4a2',
    'ct2/i16f64/percentage/z2k0/c4': '16b786ba7ee36076a991e4a2',
    'ct2/i16f64/percentage/z2k2/np': '839fb75c93eb0561507ce835',
    'ct2/i16f64/percentage/z2k2/c2': '839fb75c93eb0561507ce835',
    'ct2/banded/count/np': 'c5036624ef56ca6bad5fd961',
    'ct2/banded/count/c0/synchronous': 'c5036624ef56ca6bad5fd961',
    'ct2/banded/count/c0/threads': 'c5036624ef56ca6bad5fd961',
    'ct2/banded/count/c1/synchronous': 'c5036624ef56ca6bad5fd961',
    'ct2/banded/count/c1/threads': 'c5036624ef56ca6bad5fd961',
    'ct2/banded/count/c2/synchronous': 'c5036624ef56ca6bad5fd961',
    'ct2/banded/count/c2/threads': 'c5036624ef56ca6bad5fd961',
    'ct2/banded/count/c3/synchronous': 'c5036624ef56ca6bad5fd961',
    'ct2/banded/count/c3/threads': 'c5036624ef56ca6bad5fd961',
    'ct2/banded/percentage/np': '16a5a3b31107a26f399ee32d',
    'ct2/banded/percentage/c0/synchronous': '16a5a3b31107a26f399ee32d',
    'ct2/banded/percentage/c0/threads': '16a5a3b31107a26f399ee32d',
    'ct2/banded/percentage/c1/synchronous': '16a5a3b31107a26f399ee32d',
    'ct2/banded/percentage/c1/threads': '16a5a3b31107a26f399ee32d',
    'ct2/banded/percentage/c2/synchronous': '16a5a3b31107a26f399ee32d',
    'ct2/banded/percentage/c2/threads': '16a5a3b31107a26f399ee32d',
    'ct2/banded/percentage/c3/synchronous': '16a5a3b31107a26f399ee32d',
    'ct2/banded/percentage/c3/threads': '16a5a3b31107a26f399ee32d',
    'ct3/0/count/z0k0/np': 'f60d4f99eae7a29b870dc298',
    'ct3/0/count/z0k0/c0': '386cf82095724b58979412fc',
    'ct3/0/count/z0k0/c1': '386cf82095724b58979412fc',
    'ct3/0/count/z0k0/c2': '386cf82095724b58979412fc',
    'ct3/0/count/z0k0/c3': '386cf82095724b58979412fc',
    'ct3/0/sum/z0k0/np': 'd32bf376103351daeecfe3cc',
    'ct3/0/mean/z0k0/np': '303f0e07529642ed0a8ab79f',
    'ct3/0/min/z0k0/np': '5b782c6ebe5c4054bfac83b7',
    'ct3/0/max/z0k0/np': '2069588be1bdcf677b21769f',
    'ct3/0/std/z0k0/np': 'c63bbbdaecf1dbf168a4a357',
    'ct3/0/var/z0k0/np': 'a0fb3dff0743ae9ecae82db5',
    'ct3/0/count/z0k1/np': 'c2fbac9250107f443c0c1043',
    'ct3/0/count/z0k1/c2': 'c2fbac9250107f443c0c1043',
    'ct3/0/sum/z0k1/np': '1e9a849326826f82ce66c2b7',
    'ct3/0/mean/z0k1/np': 'aa8a255812d5fcbc513178a8',
    'ct3/0/min/z0k1/np': '5e40f69188e775fa293496ec',
    'ct3/0/max/z0k1/np': 'b1cd9b685fc3c525f57d80e7',
    'ct3/0/std/z0k1/np': '4ef85cce154e0ad7360fa264',
    'ct3/0/var/z0k1/np': 'daccf03b93f4fd936cd88eff',
    'ct3/0/count/z0k2/np': 'd3371b08d6a626d92a3d2e9b',
    'ct3/0/count/z0k2/c3': 'd3371b08d6a626d92a3d2e9b',
    'ct3/0/sum/z0k2/np': '5b79d39399fc08e581ec5267',
    'ct3/0/mean/z0k2/np': '6e1cfed0b55d05a40fe279ed',
    'ct3/0/min/z0k2/np': '6eb8d9095d515459bf8a509b',
    'ct3/0/max/z0k2/np': '1f19c64b49be282c9f579e7d',
    'ct3/0/std/z0k2/np': '2d134d226f7c7266177d4477',
    'ct3/0/var/z0k2/np': '51d2f2ec5fa6e2301989f06c',
    'ct3/0/count/z1k0/np': 'ab58c541501786b245f4a0f8',
    'ct3/0/count/z1k0/c2': '818f8fb3dea2456b378baa5e',
    'ct3/0/sum/z1k0/np': 'da72722e91cfd8924c3e033c',
    'ct3/0/mean/z1k0/np': 'fc3d68272b40ce746e560e9a',
    'ct3/0/min/z1k0/np': '8a9cfe0924804ff63ffad650',
    'ct3/0/max/z1k0/np': 'f0d8c406e68dd71f74064d15',
    'ct3/0/std/z1k0/np': '8da8f1fe032e0b55f5275a02',
    'ct3/0/var/z1k0/np': '25fa9fcc01b6e50e2c4ad22e',
    'ct3/0/count/z1k1/np': 'c7500dccaf741b821973bb2c',
    'ct3/0/count/z1k1/c3': 'c7500dccaf741b821973bb2c',
    'ct3/0/sum/z1k1/np': '407884cf0c4a30b4761a2c67',
    'ct3/0/mean/z1k1/np': 'c0a2813aedbc517a2f8d991c',
    'ct3/0/min/z1k1/np': '46be5cf9f16ae95de7e48d3f',
    'ct3/0/max/z1k1/np': '1da45f7b4b3f991de0d8825d',
    'ct3/0/std/z1k1/np': '8faa5036d2dec1838351d9b6',
    'ct3/0/var/z1k1/np': 'f6196281e3bc4f848a3acd76',
    'ct3/0/count/z1k2/np': 'd092c1637077d187938b6d98',
    'ct3/0/count/z1k2/c1': 'd092c1637077d187938b6d98',
    'ct3/0/sum/z1k2/np': 'ae9b56b3f8557abf7e3e8480',
    'ct3/0/mean/z1k2/np': '8b0b8870e3f2d27bf6eaba12',
    'ct3/0/min/z1k2/np': '46ea9bfd16ba70ef60dfc31a',
    'ct3/0/max/z1k2/np': '1b17efee180b3e48e30e0710',
    'ct3/0/std/z1k2/np': 'a6c3ee98007cee79e2c9f31b',
    'ct3/0/var/z1k2/np': 'cdc5e52f1b98c2ec2bfa1d30',
    'ct3/1/count/z0k0/np': 'b67499270d1c736b505bc605',
    'ct3/1/count/z0k0/c0': 'cfb5300ed354036516ea9514',
    'ct3/1/count/z0k0/c1': 'cfb5300ed354036516ea9514',
    'ct3/1/count/z0k0/c2': 'cfb5300ed354036516ea9514',
    'ct3/1/count/z0k0/c3': 'cfb5300ed354036516ea9514',
    'ct3/1/sum/z0k0/np': '4a548626f459b039493c65f0',
    'ct3/1/mean/z0k0/np': 'b488179dd42b2a2d4e5530f8',
    'ct3/1/min/z0k0/np': '2fddd2e44d384ebf0661215b',
    'ct3/1/max/z0k0/np': '72a310a8c6133fc7992287ea',
    'ct3/1/std/z0k0/np': '0ba3a5435edb2a3027cac8e6',
    'ct3/1/var/z0k0/np': '655b3172da659b3cee4e1cf3',
    'ct3/1/count/z0k1/np': '438eec3c5a234b330d8892e2',
    'ct3/1/count/z0k1/c3': '438eec3c5a234b330d8892e2',
    'ct3/1/sum/z0k1/np': 'c133d7c09331a8ff9c3cd40e',
    'ct3/1/mean/z0k1/np': '50d2142be2b18a480a331bb9',
    'ct3/1/min/z0k1/np': '7e1993d5be398c8024b19065',
    'ct3/1/max/z0k1/np': '075573ccc99c696d50c8a952',
    'ct3/1/std/z0k1/np': '8e541899c12808a73eaf9cb9',
    'ct3/1/var/z0k1/np': 'a5f99cb04ef6ebe9dee80056',
    'ct3/1/count/z0k2/np': '2157615b3a66d64912925046',
    'ct3/1/count/z0k2/c1': '2157615b3a66d64912925046',
    'ct3/1/sum/z0k2/np': '8cf51f5dd91ce41c143fe23b',
    'ct3/1/mean/z0k2/np': '9af7e4c958c78955020cd22c',
    'ct3/1/min/z0k2/np': '054fc00137a6697c0e26a306',
    'ct3/1/max/z0k2/np': 'c1018cbc3140c83d62b0e467',
    'ct3/1/std/z0k2/np': '982aa2fd59a2d9bd1d654df4',
    'ct3/1/var/z0k2/np': '6118f0a7bb02dbcd5dfe63d6',
    'ct3/1/count/z1k0/np': '4f589fe7ffec46cd115b1daf',
    'ct3/1/count/z1k0/c3': '7ff28bb4467e72ee7f2508c6',
    'ct3/1/sum/z1k0/np': '9d1d5ebd7767a8463e627a0a',
    'ct3/1/mean/z1k0/np': '51cf724d0ea19956e6bfe79f',
    'ct3/1/min/z1k0/np': 'b2e9c1736c75b2dc81d70cb0',
    'ct3/1/max/z1k0/np': '57139b1d5c9a8c296a14f502',
    'ct3/1/std/z1k0/np': '297772920383dd0a7e813cc4',
    'ct3/1/var/z1k0/np': 'a96e4c4df20e5b14165f4e62',
    'ct3/1/count/z1k1/np': '10da6a9d1c88ca5c3dcb5620',
    'ct3/1/count/z1k1/c1': '10da6a9d1c88ca5c3dcb5620',
    'ct3/1/sum/z1k1/np': '2ce1b3232673346e25acf090',
    'ct3/1/mean/z1k1/np': '6ca1e35a25eceffe1219a91e',
    'ct3/1/min/z1k1/np': '2ee2aaf01a5cc8fae8faeb83',
    'ct3/1/max/z1k1/np': '9a3d2ca59113464eec0f82cb',
    'ct3/1/std/z1k1/np': '8366bb498b3e7addfedf7e2b',
    'ct3/1/var/z1k1/np': '9d382eafd7fe532d4d05e25b',
    'ct3/1/count/z1k2/np': '54ef80ff82f06cb5b98d35ba',
    'ct3/1/count/z1k2/c2': '54ef80ff82f06cb5b98d35ba',
    'ct3/1/sum/z1k2/np': 'fce07cc4ce2fc4ba16132f52',
    'ct3/1/mean/z1k2/np': '507571450f5f97162f9e7f60',
    'ct3/1/min/z1k2/np': '90ceda458f4633eed94b1249',
    'ct3/1/max/z1k2/np': 'ad9dad5ef30cd29ddd987323',
    'ct3/1/std/z1k2/np': '5ad1e102b07f2af450a9d715',
    'ct3/1/var/z1k2/np': 'aaba903265a2f3b2f8fb9d8e',
    'ct3/2/count/z0k0/np': 'd761fe25afc8ef8254c3f8a4',
    'ct3/2/count/z0k0/c0': '66abe753d2c0dff204f8b898',
    'ct3/2/count/z0k0/c1': '66abe753d2c0dff204f8b898',
    'ct3/2/count/z0k0/c2': '66abe753d2c0dff204f8b898',
    'ct3/2/count/z0k0/c3': '66abe753d2c0dff204f8b898',
    'ct3/2/sum/z0k0/np': '74f820371fcd9244e81c5cf5',
    'ct3/2/mean/z0k0/np': 'ef370dd51dc320c9acfc36dc',
    'ct3/2/min/z0k0/np': 'eea98bc51bb37d5b05f606d4',
    'ct3/2/max/z0k0/np': 'fedaa688a52d53f6ec3c83e9',
    'ct3/2/std/z0k0/np': 'd86695d940eb1f10514a852d',
    'ct3/2/var/z0k0/np': 'dbd8579b0a7c12bcf6752779',
    'ct3/2/count/z0k1/np': '6e80ab82a50a46d63434ca35',
    'ct3/2/count/z0k1/c1': '6e80ab82a50a46d63434ca35',
    'ct3/2/sum/z0k1/np': 'd2e0f6d5a0d043d25a95f9a6',
    'ct3/2/mean/z0k1/np': '7ca205e37e9813727342f525',
    'ct3/2/min/z0k1/np': '6a2e752dbb8a31d515a0d697',
    'ct3/2/max/z0k1/np': 'c4bee083d194e75448ca9352',
    'ct3/2/std/z0k1/np': '1b7487caa89935cde60e88e1',
    'ct3/2/var/z0k1/np': '86f9ee94f448c09f29c40e01',
    'ct3/2/count/z0k2/np': 'fb0c5c2c1a8de44692b135b7',
    'ct3/2/count/z0k2/c2': 'fb0c5c2c1a8de44692b135b7',
    'ct3/2/sum/z0k2/np': '8c24d59aabc650f207cec750',
    'ct3/2/mean/z0k2/np': 'ed5e1ecc5888a853c819547c',
    'ct3/2/min/z0k2/np': 'df1643039992e59273ff36ac',
    'ct3/2/max/z0k2/np': 'a4bace482d7e7bbde8f559b2',
    'ct3/2/std/z0k2/np': '5ce591220b2631eca38ea8be',
    'ct3/2/var/z0k2/np': '4c8989273f9bb65a98cf6fec',
    'ct3/2/count/z1k0/np': '0ad798695b547e6e74ad8f9a',
    'ct3/2/count/z1k0/c1': '64f1d6e82037aba52f3c7e43',
    'ct3/2/sum/z1k0/np': '4ad198accb6efa06984566c6',
    'ct3/2/mean/z1k0/np': '462c119db0090895c5669a01',
    'ct3/2/min/z1k0/np': 'a013e27f5e3dbf205149f217',
    'ct3/2/max/z1k0/np': 'c15ad9c00dd04f33fd14af8d',
    'ct3/2/std/z1k0/np': 'be847e06de57837212d6384d',
    'ct3/2/var/z1k0/np': 'a89112c24dc1f5c599c9a9c4',
    'ct3/2/count/z1k1/np': '1001e2cab0912e419d8cf7f1',
    'ct3/2/count/z1k1/c2': '1001e2cab0912e419d8cf7f1',
    'ct3/2/sum/z1k1/np': 'a37d5f0ea0a0e244c32905ce',
    'ct3/2/mean/z1k1/np': '417de76604f38c5529afd589',
    'ct3/2/min/z1k1/np': 'ed44b366a34eb7728436b86a',
    'ct3/2/max/z1k1/np': '201dc7c4de308449d157d642',
    'ct3/2/std/z1k1/np': '2e713e809bb484a045e50dd8',
    'ct3/2/var/z1k1/np': 'b6766bdf22ac3d1b3543cb0e',
    'ct3/2/count/z1k2/np': 'de5d2857a16492a399df3b2f',
    'ct3/2/count/z1k2/c3': 'de5d2857a16492a399df3b2f',
    'ct3/2/sum/z1k2/np': '88cec86058cbe4e692c57915',
    'ct3/2/mean/z1k2/np': 'abff3d36970fbc246f10d696',
    'ct3/2/min/z1k2/np': 'd32dda117778c394bc3803bf',
    'ct3/2/max/z1k2/np': '5e15328b4c762a9419647529',
    'ct3/2/std/z1k2/np': '3feec9eb8e25d8cdcd0028a4',
    'ct3/2/var/z1k2/np': 'c5c0b887ae21d3844412689d',
}

failures = []
digests = {}


def fail(msg):
    failures.append(msg)
    print('FAIL:', msg)


# ---------------------------------------------------------------- digests
def _col_bytes(col):
    arr = np.asarray(col)
    if arr.dtype == object:
        return repr(list(arr)).encode()
    return str(arr.dtype).encode() + b'|' + np.ascontiguousarray(arr).tobytes()


def digest(obj):
    h = hashlib.sha256()
    if isinstance(obj, pd.DataFrame):
        h.update(repr([repr(c) for c in obj.columns]).encode())
        h.update(repr([str(t) for t in obj.dtypes]).encode())
        h.update(_col_bytes(obj.index))
        for c in obj.columns:
            h.update(_col_bytes(obj[c]))
    elif isinstance(obj, xr.DataArray):
        h.update(repr(obj.dims).encode())
        h.update(repr(sorted(obj.attrs.items())).encode())
        h.update(repr(list(obj.coords['stats'].values)).encode())
        h.update(_col_bytes(obj.values))
    else:
        raise TypeError(type(obj))
    return h.hexdigest()[:24]


def record(key, obj):
    if key in digests:
        raise RuntimeError('duplicate key ' + key)
    digests[key] = digest(obj)


# ----------------------------------------------------------------- inputs
def make_rasters(seed, shape, zdtype, vdtype, nzones=5, ncats=4,
                 holes=True, nodata=None, noise=False):
    rng = np.random.RandomState(seed)
    zones = rng.randint(0, nzones, size=shape) * 3 - 3      # ids -3, 0, 3, ...
    zones = zones.astype(zdtype)
    if np.issubdtype(np.dtype(vdtype), np.floating):
        values = rng.randint(0, ncats, size=shape).astype(vdtype)
        values = values + (rng.randint(0, 2, size=shape) * 0.5).astype(vdtype)
        if noise:
            # non-representable fractions: sums depend on the order of additions
            values = (values * np.pi + rng.rand(*shape) * 1e3).astype(vdtype)
    else:
        values = rng.randint(0, ncats, size=shape).astype(vdtype)
    if holes:
        if np.issubdtype(np.dtype(zdtype), np.floating):
            zones[rng.rand(*shape) < 0.08] = np.nan
            zones[rng.rand(*shape) < 0.03] = np.inf
            zones[rng.rand(*shape) < 0.03] = -np.inf
        if np.issubdtype(np.dtype(vdtype), np.floating):
            values[rng.rand(*shape) < 0.10] = np.nan
            values[rng.rand(*shape) < 0.03] = np.inf
    if nodata is not None:
        values[rng.rand(*shape) < 0.1] = nodata
    return zones, values


def banded_rasters():
    # zones are horizontal bands: most zones are absent from most blocks,
    # one zone has only NaN values, one only nodata
    zones = np.repeat(np.arange(7, dtype=np.float64) * 10, 3)[:, None] \
        * np.ones((1, 13))
    values = np.arange(zones.size, dtype=np.float64).reshape(zones.shape) / 7
    values[3:6] = np.nan      # zone 10: all NaN
    values[9:12] = -9999.     # zone 30: all nodata
    values[14, ::2] = np.nan
    zones[20, 5:] = np.nan
    return zones, values


def as_xr(arr, chunks=None, name='r'):
    dims = ['y', 'x'] if arr.ndim == 2 else ['cat', 'y', 'x']
    coords = {'y': np.arange(arr.shape[-2])[::-1] * 0.5,
              'x': np.arange(arr.shape[-1]) * 0.5}
    if arr.ndim == 3:
        coords['cat'] = np.arange(arr.shape[0]) * 10 + 5
    data = arr if chunks is None else da.from_array(arr, chunks=chunks)
    return xr.DataArray(data, dims=dims, coords=coords, name=name,
                        attrs={'res': 0.5, 'crs': 'x'})


def chunkings(shape, few_blocks=False):
    """valid chunk specs for `shape`; `few_blocks` keeps the block count low
    (the dask stats graph is very slow to build for many blocks)."""
    h, w = shape
    rows = (1, h - 1) if h > 1 else (1,)
    cols = (w - 2, 2) if w > 2 else (w,)
    if few_blocks:
        out = [(h, w), (rows, cols), ((h + 1) // 2, w), (h, (w + 2) // 3),
               ((h + 1) // 2, (w + 1) // 2)]
    else:
        out = [(h, w), (1, w), (h, 1), (2, 3), (3, 2), (5, 7), (rows, cols),
               (max(h // 2, 1), max(w // 2, 1)), (1, 1)]
    return out


# ------------------------------------------------------- brute-force refs
def _valid(v, nodata):
    m = np.isfinite(v)
    if nodata is not None:
        m &= (v != nodata)
    return v[m]


def ref_stats(zones, values, zone_ids, names, nodata):
    uz = np.unique(zones[np.isfinite(zones)])
    if zone_ids is not None:
        uz = np.array([z for z in uz if z in set(zone_ids)])
    funcs = dict(mean=np.mean, max=np.max, min=np.min, sum=np.sum,
                 std=np.std, var=np.var, count=len)
    out = {'zone': uz}
    for n in names:
        col = np.full(len(uz), np.nan)
        for i, z in enumerate(uz):
            v = _valid(values[zones == z], nodata)
            if len(v):
                col[i] = funcs[n](v)
        out[n] = col
    return out


def check_stats_against_ref(key, df, zones, values, zone_ids, names, nodata):
    ref = ref_stats(zones, values, zone_ids, names, nodata)
    if list(df.columns) != ['zone'] + list(names):
        return fail(f'{key}: columns {list(df.columns)}')
    if not np.array_equal(np.asarray(df['zone'], dtype=float),
                          np.asarray(ref['zone'], dtype=float)):
        return fail(f'{key}: zone ids differ from brute force')
    for n in names:
        got = np.asarray(df[n], dtype=float)
        if n in ('max', 'min', 'count'):
            ok = np.array_equal(got, ref[n], equal_nan=True)
        else:
            ok = np.allclose(got, ref[n], rtol=1e-5, atol=1e-6, equal_nan=True)
        if not ok:
            fail(f'{key}: column {n} differs from brute force')


def ref_crosstab_2d(zones, values, zone_ids, cat_ids, nodata, agg):
    uz = np.unique(zones[np.isfinite(zones)])
    if zone_ids is not None:
        uz = np.array([z for z in uz if z in set(zone_ids)])
    ucats = np.unique(_valid(values.ravel(), nodata))
    cats = list(ucats) if cat_ids is None else [c for c in cat_ids if c in ucats]
    out = {'zone': uz}
    for c in cats:
        col = np.zeros(len(uz))
        for i, z in enumerate(uz):
            v = _valid(values[zones == z], nodata)
            n = float((v == c).sum())
            if agg == 'percentage':
                n = n / len(v) * 100 if len(v) else np.nan
            col[i] = n
        out[c] = col
    return out


def check_crosstab_against_ref(key, df, ref):
    if [float(c) if c != 'zone' else c for c in df.columns] != \
            [float(c) if c != 'zone' else c for c in ref.keys()]:
        return fail(f'{key}: columns {list(df.columns)} vs {list(ref.keys())}')
    for c_df, c_ref in zip(df.columns, ref.keys()):
        got = np.asarray(df[c_df], dtype=float)
        if not np.allclose(got, ref[c_ref], rtol=1e-6, atol=0, equal_nan=True):
            fail(f'{key}: column {c_df} differs from brute force')


def compare_frames(key, ddf, ndf, exact_cols=None):
    """dask result (computed) against numpy result."""
    if list(ddf.columns) != list(ndf.columns):
        return fail(f'{key}: dask columns {list(ddf.columns)} != {list(ndf.columns)}')
    if len(ddf) != len(ndf):
        return fail(f'{key}: dask has {len(ddf)} rows, numpy {len(ndf)}')
    for c in ddf.columns:
        a = np.asarray(ddf[c], dtype=float)
        b = np.asarray(ndf[c], dtype=float)
        if exact_cols is None or c in exact_cols:
            ok = np.array_equal(a, b, equal_nan=True)
        else:
            ok = np.allclose(a, b, rtol=1e-5, atol=1e-6, equal_nan=True)
        if not ok:
            fail(f'{key}: dask column {c!r} differs from numpy')


# ------------------------------------------------------------------ stats
def run_stats():
    cases = [
        ('f64f64', (9, 11), np.float64, np.float64, None),
        ('i32f32', (7, 8), np.int32, np.float32, None),
        ('i64i64', (6, 13), np.int64, np.int64, None),
        ('f32i16', (5, 5), np.float32, np.int16, 2),
        ('u8f64n', (10, 6), np.uint8, np.float64, 1.5),
        ('f64f64row', (1, 17), np.float64, np.float64, 0.5),
        ('f64f64col', (12, 1), np.float64, np.float64, None),
    ]
    subsets = [ALL_STATS, ['count'], ['max', 'min'], ['var', 'mean'],
               ['std'], ['sum', 'count', 'mean']]
    for ci, (tag, shape, zdt, vdt, nodata) in enumerate(cases):
        zones, values = make_rasters(100 + ci, shape, zdt, vdt, nodata=nodata,
                                     nzones=6 if zdt != np.uint8 else 4,
                                     noise=True)
        if zdt == np.uint8:
            zones = (np.abs(zones.astype(np.int16)) % 5).astype(np.uint8)
        uz = np.unique(zones[np.isfinite(zones)])
        zid_choices = [None, [uz[0], uz[-1]], [uz[-1], 777, uz[1]]]
        for si, names in enumerate(subsets):
            if si and ci % 3 != si % 3:
                continue
            for zi, zone_ids in enumerate(zid_choices):
                if zi and si > 1:
                    continue
                if zi == 1 and si != ci % 2:
                    continue
                key = f'stats/{tag}/s{si}/z{zi}'
                ndf = stats(as_xr(zones), as_xr(values), zone_ids=zone_ids,
                            stats_funcs=list(names), nodata_values=nodata)
                record(key + '/np', ndf)
                check_stats_against_ref(key + '/np', ndf, zones, values,
                                        zone_ids, names, nodata)
                if zi == 2:
                    # unknown ids in zone_ids: numpy only
                    continue
                for ki, ch in enumerate(chunkings(shape, few_blocks=True)):
                    if (si or zi) and ki != 1 + (ci + si) % 4:
                        continue
                    # values chunked like the zones, or differently
                    vchs = [ch]
                    if not si and not zi and ki == 1 + ci % 4:
                        vchs.append(((shape[0] + 1) // 2, shape[1]))
                    for vi, vch in enumerate(vchs):
                        dkey = f'{key}/c{ki}v{vi}'
                        ddf = stats(as_xr(zones, ch), as_xr(values, vch),
                                    zone_ids=zone_ids, stats_funcs=list(names),
                                    nodata_values=nodata)
                        if not hasattr(ddf, 'dask'):
                            fail(f'{dkey}: result is not lazy')
                        got = ddf.compute()
                        record(dkey, got)
                        compare_frames(dkey, got, ndf,
                                       exact_cols=('zone', 'count', 'min', 'max'))

    # banded zones, all-NaN / all-nodata zones, schedulers
    zones, values = banded_rasters()
    ndf = stats(as_xr(zones), as_xr(values), nodata_values=-9999.)
    record('stats/banded/np', ndf)
    check_stats_against_ref('stats/banded/np', ndf, zones, values, None,
                            ALL_STATS, -9999.)
    for ki, ch in enumerate([(9, 13), (6, 7), (21, 5), (11, 4), (3, 13)]):
        for sched in ('synchronous', 'threads'):
            with dask.config.set(scheduler=sched, num_workers=3):
                got = stats(as_xr(zones, ch), as_xr(values, ch),
                            stats_funcs=ALL_STATS, nodata_values=-9999.).compute()
            record(f'stats/banded/c{ki}/{sched}', got)
            compare_frames(f'stats/banded/c{ki}/{sched}', got, ndf,
                           exact_cols=('zone', 'count', 'min', 'max'))

    # numpy backend: custom functions and the raster-shaped return type
    zones, values = make_rasters(7, (8, 9), np.float64, np.float64, noise=True)
    custom = {'double_sum': lambda v: v.sum() * 2, 'range': lambda v: v.max() - v.min()}
    record('stats/custom', stats(as_xr(zones), as_xr(values), stats_funcs=custom))
    for zi, zone_ids in enumerate([None, [3, 0], [9, -3, 555]]):
        res = stats(as_xr(zones), as_xr(values), zone_ids=zone_ids,
                    stats_funcs=['mean', 'count', 'max'],
                    return_type='xarray.DataArray')
        record(f'stats/xarray/z{zi}', res)
    # 3D values on the numpy backend are not supported by stats(); skip


# --------------------------------------------------------------- crosstab
def run_crosstab2d():
    cases = [
        ('f64f64', (9, 11), np.float64, np.float64, None),
        ('i32f32', (7, 8), np.int32, np.float32, 1.5),
        ('i64i64', (6, 13), np.int64, np.int64, None),
        ('f32i16', (5, 5), np.float32, np.int16, 2),
        ('f64u8', (1, 19), np.float64, np.uint8, None),
        ('i16f64', (11, 1), np.int16, np.float64, 0.0),
    ]
    for ci, (tag, shape, zdt, vdt, nodata) in enumerate(cases):
        zones, values = make_rasters(200 + ci, shape, zdt, vdt, nodata=nodata)
        uz = np.unique(zones[np.isfinite(zones)])
        ucats = np.unique(_valid(values.ravel(), nodata))
        zid_choices = [None, [uz[-1], uz[0]], [uz[0], 4242]]
        cid_choices = [None, [ucats[-1], ucats[0]], [ucats[1], 31337]]
        for agg in ('count', 'percentage'):
            for zi, zone_ids in enumerate(zid_choices):
                for cj, cat_ids in enumerate(cid_choices):
                    if zi and cj and zi != cj:
                        continue
                    key = f'ct2/{tag}/{agg}/z{zi}k{cj}'
                    ndf = crosstab(as_xr(zones), as_xr(values), zone_ids=zone_ids,
                                   cat_ids=cat_ids, agg=agg, nodata_values=nodata)
                    record(key + '/np', ndf)
                    check_crosstab_against_ref(
                        key + '/np', ndf,
                        ref_crosstab_2d(zones, values, zone_ids, cat_ids, nodata, agg))
                    many = not (ci or zi or cj)
                    for ki, ch in enumerate(chunkings(shape, few_blocks=not many)):
                        if many and ki == 8:
                            continue    # one block per cell: far too slow
                        if (zi or cj) and ki != 1 + (ci + zi + cj) % 4:
                            continue
                        # values chunked like the zones, or differently
                        vch = ch if ki % 2 else ((shape[0] + 1) // 2, shape[1])
                        dkey = f'{key}/c{ki}'
                        ddf = crosstab(as_xr(zones, ch), as_xr(values, vch),
                                       zone_ids=zone_ids, cat_ids=cat_ids,
                                       agg=agg, nodata_values=nodata)
                        if not hasattr(ddf, 'dask'):
                            fail(f'{dkey}: result is not lazy')
                        got = ddf.compute()
                        record(dkey, got)
                        compare_frames(dkey, got.reset_index(drop=True), ndf)

    # banded zones: zones absent from blocks, zones without any valid cell
    zones, values = banded_rasters()
    values = np.where(np.isfinite(values) & (values != -9999.),
                      np.floor(values) % 4, values)
    for agg in ('count', 'percentage'):
        ndf = crosstab(as_xr(zones), as_xr(values), agg=agg, nodata_values=-9999.)
        record(f'ct2/banded/{agg}/np', ndf)
        check_crosstab_against_ref(
            f'ct2/banded/{agg}/np', ndf,
            ref_crosstab_2d(zones, values, None, None, -9999., agg))
        for ki, ch in enumerate([(3, 13), (6, 7), (21, 5), (11, 4)]):
            for sched in ('synchronous', 'threads'):
                with dask.config.set(scheduler=sched, num_workers=3):
                    got = crosstab(as_xr(zones, ch), as_xr(values, ch), agg=agg,
                                   nodata_values=-9999.).compute()
                record(f'ct2/banded/{agg}/c{ki}/{sched}', got)
                compare_frames(f'ct2/banded/{agg}/c{ki}/{sched}',
                               got.reset_index(drop=True), ndf)


def run_crosstab3d():
    for ci, (vdt, nodata) in enumerate([(np.float64, None), (np.float32, 1.5),
                                        (np.int32, 2)]):
        zones, _ = make_rasters(300 + ci, (7, 9), np.float64, np.float64)
        layers = [make_rasters(310 + ci * 10 + k, (7, 9), np.float64, vdt,
                               nodata=nodata)[1] for k in range(3)]
        values = np.stack(layers)
        uz = np.unique(zones[np.isfinite(zones)])
        for zi, zone_ids in enumerate([None, [uz[1], uz[0]]]):
            for cj, cat_ids in enumerate([None, [25, 5], [15, 99]]):
                for agg in ['count', 'sum', 'mean', 'min', 'max', 'std', 'var']:
                    key = f'ct3/{ci}/{agg}/z{zi}k{cj}'
                    try:
                        ndf = crosstab(as_xr(zones), as_xr(values), zone_ids=zone_ids,
                                       cat_ids=cat_ids, agg=agg, nodata_values=nodata)
                    except Exception as e:  # same exception on both trees
                        digests[key + '/np'] = 'EXC:' + type(e).__name__
                        continue
                    record(key + '/np', ndf)
                    if agg != 'count':
                        continue
                    # independent count
                    cats = [5, 15, 25] if cat_ids is None else \
                        [c for c in cat_ids if c in (5, 15, 25)]
                    zsel = uz if zone_ids is None else \
                        np.array([z for z in uz if z in zone_ids])
                    for c in cats:
                        lay = values[(c - 5) // 10]
                        exp = [len(_valid(lay[zones == z], nodata)) for z in zsel]
                        if not np.array_equal(np.asarray(ndf[c]), exp):
                            fail(f'{key}: count column {c} differs from brute force')
                    for ki, ch in enumerate([(7, 9), (4, 3), (2, 9),
                                             ((3, 4), (8, 1))]):
                        if (zi or cj) and ki != 1 + (ci + zi + cj) % 3:
                            continue
                        vch = (1,) + tuple(ch) if ki % 2 else (3, 4, 5)
                        dkey = f'{key}/c{ki}'
                        got = crosstab(as_xr(zones, ch), as_xr(values, vch),
                                       zone_ids=zone_ids, cat_ids=cat_ids, agg=agg,
                                       nodata_values=nodata).compute()
                        record(dkey, got)
                        compare_frames(dkey, got.reset_index(drop=True), ndf)


def main():
    root = os.path.dirname(os.path.dirname(os.path.abspath(xrspatial.__file__)))
    print('xrspatial imported from', xrspatial.__file__)
    if os.path.abspath(os.getcwd()) != root:
        print('WARNING: xrspatial is not imported from the current directory')
    if 'stats' in SECTIONS:
        run_stats()
    if 'crosstab2d' in SECTIONS:
        run_crosstab2d()
    if 'crosstab3d' in SECTIONS:
        run_crosstab3d()

    if '--record' in sys.argv:
        print('RECORDED = {')
        for k, v in digests.items():
            print(f'    {k!r}: {v!r},')
        print('}')
        return 1 if failures else 0

    if set(digests) != set(RECORDED):
        fail(f'case list changed: {sorted(set(digests) ^ set(RECORDED))[:5]}')
    for k, v in digests.items():
        if RECORDED.get(k) != v:
            fail(f'{k}: digest {v} differs from recorded {RECORDED.get(k)}')
    print(f'{len(digests)} results compared, {len(failures)} failures')
    return 1 if failures else 0


if __name__ == '__main__':
    sys.exit(main())
