"""Differential test for proximity / allocation / direction (property C06).

Runs the three public functions on a deterministic family of inputs and
compares a SHA-256 digest of every result (dtype, shape, raw bytes) against
digests recorded from the unmodified tree.  In addition, for EUCLIDEAN and
MANHATTAN runs an independent brute-force oracle checks that proximity is
0 exactly on targets, is never below the true nearest-target distance, never
above max_distance, and is exactly the distance to the cell named by
allocation / direction where that can be decided.

Usage:  python equiv.py            -> compare, exit 0 if identical
        python equiv.py --record   -> print the digest table (unmodified tree)
"""
import hashlib
import json
import os
import sys

import dask.array as da
import numpy as np
import xarray as xr

import xrspatial
from xrspatial import allocation, direction, proximity

FUNCS = (("proximity", proximity), ("allocation", allocation),
         ("direction", direction))


def digest(arr):
    arr = np.ascontiguousarray(arr)
    h = hashlib.sha256()
    h.update(str(arr.dtype).encode())
    h.update(str(arr.shape).encode())
    h.update(arr.tobytes())
    return h.hexdigest()[:20]


def make_raster(data, ys, xs, chunks=None, dims=("y", "x")):
    if chunks is not None:
        data = da.from_array(data, chunks=chunks)
    r = xr.DataArray(data, dims=list(dims), attrs={"res": 1, "k": "v"})
    r[dims[0]] = ys
    r[dims[1]] = xs
    return r


def layouts():
    rng = np.random.RandomState(20240607)
    out = {}
    out["1x1_t"] = np.array([[3.0]])
    out["1x1_0"] = np.array([[0.0]])
    out["1x7"] = np.array([[0, 0, 2, 0, 0, 0, 1.0]])
    out["7x1"] = np.array([[0], [4], [0], [0], [0], [0], [5.0]])
    d = np.zeros((5, 5))
    d[1, 3] = 1
    out["5x5_single"] = d
    d = np.zeros((5, 5))
    d[1, 1], d[1, 3], d[2, 2] = 1, 2, 3
    out["5x5_three"] = d
    d = (rng.rand(6, 9) < 0.15) * rng.randint(1, 5, (6, 9)).astype(float)
    out["6x9_rand"] = d
    d = (rng.rand(13, 4) < 0.2) * rng.randint(1, 4, (13, 4)).astype(float)
    out["13x4_rand"] = d
    d = (rng.rand(8, 8) < 0.12) * rng.randint(1, 4, (8, 8)).astype(float)
    d[0, 0] = np.nan
    d[3, 4] = np.inf
    d[7, 2] = -np.inf
    d[5, 5] = np.nan
    out["8x8_nan_inf"] = d
    out["4x6_empty"] = np.zeros((4, 6))
    d = np.ones((3, 4)) * 7
    out["3x4_all"] = d
    d = np.zeros((11, 10))
    d[0, 0] = 1
    d[10, 9] = 2
    d[5, 2] = 3
    out["11x10_corners"] = d
    return out


def coord_sets(h, w):
    return {
        "desc_y": (np.arange(h)[::-1].astype(float), np.arange(w).astype(float)),
        "asc_y": (np.arange(h).astype(float), np.arange(w).astype(float)),
        "nonsq": (np.linspace(10.0, 10.0 - 0.5 * (h - 1), h),
                  np.linspace(-3.0, -3.0 + 2.0 * (w - 1), w)),
        "desc_x": (np.arange(h) * 3.0, (np.arange(w)[::-1]) * 0.25),
        "int": (np.arange(h)[::-1], np.arange(w)),
    }


def lonlat(h, w):
    return (np.linspace(60.0, -45.0, h), np.linspace(-170.0, 175.0, w))


def cases():
    L = layouts()
    out = []

    def add(name, data, ys, xs, chunks=None, **kw):
        out.append((name, data, ys, xs, chunks, kw))

    # 1. every layout, default args, descending y
    for ln, d in L.items():
        ys, xs = coord_sets(*d.shape)["desc_y"]
        add("L:%s:default" % ln, d, ys, xs)

    # 2. coordinate orientations x metrics on a few layouts
    for ln in ("5x5_three", "6x9_rand", "13x4_rand", "1x7", "7x1"):
        d = L[ln]
        for cn, (ys, xs) in coord_sets(*d.shape).items():
            if cn == "desc_y":
                continue
            for m in ("EUCLIDEAN", "MANHATTAN"):
                if cn == "int" and m == "MANHATTAN":
                    continue
                add("C:%s:%s:%s" % (ln, cn, m), d, ys, xs, distance_metric=m)
    for ln in ("5x5_three", "6x9_rand", "8x8_nan_inf", "1x7"):
        d = L[ln]
        ys, xs = lonlat(*d.shape)
        add("G:%s" % ln, d, ys, xs, distance_metric="GREAT_CIRCLE")
        add("Gm:%s" % ln, d, ys, xs, distance_metric="GREAT_CIRCLE",
            max_distance=3.0e6)
    d = L["6x9_rand"]
    ys, xs = coord_sets(*d.shape)["nonsq"]
    add("M:badmetric", d, ys, xs, distance_metric="NOPE")

    # 3. max_distance sweep
    for ln in ("5x5_three", "6x9_rand", "8x8_nan_inf", "11x10_corners"):
        d = L[ln]
        for cn in ("desc_y", "nonsq"):
            ys, xs = coord_sets(*d.shape)[cn]
            for md in (0, 1, 1.5, 2, 3.7, 100, None):
                if cn == "nonsq" and md in (0, 100, 1.5):
                    continue
                for m in ("EUCLIDEAN", "MANHATTAN"):
                    if m == "MANHATTAN" and md in (1.5, 100, None):
                        continue
                    add("D:%s:%s:%s:%s" % (ln, cn, md, m), d, ys, xs,
                        max_distance=md, distance_metric=m)

    # 4. explicit target values
    for ln in ("5x5_three", "6x9_rand", "8x8_nan_inf"):
        d = L[ln]
        ys, xs = coord_sets(*d.shape)["desc_y"]
        for tv in ([1], [2, 3], [0], [9], [3, 3, 1], [np.nan], [1.0, np.inf]):
            add("T:%s:%s" % (ln, tv), d, ys, xs, target_values=tv)
        add("Tm:%s" % ln, d, ys, xs, target_values=[2, 3], max_distance=2)

    # 5. dtypes
    for dt in ("float32", "int32", "int64", "uint8", "int8", "bool"):
        d = L["6x9_rand"].astype(dt)
        ys, xs = coord_sets(*d.shape)["nonsq"]
        add("Y:%s" % dt, d, ys, xs)
        add("Yt:%s" % dt, d, ys, xs, target_values=[1, 3], max_distance=4)
    d = L["8x8_nan_inf"].astype("float32")
    ys, xs = coord_sets(*d.shape)["asc_y"]
    add("Y:f32nan", d, ys, xs, max_distance=3)

    # 6. dask
    for ln, chunks in (("6x9_rand", (3, 4)), ("13x4_rand", (5, 2)),
                       ("8x8_nan_inf", (8, 8)), ("11x10_corners", (4, 3)),
                       ("1x7", (1, 3)), ("4x6_empty", (2, 2))):
        d = L[ln]
        ys, xs = coord_sets(*d.shape)["desc_y"]
        add("K:%s:inf" % ln, d, ys, xs, chunks)
        add("K:%s:md2" % ln, d, ys, xs, chunks, max_distance=2)
        add("K:%s:md1man" % ln, d, ys, xs, chunks, max_distance=1,
            distance_metric="MANHATTAN", target_values=[1, 2])
    d = L["6x9_rand"].astype("int32")
    ys, xs = coord_sets(*d.shape)["nonsq"]
    add("K:int32:nonsq", d, ys, xs, (4, 5), max_distance=2.5)
    d = L["6x9_rand"]
    ys, xs = lonlat(*d.shape)
    add("K:gc", d, ys, xs, (3, 3), distance_metric="GREAT_CIRCLE")
    return out


def run_one(func, data, ys, xs, chunks, kw):
    r = make_raster(data.copy(), ys, xs, chunks)
    try:
        res = func(r, **kw)
        if chunks is not None:
            assert isinstance(res.data, da.Array), "dask in -> dask out"
        else:
            assert isinstance(res.data, np.ndarray)
        assert res.dims == r.dims and res.attrs == r.attrs
        for c in r.coords:
            assert np.array_equal(res[c].values, r[c].values)
        vals = np.asarray(res.data)
        return "ok", vals
    except Exception as e:  # noqa
        return "exc:" + type(e).__name__, None


def dist(metric, x1, y1, x2, y2):
    if metric == "MANHATTAN":
        return np.float32(abs(x1 - x2) + abs(y1 - y2))
    return np.float32(np.sqrt((x1 - x2) * (x1 - x2) + (y1 - y2) * (y1 - y2)))


def compass(x1, y1, x2, y2):
    if x1 == x2 and y1 == y2:
        return np.float32(0)
    d = np.arctan2(-(y2 - y1), x2 - x1) * 57.29578
    if d < 0:
        d = 90.0 - d
    elif d > 90.0:
        d = 360.0 - d + 90.0
    else:
        d = 90.0 - d
    return np.float32(d)


def oracle(name, data, ys, xs, kw, P, A, D):
    """Independent check of the C06 statement (numpy semantic model)."""
    metric = kw.get("distance_metric", "EUCLIDEAN")
    if metric not in ("EUCLIDEAN", "MANHATTAN"):
        if metric == "GREAT_CIRCLE":
            return []
        metric = "EUCLIDEAN"
    md = kw.get("max_distance", np.inf)
    if md is None:
        md = np.inf
    tv = kw.get("target_values", [])
    fdata = data.astype(float)
    if len(tv) == 0:
        tmask = (fdata != 0) & np.isfinite(fdata)
    else:
        tmask = np.zeros(data.shape, bool)
        for v in tv:
            tmask |= (fdata == v)
    tpos = np.argwhere(tmask)
    errs = []
    h, w = data.shape
    for i in range(h):
        for j in range(w):
            p, a, dd = P[i, j], A[i, j], D[i, j]
            if tmask[i, j]:
                if p != 0 or dd != 0 or not (a == np.float32(fdata[i, j])):
                    errs.append("%s target cell (%d,%d) p=%r a=%r d=%r"
                                % (name, i, j, p, a, dd))
                continue
            if len(tpos) == 0:
                if not (np.isnan(p) and np.isnan(a) and np.isnan(dd)):
                    errs.append("%s no target but value (%d,%d)" % (name, i, j))
                continue
            ds = np.array([dist(metric, xs[j], ys[i], xs[c], ys[r_])
                           for r_, c in tpos])
            true = ds.min()
            if np.isnan(p):
                if not (np.isnan(a) and np.isnan(dd)):
                    errs.append("%s NaN mismatch (%d,%d)" % (name, i, j))
                if true <= md and np.isinf(md):
                    errs.append("%s NaN with unbounded md (%d,%d)" % (name, i, j))
                continue
            if p < true or p > md:
                errs.append("%s bound violated (%d,%d) p=%r true=%r md=%r"
                            % (name, i, j, p, true, md))
            # some target at exactly distance p with that value and bearing
            ok = False
            for (r_, c), dv in zip(tpos, ds):
                if dv == p and np.float32(fdata[r_, c]) == a and \
                        compass(xs[j], ys[i], xs[c], ys[r_]) == dd:
                    ok = True
                    break
            if not ok:
                errs.append("%s no consistent target (%d,%d) p=%r a=%r d=%r"
                            % (name, i, j, p, a, dd))
            if len(tpos) == 1 and p != true:
                errs.append("%s single target not exact (%d,%d)" % (name, i, j))
    return errs


def error_cases():
    """Order / type of raised errors must be preserved."""
    out = {}
    d = np.zeros((3, 3))
    d[1, 1] = 1
    r = xr.DataArray(d, dims=["lat", "lon"])
    r["lat"] = np.arange(3)
    r["lon"] = np.arange(3)
    for fn, f in FUNCS:
        try:
            f(r)
            out["dims:" + fn] = "noerror"
        except Exception as e:  # noqa
            out["dims:" + fn] = type(e).__name__ + ":" + str(e)
        try:
            res = f(r, x="lon", y="lat")
            out["named:" + fn] = digest(res.values)
        except Exception as e:  # noqa
            out["named:" + fn] = type(e).__name__ + ":" + str(e)
    # great circle with out-of-range coordinates
    r2 = make_raster(d, np.arange(3) * 100.0, np.arange(3) * 100.0)
    for fn, f in FUNCS:
        try:
            f(r2, distance_metric="GREAT_CIRCLE")
            out["gcrange:" + fn] = "noerror"
        except Exception as e:  # noqa
            out["gcrange:" + fn] = type(e).__name__
    return out


def _run_case(idx):
    name, data, ys, xs, chunks, kw = cases()[idx]
    table = {}
    errs = []
    got = {}
    for fn, f in FUNCS:
        status, vals = run_one(f, data, ys, xs, chunks, kw)
        got[fn] = vals
        table[name + "|" + fn] = status if vals is None else digest(vals)
    if all(v is not None for v in got.values()):
        errs += oracle(name, data, np.asarray(ys, float),
                       np.asarray(xs, float), kw,
                       got["proximity"], got["allocation"],
                       got["direction"])
    return table, errs


def compute_all():
    import multiprocessing as mp
    n = len(cases())
    jobs = int(os.environ.get("EQUIV_JOBS", "4"))
    if jobs > 1:
        with mp.get_context("spawn").Pool(jobs) as pool:
            parts = pool.map(_run_case, range(n), chunksize=1)
    else:
        parts = [_run_case(i) for i in range(n)]
    table = {}
    errs = []
    for t, e in parts:
        table.update(t)
        errs += e
    table.update(error_cases())
    return table, errs


_EXPECTED_JSON = r'''
{
"C:13x4_rand:asc_y:EUCLIDEAN|allocation": "09ce1119097710b783bb",
"C:13x4_rand:asc_y:EUCLIDEAN|direction": "777c38a4287cb782afa2",
"C:13x4_rand:asc_y:EUCLIDEAN|proximity": "0ec0af8d4e6e39aec343",
"C:13x4_rand:asc_y:MANHATTAN|allocation": "297dba0d9515b0022340",
"C:13x4_rand:asc_y:MANHATTAN|direction": "fd04d59c10919abc2176",
"C:13x4_rand:asc_y:MANHATTAN|proximity": "c94941067836b98517c4",
"C:13x4_rand:desc_x:EUCLIDEAN|allocation": "a3534f9f8b230928f08e",
"C:13x4_rand:desc_x:EUCLIDEAN|direction": "9d65477a7f08a0118f92",
"C:13x4_rand:desc_x:EUCLIDEAN|proximity": "d436ce99854122cb386d",
"C:13x4_rand:desc_x:MANHATTAN|allocation": "a3534f9f8b230928f08e",
"C:13x4_rand:desc_x:MANHATTAN|direction": "9d65477a7f08a0118f92",
"C:13x4_rand:desc_x:MANHATTAN|proximity": "5b8fc285608587e74051",
"C:13x4_rand:int:EUCLIDEAN|allocation": "09ce1119097710b783bb",
"C:13x4_rand:int:EUCLIDEAN|direction": "f1d4493698a11482d57e",
"C:13x4_rand:int:EUCLIDEAN|proximity": "0ec0af8d4e6e39aec343",
"C:13x4_rand:nonsq:EUCLIDEAN|allocation": "5d1623a72993f0202bf7",
"C:13x4_rand:nonsq:EUCLIDEAN|direction": "4e97c40ee59f8ffe34ef",
"C:13x4_rand:nonsq:EUCLIDEAN|proximity": "0ee87cba6dd3fb7bb524",
"C:13x4_rand:nonsq:MANHATTAN|allocation": "61cf4f094c896ed8dd6b",
"C:13x4_rand:nonsq:MANHATTAN|direction": "02645ac69ac226fc3df1",
"C:13x4_rand:nonsq:MANHATTAN|proximity": "11682f71babfcc594fed",
"C:1x7:asc_y:EUCLIDEAN|allocation": "a25c684d39663f00a6c3",
"C:1x7:asc_y:EUCLIDEAN|direction": "bf7fa0bc9388428ef050",
"C:1x7:asc_y:EUCLIDEAN|proximity": "1028ff2bc360f235c8ab",
"C:1x7:asc_y:MANHATTAN|allocation": "a25c684d39663f00a6c3",
"C:1x7:asc_y:MANHATTAN|direction": "bf7fa0bc9388428ef050",
"C:1x7:asc_y:MANHATTAN|proximity": "1028ff2bc360f235c8ab",
"C:1x7:desc_x:EUCLIDEAN|allocation": "a25c684d39663f00a6c3",
"C:1x7:desc_x:EUCLIDEAN|direction": "67e46368052c398e3604",
"C:1x7:desc_x:EUCLIDEAN|proximity": "177262ee56deb8fc507f",
"C:1x7:desc_x:MANHATTAN|allocation": "a25c684d39663f00a6c3",
"C:1x7:desc_x:MANHATTAN|direction": "67e46368052c398e3604",
"C:1x7:desc_x:MANHATTAN|proximity": "177262ee56deb8fc507f",
"C:1x7:int:EUCLIDEAN|allocation": "a25c684d39663f00a6c3",
"C:1x7:int:EUCLIDEAN|direction": "bf7fa0bc9388428ef050",
"C:1x7:int:EUCLIDEAN|proximity": "1028ff2bc360f235c8ab",
"C:1x7:nonsq:EUCLIDEAN|allocation": "a25c684d39663f00a6c3",
"C:1x7:nonsq:EUCLIDEAN|direction": "bf7fa0bc9388428ef050",
"C:1x7:nonsq:EUCLIDEAN|proximity": "8e7f43102f8d326032ab",
"C:1x7:nonsq:MANHATTAN|allocation": "a25c684d39663f00a6c3",
"C:1x7:nonsq:MANHATTAN|direction": "bf7fa0bc9388428ef050",
"C:1x7:nonsq:MANHATTAN|proximity": "8e7f43102f8d326032ab",
"C:5x5_three:asc_y:EUCLIDEAN|allocation": "27aed621e628b6aeeaff",
"C:5x5_three:asc_y:EUCLIDEAN|direction": "2cd65142707da2cf9dd6",
"C:5x5_three:asc_y:EUCLIDEAN|proximity": "2924261cff27f9efab4f",
"C:5x5_three:asc_y:MANHATTAN|allocation": "d1f9d6b042485d8ecf00",
"C:5x5_three:asc_y:MANHATTAN|direction": "76394a8ac23d51dacbde",
"C:5x5_three:asc_y:MANHATTAN|proximity": "123fa40316a9b78370eb",
"C:5x5_three:desc_x:EUCLIDEAN|allocation": "607b9b5cc97fdb08a9f6",
"C:5x5_three:desc_x:EUCLIDEAN|direction": "cd9cdb46cd3ea28d70f7",
"C:5x5_three:desc_x:EUCLIDEAN|proximity": "a89f5a15a0396d72634e",
"C:5x5_three:desc_x:MANHATTAN|allocation": "607b9b5cc97fdb08a9f6",
"C:5x5_three:desc_x:MANHATTAN|direction": "cd9cdb46cd3ea28d70f7",
"C:5x5_three:desc_x:MANHATTAN|proximity": "d66a9ffc41d9f0fd4c7d",
"C:5x5_three:int:EUCLIDEAN|allocation": "27aed621e628b6aeeaff",
"C:5x5_three:int:EUCLIDEAN|direction": "ffc00a2edb17405c4778",
"C:5x5_three:int:EUCLIDEAN|proximity": "2924261cff27f9efab4f",
"C:5x5_three:nonsq:EUCLIDEAN|allocation": "f12a1a27d879e89b282c",
"C:5x5_three:nonsq:EUCLIDEAN|direction": "a8f95902e8147af4ec67",
"C:5x5_three:nonsq:EUCLIDEAN|proximity": "e831089fd827da065e6d",
"C:5x5_three:nonsq:MANHATTAN|allocation": "f12a1a27d879e89b282c",
"C:5x5_three:nonsq:MANHATTAN|direction": "a8f95902e8147af4ec67",
"C:5x5_three:nonsq:MANHATTAN|proximity": "d4d70b67fe19acfbd8ae",
"C:6x9_rand:asc_y:EUCLIDEAN|allocation": "4f2c45352194b1f498e4",
"C:6x9_rand:asc_y:EUCLIDEAN|direction": "2f3d1086ff115ecd4fd8",
"C:6x9_rand:asc_y:EUCLIDEAN|proximity": "ddba3e5c8f6692b0355f",
"C:6x9_rand:asc_y:MANHATTAN|allocation": "436d33ec5ed6b97b00c6",
"C:6x9_rand:asc_y:MANHATTAN|direction": "a2b0c3e8cf4dc5606072",
"C:6x9_rand:asc_y:MANHATTAN|proximity": "95546508679572106f7c",
"C:6x9_rand:desc_x:EUCLIDEAN|allocation": "5051cee52837beb1708d",
"C:6x9_rand:desc_x:EUCLIDEAN|direction": "ac6c7f993123e6ecd40b",
"C:6x9_rand:desc_x:EUCLIDEAN|proximity": "fa8578cb82364fa3fe29",
"C:6x9_rand:desc_x:MANHATTAN|allocation": "5051cee52837beb1708d",
"C:6x9_rand:desc_x:MANHATTAN|direction": "ac6c7f993123e6ecd40b",
"C:6x9_rand:desc_x:MANHATTAN|proximity": "128de8dc712ba0e0d6a1",
"C:6x9_rand:int:EUCLIDEAN|allocation": "4f2c45352194b1f498e4",
"C:6x9_rand:int:EUCLIDEAN|direction": "e5d5a067a075cdd823de",
"C:6x9_rand:int:EUCLIDEAN|proximity": "ddba3e5c8f6692b0355f",
"C:6x9_rand:nonsq:EUCLIDEAN|allocation": "fcffc9d9ce1715c31868",
"C:6x9_rand:nonsq:EUCLIDEAN|direction": "0c18138396586d432011",
"C:6x9_rand:nonsq:EUCLIDEAN|proximity": "9967cdd220188796f252",
"C:6x9_rand:nonsq:MANHATTAN|allocation": "fcffc9d9ce1715c31868",
"C:6x9_rand:nonsq:MANHATTAN|direction": "0c18138396586d432011",
"C:6x9_rand:nonsq:MANHATTAN|proximity": "3b204063c0b2b4c36659",
"C:7x1:asc_y:EUCLIDEAN|allocation": "768690a8232cf84dd3fb",
"C:7x1:asc_y:EUCLIDEAN|direction": "cc7fe8adea1a5614ab80",
"C:7x1:asc_y:EUCLIDEAN|proximity": "610c6d19108f76977c14",
"C:7x1:asc_y:MANHATTAN|allocation": "768690a8232cf84dd3fb",
"C:7x1:asc_y:MANHATTAN|direction": "cc7fe8adea1a5614ab80",
"C:7x1:asc_y:MANHATTAN|proximity": "610c6d19108f76977c14",
"C:7x1:desc_x:EUCLIDEAN|allocation": "768690a8232cf84dd3fb",
"C:7x1:desc_x:EUCLIDEAN|direction": "cc7fe8adea1a5614ab80",
"C:7x1:desc_x:EUCLIDEAN|proximity": "dfd54f533d9139f9453b",
"C:7x1:desc_x:MANHATTAN|allocation": "768690a8232cf84dd3fb",
"C:7x1:desc_x:MANHATTAN|direction": "cc7fe8adea1a5614ab80",
"C:7x1:desc_x:MANHATTAN|proximity": "dfd54f533d9139f9453b",
"C:7x1:int:EUCLIDEAN|allocation": "768690a8232cf84dd3fb",
"C:7x1:int:EUCLIDEAN|direction": "f6a57375cc7e5be99794",
"C:7x1:int:EUCLIDEAN|proximity": "610c6d19108f76977c14",
"C:7x1:nonsq:EUCLIDEAN|allocation": "768690a8232cf84dd3fb",
"C:7x1:nonsq:EUCLIDEAN|direction": "f6a57375cc7e5be99794",
"C:7x1:nonsq:EUCLIDEAN|proximity": "a068a303966562bac2f2",
"C:7x1:nonsq:MANHATTAN|allocation": "768690a8232cf84dd3fb",
"C:7x1:nonsq:MANHATTAN|direction": "f6a57375cc7e5be99794",
"C:7x1:nonsq:MANHATTAN|proximity": "a068a303966562bac2f2",
"D:11x10_corners:desc_y:0:EUCLIDEAN|allocation": "d73a0df6c15d72c49c1d",
"D:11x10_corners:desc_y:0:EUCLIDEAN|direction": "a1e4425cf69be8f27a9c",
"D:11x10_corners:desc_y:0:EUCLIDEAN|proximity": "a1e4425cf69be8f27a9c",
"D:11x10_corners:desc_y:0:MANHATTAN|allocation": "d73a0df6c15d72c49c1d",
"D:11x10_corners:desc_y:0:MANHATTAN|direction": "a1e4425cf69be8f27a9c",
"D:11x10_corners:desc_y:0:MANHATTAN|proximity": "a1e4425cf69be8f27a9c",
"D:11x10_corners:desc_y:1.5:EUCLIDEAN|allocation": "c344d18a06dddf950e04",
"D:11x10_corners:desc_y:1.5:EUCLIDEAN|direction": "87c2e9311ee741dae10a",
"D:11x10_corners:desc_y:1.5:EUCLIDEAN|proximity": "35fdb2971191d5844b7d",
"D:11x10_corners:desc_y:100:EUCLIDEAN|allocation": "72910bce64c2fc8f9589",
"D:11x10_corners:desc_y:100:EUCLIDEAN|direction": "28f485582eace860d222",
"D:11x10_corners:desc_y:100:EUCLIDEAN|proximity": "3fb3ec6d8e057f3aa872",
"D:11x10_corners:desc_y:1:EUCLIDEAN|allocation": "e0a57c3988d14b5801af",
"D:11x10_corners:desc_y:1:EUCLIDEAN|direction": "036673c62bbe91884924",
"D:11x10_corners:desc_y:1:EUCLIDEAN|proximity": "beda744ee22bef5990b2",
"D:11x10_corners:desc_y:1:MANHATTAN|allocation": "e0a57c3988d14b5801af",
"D:11x10_corners:desc_y:1:MANHATTAN|direction": "036673c62bbe91884924",
"D:11x10_corners:desc_y:1:MANHATTAN|proximity": "beda744ee22bef5990b2",
"D:11x10_corners:desc_y:2:EUCLIDEAN|allocation": "84fa356959e92a3202a3",
"D:11x10_corners:desc_y:2:EUCLIDEAN|direction": "76ed31d31cfe1acfca72",
"D:11x10_corners:desc_y:2:EUCLIDEAN|proximity": "afaf521f4c985b6e0ef6",
"D:11x10_corners:desc_y:2:MANHATTAN|allocation": "84fa356959e92a3202a3",
"D:11x10_corners:desc_y:2:MANHATTAN|direction": "76ed31d31cfe1acfca72",
"D:11x10_corners:desc_y:2:MANHATTAN|proximity": "5ffc71ac692f1440d355",
"D:11x10_corners:desc_y:3.7:EUCLIDEAN|allocation": "24199f77cd77470604ee",
"D:11x10_corners:desc_y:3.7:EUCLIDEAN|direction": "e90c3fe3ac46edfc909e",
"D:11x10_corners:desc_y:3.7:EUCLIDEAN|proximity": "f9cfb200005f4f5d5539",
"D:11x10_corners:desc_y:3.7:MANHATTAN|allocation": "ea24620d485c23212e8b",
"D:11x10_corners:desc_y:3.7:MANHATTAN|direction": "e4828265c1bd8d3bcff7",
"D:11x10_corners:desc_y:3.7:MANHATTAN|proximity": "208501d94396a7697d49",
"D:11x10_corners:desc_y:None:EUCLIDEAN|allocation": "72910bce64c2fc8f9589",
"D:11x10_corners:desc_y:None:EUCLIDEAN|direction": "28f485582eace860d222",
"D:11x10_corners:desc_y:None:EUCLIDEAN|proximity": "3fb3ec6d8e057f3aa872",
"D:11x10_corners:nonsq:1:EUCLIDEAN|allocation": "511d28c3ca323aa9021c",
"D:11x10_corners:nonsq:1:EUCLIDEAN|direction": "05c8bf19d342775c75ab",
"D:11x10_corners:nonsq:1:EUCLIDEAN|proximity": "8e96fe9c99343ba64a80",
"D:11x10_corners:nonsq:1:MANHATTAN|allocation": "511d28c3ca323aa9021c",
"D:11x10_corners:nonsq:1:MANHATTAN|direction": "05c8bf19d342775c75ab",
"D:11x10_corners:nonsq:1:MANHATTAN|proximity": "8e96fe9c99343ba64a80",
"D:11x10_corners:nonsq:2:EUCLIDEAN|allocation": "9c2b46012905f97cd95b",
"D:11x10_corners:nonsq:2:EUCLIDEAN|direction": "2f83cf9e32d4492a512e",
"D:11x10_corners:nonsq:2:EUCLIDEAN|proximity": "611b3c5911ed42b9926e",
"D:11x10_corners:nonsq:2:MANHATTAN|allocation": "9c2b46012905f97cd95b",
"D:11x10_corners:nonsq:2:MANHATTAN|direction": "2f83cf9e32d4492a512e",
"D:11x10_corners:nonsq:2:MANHATTAN|proximity": "611b3c5911ed42b9926e",
"D:11x10_corners:nonsq:3.7:EUCLIDEAN|allocation": "51f767a5f8a5f058fd25",
"D:11x10_corners:nonsq:3.7:EUCLIDEAN|direction": "6644312e91221057ed05",
"D:11x10_corners:nonsq:3.7:EUCLIDEAN|proximity": "50baa4ad3f5a6e7a8c83",
"D:11x10_corners:nonsq:3.7:MANHATTAN|allocation": "f802acb172b35aa58216",
"D:11x10_corners:nonsq:3.7:MANHATTAN|direction": "12047e3bdcf45ff89392",
"D:11x10_corners:nonsq:3.7:MANHATTAN|proximity": "1e186fda47a641119e62",
"D:11x10_corners:nonsq:None:EUCLIDEAN|allocation": "34368eded2e9b637f61c",
"D:11x10_corners:nonsq:None:EUCLIDEAN|direction": "af8baf3d5694813e487c",
"D:11x10_corners:nonsq:None:EUCLIDEAN|proximity": "38fadbec04b45b809f42",
"D:5x5_three:desc_y:0:EUCLIDEAN|allocation": "9a070561a0e84a453ff9",
"D:5x5_three:desc_y:0:EUCLIDEAN|direction": "ad0e99b02f3c33210ded",
"D:5x5_three:desc_y:0:EUCLIDEAN|proximity": "ad0e99b02f3c33210ded",
"D:5x5_three:desc_y:0:MANHATTAN|allocation": "9a070561a0e84a453ff9",
"D:5x5_three:desc_y:0:MANHATTAN|direction": "ad0e99b02f3c33210ded",
"D:5x5_three:desc_y:0:MANHATTAN|proximity": "ad0e99b02f3c33210ded",
"D:5x5_three:desc_y:1.5:EUCLIDEAN|allocation": "7a262b959edf1103c130",
"D:5x5_three:desc_y:1.5:EUCLIDEAN|direction": "22c8f7a735142f7b0a05",
"D:5x5_three:desc_y:1.5:EUCLIDEAN|proximity": "7fa8c3e1719359f2814e",
"D:5x5_three:desc_y:100:EUCLIDEAN|allocation": "27aed621e628b6aeeaff",
"D:5x5_three:desc_y:100:EUCLIDEAN|direction": "ffc00a2edb17405c4778",
"D:5x5_three:desc_y:100:EUCLIDEAN|proximity": "2924261cff27f9efab4f",
"D:5x5_three:desc_y:1:EUCLIDEAN|allocation": "67c7ab85eeed1c3904f2",
"D:5x5_three:desc_y:1:EUCLIDEAN|direction": "e7c4f4e9bc7cfe84bb23",
"D:5x5_three:desc_y:1:EUCLIDEAN|proximity": "261acfd0c2a3673b0989",
"D:5x5_three:desc_y:1:MANHATTAN|allocation": "67c7ab85eeed1c3904f2",
"D:5x5_three:desc_y:1:MANHATTAN|direction": "e7c4f4e9bc7cfe84bb23",
"D:5x5_three:desc_y:1:MANHATTAN|proximity": "261acfd0c2a3673b0989",
"D:5x5_three:desc_y:2:EUCLIDEAN|allocation": "50c151993863b9ae75e4",
"D:5x5_three:desc_y:2:EUCLIDEAN|direction": "cd94c5e3cff46d48c3a8",
"D:5x5_three:desc_y:2:EUCLIDEAN|proximity": "b14753a813430bc18c75",
"D:5x5_three:desc_y:2:MANHATTAN|allocation": "15f79de3e0a189d9ed77",
"D:5x5_three:desc_y:2:MANHATTAN|direction": "b9a5a1a8df844225b744",
"D:5x5_three:desc_y:2:MANHATTAN|proximity": "e854a3d3502be106be1a",
"D:5x5_three:desc_y:3.7:EUCLIDEAN|allocation": "27aed621e628b6aeeaff",
"D:5x5_three:desc_y:3.7:EUCLIDEAN|direction": "ffc00a2edb17405c4778",
"D:5x5_three:desc_y:3.7:EUCLIDEAN|proximity": "2924261cff27f9efab4f",
"D:5x5_three:desc_y:3.7:MANHATTAN|allocation": "55a7cbd40a5124208f35",
"D:5x5_three:desc_y:3.7:MANHATTAN|direction": "ba6be4c7800be1d308a2",
"D:5x5_three:desc_y:3.7:MANHATTAN|proximity": "aa27141fb1997a695f81",
"D:5x5_three:desc_y:None:EUCLIDEAN|allocation": "27aed621e628b6aeeaff",
"D:5x5_three:desc_y:None:EUCLIDEAN|direction": "ffc00a2edb17405c4778",
"D:5x5_three:desc_y:None:EUCLIDEAN|proximity": "2924261cff27f9efab4f",
"D:5x5_three:nonsq:1:EUCLIDEAN|allocation": "50e6e604eb3c0d6dedf7",
"D:5x5_three:nonsq:1:EUCLIDEAN|direction": "54bb5f0e9b27cd04d8d8",
"D:5x5_three:nonsq:1:EUCLIDEAN|proximity": "63371d8482478d488e29",
"D:5x5_three:nonsq:1:MANHATTAN|allocation": "50e6e604eb3c0d6dedf7",
"D:5x5_three:nonsq:1:MANHATTAN|direction": "54bb5f0e9b27cd04d8d8",
"D:5x5_three:nonsq:1:MANHATTAN|proximity": "63371d8482478d488e29",
"D:5x5_three:nonsq:2:EUCLIDEAN|allocation": "bd6e87b222d319174997",
"D:5x5_three:nonsq:2:EUCLIDEAN|direction": "a1ae6bc65c18d709a3e6",
"D:5x5_three:nonsq:2:EUCLIDEAN|proximity": "619c332d0299fcf7da34",
"D:5x5_three:nonsq:2:MANHATTAN|allocation": "bd6e87b222d319174997",
"D:5x5_three:nonsq:2:MANHATTAN|direction": "a1ae6bc65c18d709a3e6",
"D:5x5_three:nonsq:2:MANHATTAN|proximity": "619c332d0299fcf7da34",
"D:5x5_three:nonsq:3.7:EUCLIDEAN|allocation": "f12a1a27d879e89b282c",
"D:5x5_three:nonsq:3.7:EUCLIDEAN|direction": "a8f95902e8147af4ec67",
"D:5x5_three:nonsq:3.7:EUCLIDEAN|proximity": "e831089fd827da065e6d",
"D:5x5_three:nonsq:3.7:MANHATTAN|allocation": "f12a1a27d879e89b282c",
"D:5x5_three:nonsq:3.7:MANHATTAN|direction": "a8f95902e8147af4ec67",
"D:5x5_three:nonsq:3.7:MANHATTAN|proximity": "d4d70b67fe19acfbd8ae",
"D:5x5_three:nonsq:None:EUCLIDEAN|allocation": "f12a1a27d879e89b282c",
"D:5x5_three:nonsq:None:EUCLIDEAN|direction": "a8f95902e8147af4ec67",
"D:5x5_three:nonsq:None:EUCLIDEAN|proximity": "e831089fd827da065e6d",
"D:6x9_rand:desc_y:0:EUCLIDEAN|allocation": "778adaffbc5150ef6407",
"D:6x9_rand:desc_y:0:EUCLIDEAN|direction": "9bda93068008595f9577",
"D:6x9_rand:desc_y:0:EUCLIDEAN|proximity": "9bda93068008595f9577",
"D:6x9_rand:desc_y:0:MANHATTAN|allocation": "778adaffbc5150ef6407",
"D:6x9_rand:desc_y:0:MANHATTAN|direction": "9bda93068008595f9577",
"D:6x9_rand:desc_y:0:MANHATTAN|proximity": "9bda93068008595f9577",
"D:6x9_rand:desc_y:1.5:EUCLIDEAN|allocation": "d2c757cdf897ab8bcb74",
"D:6x9_rand:desc_y:1.5:EUCLIDEAN|direction": "e9e2540020e80bf9efa0",
"D:6x9_rand:desc_y:1.5:EUCLIDEAN|proximity": "d9231bc0f3da405a06ea",
"D:6x9_rand:desc_y:100:EUCLIDEAN|allocation": "4f2c45352194b1f498e4",
"D:6x9_rand:desc_y:100:EUCLIDEAN|direction": "e5d5a067a075cdd823de",
"D:6x9_rand:desc_y:100:EUCLIDEAN|proximity": "ddba3e5c8f6692b0355f",
"D:6x9_rand:desc_y:1:EUCLIDEAN|allocation": "856d2ad90be3d92d15ab",
"D:6x9_rand:desc_y:1:EUCLIDEAN|direction": "e93ff8c898b781f5c07d",
"D:6x9_rand:desc_y:1:EUCLIDEAN|proximity": "cac20282a3501593d209",
"D:6x9_rand:desc_y:1:MANHATTAN|allocation": "856d2ad90be3d92d15ab",
"D:6x9_rand:desc_y:1:MANHATTAN|direction": "e93ff8c898b781f5c07d",
"D:6x9_rand:desc_y:1:MANHATTAN|proximity": "cac20282a3501593d209",
"D:6x9_rand:desc_y:2:EUCLIDEAN|allocation": "ed9415355ea45e7af7be",
"D:6x9_rand:desc_y:2:EUCLIDEAN|direction": "b38b4e8689e3333b41a6",
"D:6x9_rand:desc_y:2:EUCLIDEAN|proximity": "0c7133c3b2066f9557bf",
"D:6x9_rand:desc_y:2:MANHATTAN|allocation": "35335d94cca716f8885e",
"D:6x9_rand:desc_y:2:MANHATTAN|direction": "23476d82bfe1b72e1eb3",
"D:6x9_rand:desc_y:2:MANHATTAN|proximity": "eceecb2ca215834ba7a4",
"D:6x9_rand:desc_y:3.7:EUCLIDEAN|allocation": "61cea8575fcba6f9dd00",
"D:6x9_rand:desc_y:3.7:EUCLIDEAN|direction": "87dbdf380542a11c9e63",
"D:6x9_rand:desc_y:3.7:EUCLIDEAN|proximity": "eceb833873734486ab27",
"D:6x9_rand:desc_y:3.7:MANHATTAN|allocation": "887f5c0b432fdf8725ba",
"D:6x9_rand:desc_y:3.7:MANHATTAN|direction": "92f7614b260385a2ebdb",
"D:6x9_rand:desc_y:3.7:MANHATTAN|proximity": "c61195107ffec09880f9",
"D:6x9_rand:desc_y:None:EUCLIDEAN|allocation": "4f2c45352194b1f498e4",
"D:6x9_rand:desc_y:None:EUCLIDEAN|direction": "e5d5a067a075cdd823de",
"D:6x9_rand:desc_y:None:EUCLIDEAN|proximity": "ddba3e5c8f6692b0355f",
"D:6x9_rand:nonsq:1:EUCLIDEAN|allocation": "d850308098152fd863fb",
"D:6x9_rand:nonsq:1:EUCLIDEAN|direction": "b70e3a066d2f760259f5",
"D:6x9_rand:nonsq:1:EUCLIDEAN|proximity": "6bfb170a46ac3094e537",
"D:6x9_rand:nonsq:1:MANHATTAN|allocation": "d850308098152fd863fb",
"D:6x9_rand:nonsq:1:MANHATTAN|direction": "b70e3a066d2f760259f5",
"D:6x9_rand:nonsq:1:MANHATTAN|proximity": "6bfb170a46ac3094e537",
"D:6x9_rand:nonsq:2:EUCLIDEAN|allocation": "30baac6b2da5c6ecb0d9",
"D:6x9_rand:nonsq:2:EUCLIDEAN|direction": "9ceed0576d4338c3838a",
"D:6x9_rand:nonsq:2:EUCLIDEAN|proximity": "b50357f8e32cfaa57be2",
"D:6x9_rand:nonsq:2:MANHATTAN|allocation": "30baac6b2da5c6ecb0d9",
"D:6x9_rand:nonsq:2:MANHATTAN|direction": "9ceed0576d4338c3838a",
"D:6x9_rand:nonsq:2:MANHATTAN|proximity": "b50357f8e32cfaa57be2",
"D:6x9_rand:nonsq:3.7:EUCLIDEAN|allocation": "f57fba61f27ed0fc3b24",
"D:6x9_rand:nonsq:3.7:EUCLIDEAN|direction": "79b06bbdd9b71d856884",
"D:6x9_rand:nonsq:3.7:EUCLIDEAN|proximity": "9a8623f75797323e0076",
"D:6x9_rand:nonsq:3.7:MANHATTAN|allocation": "9c83fd6c93559f1bd295",
"D:6x9_rand:nonsq:3.7:MANHATTAN|direction": "27a19e0d09589198f698",
"D:6x9_rand:nonsq:3.7:MANHATTAN|proximity": "f026439fc143308fd3f9",
"D:6x9_rand:nonsq:None:EUCLIDEAN|allocation": "fcffc9d9ce1715c31868",
"D:6x9_rand:nonsq:None:EUCLIDEAN|direction": "0c18138396586d432011",
"D:6x9_rand:nonsq:None:EUCLIDEAN|proximity": "9967cdd220188796f252",
"D:8x8_nan_inf:desc_y:0:EUCLIDEAN|allocation": "3af3819ddfe831b9c530",
"D:8x8_nan_inf:desc_y:0:EUCLIDEAN|direction": "22d2b3bc49de8dc84382",
"D:8x8_nan_inf:desc_y:0:EUCLIDEAN|proximity": "22d2b3bc49de8dc84382",
"D:8x8_nan_inf:desc_y:0:MANHATTAN|allocation": "3af3819ddfe831b9c530",
"D:8x8_nan_inf:desc_y:0:MANHATTAN|direction": "22d2b3bc49de8dc84382",
"D:8x8_nan_inf:desc_y:0:MANHATTAN|proximity": "22d2b3bc49de8dc84382",
"D:8x8_nan_inf:desc_y:1.5:EUCLIDEAN|allocation": "675bbcef45f639611c8f",
"D:8x8_nan_inf:desc_y:1.5:EUCLIDEAN|direction": "1cdf1aab572f488376eb",
"D:8x8_nan_inf:desc_y:1.5:EUCLIDEAN|proximity": "e45e7ce5646f22178966",
"D:8x8_nan_inf:desc_y:100:EUCLIDEAN|allocation": "2f41269e35095b4f04c7",
"D:8x8_nan_inf:desc_y:100:EUCLIDEAN|direction": "552ffbd4496589830d57",
"D:8x8_nan_inf:desc_y:100:EUCLIDEAN|proximity": "d4eec510fa1d28c27878",
"D:8x8_nan_inf:desc_y:1:EUCLIDEAN|allocation": "f249ae1ae3cea8dacf12",
"D:8x8_nan_inf:desc_y:1:EUCLIDEAN|direction": "7c3d8e750270a4ca407c",
"D:8x8_nan_inf:desc_y:1:EUCLIDEAN|proximity": "3dd187bed15a8a0c7962",
"D:8x8_nan_inf:desc_y:1:MANHATTAN|allocation": "f249ae1ae3cea8dacf12",
"D:8x8_nan_inf:desc_y:1:MANHATTAN|direction": "7c3d8e750270a4ca407c",
"D:8x8_nan_inf:desc_y:1:MANHATTAN|proximity": "3dd187bed15a8a0c7962",
"D:8x8_nan_inf:desc_y:2:EUCLIDEAN|allocation": "ed3fb1e6bb3953f521e5",
"D:8x8_nan_inf:desc_y:2:EUCLIDEAN|direction": "51d0569e3a041ab9c67f",
"D:8x8_nan_inf:desc_y:2:EUCLIDEAN|proximity": "c4bac69719e3b17254fb",
"D:8x8_nan_inf:desc_y:2:MANHATTAN|allocation": "8792791b5a76be535104",
"D:8x8_nan_inf:desc_y:2:MANHATTAN|direction": "2ae343d98d86e9e2f1ae",
"D:8x8_nan_inf:desc_y:2:MANHATTAN|proximity": "fe0e87e3ff3382b5b4fc",
"D:8x8_nan_inf:desc_y:3.7:EUCLIDEAN|allocation": "168fb94fe0698d233620",
"D:8x8_nan_inf:desc_y:3.7:EUCLIDEAN|direction": "dd2f242078c52e3fa42e",
"D:8x8_nan_inf:desc_y:3.7:EUCLIDEAN|proximity": "aba6f330dbbac7c3ae98",
"D:8x8_nan_inf:desc_y:3.7:MANHATTAN|allocation": "5057e68d0b356eb6265c",
"D:8x8_nan_inf:desc_y:3.7:MANHATTAN|direction": "0146cd2c7d289686f1e8",
"D:8x8_nan_inf:desc_y:3.7:MANHATTAN|proximity": "016de3270cd7b3dfddab",
"D:8x8_nan_inf:desc_y:None:EUCLIDEAN|allocation": "2f41269e35095b4f04c7",
"D:8x8_nan_inf:desc_y:None:EUCLIDEAN|direction": "552ffbd4496589830d57",
"D:8x8_nan_inf:desc_y:None:EUCLIDEAN|proximity": "d4eec510fa1d28c27878",
"D:8x8_nan_inf:nonsq:1:EUCLIDEAN|allocation": "d9965286b6b906e944be",
"D:8x8_nan_inf:nonsq:1:EUCLIDEAN|direction": "1babff92e62be1a00c6d",
"D:8x8_nan_inf:nonsq:1:EUCLIDEAN|proximity": "251f9812992a2c13bbb7",
"D:8x8_nan_inf:nonsq:1:MANHATTAN|allocation": "d9965286b6b906e944be",
"D:8x8_nan_inf:nonsq:1:MANHATTAN|direction": "1babff92e62be1a00c6d",
"D:8x8_nan_inf:nonsq:1:MANHATTAN|proximity": "251f9812992a2c13bbb7",
"D:8x8_nan_inf:nonsq:2:EUCLIDEAN|allocation": "7bfcb226cfb8c9b563ad",
"D:8x8_nan_inf:nonsq:2:EUCLIDEAN|direction": "2a8d3579ffc08dbcc3e9",
"D:8x8_nan_inf:nonsq:2:EUCLIDEAN|proximity": "8e1b66025479c26d5416",
"D:8x8_nan_inf:nonsq:2:MANHATTAN|allocation": "7bfcb226cfb8c9b563ad",
"D:8x8_nan_inf:nonsq:2:MANHATTAN|direction": "2a8d3579ffc08dbcc3e9",
"D:8x8_nan_inf:nonsq:2:MANHATTAN|proximity": "8e1b66025479c26d5416",
"D:8x8_nan_inf:nonsq:3.7:EUCLIDEAN|allocation": "7cedd6967e976521dd86",
"D:8x8_nan_inf:nonsq:3.7:EUCLIDEAN|direction": "345901fa63483b849bef",
"D:8x8_nan_inf:nonsq:3.7:EUCLIDEAN|proximity": "70c1055ad9b2cc8bcd8d",
"D:8x8_nan_inf:nonsq:3.7:MANHATTAN|allocation": "d89e1796b578cef77482",
"D:8x8_nan_inf:nonsq:3.7:MANHATTAN|direction": "d5391a722fbf25f6b308",
"D:8x8_nan_inf:nonsq:3.7:MANHATTAN|proximity": "4abab9f6742aefea4a4a",
"D:8x8_nan_inf:nonsq:None:EUCLIDEAN|allocation": "7cedd6967e976521dd86",
"D:8x8_nan_inf:nonsq:None:EUCLIDEAN|direction": "345901fa63483b849bef",
"D:8x8_nan_inf:nonsq:None:EUCLIDEAN|proximity": "70c1055ad9b2cc8bcd8d",
"G:1x7|allocation": "a25c684d39663f00a6c3",
"G:1x7|direction": "bf7fa0bc9388428ef050",
"G:1x7|proximity": "8c10f0534ca2385afbf6",
"G:5x5_three|allocation": "f12a1a27d879e89b282c",
"G:5x5_three|direction": "724ec9df4a1b3ceb9ae1",
"G:5x5_three|proximity": "1b7c00804e4a0abc2b65",
"G:6x9_rand|allocation": "65b8da740cd7633393cc",
"G:6x9_rand|direction": "c5e3e60619e1e80833d1",
"G:6x9_rand|proximity": "846b9ca987b99bd4632f",
"G:8x8_nan_inf|allocation": "9ef616ed6a31a779c609",
"G:8x8_nan_inf|direction": "d06d62a2659d1952137b",
"G:8x8_nan_inf|proximity": "c220088a05b73bd199f0",
"Gm:1x7|allocation": "bf9b8e91d8cefc882f3e",
"Gm:1x7|direction": "00a89076e192f9145cde",
"Gm:1x7|proximity": "00a89076e192f9145cde",
"Gm:5x5_three|allocation": "7b3aeb484c909a680c64",
"Gm:5x5_three|direction": "fbbb16c9e174a89aab62",
"Gm:5x5_three|proximity": "6830348a8956984c49ce",
"Gm:6x9_rand|allocation": "13fb569f364aeacf6444",
"Gm:6x9_rand|direction": "962b6dda162978057854",
"Gm:6x9_rand|proximity": "e4e04db81b65d86ccec9",
"Gm:8x8_nan_inf|allocation": "4156eedbf3ce783dfd5e",
"Gm:8x8_nan_inf|direction": "07ce1fbdfbe702b7a0df",
"Gm:8x8_nan_inf|proximity": "5323b232aefa7758f60b",
"K:11x10_corners:inf|allocation": "72910bce64c2fc8f9589",
"K:11x10_corners:inf|direction": "28f485582eace860d222",
"K:11x10_corners:inf|proximity": "3fb3ec6d8e057f3aa872",
"K:11x10_corners:md1man|allocation": "e40d6251aa87f4a00f56",
"K:11x10_corners:md1man|direction": "ab320c969213e89119bb",
"K:11x10_corners:md1man|proximity": "d489516df51002da9681",
"K:11x10_corners:md2|allocation": "84fa356959e92a3202a3",
"K:11x10_corners:md2|direction": "76ed31d31cfe1acfca72",
"K:11x10_corners:md2|proximity": "afaf521f4c985b6e0ef6",
"K:13x4_rand:inf|allocation": "09ce1119097710b783bb",
"K:13x4_rand:inf|direction": "f1d4493698a11482d57e",
"K:13x4_rand:inf|proximity": "0ec0af8d4e6e39aec343",
"K:13x4_rand:md1man|allocation": "1bfa0b7ff3e92dfcf5e8",
"K:13x4_rand:md1man|direction": "3984668480cabd916fe6",
"K:13x4_rand:md1man|proximity": "1584e504d7abbb1da3ca",
"K:13x4_rand:md2|allocation": "09ce1119097710b783bb",
"K:13x4_rand:md2|direction": "f1d4493698a11482d57e",
"K:13x4_rand:md2|proximity": "0ec0af8d4e6e39aec343",
"K:1x7:inf|allocation": "a25c684d39663f00a6c3",
"K:1x7:inf|direction": "bf7fa0bc9388428ef050",
"K:1x7:inf|proximity": "1028ff2bc360f235c8ab",
"K:1x7:md1man|allocation": "3627752a8a5ef364f65f",
"K:1x7:md1man|direction": "9d742bbc2b1d8064be34",
"K:1x7:md1man|proximity": "e83ac903677d5c58c2e7",
"K:1x7:md2|allocation": "exc:ValueError",
"K:1x7:md2|direction": "exc:ValueError",
"K:1x7:md2|proximity": "exc:ValueError",
"K:4x6_empty:inf|allocation": "45c88fac68a438dbde36",
"K:4x6_empty:inf|direction": "45c88fac68a438dbde36",
"K:4x6_empty:inf|proximity": "45c88fac68a438dbde36",
"K:4x6_empty:md1man|allocation": "45c88fac68a438dbde36",
"K:4x6_empty:md1man|direction": "45c88fac68a438dbde36",
"K:4x6_empty:md1man|proximity": "45c88fac68a438dbde36",
"K:4x6_empty:md2|allocation": "45c88fac68a438dbde36",
"K:4x6_empty:md2|direction": "45c88fac68a438dbde36",
"K:4x6_empty:md2|proximity": "45c88fac68a438dbde36",
"K:6x9_rand:inf|allocation": "4f2c45352194b1f498e4",
"K:6x9_rand:inf|direction": "e5d5a067a075cdd823de",
"K:6x9_rand:inf|proximity": "ddba3e5c8f6692b0355f",
"K:6x9_rand:md1man|allocation": "01ef07877e58422bde6a",
"K:6x9_rand:md1man|direction": "79e7a4dd1b6dd35a92fb",
"K:6x9_rand:md1man|proximity": "b3c8cf1c02718d7d22f4",
"K:6x9_rand:md2|allocation": "ed9415355ea45e7af7be",
"K:6x9_rand:md2|direction": "b38b4e8689e3333b41a6",
"K:6x9_rand:md2|proximity": "0c7133c3b2066f9557bf",
"K:8x8_nan_inf:inf|allocation": "2f41269e35095b4f04c7",
"K:8x8_nan_inf:inf|direction": "552ffbd4496589830d57",
"K:8x8_nan_inf:inf|proximity": "d4eec510fa1d28c27878",
"K:8x8_nan_inf:md1man|allocation": "189dec98e5b429637bd6",
"K:8x8_nan_inf:md1man|direction": "0b768831a3fbfdf88311",
"K:8x8_nan_inf:md1man|proximity": "28a712f4e49383ee18d9",
"K:8x8_nan_inf:md2|allocation": "ed3fb1e6bb3953f521e5",
"K:8x8_nan_inf:md2|direction": "51d0569e3a041ab9c67f",
"K:8x8_nan_inf:md2|proximity": "c4bac69719e3b17254fb",
"K:gc|allocation": "65b8da740cd7633393cc",
"K:gc|direction": "c5e3e60619e1e80833d1",
"K:gc|proximity": "846b9ca987b99bd4632f",
"K:int32:nonsq|allocation": "9c83fd6c93559f1bd295",
"K:int32:nonsq|direction": "27a19e0d09589198f698",
"K:int32:nonsq|proximity": "62bfb959ab547ab32547",
"L:11x10_corners:default|allocation": "72910bce64c2fc8f9589",
"L:11x10_corners:default|direction": "28f485582eace860d222",
"L:11x10_corners:default|proximity": "3fb3ec6d8e057f3aa872",
"L:13x4_rand:default|allocation": "09ce1119097710b783bb",
"L:13x4_rand:default|direction": "f1d4493698a11482d57e",
"L:13x4_rand:default|proximity": "0ec0af8d4e6e39aec343",
"L:1x1_0:default|allocation": "3d8106d92e9af40a7249",
"L:1x1_0:default|direction": "3d8106d92e9af40a7249",
"L:1x1_0:default|proximity": "3d8106d92e9af40a7249",
"L:1x1_t:default|allocation": "962daf9c977c9429e438",
"L:1x1_t:default|direction": "5d73d8bac17f2753f34f",
"L:1x1_t:default|proximity": "5d73d8bac17f2753f34f",
"L:1x7:default|allocation": "a25c684d39663f00a6c3",
"L:1x7:default|direction": "bf7fa0bc9388428ef050",
"L:1x7:default|proximity": "1028ff2bc360f235c8ab",
"L:3x4_all:default|allocation": "dea8638d0f1f81065d16",
"L:3x4_all:default|direction": "fd04be91b2b250549585",
"L:3x4_all:default|proximity": "fd04be91b2b250549585",
"L:4x6_empty:default|allocation": "45c88fac68a438dbde36",
"L:4x6_empty:default|direction": "45c88fac68a438dbde36",
"L:4x6_empty:default|proximity": "45c88fac68a438dbde36",
"L:5x5_single:default|allocation": "346ee3bf3e44fd57dd1e",
"L:5x5_single:default|direction": "a029148a7ad446767299",
"L:5x5_single:default|proximity": "0d9bd5ba9d631c7fc838",
"L:5x5_three:default|allocation": "27aed621e628b6aeeaff",
"L:5x5_three:default|direction": "ffc00a2edb17405c4778",
"L:5x5_three:default|proximity": "2924261cff27f9efab4f",
"L:6x9_rand:default|allocation": "4f2c45352194b1f498e4",
"L:6x9_rand:default|direction": "e5d5a067a075cdd823de",
"L:6x9_rand:default|proximity": "ddba3e5c8f6692b0355f",
"L:7x1:default|allocation": "768690a8232cf84dd3fb",
"L:7x1:default|direction": "f6a57375cc7e5be99794",
"L:7x1:default|proximity": "610c6d19108f76977c14",
"L:8x8_nan_inf:default|allocation": "2f41269e35095b4f04c7",
"L:8x8_nan_inf:default|direction": "552ffbd4496589830d57",
"L:8x8_nan_inf:default|proximity": "d4eec510fa1d28c27878",
"M:badmetric|allocation": "fcffc9d9ce1715c31868",
"M:badmetric|direction": "0c18138396586d432011",
"M:badmetric|proximity": "9967cdd220188796f252",
"T:5x5_three:[0]|allocation": "23a8af964d591435e442",
"T:5x5_three:[0]|direction": "53554c2d7a0d3361a76b",
"T:5x5_three:[0]|proximity": "a2abf4913eac2f0e9f7f",
"T:5x5_three:[1.0, inf]|allocation": "346ee3bf3e44fd57dd1e",
"T:5x5_three:[1.0, inf]|direction": "d341371733882545f611",
"T:5x5_three:[1.0, inf]|proximity": "87d8348808610d03d290",
"T:5x5_three:[1]|allocation": "346ee3bf3e44fd57dd1e",
"T:5x5_three:[1]|direction": "d341371733882545f611",
"T:5x5_three:[1]|proximity": "87d8348808610d03d290",
"T:5x5_three:[2, 3]|allocation": "001808864d3a0df1a630",
"T:5x5_three:[2, 3]|direction": "d4b83c307521feebbf83",
"T:5x5_three:[2, 3]|proximity": "c63ae3ca4bf856366e8c",
"T:5x5_three:[3, 3, 1]|allocation": "da6a4efff8ae46cf0526",
"T:5x5_three:[3, 3, 1]|direction": "7cd282d97841e3fb07ad",
"T:5x5_three:[3, 3, 1]|proximity": "657faeacb633cd1c310a",
"T:5x5_three:[9]|allocation": "ea188eeaa11e53d9750c",
"T:5x5_three:[9]|direction": "ea188eeaa11e53d9750c",
"T:5x5_three:[9]|proximity": "ea188eeaa11e53d9750c",
"T:5x5_three:[nan]|allocation": "ea188eeaa11e53d9750c",
"T:5x5_three:[nan]|direction": "ea188eeaa11e53d9750c",
"T:5x5_three:[nan]|proximity": "ea188eeaa11e53d9750c",
"T:6x9_rand:[0]|allocation": "e992a2d9ec6c695fda86",
"T:6x9_rand:[0]|direction": "fdeab9955bdef2d8969e",
"T:6x9_rand:[0]|proximity": "bce55a2ef2b6f374c35b",
"T:6x9_rand:[1.0, inf]|allocation": "2d54bd2d4978ab4776d3",
"T:6x9_rand:[1.0, inf]|direction": "c087b3ea95c5135247f5",
"T:6x9_rand:[1.0, inf]|proximity": "1283ce1f0b6135e77906",
"T:6x9_rand:[1]|allocation": "2d54bd2d4978ab4776d3",
"T:6x9_rand:[1]|direction": "c087b3ea95c5135247f5",
"T:6x9_rand:[1]|proximity": "1283ce1f0b6135e77906",
"T:6x9_rand:[2, 3]|allocation": "3c15ed64d8a13479c824",
"T:6x9_rand:[2, 3]|direction": "25dfe0dc7dec1a24d188",
"T:6x9_rand:[2, 3]|proximity": "50f7dc94b1e2297ee689",
"T:6x9_rand:[3, 3, 1]|allocation": "2d54bd2d4978ab4776d3",
"T:6x9_rand:[3, 3, 1]|direction": "c087b3ea95c5135247f5",
"T:6x9_rand:[3, 3, 1]|proximity": "1283ce1f0b6135e77906",
"T:6x9_rand:[9]|allocation": "0b22e9c184acecc4c1ae",
"T:6x9_rand:[9]|direction": "0b22e9c184acecc4c1ae",
"T:6x9_rand:[9]|proximity": "0b22e9c184acecc4c1ae",
"T:6x9_rand:[nan]|allocation": "0b22e9c184acecc4c1ae",
"T:6x9_rand:[nan]|direction": "0b22e9c184acecc4c1ae",
"T:6x9_rand:[nan]|proximity": "0b22e9c184acecc4c1ae",
"T:8x8_nan_inf:[0]|allocation": "73b25d236d4931517be5",
"T:8x8_nan_inf:[0]|direction": "5f9c683cb0c525836393",
"T:8x8_nan_inf:[0]|proximity": "556cfb129341a7d7b559",
"T:8x8_nan_inf:[1.0, inf]|allocation": "6b83b5126a855173737d",
"T:8x8_nan_inf:[1.0, inf]|direction": "fe2de7f8b13be30bfe78",
"T:8x8_nan_inf:[1.0, inf]|proximity": "7b5024da72876637b958",
"T:8x8_nan_inf:[1]|allocation": "88798e2196d572c08db4",
"T:8x8_nan_inf:[1]|direction": "21775d4856eda5a6ea42",
"T:8x8_nan_inf:[1]|proximity": "5138d2756956d7679e36",
"T:8x8_nan_inf:[2, 3]|allocation": "7b88c57ec9bfd668e4c9",
"T:8x8_nan_inf:[2, 3]|direction": "767c9b6d92bfc912a446",
"T:8x8_nan_inf:[2, 3]|proximity": "3a3ee54c60ec961e4f8a",
"T:8x8_nan_inf:[3, 3, 1]|allocation": "c415d38ab6decb0c86bd",
"T:8x8_nan_inf:[3, 3, 1]|direction": "bfee90e77c8530448588",
"T:8x8_nan_inf:[3, 3, 1]|proximity": "d6104ee7b6ab5de30510",
"T:8x8_nan_inf:[9]|allocation": "0dab37f0e676c9d9b658",
"T:8x8_nan_inf:[9]|direction": "0dab37f0e676c9d9b658",
"T:8x8_nan_inf:[9]|proximity": "0dab37f0e676c9d9b658",
"T:8x8_nan_inf:[nan]|allocation": "0dab37f0e676c9d9b658",
"T:8x8_nan_inf:[nan]|direction": "0dab37f0e676c9d9b658",
"T:8x8_nan_inf:[nan]|proximity": "0dab37f0e676c9d9b658",
"Tm:5x5_three|allocation": "a51290b6d35f66347e1b",
"Tm:5x5_three|direction": "7dddd59d3a8e7829c5e8",
"Tm:5x5_three|proximity": "57d13430c3fdd94fe368",
"Tm:6x9_rand|allocation": "7d76f94f311fd2f49114",
"Tm:6x9_rand|direction": "1421477554f6dab4d6d9",
"Tm:6x9_rand|proximity": "9eedb53ccd7de0251bb1",
"Tm:8x8_nan_inf|allocation": "6f5d0e98acdbf3853515",
"Tm:8x8_nan_inf|direction": "678def72d5d73126597b",
"Tm:8x8_nan_inf|proximity": "386d1183023e875df174",
"Y:bool|allocation": "2d54bd2d4978ab4776d3",
"Y:bool|direction": "0c18138396586d432011",
"Y:bool|proximity": "9967cdd220188796f252",
"Y:f32nan|allocation": "86bc5e274d966fe58582",
"Y:f32nan|direction": "4c42cd9af074adc519fb",
"Y:f32nan|proximity": "f1490c1ef1a1b864f3a8",
"Y:float32|allocation": "fcffc9d9ce1715c31868",
"Y:float32|direction": "0c18138396586d432011",
"Y:float32|proximity": "9967cdd220188796f252",
"Y:int32|allocation": "fcffc9d9ce1715c31868",
"Y:int32|direction": "0c18138396586d432011",
"Y:int32|proximity": "9967cdd220188796f252",
"Y:int64|allocation": "fcffc9d9ce1715c31868",
"Y:int64|direction": "0c18138396586d432011",
"Y:int64|proximity": "9967cdd220188796f252",
"Y:int8|allocation": "fcffc9d9ce1715c31868",
"Y:int8|direction": "0c18138396586d432011",
"Y:int8|proximity": "9967cdd220188796f252",
"Y:uint8|allocation": "fcffc9d9ce1715c31868",
"Y:uint8|direction": "0c18138396586d432011",
"Y:uint8|proximity": "9967cdd220188796f252",
"Yt:bool|allocation": "05e7a1d65e82f5b92178",
"Yt:bool|direction": "a12ce1d1f61aada2a770",
"Yt:bool|proximity": "2654ea6fd17df5958ef1",
"Yt:float32|allocation": "05e7a1d65e82f5b92178",
"Yt:float32|direction": "cec4a7bf179413b2c319",
"Yt:float32|proximity": "3045b487ab4c2a511f35",
"Yt:int32|allocation": "05e7a1d65e82f5b92178",
"Yt:int32|direction": "cec4a7bf179413b2c319",
"Yt:int32|proximity": "3045b487ab4c2a511f35",
"Yt:int64|allocation": "05e7a1d65e82f5b92178",
"Yt:int64|direction": "cec4a7bf179413b2c319",
"Yt:int64|proximity": "3045b487ab4c2a511f35",
"Yt:int8|allocation": "05e7a1d65e82f5b92178",
"Yt:int8|direction": "cec4a7bf179413b2c319",
"Yt:int8|proximity": "3045b487ab4c2a511f35",
"Yt:uint8|allocation": "05e7a1d65e82f5b92178",
"Yt:uint8|direction": "cec4a7bf179413b2c319",
"Yt:uint8|proximity": "3045b487ab4c2a511f35",
"dims:allocation": "ValueError:raster.coords should be named as coordinates:(y, x)",
"dims:direction": "ValueError:raster.coords should be named as coordinates:(y, x)",
"dims:proximity": "ValueError:raster.coords should be named as coordinates:(y, x)",
"gcrange:allocation": "ValueError",
"gcrange:direction": "ValueError",
"gcrange:proximity": "ValueError",
"named:allocation": "e6864e394a6969e4431c",
"named:direction": "9de65df1c9f93765259e",
"named:proximity": "0f08506586deba5ed690"
}
'''
try:
    EXPECTED = json.loads(_EXPECTED_JSON)
except ValueError:
    EXPECTED = {}


def main():
    here = os.path.dirname(os.path.abspath(xrspatial.__file__))
    print("xrspatial from", here)
    if "--record" in sys.argv:
        table, errs = compute_all()
        for e in errs[:40]:
            print("ORACLE:", e, file=sys.stderr)
        print("oracle errors:", len(errs), file=sys.stderr)
        with open(sys.argv[sys.argv.index("--record") + 1], "w") as fh:
            json.dump(table, fh, indent=0, sort_keys=True)
        return 0
    table, errs = compute_all()
    bad = 0
    for k in sorted(set(table) | set(EXPECTED)):
        if table.get(k) != EXPECTED.get(k):
            bad += 1
            print("MISMATCH", k, "expected", EXPECTED.get(k), "got",
                  table.get(k))
    for e in errs[:40]:
        print("ORACLE:", e)
    print("%d results compared, %d mismatches, %d oracle violations"
          % (len(table), bad, len(errs)))
    return 1 if (bad or errs) else 0


if __name__ == "__main__":
    sys.exit(main())
