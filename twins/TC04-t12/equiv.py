"""Differential test for crosstab() (property C04).

Runs xrspatial.zonal.crosstab on a deterministic family of inputs (several
dtypes, NaN/inf, odd shapes, nodata, zone_ids / cat_ids subsets, permutations
and absent ids, numpy and dask backends, 2-D count/percentage, 3-D seven
aggregates) and
  (a) compares every 2-D / 3-D table against a brute-force contingency table
      computed independently with plain Python loops, and
  (b) compares a digest of the exact output (labels, dtypes, raw bytes,
      exception types) per group of cases with digests recorded from the
      unmodified tree.
Exit 0 if everything is identical, 1 otherwise.
Usage: equiv.py [--record]
"""
import hashlib
import math
import sys
import warnings

import dask.array as da
import numpy as np
import pandas as pd
import xarray as xr

import xrspatial
from xrspatial.zonal import crosstab

warnings.filterwarnings("ignore")
import dask  # noqa: E402
dask.config.set(scheduler="synchronous")
STATS = {"n": 0, "exc": {}, "dk": 0}

EXPECTED = {}  # filled below (recorded from the unmodified tree)


def lab(x):
    return "%s:%r" % (type(x).__name__, x.item() if hasattr(x, "item") else x)


def df_digest(df):
    h = hashlib.sha256()
    h.update(type(df).__name__.encode())
    h.update(repr([lab(c) for c in df.columns]).encode())
    h.update(repr([lab(i) for i in df.index]).encode())
    for k in range(df.shape[1]):
        col = df.iloc[:, k]
        h.update(str(col.dtype).encode())
        h.update(np.ascontiguousarray(col.to_numpy()).tobytes())
    return h.hexdigest()


def make_zones(rng, shape, dtype, kind):
    z = rng.integers(0, 5, size=shape)
    if kind == 1:
        z = z * 3 - 4          # negative, non-contiguous ids
    z = z.astype(dtype)
    if np.issubdtype(dtype, np.floating) and z.size > 2:
        flat = z.ravel()
        flat[rng.integers(0, flat.size)] = np.nan
        flat[rng.integers(0, flat.size)] = np.inf
        flat[rng.integers(0, flat.size)] = -np.inf
    return z


def make_values(rng, shape, dtype):
    v = rng.integers(-2, 6, size=shape).astype(dtype)
    if np.issubdtype(dtype, np.floating) and v.size > 2:
        flat = v.ravel()
        k = max(1, flat.size // 6)
        flat[rng.integers(0, flat.size, size=k)] = np.nan
        flat[rng.integers(0, flat.size)] = np.inf
        flat[rng.integers(0, flat.size)] = 2.5
    return v


def brute_2d(z, v, zone_ids, cat_ids, nodata, agg):
    zf = [float(x) for x in z.ravel()]
    vf = [float(x) for x in v.ravel()]
    uz = sorted({x for x in zf if math.isfinite(x)})

    def valid(x):
        return math.isfinite(x) and (nodata is None or x != nodata)
    uc = sorted({x for x in vf if valid(x)})
    rows = uz if zone_ids is None else [x for x in uz if x in [float(t) for t in zone_ids]]
    cols = uc if cat_ids is None else [float(c) for c in cat_ids if float(c) in uc]
    table = []
    for zz in rows:
        cells = [b for a, b in zip(zf, vf) if a == zz and valid(b)]
        r = []
        for c in cols:
            n = sum(1 for b in cells if b == c)
            if agg == "percentage":
                r.append(n / len(cells) * 100 if cells else float("nan"))
            else:
                r.append(n)
        table.append(r)
    return rows, cols, table


def check_2d(df, z, v, zone_ids, cat_ids, nodata, agg):
    rows, cols, table = brute_2d(z, v, zone_ids, cat_ids, nodata, agg)
    if [float(x) for x in df["zone"]] != rows:
        return "zone labels %r != %r" % (list(df["zone"]), rows)
    got_cols = [float(c) for c in df.columns[1:]]
    if got_cols != cols:
        return "columns %r != %r" % (got_cols, cols)
    got = df[df.columns[1:]].to_numpy(dtype=float).reshape(len(rows), len(cols))
    exp = np.array(table, dtype=float).reshape(len(rows), len(cols))
    if agg == "percentage":
        ok = np.allclose(got, exp, rtol=1e-5, atol=1e-5, equal_nan=True)
        for r in got:
            if len(r) and cat_ids is None and not np.isnan(r).any():
                ok = ok and abs(r.sum() - 100) < 1e-3
    else:
        ok = np.array_equal(got, exp)
    return None if ok else "table mismatch\n%r\n%r" % (got, exp)


def to_da(arr, dims, coords=None, chunks=None):
    data = arr if chunks is None else da.from_array(arr, chunks=chunks)
    return xr.DataArray(data, dims=dims, coords=coords)


def run(zones, values, **kw):
    try:
        df = crosstab(zones, values, **kw)
        if not isinstance(df, pd.DataFrame):
            df = df.compute()
        STATS["n"] += 1
        return df, df_digest(df)
    except Exception as e:  # exception type is part of the behaviour
        STATS["n"] += 1
        STATS["exc"][type(e).__name__] = STATS["exc"].get(type(e).__name__, 0) + 1
        return None, "EXC:" + type(e).__name__


def selections(rng, uz, uc):
    uz = list(uz)
    uc = list(uc)
    sel = [(None, None)]
    if uz and uc:
        pz = [uz[i] for i in rng.permutation(len(uz))]
        pc = [uc[i] for i in rng.permutation(len(uc))]
        sel.append((pz, pc))
        sel.append((pz[: max(1, len(pz) // 2)] + [99], None))
        sel.append((None, [77] + pc[: max(1, len(pc) // 2)]))
        sel.append(([uz[-1], 1234, uz[0]], [uc[-1], uc[0], -55]))
        sel.append(([555], [uc[0]]))
    def dedupe(ids):
        if ids is None:
            return None
        out = []
        for i in ids:
            if i not in out:
                out.append(i)
        return out
    return [(dedupe(a), dedupe(b)) for a, b in sel]


def main():
    record = "--record" in sys.argv
    print("xrspatial from", xrspatial.__file__)
    groups = {}
    failures = []

    def add(group, case, dig):
        groups.setdefault(group, hashlib.sha256()).update((case + "=" + dig + ";").encode())

    shapes = [(1, 1), (3, 5), (7, 4), (6, 6), (1, 9)]
    zdtypes = [np.int32, np.int64, np.float32, np.float64]
    vdtypes = [np.int8, np.int32, np.int64, np.uint16, np.float32, np.float64]
    seed = 0
    # ---------------- 2-D ----------------
    for shape in shapes:
        for zi, zdt in enumerate(zdtypes):
            for vi, vdt in enumerate(vdtypes):
                seed += 1
                rng = np.random.default_rng(seed)
                z = make_zones(rng, shape, zdt, (zi + vi) % 2)
                v = make_values(rng, shape, vdt) if vdt != np.uint16 else \
                    rng.integers(0, 6, size=shape).astype(vdt)
                for nodata in (None, 0, 3):
                    fz = z[np.isfinite(z)] if z.dtype.kind == "f" else z.ravel()
                    vv = v.ravel()
                    m = np.isfinite(vv) if v.dtype.kind == "f" else np.ones(vv.shape, bool)
                    if nodata is not None:
                        m &= vv != nodata
                    uz, uc = np.unique(fz), np.unique(vv[m])
                    for si, (zid, cid) in enumerate(selections(rng, uz.tolist(), uc.tolist())):
                        for agg in ("count", "percentage"):
                            backends = [("np", None)]
                            if (seed + si) % 11 == 0:
                                backends.append(("dk", (max(1, shape[0] // 2), max(1, shape[1] // 2 + 1))))
                            for bname, chunks in backends:
                                kw = dict(zone_ids=zid, cat_ids=cid, agg=agg)
                                if nodata is not None:
                                    kw["nodata_values"] = nodata
                                df, dig = run(to_da(z, ("y", "x"), chunks=chunks),
                                              to_da(v, ("y", "x"), chunks=chunks), **kw)
                                case = "2d-%s-%s-%s-%s-n%s-s%d-%s-%s" % (
                                    shape, zdt.__name__, vdt.__name__, seed, nodata, si, agg, bname)
                                add("2d-%s-%s" % (bname, agg), case, dig)
                                if df is not None:
                                    err = check_2d(df, z, v, zid, cid, nodata, agg)
                                    if err:
                                        failures.append(case + ": " + err)
    # ---------------- 3-D ----------------
    aggs3 = ["mean", "max", "min", "sum", "std", "var", "count"]
    for shape in [(2, 3, 4), (3, 5, 2), (1, 1, 1), (4, 6, 6)]:
        for zdt in (np.int64, np.float64):
            for vdt in (np.int32, np.float32, np.float64):
                seed += 1
                rng = np.random.default_rng(seed)
                z = make_zones(rng, shape[1:], zdt, seed % 2)
                v = make_values(rng, shape, vdt)
                cats = [10 * (i + 1) for i in range(shape[0])]
                fz = z[np.isfinite(z)] if z.dtype.kind == "f" else z.ravel()
                uz = np.unique(fz).tolist()
                for nodata in (None, 1):
                    for si, (zid, cid) in enumerate(selections(rng, uz, cats)):
                        for agg in aggs3:
                            backends = [("np", None)]
                            if agg == "count" and (seed + si) % 3 == 0:
                                backends.append(("dk", (shape[0], max(1, shape[1] // 2), max(1, shape[2] // 2))))
                            for bname, chunks in backends:
                                kw = dict(zone_ids=zid, cat_ids=cid, agg=agg)
                                if nodata is not None:
                                    kw["nodata_values"] = nodata
                                zc = None if chunks is None else chunks[1:]
                                df, dig = run(to_da(z, ("y", "x"), chunks=zc),
                                              to_da(v, ("cat", "y", "x"), coords={"cat": cats}, chunks=chunks),
                                              **kw)
                                case = "3d-%s-%s-%s-%s-n%s-s%d-%s-%s" % (
                                    shape, zdt.__name__, vdt.__name__, seed, nodata, si, agg, bname)
                                add("3d-%s-%s" % (bname, agg), case, dig)
                                if df is not None and agg in ("count", "sum"):
                                    # independent check of count / sum per layer per zone
                                    rows = uz if zid is None else [x for x in uz if x in zid]
                                    cols = cats if cid is None else [c for c in cid if c in cats]
                                    if [float(x) for x in df["zone"]] != [float(x) for x in rows]:
                                        failures.append(case + ": zone labels")
                                        continue
                                    if list(df.columns[1:]) != cols:
                                        failures.append(case + ": columns")
                                        continue
                                    for ri, zz in enumerate(rows):
                                        for c in cols:
                                            lay = v[cats.index(c)][z == zz].astype(float)
                                            lay = lay[np.isfinite(lay)]
                                            if nodata is not None:
                                                lay = lay[lay != nodata]
                                            exp = len(lay) if agg == "count" else lay.sum()
                                            got = float(df[c].iloc[ri])
                                            if not (got == exp or (agg == "sum" and np.isclose(got, exp, rtol=1e-5))):
                                                failures.append("%s: zone %r cat %r got %r exp %r" % (case, zz, c, got, exp))
    # layer argument / transposed 3-D input, error paths
    rng = np.random.default_rng(4242)
    z = make_zones(rng, (4, 5), np.int32, 0)
    v = make_values(rng, (4, 5, 3), np.float64)
    for layer in (None, 0, 1, 2, -1, 3, 7):
        zz = z if layer in (2, -1) else (z[:, :3].T.copy() if layer == 1 else z[:3, :3])
        df, dig = run(to_da(zz, ("y", "x")),
                      to_da(v, ("a", "b", "c")), layer=layer, agg="mean")
        add("misc", "layer%r" % (layer,), dig)
    for kw in (dict(agg="mean"), dict(agg="nope")):
        df, dig = run(to_da(z, ("y", "x")), to_da(make_values(rng, (4, 5), np.int32), ("y", "x")), **kw)
        add("misc", "bad-agg-%s" % kw["agg"], dig)
    df, dig = run(to_da(z, ("y", "x"), chunks=(2, 5)),
                  to_da(make_values(rng, (2, 4, 5), np.float32), ("cat", "y", "x"), chunks=(1, 4, 5)), agg="sum")
    add("misc", "dask3d-sum", dig)
    df, dig = run(to_da(z, ("y", "x"), chunks=(2, 5)),
                  to_da(make_values(rng, (2, 4, 5), np.float32), ("cat", "y", "x"), chunks=(1, 4, 2)), agg="count")
    add("misc", "dask3d-rechunk", dig)
    df, dig = run(to_da(z.astype(bool), ("y", "x")), to_da(z, ("y", "x")))
    add("misc", "bool-zones", dig)
    df, dig = run(to_da(np.full((3, 3), np.nan), ("y", "x")), to_da(np.ones((3, 3)), ("y", "x")), agg="percentage")
    add("misc", "all-nan-zones", dig)
    df, dig = run(to_da(np.ones((3, 3)), ("y", "x")), to_da(np.full((3, 3), np.nan), ("y", "x")), agg="percentage")
    add("misc", "all-nan-values", dig)

    got = {k: h.hexdigest()[:16] for k, h in sorted(groups.items())}
    if record:
        print("EXPECTED = {")
        for k, d in got.items():
            print("    %r: %r," % (k, d))
        print("}")
    for k, d in got.items():
        if not record and EXPECTED.get(k) != d:
            failures.append("digest of group %s differs: %s != %s" % (k, d, EXPECTED.get(k)))
    if not record and set(EXPECTED) != set(got):
        failures.append("group set differs")
    for f in failures[:30]:
        print("FAIL", f)
    print("cases:", STATS["n"], "exceptions:", STATS["exc"])
    print("groups:", len(got), "failures:", len(failures))
    return 1 if failures else 0


# recorded from the unmodified tree (numpy 2.5.3, pandas 3.0.5, dask 2026.8.0)
EXPECTED.update({
    '2d-dk-count': 'ebcff8ae397c0b15',
    '2d-dk-percentage': '71f171a4fb973317',
    '2d-np-count': 'c3a7dd59a8933822',
    '2d-np-percentage': '42d10c8100cbb463',
    '3d-dk-count': '9c04f15381f863e0',
    '3d-np-count': '19a0bda0499fd752',
    '3d-np-max': '346fc5dd69faf105',
    '3d-np-mean': 'cb558d71ebe2b2b0',
    '3d-np-min': '814b98ce5172aa16',
    '3d-np-std': '0a30967422b2a0de',
    '3d-np-sum': '251e14a30d8cc57b',
    '3d-np-var': 'fe0a8dc440a9daef',
    'misc': '1a0d6a7bdfc0781d',
})

if __name__ == "__main__":
    sys.exit(main())
