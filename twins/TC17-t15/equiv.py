"""Differential test for xrspatial.local (property C17).

Runs every public local operator on many datasets (2..6 layers, ints/floats,
ties, NaN, odd shapes, data_vars subsets/orders, every ref_var choice, 3D and
dask-backed inputs, invalid arguments) and

  1. compares the results with an independent per-cell reference written
     directly from the definitions, and
  2. compares a digest of *everything observed* (values, dtypes, shapes,
     attrs, exception types and messages) with the digest recorded on the
     unmodified tree.

Exit status 0 when identical, 1 otherwise.
Usage: equiv.py [--record]   (--record only prints the digest)
"""
import hashlib
import itertools
import sys

import numpy as np
import xarray as xr

import xrspatial
from xrspatial import local as L

EXPECTED_DIGEST = "a1996bb7285e1ccb24465c80b748b69c14b88a96510a182f65169f96bc02812c"

FAILS = []
H = hashlib.sha256()


def note(*parts):
    for p in parts:
        H.update(repr(p).encode())
        H.update(b'|')


def note_array(a):
    a = np.asarray(a)
    note(a.dtype.str, a.shape)
    H.update(np.ascontiguousarray(a).tobytes())


def observe(tag, f, *args, **kw):
    """Call f, fold the outcome into the digest, return result or None."""
    try:
        r = f(*args, **kw)
    except Exception as e:  # noqa
        msg = str(e)
        if '0x' in msg:
            msg = '<addr>'
        note(tag, 'EXC', type(e).__name__, msg)
        return None
    note(tag, 'OK', type(r).__name__, r.dims, sorted(r.coords), r.name)
    note_array(r.data)
    if 'key' in r.attrs:
        note([(k, type(k).__name__, v, [type(x).__name__ for x in v])
              for k, v in r.attrs['key'].items()])
    note(sorted(r.attrs))
    return r


def same(a, b):
    a = np.asarray(a)
    b = np.asarray(b)
    return (a.shape == b.shape and a.dtype == b.dtype
            and np.array_equal(a, b, equal_nan=True))


def check(tag, got, exp):
    if got is None or not same(got.data, exp):
        FAILS.append(tag)


# ---------------------------------------------------------------- reference
def cells(ds, names):
    lay = [np.asarray(ds[n].data) for n in names]
    shape = lay[0].shape
    for idx in np.ndindex(*shape):
        yield tuple(a[idx].item() for a in lay)


def finish(vals, ds, names):
    return np.array(vals).reshape(-1, ds[names[0]].shape[1])


NPF = dict(max=np.max, mean=np.mean, median=np.median, min=np.min,
           std=np.std, sum=np.sum)


def ref_cell_stats(ds, names, func):
    return finish([NPF[func](np.array(c)) for c in cells(ds, names)],
                  ds, names)


def isnan_any(c):
    return any(x != x for x in c)


def ref_freq(ds, names, ref, which):
    refs = np.asarray(ds[ref].data).ravel()
    out = []
    for r, c in zip(refs, cells(ds, names)):
        if isnan_any(c):
            out.append(float('nan'))
            continue
        if which == 'lt':
            out.append(sum(1 for x in c if x < r))
        elif which == 'eq':
            out.append(sum(1 for x in c if x == r))
        else:
            out.append(sum(1 for x in c if x > r))
    return finish(out, ds, names)


def ref_position(ds, names, lowest):
    out = []
    for c in cells(ds, names):
        if isnan_any(c):
            out.append(float('nan'))
            continue
        best = 0
        for i in range(1, len(c)):
            if (c[i] < c[best]) if lowest else (c[i] > c[best]):
                best = i
        out.append(best + 1)
    return finish(out, ds, names)


def ref_rank(ds, names, ref):
    refs = np.asarray(ds[ref].data).ravel()
    out = []
    for r, c in zip(refs, cells(ds, names)):
        if isnan_any(c) or r - 1 >= len(c):
            out.append(float('nan'))
            continue
        out.append(sorted(c)[int(r) - 1])
    return finish(out, ds, names)


def ref_combine(ds, names):
    ids = {}
    out = []
    for c in cells(ds, names):
        if isnan_any(c):
            out.append(float('nan'))
            continue
        if c not in ids:
            ids[c] = len(ids) + 1
        out.append(ids[c])
    return finish(out, ds, names), {v: k for k, v in ids.items()}


# ------------------------------------------------------------------- inputs
def make_ds(rng, shape, n, kind, nan_frac, with_ref=True):
    d = {}
    for i in range(n):
        if kind == 'int64':
            a = rng.integers(-2, 4, size=shape).astype(np.int64)
        elif kind == 'int32':
            a = rng.integers(0, 3, size=shape).astype(np.int32)
        elif kind == 'float64':
            a = rng.integers(-3, 4, size=shape).astype(np.float64) / 2
        elif kind == 'float32':
            a = (rng.integers(-3, 4, size=shape) / 3).astype(np.float32)
        elif kind == 'real':
            a = rng.normal(size=shape)
        else:  # mixed
            if i % 2:
                a = rng.integers(-2, 3, size=shape).astype(np.int64)
            else:
                a = rng.integers(-4, 5, size=shape).astype(np.float64) / 2
        if a.dtype.kind == 'f' and nan_frac:
            a[rng.random(shape) < nan_frac] = np.nan
        d['v%d' % i] = (['y', 'x'][:len(shape)] if len(shape) <= 2
                        else ['b', 'y', 'x'], a)
    if with_ref:
        d['ref'] = (d['v0'][0], rng.integers(1, n + 1, size=shape))
    return xr.Dataset(d)


def run_all(tag, ds, names, ref, verify=True):
    dv = names
    exp_names = names
    if names is None:
        exp_names = list(ds.data_vars)
    nr = [v for v in exp_names if v != ref]
    dvr = None if names is None else nr

    for f in sorted(NPF):
        r = observe((tag, 'cell_stats', f), L.cell_stats, ds, dv, f)
        if verify:
            check((tag, 'cell_stats', f), r, ref_cell_stats(ds, exp_names, f))

    r = observe((tag, 'combine'), L.combine, ds, dv)
    if verify:
        e, key = ref_combine(ds, exp_names)
        check((tag, 'combine'), r, e)
        if r is None or r.attrs.get('key') != key or \
                list(r.attrs['key']) != list(key):
            FAILS.append((tag, 'combine-key'))

    r = observe((tag, 'lowest'), L.lowest_position, ds, dv)
    if verify:
        check((tag, 'lowest'), r, ref_position(ds, exp_names, True))
    r = observe((tag, 'highest'), L.highest_position, ds, dv)
    if verify:
        check((tag, 'highest'), r, ref_position(ds, exp_names, False))

    if ref is None:
        return
    rl = observe((tag, 'lesser'), L.lesser_frequency, ds, ref, dvr)
    re_ = observe((tag, 'equal'), L.equal_frequency, ds, ref, dvr)
    rg = observe((tag, 'greater'), L.greater_frequency, ds, ref, dvr)
    rr = observe((tag, 'rank'), L.rank, ds, ref, dvr)
    observe((tag, 'popularity'), L.popularity, ds, ref, dvr)
    if verify:
        check((tag, 'lesser'), rl, ref_freq(ds, nr, ref, 'lt'))
        check((tag, 'equal'), re_, ref_freq(ds, nr, ref, 'eq'))
        check((tag, 'greater'), rg, ref_freq(ds, nr, ref, 'gt'))
        check((tag, 'rank'), rr, ref_rank(ds, nr, ref))
        tot = rl.data + re_.data + rg.data
        nanmask = np.isnan(tot)
        if not np.all(tot[~nanmask] == len(nr)):
            FAILS.append((tag, 'freq-sum'))


def main():
    if not xrspatial.__file__.startswith('/tmp/t5/TC17/'):
        print('wrong library', xrspatial.__file__)
        return 2
    rng = np.random.default_rng(1717)
    shapes = [(1, 1), (1, 7), (5, 1), (3, 4), (7, 5), (2, 9)]
    kinds = ['int64', 'int32', 'float64', 'float32', 'real', 'mixed']
    case = 0
    for n in range(2, 7):
        for kind in kinds:
            for nan_frac in (0.0, 0.25):
                shape = shapes[case % len(shapes)]
                ds = make_ds(rng, shape, n, kind, nan_frac)
                layers = ['v%d' % i for i in range(n)]
                tag = ('rand', case)
                # default data_vars, ref is the integer layer
                run_all(tag + ('default',), ds, None, 'ref')
                # all layers, explicit
                run_all(tag + ('all',), ds, layers + ['ref'], 'ref')
                # reversed order / subset
                run_all(tag + ('rev',), ds, layers[::-1], 'ref')
                k = 2 + case % (n - 1)
                sub = list(rng.permutation(layers)[:k])
                sub = [str(s) for s in sub]
                run_all(tag + ('sub',), ds, sub, 'ref')
                # another ref_var choice (values need not be valid indices)
                if kind in ('int64', 'int32'):
                    ds2 = ds.copy()
                    ds2['v0'] = (ds['v0'].dims,
                                 rng.integers(1, n + 1, size=shape))
                    run_all(tag + ('ref-v0',), ds2,
                            layers[1:] + ['ref'], 'v0')
                case += 1

    # hand-made ties / NaN / equal tuples across int and float
    a = np.array([[1, 1, 2], [2, 1, 1]])
    b = np.array([[1., 1., 2.], [np.nan, 1., 1.]])
    c = np.array([[3, 1, 2], [2, 0, 1]])
    r = np.array([[1, 2, 3], [3, 2, 1]])
    ds = xr.Dataset({'a': (('y', 'x'), a), 'b': (('y', 'x'), b),
                     'c': (('y', 'x'), c), 'r': (('y', 'x'), r)})
    for names in (None, ['a', 'b', 'c'], ['c', 'a'], ['b', 'a'],
                  ['c', 'b', 'a', 'r']):
        run_all(('hand', tuple(names or ())), ds, names, 'r')
    # a single layer: only recorded
    run_all(('hand', 'single'), ds, ['a'], 'r', verify=False)
    # ref beyond the layer count, inf, negative zero
    d = xr.Dataset({
        'p': (('y', 'x'), np.array([[0.0, -0.0, np.inf], [-np.inf, 1, 1]])),
        'q': (('y', 'x'), np.array([[-0.0, 0.0, np.inf], [np.nan, 1, 2]])),
        'r': (('y', 'x'), np.array([[1, 2, 3], [1, 5, 2]]))})
    run_all(('edge',), d, ['p', 'q'], 'r', verify=False)
    observe(('edge', 'combine'), L.combine, d, ['p', 'q'])

    # 3D and dask-backed data: only recorded (digest), not modelled
    ds3 = make_ds(rng, (2, 3, 4), 3, 'mixed', 0.2)
    run_all(('3d',), ds3, None, 'ref', verify=False)
    run_all(('3d', 'sub'), ds3, ['v2', 'v0'], 'ref', verify=False)
    try:
        import dask.array as da  # noqa
        dsd = make_ds(rng, (4, 6), 3, 'mixed', 0.2).chunk({'y': 2, 'x': 3})
        run_all(('dask',), dsd, None, 'ref', verify=False)
        run_all(('dask', 'sub'), dsd, ['v1', 'v0'], 'ref', verify=False)
    except ImportError:
        pass

    # ------------------------------------------------- argument handling
    good = make_ds(rng, (3, 4), 3, 'mixed', 0.2)
    arr = good['v0']
    raster_choices = [good, arr, arr.data, None, {'v0': arr}]
    ref_choices = ['ref', 'nope', 3, None, b'ref', ['ref'], 'v0']
    dv_choices = [None, [], '', 0, (), ('v0', 'v1'), ['v0', 'v1'],
                  ['v1', 'v0', 'v1'], ['v0', 1], [1], ['v0', 'zz'], ['zz'],
                  ['ref', 'v0'], ['ref'], 'v0', {'v0', 'v1'}, ['v0'],
                  np.array(['v0', 'v1']), ['v0', 'ref', 'zz'],
                  ('ref', 3), [None]]
    func_choices = ['sum', 'SUM', 'var', None, 3, 'max']
    for (i, ra), (j, dv) in itertools.product(enumerate(raster_choices),
                                             enumerate(dv_choices)):
        for g in (L.combine, L.lowest_position, L.highest_position):
            observe(('arg', g.__name__, i, j), g, ra, dv)
            observe(('argkw', g.__name__, i, j), g, raster=ra, data_vars=dv)
        for k, fu in enumerate(func_choices):
            observe(('arg', 'cell_stats', i, j, k), L.cell_stats, ra, dv, fu)
        for k, rv in enumerate(ref_choices):
            for g in (L.lesser_frequency, L.equal_frequency,
                      L.greater_frequency, L.rank, L.popularity):
                observe(('arg', g.__name__, i, j, k), g, ra, rv, dv)
                observe(('argkw', g.__name__, i, j, k), g,
                        raster=ra, ref_var=rv, data_vars=dv)
    # caller's list must not be modified
    mine = ['v1', 'v0']
    for g in (L.combine, L.lowest_position, L.highest_position, L.cell_stats):
        g(good, mine)
    for g in (L.lesser_frequency, L.equal_frequency, L.greater_frequency,
              L.rank):
        g(good, 'ref', mine)
    note(mine)
    if mine != ['v1', 'v0']:
        FAILS.append('data_vars mutated')
    # defaults
    observe(('dflt', 'cell_stats'), L.cell_stats, good)
    observe(('dflt', 'rank'), L.rank, good, 'ref')

    digest = H.hexdigest()
    if '--record' in sys.argv:
        print(digest)
        return 0
    ok = True
    if FAILS:
        ok = False
        print('reference mismatches:', FAILS[:10], len(FAILS))
    if digest != EXPECTED_DIGEST:
        ok = False
        print('digest differs from the unmodified tree:', digest)
    print('OK' if ok else 'FAIL')
    return 0 if ok else 1


if __name__ == '__main__':
    sys.exit(main())
