"""Differential test for C09 refactorings (focal apply / focal_stats / mean /
convolution_2d / hotspots).

Two independent checks:
  1. bit-exact: sha256 digests of every result (NaNs canonicalised) must match
     the digests recorded from the unmodified tree (EXPECTED below);
  2. independent: results must agree with a brute-force pure-python/numpy
     reference written from the property statement (tolerance, float32 kernels).

Usage:  python equiv.py            -> exit 0 iff everything matches
        python equiv.py --record   -> print digests of the current tree
"""
import hashlib
import sys
import warnings

import dask.array as da
import numpy as np
import xarray as xr

import xrspatial
from xrspatial import focal
from xrspatial.convolution import convolution_2d
from xrspatial.utils import ngjit

warnings.filterwarnings('ignore')

# --------------------------------------------------------------------------
# inputs
# --------------------------------------------------------------------------


def rasters():
    rng = np.random.RandomState(909)
    out = {}
    a = rng.uniform(-50, 50, size=(7, 9))
    out['f64_7x9'] = a
    b = a.copy()
    b[rng.uniform(size=b.shape) < 0.25] = np.nan
    out['f64_nan_7x9'] = b
    out['f32_nan_6x5'] = b[:6, :5].astype(np.float32)
    out['i32_8x6'] = rng.randint(-20, 20, size=(8, 6)).astype(np.int32)
    out['i64_5x11'] = rng.randint(0, 1000, size=(5, 11)).astype(np.int64)
    out['u8_6x6'] = rng.randint(0, 255, size=(6, 6)).astype(np.uint8)
    c = rng.uniform(0, 1, size=(10, 12))
    c[0, :] = np.nan
    c[4, 3:8] = np.nan
    out['f64_nanrow_10x12'] = c
    out['f64_1x7'] = rng.uniform(0, 9, size=(1, 7))
    out['f64_3x3'] = rng.uniform(0, 9, size=(3, 3))
    return out


def kernels01():
    return {
        'k3x3_full': np.ones((3, 3)),
        'k3x3_cross': np.array([[0, 1, 0], [1, 1, 1], [0, 1, 0]], dtype=float),
        'k3x3_asym': np.array([[1, 0, 0], [1, 1, 0], [0, 0, 0]], dtype=float),
        'k1x3': np.array([[1, 1, 0]], dtype=float),
        'k3x1': np.array([[1], [0], [1]], dtype=float),
        'k5x3': np.array([[1, 0, 0], [0, 1, 0], [1, 1, 1], [0, 0, 1], [0, 1, 0]], dtype=float),
        'k3x5': np.array([[1, 0, 0, 1, 1], [0, 1, 1, 0, 0], [0, 0, 0, 0, 1]], dtype=float),
        'k1x1': np.ones((1, 1)),
        'k5x5_int': np.array([[0, 0, 1, 0, 0], [0, 1, 1, 1, 0], [1, 1, 0, 1, 1],
                              [0, 1, 1, 1, 0], [0, 0, 1, 0, 0]]),
    }


def weighted_kernels():
    return {
        'w3x3': np.array([[0.5, -1, 0], [2, 0.25, 1], [0, 3, -0.5]]),
        'w1x3': np.array([[0.25, 0.5, 0.25]]),
        'w5x3': np.arange(15, dtype=float).reshape(5, 3) / 7 - 1,
        'w3x5_int': np.arange(15).reshape(3, 5) - 4,
    }


def chunkings(shape):
    r, c = shape
    return [(max(1, r // 2), max(1, c // 2)), (3, 4), (r, c)]


@ngjit
def _count_valid(w):
    n = 0.0
    for i in range(w.shape[0]):
        for j in range(w.shape[1]):
            if not np.isnan(w[i, j]):
                n += 1.0
    return n


@ngjit
def _weighted_pos(w):
    # depends on the position of each value inside the window
    s = 0.0
    for i in range(w.shape[0]):
        for j in range(w.shape[1]):
            if not np.isnan(w[i, j]):
                s += w[i, j] * (1 + i * w.shape[1] + j)
    return s


@ngjit
def _first_value(w):
    # first non-NaN in row-major order, NaN if none
    for i in range(w.shape[0]):
        for j in range(w.shape[1]):
            if not np.isnan(w[i, j]):
                return w[i, j]
    return np.nan


REDUCERS = {'count': _count_valid, 'wpos': _weighted_pos, 'first': _first_value}
ALL_STATS = ['mean', 'max', 'min', 'range', 'std', 'var', 'sum']

# --------------------------------------------------------------------------
# reference implementations (from the property statement)
# --------------------------------------------------------------------------


def ref_windows(data, kernel):
    data = data.astype(np.float32)
    rows, cols = data.shape
    kr, kc = kernel.shape
    hr, hc = kr // 2, kc // 2
    for y in range(rows):
        for x in range(cols):
            w = np.full((kr, kc), np.nan, dtype=np.float32)
            for i in range(kr):
                for j in range(kc):
                    yy, xx = y + i - hr, x + j - hc
                    if 0 <= yy < rows and 0 <= xx < cols and kernel[i, j] == 1:
                        w[i, j] = data[yy, xx]
            yield y, x, w


def ref_apply(data, kernel, pyfunc):
    out = np.zeros(data.shape, dtype=np.float32)
    for y, x, w in ref_windows(data, kernel):
        out[y, x] = pyfunc(w)
    return out


def _py(stat):
    def f(w):
        v = w[~np.isnan(w)].astype(np.float64)
        if v.size == 0:
            return 0.0 if stat == 'sum' else np.nan
        if stat == 'mean':
            return v.mean()
        if stat == 'max':
            return v.max()
        if stat == 'min':
            return v.min()
        if stat == 'range':
            return v.max() - v.min()
        if stat == 'std':
            return v.std()
        if stat == 'var':
            return v.var()
        if stat == 'sum':
            return v.sum()
    return f


def ref_mean(data, passes, excludes):
    out = data.astype(float)
    rows, cols = out.shape
    for _ in range(passes):
        new = np.zeros_like(out)
        for y in range(rows):
            for x in range(cols):
                v = out[y, x]
                if any(v == e or (np.isnan(v) and np.isnan(e)) for e in excludes):
                    new[y, x] = v
                    continue
                w = out[max(y - 1, 0):y + 2, max(x - 1, 0):x + 2]
                w = w[~np.isnan(w)]
                new[y, x] = w.mean() if w.size else np.nan
        out = new
    return out


def ref_conv(data, kernel):
    data = data.astype(np.float32)
    rows, cols = data.shape
    kr, kc = kernel.shape
    hr, hc = kr // 2, kc // 2
    out = np.full(data.shape, np.nan, dtype=np.float32)
    for y in range(hr, rows - hr):
        for x in range(hc, cols - hc):
            s = 0.0
            for i in range(kr):
                for j in range(kc):
                    s += float(kernel[i, j]) * float(data[y + i - hr, x + j - hc])
            out[y, x] = s
    return out


def ref_hotspots(data, kernel):
    d = data.astype(np.float32)
    m = ref_conv(d, kernel / kernel.sum())
    z = (m - np.nanmean(d)) / np.nanstd(d)
    out = np.zeros(d.shape, dtype=np.int8)
    az = np.abs(z)
    conf = np.where(az > 2.58, 99, np.where(az > 1.96, 95, np.where(az > 1.65, 90, 0)))
    out[:] = np.sign(np.where(np.isnan(z), 0, z)) * conf
    return out, z


# --------------------------------------------------------------------------
# cases
# --------------------------------------------------------------------------

FAIL = []


def close(name, got, want, rtol=2e-4, atol=2e-4):
    got = np.asarray(got)
    want = np.asarray(want)
    if got.shape != want.shape:
        FAIL.append('%s: shape %s != %s' % (name, got.shape, want.shape))
        return
    if not np.allclose(got.astype(np.float64), want.astype(np.float64),
                       rtol=rtol, atol=atol, equal_nan=True):
        FAIL.append('%s: differs from independent reference' % name)


def fits(kernel, shape):
    return kernel.shape[0] <= shape[0] and kernel.shape[1] <= shape[1]


def to_xr(arr, chunks=None):
    data = arr if chunks is None else da.from_array(arr, chunks=chunks)
    return xr.DataArray(data, dims=['y', 'x'],
                        coords={'y': np.arange(arr.shape[0])[::-1], 'x': np.arange(arr.shape[1])},
                        attrs={'res': 1, 'tag': 'a'}, name='in')


def run_cases():
    res = {}
    R, K, W = rasters(), kernels01(), weighted_kernels()

    def store(name, agg):
        val = agg.data
        lazy = isinstance(val, da.Array)
        if lazy:
            val = val.compute()
        val = np.asarray(val)
        res[name] = val
        nm = agg.name
        if lazy and nm is not None and '-' in nm:
            # xarray falls back to the dask array name (func name + random token)
            nm = nm.rsplit('-', 1)[0]
        res[name + '#meta'] = np.array([ord(ch) for ch in repr(
            (nm, agg.dims, sorted(agg.attrs.items()), lazy,
             [list(np.asarray(agg.coords[c]).ravel()) for c in agg.dims if c in agg.coords]))])
        return val

    # ---- focal.apply / focal_stats
    for rn, r in R.items():
        for kn, k in K.items():
            if not fits(k, r.shape):
                continue
            base = 'apply/%s/%s' % (rn, kn)
            got = store(base + '/np/default', focal.apply(to_xr(r), k))
            close(base + '/np/default', got, ref_apply(r, k, _py('mean')))
            for fn, f in REDUCERS.items():
                store(base + '/np/' + fn, focal.apply(to_xr(r), k, f, name='custom'))
            for ci, ch in enumerate(chunkings(r.shape)):
                got_d = store(base + '/dask%d/default' % ci, focal.apply(to_xr(r, ch), k))
                close(base + '/dask%d/default' % ci, got_d, ref_apply(r, k, _py('mean')))
                store(base + '/dask%d/wpos' % ci, focal.apply(to_xr(r, ch), k, _weighted_pos))
            fs = focal.focal_stats(to_xr(r), k)
            got = store('stats/%s/%s/np' % (rn, kn), fs)
            if list(fs['stats'].values) != ALL_STATS:
                FAIL.append('stats coord wrong')
            for si, s in enumerate(ALL_STATS):
                close('stats/%s/%s/np/%s' % (rn, kn, s), got[si], ref_apply(r, k, _py(s)),
                      rtol=2e-3, atol=5e-2 if s in ('var', 'std') else 2e-3)
            ch = chunkings(r.shape)[0]
            store('stats/%s/%s/dask' % (rn, kn),
                  focal.focal_stats(to_xr(r, ch), k, stats_funcs=['sum', 'min', 'std']))

    # ---- focal.mean
    for rn, r in R.items():
        for passes in (0, 1, 2, 3):
            for en, ex in (('nan', [np.nan]), ('nonan', [-1.0]), ('vals', [np.nan, 0.0, 7.0]),
                           ('first', [float(np.asarray(r, dtype=float)[0, 0])])):
                base = 'mean/%s/p%d/%s' % (rn, passes, en)
                got = store(base + '/np', focal.mean(to_xr(r), passes=passes, excludes=ex))
                close(base + '/np', got, ref_mean(r, passes, ex), rtol=1e-9, atol=1e-9)
                ch = chunkings(r.shape)[0]
                got = store(base + '/dask', focal.mean(to_xr(r, ch), passes=passes, excludes=ex,
                                                       name='m'))
                close(base + '/dask', got, ref_mean(r, passes, ex), rtol=1e-9, atol=1e-9)

    # ---- convolution_2d
    allk = dict(K)
    allk.update(W)
    for rn, r in R.items():
        for kn, k in allk.items():
            base = 'conv/%s/%s' % (rn, kn)
            got = store(base + '/np', convolution_2d(to_xr(r), k))
            if fits(k, r.shape):
                close(base + '/np', got, ref_conv(r, k), rtol=1e-4, atol=1e-2)
            for ci, ch in enumerate(chunkings(r.shape)):
                if ch[0] < k.shape[0] // 2 or ch[1] < k.shape[1] // 2:
                    continue
                try:
                    got = store(base + '/dask%d' % ci, convolution_2d(to_xr(r, ch), k, name='c'))
                except Exception as e:  # same exception type must be raised on both trees
                    res[base + '/dask%d#exc' % ci] = np.array([ord(c) for c in type(e).__name__])

    # ---- hotspots
    for rn, r in R.items():
        for scale in (1, 3):
            # amplify contrasts so that several confidence classes occur
            rr = r.astype(float) if r.dtype.kind == 'f' else r
            if scale == 3 and r.dtype.kind == 'f':
                rr = np.sign(rr) * np.abs(rr) ** 3
            elif scale == 3:
                continue
            for kn, k in K.items():
                if not fits(k, r.shape) or np.nanstd(rr.astype(np.float32)) == 0:
                    continue
                base = 'hot/%s/s%d/%s' % (rn, scale, kn)
                agg = focal.hotspots(to_xr(rr), k)
                got = store(base + '/np', agg)
                if agg.attrs.get('unit') != '%' or got.dtype != np.int8:
                    FAIL.append(base + ': unit/dtype')
                if not set(np.unique(got)) <= {0, 90, 95, 99, -90, -95, -99}:
                    FAIL.append(base + ': bad class')
                want, z = ref_hotspots(rr, k)
                az = np.abs(z)
                # compare away from the thresholds only (float32 vs float64 noise)
                safe = ~np.isnan(z)
                for t in (1.65, 1.96, 2.58):
                    safe &= np.abs(az - t) > 1e-3
                if not np.array_equal(got[safe], want[safe]) or np.any(got[np.isnan(z)] != 0):
                    FAIL.append(base + ': differs from independent reference')
                neg = np.asarray(focal.hotspots(to_xr(-rr.astype(np.float64)), k).data)
                if not np.array_equal(neg, -got):
                    FAIL.append(base + ': negation')
                for ci, ch in enumerate(chunkings(r.shape)):
                    if ch[0] < k.shape[0] // 2 or ch[1] < k.shape[1] // 2:
                        continue
                    store(base + '/dask%d' % ci, focal.hotspots(to_xr(rr, ch), k))
    # synthetic strong hotspots: make sure every class is exercised
    big = np.zeros((12, 12))
    big[2:5, 2:5] = 1000
    big[8:11, 7:10] = -1000
    big[6, 1] = 420
    big[1, 9] = -300
    got = store('hot/synthetic', focal.hotspots(to_xr(big), np.ones((3, 3))))
    res['hot/synthetic#classes'] = np.unique(got)
    z = np.linspace(-3, 3, 2401).reshape(49, 49)
    z[0, 0] = np.nan
    for t in (1.29, 1.65, 1.96, 2.33, 2.58):
        z[1, :5] = [t, -t, np.nextafter(t, 9), -np.nextafter(t, 9), np.nextafter(t, 0)]
        for dt in (np.float32, np.float64):
            res['hot/calc/%s/%s' % (t, np.dtype(dt).name)] = focal._calc_hotspots_numpy(z.astype(dt))
    return res


def digest(arr):
    arr = np.ascontiguousarray(arr)
    if arr.dtype.kind == 'f':
        arr = np.where(np.isnan(arr), np.array(np.nan, dtype=arr.dtype), arr).astype(arr.dtype)
        arr = arr + np.zeros((), dtype=arr.dtype)  # -0.0 stays -0.0; keeps dtype
    h = hashlib.sha256()
    h.update(arr.dtype.str.encode())
    h.update(repr(arr.shape).encode())
    h.update(np.ascontiguousarray(arr).tobytes())
    return h.hexdigest()


def group_digests(res):
    """One digest per top-level group / backend to keep the table small."""
    groups = {}
    for name in sorted(res):
        parts = name.split('/')
        key = parts[0] + '/' + parts[1]
        groups.setdefault(key, hashlib.sha256()).update((name + '=' + digest(res[name])).encode())
    return {k: v.hexdigest()[:24] for k, v in groups.items()}


EXPECTED = {
    'apply/f32_nan_6x5': 'e3a40f32583098511c1dfd48',
    'apply/f64_1x7': 'c622339b107274314a49ce2b',
    'apply/f64_3x3': '02aaf2e811711f1a060d79e9',
    'apply/f64_7x9': '9e0d17d86224886daec24e9d',
    'apply/f64_nan_7x9': '1970fb3ab5b014483be1bbf4',
    'apply/f64_nanrow_10x12': 'dfeb0095695fcefecb1ff149',
    'apply/i32_8x6': '43ce965bab7e1543f107e801',
    'apply/i64_5x11': '2d980131b759108697a27b84',
    'apply/u8_6x6': 'dcef9a0837dfd406a30be671',
    'conv/f32_nan_6x5': 'eb43d030457ab8afcdedcf27',
    'conv/f64_1x7': '2cbb82e3bbb54879635a7370',
    'conv/f64_3x3': 'a85e3e824554012e648db5f9',
    'conv/f64_7x9': 'e6dd257a1ad4211b94149e3e',
    'conv/f64_nan_7x9': '2b17249d88e1717c1fa6d279',
    'conv/f64_nanrow_10x12': 'f7baa91af0b8778595c6a4a7',
    'conv/i32_8x6': 'ce1af05dc6fba43f46e8d2c4',
    'conv/i64_5x11': 'de13439e3c0f0bc625f53e7a',
    'conv/u8_6x6': '512840f71f91d2cbe0a42a96',
    'hot/calc': '53fe16a247a1c6bcae822f04',
    'hot/f32_nan_6x5': '66d9f4036536294814cd5606',
    'hot/f64_1x7': '62e61f06950b6cb852a05256',
    'hot/f64_3x3': 'a33999bd74d188c76e5b336a',
    'hot/f64_7x9': 'da59affec8024ff6a1b4087b',
    'hot/f64_nan_7x9': 'e534664e5bb107683bb18265',
    'hot/f64_nanrow_10x12': '3bf7ba5e6f65bd438f627d58',
    'hot/i32_8x6': 'e8ae8d055d0ba38ace3e2853',
    'hot/i64_5x11': '7f2c3e514a52ba1449e486b8',
    'hot/synthetic': '4b6f9dc2621fd6f18083444c',
    'hot/synthetic#classes': '0df1d4764196fe5a6e9a196a',
    'hot/synthetic#meta': '02d4c6e9d9decbfda1a882e2',
    'hot/u8_6x6': '967c481d60c504f87b1b8869',
    'mean/f32_nan_6x5': '1d066f503973883b6e151c84',
    'mean/f64_1x7': 'ddfbeaffb9ea6d26bcad376a',
    'mean/f64_3x3': '774c87599d83ecbfce49e8d1',
    'mean/f64_7x9': 'dd691539d9d0819dc56ae112',
    'mean/f64_nan_7x9': 'd17303f82b015d8ce14fa97e',
    'mean/f64_nanrow_10x12': '61b95cbdc323fa9c319bb5db',
    'mean/i32_8x6': '32f37959eea96f852fb027ab',
    'mean/i64_5x11': '4cf88d4064c6c2fcc3913a92',
    'mean/u8_6x6': 'd1b3edc7a114cf7dfc05bd00',
    'stats/f32_nan_6x5': '7ee2fd7856d433ddc906e84e',
    'stats/f64_1x7': '2765e0113afd86c84f2dcdf4',
    'stats/f64_3x3': '282c67671307b9fa01951302',
    'stats/f64_7x9': 'bfe2942fbe8963f0d2f5150d',
    'stats/f64_nan_7x9': 'fa6a42b3834103aa6abe3682',
    'stats/f64_nanrow_10x12': '18017e0f82a502766f92436d',
    'stats/i32_8x6': 'b2580d25eb7aeec2393b4d5e',
    'stats/i64_5x11': '2ec04342283efcb61fdeee53',
    'stats/u8_6x6': '4dd4b0be634028a34521e7f2',
}


def main():
    assert xrspatial.__file__.startswith('/tmp/seed/TC09/'), xrspatial.__file__
    res = run_cases()
    got = group_digests(res)
    if '--record' in sys.argv:
        print('EXPECTED = {')
        for k in sorted(got):
            print('    %r: %r,' % (k, got[k]))
        print('}')
        print('# %d results, %d reference failures' % (len(res), len(FAIL)), file=sys.stderr)
        for f in FAIL[:20]:
            print('#', f, file=sys.stderr)
        return 0
    bad = [k for k in sorted(set(got) | set(EXPECTED)) if got.get(k) != EXPECTED.get(k)]
    for k in bad:
        print('DIGEST MISMATCH', k, got.get(k), EXPECTED.get(k))
    for f in FAIL:
        print('REFERENCE MISMATCH', f)
    if bad or FAIL:
        print('FAIL')
        return 1
    print('OK: %d results in %d groups identical to recorded baseline and consistent with '
          'independent reference' % (len(res), len(got)))
    return 0


if __name__ == '__main__':
    sys.exit(main())
