"""Differential test for the TC10-t20 refactoring (focal.hotspots data flow).

Runs xrspatial.focal.hotspots on a range of rasters (all integer and float
dtypes, NaN cells, odd shapes, C / F / strided-view / read-only layouts, numpy
and dask backends, circle / annulus / custom kernels) and compares a digest of
every result (dtype + shape + bytes) - or the exception type - with the digests
recorded on the unmodified tree.  It also checks the C10 invariants: inputs
(values, coords, attrs incl. nested ones) untouched, output shares no memory
with the input and has its own attrs dict, output keeps shape / dims / coords /
backend, attrs == input attrs + unit.

    python equiv.py            -> exit 0 when everything is identical
    python equiv.py --record   -> print the digest table (used once, on the unmodified tree)
"""
import copy
import hashlib
import sys
import warnings

import dask.array as da
import numpy as np
import xarray as xr

import xrspatial
from xrspatial.convolution import annulus_kernel, circle_kernel, custom_kernel
from xrspatial.focal import hotspots

warnings.filterwarnings('ignore')

EXPECTED = {
    '(12, 9)|int8|C|circle|numpy': '216fa89d9596b1025b471082',
    '(12, 9)|int8|C|circle|dask': '216fa89d9596b1025b471082',
    '(12, 9)|int8|C|annulus|numpy': '486145abcf73ae023c4cc91f',
    '(12, 9)|int8|C|annulus|dask': '486145abcf73ae023c4cc91f',
    '(12, 9)|int16|F|circle2|numpy': '486145abcf73ae023c4cc91f',
    '(12, 9)|int16|F|circle2|dask': '486145abcf73ae023c4cc91f',
    '(12, 9)|int16|F|custom_int|numpy': '486145abcf73ae023c4cc91f',
    '(12, 9)|int16|F|custom_int|dask': '486145abcf73ae023c4cc91f',
    '(12, 9)|int32|view|annulus|numpy': '486145abcf73ae023c4cc91f',
    '(12, 9)|int32|view|annulus|dask': '486145abcf73ae023c4cc91f',
    '(12, 9)|int32|view|custom_row|numpy': 'a9864c22dc54c479e79dfd14',
    '(12, 9)|int32|view|custom_row|dask': 'a9864c22dc54c479e79dfd14',
    '(12, 9)|int64|ro|custom_int|numpy': 'e67abdf3c807d916dd79b801',
    '(12, 9)|int64|ro|custom_int|dask': 'e67abdf3c807d916dd79b801',
    '(12, 9)|int64|ro|circle|numpy': 'e67abdf3c807d916dd79b801',
    '(12, 9)|int64|ro|circle|dask': 'e67abdf3c807d916dd79b801',
    '(12, 9)|uint8|C|custom_row|numpy': 'ad0e0ce916c172b1664d8896',
    '(12, 9)|uint8|C|custom_row|dask': 'ad0e0ce916c172b1664d8896',
    '(12, 9)|uint8|C|circle2|numpy': '486145abcf73ae023c4cc91f',
    '(12, 9)|uint8|C|circle2|dask': '486145abcf73ae023c4cc91f',
    '(12, 9)|uint16|F|circle|numpy': '486145abcf73ae023c4cc91f',
    '(12, 9)|uint16|F|circle|dask': '486145abcf73ae023c4cc91f',
    '(12, 9)|uint16|F|annulus|numpy': '486145abcf73ae023c4cc91f',
    '(12, 9)|uint16|F|annulus|dask': '486145abcf73ae023c4cc91f',
    '(12, 9)|uint32|view|circle2|numpy': '486145abcf73ae023c4cc91f',
    '(12, 9)|uint32|view|circle2|dask': '486145abcf73ae023c4cc91f',
    '(12, 9)|uint32|view|custom_int|numpy': '486145abcf73ae023c4cc91f',
    '(12, 9)|uint32|view|custom_int|dask': '486145abcf73ae023c4cc91f',
    '(12, 9)|uint64|ro|annulus|numpy': '486145abcf73ae023c4cc91f',
    '(12, 9)|uint64|ro|annulus|dask': '486145abcf73ae023c4cc91f',
    '(12, 9)|uint64|ro|custom_row|numpy': '5d4deca76b84548c1d049c96',
    '(12, 9)|uint64|ro|custom_row|dask': '5d4deca76b84548c1d049c96',
    '(12, 9)|float32|C|custom_int|numpy': 'd09eef3375d391dd19bdd19c',
    '(12, 9)|float32|C|custom_int|dask': 'd09eef3375d391dd19bdd19c',
    '(12, 9)|float32|C|circle|numpy': '77929819de4d8702244a18bb',
    '(12, 9)|float32|C|circle|dask': '77929819de4d8702244a18bb',
    '(12, 9)|float64|F|custom_row|numpy': '8e674344bc6ec97fa90a5628',
    '(12, 9)|float64|F|custom_row|dask': '8e674344bc6ec97fa90a5628',
    '(12, 9)|float64|F|circle2|numpy': '486145abcf73ae023c4cc91f',
    '(12, 9)|float64|F|circle2|dask': '486145abcf73ae023c4cc91f',
    '(15, 17)|int8|view|circle|numpy': '56d87c0dd5716c26b4946eb6',
    '(15, 17)|int8|view|circle|dask': '56d87c0dd5716c26b4946eb6',
    '(15, 17)|int8|view|annulus|numpy': 'e1806d04c65cf8ed0960fe0d',
    '(15, 17)|int8|view|annulus|dask': 'e1806d04c65cf8ed0960fe0d',
    '(15, 17)|int16|ro|circle2|numpy': '198ea094f2eb50d66d5384c3',
    '(15, 17)|int16|ro|circle2|dask': '198ea094f2eb50d66d5384c3',
    '(15, 17)|int16|ro|custom_int|numpy': 'd9b01828850e706dcf2f817e',
    '(15, 17)|int16|ro|custom_int|dask': 'd9b01828850e706dcf2f817e',
    '(15, 17)|int32|C|annulus|numpy': 'b7ba3441b07dc556f1f9dbb2',
    '(15, 17)|int32|C|annulus|dask': 'b7ba3441b07dc556f1f9dbb2',
    '(15, 17)|int32|C|custom_row|numpy': '628514e107131443ef0b35ee',
    '(15, 17)|int32|C|custom_row|dask': '628514e107131443ef0b35ee',
    '(15, 17)|int64|F|custom_int|numpy': '9967ba4a670d32d8e0f9779a',
    '(15, 17)|int64|F|custom_int|dask': '9967ba4a670d32d8e0f9779a',
    '(15, 17)|int64|F|circle|numpy': '211cc7042ce1971729856c15',
    '(15, 17)|int64|F|circle|dask': '211cc7042ce1971729856c15',
    '(15, 17)|uint8|view|custom_row|numpy': '6f5bcc77e70edae1a06f1c63',
    '(15, 17)|uint8|view|custom_row|dask': '6f5bcc77e70edae1a06f1c63',
    '(15, 17)|uint8|view|circle2|numpy': '135f991d16cc6adbd9bca282',
    '(15, 17)|uint8|view|circle2|dask': '135f991d16cc6adbd9bca282',
    '(15, 17)|uint16|ro|circle|numpy': '9c9b8b114f864ae008674279',
    '(15, 17)|uint16|ro|circle|dask': '9c9b8b114f864ae008674279',
    '(15, 17)|uint16|ro|annulus|numpy': '2c5a028fbe1122833aab0b0a',
    '(15, 17)|uint16|ro|annulus|dask': '2c5a028fbe1122833aab0b0a',
    '(15, 17)|uint32|C|circle2|numpy': 'd351635038d39f8cea3041c5',
    '(15, 17)|uint32|C|circle2|dask': 'd351635038d39f8cea3041c5',
    '(15, 17)|uint32|C|custom_int|numpy': '6c238476afd105b8b5dc5487',
    '(15, 17)|uint32|C|custom_int|dask': '6c238476afd105b8b5dc5487',
    '(15, 17)|uint64|F|annulus|numpy': 'b7ba3441b07dc556f1f9dbb2',
    '(15, 17)|uint64|F|annulus|dask': 'b7ba3441b07dc556f1f9dbb2',
    '(15, 17)|uint64|F|custom_row|numpy': '0f6d74884af3364d9e64f923',
    '(15, 17)|uint64|F|custom_row|dask': '0f6d74884af3364d9e64f923',
    '(15, 17)|float32|view|custom_int|numpy': '5a078ecbf9a3c35e78c6e82d',
    '(15, 17)|float32|view|custom_int|dask': '5a078ecbf9a3c35e78c6e82d',
    '(15, 17)|float32|view|circle|numpy': '3f491d2b058f90643f4be209',
    '(15, 17)|float32|view|circle|dask': '3f491d2b058f90643f4be209',
    '(15, 17)|float64|ro|custom_row|numpy': 'df2c17867ee9df00358a051e',
    '(15, 17)|float64|ro|custom_row|dask': 'df2c17867ee9df00358a051e',
    '(15, 17)|float64|ro|circle2|numpy': 'fe3493c06c59f4052d5f6f22',
    '(15, 17)|float64|ro|circle2|dask': 'fe3493c06c59f4052d5f6f22',
    '(20, 15)|int8|C|circle|numpy': '8b92cc392bd124c1c2fa1d23',
    '(20, 15)|int8|C|circle|dask': '8b92cc392bd124c1c2fa1d23',
    '(20, 15)|int8|C|annulus|numpy': 'f77b0e8f3fd0f36b748b8bac',
    '(20, 15)|int8|C|annulus|dask': 'f77b0e8f3fd0f36b748b8bac',
    '(20, 15)|int16|F|circle2|numpy': 'a0e06f962ba7ecfcf36c6234',
    '(20, 15)|int16|F|circle2|dask': 'a0e06f962ba7ecfcf36c6234',
    '(20, 15)|int16|F|custom_int|numpy': 'a3f9144e7048d16e3a0e4358',
    '(20, 15)|int16|F|custom_int|dask': 'a3f9144e7048d16e3a0e4358',
    '(20, 15)|int32|view|annulus|numpy': 'b50c4eb94141335a299837e8',
    '(20, 15)|int32|view|annulus|dask': 'b50c4eb94141335a299837e8',
    '(20, 15)|int32|view|custom_row|numpy': '94d8077906a416c2b51fce19',
    '(20, 15)|int32|view|custom_row|dask': '94d8077906a416c2b51fce19',
    '(20, 15)|int64|ro|custom_int|numpy': '001a34cec0224f80f39ca8ad',
    '(20, 15)|int64|ro|custom_int|dask': '001a34cec0224f80f39ca8ad',
    '(20, 15)|int64|ro|circle|numpy': 'eaa7bb2559385534615947ef',
    '(20, 15)|int64|ro|circle|dask': 'eaa7bb2559385534615947ef',
    '(20, 15)|uint8|C|custom_row|numpy': '90500780a2af974fcaf7abde',
    '(20, 15)|uint8|C|custom_row|dask': '90500780a2af974fcaf7abde',
    '(20, 15)|uint8|C|circle2|numpy': 'd0a1611f83b3c9ace40421da',
    '(20, 15)|uint8|C|circle2|dask': 'd0a1611f83b3c9ace40421da',
    '(20, 15)|uint16|F|circle|numpy': '8d7a61bf2318c5ccad94c95c',
    '(20, 15)|uint16|F|circle|dask': '8d7a61bf2318c5ccad94c95c',
    '(20, 15)|uint16|F|annulus|numpy': '15a4644aacc9131a95435be8',
    '(20, 15)|uint16|F|annulus|dask': '15a4644aacc9131a95435be8',
    '(20, 15)|uint32|view|circle2|numpy': '9be675bb1e6d2b53e263297f',
    '(20, 15)|uint32|view|circle2|dask': '9be675bb1e6d2b53e263297f',
    '(20, 15)|uint32|view|custom_int|numpy': '77a52af2ef76a21568e77013',
    '(20, 15)|uint32|view|custom_int|dask': '77a52af2ef76a21568e77013',
    '(20, 15)|uint64|ro|annulus|numpy': '6cadcce5b930fbd5a6c235f7',
    '(20, 15)|uint64|ro|annulus|dask': '6cadcce5b930fbd5a6c235f7',
    '(20, 15)|uint64|ro|custom_row|numpy': '65e943ddd623477fc33f571a',
    '(20, 15)|uint64|ro|custom_row|dask': '65e943ddd623477fc33f571a',
    '(20, 15)|float32|C|custom_int|numpy': '1a8d605976eea1bcabbe63a9',
    '(20, 15)|float32|C|custom_int|dask': '1a8d605976eea1bcabbe63a9',
    '(20, 15)|float32|C|circle|numpy': '6e9615745a432e243136ac0e',
    '(20, 15)|float32|C|circle|dask': '6e9615745a432e243136ac0e',
    '(20, 15)|float64|F|custom_row|numpy': '673d4b9f9919bfdfe4dec074',
    '(20, 15)|float64|F|custom_row|dask': '673d4b9f9919bfdfe4dec074',
    '(20, 15)|float64|F|circle2|numpy': 'ab07438ffc3e0c6a4368b313',
    '(20, 15)|float64|F|circle2|dask': 'ab07438ffc3e0c6a4368b313',
    '(24, 13)|int8|view|circle|numpy': '188561c7489d6e7b109f84d4',
    '(24, 13)|int8|view|circle|dask': '188561c7489d6e7b109f84d4',
    '(24, 13)|int8|view|annulus|numpy': 'f8588f4dfced213bbd1582f5',
    '(24, 13)|int8|view|annulus|dask': 'f8588f4dfced213bbd1582f5',
    '(24, 13)|int16|ro|circle2|numpy': '5fae8ff937235abbb550aaee',
    '(24, 13)|int16|ro|circle2|dask': '5fae8ff937235abbb550aaee',
    '(24, 13)|int16|ro|custom_int|numpy': '6ee5cc56faa95ac12410e2ae',
    '(24, 13)|int16|ro|custom_int|dask': '6ee5cc56faa95ac12410e2ae',
    '(24, 13)|int32|C|annulus|numpy': 'e6e04cb86b852264dc51022e',
    '(24, 13)|int32|C|annulus|dask': 'e6e04cb86b852264dc51022e',
    '(24, 13)|int32|C|custom_row|numpy': '74a8cb09b7df34283a3135e0',
    '(24, 13)|int32|C|custom_row|dask': '74a8cb09b7df34283a3135e0',
    '(24, 13)|int64|F|custom_int|numpy': '4f4eddd2634fd4c229375042',
    '(24, 13)|int64|F|custom_int|dask': '4f4eddd2634fd4c229375042',
    '(24, 13)|int64|F|circle|numpy': 'ea529f3db2b2736e87451409',
    '(24, 13)|int64|F|circle|dask': 'ea529f3db2b2736e87451409',
    '(24, 13)|uint8|view|custom_row|numpy': 'f9b270dcc294d3b32cdf11b6',
    '(24, 13)|uint8|view|custom_row|dask': 'f9b270dcc294d3b32cdf11b6',
    '(24, 13)|uint8|view|circle2|numpy': '91ca488a2b5493339065e944',
    '(24, 13)|uint8|view|circle2|dask': '91ca488a2b5493339065e944',
    '(24, 13)|uint16|ro|circle|numpy': '1dc7acfaea7adb1fc711a957',
    '(24, 13)|uint16|ro|circle|dask': '1dc7acfaea7adb1fc711a957',
    '(24, 13)|uint16|ro|annulus|numpy': '26e982ea841714cd8fb22780',
    '(24, 13)|uint16|ro|annulus|dask': '26e982ea841714cd8fb22780',
    '(24, 13)|uint32|C|circle2|numpy': '40914fcf5a312247428329fa',
    '(24, 13)|uint32|C|circle2|dask': '40914fcf5a312247428329fa',
    '(24, 13)|uint32|C|custom_int|numpy': '699f995184b94b24a80f729d',
    '(24, 13)|uint32|C|custom_int|dask': '699f995184b94b24a80f729d',
    '(24, 13)|uint64|F|annulus|numpy': '35d76643a87931c065c01c8b',
    '(24, 13)|uint64|F|annulus|dask': '35d76643a87931c065c01c8b',
    '(24, 13)|uint64|F|custom_row|numpy': '1f5b2e42fd82c1d3fe50e95d',
    '(24, 13)|uint64|F|custom_row|dask': '1f5b2e42fd82c1d3fe50e95d',
    '(24, 13)|float32|view|custom_int|numpy': '5b7a6b62d7b55a887037d644',
    '(24, 13)|float32|view|custom_int|dask': '5b7a6b62d7b55a887037d644',
    '(24, 13)|float32|view|circle|numpy': 'a4e243b56d3898b09aa85b67',
    '(24, 13)|float32|view|circle|dask': 'a4e243b56d3898b09aa85b67',
    '(24, 13)|float64|ro|custom_row|numpy': 'dfc5357b0cabd28f07e9728c',
    '(24, 13)|float64|ro|custom_row|dask': 'dfc5357b0cabd28f07e9728c',
    '(24, 13)|float64|ro|circle2|numpy': '0272ee48fb6b47beb73da1e6',
    '(24, 13)|float64|ro|circle2|dask': '0272ee48fb6b47beb73da1e6',
    '(5, 1)|int8|C|circle|numpy': '19b5dff86c356809fd976db3',
    '(5, 1)|int8|C|circle|dask': '19b5dff86c356809fd976db3',
    '(5, 1)|int8|C|annulus|numpy': '19b5dff86c356809fd976db3',
    '(5, 1)|int8|C|annulus|dask': 'EXC:ValueError',
    '(5, 1)|int16|F|circle2|numpy': '19b5dff86c356809fd976db3',
    '(5, 1)|int16|F|circle2|dask': 'EXC:ValueError',
    '(5, 1)|int16|F|custom_int|numpy': '19b5dff86c356809fd976db3',
    '(5, 1)|int16|F|custom_int|dask': '19b5dff86c356809fd976db3',
    '(5, 1)|int32|view|annulus|numpy': '19b5dff86c356809fd976db3',
    '(5, 1)|int32|view|annulus|dask': 'EXC:ValueError',
    '(5, 1)|int32|view|custom_row|numpy': '19b5dff86c356809fd976db3',
    '(5, 1)|int32|view|custom_row|dask': '19b5dff86c356809fd976db3',
    '(5, 1)|int64|ro|custom_int|numpy': '19b5dff86c356809fd976db3',
    '(5, 1)|int64|ro|custom_int|dask': '19b5dff86c356809fd976db3',
    '(5, 1)|int64|ro|circle|numpy': '19b5dff86c356809fd976db3',
    '(5, 1)|int64|ro|circle|dask': '19b5dff86c356809fd976db3',
    '(5, 1)|uint8|C|custom_row|numpy': '19b5dff86c356809fd976db3',
    '(5, 1)|uint8|C|custom_row|dask': '19b5dff86c356809fd976db3',
    '(5, 1)|uint8|C|circle2|numpy': '19b5dff86c356809fd976db3',
    '(5, 1)|uint8|C|circle2|dask': 'EXC:ValueError',
    '(5, 1)|uint16|F|circle|numpy': '19b5dff86c356809fd976db3',
    '(5, 1)|uint16|F|circle|dask': '19b5dff86c356809fd976db3',
    '(5, 1)|uint16|F|annulus|numpy': '19b5dff86c356809fd976db3',
    '(5, 1)|uint16|F|annulus|dask': 'EXC:ValueError',
    '(5, 1)|uint32|view|circle2|numpy': '19b5dff86c356809fd976db3',
    '(5, 1)|uint32|view|circle2|dask': 'EXC:ValueError',
    '(5, 1)|uint32|view|custom_int|numpy': '19b5dff86c356809fd976db3',
    '(5, 1)|uint32|view|custom_int|dask': '19b5dff86c356809fd976db3',
    '(5, 1)|uint64|ro|annulus|numpy': '19b5dff86c356809fd976db3',
    '(5, 1)|uint64|ro|annulus|dask': 'EXC:ValueError',
    '(5, 1)|uint64|ro|custom_row|numpy': '19b5dff86c356809fd976db3',
    '(5, 1)|uint64|ro|custom_row|dask': '19b5dff86c356809fd976db3',
    '(5, 1)|float32|C|custom_int|numpy': '19b5dff86c356809fd976db3',
    '(5, 1)|float32|C|custom_int|dask': '19b5dff86c356809fd976db3',
    '(5, 1)|float32|C|circle|numpy': '19b5dff86c356809fd976db3',
    '(5, 1)|float32|C|circle|dask': '19b5dff86c356809fd976db3',
    '(5, 1)|float64|F|custom_row|numpy': '19b5dff86c356809fd976db3',
    '(5, 1)|float64|F|custom_row|dask': '19b5dff86c356809fd976db3',
    '(5, 1)|float64|F|circle2|numpy': '19b5dff86c356809fd976db3',
    '(5, 1)|float64|F|circle2|dask': 'EXC:ValueError',
    '(1, 8)|int8|view|circle|numpy': 'e374237ed472b37cbdbc1bd9',
    '(1, 8)|int8|view|circle|dask': 'e374237ed472b37cbdbc1bd9',
    '(1, 8)|int8|view|annulus|numpy': 'e374237ed472b37cbdbc1bd9',
    '(1, 8)|int8|view|annulus|dask': 'EXC:ValueError',
    '(1, 8)|int16|ro|circle2|numpy': 'e374237ed472b37cbdbc1bd9',
    '(1, 8)|int16|ro|circle2|dask': 'EXC:ValueError',
    '(1, 8)|int16|ro|custom_int|numpy': 'e374237ed472b37cbdbc1bd9',
    '(1, 8)|int16|ro|custom_int|dask': 'e374237ed472b37cbdbc1bd9',
    '(1, 8)|int32|C|annulus|numpy': 'e374237ed472b37cbdbc1bd9',
    '(1, 8)|int32|C|annulus|dask': 'EXC:ValueError',
    '(1, 8)|int32|C|custom_row|numpy': 'e374237ed472b37cbdbc1bd9',
    '(1, 8)|int32|C|custom_row|dask': 'e374237ed472b37cbdbc1bd9',
    '(1, 8)|int64|F|custom_int|numpy': 'e374237ed472b37cbdbc1bd9',
    '(1, 8)|int64|F|custom_int|dask': 'e374237ed472b37cbdbc1bd9',
    '(1, 8)|int64|F|circle|numpy': 'e374237ed472b37cbdbc1bd9',
    '(1, 8)|int64|F|circle|dask': 'e374237ed472b37cbdbc1bd9',
    '(1, 8)|uint8|view|custom_row|numpy': 'e374237ed472b37cbdbc1bd9',
    '(1, 8)|uint8|view|custom_row|dask': 'e374237ed472b37cbdbc1bd9',
    '(1, 8)|uint8|view|circle2|numpy': 'e374237ed472b37cbdbc1bd9',
    '(1, 8)|uint8|view|circle2|dask': 'EXC:ValueError',
    '(1, 8)|uint16|ro|circle|numpy': 'e374237ed472b37cbdbc1bd9',
    '(1, 8)|uint16|ro|circle|dask': 'e374237ed472b37cbdbc1bd9',
    '(1, 8)|uint16|ro|annulus|numpy': 'e374237ed472b37cbdbc1bd9',
    '(1, 8)|uint16|ro|annulus|dask': 'EXC:ValueError',
    '(1, 8)|uint32|C|circle2|numpy': 'e374237ed472b37cbdbc1bd9',
    '(1, 8)|uint32|C|circle2|dask': 'EXC:ValueError',
    '(1, 8)|uint32|C|custom_int|numpy': 'e374237ed472b37cbdbc1bd9',
    '(1, 8)|uint32|C|custom_int|dask': 'e374237ed472b37cbdbc1bd9',
    '(1, 8)|uint64|F|annulus|numpy': 'e374237ed472b37cbdbc1bd9',
    '(1, 8)|uint64|F|annulus|dask': 'EXC:ValueError',
    '(1, 8)|uint64|F|custom_row|numpy': 'e374237ed472b37cbdbc1bd9',
    '(1, 8)|uint64|F|custom_row|dask': 'e374237ed472b37cbdbc1bd9',
    '(1, 8)|float32|view|custom_int|numpy': 'e374237ed472b37cbdbc1bd9',
    '(1, 8)|float32|view|custom_int|dask': 'e374237ed472b37cbdbc1bd9',
    '(1, 8)|float32|view|circle|numpy': 'e374237ed472b37cbdbc1bd9',
    '(1, 8)|float32|view|circle|dask': 'e374237ed472b37cbdbc1bd9',
    '(1, 8)|float64|ro|custom_row|numpy': 'e374237ed472b37cbdbc1bd9',
    '(1, 8)|float64|ro|custom_row|dask': 'e374237ed472b37cbdbc1bd9',
    '(1, 8)|float64|ro|circle2|numpy': 'e374237ed472b37cbdbc1bd9',
    '(1, 8)|float64|ro|circle2|dask': 'EXC:ValueError',
    '(3, 3)|int8|C|circle|numpy': '3316e3d9eeb84a1a091d3034',
    '(3, 3)|int8|C|circle|dask': '3316e3d9eeb84a1a091d3034',
    '(3, 3)|int8|C|annulus|numpy': '3316e3d9eeb84a1a091d3034',
    '(3, 3)|int8|C|annulus|dask': '3316e3d9eeb84a1a091d3034',
    '(3, 3)|int16|F|circle2|numpy': '3316e3d9eeb84a1a091d3034',
    '(3, 3)|int16|F|circle2|dask': '3316e3d9eeb84a1a091d3034',
    '(3, 3)|int16|F|custom_int|numpy': '3316e3d9eeb84a1a091d3034',
    '(3, 3)|int16|F|custom_int|dask': '3316e3d9eeb84a1a091d3034',
    '(3, 3)|int32|view|annulus|numpy': '3316e3d9eeb84a1a091d3034',
    '(3, 3)|int32|view|annulus|dask': '3316e3d9eeb84a1a091d3034',
    '(3, 3)|int32|view|custom_row|numpy': '3316e3d9eeb84a1a091d3034',
    '(3, 3)|int32|view|custom_row|dask': '3316e3d9eeb84a1a091d3034',
    '(3, 3)|int64|ro|custom_int|numpy': '3316e3d9eeb84a1a091d3034',
    '(3, 3)|int64|ro|custom_int|dask': '3316e3d9eeb84a1a091d3034',
    '(3, 3)|int64|ro|circle|numpy': '3316e3d9eeb84a1a091d3034',
    '(3, 3)|int64|ro|circle|dask': '3316e3d9eeb84a1a091d3034',
    '(3, 3)|uint8|C|custom_row|numpy': '3316e3d9eeb84a1a091d3034',
    '(3, 3)|uint8|C|custom_row|dask': '3316e3d9eeb84a1a091d3034',
    '(3, 3)|uint8|C|circle2|numpy': '3316e3d9eeb84a1a091d3034',
    '(3, 3)|uint8|C|circle2|dask': '3316e3d9eeb84a1a091d3034',
    '(3, 3)|uint16|F|circle|numpy': '3316e3d9eeb84a1a091d3034',
    '(3, 3)|uint16|F|circle|dask': '3316e3d9eeb84a1a091d3034',
    '(3, 3)|uint16|F|annulus|numpy': '3316e3d9eeb84a1a091d3034',
    '(3, 3)|uint16|F|annulus|dask': '3316e3d9eeb84a1a091d3034',
    '(3, 3)|uint32|view|circle2|numpy': '3316e3d9eeb84a1a091d3034',
    '(3, 3)|uint32|view|circle2|dask': '3316e3d9eeb84a1a091d3034',
    '(3, 3)|uint32|view|custom_int|numpy': '3316e3d9eeb84a1a091d3034',
    '(3, 3)|uint32|view|custom_int|dask': '3316e3d9eeb84a1a091d3034',
    '(3, 3)|uint64|ro|annulus|numpy': '3316e3d9eeb84a1a091d3034',
    '(3, 3)|uint64|ro|annulus|dask': '3316e3d9eeb84a1a091d3034',
    '(3, 3)|uint64|ro|custom_row|numpy': '3316e3d9eeb84a1a091d3034',
    '(3, 3)|uint64|ro|custom_row|dask': '3316e3d9eeb84a1a091d3034',
    '(3, 3)|float32|C|custom_int|numpy': '3316e3d9eeb84a1a091d3034',
    '(3, 3)|float32|C|custom_int|dask': '3316e3d9eeb84a1a091d3034',
    '(3, 3)|float32|C|circle|numpy': '3316e3d9eeb84a1a091d3034',
    '(3, 3)|float32|C|circle|dask': '3316e3d9eeb84a1a091d3034',
    '(3, 3)|float64|F|custom_row|numpy': '3316e3d9eeb84a1a091d3034',
    '(3, 3)|float64|F|custom_row|dask': '3316e3d9eeb84a1a091d3034',
    '(3, 3)|float64|F|circle2|numpy': '3316e3d9eeb84a1a091d3034',
    '(3, 3)|float64|F|circle2|dask': '3316e3d9eeb84a1a091d3034',
    'const|numpy': 'EXC:ZeroDivisionError',
    'const|dask': 'd08315328832c8e66b8c4864',
}


def digest(arr):
    arr = np.ascontiguousarray(arr)
    h = hashlib.sha256()
    h.update(str(arr.dtype).encode())
    h.update(str(arr.shape).encode())
    h.update(arr.tobytes())
    return h.hexdigest()[:24]


def make_data(shape, dtype, seed):
    rng = np.random.RandomState(seed)
    base = rng.normal(0, 0.5, size=shape)
    # a few strong blobs so that the classes 90/95/99 (hot and cold) do occur
    h, w = shape
    for b in range(4):
        y0, x0 = rng.randint(0, h), rng.randint(0, w)
        sign = 1 if b % 2 == 0 else -1
        base[max(0, y0 - 2): y0 + 3, max(0, x0 - 2): x0 + 3] += sign * 3
    dtype = np.dtype(dtype)
    if dtype.kind == 'f':
        data = (base * 100).astype(dtype)
        if data.size > 6:
            data.ravel()[rng.choice(data.size, 2, replace=False)] = np.nan
        return data
    info = np.iinfo(dtype)
    scaled = base * 20 + (60 if dtype.kind == 'u' else 0)
    return np.clip(scaled, info.min, info.max).astype(dtype)


def layouts(data):
    big = np.zeros((data.shape[0] * 2, data.shape[1] * 2), dtype=data.dtype)
    big[::2, ::2] = data
    ro = data.copy()
    ro.setflags(write=False)
    return {
        'C': np.ascontiguousarray(data),
        'F': np.asfortranarray(data),
        'view': big[::2, ::2],
        'ro': ro,
    }


def make_raster(arr, backend, chunks):
    h, w = arr.shape
    data = da.from_array(arr, chunks=chunks) if backend == 'dask' else arr
    scalar = xr.DataArray(7, attrs={'k': 'v'})
    return xr.DataArray(
        data, dims=['lat', 'lon'],
        coords={'lat': np.linspace(5, 4, h), 'lon': np.arange(w) * 2.5, 'band': scalar},
        attrs={'res': (1, 1), 'nested': {'a': [1, 2]}, 'unit': 'm'},
    )


def snapshot(raster):
    return (
        np.array(raster.data, copy=True),
        {k: np.array(v.values, copy=True) for k, v in raster.coords.items()},
        repr(raster.attrs), raster.dims, raster.shape, str(raster.dtype),
    )


def same_snapshot(a, b):
    if a[3:] != b[3:] or a[2] != b[2]:
        return False
    if a[0].dtype != b[0].dtype or not np.array_equal(a[0], b[0], equal_nan=True):
        return False
    if a[1].keys() != b[1].keys():
        return False
    return all(a[1][k].dtype == b[1][k].dtype and np.array_equal(a[1][k], b[1][k])
               for k in a[1])


def kernels():
    return {
        'circle': circle_kernel(1, 1, 1),
        'circle2': circle_kernel(1, 1, 2),
        'annulus': annulus_kernel(1, 1, 2, 1),
        'custom_int': custom_kernel(np.array([[1, 0, 1], [0, 1, 0], [1, 0, 1]])),
        'custom_row': custom_kernel(np.array([[1., 1., 1.]])),
    }


def cases():
    shapes = [(12, 9), (15, 17), (20, 15), (24, 13), (5, 1), (1, 8), (3, 3)]
    dtypes = [np.int8, np.int16, np.int32, np.int64, np.uint8, np.uint16, np.uint32,
              np.uint64, np.float32, np.float64]
    lays = ['C', 'F', 'view', 'ro']
    ks = kernels()
    knames = list(ks)
    i = 0
    for shape in shapes:
        for dtype in dtypes:
            data = make_data(shape, dtype, seed=i)
            lay = lays[i % len(lays)]
            arr = layouts(data)[lay]
            for kname in (knames[i % len(knames)], knames[(i + 2) % len(knames)]):
                for backend in ('numpy', 'dask'):
                    chunks = (max(1, (shape[0] + 1) // 2), max(1, (shape[1] + 1) // 2))
                    key = '%s|%s|%s|%s|%s' % (shape, np.dtype(dtype).name, lay, kname, backend)
                    yield key, arr, ks[kname], backend, chunks
            i += 1
    # constant raster: zero global std (error on numpy, lazy on dask)
    const = np.full((5, 5), 3, dtype=np.int16)
    for backend in ('numpy', 'dask'):
        yield 'const|%s' % backend, const, ks['circle'], backend, (3, 3)


def main():
    record = '--record' in sys.argv
    assert '/tmp/t5/TC10/' in xrspatial.__file__, xrspatial.__file__
    got = {}
    failures = []
    for key, arr, kernel, backend, chunks in cases():
        raster = make_raster(arr, backend, chunks)
        before = snapshot(raster)
        attrs_before = copy.deepcopy(raster.attrs)
        arr_before = arr.copy()
        kernel_before = kernel.copy()
        try:
            out = hotspots(raster, kernel)
            is_dask = isinstance(out.data, da.Array)
            values = out.values
            d = digest(values)
            # C10 invariants
            if is_dask != (backend == 'dask'):
                failures.append((key, 'backend changed'))
            if out.shape != raster.shape or out.dims != raster.dims:
                failures.append((key, 'shape/dims changed'))
            if out.attrs != dict(attrs_before, unit='%') or list(out.attrs) != list(attrs_before):
                failures.append((key, 'attrs not input attrs + unit'))
            if out.attrs is raster.attrs or out.attrs['nested'] is raster.attrs['nested']:
                failures.append((key, 'attrs shared with the input'))
            if set(out.coords) != set(raster.coords) or not all(
                    np.array_equal(out.coords[c].values, raster.coords[c].values)
                    and out.coords[c].dtype == raster.coords[c].dtype
                    for c in raster.coords):
                failures.append((key, 'coords changed'))
            if out.coords['band'].attrs != {'k': 'v'}:
                failures.append((key, 'scalar coord attrs changed'))
            if backend == 'numpy':
                if np.shares_memory(out.data, arr):
                    failures.append((key, 'output shares memory with input'))
                out.data[...] = 77
            out.attrs['nested']['a'].append(3)
            out.attrs['res'] = None
            if raster.attrs != attrs_before:
                failures.append((key, 'input attrs modified through the output'))
            if not same_snapshot(before, snapshot(raster)):
                failures.append((key, 'input raster modified'))
            if not (arr.dtype == arr_before.dtype
                    and np.array_equal(arr, arr_before, equal_nan=arr.dtype.kind == 'f')):
                failures.append((key, 'input array modified'))
            if not np.array_equal(kernel, kernel_before):
                failures.append((key, 'kernel modified'))
        except Exception as e:  # recorded too: errors must stay the same
            d = 'EXC:' + type(e).__name__
        got[key] = d

    if record:
        print('EXPECTED = {')
        for k in got:
            print('    %r: %r,' % (k, got[k]))
        print('}')
        return 0

    if set(got) != set(EXPECTED):
        failures.append(('keys', 'case table differs from the recorded one'))
    for k, v in got.items():
        if EXPECTED.get(k) != v:
            failures.append((k, 'digest %s != recorded %s' % (v, EXPECTED.get(k))))
    for f in failures[:40]:
        print('FAIL', f)
    print('%d cases, %d failures' % (len(got), len(failures)))
    return 1 if failures else 0


if __name__ == '__main__':
    sys.exit(main())
