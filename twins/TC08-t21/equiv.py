"""Differential test for C08 refactoring (t21).

Runs aspect on a deterministic battery of rasters (several dtypes, NaN / inf
cells, ties, odd shapes, res attr / coordinates / no coordinates, numpy and dask
with several chunkings) and compares a canonical digest (dtype, shape, raw bytes
with NaNs canonicalised, so signed zeros are distinguished) of every result with
the digest recorded from the UNMODIFIED tree.  Additionally checks numpy results
against an independent pure-Python/NumPy float64 reference with a tolerance.

Usage:  cd <worktree> && PYTHONPATH=<worktree> python equiv.py          (check)
        ... python equiv.py --record                                     (print digests)
Exit code 0 iff everything is identical.
"""
import hashlib
import sys
import warnings

import dask
import dask.array as da
import numpy as np
import xarray as xr

import xrspatial
from xrspatial import aspect, curvature, hillshade, slope

warnings.filterwarnings('ignore')
dask.config.set(scheduler='synchronous')

FUNCS = ['aspect']


def digest(arr):
    arr = np.asarray(arr)
    a = arr.copy()
    if a.dtype.kind == 'f':
        a[np.isnan(a)] = np.nan  # canonical NaN payload
    h = hashlib.sha256()
    h.update(str(a.dtype).encode())
    h.update(str(a.shape).encode())
    h.update(np.ascontiguousarray(a).tobytes())
    return h.hexdigest()[:20]


def rasters():
    rng = np.random.RandomState(8008)
    out = []
    shapes = [(3, 3), (4, 7), (9, 5), (2, 5), (11, 13)]
    for shp in shapes:
        n = shp[0] * shp[1]
        base = rng.uniform(-500, 1500, size=shp)
        out.append(('f64' + str(shp), base.astype(np.float64)))
        out.append(('f32' + str(shp), base.astype(np.float32)))
        out.append(('i32' + str(shp), rng.randint(-50, 50, size=shp).astype(np.int32)))
        out.append(('i64big' + str(shp), (rng.randint(0, 5, size=shp) + 2 ** 40).astype(np.int64)))
        out.append(('u8ties' + str(shp), rng.randint(0, 3, size=shp).astype(np.uint8)))
        out.append(('i8' + str(shp), rng.randint(-128, 127, size=shp).astype(np.int8)))
        withnan = base.copy()
        withnan.flat[rng.choice(n, size=max(1, n // 6), replace=False)] = np.nan
        out.append(('f64nan' + str(shp), withnan))
        out.append(('f32nan' + str(shp), withnan.astype(np.float32)))
        withinf = base.copy()
        withinf.flat[rng.choice(n, size=1)] = np.inf
        withinf.flat[rng.choice(n, size=1)] = -np.inf
        out.append(('f64inf' + str(shp), withinf))
        out.append(('flat' + str(shp), np.full(shp, 7.25, dtype=np.float64)))
        out.append(('allnan' + str(shp), np.full(shp, np.nan, dtype=np.float32)))
        ramp = np.add.outer(np.arange(shp[0]) * 3.0, np.arange(shp[1]) * -2.0)
        out.append(('ramp' + str(shp), ramp))
        out.append(('huge' + str(shp), (base * 1e30).astype(np.float64)))
        out.append(('bool' + str(shp), rng.randint(0, 2, size=shp).astype(bool)))
        out.append(('f16' + str(shp), base.astype(np.float16)))
    return out


def georefs(shape):
    h, w = shape
    return [
        ('nores', dict(dims=['y', 'x'])),
        ('res_t', dict(dims=['y', 'x'], attrs={'res': (10, 3.5)})),
        ('res_s', dict(dims=['y', 'x'], attrs={'res': 0.25})),
        ('res_l', dict(dims=['lat', 'lon'], attrs={'res': [2.0, 30]})),
        ('res_bad', dict(dims=['y', 'x'], attrs={'res': 'abc', 'foo': 1},
                         coords={'y': np.linspace(50, 10, h), 'x': np.linspace(-3, 4, w)})),
        ('coords', dict(dims=['y', 'x'],
                        coords={'y': np.arange(h)[::-1] * 30.0, 'x': np.arange(w) * 12.5})),
    ]


def chunkings(shape):
    h, w = shape
    res = [(h, w), (3, 3), (2, 4), (h, 2)]
    return [c for c in res if min(c) >= 1]


HS_ANGLES = [(225, 25), (0, 0), (90, 90), (315.5, 45.25), (-30, 10), (720, 100)]


def calls():
    """Yield (key, thunk)."""
    for rname, data in rasters():
        for gname, kw in georefs(data.shape):
            for fname in FUNCS:
                f = globals()[fname]
                if fname == 'hillshade':
                    variants = [('az%s_alt%s' % a, dict(azimuth=a[0], angle_altitude=a[1]))
                                for a in HS_ANGLES]
                    if gname not in ('nores', 'res_t'):
                        variants = variants[:1]
                    variants = [('default', {})] + variants
                else:
                    variants = [('default', {}), ('named', dict(name='zz'))]
                    if gname != 'nores':
                        variants = variants[:1]
                for vname, fkw in variants:
                    key = '|'.join([fname, rname, gname, vname, 'numpy'])
                    yield key, (lambda f=f, data=data, kw=kw, fkw=fkw:
                                f(xr.DataArray(data.copy(), **kw), **fkw))
                    if vname != 'default' and not vname.startswith('az315'):
                        continue
                    for ch in chunkings(data.shape):
                        key = '|'.join([fname, rname, gname, vname, 'dask%s' % (ch,)])
                        yield key, (lambda f=f, data=data, kw=kw, fkw=fkw, ch=ch:
                                    f(xr.DataArray(da.from_array(data.copy(), chunks=ch), **kw),
                                      **fkw))


def run_one(thunk, lazy_expected):
    try:
        res = thunk()
    except Exception as e:  # recorded too: error behaviour must not change
        return 'EXC:' + type(e).__name__
    is_lazy = isinstance(res.data, da.Array)
    if is_lazy != lazy_expected:
        return 'LAZINESS-MISMATCH'
    meta = '%s;%s;%s;%s;%s' % (res.name, res.dims, sorted(res.attrs.items(), key=str),
                               sorted(res.coords), res.dtype)
    try:
        vals = res.data.compute() if is_lazy else res.data
    except Exception as e:
        return 'EXC-compute:' + type(e).__name__
    return digest(vals) + ':' + hashlib.sha256(meta.encode()).hexdigest()[:8]


# ---------------------------------------------------------------- reference
def ref_check():
    """Independent float64 reference on numpy inputs (tolerance based)."""
    rng = np.random.RandomState(5)
    bad = 0
    for shp in [(5, 6), (8, 4)]:
        z = rng.uniform(0, 100, size=shp)
        z[2, 2] = np.nan
        zf = z.astype(np.float32).astype(np.float64)
        cx, cy = 3.0, 7.0
        agg = xr.DataArray(z, dims=['y', 'x'], attrs={'res': (cx, cy)})
        H, W = shp
        exp = {k: np.full(shp, np.nan) for k in ('slope', 'aspect', 'curvature', 'hillshade')}
        az, alt = 200.0, 35.0
        for y in range(1, H - 1):
            for x in range(1, W - 1):
                w = zf[y - 1:y + 2, x - 1:x + 2]
                # slope (rows flipped in library naming, symmetric in result)
                dzdx = ((w[0, 2] + 2 * w[1, 2] + w[2, 2]) - (w[0, 0] + 2 * w[1, 0] + w[2, 0]))
                dzdy = ((w[2, 0] + 2 * w[2, 1] + w[2, 2]) - (w[0, 0] + 2 * w[0, 1] + w[0, 2]))
                exp['slope'][y, x] = np.degrees(np.arctan(np.hypot(dzdx / (8 * cx),
                                                                   dzdy / (8 * cy))))
                if np.isnan(dzdx) or np.isnan(dzdy):
                    exp['aspect'][y, x] = np.nan
                elif dzdx == 0 and dzdy == 0:
                    exp['aspect'][y, x] = -1
                else:
                    a = np.degrees(np.arctan2(dzdy / 8, -dzdx / 8))
                    exp['aspect'][y, x] = (90.0 - a) if a <= 90 else (450.0 - a)
                cs = (cx + cy) / 2
                d = (w[2, 1] + w[0, 1]) / 2 - w[1, 1]
                e = (w[1, 2] + w[1, 0]) / 2 - w[1, 1]
                exp['curvature'][y, x] = -2 * (d + e) * 100 / (cs * cs)
                gx = (w[2, 1] - w[0, 1]) / 2
                gy = (w[1, 2] - w[1, 0]) / 2
                sl = np.pi / 2 - np.arctan(np.hypot(gx, gy))
                asp = np.arctan2(-gx, gy)
                azr = np.radians(360.0 - az)
                altr = np.radians(alt)
                sh = (np.sin(altr) * np.sin(sl) +
                      np.cos(altr) * np.cos(sl) * np.cos((azr - np.pi / 2) - asp))
                exp['hillshade'][y, x] = (sh + 1) / 2
        for fname in FUNCS:
            f = globals()[fname]
            for backend in ('numpy', 'dask'):
                a2 = agg if backend == 'numpy' else agg.copy(
                    data=da.from_array(z, chunks=(3, 2)))
                got = f(a2, azimuth=az, angle_altitude=alt) if fname == 'hillshade' else f(a2)
                got = np.asarray(got.data, dtype=np.float64)
                if not np.allclose(got, exp[fname], rtol=2e-4, atol=2e-4, equal_nan=True):
                    print('REFERENCE MISMATCH', fname, backend, shp)
                    bad += 1
    return bad


EXPECTED = {'aspect|allnan(11, 13)': '6f4ef5e5e7b2d5cf81cd47b6',
 'aspect|allnan(2, 5)': 'a7ee31cd31e6a33bd0396002',
 'aspect|allnan(3, 3)': '9100f4434d4c477e88d8a2b9',
 'aspect|allnan(4, 7)': '23b5084d15e26fc310dc8f7e',
 'aspect|allnan(9, 5)': 'f23f7630daf1b0b12103b087',
 'aspect|bool(11, 13)': '02f1dbd9a7f286cfedbfd814',
 'aspect|bool(2, 5)': 'a75792c354a045e085c8d92d',
 'aspect|bool(3, 3)': '7e83dc0d88744196bb326350',
 'aspect|bool(4, 7)': '516ad6926765ca19ee6116fb',
 'aspect|bool(9, 5)': '209ba919a47292b4d52e9635',
 'aspect|f16(11, 13)': '16f8e374e83231ae190657b9',
 'aspect|f16(2, 5)': '4da4e7160602f0cf71bd3bea',
 'aspect|f16(3, 3)': '8c41bd8d93934f8191eb2145',
 'aspect|f16(4, 7)': '6a001ea353eb3b96ca3e78b2',
 'aspect|f16(9, 5)': '57e82fdb6adc8e3b96317877',
 'aspect|f32(11, 13)': '36a316f6823c059e746c24f0',
 'aspect|f32(2, 5)': '06b727310f0dbfacfc17c2d3',
 'aspect|f32(3, 3)': 'dd30470eb98c9db664b3bbd0',
 'aspect|f32(4, 7)': '0e59bdfe8434e87764f4e8e2',
 'aspect|f32(9, 5)': '2a8a705fea389e3b6c7eed71',
 'aspect|f32nan(11, 13)': 'aded6f732c923c34576b4c6a',
 'aspect|f32nan(2, 5)': '203b8a03a8e6c520c32edeec',
 'aspect|f32nan(3, 3)': '02e4606f29e7f9fd0d291fdc',
 'aspect|f32nan(4, 7)': '94d48fcf5a5784a867b84b89',
 'aspect|f32nan(9, 5)': '253b042ba9eacfb2a6511db4',
 'aspect|f64(11, 13)': 'e668967e7dbff0b6400e3361',
 'aspect|f64(2, 5)': 'a80e047a56bc23261661b935',
 'aspect|f64(3, 3)': '0e65bcd4c7a8e3b9fc308ba4',
 'aspect|f64(4, 7)': '35c34b40228e97620bb6130c',
 'aspect|f64(9, 5)': '7772a03d1d6e150f4a62c89a',
 'aspect|f64inf(11, 13)': 'a1cab87d8b41c6500efefa09',
 'aspect|f64inf(2, 5)': '864cd8d0435aa6a8dbc1e9e8',
 'aspect|f64inf(3, 3)': '26aa95fa7cc1850c8695aaa6',
 'aspect|f64inf(4, 7)': 'aab20c9794a37fec5f607d8b',
 'aspect|f64inf(9, 5)': 'fc08445d8765c671e203d53c',
 'aspect|f64nan(11, 13)': 'c91df5d758f28ef671d8a166',
 'aspect|f64nan(2, 5)': 'bbbf80d55cf4cadd47dca9ac',
 'aspect|f64nan(3, 3)': 'e586bc61aae1f6802f6532d3',
 'aspect|f64nan(4, 7)': '9d2979bdea1096b8a044074f',
 'aspect|f64nan(9, 5)': 'ce613a324ca3f6674faaca91',
 'aspect|flat(11, 13)': 'cad00f980fa0e2fb42c1b8e8',
 'aspect|flat(2, 5)': 'c1df95b5b591aa25f8abf509',
 'aspect|flat(3, 3)': 'ff7b1d451b3a271356595821',
 'aspect|flat(4, 7)': '3d700d61c13d5ca82cf8dc7d',
 'aspect|flat(9, 5)': '79f58d65131c0d32cbc2f705',
 'aspect|huge(11, 13)': 'e9604a153a1350211ce2f857',
 'aspect|huge(2, 5)': '8c39f43bcb6a445af9333a23',
 'aspect|huge(3, 3)': 'f3c55c04e3a495ba45e282ab',
 'aspect|huge(4, 7)': 'fc9d0246f2da6c423443387d',
 'aspect|huge(9, 5)': '19f87b49af20c6e41236af92',
 'aspect|i32(11, 13)': '954d384f0147265801cbbe7a',
 'aspect|i32(2, 5)': 'c452b5c41db2c0b34f635add',
 'aspect|i32(3, 3)': '9c36c0575663d4795f701a91',
 'aspect|i32(4, 7)': '6518f488f45b1bdc24eee90b',
 'aspect|i32(9, 5)': '33dda9e480f52e8dffd72006',
 'aspect|i64big(11, 13)': 'c3676aed9df1321eb69c09d4',
 'aspect|i64big(2, 5)': '0b5ca6c42b295e1981883408',
 'aspect|i64big(3, 3)': '9a3ed4488e821479e1e49646',
 'aspect|i64big(4, 7)': '234a8f13991bae5669dbbe25',
 'aspect|i64big(9, 5)': '92d6f80389a5cebbca49c6a2',
 'aspect|i8(11, 13)': 'b054093b3db4e20f9c2fb5b6',
 'aspect|i8(2, 5)': 'd421fc5837978cf6c98edbe4',
 'aspect|i8(3, 3)': 'a5db2922a2c2955bc3168084',
 'aspect|i8(4, 7)': '882ee150ec60b3c695c7119b',
 'aspect|i8(9, 5)': '1c69f30fa8dc111c7250c312',
 'aspect|ramp(11, 13)': '228698f22bf4af26c347cbb9',
 'aspect|ramp(2, 5)': '2ab1205a47e10381ee85bb9d',
 'aspect|ramp(3, 3)': '9be9f1b0dc94d40baec1d679',
 'aspect|ramp(4, 7)': '18321892e15c716bbb4ffde3',
 'aspect|ramp(9, 5)': 'ba1cf4fbc62f06fae9ebc942',
 'aspect|u8ties(11, 13)': 'c46244a2c63425f62c94c54e',
 'aspect|u8ties(2, 5)': 'a3f9a655c1e4d4bc8df32f6c',
 'aspect|u8ties(3, 3)': '86e1b74570d4e5846553f5e9',
 'aspect|u8ties(4, 7)': '05f4bde5e0eccffe6aa64711',
 'aspect|u8ties(9, 5)': '700659f0f56123b8f572c81e'}


def main():
    print('xrspatial from', xrspatial.__file__)
    raw = {}
    for key, thunk in calls():
        raw[key] = run_one(thunk, lazy_expected='dask' in key.split('|')[-1])
    # group per (function, raster): one combined digest over all georefs/variants/backends
    groups = {}
    for key in sorted(raw):
        g = '|'.join(key.split('|')[:2])
        groups.setdefault(g, hashlib.sha256()).update((key + '=' + raw[key] + '\n').encode())
    results = {g: h.hexdigest()[:24] for g, h in groups.items()}
    if '--record' in sys.argv:
        import pprint
        with open(sys.argv[sys.argv.index('--record') + 1], 'w') as fh:
            fh.write(pprint.pformat(results, width=200))
        print('recorded', len(results))
        return 0
    bad = 0
    if set(results) != set(EXPECTED):
        print('KEY SET DIFFERS')
        bad += 1
    for k, v in results.items():
        if EXPECTED.get(k) != v:
            bad += 1
            if bad < 20:
                print('DIFF', k, EXPECTED.get(k), v)
    bad += ref_check()
    nexc = sum(1 for v in raw.values() if v.startswith('EXC'))
    print('%d cases in %d groups (%d raising), %d mismatches' % (len(raw), len(results), nexc, bad))
    return 1 if bad else 0


if __name__ == '__main__':
    sys.exit(main())
