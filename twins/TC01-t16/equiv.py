"""Differential test for the control-flow refactoring of the classify kernels
(_cpu_binary / _cpu_bin in xrspatial/classify.py).

The public functions binary / reclassify / equal_interval / quantile are run on
numpy and dask rasters and compared, bit for bit (NaN == NaN), against

  * a pure-Python transcription of the ORIGINAL kernels (flag variable,
    if/elif chain) evaluated with numpy scalars, and
  * a sha256 digest of all results recorded on the unmodified tree.

Exit status 0 when everything is identical, 1 otherwise.
"""
import hashlib
import itertools
import sys
import warnings

import dask
import dask.array as da
import numpy as np
import xarray as xr

import xrspatial
from xrspatial.classify import binary, equal_interval, quantile, reclassify

RECORDED_DIGEST = "a212aa8d46a996c30e64b36d0e9eae09fdc4ed1dd87eddd14e3912c8a708f707"

warnings.simplefilter("ignore")
failures = []
digest = hashlib.sha256()


# --------------------------------------------------------------------------
# reference: the original kernels, transcribed literally, not jitted
# --------------------------------------------------------------------------
def ref_binary(data, values):
    values = np.asarray(values)
    out = np.zeros_like(data)
    out[:] = np.nan if data.dtype.kind == 'f' else 0
    rows, cols = data.shape
    for y in range(0, rows):
        for x in range(0, cols):
            if np.any(values == data[y, x]):
                out[y, x] = 1
            elif np.isfinite(data[y, x]):
                out[y, x] = 0
    return out


def ref_bin(data, bins, new_values):
    bins = np.asarray(bins)
    new_values = np.asarray(new_values)
    out = np.zeros(data.shape, dtype=np.float32)
    out[:] = np.nan
    rows, cols = data.shape
    nbins = len(bins)
    for y in range(0, rows):
        for x in range(0, cols):
            val = data[y, x]
            val_bin = -1
            if np.isfinite(val):
                if val <= bins[0]:
                    val_bin = 0
                elif val <= bins[nbins - 1]:
                    start = 0
                    end = nbins - 1
                    mid = (end + start) // 2
                    while start <= end:
                        if bins[mid] < val:
                            start = mid + 1
                        elif val > bins[mid - 1]:
                            break
                        else:
                            end = mid - 1
                        mid = (end + start) // 2
                    val_bin = mid
            if val_bin > -1:
                out[y, x] = new_values[val_bin]
            else:
                out[y, x] = np.nan
    return out


# --------------------------------------------------------------------------
def same(a, b):
    a = np.asarray(a)
    b = np.asarray(b)
    if a.shape != b.shape or a.dtype != b.dtype:
        return False
    if a.dtype.kind == 'f':
        return bool(np.array_equal(a, b, equal_nan=True)
                    and np.array_equal(np.signbit(a), np.signbit(b)))
    return bool(np.array_equal(a, b))


def check(label, got, expected=None):
    got = np.asarray(got)
    digest.update(label.encode())
    digest.update(str(got.dtype).encode())
    digest.update(str(got.shape).encode())
    digest.update(np.ascontiguousarray(np.nan_to_num(
        got.astype(np.float64), nan=-12345.25, posinf=1e300, neginf=-1e300)).tobytes())
    digest.update(np.isnan(got.astype(np.float64)).tobytes())
    if expected is not None and not same(got, expected):
        failures.append(label)


def rasters():
    rng = np.random.RandomState(1234)
    shapes = [(1, 1), (1, 7), (5, 3), (7, 9)]
    for shape in shapes:
        base = rng.randint(-6, 14, size=shape)
        for dt in (np.int32, np.int64, np.uint8, np.float32, np.float64):
            if dt == np.uint8:
                arr = np.abs(base).astype(dt)
            else:
                arr = base.astype(dt)
            if np.dtype(dt).kind == 'f':
                arr = arr + rng.choice([0.0, 0.5, 0.25], size=shape).astype(dt)
                flat = arr.ravel()
                n = flat.size
                if n > 2:
                    flat[rng.randint(n)] = np.nan
                    flat[rng.randint(n)] = np.inf
                    flat[rng.randint(n)] = -np.inf
                    flat[rng.randint(n)] = -0.0
            yield arr
    # all-NaN and single special cells
    yield np.full((2, 3), np.nan, dtype=np.float64)
    yield np.array([[np.inf]], dtype=np.float32)
    yield np.array([[np.nan, 1.0, 2.0]], dtype=np.float64)


def chunkings(shape):
    h, w = shape
    out = [(1, 1), (h, w), (max(1, h // 2), max(1, w - 1))]
    if h > 2 and w > 2:
        out.append(((1, h - 1), (2, w - 2)))
    seen = []
    for c in out:
        if c not in seen:
            seen.append(c)
    return seen


BINS = [
    ([0], [7]),
    ([-2, 3, 8], [10, 20, 30]),
    ([-2.5, 3.25, 8.0, 12.5], [1.5, 2.5, 3.5, 4.5]),
    ([1, 1, 4, 4, 9], [0, 1, 2, 3, 4]),                 # duplicates
    ([5, 2, 9], [1, 2, 3]),                             # unsorted
    ([2, 6, np.inf], [1, 2, 3]),
    ([-np.inf, 2, 6, 20], [9, 1, 2, 3]),
    ([np.nan, 3, 9], [1, 2, 3]),                        # NaN breaks
    ([1, np.nan, 9], [1, 2, 3]),
    ([1, 3, np.nan], [1, 2, 3]),
    (list(range(-5, 13)), list(range(18))),
    ([-100, -50], [1, 2]),                              # everything above
    ([100, 200], [1, 2]),                               # everything below
]

VALUES = [
    [1, 2, 3],
    [0],
    [],
    [2.5, -3.0, 7.25],
    [np.nan, 4],
    [np.inf, 0.0],
    [-np.inf, 13, 255],
]


def run():
    if '/tmp/t5/TC01' not in xrspatial.__file__:
        print('warning: library not imported from the worktree:', xrspatial.__file__)
    count = 0
    for ri, arr in enumerate(rasters()):
        np_agg = xr.DataArray(arr, dims=['y', 'x'])
        dask_aggs = []
        for c in chunkings(arr.shape):
            dask_aggs.append((c, xr.DataArray(da.from_array(arr, chunks=c), dims=['y', 'x'])))

        # binary --------------------------------------------------------
        if arr.dtype.kind == 'f':
            # (integer rasters cannot hold the NaN fill; binary is float only)
            for vi, values in enumerate(VALUES):
                label = 'binary/%d/%s/%d' % (ri, arr.dtype, vi)
                exp = ref_binary(arr, values)
                got = binary(np_agg, values)
                check(label, got.data, exp)
                for c, dagg in dask_aggs:
                    res = binary(dagg, values)
                    if not isinstance(res.data, da.Array):
                        failures.append(label + '/notlazy')
                    for sched, kw in (('synchronous', {}), ('threads', {'num_workers': 3})):
                        with dask.config.set(scheduler=sched, **kw):
                            check(label + '/dask', res.data.compute(), exp)
                    count += 1

        # reclassify ----------------------------------------------------
        for bi, (bins, new_values) in enumerate(BINS):
            label = 'reclassify/%d/%s/%d' % (ri, arr.dtype, bi)
            exp = ref_bin(arr, bins, new_values)
            got = reclassify(np_agg, bins, new_values)
            check(label, got.data, exp)
            for ci, (c, dagg) in enumerate(dask_aggs):
                if ci >= 2 and (bi + ri) % 3:
                    continue
                res = reclassify(dagg, bins, new_values)
                if not isinstance(res.data, da.Array):
                    failures.append(label + '/notlazy')
                with dask.config.set(scheduler='synchronous'):
                    check(label + '/dask', res.data.compute(), exp)
                count += 1

        # equal_interval / quantile (go through the same binning kernel) --
        if np.isfinite(arr.astype(np.float64)).sum() >= 1:
            for k in (1, 3, 8):
                label = 'equal_interval/%d/%s/%d' % (ri, arr.dtype, k)
                try:
                    got = equal_interval(np_agg, k=k).data
                except Exception as e:  # same exception type expected on every path
                    got = None
                    err = type(e).__name__
                    digest.update((label + err).encode())
                if got is not None:
                    check(label, got)
                for c, dagg in dask_aggs[1:3]:
                    try:
                        res = equal_interval(dagg, k=k).data
                        with dask.config.set(scheduler='threads', num_workers=2):
                            dres = res.compute()
                    except Exception as e:
                        dres = None
                        if got is not None:
                            failures.append(label + '/dask raised ' + type(e).__name__)
                    if dres is not None:
                        # (a constant raster makes the numpy path raise in
                        #  np.arange while dask does not: only recorded)
                        check(label + '/dask', dres, got)
                    count += 1
                if arr.size >= 3 and arr.dtype.kind == 'f':
                    label = 'quantile/%d/%s/%d' % (ri, arr.dtype, k)
                    try:
                        got = quantile(np_agg, k=k).data
                        check(label, got)
                    except Exception as e:
                        digest.update((label + type(e).__name__).encode())
    return count


if __name__ == '__main__':
    n = run()
    hexd = digest.hexdigest()
    if '--record' in sys.argv:
        print(hexd, len(failures), failures[:10])
        sys.exit(0)
    if failures:
        print('MISMATCH in %d cases, e.g. %s' % (len(failures), failures[:10]))
        sys.exit(1)
    if hexd != RECORDED_DIGEST:
        print('digest differs from the one recorded on the unmodified tree:', hexd)
        sys.exit(1)
    print('OK (%d dask evaluations, digest %s)' % (n, hexd[:16]))
    sys.exit(0)
