"""Differential test for TC10-t10 (proximity.py: dask closure lifted to module level).

Runs proximity / allocation / direction on numpy and dask rasters (several
dtypes, NaNs, odd shapes, C / F / strided / read-only layouts, all distance
metrics, bounded and unbounded max_distance) and compares

  * the bit pattern (dtype, shape, bytes) of every result with digests recorded
    on the unmodified tree (EXPECTED below),
  * dask results with the numpy results of the same call,
  * the C10 side conditions (inputs unchanged, no shared memory, dims / coords /
    attrs / backend kept).

usage: equiv.py            compare, exit 0 if identical
       equiv.py --record   print the digest table of the current tree
"""
import hashlib
import sys
import warnings

import dask.array as da
import numpy as np
import xarray as xr

import xrspatial
from xrspatial import allocation, direction, proximity

FUNCS = {'proximity': proximity, 'allocation': allocation, 'direction': direction}

EXPECTED = {
    'allocation|(1, 6)|float32|C|0|da-whole': '60e9babbca78dcf25c52/((1,), (6,))/((1,), (6,))',
    'allocation|(1, 6)|float32|C|0|np': '60e9babbca78dcf25c52',
    'allocation|(1, 6)|int32|C|0|da-whole': '60e9babbca78dcf25c52/((1,), (6,))/((1,), (6,))',
    'allocation|(1, 6)|int32|C|0|np': '60e9babbca78dcf25c52',
    'allocation|(2, 2)|float32|C|0|da-whole': '67e4ca979e4a9c88fa38/((2,), (2,))/((2,), (2,))',
    'allocation|(2, 2)|float32|C|0|np': '67e4ca979e4a9c88fa38',
    'allocation|(2, 2)|int32|C|0|da-whole': '67e4ca979e4a9c88fa38/((2,), (2,))/((2,), (2,))',
    'allocation|(2, 2)|int32|C|0|np': '67e4ca979e4a9c88fa38',
    'allocation|(5, 1)|float32|C|0|da-whole': '1afee2a189cccc002893/((5,), (1,))/((5,), (1,))',
    'allocation|(5, 1)|float32|C|0|np': '1afee2a189cccc002893',
    'allocation|(5, 1)|int32|C|0|da-whole': '1afee2a189cccc002893/((5,), (1,))/((5,), (1,))',
    'allocation|(5, 1)|int32|C|0|np': '1afee2a189cccc002893',
    'allocation|(7, 9)|float32|C|0|da-split': '56e83d92b6fa64c017fc/((7,), (9,))/((7,), (9,))',
    'allocation|(7, 9)|float32|C|0|np': '56e83d92b6fa64c017fc',
    'allocation|(7, 9)|float32|C|1|da-split': '56e83d92b6fa64c017fc/((3, 3, 1), (4, 4, 1))/((3, 4), (4, 5))',
    'allocation|(7, 9)|float32|C|1|np': '56e83d92b6fa64c017fc',
    'allocation|(7, 9)|float64|C|0|da-split': '56e83d92b6fa64c017fc/((7,), (9,))/((7,), (9,))',
    'allocation|(7, 9)|float64|C|0|da-uneven': '56e83d92b6fa64c017fc/((7,), (9,))/((7,), (9,))',
    'allocation|(7, 9)|float64|C|0|da-whole': '56e83d92b6fa64c017fc/((7,), (9,))/((7,), (9,))',
    'allocation|(7, 9)|float64|C|0|np': '56e83d92b6fa64c017fc',
    'allocation|(7, 9)|float64|C|1|da-split': '56e83d92b6fa64c017fc/((3, 3, 1), (4, 4, 1))/((3, 4), (4, 5))',
    'allocation|(7, 9)|float64|C|1|da-uneven': '56e83d92b6fa64c017fc/((2, 5), (6, 3))/((2, 5), (6, 3))',
    'allocation|(7, 9)|float64|C|1|da-whole': '56e83d92b6fa64c017fc/((7,), (9,))/((7,), (9,))',
    'allocation|(7, 9)|float64|C|1|np': '56e83d92b6fa64c017fc',
    'allocation|(7, 9)|float64|C|x0|da-uneven': 'ed000ac23e1ed0373c04/((7,), (9,))/((7,), (9,))',
    'allocation|(7, 9)|float64|C|x0|np': 'ed000ac23e1ed0373c04',
    'allocation|(7, 9)|float64|C|x1|da-uneven': '12ded8519c5e975a2d4b/((2, 5), (6, 3))/((7,), (9,))',
    'allocation|(7, 9)|float64|C|x1|np': '12ded8519c5e975a2d4b',
    'allocation|(7, 9)|float64|C|x2|da-uneven': 'da421db8ec6ed3d1da51/((7,), (9,))/((7,), (9,))',
    'allocation|(7, 9)|float64|C|x2|np': 'da421db8ec6ed3d1da51',
    'allocation|(7, 9)|float64|C|x3|np': 'f79dd4cbab355e35949a',
    'allocation|(7, 9)|float64|C|x4|da-uneven': '56e83d92b6fa64c017fc/((7,), (9,))/((7,), (9,))',
    'allocation|(7, 9)|float64|C|x4|np': '56e83d92b6fa64c017fc',
    'allocation|(7, 9)|float64|F|0|np': '56e83d92b6fa64c017fc',
    'allocation|(7, 9)|float64|readonly|0|np': '56e83d92b6fa64c017fc',
    'allocation|(7, 9)|float64|strided|0|np': '56e83d92b6fa64c017fc',
    'allocation|(7, 9)|int16|C|0|da-split': '56e83d92b6fa64c017fc/((7,), (9,))/((7,), (9,))',
    'allocation|(7, 9)|int16|C|0|da-uneven': '56e83d92b6fa64c017fc/((7,), (9,))/((7,), (9,))',
    'allocation|(7, 9)|int16|C|0|da-whole': '56e83d92b6fa64c017fc/((7,), (9,))/((7,), (9,))',
    'allocation|(7, 9)|int16|C|0|np': '56e83d92b6fa64c017fc',
    'allocation|(7, 9)|int16|C|1|da-split': '56e83d92b6fa64c017fc/((3, 3, 1), (4, 4, 1))/((3, 4), (4, 5))',
    'allocation|(7, 9)|int16|C|1|da-uneven': '56e83d92b6fa64c017fc/((2, 5), (6, 3))/((2, 5), (6, 3))',
    'allocation|(7, 9)|int16|C|1|da-whole': '56e83d92b6fa64c017fc/((7,), (9,))/((7,), (9,))',
    'allocation|(7, 9)|int16|C|1|np': '56e83d92b6fa64c017fc',
    'allocation|(7, 9)|int16|F|0|np': '56e83d92b6fa64c017fc',
    'allocation|(7, 9)|int16|readonly|0|np': '56e83d92b6fa64c017fc',
    'allocation|(7, 9)|int16|strided|0|np': '56e83d92b6fa64c017fc',
    'allocation|(7, 9)|int32|C|0|da-split': '56e83d92b6fa64c017fc/((7,), (9,))/((7,), (9,))',
    'allocation|(7, 9)|int32|C|0|np': '56e83d92b6fa64c017fc',
    'allocation|(7, 9)|int32|C|1|da-split': '56e83d92b6fa64c017fc/((3, 3, 1), (4, 4, 1))/((3, 4), (4, 5))',
    'allocation|(7, 9)|int32|C|1|np': '56e83d92b6fa64c017fc',
    'allocation|(7, 9)|int64|C|0|da-split': '56e83d92b6fa64c017fc/((7,), (9,))/((7,), (9,))',
    'allocation|(7, 9)|int64|C|0|np': '56e83d92b6fa64c017fc',
    'allocation|(7, 9)|int64|C|1|da-split': '56e83d92b6fa64c017fc/((3, 3, 1), (4, 4, 1))/((3, 4), (4, 5))',
    'allocation|(7, 9)|int64|C|1|np': '56e83d92b6fa64c017fc',
    'allocation|(7, 9)|int8|C|0|da-split': '56e83d92b6fa64c017fc/((7,), (9,))/((7,), (9,))',
    'allocation|(7, 9)|int8|C|0|np': '56e83d92b6fa64c017fc',
    'allocation|(7, 9)|int8|C|1|da-split': '56e83d92b6fa64c017fc/((3, 3, 1), (4, 4, 1))/((3, 4), (4, 5))',
    'allocation|(7, 9)|int8|C|1|np': '56e83d92b6fa64c017fc',
    'allocation|(7, 9)|uint16|C|0|da-split': '56e83d92b6fa64c017fc/((7,), (9,))/((7,), (9,))',
    'allocation|(7, 9)|uint16|C|0|np': '56e83d92b6fa64c017fc',
    'allocation|(7, 9)|uint16|C|1|da-split': '56e83d92b6fa64c017fc/((3, 3, 1), (4, 4, 1))/((3, 4), (4, 5))',
    'allocation|(7, 9)|uint16|C|1|np': '56e83d92b6fa64c017fc',
    'allocation|(7, 9)|uint32|C|0|da-split': '56e83d92b6fa64c017fc/((7,), (9,))/((7,), (9,))',
    'allocation|(7, 9)|uint32|C|0|np': '56e83d92b6fa64c017fc',
    'allocation|(7, 9)|uint32|C|1|da-split': '56e83d92b6fa64c017fc/((3, 3, 1), (4, 4, 1))/((3, 4), (4, 5))',
    'allocation|(7, 9)|uint32|C|1|np': '56e83d92b6fa64c017fc',
    'allocation|(7, 9)|uint64|C|0|da-split': '56e83d92b6fa64c017fc/((7,), (9,))/((7,), (9,))',
    'allocation|(7, 9)|uint64|C|0|np': '56e83d92b6fa64c017fc',
    'allocation|(7, 9)|uint64|C|1|da-split': '56e83d92b6fa64c017fc/((3, 3, 1), (4, 4, 1))/((3, 4), (4, 5))',
    'allocation|(7, 9)|uint64|C|1|np': '56e83d92b6fa64c017fc',
    'allocation|(7, 9)|uint8|C|0|da-split': '56e83d92b6fa64c017fc/((7,), (9,))/((7,), (9,))',
    'allocation|(7, 9)|uint8|C|0|np': '56e83d92b6fa64c017fc',
    'allocation|(7, 9)|uint8|C|1|da-split': '56e83d92b6fa64c017fc/((3, 3, 1), (4, 4, 1))/((3, 4), (4, 5))',
    'allocation|(7, 9)|uint8|C|1|np': '56e83d92b6fa64c017fc',
    'direction|(1, 6)|float32|C|0|da-whole': '9e23e0405cac704ed760/((1,), (6,))/((1,), (6,))',
    'direction|(1, 6)|float32|C|0|np': '9e23e0405cac704ed760',
    'direction|(1, 6)|int32|C|0|da-whole': '9e23e0405cac704ed760/((1,), (6,))/((1,), (6,))',
    'direction|(1, 6)|int32|C|0|np': '9e23e0405cac704ed760',
    'direction|(2, 2)|float32|C|0|da-whole': '4286fb4f19bbbba7032b/((2,), (2,))/((2,), (2,))',
    'direction|(2, 2)|float32|C|0|np': '4286fb4f19bbbba7032b',
    'direction|(2, 2)|int32|C|0|da-whole': '4286fb4f19bbbba7032b/((2,), (2,))/((2,), (2,))',
    'direction|(2, 2)|int32|C|0|np': '4286fb4f19bbbba7032b',
    'direction|(5, 1)|float32|C|0|da-whole': '567a9707a7d76a8b2007/((5,), (1,))/((5,), (1,))',
    'direction|(5, 1)|float32|C|0|np': '567a9707a7d76a8b2007',
    'direction|(5, 1)|int32|C|0|da-whole': '567a9707a7d76a8b2007/((5,), (1,))/((5,), (1,))',
    'direction|(5, 1)|int32|C|0|np': '567a9707a7d76a8b2007',
    'direction|(7, 9)|float32|C|0|da-split': '273c89edaa91a6bf7097/((7,), (9,))/((7,), (9,))',
    'direction|(7, 9)|float32|C|0|np': '273c89edaa91a6bf7097',
    'direction|(7, 9)|float32|C|1|da-split': '273c89edaa91a6bf7097/((3, 3, 1), (4, 4, 1))/((3, 4), (4, 5))',
    'direction|(7, 9)|float32|C|1|np': '273c89edaa91a6bf7097',
    'direction|(7, 9)|float64|C|0|da-split': '273c89edaa91a6bf7097/((7,), (9,))/((7,), (9,))',
    'direction|(7, 9)|float64|C|0|da-uneven': '273c89edaa91a6bf7097/((7,), (9,))/((7,), (9,))',
    'direction|(7, 9)|float64|C|0|da-whole': '273c89edaa91a6bf7097/((7,), (9,))/((7,), (9,))',
    'direction|(7, 9)|float64|C|0|np': '273c89edaa91a6bf7097',
    'direction|(7, 9)|float64|C|1|da-split': '273c89edaa91a6bf7097/((3, 3, 1), (4, 4, 1))/((3, 4), (4, 5))',
    'direction|(7, 9)|float64|C|1|da-uneven': '273c89edaa91a6bf7097/((2, 5), (6, 3))/((2, 5), (6, 3))',
    'direction|(7, 9)|float64|C|1|da-whole': '273c89edaa91a6bf7097/((7,), (9,))/((7,), (9,))',
    'direction|(7, 9)|float64|C|1|np': '273c89edaa91a6bf7097',
    'direction|(7, 9)|float64|C|x0|da-uneven': 'dbe19c6f9e046375e010/((7,), (9,))/((7,), (9,))',
    'direction|(7, 9)|float64|C|x0|np': 'dbe19c6f9e046375e010',
    'direction|(7, 9)|float64|C|x1|da-uneven': 'ffa33a6ae7c4003bdeef/((2, 5), (6, 3))/((7,), (9,))',
    'direction|(7, 9)|float64|C|x1|np': 'ffa33a6ae7c4003bdeef',
    'direction|(7, 9)|float64|C|x2|da-uneven': '8adc135a7361101154aa/((7,), (9,))/((7,), (9,))',
    'direction|(7, 9)|float64|C|x2|np': '8adc135a7361101154aa',
    'direction|(7, 9)|float64|C|x3|np': '99daa0ca608a2baa0014',
    'direction|(7, 9)|float64|C|x4|da-uneven': '273c89edaa91a6bf7097/((7,), (9,))/((7,), (9,))',
    'direction|(7, 9)|float64|C|x4|np': '273c89edaa91a6bf7097',
    'direction|(7, 9)|int16|C|0|da-split': '273c89edaa91a6bf7097/((7,), (9,))/((7,), (9,))',
    'direction|(7, 9)|int16|C|0|da-uneven': '273c89edaa91a6bf7097/((7,), (9,))/((7,), (9,))',
    'direction|(7, 9)|int16|C|0|da-whole': '273c89edaa91a6bf7097/((7,), (9,))/((7,), (9,))',
    'direction|(7, 9)|int16|C|0|np': '273c89edaa91a6bf7097',
    'direction|(7, 9)|int16|C|1|da-split': '273c89edaa91a6bf7097/((3, 3, 1), (4, 4, 1))/((3, 4), (4, 5))',
    'direction|(7, 9)|int16|C|1|da-uneven': '273c89edaa91a6bf7097/((2, 5), (6, 3))/((2, 5), (6, 3))',
    'direction|(7, 9)|int16|C|1|da-whole': '273c89edaa91a6bf7097/((7,), (9,))/((7,), (9,))',
    'direction|(7, 9)|int16|C|1|np': '273c89edaa91a6bf7097',
    'direction|(7, 9)|int32|C|0|da-split': '273c89edaa91a6bf7097/((7,), (9,))/((7,), (9,))',
    'direction|(7, 9)|int32|C|0|np': '273c89edaa91a6bf7097',
    'direction|(7, 9)|int32|C|1|da-split': '273c89edaa91a6bf7097/((3, 3, 1), (4, 4, 1))/((3, 4), (4, 5))',
    'direction|(7, 9)|int32|C|1|np': '273c89edaa91a6bf7097',
    'direction|(7, 9)|int64|C|0|da-split': '273c89edaa91a6bf7097/((7,), (9,))/((7,), (9,))',
    'direction|(7, 9)|int64|C|0|np': '273c89edaa91a6bf7097',
    'direction|(7, 9)|int64|C|1|da-split': '273c89edaa91a6bf7097/((3, 3, 1), (4, 4, 1))/((3, 4), (4, 5))',
    'direction|(7, 9)|int64|C|1|np': '273c89edaa91a6bf7097',
    'direction|(7, 9)|int8|C|0|da-split': '273c89edaa91a6bf7097/((7,), (9,))/((7,), (9,))',
    'direction|(7, 9)|int8|C|0|np': '273c89edaa91a6bf7097',
    'direction|(7, 9)|int8|C|1|da-split': '273c89edaa91a6bf7097/((3, 3, 1), (4, 4, 1))/((3, 4), (4, 5))',
    'direction|(7, 9)|int8|C|1|np': '273c89edaa91a6bf7097',
    'direction|(7, 9)|uint16|C|0|da-split': '273c89edaa91a6bf7097/((7,), (9,))/((7,), (9,))',
    'direction|(7, 9)|uint16|C|0|np': '273c89edaa91a6bf7097',
    'direction|(7, 9)|uint16|C|1|da-split': '273c89edaa91a6bf7097/((3, 3, 1), (4, 4, 1))/((3, 4), (4, 5))',
    'direction|(7, 9)|uint16|C|1|np': '273c89edaa91a6bf7097',
    'direction|(7, 9)|uint32|C|0|da-split': '273c89edaa91a6bf7097/((7,), (9,))/((7,), (9,))',
    'direction|(7, 9)|uint32|C|0|np': '273c89edaa91a6bf7097',
    'direction|(7, 9)|uint32|C|1|da-split': '273c89edaa91a6bf7097/((3, 3, 1), (4, 4, 1))/((3, 4), (4, 5))',
    'direction|(7, 9)|uint32|C|1|np': '273c89edaa91a6bf7097',
    'direction|(7, 9)|uint64|C|0|da-split': '273c89edaa91a6bf7097/((7,), (9,))/((7,), (9,))',
    'direction|(7, 9)|uint64|C|0|np': '273c89edaa91a6bf7097',
    'direction|(7, 9)|uint64|C|1|da-split': '273c89edaa91a6bf7097/((3, 3, 1), (4, 4, 1))/((3, 4), (4, 5))',
    'direction|(7, 9)|uint64|C|1|np': '273c89edaa91a6bf7097',
    'direction|(7, 9)|uint8|C|0|da-split': '273c89edaa91a6bf7097/((7,), (9,))/((7,), (9,))',
    'direction|(7, 9)|uint8|C|0|np': '273c89edaa91a6bf7097',
    'direction|(7, 9)|uint8|C|1|da-split': '273c89edaa91a6bf7097/((3, 3, 1), (4, 4, 1))/((3, 4), (4, 5))',
    'direction|(7, 9)|uint8|C|1|np': '273c89edaa91a6bf7097',
    'proximity|(1, 6)|float32|C|0|da-whole': '0e54eee3f57404deab66/((1,), (6,))/((1,), (6,))',
    'proximity|(1, 6)|float32|C|0|np': '0e54eee3f57404deab66',
    'proximity|(1, 6)|int32|C|0|da-whole': '0e54eee3f57404deab66/((1,), (6,))/((1,), (6,))',
    'proximity|(1, 6)|int32|C|0|np': '0e54eee3f57404deab66',
    'proximity|(2, 2)|float32|C|0|da-whole': 'b0313724a20f78a6197d/((2,), (2,))/((2,), (2,))',
    'proximity|(2, 2)|float32|C|0|np': 'b0313724a20f78a6197d',
    'proximity|(2, 2)|int32|C|0|da-whole': 'b0313724a20f78a6197d/((2,), (2,))/((2,), (2,))',
    'proximity|(2, 2)|int32|C|0|np': 'b0313724a20f78a6197d',
    'proximity|(5, 1)|float32|C|0|da-whole': '73de7b15130c94f8845f/((5,), (1,))/((5,), (1,))',
    'proximity|(5, 1)|float32|C|0|np': '73de7b15130c94f8845f',
    'proximity|(5, 1)|int32|C|0|da-whole': '73de7b15130c94f8845f/((5,), (1,))/((5,), (1,))',
    'proximity|(5, 1)|int32|C|0|np': '73de7b15130c94f8845f',
    'proximity|(7, 9)|float32|C|0|da-split': '33a2f2bee8228d49d794/((7,), (9,))/((7,), (9,))',
    'proximity|(7, 9)|float32|C|0|np': '33a2f2bee8228d49d794',
    'proximity|(7, 9)|float32|C|1|da-split': '33a2f2bee8228d49d794/((3, 3, 1), (4, 4, 1))/((3, 4), (4, 5))',
    'proximity|(7, 9)|float32|C|1|np': '33a2f2bee8228d49d794',
    'proximity|(7, 9)|float64|C|0|da-split': '33a2f2bee8228d49d794/((7,), (9,))/((7,), (9,))',
    'proximity|(7, 9)|float64|C|0|da-uneven': '33a2f2bee8228d49d794/((7,), (9,))/((7,), (9,))',
    'proximity|(7, 9)|float64|C|0|da-whole': '33a2f2bee8228d49d794/((7,), (9,))/((7,), (9,))',
    'proximity|(7, 9)|float64|C|0|np': '33a2f2bee8228d49d794',
    'proximity|(7, 9)|float64|C|1|da-split': '33a2f2bee8228d49d794/((3, 3, 1), (4, 4, 1))/((3, 4), (4, 5))',
    'proximity|(7, 9)|float64|C|1|da-uneven': '33a2f2bee8228d49d794/((2, 5), (6, 3))/((2, 5), (6, 3))',
    'proximity|(7, 9)|float64|C|1|da-whole': '33a2f2bee8228d49d794/((7,), (9,))/((7,), (9,))',
    'proximity|(7, 9)|float64|C|1|np': '33a2f2bee8228d49d794',
    'proximity|(7, 9)|float64|C|x0|da-uneven': 'ae2fdf524f456561974c/((7,), (9,))/((7,), (9,))',
    'proximity|(7, 9)|float64|C|x0|np': 'ae2fdf524f456561974c',
    'proximity|(7, 9)|float64|C|x1|da-uneven': '05d19e98ea4920b99671/((2, 5), (6, 3))/((7,), (9,))',
    'proximity|(7, 9)|float64|C|x1|np': '05d19e98ea4920b99671',
    'proximity|(7, 9)|float64|C|x2|da-uneven': '98dcff064e573770ba4d/((7,), (9,))/((7,), (9,))',
    'proximity|(7, 9)|float64|C|x2|np': '98dcff064e573770ba4d',
    'proximity|(7, 9)|float64|C|x3|np': '373c1bed214a7bb23baa',
    'proximity|(7, 9)|float64|C|x4|da-uneven': '33a2f2bee8228d49d794/((7,), (9,))/((7,), (9,))',
    'proximity|(7, 9)|float64|C|x4|np': '33a2f2bee8228d49d794',
    'proximity|(7, 9)|float64|F|0|np': '33a2f2bee8228d49d794',
    'proximity|(7, 9)|float64|readonly|0|np': '33a2f2bee8228d49d794',
    'proximity|(7, 9)|float64|strided|0|np': '33a2f2bee8228d49d794',
    'proximity|(7, 9)|int16|C|0|da-split': '33a2f2bee8228d49d794/((7,), (9,))/((7,), (9,))',
    'proximity|(7, 9)|int16|C|0|da-uneven': '33a2f2bee8228d49d794/((7,), (9,))/((7,), (9,))',
    'proximity|(7, 9)|int16|C|0|da-whole': '33a2f2bee8228d49d794/((7,), (9,))/((7,), (9,))',
    'proximity|(7, 9)|int16|C|0|np': '33a2f2bee8228d49d794',
    'proximity|(7, 9)|int16|C|1|da-split': '33a2f2bee8228d49d794/((3, 3, 1), (4, 4, 1))/((3, 4), (4, 5))',
    'proximity|(7, 9)|int16|C|1|da-uneven': '33a2f2bee8228d49d794/((2, 5), (6, 3))/((2, 5), (6, 3))',
    'proximity|(7, 9)|int16|C|1|da-whole': '33a2f2bee8228d49d794/((7,), (9,))/((7,), (9,))',
    'proximity|(7, 9)|int16|C|1|np': '33a2f2bee8228d49d794',
    'proximity|(7, 9)|int16|F|0|np': '33a2f2bee8228d49d794',
    'proximity|(7, 9)|int16|readonly|0|np': '33a2f2bee8228d49d794',
    'proximity|(7, 9)|int16|strided|0|np': '33a2f2bee8228d49d794',
    'proximity|(7, 9)|int32|C|0|da-split': '33a2f2bee8228d49d794/((7,), (9,))/((7,), (9,))',
    'proximity|(7, 9)|int32|C|0|np': '33a2f2bee8228d49d794',
    'proximity|(7, 9)|int32|C|1|da-split': '33a2f2bee8228d49d794/((3, 3, 1), (4, 4, 1))/((3, 4), (4, 5))',
    'proximity|(7, 9)|int32|C|1|np': '33a2f2bee8228d49d794',
    'proximity|(7, 9)|int64|C|0|da-split': '33a2f2bee8228d49d794/((7,), (9,))/((7,), (9,))',
    'proximity|(7, 9)|int64|C|0|np': '33a2f2bee8228d49d794',
    'proximity|(7, 9)|int64|C|1|da-split': '33a2f2bee8228d49d794/((3, 3, 1), (4, 4, 1))/((3, 4), (4, 5))',
    'proximity|(7, 9)|int64|C|1|np': '33a2f2bee8228d49d794',
    'proximity|(7, 9)|int8|C|0|da-split': '33a2f2bee8228d49d794/((7,), (9,))/((7,), (9,))',
    'proximity|(7, 9)|int8|C|0|np': '33a2f2bee8228d49d794',
    'proximity|(7, 9)|int8|C|1|da-split': '33a2f2bee8228d49d794/((3, 3, 1), (4, 4, 1))/((3, 4), (4, 5))',
    'proximity|(7, 9)|int8|C|1|np': '33a2f2bee8228d49d794',
    'proximity|(7, 9)|uint16|C|0|da-split': '33a2f2bee8228d49d794/((7,), (9,))/((7,), (9,))',
    'proximity|(7, 9)|uint16|C|0|np': '33a2f2bee8228d49d794',
    'proximity|(7, 9)|uint16|C|1|da-split': '33a2f2bee8228d49d794/((3, 3, 1), (4, 4, 1))/((3, 4), (4, 5))',
    'proximity|(7, 9)|uint16|C|1|np': '33a2f2bee8228d49d794',
    'proximity|(7, 9)|uint32|C|0|da-split': '33a2f2bee8228d49d794/((7,), (9,))/((7,), (9,))',
    'proximity|(7, 9)|uint32|C|0|np': '33a2f2bee8228d49d794',
    'proximity|(7, 9)|uint32|C|1|da-split': '33a2f2bee8228d49d794/((3, 3, 1), (4, 4, 1))/((3, 4), (4, 5))',
    'proximity|(7, 9)|uint32|C|1|np': '33a2f2bee8228d49d794',
    'proximity|(7, 9)|uint64|C|0|da-split': '33a2f2bee8228d49d794/((7,), (9,))/((7,), (9,))',
    'proximity|(7, 9)|uint64|C|0|np': '33a2f2bee8228d49d794',
    'proximity|(7, 9)|uint64|C|1|da-split': '33a2f2bee8228d49d794/((3, 3, 1), (4, 4, 1))/((3, 4), (4, 5))',
    'proximity|(7, 9)|uint64|C|1|np': '33a2f2bee8228d49d794',
    'proximity|(7, 9)|uint8|C|0|da-split': '33a2f2bee8228d49d794/((7,), (9,))/((7,), (9,))',
    'proximity|(7, 9)|uint8|C|0|np': '33a2f2bee8228d49d794',
    'proximity|(7, 9)|uint8|C|1|da-split': '33a2f2bee8228d49d794/((3, 3, 1), (4, 4, 1))/((3, 4), (4, 5))',
    'proximity|(7, 9)|uint8|C|1|np': '33a2f2bee8228d49d794',
}


def digest(arr):
    arr = np.asarray(arr)
    h = hashlib.sha256()
    h.update(str(arr.dtype).encode())
    h.update(str(arr.shape).encode())
    h.update(np.ascontiguousarray(arr).tobytes())
    return h.hexdigest()[:20]


def base_values(shape, seed):
    rng = np.random.RandomState(seed)
    v = rng.randint(0, 4, size=shape).astype(np.float64)
    v[rng.rand(*shape) < 0.55] = 0
    return v


def layouts(values, dtype):
    """yield (label, ndarray) in several memory layouts, same values."""
    v = values.astype(dtype)
    yield 'C', np.ascontiguousarray(v)
    yield 'F', np.asfortranarray(v)
    big = np.zeros((v.shape[0] * 2, v.shape[1] * 2), dtype=dtype)
    big[::2, ::2] = v
    yield 'strided', big[::2, ::2]
    ro = v.copy()
    ro.setflags(write=False)
    yield 'readonly', ro


def make(data, shape, descending_y=True):
    h, w = shape
    ys = np.linspace(10.0, 10.0 + 0.5 * (h - 1), h)
    if descending_y:
        ys = ys[::-1].copy()
    xs = np.linspace(-3.0, -3.0 + 0.25 * (w - 1), w)
    agg = xr.DataArray(data, dims=['lat', 'lon'],
                       coords={'lat': ys, 'lon': xs},
                       attrs={'res': (0.25, 0.5), 'crs': 'x', 'nested': {'a': [1, 2]}},
                       name='src')
    agg = agg.assign_coords(spatial_ref=0, time=np.datetime64('2020-01-02'))
    return agg


def snapshot(agg):
    return dict(values=np.array(agg.values, copy=True),
                coords={k: np.array(v.values, copy=True) for k, v in agg.coords.items()},
                attrs=repr(agg.attrs), dims=agg.dims, dtype=agg.dtype,
                name=agg.name, shape=agg.shape)


def check_identity(label, agg, before, out, is_dask):
    errs = []
    if not np.array_equal(before['values'], agg.values, equal_nan=True):
        errs.append('input values changed')
    if agg.dtype != before['dtype'] or agg.shape != before['shape']:
        errs.append('input dtype/shape changed')
    if repr(agg.attrs) != before['attrs'] or agg.dims != before['dims']:
        errs.append('input attrs/dims changed')
    for k, v in before['coords'].items():
        if k not in agg.coords or not np.array_equal(agg.coords[k].values, v):
            errs.append('input coord %s changed' % k)
    if out.shape != agg.shape or out.dims != agg.dims:
        errs.append('output shape/dims differ')
    if set(out.coords) != set(agg.coords):
        errs.append('output coords differ: %s' % sorted(out.coords))
    else:
        for k in agg.coords:
            if not np.array_equal(out.coords[k].values, agg.coords[k].values):
                errs.append('output coord %s differs' % k)
    if out.attrs != agg.attrs:
        errs.append('output attrs differ')
    if is_dask != isinstance(out.data, da.Array):
        errs.append('backend changed')
    if not is_dask:
        if np.shares_memory(out.data, agg.data):
            errs.append('output shares memory with input')
    return ['%s: %s' % (label, e) for e in errs]


def cases():
    """yield (label, function name, kwargs, ndarray, shape, dask chunk names)."""
    dtypes = ['int8', 'uint8', 'int16', 'uint16', 'int32', 'uint32', 'int64',
              'uint64', 'float32', 'float64']
    shape = (7, 9)
    vals = base_values(shape, 10)

    def values_for(dt):
        v = vals.copy()
        if dt.startswith('float'):
            v.flat[1] = np.nan
            v.flat[v.size - 2] = np.nan
        return v

    # every dtype, C layout, unbounded and bounded search
    for dt in dtypes:
        arr = np.ascontiguousarray(values_for(dt).astype(dt))
        for fname in FUNCS:
            for ki, kw in enumerate([dict(), dict(max_distance=0.8)]):
                rich = dt in ('int16', 'float64')
                yield ('%s|%s|%s|C|%d' % (fname, shape, dt, ki), fname, kw, arr, shape,
                       ('whole', 'split', 'uneven') if rich else ('split',))
    # memory layouts
    for dt in ('int16', 'float64'):
        for lname, arr in layouts(values_for(dt), dt):
            if lname == 'C':
                continue
            for fname in ('proximity', 'allocation'):
                yield ('%s|%s|%s|%s|0' % (fname, shape, dt, lname), fname, dict(), arr,
                       shape, ())
    # options
    arr = np.ascontiguousarray(values_for('float64'))
    extra = [dict(target_values=[1, 3]),
             dict(distance_metric='MANHATTAN', max_distance=1.3),
             dict(distance_metric='GREAT_CIRCLE'),
             dict(distance_metric='GREAT_CIRCLE', max_distance=60000.0),
             dict(max_distance=1e9)]
    for fname in FUNCS:
        for ki, kw in enumerate(extra):
            # (a bounded great-circle search in metres needs an overlap wider than
            # this raster: numpy only)
            yield ('%s|%s|float64|C|x%d' % (fname, shape, ki), fname, kw, arr, shape,
                   () if ki == 3 else ('uneven',))
    # degenerate shapes
    for si, shp in enumerate([(1, 6), (5, 1), (2, 2)]):
        v = base_values(shp, 20 + si)
        v.flat[0] = 2
        for dt in ('int32', 'float32'):
            arr = np.ascontiguousarray(v.astype(dt))
            for fname in FUNCS:
                yield ('%s|%s|%s|C|0' % (fname, shp, dt), fname, dict(), arr, shp,
                       ('whole',))


def chunking(name, shape):
    h, w = shape
    return {'whole': (h, w), 'split': (3, 4),
            'uneven': ((2, h - 2), (w - 3, 3))}[name]


def main(record):
    assert xrspatial.__file__.startswith('/tmp/t5/TC10/'), xrspatial.__file__
    warnings.simplefilter('ignore')
    table = {}
    errors = []
    for label, fname, kw, arr, shape, chunk_names in cases():
        func = FUNCS[fname]
        kw = dict(kw, x='lon', y='lat')
        # ---- numpy
        agg = make(arr, shape)
        before = snapshot(agg)
        out = func(agg, **kw)
        errors += check_identity(label + '|np', agg, before, out, False)
        np_res = np.array(out.data)
        table[label + '|np'] = digest(np_res)
        # writing to the output never changes the input
        out.data[...] = -12345
        if not np.array_equal(before['values'], agg.values, equal_nan=True):
            errors.append(label + ': writing to output changed the input')
        # ---- dask
        for cname in chunk_names:
            chunks = chunking(cname, shape)
            dagg = make(da.from_array(arr, chunks=chunks), shape)
            before = snapshot(dagg)
            dout = func(dagg, **kw)
            key = label + '|da-' + cname
            errors += check_identity(key, dagg, before, dout, True)
            res = dout.data.compute()
            table[key] = '%s/%r/%r' % (digest(res), dagg.data.chunks, dout.data.chunks)
            bounded = kw.get('max_distance') is not None and kw['max_distance'] < 1e8
            if cname == 'whole' or not bounded:
                # the whole raster is visible to every block: must equal numpy
                if digest(res) != digest(np_res):
                    errors.append(key + ': dask result differs from numpy result')
            if not np.array_equal(before['values'], dagg.values, equal_nan=True):
                errors.append(key + ': dask input changed after compute')

    if record:
        for k in sorted(table):
            print('    %r: %r,' % (k, table[k]))
        return 0

    for k in sorted(set(table) | set(EXPECTED)):
        if table.get(k) != EXPECTED.get(k):
            errors.append('%s: got %s expected %s' % (k, table.get(k), EXPECTED.get(k)))
    for e in errors[:40]:
        print('DIFF', e)
    print('%d cases, %d differences' % (len(table), len(errors)))
    return 1 if errors else 0


if __name__ == '__main__':
    sys.exit(main('--record' in sys.argv))
