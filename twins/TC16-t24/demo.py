"""Demo for C16: regions labels == connected components of equal value.

Run as: PYTHONPATH=<tree> /venv/bin/python demo.py
Compares xrspatial.zonal.regions with an independent brute-force flood-fill
oracle (partition equality), and checks dtype / NaN / coords / attrs / name.
"""
import itertools
import sys

import numpy as np
import xarray as xr

from xrspatial.zonal import regions

N4 = [(-1, 0), (1, 0), (0, -1), (0, 1)]
N8 = N4 + [(-1, -1), (-1, 1), (1, -1), (1, 1)]


def oracle(arr, n):
    """Flood fill: component id per cell, -1 for NaN cells."""
    rows, cols = arr.shape
    comp = -np.ones(arr.shape, dtype=np.int64)
    offs = N4 if n == 4 else N8
    nxt = 0
    for y in range(rows):
        for x in range(cols):
            v = arr[y, x]
            if v != v or comp[y, x] >= 0:
                continue
            comp[y, x] = nxt
            stack = [(y, x)]
            while stack:
                cy, cx = stack.pop()
                for dy, dx in offs:
                    yy, xx = cy + dy, cx + dx
                    if 0 <= yy < rows and 0 <= xx < cols \
                            and comp[yy, xx] < 0 and arr[yy, xx] == v:
                        comp[yy, xx] = nxt
                        stack.append((yy, xx))
            nxt += 1
    return comp


def check(arr, n, tag):
    rows, cols = arr.shape
    coords = {'lat': np.linspace(5.0, 1.0, rows), 'lon': np.arange(cols) * 2.5}
    attrs = {'res': (2.5, 1.0), 'unit': 'm'}
    da = xr.DataArray(arr.copy(), dims=('lat', 'lon'), coords=coords,
                      attrs=attrs, name='src')
    res = regions(da, neighborhood=n, name='rg')
    out = np.asarray(res.data)
    is_int = np.issubdtype(arr.dtype, np.integer)
    assert out.dtype == (np.int64 if is_int else np.float64), (tag, out.dtype)
    assert res.shape == arr.shape and res.dims == da.dims, tag
    assert res.name == 'rg' and res.attrs == attrs, tag
    for k in coords:
        assert np.array_equal(res[k].values, coords[k]), tag
    assert np.array_equal(da.values, arr, equal_nan=True), tag  # input intact

    comp = oracle(arr, n)
    nanmask = comp < 0
    if not is_int:
        assert np.array_equal(np.isnan(out), nanmask), (tag, 'NaN placement')
    valid = ~nanmask
    assert (out[valid] > 0).all(), (tag, 'positive labels')
    assert (out[valid] == np.floor(out[valid])).all(), tag
    # partition equality: label <-> component must be a bijection
    l2c, c2l = {}, {}
    for lab, c in zip(out[valid].tolist(), comp[valid].tolist()):
        assert l2c.setdefault(lab, c) == c, (tag, 'label spans components')
        assert c2l.setdefault(c, lab) == lab, (tag, 'component split')


def main():
    count = 0
    # exhaustive: tiny shapes over alphabet {0,1,2}, several dtypes
    for shape in [(1, 5), (5, 1), (2, 3), (3, 2), (1, 1)]:
        ncell = shape[0] * shape[1]
        for cells in itertools.product((0, 1, 2), repeat=ncell):
            base = np.array(cells).reshape(shape)
            for dt in (np.int8, np.float64):
                for n in (4, 8):
                    check(base.astype(dt), n, ('exh', shape, cells, dt, n))
                    count += 1
    # exhaustive with NaN as a symbol (float only)
    for shape in [(2, 3), (1, 6), (4, 1)]:
        ncell = shape[0] * shape[1]
        for cells in itertools.product((np.nan, 1.0, 7.0), repeat=ncell):
            base = np.array(cells, dtype=np.float32).reshape(shape)
            for n in (4, 8):
                check(base, n, ('nan', shape, cells, n))
                count += 1
    # random larger, non-square, many ties, several dtypes, NaN holes
    rng = np.random.default_rng(16)
    dts = (np.uint8, np.int16, np.int32, np.int64, np.uint16, np.float32,
           np.float64)
    for i in range(120):
        shape = (int(rng.integers(1, 12)), int(rng.integers(1, 17)))
        k = int(rng.integers(1, 4))
        dt = dts[i % len(dts)]
        arr = rng.integers(0, k + 1, size=shape).astype(dt)
        if not np.issubdtype(dt, np.integer):
            arr[rng.random(shape) < 0.2] = np.nan
        for n in (4, 8):
            check(arr, n, ('rnd', i, shape, dt, n))
            count += 1
    # hand-made nasty shapes: spiral / U / checkerboard / negative values
    spiral = np.array([[1, 1, 1, 1, 1, 1, 1],
                       [0, 0, 0, 0, 0, 0, 1],
                       [1, 1, 1, 1, 1, 0, 1],
                       [1, 0, 0, 0, 1, 0, 1],
                       [1, 0, 1, 1, 1, 0, 1],
                       [1, 0, 0, 0, 0, 0, 1],
                       [1, 1, 1, 1, 1, 1, 1]])
    checker = np.indices((5, 8)).sum(axis=0) % 2
    ushape = np.array([[3, -2, 3], [3, -2, 3], [3, -2, 3], [3, 3, 3]])
    allnan = np.full((3, 4), np.nan)
    for a in (spiral, spiral.T[::-1], checker, ushape, ushape[::-1]):
        for dt in (np.int8, np.int64, np.float32, np.float64):
            for n in (4, 8):
                check(a.astype(dt), n, ('hand', dt, n))
                count += 1
    for n in (4, 8):
        check(allnan, n, ('allnan', n))
        count += 1
    print('OK: %d cases agree with the brute-force oracle' % count)
    return 0


if __name__ == '__main__':
    sys.exit(main())
