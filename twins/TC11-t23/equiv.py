"""Differential test for refactoring t23 (proximity scan-line kernel).

Run from inside the worktree:
    cd /tmp/t5/TC11 && PYTHONPATH=/tmp/t5/TC11 /venv/bin/python /tmp/t9/out/TC11-t23/equiv.py
Digests in EXPECTED were recorded on the unmodified tree (RECORD=1 prints them).
"""
import hashlib
import json
import os
import sys
import warnings

import dask.array as da
import numpy as np
import xarray as xr

import xrspatial
from xrspatial import allocation, direction, proximity

warnings.simplefilter("ignore")
print("xrspatial from", xrspatial.__file__)


def digest(a):
    a = np.asarray(a)
    h = hashlib.sha256()
    h.update(str(a.dtype).encode())
    h.update(str(a.shape).encode())
    h.update(np.ascontiguousarray(a).tobytes())
    return h.hexdigest()[:24]


def raster(shape, dtype, kind, rs):
    h, w = shape
    if kind == "sparse":
        d = (rs.rand(h, w) < 0.12) * rs.randint(1, 5, size=(h, w))
    elif kind == "dense":
        d = rs.randint(0, 4, size=(h, w))
    elif kind == "empty":
        d = np.zeros((h, w))
    else:  # ties: symmetric targets so that several nearest targets tie
        d = np.zeros((h, w))
        d[0, 0] = 1
        d[0, -1] = 2
        d[-1, 0] = 3
        d[-1, -1] = 4
        d[h // 2, w // 2] = 2
    d = d.astype(dtype)
    if np.issubdtype(np.dtype(dtype), np.floating) and kind in ("sparse", "dense"):
        m = rs.rand(h, w) < 0.1
        d[m] = np.nan
        d[rs.rand(h, w) < 0.03] = np.inf
    return d


def mk(d, backend, lonlat):
    h, w = d.shape
    if lonlat:
        xs = np.linspace(-170, 170, w)
        ys = np.linspace(80, -80, h)
    else:
        xs = np.arange(w) * 0.5 + 3.0
        ys = (np.arange(h) * 2.0 + 1.0)[::-1]
    data = d.copy()
    if backend == "dask":
        data = da.from_array(data, chunks=(max(1, h // 2), max(1, w // 3)))
    return xr.DataArray(data, dims=["y", "x"], coords={"y": ys, "x": xs})


def cases():
    out = []
    rs = np.random.RandomState(7)
    shapes = [(1, 1), (1, 7), (6, 1), (5, 8), (11, 7), (9, 9)]
    for shape in shapes:
        for dt in (np.float64, np.float32, np.int32, np.uint8):
            for kind in ("sparse", "dense", "empty", "ties"):
                d = raster(shape, dt, kind, rs)
                for metric in ("EUCLIDEAN", "MANHATTAN", "GREAT_CIRCLE"):
                    mds = (np.inf, 3.0e6) if metric == "GREAT_CIRCLE" else (np.inf, 0, 1, 2.5, 4)
                    for md in mds:
                        for tv in ([], [2], [1, 3]):
                            if kind == "empty" and tv:
                                continue
                            for backend in ("numpy", "dask"):
                                if backend == "dask" and min(shape) < 2:
                                    continue
                                for nm in ("prox", "alloc", "dir"):
                                    out.append((nm, shape, dt, kind, metric, md, tv, backend, d))
    return out


def kernel_fuzz():
    # direct fuzz of the scan-line kernel (private, signature unchanged)
    from xrspatial.proximity import _process_proximity_line
    rs = np.random.RandomState(11)
    h = hashlib.sha256()
    for it in range(400):
        width = int(rs.randint(1, 12))
        height = int(rs.randint(1, 5))
        dt = [np.float64, np.float32, np.int32][it % 3]
        line = rs.randint(0, 3, size=width).astype(dt)
        if dt != np.int32 and it % 4 == 0:
            line[rs.rand(width) < 0.3] = np.nan
        xs = np.tile(np.arange(width) * 1.5, height).reshape(height, width)
        ys = np.repeat(np.arange(height)[::-1] * 1.0, width).reshape(height, width)
        if it % 7 == 0:
            xs[rs.rand(height, width) < 0.2] = np.nan
        pnx = rs.randint(-1, width, size=width).astype(np.int64)
        pny = rs.randint(0, height, size=width).astype(np.int64)
        pny[pnx == -1] = -1
        line_id = int(rs.randint(0, height))
        md = [np.inf, 2.0, 0.0, 3][it % 4]
        prox = np.where(rs.rand(width) < 0.5, -1.0, rs.rand(width) * 4).astype(np.float32)
        nxs = np.full(width, -1, dtype=np.int64)
        nys = np.full(width, -1, dtype=np.int64)
        values = [np.array([], dtype=np.float64), np.array([1.0]), np.array([1, 2])][it % 3]
        metric = [0, 2][it % 2]
        _process_proximity_line(line, xs, ys, pnx, pny, bool(it % 2), line_id, width, md,
                                prox, nxs, nys, values, metric)
        for a in (pnx, pny, prox, nxs, nys):
            h.update(a.tobytes())
    return h.hexdigest()[:24]


def run():
    res = {}
    funcs = {"prox": proximity, "alloc": allocation, "dir": direction}
    allc = cases()
    stride = 53  # deterministic thinning: each call re-jits a closure (~1 s)
    for nm, shape, dt, kind, metric, md, tv, backend, d in allc[::stride]:
        key = "|".join(map(str, (nm, shape, np.dtype(dt).name, kind, metric, md, tv, backend)))
        try:
            out = funcs[nm](mk(d, backend, metric == "GREAT_CIRCLE"), target_values=tv,
                            max_distance=md, distance_metric=metric)
            assert isinstance(out.data, da.Array) == (backend == "dask")
            res[key] = digest(out.values)
        except Exception as e:  # behaviour on errors must match too
            res[key] = "ERR:" + type(e).__name__
    res["kernel_fuzz"] = kernel_fuzz()
    return res


EXPECTED = json.loads(r'''
{"alloc|(1, 1)|float32|empty|EUCLIDEAN|1|[]|numpy": "3d8106d92e9af40a72494b9e",
"alloc|(1, 1)|float32|sparse|MANHATTAN|1|[]|numpy": "3d8106d92e9af40a72494b9e",
"alloc|(1, 1)|float64|sparse|GREAT_CIRCLE|3000000.0|[1, 3]|numpy": "3d8106d92e9af40a72494b9e",
"alloc|(1, 1)|float64|ties|EUCLIDEAN|0|[2]|numpy": "c076640afeb7e425c465134d",
"alloc|(1, 1)|int32|dense|MANHATTAN|2.5|[]|numpy": "962daf9c977c9429e43827b0",
"alloc|(1, 1)|int32|sparse|EUCLIDEAN|1|[2]|numpy": "3d8106d92e9af40a72494b9e",
"alloc|(1, 1)|int32|ties|MANHATTAN|4|[1, 3]|numpy": "3d8106d92e9af40a72494b9e",
"alloc|(1, 1)|uint8|dense|EUCLIDEAN|2.5|[2]|numpy": "3d8106d92e9af40a72494b9e",
"alloc|(1, 1)|uint8|ties|MANHATTAN|inf|[]|numpy": "c076640afeb7e425c465134d",
"alloc|(1, 7)|float32|dense|GREAT_CIRCLE|3000000.0|[1, 3]|numpy": "28f42df74ea583cef8628cce",
"alloc|(1, 7)|float32|sparse|MANHATTAN|0|[]|numpy": "28f42df74ea583cef8628cce",
"alloc|(1, 7)|float64|sparse|GREAT_CIRCLE|inf|[1, 3]|numpy": "674b6e4e55fa7e2e8296caed",
"alloc|(1, 7)|float64|ties|EUCLIDEAN|inf|[2]|numpy": "e94c0d264c85f77219a0b573",
"alloc|(1, 7)|int32|dense|MANHATTAN|1|[]|numpy": "aa3709bc026b543666c6adad",
"alloc|(1, 7)|int32|sparse|EUCLIDEAN|0|[2]|numpy": "3b22e36eabcea9389666ea53",
"alloc|(1, 7)|int32|ties|MANHATTAN|2.5|[1, 3]|numpy": "4daa175b36899bd6ff50005e",
"alloc|(1, 7)|uint8|dense|EUCLIDEAN|1|[2]|numpy": "b3bbf3b7a5a6bc6b03e54a00",
"alloc|(1, 7)|uint8|ties|EUCLIDEAN|4|[]|numpy": "1a162e1f926a504762b141a4",
"alloc|(11, 7)|float32|dense|EUCLIDEAN|4|[2]|numpy": "e476880bbf865a03906e92d5",
"alloc|(11, 7)|float32|empty|EUCLIDEAN|2.5|[]|dask": "0aa3eb30f8c2ba460a2c91df",
"alloc|(11, 7)|float32|sparse|MANHATTAN|1|[2]|dask": "48b0566c864813ad967bb051",
"alloc|(11, 7)|float32|ties|MANHATTAN|0|[]|numpy": "686aa2efdaddbec73a9bc128",
"alloc|(11, 7)|float64|dense|EUCLIDEAN|inf|[]|dask": "e370508ad9e2140d83f275d7",
"alloc|(11, 7)|float64|dense|MANHATTAN|4|[]|numpy": "e370508ad9e2140d83f275d7",
"alloc|(11, 7)|float64|sparse|EUCLIDEAN|2.5|[2]|numpy": "0aa3eb30f8c2ba460a2c91df",
"alloc|(11, 7)|float64|ties|EUCLIDEAN|0|[1, 3]|dask": "2db1a8626b766850d300e4fd",
"alloc|(11, 7)|float64|ties|GREAT_CIRCLE|inf|[1, 3]|numpy": "3e68252952ef541e4f0385f3",
"alloc|(11, 7)|int32|dense|MANHATTAN|2.5|[2]|dask": "dac1bc46e4921bd177e04be3",
"alloc|(11, 7)|int32|sparse|EUCLIDEAN|1|[1, 3]|dask": "0aa3eb30f8c2ba460a2c91df",
"alloc|(11, 7)|int32|sparse|GREAT_CIRCLE|3000000.0|[1, 3]|numpy": "0aa3eb30f8c2ba460a2c91df",
"alloc|(11, 7)|int32|ties|EUCLIDEAN|0|[2]|numpy": "5bd3e618af27104895bb3fb2",
"alloc|(11, 7)|int32|ties|GREAT_CIRCLE|inf|[]|dask": "b4aee784cf5f40f21f2e1d63",
"alloc|(11, 7)|uint8|dense|EUCLIDEAN|2.5|[1, 3]|dask": "2ebc9bc864d7f7ec1fd8950e",
"alloc|(11, 7)|uint8|empty|EUCLIDEAN|1|[]|numpy": "0aa3eb30f8c2ba460a2c91df",
"alloc|(11, 7)|uint8|sparse|MANHATTAN|1|[]|numpy": "fe951b148a6fcd4d934a00e2",
"alloc|(11, 7)|uint8|ties|MANHATTAN|inf|[2]|dask": "e476880bbf865a03906e92d5",
"alloc|(5, 8)|float32|dense|MANHATTAN|inf|[2]|numpy": "17dce9bbf7e5b61af3f09d2a",
"alloc|(5, 8)|float32|empty|MANHATTAN|0|[]|dask": "31b262fc2f49575cae338424",
"alloc|(5, 8)|float32|sparse|MANHATTAN|2.5|[2]|dask": "51de58c65ace289c7798f88a",
"alloc|(5, 8)|float32|ties|MANHATTAN|1|[]|numpy": "ee7dbc3492aa5689eae7cbea",
"alloc|(5, 8)|float64|dense|EUCLIDEAN|0|[]|dask": "e8da8280f3137596674f3e30",
"alloc|(5, 8)|float64|dense|GREAT_CIRCLE|inf|[]|numpy": "b604cfbbe050a76f3e026e82",
"alloc|(5, 8)|float64|sparse|EUCLIDEAN|4|[2]|numpy": "5a9a9f5c6d279b16268f1512",
"alloc|(5, 8)|float64|ties|EUCLIDEAN|1|[1, 3]|dask": "357cdec6f61385a2cb56dbd2",
"alloc|(5, 8)|float64|ties|GREAT_CIRCLE|3000000.0|[1, 3]|numpy": "55f2f411d76ed9b88cfebb4f",
"alloc|(5, 8)|int32|dense|EUCLIDEAN|inf|[1, 3]|numpy": "00df83d503ebe1eab8016392",
"alloc|(5, 8)|int32|dense|MANHATTAN|4|[2]|dask": "17dce9bbf7e5b61af3f09d2a",
"alloc|(5, 8)|int32|sparse|EUCLIDEAN|2.5|[1, 3]|dask": "3667953ce52eed332674d3d9",
"alloc|(5, 8)|int32|ties|EUCLIDEAN|1|[2]|numpy": "5e413713e91e9a4895fe716d",
"alloc|(5, 8)|int32|ties|GREAT_CIRCLE|3000000.0|[]|dask": "ERR:ValueError",
"alloc|(5, 8)|uint8|dense|EUCLIDEAN|4|[1, 3]|dask": "b9e361c3b0b8acbcf3b169e8",
"alloc|(5, 8)|uint8|empty|MANHATTAN|inf|[]|numpy": "31b262fc2f49575cae338424",
"alloc|(5, 8)|uint8|sparse|MANHATTAN|2.5|[]|numpy": "bb67065a5703123a96d3bca3",
"alloc|(5, 8)|uint8|ties|MANHATTAN|0|[2]|dask": "802c6369ab863105e3fc0eee",
"alloc|(6, 1)|float32|dense|GREAT_CIRCLE|inf|[1, 3]|numpy": "d0afc50ae789feb65b593d3f",
"alloc|(6, 1)|float32|sparse|MANHATTAN|inf|[]|numpy": "5dc3483d415a46cd256cf2bb",
"alloc|(6, 1)|float64|empty|GREAT_CIRCLE|inf|[]|numpy": "b0beda72bcdda20b98d34474",
"alloc|(6, 1)|float64|sparse|MANHATTAN|4|[1, 3]|numpy": "b0beda72bcdda20b98d34474",
"alloc|(6, 1)|int32|dense|MANHATTAN|0|[]|numpy": "04144be64179a510b6b10dc8",
"alloc|(6, 1)|int32|sparse|EUCLIDEAN|inf|[2]|numpy": "b0beda72bcdda20b98d34474",
"alloc|(6, 1)|int32|ties|MANHATTAN|1|[1, 3]|numpy": "b0beda72bcdda20b98d34474",
"alloc|(6, 1)|uint8|dense|EUCLIDEAN|0|[2]|numpy": "2ef20d714771599461264170",
"alloc|(6, 1)|uint8|ties|EUCLIDEAN|2.5|[]|numpy": "4997e51f4dec2a38444f7944",
"alloc|(9, 9)|float32|dense|EUCLIDEAN|2.5|[2]|numpy": "4590d4a2dd06d8855e04558e",
"alloc|(9, 9)|float32|empty|EUCLIDEAN|inf|[]|dask": "6db9501ffe16d4168ca090ef",
"alloc|(9, 9)|float32|sparse|MANHATTAN|0|[2]|dask": "afbf7128b8608d35c516b1e8",
"alloc|(9, 9)|float32|ties|MANHATTAN|inf|[]|numpy": "dc7c8c2e04d23902bfb26242",
"alloc|(9, 9)|float64|dense|MANHATTAN|2.5|[]|numpy": "9de2c9f797c49572d1a9837b",
"alloc|(9, 9)|float64|sparse|EUCLIDEAN|1|[2]|numpy": "e3f20bc29bfa9be3de0063e1",
"alloc|(9, 9)|float64|sparse|GREAT_CIRCLE|3000000.0|[]|dask": "ERR:ValueError",
"alloc|(9, 9)|float64|ties|EUCLIDEAN|inf|[1, 3]|dask": "a460f510e79f6f6f864bba73",
"alloc|(9, 9)|float64|ties|MANHATTAN|4|[1, 3]|numpy": "9af84c0d121df394c8fba020",
"alloc|(9, 9)|int32|dense|MANHATTAN|1|[2]|dask": "e899e72eb12017d393d0185d",
"alloc|(9, 9)|int32|sparse|EUCLIDEAN|0|[1, 3]|dask": "4576cbe5c2bd3dbd11445fdc",
"alloc|(9, 9)|int32|sparse|GREAT_CIRCLE|inf|[1, 3]|numpy": "9ddfad4bf472616902b0a3d7",
"alloc|(9, 9)|int32|ties|EUCLIDEAN|inf|[2]|numpy": "4590d4a2dd06d8855e04558e",
"alloc|(9, 9)|int32|ties|MANHATTAN|4|[]|dask": "c19413d651d26ada4736d3c4",
"alloc|(9, 9)|uint8|dense|EUCLIDEAN|1|[1, 3]|dask": "8407bfc2a749e346bec45e05",
"alloc|(9, 9)|uint8|dense|GREAT_CIRCLE|3000000.0|[1, 3]|numpy": "6a2dd8736113643021ef5379",
"alloc|(9, 9)|uint8|sparse|MANHATTAN|0|[]|numpy": "11317b82d9e2bc8d02430a40",
"alloc|(9, 9)|uint8|ties|EUCLIDEAN|4|[2]|dask": "5fe4ef64f50ef17d810245dc",
"dir|(1, 1)|float32|dense|MANHATTAN|0|[1, 3]|numpy": "3d8106d92e9af40a72494b9e",
"dir|(1, 1)|float32|sparse|EUCLIDEAN|0|[]|numpy": "3d8106d92e9af40a72494b9e",
"dir|(1, 1)|float32|ties|MANHATTAN|2.5|[2]|numpy": "5d73d8bac17f2753f34fffd2",
"dir|(1, 1)|float64|dense|GREAT_CIRCLE|3000000.0|[2]|numpy": "3d8106d92e9af40a72494b9e",
"dir|(1, 1)|float64|sparse|MANHATTAN|inf|[1, 3]|numpy": "3d8106d92e9af40a72494b9e",
"dir|(1, 1)|int32|dense|EUCLIDEAN|1|[]|numpy": "5d73d8bac17f2753f34fffd2",
"dir|(1, 1)|int32|ties|EUCLIDEAN|2.5|[1, 3]|numpy": "3d8106d92e9af40a72494b9e",
"dir|(1, 1)|uint8|empty|MANHATTAN|4|[]|numpy": "3d8106d92e9af40a72494b9e",
"dir|(1, 1)|uint8|sparse|MANHATTAN|4|[2]|numpy": "3d8106d92e9af40a72494b9e",
"dir|(1, 7)|float32|dense|MANHATTAN|inf|[1, 3]|numpy": "28f42df74ea583cef8628cce",
"dir|(1, 7)|float32|sparse|EUCLIDEAN|inf|[]|numpy": "28f42df74ea583cef8628cce",
"dir|(1, 7)|float32|ties|MANHATTAN|1|[2]|numpy": "9aec29fb8f89df5c51fb3903",
"dir|(1, 7)|float64|dense|GREAT_CIRCLE|inf|[2]|numpy": "28f42df74ea583cef8628cce",
"dir|(1, 7)|float64|sparse|EUCLIDEAN|4|[1, 3]|numpy": "2f220059232045be178e8662",
"dir|(1, 7)|int32|dense|EUCLIDEAN|0|[]|numpy": "342d4daa19f7df2d79d1f6a9",
"dir|(1, 7)|int32|ties|EUCLIDEAN|1|[1, 3]|numpy": "99fb47d007a34f72ccff7c20",
"dir|(1, 7)|uint8|empty|MANHATTAN|0|[]|numpy": "28f42df74ea583cef8628cce",
"dir|(1, 7)|uint8|sparse|MANHATTAN|2.5|[2]|numpy": "28f42df74ea583cef8628cce",
"dir|(11, 7)|float32|dense|EUCLIDEAN|0|[2]|numpy": "7379ac31554da120a0a7e198",
"dir|(11, 7)|float32|dense|GREAT_CIRCLE|inf|[]|dask": "2e837f3af235f15801edf234",
"dir|(11, 7)|float32|sparse|EUCLIDEAN|4|[2]|dask": "ERR:ValueError",
"dir|(11, 7)|float32|ties|EUCLIDEAN|2.5|[]|numpy": "277366ff1dc4863faf7196c4",
"dir|(11, 7)|float32|ties|GREAT_CIRCLE|3000000.0|[1, 3]|dask": "ERR:ValueError",
"dir|(11, 7)|float64|dense|MANHATTAN|0|[]|numpy": "095b71d9db3339a1adff7ace",
"dir|(11, 7)|float64|empty|MANHATTAN|2.5|[]|dask": "0aa3eb30f8c2ba460a2c91df",
"dir|(11, 7)|float64|sparse|EUCLIDEAN|inf|[2]|numpy": "0aa3eb30f8c2ba460a2c91df",
"dir|(11, 7)|float64|sparse|MANHATTAN|4|[]|dask": "ERR:ValueError",
"dir|(11, 7)|float64|ties|MANHATTAN|1|[1, 3]|numpy": "10007b822b480382b67b2014",
"dir|(11, 7)|int32|dense|MANHATTAN|inf|[2]|dask": "4d440d7781e179575f1d4915",
"dir|(11, 7)|int32|empty|MANHATTAN|1|[]|numpy": "0aa3eb30f8c2ba460a2c91df",
"dir|(11, 7)|int32|sparse|MANHATTAN|2.5|[1, 3]|numpy": "0aa3eb30f8c2ba460a2c91df",
"dir|(11, 7)|int32|ties|MANHATTAN|1|[]|dask": "2df4d562886342a61c814ed0",
"dir|(11, 7)|uint8|dense|EUCLIDEAN|inf|[1, 3]|dask": "fe10ec0b721d512186030a92",
"dir|(11, 7)|uint8|dense|MANHATTAN|4|[1, 3]|numpy": "fe10ec0b721d512186030a92",
"dir|(11, 7)|uint8|sparse|EUCLIDEAN|4|[]|numpy": "257fa50974687484f5bd0411",
"dir|(11, 7)|uint8|ties|EUCLIDEAN|1|[2]|dask": "889f0cbbc94dab54d637e2ab",
"dir|(11, 7)|uint8|ties|GREAT_CIRCLE|3000000.0|[2]|numpy": "3bd99058c0176067bd4a62ee",
"dir|(5, 8)|float32|dense|EUCLIDEAN|1|[2]|numpy": "ee117d7349533121180b6255",
"dir|(5, 8)|float32|dense|GREAT_CIRCLE|3000000.0|[]|dask": "ERR:ValueError",
"dir|(5, 8)|float32|sparse|MANHATTAN|inf|[2]|dask": "6a38a0eda64c612cb4e4f6b7",
"dir|(5, 8)|float32|ties|EUCLIDEAN|4|[]|numpy": "311c32c6ff529af26b9d83e8",
"dir|(5, 8)|float64|dense|MANHATTAN|1|[]|numpy": "3fa856a7c7fe794111d82779",
"dir|(5, 8)|float64|empty|GREAT_CIRCLE|3000000.0|[]|dask": "ERR:ValueError",
"dir|(5, 8)|float64|sparse|EUCLIDEAN|0|[2]|numpy": "20e64ece15e52f33fb67c9e9",
"dir|(5, 8)|float64|sparse|GREAT_CIRCLE|inf|[]|dask": "19bd00156eea6ea2f837af38",
"dir|(5, 8)|float64|ties|MANHATTAN|2.5|[1, 3]|numpy": "38c37f51383c990296379215",
"dir|(5, 8)|int32|dense|MANHATTAN|0|[2]|dask": "dda6d1ed5c8909f9e92c5a31",
"dir|(5, 8)|int32|empty|GREAT_CIRCLE|inf|[]|numpy": "31b262fc2f49575cae338424",
"dir|(5, 8)|int32|sparse|EUCLIDEAN|inf|[1, 3]|dask": "379997fe458722d22a48b688",
"dir|(5, 8)|int32|sparse|MANHATTAN|4|[1, 3]|numpy": "457994f987c9ece24ca29e87",
"dir|(5, 8)|int32|ties|MANHATTAN|2.5|[]|dask": "1b5b7ddb728b57c6c85a2796",
"dir|(5, 8)|uint8|dense|EUCLIDEAN|0|[1, 3]|dask": "d53ed51b6e6f635dd34af91c",
"dir|(5, 8)|uint8|dense|GREAT_CIRCLE|inf|[1, 3]|numpy": "2d5240174c619279b28e9c1d",
"dir|(5, 8)|uint8|sparse|MANHATTAN|inf|[]|numpy": "a4ed09d05e98f44f806f7a80",
"dir|(5, 8)|uint8|ties|EUCLIDEAN|2.5|[2]|dask": "7caa57b3714753d678f825db",
"dir|(6, 1)|float32|dense|EUCLIDEAN|4|[1, 3]|numpy": "334bf3f0695fd3f4ad2159fe",
"dir|(6, 1)|float32|ties|MANHATTAN|0|[2]|numpy": "775f654269138af49f2162ec",
"dir|(6, 1)|float64|dense|MANHATTAN|4|[2]|numpy": "6e748cdba782693d0ce604e5",
"dir|(6, 1)|float64|sparse|EUCLIDEAN|2.5|[1, 3]|numpy": "b0beda72bcdda20b98d34474",
"dir|(6, 1)|float64|ties|GREAT_CIRCLE|3000000.0|[]|numpy": "469860785a3e7214956bb653",
"dir|(6, 1)|int32|dense|EUCLIDEAN|inf|[]|numpy": "f54589d0f1d7232276aa0428",
"dir|(6, 1)|int32|ties|EUCLIDEAN|0|[1, 3]|numpy": "b0beda72bcdda20b98d34474",
"dir|(6, 1)|uint8|empty|EUCLIDEAN|2.5|[]|numpy": "b0beda72bcdda20b98d34474",
"dir|(6, 1)|uint8|sparse|MANHATTAN|1|[2]|numpy": "b0beda72bcdda20b98d34474",
"dir|(9, 9)|float32|dense|EUCLIDEAN|inf|[2]|numpy": "5617d69c355b924c49d25a7d",
"dir|(9, 9)|float32|dense|MANHATTAN|4|[]|dask": "3616ca249868b45a4606accd",
"dir|(9, 9)|float32|sparse|EUCLIDEAN|2.5|[2]|dask": "f2ed0cb1971a2807ee52dc18",
"dir|(9, 9)|float32|ties|EUCLIDEAN|1|[]|numpy": "0cec80c7ca01a671ae8dc936",
"dir|(9, 9)|float32|ties|GREAT_CIRCLE|inf|[1, 3]|dask": "49c1bbb4663414330b030275",
"dir|(9, 9)|float64|dense|MANHATTAN|inf|[]|numpy": "0c2781af8f4e67df9934e572",
"dir|(9, 9)|float64|empty|MANHATTAN|inf|[]|dask": "6db9501ffe16d4168ca090ef",
"dir|(9, 9)|float64|sparse|MANHATTAN|2.5|[]|dask": "0a97843199dca591611be1e0",
"dir|(9, 9)|float64|ties|MANHATTAN|0|[1, 3]|numpy": "184fae81bf5ea2f28f0418b9",
"dir|(9, 9)|int32|dense|EUCLIDEAN|4|[2]|dask": "4aa8d754770c7d4d04cfbd9a",
"dir|(9, 9)|int32|empty|EUCLIDEAN|4|[]|numpy": "6db9501ffe16d4168ca090ef",
"dir|(9, 9)|int32|sparse|MANHATTAN|1|[1, 3]|numpy": "f4768d6d46d269ba038631ac",
"dir|(9, 9)|int32|ties|MANHATTAN|0|[]|dask": "1c8446c090ac4120d4d3711c",
"dir|(9, 9)|uint8|dense|MANHATTAN|2.5|[1, 3]|numpy": "74f94e3e3bc420df8e5d8900",
"dir|(9, 9)|uint8|sparse|EUCLIDEAN|2.5|[]|numpy": "e2d04862b5bdfe731d9fa2a6",
"dir|(9, 9)|uint8|sparse|GREAT_CIRCLE|3000000.0|[1, 3]|dask": "ERR:ValueError",
"dir|(9, 9)|uint8|ties|EUCLIDEAN|0|[2]|dask": "130f805d388e0dba1a8c3bd9",
"dir|(9, 9)|uint8|ties|GREAT_CIRCLE|inf|[2]|numpy": "536fc7b364b0378d83035028",
"kernel_fuzz": "b60f27c1dc61c11d63ed8eec",
"prox|(1, 1)|float32|dense|EUCLIDEAN|0|[]|numpy": "5d73d8bac17f2753f34fffd2",
"prox|(1, 1)|float32|ties|EUCLIDEAN|1|[1, 3]|numpy": "3d8106d92e9af40a72494b9e",
"prox|(1, 1)|float64|dense|MANHATTAN|inf|[1, 3]|numpy": "5d73d8bac17f2753f34fffd2",
"prox|(1, 1)|float64|sparse|EUCLIDEAN|inf|[]|numpy": "5d73d8bac17f2753f34fffd2",
"prox|(1, 1)|float64|ties|MANHATTAN|1|[2]|numpy": "5d73d8bac17f2753f34fffd2",
"prox|(1, 1)|int32|empty|MANHATTAN|0|[]|numpy": "3d8106d92e9af40a72494b9e",
"prox|(1, 1)|int32|sparse|MANHATTAN|2.5|[2]|numpy": "3d8106d92e9af40a72494b9e",
"prox|(1, 1)|uint8|dense|MANHATTAN|4|[2]|numpy": "3d8106d92e9af40a72494b9e",
"prox|(1, 1)|uint8|sparse|EUCLIDEAN|2.5|[1, 3]|numpy": "3d8106d92e9af40a72494b9e",
"prox|(1, 1)|uint8|ties|GREAT_CIRCLE|3000000.0|[]|numpy": "5d73d8bac17f2753f34fffd2",
"prox|(1, 7)|float32|dense|EUCLIDEAN|inf|[]|numpy": "162c84e828499e8972ea0047",
"prox|(1, 7)|float32|ties|EUCLIDEAN|0|[1, 3]|numpy": "a067444626e9901fa48c4cae",
"prox|(1, 7)|float64|dense|EUCLIDEAN|4|[1, 3]|numpy": "e233f4db6e86994562562ea7",
"prox|(1, 7)|float64|ties|MANHATTAN|0|[2]|numpy": "2ba7e507cc6dea34f09f6811",
"prox|(1, 7)|int32|empty|EUCLIDEAN|2.5|[]|numpy": "28f42df74ea583cef8628cce",
"prox|(1, 7)|int32|sparse|MANHATTAN|1|[2]|numpy": "0e7cf1d6271684d23766f027",
"prox|(1, 7)|uint8|dense|MANHATTAN|2.5|[2]|numpy": "61622b44c0750a864e301a04",
"prox|(1, 7)|uint8|sparse|EUCLIDEAN|1|[1, 3]|numpy": "28f42df74ea583cef8628cce",
"prox|(1, 7)|uint8|ties|GREAT_CIRCLE|inf|[]|numpy": "4ac1d0cb6ab6307a327d3938",
"prox|(11, 7)|float32|dense|MANHATTAN|1|[2]|numpy": "5db5dc19356d8c651bc92f06",
"prox|(11, 7)|float32|sparse|EUCLIDEAN|0|[1, 3]|numpy": "f4719594b5918f9401ad04cd",
"prox|(11, 7)|float32|sparse|GREAT_CIRCLE|inf|[2]|dask": "41ee3c7c7f71468b596351cb",
"prox|(11, 7)|float32|ties|EUCLIDEAN|inf|[]|dask": "d244ab4336989ce43e496797",
"prox|(11, 7)|float32|ties|MANHATTAN|4|[]|numpy": "98c5c80ab28745c5d8ceb473",
"prox|(11, 7)|float64|dense|EUCLIDEAN|2.5|[]|dask": "b03a50a88eeb1a0272de9bab",
"prox|(11, 7)|float64|empty|EUCLIDEAN|inf|[]|numpy": "0aa3eb30f8c2ba460a2c91df",
"prox|(11, 7)|float64|sparse|MANHATTAN|0|[2]|numpy": "0aa3eb30f8c2ba460a2c91df",
"prox|(11, 7)|float64|ties|EUCLIDEAN|4|[1, 3]|dask": "ERR:ValueError",
"prox|(11, 7)|int32|dense|EUCLIDEAN|1|[1, 3]|numpy": "5b059b0c2e099a034e55ea5b",
"prox|(11, 7)|int32|dense|GREAT_CIRCLE|3000000.0|[2]|dask": "ERR:ValueError",
"prox|(11, 7)|int32|sparse|MANHATTAN|inf|[1, 3]|dask": "0aa3eb30f8c2ba460a2c91df",
"prox|(11, 7)|int32|ties|EUCLIDEAN|4|[2]|numpy": "446e126665ae0eca0b84f881",
"prox|(11, 7)|uint8|dense|MANHATTAN|0|[1, 3]|dask": "059c59000b95c35dc5eb6c6b",
"prox|(11, 7)|uint8|empty|GREAT_CIRCLE|3000000.0|[]|numpy": "0aa3eb30f8c2ba460a2c91df",
"prox|(11, 7)|uint8|sparse|EUCLIDEAN|0|[]|dask": "a6425015960e00312bd443e6",
"prox|(11, 7)|uint8|sparse|GREAT_CIRCLE|inf|[]|numpy": "62c683c7186e944b21e726fd",
"prox|(11, 7)|uint8|ties|MANHATTAN|2.5|[2]|dask": "234ea9c647f0b18f01ba8730",
"prox|(5, 8)|float32|dense|MANHATTAN|2.5|[2]|numpy": "e0969438486597d391a1ecbc",
"prox|(5, 8)|float32|sparse|EUCLIDEAN|1|[1, 3]|numpy": "5d479a54bfa3ac8dbc4ab91f",
"prox|(5, 8)|float32|sparse|GREAT_CIRCLE|3000000.0|[2]|dask": "ERR:ValueError",
"prox|(5, 8)|float32|ties|EUCLIDEAN|0|[]|dask": "b54fcd7b04d5c3ed94a71bd2",
"prox|(5, 8)|float32|ties|GREAT_CIRCLE|inf|[]|numpy": "aa3c3937e02c8de2fc05ed8c",
"prox|(5, 8)|float64|dense|EUCLIDEAN|4|[]|dask": "ba30deeba8bd2e0307b69744",
"prox|(5, 8)|float64|empty|EUCLIDEAN|2.5|[]|numpy": "31b262fc2f49575cae338424",
"prox|(5, 8)|float64|sparse|MANHATTAN|1|[2]|numpy": "e00497deb50296573ecc8b0d",
"prox|(5, 8)|float64|ties|MANHATTAN|inf|[1, 3]|dask": "21ec9020f94bbb407118da84",
"prox|(5, 8)|int32|dense|EUCLIDEAN|2.5|[1, 3]|numpy": "0b507373a0944fd4245fc7ab",
"prox|(5, 8)|int32|empty|EUCLIDEAN|0|[]|dask": "31b262fc2f49575cae338424",
"prox|(5, 8)|int32|sparse|MANHATTAN|0|[1, 3]|dask": "dacd5c1cb15898fde20b3482",
"prox|(5, 8)|int32|ties|MANHATTAN|inf|[2]|numpy": "822a474ad269387223a30695",
"prox|(5, 8)|uint8|dense|MANHATTAN|1|[1, 3]|dask": "aca8b982e5f4e836d0a0c804",
"prox|(5, 8)|uint8|sparse|EUCLIDEAN|1|[]|dask": "5769d86de95f62e5d9cb87a3",
"prox|(5, 8)|uint8|sparse|GREAT_CIRCLE|3000000.0|[]|numpy": "801cd5035f0007144fde4718",
"prox|(5, 8)|uint8|ties|EUCLIDEAN|inf|[1, 3]|numpy": "9d0f8d4044d54dfa08bc9cea",
"prox|(5, 8)|uint8|ties|MANHATTAN|4|[2]|dask": "bf06cdcc7b634e59ec0a3a18",
"prox|(6, 1)|float32|sparse|GREAT_CIRCLE|3000000.0|[]|numpy": "563f6b53f45e35e47c836e0d",
"prox|(6, 1)|float32|ties|EUCLIDEAN|inf|[1, 3]|numpy": "b0beda72bcdda20b98d34474",
"prox|(6, 1)|float64|dense|EUCLIDEAN|2.5|[1, 3]|numpy": "ef3a75a30f4bb867ed84683f",
"prox|(6, 1)|float64|ties|MANHATTAN|inf|[2]|numpy": "83fa7a1c530a9225d6610acb",
"prox|(6, 1)|int32|empty|EUCLIDEAN|inf|[]|numpy": "b0beda72bcdda20b98d34474",
"prox|(6, 1)|int32|sparse|MANHATTAN|0|[2]|numpy": "b0beda72bcdda20b98d34474",
"prox|(6, 1)|uint8|dense|MANHATTAN|1|[2]|numpy": "de4e76a41cffee32d70e6c1a",
"prox|(6, 1)|uint8|sparse|EUCLIDEAN|0|[1, 3]|numpy": "b0beda72bcdda20b98d34474",
"prox|(6, 1)|uint8|ties|MANHATTAN|4|[]|numpy": "707dafbbdda1538d26cfd30f",
"prox|(9, 9)|float32|dense|MANHATTAN|0|[2]|numpy": "646ce15ca51012a12b10591c",
"prox|(9, 9)|float32|empty|MANHATTAN|4|[]|dask": "6db9501ffe16d4168ca090ef",
"prox|(9, 9)|float32|sparse|EUCLIDEAN|inf|[1, 3]|numpy": "3888d6e9f9b2208a0229ab00",
"prox|(9, 9)|float32|sparse|MANHATTAN|4|[2]|dask": "37e67aab05d6911973958aea",
"prox|(9, 9)|float32|ties|MANHATTAN|2.5|[]|numpy": "458eac200eadbc6bb5b1ad99",
"prox|(9, 9)|float64|dense|EUCLIDEAN|1|[]|dask": "c189b47ca49506d12cc4845a",
"prox|(9, 9)|float64|dense|GREAT_CIRCLE|3000000.0|[]|numpy": "41b751ab40ff106622e8da67",
"prox|(9, 9)|float64|sparse|MANHATTAN|inf|[2]|numpy": "d6f085ccd3a9937975cbbd80",
"prox|(9, 9)|float64|ties|EUCLIDEAN|2.5|[1, 3]|dask": "bf7f3cada964f08f927e0c54",
"prox|(9, 9)|int32|dense|EUCLIDEAN|0|[1, 3]|numpy": "f04d828218bc7d128cd262f9",
"prox|(9, 9)|int32|dense|GREAT_CIRCLE|inf|[2]|dask": "1eb8edca8c3f0045628300fc",
"prox|(9, 9)|int32|sparse|EUCLIDEAN|4|[1, 3]|dask": "c23d1945ed35f7780ca9454d",
"prox|(9, 9)|int32|ties|EUCLIDEAN|2.5|[2]|numpy": "f325e747d71c40a4e51561fb",
"prox|(9, 9)|uint8|dense|MANHATTAN|inf|[1, 3]|dask": "c4df51cc02648570ca984620",
"prox|(9, 9)|uint8|empty|MANHATTAN|2.5|[]|numpy": "6db9501ffe16d4168ca090ef",
"prox|(9, 9)|uint8|sparse|EUCLIDEAN|inf|[]|dask": "f9b589b1b6e5eb483829aeb5",
"prox|(9, 9)|uint8|sparse|MANHATTAN|4|[]|numpy": "a7830f44b77a37c1fc4f5fb2",
"prox|(9, 9)|uint8|ties|MANHATTAN|1|[2]|dask": "b399f19f570c1289b682de67"}
''')

if __name__ == "__main__":
    got = run()
    if os.environ.get("RECORD"):
        print("JSON:" + json.dumps(got, sort_keys=True))
        sys.exit(0)
    bad = [k for k in sorted(set(got) | set(EXPECTED)) if got.get(k) != EXPECTED.get(k)]
    for k in bad[:20]:
        print("MISMATCH", k, got.get(k), EXPECTED.get(k))
    print("%d cases, %d mismatches" % (len(got), len(bad)))
    sys.exit(1 if bad else 0)
