"""Differential test for refactoring t12 (multispectral.true_color: np.full <->
np.empty + fill in the per-cell normalisation kernel, np.where <-> boolean
mask assignment for the alpha band, three unrolled band assignments <-> loop).
Run from inside the worktree:

    cd <worktree> && PYTHONPATH=<worktree> python equiv.py          # check
    cd <worktree> && PYTHONPATH=<worktree> python equiv.py --record # print hashes

Checks
  * true_color on numpy rasters against an independent pure numpy
    re-implementation (bit-identical uint8 image),
  * the private kernel _normalize_data_cpu directly (float32 output, NaN fill
    when the value range is 0),
  * true_color on dask rasters for many chunkings and two schedulers: must be
    bit-identical to the numpy image (min/max are exact reductions) and stay
    dask-backed until computed,
  * digests of every result against values recorded on the unmodified tree.
"""
import hashlib
import sys
import warnings

import dask
import dask.array as da
import numpy as np
import xarray as xr

import xrspatial
from xrspatial import multispectral
from xrspatial.multispectral import true_color

warnings.simplefilter('ignore')


def digest(arr):
    arr = np.ascontiguousarray(arr)
    h = hashlib.sha256()
    h.update(str(arr.dtype).encode())
    h.update(str(arr.shape).encode())
    h.update(arr.tobytes())
    return h.hexdigest()[:24]


def same(a, b):
    return a.dtype == b.dtype and a.shape == b.shape and \
        a.tobytes() == np.ascontiguousarray(b).tobytes()


def ref_normalize(band, pixel_max, c, th):
    data = np.asarray(band).astype('f4')
    out = np.full(data.shape, np.nan, dtype=np.float32)
    with np.errstate(all='ignore'):
        mn = np.nanmin(data)
        mx = np.nanmax(data)
        rng = mx - mn
        if rng != 0:
            norm = ((data - mn) / rng).astype(np.float64)
            norm = 1 / (1 + np.exp(c * (th - norm)))
            out[...] = (norm * pixel_max).astype(np.float32)
    return out


def ref_true_color(r, g, b, nodata, c, th):
    r = np.asarray(r)
    img = np.zeros(r.shape + (4,), dtype=np.uint8)
    with np.errstate(all='ignore'):
        for i, band in enumerate((r, g, b)):
            img[..., i] = ref_normalize(band, 255, c, th).astype(np.uint8)
        alpha = np.empty(r.shape, dtype=np.uint8)
        for y in range(r.shape[0]):
            for x in range(r.shape[1]):
                v = r[y, x]
                alpha[y, x] = 0 if (v != v or v <= nodata) else 255
    img[..., 3] = alpha
    return img


def band_sets():
    rng = np.random.RandomState(123)
    sets = {}

    def trio(shape, dtype, lo, hi):
        return [(rng.rand(*shape) * (hi - lo) + lo).astype(dtype) for _ in range(3)]

    sets['f64_8x4'] = trio((8, 4), np.float64, 0, 12000)
    s = trio((7, 9), np.float32, -5, 300)
    s[0][0, 0] = np.nan
    s[0][3, 4] = np.nan
    s[1][2, 2] = np.nan
    s[2][6, 8] = np.nan
    s[0][1, 1] = 0.5      # below default nodata
    s[0][1, 2] = 1.0      # equal to default nodata
    sets['f32_7x9_nan'] = s
    s = trio((5, 6), np.float64, 0, 100)
    s[0][2, 3] = np.inf
    s[1][0, 0] = -np.inf
    sets['f64_5x6_inf'] = s
    sets['i32_6x5'] = trio((6, 5), np.int32, 0, 5000)
    sets['u16_4x7'] = trio((4, 7), np.uint16, 0, 65535)
    sets['i64_1x6'] = trio((1, 6), np.int64, 0, 9)
    sets['u8_9x1'] = trio((9, 1), np.uint8, 0, 255)
    s = trio((3, 4), np.float32, 0, 1)
    s[1][:] = 7.0         # constant band: zero range -> NaN fill
    sets['f32_3x4_const_green'] = s
    s = trio((4, 4), np.float64, 0, 1)
    s[0][:] = np.nan      # all-NaN red band
    sets['f64_4x4_allnan_red'] = s
    return sets


PARAMS = [dict(), dict(nodata=0, c=5.0, th=0.3), dict(nodata=50.5, c=20, th=0.0)]


def chunkings(shape):
    h, w = shape
    cands = [(1, 1), (2, 3), (3, 2), (h, 1), (1, w), (h, w), (4, 4)]
    if h >= 3 and w >= 3:
        cands.append(((1, h - 2, 1), (2, w - 2)))
    seen = []
    for c in cands:
        if c not in seen:
            seen.append(c)
    return seen


def mk(arr, chunks=None):
    data = arr.copy()
    if chunks is not None:
        data = da.from_array(data, chunks=chunks)
    h, w = arr.shape
    return xr.DataArray(data, dims=['y', 'x'],
                        coords={'y': np.arange(h)[::-1] * 2.0, 'x': np.arange(w) * 0.5},
                        attrs={'res': (0.5, 2.0), 'k': 'v'})


def run():
    results = {}
    problems = []

    # the per-cell kernel directly
    rng = np.random.RandomState(1)
    for dt in (np.float32, np.float64):
        d = (rng.rand(5, 7) * 10).astype(dt)
        d[1, 1] = np.nan
        for mn, mx in [(0.0, 10.0), (3.0, 3.0), (np.float32(1), np.float32(9))]:
            o = multispectral._normalize_data_cpu(d, mn, mx, 255, 10.0, 0.125)
            results['kernel|%s|%s|%s' % (np.dtype(dt).name, mn, mx)] = digest(o)
            if o.dtype != np.float32:
                problems.append('kernel dtype %s' % o.dtype)
            if mn == mx and not np.isnan(o).all():
                problems.append('kernel zero range not all NaN')
    o = multispectral._normalize_data_cpu(np.zeros((0, 3), np.float32), 0., 1., 255, 10., .1)
    results['kernel|empty'] = digest(o)

    for sname, (r, g, b) in band_sets().items():
        for pi, kw in enumerate(PARAMS):
            key = 'true_color|%s|p%d' % (sname, pi)
            res = true_color(mk(r), mk(g), mk(b), **kw)
            if not isinstance(res.data, np.ndarray):
                problems.append(key + ' numpy result not ndarray')
            if res.dims != ('y', 'x', 'band') or res.name != 'true_color':
                problems.append(key + ' metadata changed')
            results[key] = digest(res.data)
            full = dict(nodata=1, c=10.0, th=0.125)
            full.update(kw)
            ref = ref_true_color(r, g, b, full['nodata'], full['c'], full['th'])
            if not same(res.data, ref):
                problems.append(key + ' differs from independent reference')
            dask_log = []
            for chunks in chunkings(r.shape):
                rd = true_color(mk(r, chunks), mk(g, chunks), mk(b, chunks), **kw)
                if not isinstance(rd.data, da.Array):
                    problems.append(key + ' dask%s not dask backed' % (chunks,))
                    continue
                for sched, skw in [('synchronous', {}), ('threads', {'num_workers': 3})]:
                    with dask.config.set(scheduler=sched, **skw):
                        v = rd.data.compute()
                    dask_log.append('%s %s %s' % (chunks, sched, digest(v)))
                    if not same(v, res.data):
                        problems.append(key + ' dask%s/%s != numpy' % (chunks, sched))
            results[key + '|dask'] = hashlib.sha256(
                '\n'.join(dask_log).encode()).hexdigest()[:24]

    # error behaviour: a 3D red band must fail the same way
    r3 = xr.DataArray(np.ones((2, 3, 4)), dims=['y', 'x', 'z'])
    try:
        true_color(r3, r3, r3)
        results['err|3d'] = 'no error'
    except Exception as e:
        results['err|3d'] = type(e).__name__
    rs = mk(np.ones((3, 4)))
    gs = mk(np.ones((4, 3)))
    try:
        true_color(rs, gs, rs)
        results['err|shape_mismatch'] = 'no error'
    except Exception as e:
        results['err|shape_mismatch'] = type(e).__name__
    try:
        true_color(rs, rs, rs, nodata='a')
        results['err|nodata_str'] = 'no error'
    except Exception as e:
        results['err|nodata_str'] = type(e).__name__
    return results, problems


# recorded on the unmodified tree
EXPECTED = {'err|3d': 'ValueError',
 'err|nodata_str': 'UFuncTypeError',
 'err|shape_mismatch': 'ValueError',
 'kernel|empty': '24711c218fa8af86c06a20f4',
 'kernel|float32|0.0|10.0': '89bcc0c494315977be58edd8',
 'kernel|float32|1.0|9.0': '8b1cb65fb72fb1ee511b707a',
 'kernel|float32|3.0|3.0': 'a02fa31843f73a0711c923cd',
 'kernel|float64|0.0|10.0': '71d4a024273f4bf156856b28',
 'kernel|float64|1.0|9.0': 'e05887231e986c33f53db171',
 'kernel|float64|3.0|3.0': 'a02fa31843f73a0711c923cd',
 'true_color|f32_3x4_const_green|p0': '32d482a04dfe2c4cc65f89f6',
 'true_color|f32_3x4_const_green|p0|dask': '552888101d357dcec51ec1ef',
 'true_color|f32_3x4_const_green|p1': '247b8e912537913365f75c88',
 'true_color|f32_3x4_const_green|p1|dask': '5bd40dd9eb904c89e7eba97e',
 'true_color|f32_3x4_const_green|p2': '788e914037c2140d57b3ace9',
 'true_color|f32_3x4_const_green|p2|dask': 'd6394b63caca347da87f7be2',
 'true_color|f32_7x9_nan|p0': '493b03c8fa9db5625fbc6c8f',
 'true_color|f32_7x9_nan|p0|dask': '7d6b70135ae621956fb9364c',
 'true_color|f32_7x9_nan|p1': '07155b8d30ff4e94df61457e',
 'true_color|f32_7x9_nan|p1|dask': '547ef0bd11396a2c3159d5d7',
 'true_color|f32_7x9_nan|p2': 'bce3c479d440f20c6d3e4fb8',
 'true_color|f32_7x9_nan|p2|dask': '8df42916ce5b70c45f1b952c',
 'true_color|f64_4x4_allnan_red|p0': '4c11b2644cd6823244840d46',
 'true_color|f64_4x4_allnan_red|p0|dask': 'efe388a45ab9fee8158573a6',
 'true_color|f64_4x4_allnan_red|p1': 'c5931b3f2f8d4bb245992ca7',
 'true_color|f64_4x4_allnan_red|p1|dask': '2dc74f8e581e4965abceaaad',
 'true_color|f64_4x4_allnan_red|p2': 'bbde6bc20caadcdf1a3c7b5e',
 'true_color|f64_4x4_allnan_red|p2|dask': 'ef28a2d42036001cd15ad3a1',
 'true_color|f64_5x6_inf|p0': 'f3fcaf2aa48f0fe8f215f09e',
 'true_color|f64_5x6_inf|p0|dask': '4090b3b807dee13577759d1a',
 'true_color|f64_5x6_inf|p1': '59e40a51d2f45f4912e86afe',
 'true_color|f64_5x6_inf|p1|dask': '5f26d105de4a31136d37d446',
 'true_color|f64_5x6_inf|p2': 'af23ccf64726c818cb6b4f73',
 'true_color|f64_5x6_inf|p2|dask': '4b39d16f8c3cd62f266f32c8',
 'true_color|f64_8x4|p0': '8ef02fa5ed7064c317b2943b',
 'true_color|f64_8x4|p0|dask': '639eb0669e648df5b84dc631',
 'true_color|f64_8x4|p1': '08155d3ccfa2df95f591a8b2',
 'true_color|f64_8x4|p1|dask': '756172a9bae1a7241aed3d0c',
 'true_color|f64_8x4|p2': 'aff0eac4e7b68678fd48931e',
 'true_color|f64_8x4|p2|dask': '8efc5705a2f612a706d952fe',
 'true_color|i32_6x5|p0': '695faf8e0878c627ca78b1cb',
 'true_color|i32_6x5|p0|dask': '4971c6c49020c8db26b7cc68',
 'true_color|i32_6x5|p1': '31b1d632ffe41376853b3bc3',
 'true_color|i32_6x5|p1|dask': '88e0f1e1f13335f13b2be890',
 'true_color|i32_6x5|p2': 'ba1f92a0bf258d206023e058',
 'true_color|i32_6x5|p2|dask': '214e8ef5483797f86d87250a',
 'true_color|i64_1x6|p0': '98e09abb5fb814ba5db3ef35',
 'true_color|i64_1x6|p0|dask': 'f5c2231a2f0624b79932526f',
 'true_color|i64_1x6|p1': '354b1eccc6905a361e467706',
 'true_color|i64_1x6|p1|dask': '03b8e5a228ba1477a6b4cb40',
 'true_color|i64_1x6|p2': '1effe0f29d57df1354b1db9f',
 'true_color|i64_1x6|p2|dask': 'e240c9ed498a5a2640bc9403',
 'true_color|u16_4x7|p0': 'd8569429d44cc71ac72e1273',
 'true_color|u16_4x7|p0|dask': '9c695ad2370d1e7f127f6094',
 'true_color|u16_4x7|p1': '5dcf84ea4785a9426444733d',
 'true_color|u16_4x7|p1|dask': 'dafb1a3b06794b8f16afd008',
 'true_color|u16_4x7|p2': '949f144411cd396efdd4623e',
 'true_color|u16_4x7|p2|dask': 'af2d1caaa7a063a5737664c9',
 'true_color|u8_9x1|p0': '5632d1f1981cec6ec7a1fcce',
 'true_color|u8_9x1|p0|dask': 'd8ff436dc4b9f7ce70b43dc5',
 'true_color|u8_9x1|p1': '0260a26d7dd17f1fe8f4fa41',
 'true_color|u8_9x1|p1|dask': '812cfa074b7eefaf1c2235b2',
 'true_color|u8_9x1|p2': '8e90d1b648c5e8fdb4511dfe',
 'true_color|u8_9x1|p2|dask': '3dbb37e36ea42869580699f4'}


def main():
    print('xrspatial from', xrspatial.__file__)
    results, problems = run()
    if '--record' in sys.argv:
        import pprint
        pprint.pprint(results, width=120)
        for p in problems:
            print('#PROBLEM', p, file=sys.stderr)
        return 0 if not problems else 1
    for k in sorted(set(results) | set(EXPECTED)):
        if results.get(k) != EXPECTED.get(k):
            problems.append('MISMATCH %s: got %s expected %s'
                            % (k, results.get(k), EXPECTED.get(k)))
    for p in problems:
        print(p)
    print('%d results compared, %d problems' % (len(results), len(problems)))
    return 1 if problems else 0


if __name__ == '__main__':
    sys.exit(main())
