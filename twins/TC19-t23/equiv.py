"""Differential test for refactoring TC19-t23 (haversine core of
xrspatial.proximity.great_circle_distance).

All expected values below were RECORDED FROM THE UNMODIFIED TREE (bit
patterns as float.hex / sha256 over the raw bytes of the result vectors);
run with --record to print them again.  In addition an independent
math-module implementation is used as a loose sanity check (1e-9 relative)
and the metric axioms of C19 are asserted.  Exit 0 iff everything matches.
"""
import hashlib
import math
import sys

import numpy as np
import xarray as xr

import xrspatial
from xrspatial import great_circle_distance, proximity, allocation, direction

RECORD = '--record' in sys.argv
FAILS = []
REC = {}

# recorded from the unmodified tree with --record
EXPECTED = {'allocation_5x5_float32_dask_inf': '<f4|(5, '
                                    '5)|79ad05aeca8b79d83863f4dc393e7c9929fa76c8951fb7f791a8891075a5a9cf',
 'allocation_5x5_float32_numpy_5000000.0': '<f4|(5, '
                                           '5)|860646fc2871f7ebe3031761b7a0ee6751ffdb7fa2149c01915008f9c4f1405a',
 'allocation_5x5_float32_numpy_inf': '<f4|(5, '
                                     '5)|79ad05aeca8b79d83863f4dc393e7c9929fa76c8951fb7f791a8891075a5a9cf',
 'allocation_5x5_float64_dask_inf': '<f4|(5, '
                                    '5)|79ad05aeca8b79d83863f4dc393e7c9929fa76c8951fb7f791a8891075a5a9cf',
 'allocation_5x5_float64_numpy_5000000.0': '<f4|(5, '
                                           '5)|860646fc2871f7ebe3031761b7a0ee6751ffdb7fa2149c01915008f9c4f1405a',
 'allocation_5x5_float64_numpy_inf': '<f4|(5, '
                                     '5)|79ad05aeca8b79d83863f4dc393e7c9929fa76c8951fb7f791a8891075a5a9cf',
 'allocation_5x5_int32_dask_inf': '<f4|(5, '
                                  '5)|09f310008557e35773e88b85a478801f7bdd29ebebdfed2c96634cb58043491c',
 'allocation_5x5_int32_numpy_5000000.0': '<f4|(5, '
                                         '5)|c3174684d94de5728d5e0ec7a284c7dae88b9aff606362c13452a94a479000b4',
 'allocation_5x5_int32_numpy_inf': '<f4|(5, '
                                   '5)|09f310008557e35773e88b85a478801f7bdd29ebebdfed2c96634cb58043491c',
 'allocation_6x9_float32_dask_inf': '<f4|(6, '
                                    '9)|462ed5d6ad62e8f6054dd8db312a53635297436a6840fcf74407ca48c6a3c78c',
 'allocation_6x9_float32_numpy_5000000.0': '<f4|(6, '
                                           '9)|e3d5f05a083e24e33e6db488b77efc7b8fee8837d0b32b46d9b2c31afce0b13a',
 'allocation_6x9_float32_numpy_inf': '<f4|(6, '
                                     '9)|462ed5d6ad62e8f6054dd8db312a53635297436a6840fcf74407ca48c6a3c78c',
 'allocation_6x9_float64_dask_inf': '<f4|(6, '
                                    '9)|462ed5d6ad62e8f6054dd8db312a53635297436a6840fcf74407ca48c6a3c78c',
 'allocation_6x9_float64_numpy_5000000.0': '<f4|(6, '
                                           '9)|e3d5f05a083e24e33e6db488b77efc7b8fee8837d0b32b46d9b2c31afce0b13a',
 'allocation_6x9_float64_numpy_inf': '<f4|(6, '
                                     '9)|462ed5d6ad62e8f6054dd8db312a53635297436a6840fcf74407ca48c6a3c78c',
 'allocation_6x9_int32_dask_inf': '<f4|(6, '
                                  '9)|462ed5d6ad62e8f6054dd8db312a53635297436a6840fcf74407ca48c6a3c78c',
 'allocation_6x9_int32_numpy_5000000.0': '<f4|(6, '
                                         '9)|e3d5f05a083e24e33e6db488b77efc7b8fee8837d0b32b46d9b2c31afce0b13a',
 'allocation_6x9_int32_numpy_inf': '<f4|(6, '
                                   '9)|462ed5d6ad62e8f6054dd8db312a53635297436a6840fcf74407ca48c6a3c78c',
 'allocation_7x4_float32_dask_inf': '<f4|(7, '
                                    '4)|95780db7af0ca21f30cde8073e3c39c2e1e6cdb95e371fd8aa86304667a16e05',
 'allocation_7x4_float32_numpy_5000000.0': '<f4|(7, '
                                           '4)|792200ede2264dbbc3af48874ce6d269d815ca0c35f69115a74dda5042b69674',
 'allocation_7x4_float32_numpy_inf': '<f4|(7, '
                                     '4)|95780db7af0ca21f30cde8073e3c39c2e1e6cdb95e371fd8aa86304667a16e05',
 'allocation_7x4_float64_dask_inf': '<f4|(7, '
                                    '4)|95780db7af0ca21f30cde8073e3c39c2e1e6cdb95e371fd8aa86304667a16e05',
 'allocation_7x4_float64_numpy_5000000.0': '<f4|(7, '
                                           '4)|792200ede2264dbbc3af48874ce6d269d815ca0c35f69115a74dda5042b69674',
 'allocation_7x4_float64_numpy_inf': '<f4|(7, '
                                     '4)|95780db7af0ca21f30cde8073e3c39c2e1e6cdb95e371fd8aa86304667a16e05',
 'allocation_7x4_int32_dask_inf': '<f4|(7, '
                                  '4)|95780db7af0ca21f30cde8073e3c39c2e1e6cdb95e371fd8aa86304667a16e05',
 'allocation_7x4_int32_numpy_5000000.0': '<f4|(7, '
                                         '4)|792200ede2264dbbc3af48874ce6d269d815ca0c35f69115a74dda5042b69674',
 'allocation_7x4_int32_numpy_inf': '<f4|(7, '
                                   '4)|95780db7af0ca21f30cde8073e3c39c2e1e6cdb95e371fd8aa86304667a16e05',
 'bad00': 'ValueError:Invalid x-coordinate of the first point.Must be in the range [-180, 180]',
 'bad01': 'ValueError:Invalid x-coordinate of the first point.Must be in the range [-180, 180]',
 'bad02': 'ValueError:Invalid x-coordinate of the second point.Must be in the range [-180, 180]',
 'bad03': 'ValueError:Invalid x-coordinate of the second point.Must be in the range [-180, 180]',
 'bad04': 'ValueError:Invalid y-coordinate of the first point.Must be in the range [-90, 90]',
 'bad05': 'ValueError:Invalid y-coordinate of the first point.Must be in the range [-90, 90]',
 'bad06': 'ValueError:Invalid y-coordinate of the second point.Must be in the range [-90, 90]',
 'bad07': 'ValueError:Invalid y-coordinate of the second point.Must be in the range [-90, 90]',
 'bad08': 'ValueError:Invalid x-coordinate of the first point.Must be in the range [-180, 180]',
 'bad09': 'ValueError:Invalid x-coordinate of the second point.Must be in the range [-180, 180]',
 'bad10': 'ValueError:Invalid y-coordinate of the first point.Must be in the range [-90, 90]',
 'bad11': 'ValueError:Invalid y-coordinate of the second point.Must be in the range [-90, 90]',
 'bad12': 'ValueError:Invalid x-coordinate of the first point.Must be in the range [-180, 180]',
 'bad13': 'ValueError:Invalid x-coordinate of the second point.Must be in the range [-180, 180]',
 'bad14': 'ValueError:Invalid y-coordinate of the first point.Must be in the range [-90, 90]',
 'direction_5x5_float32_dask_inf': '<f4|(5, '
                                   '5)|e7ef8bf803814165f0de9bf8e7c68deef75f0eb2a038c6fb035c767ea97ce865',
 'direction_5x5_float32_numpy_5000000.0': '<f4|(5, '
                                          '5)|f85d32883f342c579989991765c776fdf7637ab558bcc81e8b72a723fa1db098',
 'direction_5x5_float32_numpy_inf': '<f4|(5, '
                                    '5)|e7ef8bf803814165f0de9bf8e7c68deef75f0eb2a038c6fb035c767ea97ce865',
 'direction_5x5_float64_dask_inf': '<f4|(5, '
                                   '5)|e7ef8bf803814165f0de9bf8e7c68deef75f0eb2a038c6fb035c767ea97ce865',
 'direction_5x5_float64_numpy_5000000.0': '<f4|(5, '
                                          '5)|f85d32883f342c579989991765c776fdf7637ab558bcc81e8b72a723fa1db098',
 'direction_5x5_float64_numpy_inf': '<f4|(5, '
                                    '5)|e7ef8bf803814165f0de9bf8e7c68deef75f0eb2a038c6fb035c767ea97ce865',
 'direction_5x5_int32_dask_inf': '<f4|(5, '
                                 '5)|d4d994d761de6ee4023e267cd537b4924088bfcf259279c2f08b81ce5b48cd1b',
 'direction_5x5_int32_numpy_5000000.0': '<f4|(5, '
                                        '5)|c97303fce3959cc442efa0533d01baa97fce6f00aa8fc30821a806446a191d9f',
 'direction_5x5_int32_numpy_inf': '<f4|(5, '
                                  '5)|d4d994d761de6ee4023e267cd537b4924088bfcf259279c2f08b81ce5b48cd1b',
 'direction_6x9_float32_dask_inf': '<f4|(6, '
                                   '9)|0462517812b1476d2e3fdaf61c3968cda116e9db323a79a80984a7462688f1bb',
 'direction_6x9_float32_numpy_5000000.0': '<f4|(6, '
                                          '9)|c51eaa98fe530fe1e4a04f3f9dca4613519280553e4e8c6707958a624d7159b0',
 'direction_6x9_float32_numpy_inf': '<f4|(6, '
                                    '9)|0462517812b1476d2e3fdaf61c3968cda116e9db323a79a80984a7462688f1bb',
 'direction_6x9_float64_dask_inf': '<f4|(6, '
                                   '9)|0462517812b1476d2e3fdaf61c3968cda116e9db323a79a80984a7462688f1bb',
 'direction_6x9_float64_numpy_5000000.0': '<f4|(6, '
                                          '9)|c51eaa98fe530fe1e4a04f3f9dca4613519280553e4e8c6707958a624d7159b0',
 'direction_6x9_float64_numpy_inf': '<f4|(6, '
                                    '9)|0462517812b1476d2e3fdaf61c3968cda116e9db323a79a80984a7462688f1bb',
 'direction_6x9_int32_dask_inf': '<f4|(6, '
                                 '9)|0462517812b1476d2e3fdaf61c3968cda116e9db323a79a80984a7462688f1bb',
 'direction_6x9_int32_numpy_5000000.0': '<f4|(6, '
                                        '9)|c51eaa98fe530fe1e4a04f3f9dca4613519280553e4e8c6707958a624d7159b0',
 'direction_6x9_int32_numpy_inf': '<f4|(6, '
                                  '9)|0462517812b1476d2e3fdaf61c3968cda116e9db323a79a80984a7462688f1bb',
 'direction_7x4_float32_dask_inf': '<f4|(7, '
                                   '4)|7a437a67f596097c2efc0a3f4b045486816cf54605b19bfae16d487a2b499aef',
 'direction_7x4_float32_numpy_5000000.0': '<f4|(7, '
                                          '4)|c2edab9a0d6d7b81ba1db83e0f26fa2985be9eafd738f7c6d21c2b5cd1081165',
 'direction_7x4_float32_numpy_inf': '<f4|(7, '
                                    '4)|7a437a67f596097c2efc0a3f4b045486816cf54605b19bfae16d487a2b499aef',
 'direction_7x4_float64_dask_inf': '<f4|(7, '
                                   '4)|7a437a67f596097c2efc0a3f4b045486816cf54605b19bfae16d487a2b499aef',
 'direction_7x4_float64_numpy_5000000.0': '<f4|(7, '
                                          '4)|c2edab9a0d6d7b81ba1db83e0f26fa2985be9eafd738f7c6d21c2b5cd1081165',
 'direction_7x4_float64_numpy_inf': '<f4|(7, '
                                    '4)|7a437a67f596097c2efc0a3f4b045486816cf54605b19bfae16d487a2b499aef',
 'direction_7x4_int32_dask_inf': '<f4|(7, '
                                 '4)|7a437a67f596097c2efc0a3f4b045486816cf54605b19bfae16d487a2b499aef',
 'direction_7x4_int32_numpy_5000000.0': '<f4|(7, '
                                        '4)|c2edab9a0d6d7b81ba1db83e0f26fa2985be9eafd738f7c6d21c2b5cd1081165',
 'direction_7x4_int32_numpy_inf': '<f4|(7, '
                                  '4)|7a437a67f596097c2efc0a3f4b045486816cf54605b19bfae16d487a2b499aef',
 'grid': '<f8|(270, 270)|4a4abde0641dbc2c5c90b6c95bdaccdc583033535412d4577d113046cf4587b7',
 'proximity_5x5_float32_dask_inf': '<f4|(5, '
                                   '5)|32b2b66d0c219f675d9c8533275d7a019f22a7f78b8b908da22e7409f54dfde1',
 'proximity_5x5_float32_numpy_5000000.0': '<f4|(5, '
                                          '5)|73af4e24c6b4b17e0a0c856b7e4ad7faed306483d8d1e5c363e34cdf6287c50b',
 'proximity_5x5_float32_numpy_inf': '<f4|(5, '
                                    '5)|32b2b66d0c219f675d9c8533275d7a019f22a7f78b8b908da22e7409f54dfde1',
 'proximity_5x5_float64_dask_inf': '<f4|(5, '
                                   '5)|32b2b66d0c219f675d9c8533275d7a019f22a7f78b8b908da22e7409f54dfde1',
 'proximity_5x5_float64_numpy_5000000.0': '<f4|(5, '
                                          '5)|73af4e24c6b4b17e0a0c856b7e4ad7faed306483d8d1e5c363e34cdf6287c50b',
 'proximity_5x5_float64_numpy_inf': '<f4|(5, '
                                    '5)|32b2b66d0c219f675d9c8533275d7a019f22a7f78b8b908da22e7409f54dfde1',
 'proximity_5x5_int32_dask_inf': '<f4|(5, '
                                 '5)|a925529ece54083b2d06d4a6ed6a3fe77b8399e5c0866e7955bf5bf6986164f1',
 'proximity_5x5_int32_numpy_5000000.0': '<f4|(5, '
                                        '5)|8b6f3c50e7c8541206e07977b2bf8fd76a364f37c023b436407ef0a2f95a42ae',
 'proximity_5x5_int32_numpy_inf': '<f4|(5, '
                                  '5)|a925529ece54083b2d06d4a6ed6a3fe77b8399e5c0866e7955bf5bf6986164f1',
 'proximity_6x9_float32_dask_inf': '<f4|(6, '
                                   '9)|505c44f6281ec9a2c1a43f0b5c8c1c8c29363f4a3ffd3fc7a38c0c7945c87ce2',
 'proximity_6x9_float32_numpy_5000000.0': '<f4|(6, '
                                          '9)|a86490fe2b9b223928afae1ce0260fb4943dded0dbf4dd78ecd440d9228a9042',
 'proximity_6x9_float32_numpy_inf': '<f4|(6, '
                                    '9)|505c44f6281ec9a2c1a43f0b5c8c1c8c29363f4a3ffd3fc7a38c0c7945c87ce2',
 'proximity_6x9_float64_dask_inf': '<f4|(6, '
                                   '9)|505c44f6281ec9a2c1a43f0b5c8c1c8c29363f4a3ffd3fc7a38c0c7945c87ce2',
 'proximity_6x9_float64_numpy_5000000.0': '<f4|(6, '
                                          '9)|a86490fe2b9b223928afae1ce0260fb4943dded0dbf4dd78ecd440d9228a9042',
 'proximity_6x9_float64_numpy_inf': '<f4|(6, '
                                    '9)|505c44f6281ec9a2c1a43f0b5c8c1c8c29363f4a3ffd3fc7a38c0c7945c87ce2',
 'proximity_6x9_int32_dask_inf': '<f4|(6, '
                                 '9)|505c44f6281ec9a2c1a43f0b5c8c1c8c29363f4a3ffd3fc7a38c0c7945c87ce2',
 'proximity_6x9_int32_numpy_5000000.0': '<f4|(6, '
                                        '9)|a86490fe2b9b223928afae1ce0260fb4943dded0dbf4dd78ecd440d9228a9042',
 'proximity_6x9_int32_numpy_inf': '<f4|(6, '
                                  '9)|505c44f6281ec9a2c1a43f0b5c8c1c8c29363f4a3ffd3fc7a38c0c7945c87ce2',
 'proximity_7x4_float32_dask_inf': '<f4|(7, '
                                   '4)|fc90a7f1e1911e8935c7f9abb5ccfaff90a647e4c681ff19cafd73f8e12fb87c',
 'proximity_7x4_float32_numpy_5000000.0': '<f4|(7, '
                                          '4)|7b58dec30673d42a3d97ae33377d3735e05b978bf42e8771473a0b666c4378c3',
 'proximity_7x4_float32_numpy_inf': '<f4|(7, '
                                    '4)|fc90a7f1e1911e8935c7f9abb5ccfaff90a647e4c681ff19cafd73f8e12fb87c',
 'proximity_7x4_float64_dask_inf': '<f4|(7, '
                                   '4)|fc90a7f1e1911e8935c7f9abb5ccfaff90a647e4c681ff19cafd73f8e12fb87c',
 'proximity_7x4_float64_numpy_5000000.0': '<f4|(7, '
                                          '4)|7b58dec30673d42a3d97ae33377d3735e05b978bf42e8771473a0b666c4378c3',
 'proximity_7x4_float64_numpy_inf': '<f4|(7, '
                                    '4)|fc90a7f1e1911e8935c7f9abb5ccfaff90a647e4c681ff19cafd73f8e12fb87c',
 'proximity_7x4_int32_dask_inf': '<f4|(7, '
                                 '4)|fc90a7f1e1911e8935c7f9abb5ccfaff90a647e4c681ff19cafd73f8e12fb87c',
 'proximity_7x4_int32_numpy_5000000.0': '<f4|(7, '
                                        '4)|7b58dec30673d42a3d97ae33377d3735e05b978bf42e8771473a0b666c4378c3',
 'proximity_7x4_int32_numpy_inf': '<f4|(7, '
                                  '4)|fc90a7f1e1911e8935c7f9abb5ccfaff90a647e4c681ff19cafd73f8e12fb87c',
 'radius_0.0': '<f8|(200,)|e61f41d57db208c5f92a35c4ce7198570924a3fc87eeba83441fceee5d6a2865',
 'radius_0.001': '<f8|(200,)|231c15fa738c688b2777776d713d3bd54c232ed138d9f17a4d18b2a4e780c669',
 'radius_1': '<f8|(200,)|1f18065db65c021d5be1e0f1fead2eff44aa716ce9308e296d6c2cea95ebf9d7',
 'radius_1.0': '<f8|(200,)|1f18065db65c021d5be1e0f1fead2eff44aa716ce9308e296d6c2cea95ebf9d7',
 'radius_1e+30': '<f8|(200,)|88c18fb23aa595d5f676ae3dc6cbddfe575a1c1663de9940e7b956e81c3862c8',
 'radius_3389500': '<f8|(200,)|377d812a46711a311271b80e0a5b62aa6b3bb37a6236cc9e4352491cdb0d9354',
 'radius_6371008.8': '<f8|(200,)|162b9623f7b0974d3adb089e7acc70a98dcc289c58f9db032c02e0215c1f2437',
 'random': '<f8|(4000,)|83f1f08a2f33e2c1dcd675a61a6187beacad65fc69c7c3e1705e9de0412dbf2c',
 'random13': '<f8|(4000,)|714d30fcbb5b91fe995094bb70ad095d0b5fe953e364a29b5c81c846c857f8a7',
 'random32': '<f8|(4000,)|5703cc8d55e5126e6ed98fda5daea99de3b301def231a6c6c479ef502d648997',
 'sample00': '0x1.225193eb1cff6p+21',
 'sample00_rev': '0x1.225193eb1cff6p+21',
 'sample01': '0x1.31bf8457c1093p+24',
 'sample01_rev': '0x1.31bf8457c1093p+24',
 'sample02': '0x1.31bf8457c1093p+24',
 'sample02_rev': '0x1.31bf8457c1093p+24',
 'sample03': '0x1.ad698f78f9fadp-30',
 'sample03_rev': '0x1.ad698f78f9fadp-30',
 'sample04': '0x1.ac3c41715ebe6p+16',
 'sample04_rev': '0x1.ac3c41715ebe6p+16',
 'sample05': '0x1.31bf8457c1093p+24',
 'sample05_rev': '0x1.31bf8457c1093p+24',
 'sample06': '0x1.ad698f78f9fadp-31',
 'sample06_rev': '0x1.ad698f78f9fadp-31',
 'sample07': '0x1.01eebb75b6468p-6',
 'sample07_rev': '0x1.01eebb75b6468p-6',
 'sample08': '0x0.0p+0',
 'sample08_rev': '0x0.0p+0',
 'sample09': '0x1.64ab7e0ed5c65p+22',
 'sample09_rev': '0x1.64ab7e0ed5c65p+22',
 'sample10': '0x1.e4b0aa05a7b99p+16',
 'sample10_rev': '0x1.e4b0aa05a7b99p+16',
 'sample11': '0x0.0p+0',
 'sample11_rev': '0x0.0p+0',
 'typed00': 'float:0x1.0dc905840cd0ap+23',
 'typed01': 'float:0x1.0dc90577f4e47p+23',
 'typed02': 'float:0x1.0c5f8a804243bp+23',
 'typed03': 'float:0x1.0db0b54dd561fp+23',
 'typed04': 'float:0x1.b502a9753560ap+17',
 'typed05': 'float:0x1.3378c4ab52e89p+17',
 'typed06': 'float:nan',
 'typed07': 'float:nan',
 'typed08': 'float:nan',
 'typed09': 'float:nan'}


def check(cond, msg):
    if not cond:
        FAILS.append(msg)


def digest(arr):
    arr = np.ascontiguousarray(arr)
    return '%s|%s|%s' % (arr.dtype.str, arr.shape,
                         hashlib.sha256(arr.tobytes()).hexdigest())


def expect(key, value):
    if RECORD:
        REC[key] = value
    else:
        check(key in EXPECTED and EXPECTED[key] == value,
              'mismatch for %s: got %r expected %r'
              % (key, value, EXPECTED.get(key)))


def ref_gc(x1, x2, y1, y2, radius=6378137):
    lat1, lon1, lat2, lon2 = map(math.radians, (y1, x1, y2, x2))
    a = (math.sin((lat2 - lat1) / 2) ** 2
         + math.cos(lat1) * math.cos(lat2) * math.sin((lon2 - lon1) / 2) ** 2)
    return radius * 2 * math.asin(math.sqrt(a))


# ------------------------------------------------------------ special grid
lons = [-180.0, -179.999999, -135.5, -90.0, -45.25, -1e-9, -0.0, 0.0, 1e-300,
        5e-324, 1e-9, 30.0, 89.99999999, 90.0, 123.2, 178.0, 179.9999999999,
        180.0]
lats = [-90.0, -89.9999999999, -66.5, -45.0, -23.43, -1e-12, 0.0, 5e-324,
        1e-7, 12.5, 45.0, 65.09, 82.32, 89.999999, 90.0]
pts = [(lo, la) for lo in lons for la in lats]

vals = np.empty((len(pts), len(pts)), dtype=np.float64)
for i, (xa, ya) in enumerate(pts):
    for j, (xb, yb) in enumerate(pts):
        vals[i, j] = great_circle_distance(xa, xb, ya, yb)
expect('grid', digest(vals))
half_circ = math.pi * 6378137
check(np.all(vals >= 0) and np.all(vals <= half_circ * (1 + 1e-15)),
      'range [0, half circumference]')
check(np.array_equal(vals, vals.T), 'symmetry (bitwise)')
check(np.all(np.diag(vals) == 0.0), 'zero for coincident points')
for i in range(0, len(pts), 7):
    for j in range(0, len(pts), 5):
        r = ref_gc(pts[i][0], pts[j][0], pts[i][1], pts[j][1])
        check(abs(vals[i, j] - r) <= 1e-9 * max(r, 1.0) + 1e-6,
              'sanity vs math ref at %r %r' % (pts[i], pts[j]))

# selected individually recorded values (readable)
samples = [
    ((123.2, 82.32), (178.0, 65.09)),      # docstring
    ((0.0, 0.0), (180.0, 0.0)),            # antipodes on equator
    ((0.0, 90.0), (0.0, -90.0)),           # pole to pole
    ((-180.0, 0.0), (180.0, 0.0)),         # antimeridian, same point
    ((179.5, 10.0), (-179.5, 10.0)),       # across antimeridian
    ((45.0, 45.0), (-135.0, -45.0)),       # antipodes
    ((10.0, 90.0), (-170.0, 90.0)),        # pole, different longitudes
    ((0.0, 0.0), (1e-7, 1e-7)),
    ((0.0, 0.0), (5e-324, 0.0)),
    ((-74.0, 40.71), (2.35, 48.85)),
    ((30, 60), (31, 61)),                  # python ints
    ((-0.0, -0.0), (0.0, 0.0)),
]
for k, ((xa, ya), (xb, yb)) in enumerate(samples):
    d = great_circle_distance(xa, xb, ya, yb)
    check(type(d) is float, 'return type is python float, got %r' % type(d))
    expect('sample%02d' % k, float(d).hex())
    expect('sample%02d_rev' % k,
           float(great_circle_distance(xb, xa, yb, ya)).hex())
check(great_circle_distance(123.2, 178.0, 82.32, 65.09) == 2378290.489801402,
      'docstring value')

# ---------------------------------------------------- random points + radii
rng = np.random.RandomState(19)
n = 4000
X1 = rng.uniform(-180, 180, n)
X2 = rng.uniform(-180, 180, n)
Y1 = rng.uniform(-90, 90, n)
Y2 = rng.uniform(-90, 90, n)
# near-coincident and near-antipodal pairs (delicate for arcsin(sqrt(a)))
X2[:500] = X1[:500] + rng.uniform(-1e-6, 1e-6, 500)
Y2[:500] = np.clip(Y1[:500] + rng.uniform(-1e-6, 1e-6, 500), -90, 90)
X2[:500] = np.clip(X2[:500], -180, 180)
X2[500:1000] = np.where(X1[500:1000] > 0, X1[500:1000] - 180,
                        X1[500:1000] + 180)
Y2[500:1000] = -Y1[500:1000] + rng.uniform(-1e-7, 1e-7, 500)
Y2[500:1000] = np.clip(Y2[500:1000], -90, 90)
out = np.array([great_circle_distance(a, b, c, d)
                for a, b, c, d in zip(X1, X2, Y1, Y2)])
expect('random', digest(out))
check(np.all(out <= half_circ * (1 + 1e-15)), 'random: bounded')
out_r = np.array([great_circle_distance(b, a, d, c)
                  for a, b, c, d in zip(X1, X2, Y1, Y2)])
check(np.array_equal(out, out_r), 'random: symmetric')
# triangle inequality through a third point
X3 = rng.uniform(-180, 180, n)
Y3 = rng.uniform(-90, 90, n)
d13 = np.array([great_circle_distance(a, b, c, d)
                for a, b, c, d in zip(X1, X3, Y1, Y3)])
d32 = np.array([great_circle_distance(a, b, c, d)
                for a, b, c, d in zip(X3, X2, Y3, Y2)])
expect('random13', digest(d13))
expect('random32', digest(d32))
check(np.all(out <= (d13 + d32) * (1 + 1e-9) + 1e-6), 'triangle inequality')

for radius in (1.0, 1, 6371008.8, 3389500, 1e-3, 0.0, 1e30):
    o = np.array([great_circle_distance(a, b, c, d, radius)
                  for a, b, c, d in zip(X1[:600:3], X2[:600:3],
                                        Y1[:600:3], Y2[:600:3])])
    expect('radius_%r' % (radius,), digest(o))

# ------------------------------------------------- argument dtypes and NaN
f32 = np.float32
typed = [
    (f32(10.5), f32(-20.25), f32(33.125), f32(-41.0625)),
    (f32(10.5), -20.25, 33.125, f32(-41.0625)),
    (np.int64(10), np.int32(-20), np.int16(33), np.int8(-41)),
    (10, -20.5, 33, -41.25),
    (np.float64(179.9), f32(-179.9), 1, np.int64(-1)),
    (True, False, True, False),
    (float('nan'), 1.0, 2.0, 3.0),
    (1.0, float('nan'), 2.0, 3.0),
    (1.0, 2.0, float('nan'), 3.0),
    (1.0, 2.0, 3.0, float('nan')),
]
for k, args in enumerate(typed):
    d = great_circle_distance(*args)
    expect('typed%02d' % k, '%s:%s' % (type(d).__name__, float(d).hex()))

# --------------------------------------------------------- rejected inputs
bad = [
    (180.0000001, 0, 0, 0), (-180.0000001, 0, 0, 0), (0, 181, 0, 0),
    (0, -181, 0, 0), (0, 0, 90.0000001, 0), (0, 0, -91, 0), (0, 0, 0, 90.5),
    (0, 0, 0, -90.5), (float('inf'), 0, 0, 0), (0, float('-inf'), 0, 0),
    (0, 0, float('inf'), 0), (0, 0, 0, float('-inf')),
    (200, 300, 100, 100), (0, 300, 100, 100), (0, 0, 100, 100),
]
for k, args in enumerate(bad):
    try:
        great_circle_distance(*args)
        res = 'no-exception'
    except Exception as e:  # noqa
        res = '%s:%s' % (type(e).__name__, e)
    check(res.startswith('ValueError:Invalid'), 'rejects %r (%s)' % (args, res))
    expect('bad%02d' % k, res)

# ------------------------- proximity / allocation / direction (GREAT_CIRCLE)
try:
    import dask.array as da
except ImportError:  # pragma: no cover
    da = None

for (h, w) in ((6, 9), (5, 5), (7, 4)):
    for dt in (np.float64, np.float32, np.int32):
        rs = np.random.RandomState(h * 100 + w)
        data = np.zeros((h, w), dtype=dt)
        idx = rs.choice(h * w, 4, replace=False)
        data.ravel()[idx] = np.array([1, 2, 3, 4], dtype=dt)
        if np.issubdtype(dt, np.floating):
            data.ravel()[rs.choice(h * w, 2, replace=False)] = np.nan
        lon = np.linspace(-179.5, 179.5, w)
        lat = np.linspace(89.5, -89.5, h)
        for backend in ('numpy', 'dask'):
            if backend == 'dask':
                if da is None:
                    continue
                d = da.from_array(data, chunks=(3, 4))
            else:
                d = data
            r = xr.DataArray(d, dims=['lat', 'lon'],
                             coords={'lat': lat, 'lon': lon})
            for fn in (proximity, allocation, direction):
                for md in (np.inf, 5e6):
                    if backend == 'dask' and md != np.inf:
                        # halo in cells = metres / degrees: larger than the
                        # array, dask refuses (pre-existing behaviour)
                        continue
                    res = fn(r, x='lon', y='lat',
                             distance_metric='GREAT_CIRCLE', max_distance=md)
                    check(isinstance(res.data, type(d)), 'backend preserved')
                    v = np.asarray(res.data.compute() if backend == 'dask'
                                   else res.data)
                    expect('%s_%dx%d_%s_%s_%r' % (fn.__name__, h, w,
                                                 np.dtype(dt).name, backend,
                                                 md),
                           digest(v))

if RECORD:
    import pprint
    print('EXPECTED = ' + pprint.pformat(REC, width=100))
    sys.exit(0)

if FAILS:
    print('FAILURES (%d):' % len(FAILS))
    for f in FAILS[:40]:
        print('  ', f)
    sys.exit(1)
print('equiv TC19-t23 OK  [%s]' % xrspatial.__file__)
sys.exit(0)
