"""Differential test for refactoring t3 (classify: shared _wrap_like helper builds every output DataArray) (property C10).

Runs the affected public functions on many inputs (all integer/float dtypes,
NaN/inf, odd shapes, C/F/non-contiguous/read-only layouts, numpy and dask) and
compares a bit-exact digest (dtype, shape, raw bytes) of every result with the
digest recorded from the unmodified tree.  Also re-checks C10 itself: inputs are
untouched, output shares no memory with input, and shape/dims/coords/attrs/
backend are preserved.

usage: equiv.py            -> compare with EXPECTED, exit 0 iff identical
       equiv.py --record   -> print the EXPECTED table for the current tree
"""
import contextlib
import hashlib
import io
import sys
import warnings

import dask
import dask.array as da
import numpy as np
import xarray as xr

import xrspatial
from xrspatial.classify import binary, equal_interval, natural_breaks, quantile, reclassify

warnings.filterwarnings('ignore')
dask.config.set(scheduler='synchronous')

DTYPES = ['int8', 'int16', 'int32', 'int64', 'uint8', 'uint16', 'uint32', 'uint64',
          'float32', 'float64']
SHAPES = [(1, 1), (1, 8), (2, 5), (3, 3), (4, 3), (7, 11), (10, 6)]

CASES = [('binary', binary, [{'values': [1, 2, 3]}, {'values': [3.0, -6, 12, 127], 'name': 'b'}]),
         ('reclassify', reclassify, [{'bins': [0, 3, 10], 'new_values': [1, 2, 3]},
                                     {'bins': [-5.5, 0.5, 2, 7, 11], 'new_values': [10, 20, 30, 40, 50],
                                      'name': 'rc'}]),
         ('quantile', quantile, [{}, {'k': 3, 'name': 'q3'}]),
         ('natural_breaks', natural_breaks, [{}, {'k': 2, 'name': 'nb'}]),
         ('equal_interval', equal_interval, [{}, {'k': 3, 'name': 'ei'}])]


def base_array(shape, dtype, seed):
    rng = np.random.RandomState(seed)
    n = shape[0] * shape[1]
    if np.dtype(dtype).kind == 'f':
        a = (rng.rand(n) * 40 - 10).astype(dtype)
        a = np.where(rng.rand(n) < 0.3, np.round(a), a).astype(dtype)
        if n > 4:
            a[rng.randint(0, n, size=max(1, n // 9))] = np.nan
            a[rng.randint(0, n)] = np.inf
            a[rng.randint(0, n)] = -np.inf
    else:
        info = np.iinfo(dtype)
        lo = max(info.min, -6)
        hi = min(info.max, 12)
        a = rng.randint(lo, hi + 1, size=n).astype(dtype)
        if n > 6:
            a[rng.randint(0, n)] = info.max
            a[rng.randint(0, n)] = info.min
    a = a.reshape(shape)
    if seed % 3 == 0 and shape[0] >= 4 and shape[1] >= 4:
        a[0:4, 0:4] = 3  # plateau: flat neighbourhoods
    return a


def layouts(a):
    yield 'C', np.ascontiguousarray(a)
    yield 'F', np.asfortranarray(a)
    big = np.zeros((a.shape[0] * 2 + 1, a.shape[1] * 3 + 2), dtype=a.dtype)
    view = big[1::2, 2::3]
    view[...] = a
    yield 'view', view
    ro = a.copy()
    ro.setflags(write=False)
    yield 'ro', ro


def make_raster(data, backend, chunks=None):
    h, w = data.shape
    if backend == 'dask':
        data = da.from_array(data, chunks=chunks)
    r = xr.DataArray(
        data, dims=['lat', 'lon'], name='src',
        coords={'lat': np.linspace(5.0, 5.0 + 0.5 * (h - 1), h)[::-1].copy(),
                'lon': np.linspace(-3.0, -3.0 + 0.25 * (w - 1), w),
                'band': 7, 'time': np.datetime64('2020-01-02')},
        attrs={'res': (0.25, 0.5), 'crs': 'EPSG:4326', 'nested': {'k': [1, 2]}})
    return r


def digest(arr):
    arr = np.asarray(arr)
    hsh = hashlib.sha256()
    hsh.update(str(arr.dtype).encode())
    hsh.update(str(arr.shape).encode())
    hsh.update(np.ascontiguousarray(arr).tobytes())
    return hsh.hexdigest()[:16]


def check_identity(key, src, snap, out, backend):
    """C10 itself: identity kept, input untouched, no shared writable memory."""
    errs = []
    if out.shape != src.shape or out.dims != src.dims:
        errs.append('shape/dims')
    if dict(out.attrs) != snap['attrs'] or dict(src.attrs) != snap['attrs']:
        errs.append('attrs')
    if set(out.coords) != set(snap['coords']):
        errs.append('coord names')
    for k, v in snap['coords'].items():
        if k in out.coords and not np.array_equal(np.asarray(out.coords[k].values), v):
            errs.append('out coord ' + k)
        if not np.array_equal(np.asarray(src.coords[k].values), v):
            errs.append('in coord ' + k)
    if backend == 'dask':
        if not isinstance(out.data, da.Array):
            errs.append('backend')
    else:
        if not isinstance(out.data, np.ndarray):
            errs.append('backend')
    if digest(snap['raw']) != snap['digest']:
        errs.append('input values changed')
    if backend == 'numpy':
        if np.shares_memory(out.data, snap['raw']):
            errs.append('shares memory')
        if out.data.flags.writeable and out.size:
            out.data[...] = 0
            if digest(snap['raw']) != snap['digest']:
                errs.append('write-through')
    return errs


def run_all():
    results = {}
    problems = []
    seed = 0
    for fname, func, kwargs_list in CASES:
        for shape in SHAPES:
            for dtype in DTYPES:
                seed += 1
                a = base_array(shape, dtype, seed)
                variants = [('numpy', lay, arr, None) for lay, arr in layouts(a)]
                variants.append(('dask', 'c1', np.ascontiguousarray(a), shape))
                variants.append(('dask', 'c2', np.ascontiguousarray(a),
                                 (max(1, (shape[0] + 1) // 2), max(1, (shape[1] + 1) // 2))))
                variants.append(('dask', 'c3', np.asfortranarray(a), (3, 4)))
                for backend, lay, arr, chunks in variants:
                    for ki, kwargs in enumerate(kwargs_list):
                        key = '%s|%s|%s|%s|%s|%d' % (fname, shape, dtype, backend, lay, ki)
                        src = make_raster(arr, backend, chunks)
                        snap = {'raw': arr, 'digest': digest(arr),
                                'attrs': {'res': (0.25, 0.5), 'crs': 'EPSG:4326',
                                          'nested': {'k': [1, 2]}},
                                'coords': {k: np.asarray(v.values).copy()
                                           for k, v in src.coords.items()}}
                        try:
                            with contextlib.redirect_stdout(io.StringIO()):
                                out = func(src, **kwargs)
                            val = out.data.compute() if backend == 'dask' else out.data
                            res = digest(val) + '|' + str(out.name)
                            errs = check_identity(key, src, snap, out, backend)
                            if errs:
                                problems.append((key, errs))
                        except Exception as e:  # recorded: must stay the same error
                            res = 'EXC:' + type(e).__name__
                        results[key] = res
    return results, problems


def fold(results):
    """one digest per (function, shape, dtype) to keep the table small"""
    folded = {}
    for key in sorted(results):
        g = '|'.join(key.split('|')[:3])
        folded.setdefault(g, hashlib.sha256()).update((key + '=' + results[key]).encode())
    return {g: h.hexdigest()[:20] for g, h in folded.items()}


EXPECTED = {'binary|(1, 1)|float32': 'ad28743df6d502eae35a',
 'binary|(1, 1)|float64': '0fd227928083d80ef2ec',
 'binary|(1, 1)|int16': 'a275f9c9e76f14836093',
 'binary|(1, 1)|int32': 'af8beaa201869699e06a',
 'binary|(1, 1)|int64': '8de4fbb98958ad22a4c8',
 'binary|(1, 1)|int8': 'e1de30dfea5937c40578',
 'binary|(1, 1)|uint16': '01e548f9d90cbac3703f',
 'binary|(1, 1)|uint32': '534e9d56a8c9a076f037',
 'binary|(1, 1)|uint64': '361a81ed20cc57489ee8',
 'binary|(1, 1)|uint8': 'ef774487ba1db487d09e',
 'binary|(1, 8)|float32': '2595036f9e48ef8c9c75',
 'binary|(1, 8)|float64': 'cb0c038f729499514350',
 'binary|(1, 8)|int16': '75f9ab661ecd5e60f23f',
 'binary|(1, 8)|int32': '5d5d785b3af92c2efc7f',
 'binary|(1, 8)|int64': 'c4b5f0316886198115ba',
 'binary|(1, 8)|int8': '91eddc8ff503a4acf7de',
 'binary|(1, 8)|uint16': '83637d62b9e5b25e378e',
 'binary|(1, 8)|uint32': 'de261b15f04309527ba9',
 'binary|(1, 8)|uint64': '9f3d281b54b10ad4df56',
 'binary|(1, 8)|uint8': '018fe683c8470f1c974c',
 'binary|(10, 6)|float32': 'a1831c36d5cb73c620c3',
 'binary|(10, 6)|float64': '71b4298f6ae7af1e8ec2',
 'binary|(10, 6)|int16': 'ed778840a509b6af1783',
 'binary|(10, 6)|int32': '0123a91034f3837863ae',
 'binary|(10, 6)|int64': 'a33208364cc559339dee',
 'binary|(10, 6)|int8': 'a709c2e06f8d1d920069',
 'binary|(10, 6)|uint16': '76da1f05fa078a86e139',
 'binary|(10, 6)|uint32': '48ec561770e3a39dd6da',
 'binary|(10, 6)|uint64': 'e5ef3de9458e51c2a147',
 'binary|(10, 6)|uint8': '943519f52e14a28d72dc',
 'binary|(2, 5)|float32': '824e1eeb0ce959e91f9c',
 'binary|(2, 5)|float64': '15eb41815a742f00fb7e',
 'binary|(2, 5)|int16': '841bd82f87ee86f9b076',
 'binary|(2, 5)|int32': 'a4ba688b602c6180d618',
 'binary|(2, 5)|int64': '1ccea0672334e6b15730',
 'binary|(2, 5)|int8': 'd4ab9985e443714913fd',
 'binary|(2, 5)|uint16': '6fbd1359a9dbbf5dce74',
 'binary|(2, 5)|uint32': '74ee53fb4afb57c3c81e',
 'binary|(2, 5)|uint64': 'fe7831c2c8b577aa6022',
 'binary|(2, 5)|uint8': 'bc4ecd9e2a2b6939d541',
 'binary|(3, 3)|float32': 'b1cf6aba791f2fda9c43',
 'binary|(3, 3)|float64': '41c1ca96014acd27a480',
 'binary|(3, 3)|int16': '48dfe1aa187dab2b87e9',
 'binary|(3, 3)|int32': 'aa103673a945c2cd58f8',
 'binary|(3, 3)|int64': '7b39ee2a9e8e063f08c4',
 'binary|(3, 3)|int8': '109159a5af1836239157',
 'binary|(3, 3)|uint16': 'c87678665d9eec12b5fd',
 'binary|(3, 3)|uint32': '78c6471be53362ac3367',
 'binary|(3, 3)|uint64': 'b649cf415a0f42ddf476',
 'binary|(3, 3)|uint8': '56c56930760f2f1ad535',
 'binary|(4, 3)|float32': 'cd6d2206a1eea32993cf',
 'binary|(4, 3)|float64': 'a3b9019352ddcaf7dc38',
 'binary|(4, 3)|int16': '6a9438d8f44b6840b7e6',
 'binary|(4, 3)|int32': '63409b7c2ba813b07f0f',
 'binary|(4, 3)|int64': '6ab699d498154adff12e',
 'binary|(4, 3)|int8': '47fd4d054352a2b670c1',
 'binary|(4, 3)|uint16': 'be09df1802c17e7befa4',
 'binary|(4, 3)|uint32': '8d207922912bdbb466ea',
 'binary|(4, 3)|uint64': '8444fd0194a43ea3f6bf',
 'binary|(4, 3)|uint8': '4a0feece18abcf4cd8ba',
 'binary|(7, 11)|float32': 'ca727fa97f2ab7126249',
 'binary|(7, 11)|float64': 'ba429ceb25028f4bc980',
 'binary|(7, 11)|int16': '7e37524792fbd7499b2f',
 'binary|(7, 11)|int32': '6682127a878fe2de17f7',
 'binary|(7, 11)|int64': '463f495c287e65bab525',
 'binary|(7, 11)|int8': '5116487d64164bbc971f',
 'binary|(7, 11)|uint16': 'ec124f935aef0fe00c78',
 'binary|(7, 11)|uint32': '3072e0440e7034e0f53c',
 'binary|(7, 11)|uint64': '19d56ed699096f5584a7',
 'binary|(7, 11)|uint8': '5e40bd4db36ccc3a6c94',
 'equal_interval|(1, 1)|float32': '75950c1e5ddaa6cd738e',
 'equal_interval|(1, 1)|float64': '5f3ae1b38a2c0ad1d85c',
 'equal_interval|(1, 1)|int16': '828bd53af61f13a68ddf',
 'equal_interval|(1, 1)|int32': '4f663cc6f6a431f385d0',
 'equal_interval|(1, 1)|int64': '933d6a1422c3b90e83d7',
 'equal_interval|(1, 1)|int8': 'd41fe3b4eddeb50459f7',
 'equal_interval|(1, 1)|uint16': '72f5eab166cf5fe37ea1',
 'equal_interval|(1, 1)|uint32': '768fcb56afe780312923',
 'equal_interval|(1, 1)|uint64': '0cf170f7f2624b8a44cf',
 'equal_interval|(1, 1)|uint8': '5a67c1695029782fd784',
 'equal_interval|(1, 8)|float32': 'b4785c03427009626aee',
 'equal_interval|(1, 8)|float64': '01093384f35370cf6866',
 'equal_interval|(1, 8)|int16': '3eb43921c33126e0cb5c',
 'equal_interval|(1, 8)|int32': 'f24bb8c343f963af5380',
 'equal_interval|(1, 8)|int64': '442ef9c90a2b6a38e772',
 'equal_interval|(1, 8)|int8': 'bac134cd0435233515a2',
 'equal_interval|(1, 8)|uint16': 'e573b471419c5569bef5',
 'equal_interval|(1, 8)|uint32': 'c2122419aba5fd233d6d',
 'equal_interval|(1, 8)|uint64': '896ce21c222fd579e54a',
 'equal_interval|(1, 8)|uint8': '8b8c89a01e41749aed34',
 'equal_interval|(10, 6)|float32': 'eb863d6f63b4e33b7d26',
 'equal_interval|(10, 6)|float64': 'c0ecbb246c9c74b2163e',
 'equal_interval|(10, 6)|int16': '0d2c62558c764cf3e6d6',
 'equal_interval|(10, 6)|int32': '65db7cbb2300fb547b6a',
 'equal_interval|(10, 6)|int64': '89cc7563da8ab2a438cd',
 'equal_interval|(10, 6)|int8': 'bd1263c7e5f9df9c99c7',
 'equal_interval|(10, 6)|uint16': '40a28986b3d64ac53224',
 'equal_interval|(10, 6)|uint32': '5f96575f534710176fa2',
 'equal_interval|(10, 6)|uint64': '1dcc554eeb850932e76c',
 'equal_interval|(10, 6)|uint8': '42073d7cc9d17a646815',
 'equal_interval|(2, 5)|float32': '937df332cd6168abaea0',
 'equal_interval|(2, 5)|float64': '7b7286eabb712aed51ca',
 'equal_interval|(2, 5)|int16': '262e156e82c122cc05bf',
 'equal_interval|(2, 5)|int32': 'a1bb42a7b6c62372ae82',
 'equal_interval|(2, 5)|int64': 'c2a5a6ab12e0f3b9484c',
 'equal_interval|(2, 5)|int8': 'f8ad61a6e6e223b9ffa3',
 'equal_interval|(2, 5)|uint16': 'ed20364367e39119b3ee',
 'equal_interval|(2, 5)|uint32': '47647e3c6a780d46b5e8',
 'equal_interval|(2, 5)|uint64': '61d295a6925890baf10a',
 'equal_interval|(2, 5)|uint8': '29626a185e21d4bcb34c',
 'equal_interval|(3, 3)|float32': '40f159afa6d6afce6e95',
 'equal_interval|(3, 3)|float64': '02654c2fbaf28287a6c5',
 'equal_interval|(3, 3)|int16': '423bbd6d57fd24a4ba42',
 'equal_interval|(3, 3)|int32': '9df06b6c1ca0408d8d58',
 'equal_interval|(3, 3)|int64': 'e00c9e8a3e7643a6f440',
 'equal_interval|(3, 3)|int8': 'b7aebec3281deca46241',
 'equal_interval|(3, 3)|uint16': '30b00b10a97794f3e300',
 'equal_interval|(3, 3)|uint32': 'ecbfb5b3cfac0817d766',
 'equal_interval|(3, 3)|uint64': '51235ba9bacb3b1b981f',
 'equal_interval|(3, 3)|uint8': '9fbc76e128dd6048e917',
 'equal_interval|(4, 3)|float32': '61108a34dacae8f23ec7',
 'equal_interval|(4, 3)|float64': '052ee718cedaffb2f544',
 'equal_interval|(4, 3)|int16': '56c518eaff40f1abf9b4',
 'equal_interval|(4, 3)|int32': '7a606e3ec0b13edde77d',
 'equal_interval|(4, 3)|int64': '27e2517aa255e124611b',
 'equal_interval|(4, 3)|int8': 'c4d02fcb23e38834bd76',
 'equal_interval|(4, 3)|uint16': 'd17042ca1052e21b20db',
 'equal_interval|(4, 3)|uint32': '588538ba196b1eeda7cb',
 'equal_interval|(4, 3)|uint64': '1d46c26e59914dda9886',
 'equal_interval|(4, 3)|uint8': '88def2da282411c4b47e',
 'equal_interval|(7, 11)|float32': '5c81514116add8a6baa1',
 'equal_interval|(7, 11)|float64': '9788e27b3ce069b272af',
 'equal_interval|(7, 11)|int16': 'a2b9b74c322ca6093877',
 'equal_interval|(7, 11)|int32': '84e2826a9dad215f7e6f',
 'equal_interval|(7, 11)|int64': '64668b9faf41036eeab5',
 'equal_interval|(7, 11)|int8': 'bf8d543cec1a94654bde',
 'equal_interval|(7, 11)|uint16': '1f3f9ac1985cb44c94cf',
 'equal_interval|(7, 11)|uint32': '25c2bf0775c9c970bde0',
 'equal_interval|(7, 11)|uint64': '245538ba138ee2ee2536',
 'equal_interval|(7, 11)|uint8': '3f44159af8a5c23ac99c',
 'natural_breaks|(1, 1)|float32': '59dae6dc978d6c002ab1',
 'natural_breaks|(1, 1)|float64': '9c7fe02facc5df7107de',
 'natural_breaks|(1, 1)|int16': 'f276bdf3e34e0682842f',
 'natural_breaks|(1, 1)|int32': 'b689c0e37e6f20b1fae5',
 'natural_breaks|(1, 1)|int64': '18f495bc0d583ba23c3d',
 'natural_breaks|(1, 1)|int8': 'da21a2dfccc0c05cf163',
 'natural_breaks|(1, 1)|uint16': '2cc0303e22cdbf38b515',
 'natural_breaks|(1, 1)|uint32': '06359f6eec4816cf0212',
 'natural_breaks|(1, 1)|uint64': '80064062c0c5f8263fef',
 'natural_breaks|(1, 1)|uint8': '11678fa2db053a155e38',
 'natural_breaks|(1, 8)|float32': '54c75a43cee02a290ca9',
 'natural_breaks|(1, 8)|float64': 'b33c19a0e61433a9f867',
 'natural_breaks|(1, 8)|int16': 'abb23b0b118447657798',
 'natural_breaks|(1, 8)|int32': 'fe61221ca915a3fc42e6',
 'natural_breaks|(1, 8)|int64': '0f5ee0a29dca1b19f1d0',
 'natural_breaks|(1, 8)|int8': '607dabb096e1686f575f',
 'natural_breaks|(1, 8)|uint16': 'e36513561259af7ee239',
 'natural_breaks|(1, 8)|uint32': 'f8804b91c7e05f73038c',
 'natural_breaks|(1, 8)|uint64': '0283b08775258c9c3e9c',
 'natural_breaks|(1, 8)|uint8': '7f60d492183fae18f091',
 'natural_breaks|(10, 6)|float32': '07a1dc2210e602fe7191',
 'natural_breaks|(10, 6)|float64': '6aab6111e4c208e1decd',
 'natural_breaks|(10, 6)|int16': '58fe3cabe9da80804eba',
 'natural_breaks|(10, 6)|int32': '0b106507702bf3924603',
 'natural_breaks|(10, 6)|int64': '41b769ff27e3e085359e',
 'natural_breaks|(10, 6)|int8': '9e39ff016075fdf2a58e',
 'natural_breaks|(10, 6)|uint16': '8bf5eb4c9a270bef5e19',
 'natural_breaks|(10, 6)|uint32': 'a65d6ebc6fd010577cc4',
 'natural_breaks|(10, 6)|uint64': 'bd50c0cedeb88d6b1362',
 'natural_breaks|(10, 6)|uint8': '70b7ff2a09b678384ad0',
 'natural_breaks|(2, 5)|float32': '80026e052f36a1818d0b',
 'natural_breaks|(2, 5)|float64': 'f49037eb3b912fd96823',
 'natural_breaks|(2, 5)|int16': 'fabd1d49b5d1b9ca90ad',
 'natural_breaks|(2, 5)|int32': '1e8067462dc108a5b720',
 'natural_breaks|(2, 5)|int64': '17bfe1cd748e984b082a',
 'natural_breaks|(2, 5)|int8': '553697f8e0950b902e2b',
 'natural_breaks|(2, 5)|uint16': 'b909c3f43ea84ea165fe',
 'natural_breaks|(2, 5)|uint32': '84c6a17642668a79e5ad',
 'natural_breaks|(2, 5)|uint64': '9b0444ac4d2a9f6fe9a9',
 'natural_breaks|(2, 5)|uint8': '2d3253906369e20e5690',
 'natural_breaks|(3, 3)|float32': '68bec0d269bc42ca9579',
 'natural_breaks|(3, 3)|float64': '08cddabd3afa175228af',
 'natural_breaks|(3, 3)|int16': 'f2a8588560a9de3f159c',
 'natural_breaks|(3, 3)|int32': 'b844bcc5dfff937b34e7',
 'natural_breaks|(3, 3)|int64': '9e01765235f6a0ca92cf',
 'natural_breaks|(3, 3)|int8': 'e77013bcfe60cfea216d',
 'natural_breaks|(3, 3)|uint16': '6024c386daf32bd0b12a',
 'natural_breaks|(3, 3)|uint32': '9542c32346796a427938',
 'natural_breaks|(3, 3)|uint64': '5c1782e7345001b72537',
 'natural_breaks|(3, 3)|uint8': '6809aa08f52570fb9846',
 'natural_breaks|(4, 3)|float32': '71bd05d1c572fce7f618',
 'natural_breaks|(4, 3)|float64': 'a6e8e8daecbba583508a',
 'natural_breaks|(4, 3)|int16': '3dab20f96c4d00183de3',
 'natural_breaks|(4, 3)|int32': '772cabab3a5fabaa43b2',
 'natural_breaks|(4, 3)|int64': 'f0c1841a4df4fa6c5fdd',
 'natural_breaks|(4, 3)|int8': '93a7a7e58f4ebfba3d84',
 'natural_breaks|(4, 3)|uint16': '9652979ceed520466ebc',
 'natural_breaks|(4, 3)|uint32': '5c223a25115bc5225d17',
 'natural_breaks|(4, 3)|uint64': '4fe2319c3aebf02b540c',
 'natural_breaks|(4, 3)|uint8': 'b1b45003f973f51f6f6a',
 'natural_breaks|(7, 11)|float32': 'ead2af80b50de9019b46',
 'natural_breaks|(7, 11)|float64': '00a52b0097587b48bacb',
 'natural_breaks|(7, 11)|int16': '7c49c584a86149ea32a1',
 'natural_breaks|(7, 11)|int32': '40d52110f53375914881',
 'natural_breaks|(7, 11)|int64': 'c7254f58a9070c8e591e',
 'natural_breaks|(7, 11)|int8': '9f51e5a3279a6f599f19',
 'natural_breaks|(7, 11)|uint16': '2fad64b1a10db62c997d',
 'natural_breaks|(7, 11)|uint32': 'e485bef1590f3d1b6736',
 'natural_breaks|(7, 11)|uint64': '21bf19b7f479b61efc5f',
 'natural_breaks|(7, 11)|uint8': '955b85cd2c09bc11970a',
 'quantile|(1, 1)|float32': '9d54810424e18a41659f',
 'quantile|(1, 1)|float64': 'f0ba85e3d6254f38351d',
 'quantile|(1, 1)|int16': '6b0a62c5e8bedc2b4964',
 'quantile|(1, 1)|int32': '12d21f7937a200489e01',
 'quantile|(1, 1)|int64': '00e5ab75ed8f39957a03',
 'quantile|(1, 1)|int8': '87a44df27b817e30aea0',
 'quantile|(1, 1)|uint16': '93c9e07141c84ac10b45',
 'quantile|(1, 1)|uint32': 'de498f1d5118256aec88',
 'quantile|(1, 1)|uint64': '72021b7616e28fdbbd81',
 'quantile|(1, 1)|uint8': 'cf42b1e3420d23a1885c',
 'quantile|(1, 8)|float32': 'e16408e8fbc6e7c51e2b',
 'quantile|(1, 8)|float64': '1b909812fa1e240d01ce',
 'quantile|(1, 8)|int16': '1670c25b20be1257e193',
 'quantile|(1, 8)|int32': '445ee14609f1b309a496',
 'quantile|(1, 8)|int64': '15e331b98862b20047b4',
 'quantile|(1, 8)|int8': '61791aee7ca6eab4db4b',
 'quantile|(1, 8)|uint16': 'af4de586a4f5199af700',
 'quantile|(1, 8)|uint32': '3e281a7a61cbde222423',
 'quantile|(1, 8)|uint64': '909646f487bdbb019490',
 'quantile|(1, 8)|uint8': '5a229996d9050d914db9',
 'quantile|(10, 6)|float32': 'af0e291e27d2a8b3a94a',
 'quantile|(10, 6)|float64': 'c85a7344f5679413cca8',
 'quantile|(10, 6)|int16': '3e2783df0702f30425f8',
 'quantile|(10, 6)|int32': '2aff638fc3af06f548aa',
 'quantile|(10, 6)|int64': 'bc8ef6ec474af59b5a50',
 'quantile|(10, 6)|int8': '72b2919278b584da4e4c',
 'quantile|(10, 6)|uint16': 'e5854a3c9c10eda4f6e8',
 'quantile|(10, 6)|uint32': '125b23c38830b11d4581',
 'quantile|(10, 6)|uint64': '1da126a612bbe8cfce78',
 'quantile|(10, 6)|uint8': '6cf3f164d833f7bf035c',
 'quantile|(2, 5)|float32': '557746a213ad3ef2f4c6',
 'quantile|(2, 5)|float64': 'be2790e86e0538d4721c',
 'quantile|(2, 5)|int16': '38318d744f21716f8d26',
 'quantile|(2, 5)|int32': '72323d1c04b370224df8',
 'quantile|(2, 5)|int64': '0354f3b115009e1a9a05',
 'quantile|(2, 5)|int8': '06b5038d67f3d1c375dd',
 'quantile|(2, 5)|uint16': '3728dff707553bf55b00',
 'quantile|(2, 5)|uint32': '625e936f302d810a8245',
 'quantile|(2, 5)|uint64': '50743d73575c3ef062b8',
 'quantile|(2, 5)|uint8': '515452cf455370e617b4',
 'quantile|(3, 3)|float32': '02cc171dbfdd49d18eae',
 'quantile|(3, 3)|float64': '261178e64bf2f92da315',
 'quantile|(3, 3)|int16': '2cea2d054a39e5074191',
 'quantile|(3, 3)|int32': 'eeab109f8692552668c3',
 'quantile|(3, 3)|int64': '51fd13f054824a1edd78',
 'quantile|(3, 3)|int8': '9d920bde4ad427f21a77',
 'quantile|(3, 3)|uint16': '2ff23aec7e6b9935763b',
 'quantile|(3, 3)|uint32': 'e5916d89b6baf4e3014a',
 'quantile|(3, 3)|uint64': '8afba9673a83b1a486b8',
 'quantile|(3, 3)|uint8': '2e51ae29ceeb09babad9',
 'quantile|(4, 3)|float32': '84e000855f6e834f0860',
 'quantile|(4, 3)|float64': '976d7f6aeb9abaeada1b',
 'quantile|(4, 3)|int16': '72135bad7650bfb0401e',
 'quantile|(4, 3)|int32': '0155b426a127468f1387',
 'quantile|(4, 3)|int64': '9888989087d560855259',
 'quantile|(4, 3)|int8': '34f85ee5916bf350fdd9',
 'quantile|(4, 3)|uint16': 'ee95739b25025984597c',
 'quantile|(4, 3)|uint32': '509cff574cb73d0d1089',
 'quantile|(4, 3)|uint64': '38c94d6096fcafdf4055',
 'quantile|(4, 3)|uint8': '0a0e5cac5d84752fc32e',
 'quantile|(7, 11)|float32': 'e1fa08c1809e65f77bb0',
 'quantile|(7, 11)|float64': 'bbd630112231e3dd5a9f',
 'quantile|(7, 11)|int16': '77beb449e4efc7b014db',
 'quantile|(7, 11)|int32': 'bacacb43fe2ef3301fae',
 'quantile|(7, 11)|int64': '82e1bde03f5eb02c04ae',
 'quantile|(7, 11)|int8': 'e46849b1ddbe83c09747',
 'quantile|(7, 11)|uint16': '896bca5cbf7b369b1e6b',
 'quantile|(7, 11)|uint32': '8f363d73bb6d13fc2d87',
 'quantile|(7, 11)|uint64': 'd28f9bb6597688c2b573',
 'quantile|(7, 11)|uint8': '2d0daa78309ce90eb1eb',
 'reclassify|(1, 1)|float32': '30065b7cf12619781bac',
 'reclassify|(1, 1)|float64': '7003b4e4b862cfb40bd2',
 'reclassify|(1, 1)|int16': 'eafacf6c0494d2bf3f6c',
 'reclassify|(1, 1)|int32': '75e71bbae31a7fdc569b',
 'reclassify|(1, 1)|int64': 'dfdd5bbffb2255dc0f87',
 'reclassify|(1, 1)|int8': 'd2aac94eb8daa3597db4',
 'reclassify|(1, 1)|uint16': '54e092ae5cd1583af854',
 'reclassify|(1, 1)|uint32': '0180ca9955e24409500f',
 'reclassify|(1, 1)|uint64': 'd91a35f8a26d84c0067b',
 'reclassify|(1, 1)|uint8': '6abd0a83a15579069dc7',
 'reclassify|(1, 8)|float32': 'a896d7d57de41ecf378c',
 'reclassify|(1, 8)|float64': 'f6bbf65ff95e9cc5a368',
 'reclassify|(1, 8)|int16': '428f23909e7e3ec9c747',
 'reclassify|(1, 8)|int32': '7583dbadd3db706d7cc0',
 'reclassify|(1, 8)|int64': '6fb85fb82f6c6223d042',
 'reclassify|(1, 8)|int8': 'abd719223884d61e5c99',
 'reclassify|(1, 8)|uint16': '9f0bd3c76d17cd434f29',
 'reclassify|(1, 8)|uint32': '424e139c03bf5b772515',
 'reclassify|(1, 8)|uint64': '7c9a49dc95d1d11fcb1f',
 'reclassify|(1, 8)|uint8': '69ecfa32d43528028e55',
 'reclassify|(10, 6)|float32': '0e613c1946e4597c8ff5',
 'reclassify|(10, 6)|float64': '0c640662e2603823fd12',
 'reclassify|(10, 6)|int16': 'dce894838fe986f156be',
 'reclassify|(10, 6)|int32': '3a9238a98240380527b7',
 'reclassify|(10, 6)|int64': 'e0fafe8d46f325668854',
 'reclassify|(10, 6)|int8': '2243b00c51824637c8cb',
 'reclassify|(10, 6)|uint16': '436d24cac4dc533020ea',
 'reclassify|(10, 6)|uint32': '090fba745f0f4809d3d1',
 'reclassify|(10, 6)|uint64': 'eeb89f2ccd9bb46545e1',
 'reclassify|(10, 6)|uint8': 'b8a02b9065668e65be48',
 'reclassify|(2, 5)|float32': 'e6a969f7ecf038c91287',
 'reclassify|(2, 5)|float64': 'b689ad13289fb580fb18',
 'reclassify|(2, 5)|int16': 'eabe51b2fee9e1256ec2',
 'reclassify|(2, 5)|int32': '6126efde495c4423acb4',
 'reclassify|(2, 5)|int64': 'd65ed03aa01d471ccd65',
 'reclassify|(2, 5)|int8': '9dce8152d76328811e40',
 'reclassify|(2, 5)|uint16': '8a178ec504d3441ee75f',
 'reclassify|(2, 5)|uint32': '4a53a9521302df399195',
 'reclassify|(2, 5)|uint64': '7e6ae78983a16091eea7',
 'reclassify|(2, 5)|uint8': '246420dac661b43b502a',
 'reclassify|(3, 3)|float32': 'ce7cacd744bb7e0d3c3e',
 'reclassify|(3, 3)|float64': '70af93de200c51271dda',
 'reclassify|(3, 3)|int16': '907df5718d15fb6105ea',
 'reclassify|(3, 3)|int32': '7a8ce5734a39e7c8897f',
 'reclassify|(3, 3)|int64': 'f920f38f205aeb9abce8',
 'reclassify|(3, 3)|int8': '74fb18f6b02bab69dc71',
 'reclassify|(3, 3)|uint16': '2162559ac2ec5648cdab',
 'reclassify|(3, 3)|uint32': '353a94698e2e08ae2e48',
 'reclassify|(3, 3)|uint64': 'a73d70995ab1e2c574f1',
 'reclassify|(3, 3)|uint8': '8ebc39bf1e9a2d69b614',
 'reclassify|(4, 3)|float32': 'ccf1f3df703b28749c49',
 'reclassify|(4, 3)|float64': '58566adb79472ef1e506',
 'reclassify|(4, 3)|int16': '76724c9c820f2f1b3ec3',
 'reclassify|(4, 3)|int32': '561d1dad38b641d77015',
 'reclassify|(4, 3)|int64': '233b28e8964b5a618d9c',
 'reclassify|(4, 3)|int8': 'b6f09d5b404e082f0e2e',
 'reclassify|(4, 3)|uint16': '3bb6d3514dbe45c83ff2',
 'reclassify|(4, 3)|uint32': '1c21bf89d45a272bedb2',
 'reclassify|(4, 3)|uint64': 'a84947ed6e27eabf345d',
 'reclassify|(4, 3)|uint8': '0c6c187bd7ebe7daecc2',
 'reclassify|(7, 11)|float32': '80d34d8eb7b66c0922ad',
 'reclassify|(7, 11)|float64': '36f299c4c5745eecab17',
 'reclassify|(7, 11)|int16': '385609320dfff4750b05',
 'reclassify|(7, 11)|int32': 'd44dd216a97ef089870b',
 'reclassify|(7, 11)|int64': '120a42c795b6da68b244',
 'reclassify|(7, 11)|int8': '6ac50f3f244d8b30684a',
 'reclassify|(7, 11)|uint16': '3f49d2aaecc77ce15b15',
 'reclassify|(7, 11)|uint32': '0d332a2af24bea23a525',
 'reclassify|(7, 11)|uint64': 'b9556e13067ef77c05a7',
 'reclassify|(7, 11)|uint8': '529ba273a58b4729e875'}


def main():
    assert xrspatial.__file__.startswith('/tmp/seed/TC10/'), xrspatial.__file__
    results, problems = run_all()
    folded = fold(results)
    if '--record' in sys.argv:
        import pprint
        pprint.pprint(folded)
        print('n_cases', len(results), 'n_exc',
              sum(v.startswith('EXC') for v in results.values()), 'problems', problems[:5])
        return 0
    bad = [k for k in sorted(set(folded) | set(EXPECTED)) if folded.get(k) != EXPECTED.get(k)]
    for k in bad[:20]:
        print('DIFF', k, folded.get(k), EXPECTED.get(k))
    for p in problems[:20]:
        print('C10 VIOLATION', p)
    print('cases=%d groups=%d diffs=%d c10_problems=%d'
          % (len(results), len(folded), len(bad), len(problems)))
    return 1 if (bad or problems) else 0


if __name__ == '__main__':
    sys.exit(main())
