"""Differential test for xrspatial.experimental.polygonize (property C15).

Two layers:
  1. an exact digest (sha256 over column values, their types, every ring's
     dtype/shape/bytes, in order) over a fixed battery of inputs, compared with
     the digest recorded on the unmodified tree;
  2. an independent check: pure-python flood-fill labelling + point-in-ring
     re-rasterisation + shoelace areas + ring orientation.

Run from the worktree:  PYTHONPATH=<worktree> python equiv.py
`--record` prints the digest instead of comparing.
Exit 0 if identical, non-zero otherwise.
"""
import hashlib
import itertools
import sys

import numpy as np
import xarray as xr

import xrspatial
from xrspatial.experimental import polygonize

EXPECTED_DIGEST = "9b5c519ec555bfcaea3bce123f6a4f0c4ebf738700674ffee8f2a67608ab9e46"


# --------------------------------------------------------------------------
# battery of inputs
# --------------------------------------------------------------------------
def battery():
    cases = []  # (name, raster ndarray, mask ndarray or None, connectivity, transform)

    def add(name, r, m=None, transforms=(None,)):
        for conn in (4, 8):
            for t in transforms:
                cases.append((name, r, m, conn, t))

    tr_f = np.array([2.0, 0.0, 10.0, 0.0, -3.0, 50.0])
    tr_shear = np.array([1.5, 0.25, -4.0, -0.5, 2.0, 7.0])
    tr_int = [2, 0, 1, 0, 3, -5]  # python ints -> int64 array

    # exhaustive small rasters over alphabet {0,1,2}
    for shape in [(1, 1), (1, 2), (2, 1), (1, 4), (4, 1), (2, 2), (2, 3), (3, 2)]:
        n = shape[0] * shape[1]
        for k, cells in enumerate(itertools.product(range(3), repeat=n)):
            r = np.array(cells, dtype=np.int32).reshape(shape)
            add(f"exh{shape}-{k}", r)
    # exhaustive 3x3 over {0,1}, with every other one masked by a fixed pattern
    for k, cells in enumerate(itertools.product(range(2), repeat=9)):
        r = np.array(cells, dtype=np.int64).reshape(3, 3)
        add(f"exh3x3-{k}", r)
        if k % 3 == 0:
            m = np.array([(k >> b) & 1 for b in (1, 3, 4, 6, 8, 0, 2, 5, 7)],
                         dtype=bool).reshape(3, 3)
            add(f"exh3x3m-{k}", r, m)
    # exhaustive 2x2 int with all masks
    for k, cells in enumerate(itertools.product(range(2), repeat=4)):
        for mk, mc in enumerate(itertools.product((False, True), repeat=4)):
            add(f"exh2x2m-{k}-{mk}",
                np.array(cells, dtype=np.uint8).reshape(2, 2),
                np.array(mc, dtype=bool).reshape(2, 2))
    # Nx1 / 1xN with masks of several dtypes
    rng = np.random.default_rng(12345)
    for shape in [(1, 7), (7, 1), (1, 1), (5, 1), (1, 5)]:
        for dt in (np.int8, np.uint16, np.int64, np.float32, np.float64):
            r = rng.integers(0, 3, size=shape).astype(dt)
            add(f"line{shape}{np.dtype(dt).name}", r, transforms=(None, tr_f))
            for mdt in (bool, np.int32, np.float64):
                m = rng.integers(0, 2, size=shape).astype(mdt)
                add(f"linem{shape}{np.dtype(dt).name}{np.dtype(mdt).name}", r, m,
                    transforms=(None, tr_shear))
    # random larger
    for i, (shape, hi) in enumerate([((5, 6), 2), ((8, 8), 3), ((11, 7), 2),
                                     ((7, 13), 4), ((20, 17), 2), ((16, 16), 3),
                                     ((30, 25), 2), ((9, 2), 2), ((2, 9), 2)]):
        for dt in (np.int32, np.int64, np.uint8, np.float32, np.float64):
            r = rng.integers(0, hi, size=shape).astype(dt)
            add(f"rand{i}{np.dtype(dt).name}", r, transforms=(None, tr_int))
            m = rng.random(shape) > 0.25
            add(f"randm{i}{np.dtype(dt).name}", r, m, transforms=(None, tr_f))
    # floats: NaNs (never close to anything, not even themselves), inf,
    # nearly-equal values (isclose semantics), negative zero
    f = np.array([[1.0, 1.0 + 1e-7, 1.0 + 2e-5, np.nan, np.nan],
                  [1.0, 5.0, 5.00001, np.nan, 0.0],
                  [-0.0, 0.0, 1e-9, 2e-8, 0.0],
                  [np.inf, np.inf, -np.inf, 3.0, 3.0]])
    add("floatspecial64", f, transforms=(None, tr_shear))
    add("floatspecial32", f.astype(np.float32))
    add("floatspecialm", f, ~np.isnan(f), transforms=(None, tr_f))
    # nested holes
    nested = np.zeros((9, 9), dtype=np.int32)
    nested[1:8, 1:8] = 1
    nested[2:7, 2:7] = 0
    nested[3:6, 3:6] = 1
    nested[4, 4] = 2
    add("nested", nested, transforms=(None, tr_f))
    add("nestedf", nested.astype(np.float64))
    mn = np.ones((9, 9), dtype=bool)
    mn[4, 4] = False
    mn[0, :] = False
    add("nestedm", nested, mn)
    # spiral
    sp = np.zeros((11, 11), dtype=np.int64)
    # hand-rolled rectangular spiral with 1-cell gaps
    cx, cy = 0, 0
    dirs = [(1, 0), (0, 1), (-1, 0), (0, -1)]
    seg = [10, 10, 10, 8, 8, 6, 6, 4, 4, 2, 2]
    sp[0, 0] = 1
    for s_i, ln in enumerate(seg):
        ddx, ddy = dirs[s_i % 4]
        for _ in range(ln):
            cx += ddx
            cy += ddy
            sp[cy, cx] = 1
    add("spiral", sp, transforms=(None, tr_shear))
    add("spiralT", sp.T.copy())
    # diagonal pinches / checkerboards
    cb = (np.indices((6, 7)).sum(axis=0) % 2).astype(np.int32)
    add("checker", cb, transforms=(None, tr_f))
    add("checkerf", cb.astype(np.float32))
    pinch = np.array([[1, 1, 0, 0],
                      [1, 1, 0, 0],
                      [0, 0, 1, 1],
                      [0, 0, 1, 1]], dtype=np.int16)
    add("pinch", pinch)
    add("pinchflip", pinch[::-1].copy())
    diag = np.eye(7, dtype=np.int32)
    add("diag", diag)
    add("antidiag", diag[:, ::-1].copy())
    ring8 = np.array([[0, 1, 0],
                      [1, 0, 1],
                      [0, 1, 0]], dtype=np.int32)
    add("ring8", ring8)
    big = np.kron(rng.integers(0, 2, size=(6, 6)), np.ones((2, 3))).astype(np.int32)
    add("kron", big)
    # many merges: comb shapes (stress region_lookup merging and resizing)
    comb = np.zeros((40, 41), dtype=np.int32)
    comb[:, ::2] = 1
    comb[-1, :] = 1
    add("comb", comb)
    comb2 = np.zeros((6, 200), dtype=np.int32)
    comb2[:, ::2] = 1
    comb2[-1, :] = 1
    add("comb2", comb2)
    stair = np.zeros((30, 30), dtype=np.int32)
    for k in range(30):
        stair[k, : k + 1] = k % 2
    add("stair", stair)
    # non-contiguous inputs
    base = rng.integers(0, 3, size=(12, 14)).astype(np.int32)
    add("strided", base[::2, ::3])
    add("fortran", np.asfortranarray(base))
    return cases


# --------------------------------------------------------------------------
# digest
# --------------------------------------------------------------------------
def run(r, m, conn, t):
    raster = xr.DataArray(r)
    mask = None if m is None else xr.DataArray(m)
    return polygonize(raster, mask=mask, connectivity=conn, transform=t)


def feed(h, name, conn, t, column, polys):
    h.update(f"{name}|{conn}|{None if t is None else list(map(float, t))}|".encode())
    h.update(f"{type(column).__name__}|{len(column)}|{type(polys).__name__}|".encode())
    for v in column:
        h.update(f"{type(v).__name__}:{np.asarray(v).dtype.str}:".encode())
        h.update(np.asarray(v).tobytes())
    for rings in polys:
        h.update(f"[{type(rings).__name__}{len(rings)}".encode())
        for ring in rings:
            h.update(f"({ring.dtype.str}{ring.shape}".encode())
            h.update(np.ascontiguousarray(ring).tobytes())


# --------------------------------------------------------------------------
# independent check
# --------------------------------------------------------------------------
def flood_labels(r, m, conn):
    ny, nx = r.shape
    lab = -np.ones((ny, nx), dtype=int)
    if conn == 4:
        nb = [(1, 0), (-1, 0), (0, 1), (0, -1)]
    else:
        nb = [(a, b) for a in (-1, 0, 1) for b in (-1, 0, 1) if (a, b) != (0, 0)]
    k = 0
    for j in range(ny):
        for i in range(nx):
            if lab[j, i] >= 0 or (m is not None and not m[j, i]):
                continue
            stack = [(j, i)]
            lab[j, i] = k
            while stack:
                a, b = stack.pop()
                for da, db in nb:
                    c, d = a + da, b + db
                    if (0 <= c < ny and 0 <= d < nx and lab[c, d] < 0
                            and (m is None or m[c, d]) and r[c, d] == r[a, b]):
                        lab[c, d] = k
                        stack.append((c, d))
            k += 1
    return lab, k


def shoelace(ring):
    x, y = ring[:, 0], ring[:, 1]
    return 0.5 * float(np.sum(x[:-1] * y[1:] - x[1:] * y[:-1]))


def inside(ring, px, py):
    c = False
    for (x0, y0), (x1, y1) in zip(ring[:-1], ring[1:]):
        if (y0 > py) != (y1 > py):
            if px < x0 + (py - y0) * (x1 - x0) / (y1 - y0):
                c = not c
    return c


def independent_check(name, r, m, conn, column, polys):
    ny, nx = r.shape
    lab, k = flood_labels(r, m, conn)
    assert len(column) == len(polys) == k, (name, conn, len(column), k)
    owner = -np.ones((ny, nx), dtype=int)
    for p, rings in enumerate(polys):
        ext, holes = rings[0], rings[1:]
        for ring in rings:
            assert ring.dtype == np.float64 and ring.ndim == 2 and ring.shape[1] == 2
            assert np.array_equal(ring[0], ring[-1]), (name, "not closed")
            assert np.array_equal(ring, np.round(ring)), (name, "off-corner")
            d = np.abs(np.diff(ring, axis=0))
            assert np.all((d[:, 0] == 0) != (d[:, 1] == 0)), (name, "edge")
            assert ring[:, 0].min() >= 0 and ring[:, 0].max() <= nx
            assert ring[:, 1].min() >= 0 and ring[:, 1].max() <= ny
        a = shoelace(ext)
        assert a > 0, (name, "exterior not ccw")
        for hring in holes:
            ah = shoelace(hring)
            assert ah < 0, (name, "hole not cw")
            a += ah
        count = 0
        for j in range(ny):
            for i in range(nx):
                if inside(ext, i + 0.5, j + 0.5) and not any(
                        inside(hh, i + 0.5, j + 0.5) for hh in holes):
                    assert owner[j, i] == -1, (name, "cell in two polygons")
                    owner[j, i] = p
                    count += 1
                    assert m is None or m[j, i], (name, "masked cell covered")
                    assert r[j, i] == column[p], (name, "value mismatch")
        assert count == a, (name, conn, "area", count, a)
    for j in range(ny):
        for i in range(nx):
            if m is None or m[j, i]:
                assert owner[j, i] >= 0, (name, "cell uncovered")
    # polygons <-> flood-fill components is a bijection
    pairs = {(owner[j, i], lab[j, i]) for j in range(ny) for i in range(nx)
             if owner[j, i] >= 0}
    assert len(pairs) == k, (name, "components differ")


def main():
    record = "--record" in sys.argv
    print("xrspatial from", xrspatial.__file__)
    h = hashlib.sha256()
    ncase = 0
    nind = 0
    for name, r, m, conn, t in battery():
        column, polys = run(r, m, conn, t)
        feed(h, name, conn, t, column, polys)
        ncase += 1
        # transform must equal the untransformed result mapped through the
        # affine map, evaluated in the documented order.
        if t is not None:
            c0, p0 = run(r, m, conn, None)
            ta = np.asarray(t)
            assert len(c0) == len(column)
            for rings0, rings1 in zip(p0, polys):
                assert len(rings0) == len(rings1)
                for a, b in zip(rings0, rings1):
                    ex = ta[0] * a[:, 0] + ta[1] * a[:, 1] + ta[2]
                    ey = ta[3] * a[:, 0] + ta[4] * a[:, 1] + ta[5]
                    assert np.array_equal(b[:, 0], ex) and np.array_equal(b[:, 1], ey), name
        # independent re-rasterisation (skip special floats: isclose semantics
        # are covered by the digest only) and very large cases for speed.
        if (t is None and not name.startswith("floatspecial")
                and r.size <= 300):
            independent_check(name, r, m, conn, column, polys)
            nind += 1

    # error behaviour is part of the public contract too
    errs = []
    for kwargs, exc in [
        (dict(raster=xr.DataArray(np.zeros((2, 2, 2)))), ValueError),
        (dict(raster=xr.DataArray(np.zeros((0, 2)))), ValueError),
        (dict(raster=xr.DataArray(np.zeros((2, 2))), connectivity=6), ValueError),
        (dict(raster=xr.DataArray(np.zeros((2, 2))), transform=[1, 2, 3]), ValueError),
        (dict(raster=xr.DataArray(np.zeros((2, 2))), return_type="nope"), ValueError),
        (dict(raster=xr.DataArray(np.zeros((2, 2))),
              mask=xr.DataArray(np.ones((2, 3), dtype=bool))), ValueError),
    ]:
        try:
            polygonize(**kwargs)
            errs.append("noraise")
        except exc as e:
            errs.append(f"{type(e).__name__}:{e}")
    try:
        import dask.array as da
        try:
            polygonize(xr.DataArray(da.zeros((4, 4), chunks=2)))
            errs.append("noraise")
        except TypeError as e:
            errs.append(f"{type(e).__name__}:{e}")
        try:
            polygonize(xr.DataArray(np.zeros((4, 4))),
                       mask=xr.DataArray(da.ones((4, 4), chunks=2)))
            errs.append("noraise")
        except TypeError as e:
            errs.append(f"{type(e).__name__}:{e}")
    except ImportError:
        errs.append("nodask")
    h.update("|".join(errs).encode())

    digest = h.hexdigest()
    print(f"{ncase} cases, {nind} independently re-rasterised, digest {digest}")
    if record:
        return 0
    if digest != EXPECTED_DIGEST:
        print("DIGEST MISMATCH: expected", EXPECTED_DIGEST)
        return 1
    print("OK")
    return 0


if __name__ == "__main__":
    sys.exit(main())
