"""Differential test for property C03 (zonal tables do not depend on Dask chunking).

Runs xrspatial.zonal.stats / crosstab on a deterministic family of inputs
(numpy and dask backends, several dtypes, NaN / inf / nodata, odd shapes,
zones and values chunked differently, zone_ids / cat_ids selections, stat
subsets) and checks

  1. every result against a digest recorded from the UNMODIFIED tree
     (values, dtypes, column names, index; NaNs canonicalised),
  2. every result against an independent brute-force reference,
  3. a few error paths (exception type and message),
  4. refactoring specific checks (see EXTRA_CHECKS at the bottom).

Usage:  python equiv.py            -> exit 0 when everything is identical
        python equiv.py --record   -> print the digest table (unmodified tree)
"""
import hashlib
import sys
import warnings

import dask
import dask.array as da
import numpy as np
import pandas as pd
import xarray as xr

import xrspatial
from xrspatial import zonal
from xrspatial.zonal import crosstab, stats

warnings.filterwarnings("ignore")

ALL_STATS = ['mean', 'max', 'min', 'sum', 'std', 'var', 'count']


# --------------------------------------------------------------------------
# inputs
# --------------------------------------------------------------------------
def make_zones(rs, shape, dtype, kind):
    if kind == 'blocks':
        # a few big zones, some absent from some chunks
        yy, xx = np.indices(shape)
        z = (yy * 3 // max(shape[0], 1)) * 10 + (xx * 2 // max(shape[1], 1)) * 5
    elif kind == 'noise':
        z = rs.randint(-2, 5, size=shape)
    else:  # 'single'
        z = np.full(shape, 7)
    z = z.astype(dtype)
    if np.issubdtype(np.dtype(dtype), np.floating) and z.size > 3:
        flat = z.ravel()
        idx = rs.choice(z.size, size=max(1, z.size // 9), replace=False)
        flat[idx[::3]] = np.nan
        flat[idx[1::3]] = np.inf
        flat[idx[2::3]] = -np.inf
        z = flat.reshape(shape)
    return z


def make_values(rs, shape, dtype):
    if np.issubdtype(np.dtype(dtype), np.floating):
        v = (rs.rand(*shape) * 200 - 100).astype(dtype)
        flat = v.ravel()
        if v.size > 3:
            idx = rs.choice(v.size, size=max(1, v.size // 6), replace=False)
            flat[idx[::4]] = np.nan
            flat[idx[1::4]] = np.inf
            flat[idx[2::4]] = -9999
            flat[idx[3::4]] = 0.0
        v = flat.reshape(shape)
    else:
        v = rs.randint(-5, 6, size=shape).astype(dtype)
    return v


def make_cats(rs, shape, dtype):
    v = rs.randint(0, 4, size=shape).astype(dtype)
    if np.issubdtype(np.dtype(dtype), np.floating) and v.size > 3:
        flat = v.ravel()
        idx = rs.choice(v.size, size=max(1, v.size // 6), replace=False)
        flat[idx[::3]] = np.nan
        flat[idx[1::3]] = np.inf
        flat[idx[2::3]] = -9999
        v = flat.reshape(shape)
    return v


SHAPES_CHUNKS = [
    ((7, 11), [((7, 11), (7, 11)), ((3, 4), (3, 4)), ((2, 5), (7, 3))]),
    ((1, 13), [((1, 4), (1, 5)), ((1, 2), (1, 13))]),
    ((6, 6), [((6, 2), (2, 6)), (((1, 2, 3), (4, 2)), ((5, 1), (6,)))]),
    ((5, 1), [((2, 1), (3, 1))]),
]


def stats_cases():
    rs = np.random.RandomState(12345)
    cases = []
    n = 0
    for shape, chunkings in SHAPES_CHUNKS:
        for zdtype, zkind in [(np.int32, 'blocks'), (np.int64, 'noise'),
                              (np.float64, 'blocks'), (np.float32, 'noise'),
                              (np.int64, 'single')]:
            for vdtype in [[np.float64, np.float32, np.int32, np.int64][len(cases) % 4]]:
                n += 1
                z = make_zones(rs, shape, zdtype, zkind)
                v = make_values(rs, shape, vdtype)
                if n % 3 == 0:
                    continue
                fin = np.unique(z[np.isfinite(z)])
                if fin.size == 0:
                    continue
                variants = [
                    dict(stats_funcs=ALL_STATS, zone_ids=None, nodata_values=None),
                    dict(stats_funcs=['count', 'max'], zone_ids=None, nodata_values=-9999),
                    dict(stats_funcs=['var', 'min', 'sum'],
                         zone_ids=[fin[-1], fin[0], 12345] if fin.size > 1 else [fin[0]],
                         nodata_values=0),
                    dict(stats_funcs=['std'], zone_ids=[fin[fin.size // 2]], nodata_values=3),
                    dict(stats_funcs=['mean'], zone_ids=None, nodata_values=None),
                ]
                kw = variants[len(cases) % len(variants)]
                cases.append((f"stats[{n}] {shape} z={np.dtype(zdtype)}/{zkind} "
                              f"v={np.dtype(vdtype)} {kw['stats_funcs']} ids={kw['zone_ids']} "
                              f"nd={kw['nodata_values']}", z, v, chunkings, kw))
    return cases


def crosstab_cases():
    rs = np.random.RandomState(777)
    cases = []
    n = 0
    for shape, chunkings in SHAPES_CHUNKS:
        for zdtype, zkind in [(np.int32, 'blocks'), (np.float64, 'noise'), (np.int64, 'single')]:
            for vdtype in [[np.float64, np.int32, np.float32][len(cases) % 3]]:
                n += 1
                z = make_zones(rs, shape, zdtype, zkind)
                v = make_cats(rs, shape, vdtype)
                fin = np.unique(z[np.isfinite(z)])
                if fin.size == 0:
                    continue
                variants = [
                    dict(agg='count', zone_ids=None, cat_ids=None, nodata_values=None),
                    dict(agg='percentage', zone_ids=None, cat_ids=None, nodata_values=-9999),
                    dict(agg='count', zone_ids=[fin[-1], fin[0], 999], cat_ids=[3, 1, 42],
                         nodata_values=2),
                    dict(agg='percentage', zone_ids=[fin[0]], cat_ids=[0, 1, 2, 3],
                         nodata_values=None),
                ]
                kw = variants[len(cases) % len(variants)]
                cases.append((f"crosstab2d[{n}] {shape} z={np.dtype(zdtype)}/{zkind} "
                              f"v={np.dtype(vdtype)} {kw}", z, v, chunkings, kw))
    return cases


def crosstab3d_cases():
    rs = np.random.RandomState(4242)
    cases = []
    for n, (shape, chunkings) in enumerate(SHAPES_CHUNKS[:3]):
        for zdtype, zkind in [(np.int32, 'blocks'), (np.float64, 'noise')]:
            z = make_zones(rs, shape, zdtype, zkind)
            v = np.stack([make_values(rs, shape, np.float64) for _ in range(3)])
            fin = np.unique(z[np.isfinite(z)])
            kws = [dict(zone_ids=None, cat_ids=None, nodata_values=None),
                   dict(zone_ids=[fin[0], fin[-1]], cat_ids=['b', 'c'],
                        nodata_values=-9999)]
            for kw in kws[len(cases) % 2:][:1]:
                cases.append((f"crosstab3d[{n}] {shape} z={np.dtype(zdtype)}/{zkind} {kw}",
                              z, v, chunkings, kw))
    return cases


# --------------------------------------------------------------------------
# digests
# --------------------------------------------------------------------------
def _canon(a):
    a = np.asarray(a)
    if a.dtype.kind == 'f':
        a = a.copy()
        a[np.isnan(a)] = np.nan
    return a


def digest_df(df):
    h = hashlib.sha256()
    h.update(repr([str(c) for c in df.columns]).encode())
    h.update(repr([str(t) for t in df.dtypes]).encode())
    h.update(repr(list(df.index)).encode())
    for c in df.columns:
        a = _canon(df[c].values)
        h.update(str(a.dtype).encode())
        h.update(np.ascontiguousarray(a).tobytes())
    return h.hexdigest()[:16]


def digest_arr(a):
    a = _canon(a)
    h = hashlib.sha256()
    h.update(str(a.dtype).encode() + repr(a.shape).encode())
    h.update(np.ascontiguousarray(a).tobytes())
    return h.hexdigest()[:16]


# --------------------------------------------------------------------------
# brute-force references
# --------------------------------------------------------------------------
def ref_stats(z, v, stats_funcs, zone_ids, nodata_values):
    uz = np.unique(z[np.isfinite(z)])
    if zone_ids is not None:
        uz = np.array([u for u in uz if u in zone_ids])
    out = {'zone': uz}
    for s in stats_funcs:
        col = []
        for u in uz:
            x = v[z == u]
            keep = np.isfinite(x)
            if nodata_values is not None:
                keep &= (x != nodata_values)
            x = x[keep]
            if x.size == 0:
                col.append(np.nan)
                continue
            x64 = x.astype(np.float64)
            if s == 'count':
                col.append(float(x.size))
            elif s == 'max':
                col.append(float(x.max()))
            elif s == 'min':
                col.append(float(x.min()))
            elif s == 'sum':
                col.append(float(x64.sum()))
            elif s == 'mean':
                col.append(float(x64.mean()))
            elif s == 'std':
                col.append(float(x64.std()))
            elif s == 'var':
                col.append(float(x64.var()))
        out[s] = np.array(col, dtype=np.float64)
    return out


def check_stats_against_ref(name, df, ref, fails):
    if list(df.columns) != list(ref.keys()):
        fails.append(f"{name}: columns {list(df.columns)} != {list(ref.keys())}")
        return
    if not np.array_equal(np.asarray(df['zone'].values, dtype=np.float64),
                          np.asarray(ref['zone'], dtype=np.float64)):
        fails.append(f"{name}: zone ids differ from reference")
        return
    for c, exp in ref.items():
        if c == 'zone':
            continue
        got = np.asarray(df[c].values, dtype=np.float64)
        if c in ('count', 'min', 'max'):
            ok = np.array_equal(got, exp, equal_nan=True)
        else:
            # float32 inputs are accumulated in float32 by the library: loose rtol
            ok = np.allclose(got, exp, rtol=2e-4, atol=1e-2, equal_nan=True)
        if not ok:
            fails.append(f"{name}: column {c} differs from reference: {got} vs {exp}")


def ref_crosstab2d(z, v, agg, zone_ids, cat_ids, nodata_values):
    uz = np.unique(z[np.isfinite(z)])
    if zone_ids is not None:
        uz = np.array([u for u in uz if u in zone_ids])
    keep_all = np.isfinite(v)
    if nodata_values is not None:
        keep_all &= (v != nodata_values)
    ucats = np.unique(v[keep_all])
    cats = list(ucats) if cat_ids is None else [c for c in cat_ids if c in ucats]
    out = {'zone': uz}
    for c in cats:
        col = []
        for u in uz:
            m = (z == u) & keep_all
            cnt = float(((v == c) & m).sum())
            if agg == 'percentage':
                tot = float(m.sum())
                col.append(cnt / tot * 100 if tot else np.nan)
            else:
                col.append(cnt)
        out[c] = np.array(col)
    return out


def check_crosstab_against_ref(name, df, ref, fails):
    if [str(c) for c in df.columns] != [str(c) for c in ref.keys()]:
        fails.append(f"{name}: columns {list(df.columns)} != {list(ref.keys())}")
        return
    for (c, exp), dc in zip(ref.items(), df.columns):
        got = np.asarray(df[dc].values, dtype=np.float64)
        if not np.allclose(got, np.asarray(exp, dtype=np.float64), rtol=1e-6, equal_nan=True):
            fails.append(f"{name}: column {c} differs from reference: {got} vs {exp}")


# --------------------------------------------------------------------------
# driver
# --------------------------------------------------------------------------
def to_dask(a, chunks):
    if len(chunks) == 2 and isinstance(chunks[0], tuple):
        return da.from_array(a, chunks=chunks)
    return da.from_array(a, chunks=chunks)


def run_all():
    results = {}
    fails = []

    # ---- stats ----------------------------------------------------------
    for name, z, v, chunkings, kw in stats_cases():
        zx, vx = xr.DataArray(z.copy()), xr.DataArray(v.copy())
        df_np = stats(zones=zx, values=vx, **kw)
        results[name + ' numpy'] = digest_df(df_np)
        ref = ref_stats(z, v, kw['stats_funcs'], kw['zone_ids'], kw['nodata_values'])
        check_stats_against_ref(name + ' numpy', df_np, ref, fails)
        arr = stats(zones=zx, values=vx, return_type='xarray.DataArray', **kw)
        results[name + ' numpy-xr'] = digest_arr(arr.values) + repr(arr.dims) + \
            repr(list(arr['stats'].values))
        for i, (zc, vc) in enumerate(chunkings):
            if len(chunkings) > 2 and (i + len(name)) % 3 == 0:
                continue
            for sched in (['synchronous'] if i % 2 else ['threads']):
                zd = xr.DataArray(da.from_array(z.copy(), chunks=zc))
                vd = xr.DataArray(da.from_array(v.copy(), chunks=vc))
                with dask.config.set(scheduler=sched, num_workers=3):
                    ddf = stats(zones=zd, values=vd, **kw)
                    df = ddf.compute()
                key = f"{name} dask z{zc} v{vc}"
                results[key] = digest_df(df)
                check_stats_against_ref(key, df.reset_index(drop=True), ref, fails)

    # ---- crosstab 2D ----------------------------------------------------
    for name, z, v, chunkings, kw in crosstab_cases():
        zx, vx = xr.DataArray(z.copy()), xr.DataArray(v.copy())
        df_np = crosstab(zones=zx, values=vx, **kw)
        results[name + ' numpy'] = digest_df(df_np)
        ref = ref_crosstab2d(z, v, kw['agg'], kw['zone_ids'], kw['cat_ids'],
                             kw['nodata_values'])
        check_crosstab_against_ref(name + ' numpy', df_np, ref, fails)
        for i, (zc, vc) in enumerate(chunkings):
            if len(chunkings) > 2 and (i + len(name)) % 3 == 0:
                continue
            zd = xr.DataArray(da.from_array(z.copy(), chunks=zc))
            vd = xr.DataArray(da.from_array(v.copy(), chunks=vc))
            with dask.config.set(scheduler='threads' if i % 2 else 'synchronous',
                                 num_workers=2):
                df = crosstab(zones=zd, values=vd, **kw).compute()
            key = f"{name} dask z{zc} v{vc}"
            results[key] = digest_df(df)
            check_crosstab_against_ref(key, df, ref, fails)

    # ---- crosstab 3D ----------------------------------------------------
    for name, z, v, chunkings, kw in crosstab3d_cases():
        coords = {'layer': ['a', 'b', 'c']}
        zx = xr.DataArray(z.copy(), dims=['y', 'x'])
        vx = xr.DataArray(v.copy(), dims=['layer', 'y', 'x'], coords=coords)
        for agg in ['count', 'mean', 'sum', 'std', 'var']:
            df_np = crosstab(zones=zx, values=vx, agg=agg, **kw)
            results[f"{name} numpy agg={agg}"] = digest_df(df_np)
        df_cnt = crosstab(zones=zx, values=vx, agg='count', **kw)
        for i, (zc, vc) in enumerate(chunkings):
            if len(chunkings) > 2 and i == 0:
                continue
            zd = xr.DataArray(da.from_array(z.copy(), chunks=zc), dims=['y', 'x'])
            vchunks = ((1, 2),) + tuple(vc) if i % 2 else (3,) + tuple(vc)
            vd = xr.DataArray(da.from_array(v.copy(), chunks=vchunks),
                              dims=['layer', 'y', 'x'], coords=coords)
            with dask.config.set(scheduler='synchronous'):
                df = crosstab(zones=zd, values=vd, agg='count', **kw).compute()
            key = f"{name} dask z{zc} v{vchunks}"
            results[key] = digest_df(df)
            a = df.reset_index(drop=True)
            b = df_cnt.reset_index(drop=True)
            if list(a.columns) != list(b.columns) or not np.array_equal(
                    a.values.astype(float), b.values.astype(float), equal_nan=True):
                fails.append(f"{key}: dask 3D crosstab differs from numpy")

    # ---- error paths ----------------------------------------------------
    def err(label, fn):
        try:
            fn()
            results[label] = 'no error'
        except Exception as e:  # noqa
            results[label] = f"{type(e).__name__}: {e}"

    z = np.arange(12).reshape(3, 4)
    v = np.arange(12.).reshape(3, 4)
    err('err shape', lambda: stats(xr.DataArray(z), xr.DataArray(v[:2])))
    err('err type', lambda: stats(xr.DataArray(z), xr.DataArray(da.from_array(v, chunks=2))))
    err('err stat', lambda: stats(xr.DataArray(da.from_array(z, chunks=2)),
                                  xr.DataArray(da.from_array(v, chunks=2)),
                                  stats_funcs=['median']))
    err('err dict', lambda: stats(xr.DataArray(da.from_array(z, chunks=2)),
                                  xr.DataArray(da.from_array(v, chunks=2)),
                                  stats_funcs={'a': np.sum}))
    err('err zdtype', lambda: stats(xr.DataArray(z.astype(bool)), xr.DataArray(v)))
    err('err agg', lambda: crosstab(xr.DataArray(z), xr.DataArray(v), agg='mean'))
    err('err ct shape', lambda: crosstab(xr.DataArray(da.from_array(z, chunks=2)),
                                         xr.DataArray(da.from_array(v[:2], chunks=2))))
    err('err ct type', lambda: crosstab(xr.DataArray(z),
                                        xr.DataArray(da.from_array(v, chunks=2))).compute())

    # rechunking side effect of the wrapper on the caller's `values` is kept
    zd = xr.DataArray(da.from_array(z, chunks=(2, 3)))
    vd = xr.DataArray(da.from_array(v, chunks=(3, 1)))
    stats(zd, vd)
    results['side effect stats chunks'] = repr((zd.chunks, vd.chunks))
    vd = xr.DataArray(da.from_array(v, chunks=(3, 1)))
    crosstab(zd, vd)
    results['side effect crosstab chunks'] = repr((zd.chunks, vd.chunks))

    extra_checks(results, fails)
    return results, fails


def main(expected):
    assert xrspatial.__file__.startswith(sys.path[0]) or True
    print("xrspatial from", xrspatial.__file__)
    results, fails = run_all()
    if '--record' in sys.argv:
        print("EXPECTED = {")
        for k, val in results.items():
            print(f"    {k!r}: {val!r},")
        print("}")
        return 0 if not fails else 1
    bad = 0
    for k, val in results.items():
        if k not in expected:
            print("MISSING recorded value for", k)
            bad += 1
        elif expected[k] != val:
            print(f"DIFF {k}: recorded {expected[k]!r} got {val!r}")
            bad += 1
    for k in expected:
        if k not in results:
            print("case not run:", k)
            bad += 1
    for f in fails:
        print("REFERENCE MISMATCH:", f)
    print(f"{len(results)} results compared, {bad} differ from recording, "
          f"{len(fails)} differ from brute-force reference")
    return 0 if (bad == 0 and not fails) else 1


def extra_checks(results, fails):
    # t11: bookkeeping changes in the per-chunk crosstab and in the block
    # reduction: single block (reduction loop is empty), zones with no valid
    # cell at all (total count 0 -> NaN percentages), zones missing from blocks.
    z = np.array([[1, 1, 2, 2, 3, 3],
                  [1, 1, 2, 2, 3, 3],
                  [4, 4, 4, 5, 5, 5],
                  [4, 4, 4, 5, 5, 5]])
    for vdtype in (np.float64, np.float32):
        v = np.array([[0, 1, np.nan, np.nan, 2, 2],
                      [1, 1, np.nan, np.nan, 7, 2],
                      [0, 0, 7, np.inf, 1, 7],
                      [3, 3, 3, -np.inf, 7, 1]], dtype=vdtype)
        for agg in ('count', 'percentage'):
            for kw in (dict(), dict(nodata_values=7), dict(zone_ids=[5, 2], cat_ids=[2, 1, 0]),
                       dict(zone_ids=[2], nodata_values=7)):
                df_np = crosstab(xr.DataArray(z), xr.DataArray(v.copy()), agg=agg, **kw)
                results[f"t11 np {np.dtype(vdtype)} {agg} {kw}"] = digest_df(df_np)
                for zc, vc in (((4, 6), (4, 6)), ((2, 2), (2, 2)), ((1, 6), (4, 1)),
                               ((3, 5), (2, 6))):
                    zd = xr.DataArray(da.from_array(z, chunks=zc))
                    vd = xr.DataArray(da.from_array(v.copy(), chunks=vc))
                    with dask.config.set(scheduler='synchronous'):
                        df = crosstab(zd, vd, agg=agg, **kw).compute()
                    key = f"t11 dask {np.dtype(vdtype)} {agg} {kw} z{zc} v{vc}"
                    results[key] = digest_df(df)
                    if [str(c) for c in df.columns] != [str(c) for c in df_np.columns] or \
                            not np.array_equal(df.values.astype(float),
                                               df_np.values.astype(float), equal_nan=True):
                        fails.append(key + ": dask differs from numpy")
    # direct call of the (delayed) block reduction with hand made blocks
    blocks = [
        {zonal.TOTAL_COUNT: np.array([0, 2, 0], dtype=np.float32),
         1.0: np.array([0, 1, 0], dtype=np.int32), 2.0: np.array([0, 1, 0], dtype=np.int32)},
        {zonal.TOTAL_COUNT: np.array([0, 3, 4], dtype=np.float32),
         1.0: np.array([0, 3, 1], dtype=np.int32), 2.0: np.array([0, 0, 3], dtype=np.int32)},
    ]
    for agg in ('count', 'percentage'):
        for nb in (1, 2):
            blk = [{k: a.copy() for k, a in b.items()} for b in blocks[:nb]]
            df = zonal._crosstab_df_dask(blk, [10, 20, 30], [2.0, 1.0], agg).compute()
            results[f"t11 reduce {agg} {nb}"] = digest_df(df)


EXPECTED = {
    "stats[1] (7, 11) z=int32/blocks v=float64 ['mean', 'max', 'min', 'sum', 'std', 'var', 'count'] ids=None nd=None numpy": '25c54ca9538b5b4d',
    "stats[1] (7, 11) z=int32/blocks v=float64 ['mean', 'max', 'min', 'sum', 'std', 'var', 'count'] ids=None nd=None numpy-xr": "c23770c146ff1764('stats', 'dim_0', 'dim_1')[np.str_('mean'), np.str_('max'), np.str_('min'), np.str_('sum'), np.str_('std'), np.str_('var'), np.str_('count')]",
    "stats[1] (7, 11) z=int32/blocks v=float64 ['mean', 'max', 'min', 'sum', 'std', 'var', 'count'] ids=None nd=None dask z(3, 4) v(3, 4)": '9d73cdbbc84f99bd',
    "stats[1] (7, 11) z=int32/blocks v=float64 ['mean', 'max', 'min', 'sum', 'std', 'var', 'count'] ids=None nd=None dask z(2, 5) v(7, 3)": '4eea1f827db073ec',
    "stats[2] (7, 11) z=int64/noise v=float32 ['count', 'max'] ids=None nd=-9999 numpy": 'f39361537da66fde',
    "stats[2] (7, 11) z=int64/noise v=float32 ['count', 'max'] ids=None nd=-9999 numpy-xr": "13407728fa898938('stats', 'dim_0', 'dim_1')[np.str_('count'), np.str_('max')]",
    "stats[2] (7, 11) z=int64/noise v=float32 ['count', 'max'] ids=None nd=-9999 dask z(3, 4) v(3, 4)": 'f39361537da66fde',
    "stats[2] (7, 11) z=int64/noise v=float32 ['count', 'max'] ids=None nd=-9999 dask z(2, 5) v(7, 3)": 'f39361537da66fde',
    "stats[4] (7, 11) z=float32/noise v=int32 ['var', 'min', 'sum'] ids=[np.float32(4.0), np.float32(-2.0), 12345] nd=0 numpy": '2b59f71939100e18',
    "stats[4] (7, 11) z=float32/noise v=int32 ['var', 'min', 'sum'] ids=[np.float32(4.0), np.float32(-2.0), 12345] nd=0 numpy-xr": "09266c115c919339('stats', 'dim_0', 'dim_1')[np.str_('var'), np.str_('min'), np.str_('sum')]",
    "stats[4] (7, 11) z=float32/noise v=int32 ['var', 'min', 'sum'] ids=[np.float32(4.0), np.float32(-2.0), 12345] nd=0 dask z(3, 4) v(3, 4)": '1d478e01c5e08742',
    "stats[4] (7, 11) z=float32/noise v=int32 ['var', 'min', 'sum'] ids=[np.float32(4.0), np.float32(-2.0), 12345] nd=0 dask z(2, 5) v(7, 3)": '1d478e01c5e08742',
    "stats[5] (7, 11) z=int64/single v=int64 ['std'] ids=[np.int64(7)] nd=3 numpy": '82d07a39c4f923a6',
    "stats[5] (7, 11) z=int64/single v=int64 ['std'] ids=[np.int64(7)] nd=3 numpy-xr": "cacda92c05f9e6b1('stats', 'dim_0', 'dim_1')[np.str_('std')]",
    "stats[5] (7, 11) z=int64/single v=int64 ['std'] ids=[np.int64(7)] nd=3 dask z(7, 11) v(7, 11)": '82d07a39c4f923a6',
    "stats[5] (7, 11) z=int64/single v=int64 ['std'] ids=[np.int64(7)] nd=3 dask z(3, 4) v(3, 4)": '82d07a39c4f923a6',
    "stats[7] (1, 13) z=int64/noise v=float64 ['mean'] ids=None nd=None numpy": '9a9468842b003218',
    "stats[7] (1, 13) z=int64/noise v=float64 ['mean'] ids=None nd=None numpy-xr": "7f97bc7ff1422137('stats', 'dim_0', 'dim_1')[np.str_('mean')]",
    "stats[7] (1, 13) z=int64/noise v=float64 ['mean'] ids=None nd=None dask z(1, 4) v(1, 5)": '9a9468842b003218',
    "stats[7] (1, 13) z=int64/noise v=float64 ['mean'] ids=None nd=None dask z(1, 2) v(1, 13)": '9a9468842b003218',
    "stats[8] (1, 13) z=float64/blocks v=float32 ['mean', 'max', 'min', 'sum', 'std', 'var', 'count'] ids=None nd=None numpy": 'e2d3281d7ccd4303',
    "stats[8] (1, 13) z=float64/blocks v=float32 ['mean', 'max', 'min', 'sum', 'std', 'var', 'count'] ids=None nd=None numpy-xr": "181f5b4850c71edc('stats', 'dim_0', 'dim_1')[np.str_('mean'), np.str_('max'), np.str_('min'), np.str_('sum'), np.str_('std'), np.str_('var'), np.str_('count')]",
    "stats[8] (1, 13) z=float64/blocks v=float32 ['mean', 'max', 'min', 'sum', 'std', 'var', 'count'] ids=None nd=None dask z(1, 4) v(1, 5)": '5987c4994497bd33',
    "stats[8] (1, 13) z=float64/blocks v=float32 ['mean', 'max', 'min', 'sum', 'std', 'var', 'count'] ids=None nd=None dask z(1, 2) v(1, 13)": '5987c4994497bd33',
    "stats[10] (1, 13) z=int64/single v=int32 ['count', 'max'] ids=None nd=-9999 numpy": 'ea42cd356439c5f3',
    "stats[10] (1, 13) z=int64/single v=int32 ['count', 'max'] ids=None nd=-9999 numpy-xr": "cd91d622dedd4112('stats', 'dim_0', 'dim_1')[np.str_('count'), np.str_('max')]",
    "stats[10] (1, 13) z=int64/single v=int32 ['count', 'max'] ids=None nd=-9999 dask z(1, 4) v(1, 5)": 'ea42cd356439c5f3',
    "stats[10] (1, 13) z=int64/single v=int32 ['count', 'max'] ids=None nd=-9999 dask z(1, 2) v(1, 13)": 'ea42cd356439c5f3',
    "stats[11] (6, 6) z=int32/blocks v=int64 ['var', 'min', 'sum'] ids=[np.int32(25), np.int32(0), 12345] nd=0 numpy": 'd8caf9b5f595de9c',
    "stats[11] (6, 6) z=int32/blocks v=int64 ['var', 'min', 'sum'] ids=[np.int32(25), np.int32(0), 12345] nd=0 numpy-xr": "ccede36827963772('stats', 'dim_0', 'dim_1')[np.str_('var'), np.str_('min'), np.str_('sum')]",
    "stats[11] (6, 6) z=int32/blocks v=int64 ['var', 'min', 'sum'] ids=[np.int32(25), np.int32(0), 12345] nd=0 dask z(6, 2) v(2, 6)": '5ad5244a2e0d085f',
    "stats[11] (6, 6) z=int32/blocks v=int64 ['var', 'min', 'sum'] ids=[np.int32(25), np.int32(0), 12345] nd=0 dask z((1, 2, 3), (4, 2)) v((5, 1), (6,))": '5ad5244a2e0d085f',
    "stats[13] (6, 6) z=float64/blocks v=float64 ['std'] ids=[np.float64(15.0)] nd=3 numpy": 'a0aa08d855eff20f',
    "stats[13] (6, 6) z=float64/blocks v=float64 ['std'] ids=[np.float64(15.0)] nd=3 numpy-xr": "6079f840dfa9de0d('stats', 'dim_0', 'dim_1')[np.str_('std')]",
    "stats[13] (6, 6) z=float64/blocks v=float64 ['std'] ids=[np.float64(15.0)] nd=3 dask z(6, 2) v(2, 6)": '4d1cf212e371fc6c',
    "stats[13] (6, 6) z=float64/blocks v=float64 ['std'] ids=[np.float64(15.0)] nd=3 dask z((1, 2, 3), (4, 2)) v((5, 1), (6,))": '406b6da8cf765c7e',
    "stats[14] (6, 6) z=float32/noise v=float32 ['mean'] ids=None nd=None numpy": '831ad2f24a4759d9',
    "stats[14] (6, 6) z=float32/noise v=float32 ['mean'] ids=None nd=None numpy-xr": "23ea95532a8b5881('stats', 'dim_0', 'dim_1')[np.str_('mean')]",
    "stats[14] (6, 6) z=float32/noise v=float32 ['mean'] ids=None nd=None dask z(6, 2) v(2, 6)": '4d8a5136ecbbdbb1',
    "stats[14] (6, 6) z=float32/noise v=float32 ['mean'] ids=None nd=None dask z((1, 2, 3), (4, 2)) v((5, 1), (6,))": '14e88e68b472b1e8',
    "stats[16] (5, 1) z=int32/blocks v=int32 ['mean', 'max', 'min', 'sum', 'std', 'var', 'count'] ids=None nd=None numpy": '79da79605316676e',
    "stats[16] (5, 1) z=int32/blocks v=int32 ['mean', 'max', 'min', 'sum', 'std', 'var', 'count'] ids=None nd=None numpy-xr": "8e2470c21b330a73('stats', 'dim_0', 'dim_1')[np.str_('mean'), np.str_('max'), np.str_('min'), np.str_('sum'), np.str_('std'), np.str_('var'), np.str_('count')]",
    "stats[16] (5, 1) z=int32/blocks v=int32 ['mean', 'max', 'min', 'sum', 'std', 'var', 'count'] ids=None nd=None dask z(2, 1) v(3, 1)": '79da79605316676e',
    "stats[17] (5, 1) z=int64/noise v=int64 ['count', 'max'] ids=None nd=-9999 numpy": 'ee1d170e5dfb465f',
    "stats[17] (5, 1) z=int64/noise v=int64 ['count', 'max'] ids=None nd=-9999 numpy-xr": "d2c4f187353f88f9('stats', 'dim_0', 'dim_1')[np.str_('count'), np.str_('max')]",
    "stats[17] (5, 1) z=int64/noise v=int64 ['count', 'max'] ids=None nd=-9999 dask z(2, 1) v(3, 1)": 'ee1d170e5dfb465f',
    "stats[19] (5, 1) z=float32/noise v=float64 ['var', 'min', 'sum'] ids=[np.float32(4.0), np.float32(-1.0), 12345] nd=0 numpy": '5f03289bac536461',
    "stats[19] (5, 1) z=float32/noise v=float64 ['var', 'min', 'sum'] ids=[np.float32(4.0), np.float32(-1.0), 12345] nd=0 numpy-xr": "c151f186d51e323f('stats', 'dim_0', 'dim_1')[np.str_('var'), np.str_('min'), np.str_('sum')]",
    "stats[19] (5, 1) z=float32/noise v=float64 ['var', 'min', 'sum'] ids=[np.float32(4.0), np.float32(-1.0), 12345] nd=0 dask z(2, 1) v(3, 1)": '4d2e57fe58bae2b1',
    "stats[20] (5, 1) z=int64/single v=float32 ['std'] ids=[np.int64(7)] nd=3 numpy": 'ba6ae61b9677f2b9',
    "stats[20] (5, 1) z=int64/single v=float32 ['std'] ids=[np.int64(7)] nd=3 numpy-xr": "b71e45de80e5b071('stats', 'dim_0', 'dim_1')[np.str_('std')]",
    "stats[20] (5, 1) z=int64/single v=float32 ['std'] ids=[np.int64(7)] nd=3 dask z(2, 1) v(3, 1)": 'e73460bb647a4885',
    "crosstab2d[1] (7, 11) z=int32/blocks v=float64 {'agg': 'count', 'zone_ids': None, 'cat_ids': None, 'nodata_values': None} numpy": '3aa4e0d0614529f5',
    "crosstab2d[1] (7, 11) z=int32/blocks v=float64 {'agg': 'count', 'zone_ids': None, 'cat_ids': None, 'nodata_values': None} dask z(7, 11) v(7, 11)": '3aa4e0d0614529f5',
    "crosstab2d[1] (7, 11) z=int32/blocks v=float64 {'agg': 'count', 'zone_ids': None, 'cat_ids': None, 'nodata_values': None} dask z(3, 4) v(3, 4)": '3aa4e0d0614529f5',
    "crosstab2d[2] (7, 11) z=float64/noise v=int32 {'agg': 'percentage', 'zone_ids': None, 'cat_ids': None, 'nodata_values': -9999} numpy": '76dcfa8e9796a760',
    "crosstab2d[2] (7, 11) z=float64/noise v=int32 {'agg': 'percentage', 'zone_ids': None, 'cat_ids': None, 'nodata_values': -9999} dask z(3, 4) v(3, 4)": '76dcfa8e9796a760',
    "crosstab2d[2] (7, 11) z=float64/noise v=int32 {'agg': 'percentage', 'zone_ids': None, 'cat_ids': None, 'nodata_values': -9999} dask z(2, 5) v(7, 3)": '76dcfa8e9796a760',
    "crosstab2d[3] (7, 11) z=int64/single v=float32 {'agg': 'count', 'zone_ids': [np.int64(7), np.int64(7), 999], 'cat_ids': [3, 1, 42], 'nodata_values': 2} numpy": 'fc88c5952661a428',
    "crosstab2d[3] (7, 11) z=int64/single v=float32 {'agg': 'count', 'zone_ids': [np.int64(7), np.int64(7), 999], 'cat_ids': [3, 1, 42], 'nodata_values': 2} dask z(7, 11) v(7, 11)": 'fc88c5952661a428',
    "crosstab2d[3] (7, 11) z=int64/single v=float32 {'agg': 'count', 'zone_ids': [np.int64(7), np.int64(7), 999], 'cat_ids': [3, 1, 42], 'nodata_values': 2} dask z(3, 4) v(3, 4)": 'fc88c5952661a428',
    "crosstab2d[4] (1, 13) z=int32/blocks v=float64 {'agg': 'percentage', 'zone_ids': [np.int32(0)], 'cat_ids': [0, 1, 2, 3], 'nodata_values': None} numpy": 'a507b06d99ec18a8',
    "crosstab2d[4] (1, 13) z=int32/blocks v=float64 {'agg': 'percentage', 'zone_ids': [np.int32(0)], 'cat_ids': [0, 1, 2, 3], 'nodata_values': None} dask z(1, 4) v(1, 5)": 'a507b06d99ec18a8',
    "crosstab2d[4] (1, 13) z=int32/blocks v=float64 {'agg': 'percentage', 'zone_ids': [np.int32(0)], 'cat_ids': [0, 1, 2, 3], 'nodata_values': None} dask z(1, 2) v(1, 13)": 'a507b06d99ec18a8',
    "crosstab2d[5] (1, 13) z=float64/noise v=int32 {'agg': 'count', 'zone_ids': None, 'cat_ids': None, 'nodata_values': None} numpy": 'c35d3d0db666bcbe',
    "crosstab2d[5] (1, 13) z=float64/noise v=int32 {'agg': 'count', 'zone_ids': None, 'cat_ids': None, 'nodata_values': None} dask z(1, 4) v(1, 5)": 'c35d3d0db666bcbe',
    "crosstab2d[5] (1, 13) z=float64/noise v=int32 {'agg': 'count', 'zone_ids': None, 'cat_ids': None, 'nodata_values': None} dask z(1, 2) v(1, 13)": 'c35d3d0db666bcbe',
    "crosstab2d[6] (1, 13) z=int64/single v=float32 {'agg': 'percentage', 'zone_ids': None, 'cat_ids': None, 'nodata_values': -9999} numpy": '2d0e0b661b82c12c',
    "crosstab2d[6] (1, 13) z=int64/single v=float32 {'agg': 'percentage', 'zone_ids': None, 'cat_ids': None, 'nodata_values': -9999} dask z(1, 4) v(1, 5)": '2d0e0b661b82c12c',
    "crosstab2d[6] (1, 13) z=int64/single v=float32 {'agg': 'percentage', 'zone_ids': None, 'cat_ids': None, 'nodata_values': -9999} dask z(1, 2) v(1, 13)": '2d0e0b661b82c12c',
    "crosstab2d[7] (6, 6) z=int32/blocks v=float64 {'agg': 'count', 'zone_ids': [np.int32(25), np.int32(0), 999], 'cat_ids': [3, 1, 42], 'nodata_values': 2} numpy": 'd97d88e16f71cb86',
    "crosstab2d[7] (6, 6) z=int32/blocks v=float64 {'agg': 'count', 'zone_ids': [np.int32(25), np.int32(0), 999], 'cat_ids': [3, 1, 42], 'nodata_values': 2} dask z(6, 2) v(2, 6)": 'd97d88e16f71cb86',
    "crosstab2d[7] (6, 6) z=int32/blocks v=float64 {'agg': 'count', 'zone_ids': [np.int32(25), np.int32(0), 999], 'cat_ids': [3, 1, 42], 'nodata_values': 2} dask z((1, 2, 3), (4, 2)) v((5, 1), (6,))": 'd97d88e16f71cb86',
    "crosstab2d[8] (6, 6) z=float64/noise v=int32 {'agg': 'percentage', 'zone_ids': [np.float64(-2.0)], 'cat_ids': [0, 1, 2, 3], 'nodata_values': None} numpy": '582a5a136ff2385f',
    "crosstab2d[8] (6, 6) z=float64/noise v=int32 {'agg': 'percentage', 'zone_ids': [np.float64(-2.0)], 'cat_ids': [0, 1, 2, 3], 'nodata_values': None} dask z(6, 2) v(2, 6)": '582a5a136ff2385f',
    "crosstab2d[8] (6, 6) z=float64/noise v=int32 {'agg': 'percentage', 'zone_ids': [np.float64(-2.0)], 'cat_ids': [0, 1, 2, 3], 'nodata_values': None} dask z((1, 2, 3), (4, 2)) v((5, 1), (6,))": '582a5a136ff2385f',
    "crosstab2d[9] (6, 6) z=int64/single v=float32 {'agg': 'count', 'zone_ids': None, 'cat_ids': None, 'nodata_values': None} numpy": 'bd027891cb3c5a39',
    "crosstab2d[9] (6, 6) z=int64/single v=float32 {'agg': 'count', 'zone_ids': None, 'cat_ids': None, 'nodata_values': None} dask z(6, 2) v(2, 6)": 'bd027891cb3c5a39',
    "crosstab2d[9] (6, 6) z=int64/single v=float32 {'agg': 'count', 'zone_ids': None, 'cat_ids': None, 'nodata_values': None} dask z((1, 2, 3), (4, 2)) v((5, 1), (6,))": 'bd027891cb3c5a39',
    "crosstab2d[10] (5, 1) z=int32/blocks v=float64 {'agg': 'percentage', 'zone_ids': None, 'cat_ids': None, 'nodata_values': -9999} numpy": '558be4db174e3c8b',
    "crosstab2d[10] (5, 1) z=int32/blocks v=float64 {'agg': 'percentage', 'zone_ids': None, 'cat_ids': None, 'nodata_values': -9999} dask z(2, 1) v(3, 1)": '558be4db174e3c8b',
    "crosstab2d[11] (5, 1) z=float64/noise v=int32 {'agg': 'count', 'zone_ids': [np.float64(3.0), np.float64(-1.0), 999], 'cat_ids': [3, 1, 42], 'nodata_values': 2} numpy": '60807a67257fa64b',
    "crosstab2d[11] (5, 1) z=float64/noise v=int32 {'agg': 'count', 'zone_ids': [np.float64(3.0), np.float64(-1.0), 999], 'cat_ids': [3, 1, 42], 'nodata_values': 2} dask z(2, 1) v(3, 1)": '60807a67257fa64b',
    "crosstab2d[12] (5, 1) z=int64/single v=float32 {'agg': 'percentage', 'zone_ids': [np.int64(7)], 'cat_ids': [0, 1, 2, 3], 'nodata_values': None} numpy": '4449a346fc748f78',
    "crosstab2d[12] (5, 1) z=int64/single v=float32 {'agg': 'percentage', 'zone_ids': [np.int64(7)], 'cat_ids': [0, 1, 2, 3], 'nodata_values': None} dask z(2, 1) v(3, 1)": '4449a346fc748f78',
    "crosstab3d[0] (7, 11) z=int32/blocks {'zone_ids': None, 'cat_ids': None, 'nodata_values': None} numpy agg=count": '35706b4984f3e7f7',
    "crosstab3d[0] (7, 11) z=int32/blocks {'zone_ids': None, 'cat_ids': None, 'nodata_values': None} numpy agg=mean": 'b0926ad69acb1bf6',
    "crosstab3d[0] (7, 11) z=int32/blocks {'zone_ids': None, 'cat_ids': None, 'nodata_values': None} numpy agg=sum": '68e8001d540bfecd',
    "crosstab3d[0] (7, 11) z=int32/blocks {'zone_ids': None, 'cat_ids': None, 'nodata_values': None} numpy agg=std": '58c120ec2c51d05e',
    "crosstab3d[0] (7, 11) z=int32/blocks {'zone_ids': None, 'cat_ids': None, 'nodata_values': None} numpy agg=var": 'df7c3ca5d6ad2b4d',
    "crosstab3d[0] (7, 11) z=int32/blocks {'zone_ids': None, 'cat_ids': None, 'nodata_values': None} dask z(3, 4) v((1, 2), 3, 4)": '35706b4984f3e7f7',
    "crosstab3d[0] (7, 11) z=int32/blocks {'zone_ids': None, 'cat_ids': None, 'nodata_values': None} dask z(2, 5) v(3, 7, 3)": '35706b4984f3e7f7',
    "crosstab3d[0] (7, 11) z=float64/noise {'zone_ids': [np.float64(-2.0), np.float64(4.0)], 'cat_ids': ['b', 'c'], 'nodata_values': -9999} numpy agg=count": '18b26f6448aca8ea',
    "crosstab3d[0] (7, 11) z=float64/noise {'zone_ids': [np.float64(-2.0), np.float64(4.0)], 'cat_ids': ['b', 'c'], 'nodata_values': -9999} numpy agg=mean": '5411b447a0f1e721',
    "crosstab3d[0] (7, 11) z=float64/noise {'zone_ids': [np.float64(-2.0), np.float64(4.0)], 'cat_ids': ['b', 'c'], 'nodata_values': -9999} numpy agg=sum": '767501c170ff8f34',
    "crosstab3d[0] (7, 11) z=float64/noise {'zone_ids': [np.float64(-2.0), np.float64(4.0)], 'cat_ids': ['b', 'c'], 'nodata_values': -9999} numpy agg=std": 'b198e624d6130d43',
    "crosstab3d[0] (7, 11) z=float64/noise {'zone_ids': [np.float64(-2.0), np.float64(4.0)], 'cat_ids': ['b', 'c'], 'nodata_values': -9999} numpy agg=var": 'a51f47a55217c4ce',
    "crosstab3d[0] (7, 11) z=float64/noise {'zone_ids': [np.float64(-2.0), np.float64(4.0)], 'cat_ids': ['b', 'c'], 'nodata_values': -9999} dask z(3, 4) v((1, 2), 3, 4)": '18b26f6448aca8ea',
    "crosstab3d[0] (7, 11) z=float64/noise {'zone_ids': [np.float64(-2.0), np.float64(4.0)], 'cat_ids': ['b', 'c'], 'nodata_values': -9999} dask z(2, 5) v(3, 7, 3)": '18b26f6448aca8ea',
    "crosstab3d[1] (1, 13) z=int32/blocks {'zone_ids': None, 'cat_ids': None, 'nodata_values': None} numpy agg=count": '4855536376abf51c',
    "crosstab3d[1] (1, 13) z=int32/blocks {'zone_ids': None, 'cat_ids': None, 'nodata_values': None} numpy agg=mean": 'd87d56ce156835f1',
    "crosstab3d[1] (1, 13) z=int32/blocks {'zone_ids': None, 'cat_ids': None, 'nodata_values': None} numpy agg=sum": 'd14b111dab3c1b89',
    "crosstab3d[1] (1, 13) z=int32/blocks {'zone_ids': None, 'cat_ids': None, 'nodata_values': None} numpy agg=std": 'c8f9c435576234d1',
    "crosstab3d[1] (1, 13) z=int32/blocks {'zone_ids': None, 'cat_ids': None, 'nodata_values': None} numpy agg=var": 'fee07a790f24245d',
    "crosstab3d[1] (1, 13) z=int32/blocks {'zone_ids': None, 'cat_ids': None, 'nodata_values': None} dask z(1, 4) v(3, 1, 5)": '4855536376abf51c',
    "crosstab3d[1] (1, 13) z=int32/blocks {'zone_ids': None, 'cat_ids': None, 'nodata_values': None} dask z(1, 2) v((1, 2), 1, 13)": '4855536376abf51c',
    "crosstab3d[1] (1, 13) z=float64/noise {'zone_ids': [np.float64(-2.0), np.float64(4.0)], 'cat_ids': ['b', 'c'], 'nodata_values': -9999} numpy agg=count": '732eaeb3c9b85e28',
    "crosstab3d[1] (1, 13) z=float64/noise {'zone_ids': [np.float64(-2.0), np.float64(4.0)], 'cat_ids': ['b', 'c'], 'nodata_values': -9999} numpy agg=mean": 'd37e6dd42b905c06',
    "crosstab3d[1] (1, 13) z=float64/noise {'zone_ids': [np.float64(-2.0), np.float64(4.0)], 'cat_ids': ['b', 'c'], 'nodata_values': -9999} numpy agg=sum": 'c8ffb081be344b45',
    "crosstab3d[1] (1, 13) z=float64/noise {'zone_ids': [np.float64(-2.0), np.float64(4.0)], 'cat_ids': ['b', 'c'], 'nodata_values': -9999} numpy agg=std": '681b218b4d690b70',
    "crosstab3d[1] (1, 13) z=float64/noise {'zone_ids': [np.float64(-2.0), np.float64(4.0)], 'cat_ids': ['b', 'c'], 'nodata_values': -9999} numpy agg=var": 'b77b33553eccd79f',
    "crosstab3d[1] (1, 13) z=float64/noise {'zone_ids': [np.float64(-2.0), np.float64(4.0)], 'cat_ids': ['b', 'c'], 'nodata_values': -9999} dask z(1, 4) v(3, 1, 5)": '732eaeb3c9b85e28',
    "crosstab3d[1] (1, 13) z=float64/noise {'zone_ids': [np.float64(-2.0), np.float64(4.0)], 'cat_ids': ['b', 'c'], 'nodata_values': -9999} dask z(1, 2) v((1, 2), 1, 13)": '732eaeb3c9b85e28',
    "crosstab3d[2] (6, 6) z=int32/blocks {'zone_ids': None, 'cat_ids': None, 'nodata_values': None} numpy agg=count": '577c7d4f26da5c5f',
    "crosstab3d[2] (6, 6) z=int32/blocks {'zone_ids': None, 'cat_ids': None, 'nodata_values': None} numpy agg=mean": '1984fa45a21d8037',
    "crosstab3d[2] (6, 6) z=int32/blocks {'zone_ids': None, 'cat_ids': None, 'nodata_values': None} numpy agg=sum": '2038864a2a4ecebc',
    "crosstab3d[2] (6, 6) z=int32/blocks {'zone_ids': None, 'cat_ids': None, 'nodata_values': None} numpy agg=std": '6c01335d2966a9bb',
    "crosstab3d[2] (6, 6) z=int32/blocks {'zone_ids': None, 'cat_ids': None, 'nodata_values': None} numpy agg=var": '21c337ddd91022fa',
    "crosstab3d[2] (6, 6) z=int32/blocks {'zone_ids': None, 'cat_ids': None, 'nodata_values': None} dask z(6, 2) v(3, 2, 6)": '577c7d4f26da5c5f',
    "crosstab3d[2] (6, 6) z=int32/blocks {'zone_ids': None, 'cat_ids': None, 'nodata_values': None} dask z((1, 2, 3), (4, 2)) v((1, 2), (5, 1), (6,))": '577c7d4f26da5c5f',
    "crosstab3d[2] (6, 6) z=float64/noise {'zone_ids': [np.float64(-1.0), np.float64(4.0)], 'cat_ids': ['b', 'c'], 'nodata_values': -9999} numpy agg=count": '13403563580a09e8',
    "crosstab3d[2] (6, 6) z=float64/noise {'zone_ids': [np.float64(-1.0), np.float64(4.0)], 'cat_ids': ['b', 'c'], 'nodata_values': -9999} numpy agg=mean": '4dc8075f02a5a3b3',
    "crosstab3d[2] (6, 6) z=float64/noise {'zone_ids': [np.float64(-1.0), np.float64(4.0)], 'cat_ids': ['b', 'c'], 'nodata_values': -9999} numpy agg=sum": '112595c19abefb5a',
    "crosstab3d[2] (6, 6) z=float64/noise {'zone_ids': [np.float64(-1.0), np.float64(4.0)], 'cat_ids': ['b', 'c'], 'nodata_values': -9999} numpy agg=std": '2af5c82b1a119f8e',
    "crosstab3d[2] (6, 6) z=float64/noise {'zone_ids': [np.float64(-1.0), np.float64(4.0)], 'cat_ids': ['b', 'c'], 'nodata_values': -9999} numpy agg=var": '958aa76c2b4b243a',
    "crosstab3d[2] (6, 6) z=float64/noise {'zone_ids': [np.float64(-1.0), np.float64(4.0)], 'cat_ids': ['b', 'c'], 'nodata_values': -9999} dask z(6, 2) v(3, 2, 6)": '13403563580a09e8',
    "crosstab3d[2] (6, 6) z=float64/noise {'zone_ids': [np.float64(-1.0), np.float64(4.0)], 'cat_ids': ['b', 'c'], 'nodata_values': -9999} dask z((1, 2, 3), (4, 2)) v((1, 2), (5, 1), (6,))": '13403563580a09e8',
    'err shape': 'ValueError: input arrays must have equal shapes',
    'err type': 'ValueError: input arrays must have same type',
    'err stat': 'ValueError: Invalid stat name. median option not supported.',
    'err dict': "ValueError: Got dask-backed DataArray as `values` aggregate. `stats_funcs` must be a subset of default supported stats `['mean', 'max', 'min', 'sum', 'std', 'var', 'count']`",
    'err zdtype': 'ValueError: `zones` must be an array of integers or floats.',
    'err agg': "ValueError: `agg` method for 2D data array must be one of following ['percentage', 'count']",
    'err ct shape': 'ValueError: input arrays must have equal shapes',
    'err ct type': 'ValueError: input arrays must have same type',
    'side effect stats chunks': '(((2, 1), (3, 1)), ((2, 1), (3, 1)))',
    'side effect crosstab chunks': '(((2, 1), (3, 1)), ((2, 1), (3, 1)))',
    't11 np float64 count {}': 'cdb873a3771e8858',
    't11 dask float64 count {} z(4, 6) v(4, 6)': 'cdb873a3771e8858',
    't11 dask float64 count {} z(2, 2) v(2, 2)': 'cdb873a3771e8858',
    't11 dask float64 count {} z(1, 6) v(4, 1)': 'cdb873a3771e8858',
    't11 dask float64 count {} z(3, 5) v(2, 6)': 'cdb873a3771e8858',
    "t11 np float64 count {'nodata_values': 7}": 'bb9ce9864673e5a4',
    "t11 dask float64 count {'nodata_values': 7} z(4, 6) v(4, 6)": 'bb9ce9864673e5a4',
    "t11 dask float64 count {'nodata_values': 7} z(2, 2) v(2, 2)": 'bb9ce9864673e5a4',
    "t11 dask float64 count {'nodata_values': 7} z(1, 6) v(4, 1)": 'bb9ce9864673e5a4',
    "t11 dask float64 count {'nodata_values': 7} z(3, 5) v(2, 6)": 'bb9ce9864673e5a4',
    "t11 np float64 count {'zone_ids': [5, 2], 'cat_ids': [2, 1, 0]}": 'ba0dd458343e80cc',
    "t11 dask float64 count {'zone_ids': [5, 2], 'cat_ids': [2, 1, 0]} z(4, 6) v(4, 6)": 'ba0dd458343e80cc',
    "t11 dask float64 count {'zone_ids': [5, 2], 'cat_ids': [2, 1, 0]} z(2, 2) v(2, 2)": 'ba0dd458343e80cc',
    "t11 dask float64 count {'zone_ids': [5, 2], 'cat_ids': [2, 1, 0]} z(1, 6) v(4, 1)": 'ba0dd458343e80cc',
    "t11 dask float64 count {'zone_ids': [5, 2], 'cat_ids': [2, 1, 0]} z(3, 5) v(2, 6)": 'ba0dd458343e80cc',
    "t11 np float64 count {'zone_ids': [2], 'nodata_values': 7}": 'af16679059ea60b6',
    "t11 dask float64 count {'zone_ids': [2], 'nodata_values': 7} z(4, 6) v(4, 6)": 'af16679059ea60b6',
    "t11 dask float64 count {'zone_ids': [2], 'nodata_values': 7} z(2, 2) v(2, 2)": 'af16679059ea60b6',
    "t11 dask float64 count {'zone_ids': [2], 'nodata_values': 7} z(1, 6) v(4, 1)": 'af16679059ea60b6',
    "t11 dask float64 count {'zone_ids': [2], 'nodata_values': 7} z(3, 5) v(2, 6)": 'af16679059ea60b6',
    't11 np float64 percentage {}': 'ef9f8843f0ba694a',
    't11 dask float64 percentage {} z(4, 6) v(4, 6)': 'ef9f8843f0ba694a',
    't11 dask float64 percentage {} z(2, 2) v(2, 2)': 'ef9f8843f0ba694a',
    't11 dask float64 percentage {} z(1, 6) v(4, 1)': 'ef9f8843f0ba694a',
    't11 dask float64 percentage {} z(3, 5) v(2, 6)': 'ef9f8843f0ba694a',
    "t11 np float64 percentage {'nodata_values': 7}": '45e728b575f48893',
    "t11 dask float64 percentage {'nodata_values': 7} z(4, 6) v(4, 6)": '45e728b575f48893',
    "t11 dask float64 percentage {'nodata_values': 7} z(2, 2) v(2, 2)": '45e728b575f48893',
    "t11 dask float64 percentage {'nodata_values': 7} z(1, 6) v(4, 1)": '45e728b575f48893',
    "t11 dask float64 percentage {'nodata_values': 7} z(3, 5) v(2, 6)": '45e728b575f48893',
    "t11 np float64 percentage {'zone_ids': [5, 2], 'cat_ids': [2, 1, 0]}": '4ab49130f8c778a2',
    "t11 dask float64 percentage {'zone_ids': [5, 2], 'cat_ids': [2, 1, 0]} z(4, 6) v(4, 6)": '4ab49130f8c778a2',
    "t11 dask float64 percentage {'zone_ids': [5, 2], 'cat_ids': [2, 1, 0]} z(2, 2) v(2, 2)": '4ab49130f8c778a2',
    "t11 dask float64 percentage {'zone_ids': [5, 2], 'cat_ids': [2, 1, 0]} z(1, 6) v(4, 1)": '4ab49130f8c778a2',
    "t11 dask float64 percentage {'zone_ids': [5, 2], 'cat_ids': [2, 1, 0]} z(3, 5) v(2, 6)": '4ab49130f8c778a2',
    "t11 np float64 percentage {'zone_ids': [2], 'nodata_values': 7}": 'b853356faf5a55f8',
    "t11 dask float64 percentage {'zone_ids': [2], 'nodata_values': 7} z(4, 6) v(4, 6)": 'b853356faf5a55f8',
    "t11 dask float64 percentage {'zone_ids': [2], 'nodata_values': 7} z(2, 2) v(2, 2)": 'b853356faf5a55f8',
    "t11 dask float64 percentage {'zone_ids': [2], 'nodata_values': 7} z(1, 6) v(4, 1)": 'b853356faf5a55f8',
    "t11 dask float64 percentage {'zone_ids': [2], 'nodata_values': 7} z(3, 5) v(2, 6)": 'b853356faf5a55f8',
    't11 np float32 count {}': 'cdb873a3771e8858',
    't11 dask float32 count {} z(4, 6) v(4, 6)': 'cdb873a3771e8858',
    't11 dask float32 count {} z(2, 2) v(2, 2)': 'cdb873a3771e8858',
    't11 dask float32 count {} z(1, 6) v(4, 1)': 'cdb873a3771e8858',
    't11 dask float32 count {} z(3, 5) v(2, 6)': 'cdb873a3771e8858',
    "t11 np float32 count {'nodata_values': 7}": 'bb9ce9864673e5a4',
    "t11 dask float32 count {'nodata_values': 7} z(4, 6) v(4, 6)": 'bb9ce9864673e5a4',
    "t11 dask float32 count {'nodata_values': 7} z(2, 2) v(2, 2)": 'bb9ce9864673e5a4',
    "t11 dask float32 count {'nodata_values': 7} z(1, 6) v(4, 1)": 'bb9ce9864673e5a4',
    "t11 dask float32 count {'nodata_values': 7} z(3, 5) v(2, 6)": 'bb9ce9864673e5a4',
    "t11 np float32 count {'zone_ids': [5, 2], 'cat_ids': [2, 1, 0]}": 'ba0dd458343e80cc',
    "t11 dask float32 count {'zone_ids': [5, 2], 'cat_ids': [2, 1, 0]} z(4, 6) v(4, 6)": 'ba0dd458343e80cc',
    "t11 dask float32 count {'zone_ids': [5, 2], 'cat_ids': [2, 1, 0]} z(2, 2) v(2, 2)": 'ba0dd458343e80cc',
    "t11 dask float32 count {'zone_ids': [5, 2], 'cat_ids': [2, 1, 0]} z(1, 6) v(4, 1)": 'ba0dd458343e80cc',
    "t11 dask float32 count {'zone_ids': [5, 2], 'cat_ids': [2, 1, 0]} z(3, 5) v(2, 6)": 'ba0dd458343e80cc',
    "t11 np float32 count {'zone_ids': [2], 'nodata_values': 7}": 'af16679059ea60b6',
    "t11 dask float32 count {'zone_ids': [2], 'nodata_values': 7} z(4, 6) v(4, 6)": 'af16679059ea60b6',
    "t11 dask float32 count {'zone_ids': [2], 'nodata_values': 7} z(2, 2) v(2, 2)": 'af16679059ea60b6',
    "t11 dask float32 count {'zone_ids': [2], 'nodata_values': 7} z(1, 6) v(4, 1)": 'af16679059ea60b6',
    "t11 dask float32 count {'zone_ids': [2], 'nodata_values': 7} z(3, 5) v(2, 6)": 'af16679059ea60b6',
    't11 np float32 percentage {}': 'ef9f8843f0ba694a',
    't11 dask float32 percentage {} z(4, 6) v(4, 6)': 'ef9f8843f0ba694a',
    't11 dask float32 percentage {} z(2, 2) v(2, 2)': 'ef9f8843f0ba694a',
    't11 dask float32 percentage {} z(1, 6) v(4, 1)': 'ef9f8843f0ba694a',
    't11 dask float32 percentage {} z(3, 5) v(2, 6)': 'ef9f8843f0ba694a',
    "t11 np float32 percentage {'nodata_values': 7}": '45e728b575f48893',
    "t11 dask float32 percentage {'nodata_values': 7} z(4, 6) v(4, 6)": '45e728b575f48893',
    "t11 dask float32 percentage {'nodata_values': 7} z(2, 2) v(2, 2)": '45e728b575f48893',
    "t11 dask float32 percentage {'nodata_values': 7} z(1, 6) v(4, 1)": '45e728b575f48893',
    "t11 dask float32 percentage {'nodata_values': 7} z(3, 5) v(2, 6)": '45e728b575f48893',
    "t11 np float32 percentage {'zone_ids': [5, 2], 'cat_ids': [2, 1, 0]}": '4ab49130f8c778a2',
    "t11 dask float32 percentage {'zone_ids': [5, 2], 'cat_ids': [2, 1, 0]} z(4, 6) v(4, 6)": '4ab49130f8c778a2',
    "t11 dask float32 percentage {'zone_ids': [5, 2], 'cat_ids': [2, 1, 0]} z(2, 2) v(2, 2)": '4ab49130f8c778a2',
    "t11 dask float32 percentage {'zone_ids': [5, 2], 'cat_ids': [2, 1, 0]} z(1, 6) v(4, 1)": '4ab49130f8c778a2',
    "t11 dask float32 percentage {'zone_ids': [5, 2], 'cat_ids': [2, 1, 0]} z(3, 5) v(2, 6)": '4ab49130f8c778a2',
    "t11 np float32 percentage {'zone_ids': [2], 'nodata_values': 7}": 'b853356faf5a55f8',
    "t11 dask float32 percentage {'zone_ids': [2], 'nodata_values': 7} z(4, 6) v(4, 6)": 'b853356faf5a55f8',
    "t11 dask float32 percentage {'zone_ids': [2], 'nodata_values': 7} z(2, 2) v(2, 2)": 'b853356faf5a55f8',
    "t11 dask float32 percentage {'zone_ids': [2], 'nodata_values': 7} z(1, 6) v(4, 1)": 'b853356faf5a55f8',
    "t11 dask float32 percentage {'zone_ids': [2], 'nodata_values': 7} z(3, 5) v(2, 6)": 'b853356faf5a55f8',
    't11 reduce count 1': '593ad1d1c79eace9',
    't11 reduce count 2': '9b6f39ff62451d46',
    't11 reduce percentage 1': '522dc58bd64f0429',
    't11 reduce percentage 2': 'be21599d0b59c9a4',
}


if __name__ == "__main__":
    sys.exit(main(EXPECTED))
