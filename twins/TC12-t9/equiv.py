"""Differential test for C12 refactoring. Run as
  cd /tmp/t4/TC12 && PYTHONPATH=/tmp/t4/TC12 /venv/bin/python equiv.py
Digests in EXPECTED were recorded from the unmodified tree; reclassify is also
checked exhaustively against an independent first-bin-with-upper-bound>=value model."""
import hashlib
import io
import sys
import warnings
import contextlib

import numpy as np
import xarray as xr
import dask.array as da

import xrspatial
from xrspatial import binary, equal_interval, natural_breaks, quantile, reclassify

assert '/tmp/t4/TC12/' in xrspatial.__file__, xrspatial.__file__


def digest(arr):
    arr = np.ascontiguousarray(np.asarray(arr))
    h = hashlib.sha256()
    h.update(str(arr.dtype).encode())
    h.update(str(arr.shape).encode())
    h.update(arr.tobytes())
    return h.hexdigest()[:16]


def rasters():
    rs = np.random.RandomState(20240612)
    out = {}
    a = rs.uniform(-50, 50, (7, 9))
    a[0, 0] = np.nan
    a[3, 4] = np.inf
    a[6, 8] = -np.inf
    out['f64_7x9'] = a
    out['f32_7x9'] = a.astype(np.float32)
    b = rs.randint(0, 6, (5, 11)).astype(np.float64)   # many ties
    b[2, 2] = np.nan
    out['ties_5x11'] = b
    out['int32_6x5'] = rs.randint(-20, 20, (6, 5)).astype(np.int32)
    out['int64_4x4'] = rs.randint(0, 1000, (4, 4)).astype(np.int64)
    c = np.array([[16777217.0, 16777219.0, 1e-3, 0.1],
                  [0.30000000000000004, 0.3, 1e10 + 1, np.nan],
                  [-16777217.0, 2.5, 2.5000000001, np.inf]])
    out['nonf32_3x4'] = c
    out['row_1x13'] = rs.normal(0, 3, (1, 13))
    out['col_13x1'] = rs.normal(0, 3, (13, 1)).astype(np.float32)
    d = rs.uniform(0, 1, (12, 10))
    d[rs.uniform(size=d.shape) < 0.2] = np.nan
    out['nans_12x10'] = d
    return out


def run_case(results, key, fn):
    buf = io.StringIO()
    with warnings.catch_warnings(record=True) as w:
        warnings.simplefilter('always')
        try:
            with contextlib.redirect_stdout(buf):
                r = fn()
            data = r.data
            if isinstance(data, da.Array):
                data = data.compute()
            val = 'OK:' + digest(data) + ':' + str(r.dtype) + ':' + r.name
        except Exception as e:  # errors must stay identical too
            val = 'ERR:' + type(e).__name__ + ':' + str(e)[:80]
    msgs = '|'.join(sorted(str(x.message)[:60] for x in w
                           if 'natural_breaks' in str(x.message)))
    results[key] = val + '#' + hashlib.sha256(
        (msgs + buf.getvalue()).encode()).hexdigest()[:8]


def bin_lists(n_max):
    # every ascending bin list over a small grid, for every length up to n_max
    import itertools
    grid = [-1.0, 0.0, 1.0, 2.0, 3.0]
    for n in range(1, n_max + 1):
        for combo in itertools.combinations(grid, n):
            yield list(combo)


def compute_all(which):
    results = {}
    R = rasters()
    for name, arr in R.items():
        for backend in ('np', 'da'):
            if backend == 'np':
                mk = lambda: xr.DataArray(arr.copy(), attrs={'res': (1, 1)})
            else:
                chunks = (max(1, arr.shape[0] // 2), max(1, arr.shape[1] // 3))
                mk = lambda: xr.DataArray(da.from_array(arr.copy(), chunks=chunks))
            if 'binary' in which:
                for vals in ([1, 2, 3], [0.3, 2.5, 16777217.0], [], [np.nan, 5]):
                    run_case(results, f'binary/{name}/{backend}/{vals}',
                             lambda: binary(mk(), vals))
            if 'reclassify' in which:
                fin = arr[np.isfinite(arr)]
                qs = np.percentile(fin, [10, 35, 35.5, 80, 100])
                for bins, nv in (([0, 2, 4], [10, 20, 30]),
                                 (list(qs), [5, 4, 3, 2, 1]),
                                 ([1.5], [7]),
                                 ([-np.inf, 0, np.inf], [1.5, 2.5, 3.5]),
                                 (list(range(-20, 21, 3)), list(range(14)))):
                    run_case(results, f'reclassify/{name}/{backend}/{bins}',
                             lambda: reclassify(mk(), bins, nv))
                run_case(results, f'reclassify/{name}/{backend}/mismatch',
                         lambda: reclassify(mk(), [1, 2], [1]))
            for k in (2, 3, 5, 8):
                if 'quantile' in which:
                    run_case(results, f'quantile/{name}/{backend}/{k}',
                             lambda: quantile(mk(), k=k))
                if 'equal_interval' in which:
                    run_case(results, f'equal_interval/{name}/{backend}/{k}',
                             lambda: equal_interval(mk(), k=k))
                if 'natural_breaks' in which:
                    for ns in (20000, None, 17, 3):
                        run_case(results, f'natural_breaks/{name}/{backend}/{k}/{ns}',
                                 lambda: natural_breaks(mk(), num_sample=ns, k=k))
    if 'reclassify' in which:
        # exhaustive positions of a value relative to bins
        probe = np.array([[-2, -1, -0.5, 0, 0.5, 1, 1.5, 2, 2.5, 3, 3.5, np.nan,
                           np.inf, -np.inf]], dtype=np.float64)
        for bins in bin_lists(5):
            nv = [10 * (i + 1) for i in range(len(bins))]
            r = reclassify(xr.DataArray(probe), bins, nv).data
            # independent expectation: first bin whose upper bound >= value
            exp = np.full(probe.shape, np.nan, dtype=np.float32)
            for j, v in enumerate(probe[0]):
                if np.isfinite(v):
                    for b, n in zip(bins, nv):
                        if v <= b:
                            exp[0, j] = n
                            break
            ok = r.dtype == np.float32 and np.array_equal(r, exp, equal_nan=True)
            results[f'reclassify_exh/{bins}'] = 'OK' if ok else 'BAD'
    if 'natural_breaks' in which:
        big = np.random.RandomState(7).gamma(2.0, 3.0, (40, 50)).astype(np.float32)
        big[5, 5] = np.nan
        for k in (4, 6):
            for ns in (200, 555):
                run_case(results, f'natural_breaks/big/np/{k}/{ns}',
                         lambda: natural_breaks(xr.DataArray(big.copy()), num_sample=ns, k=k))
    return results


def main(which, expected):
    got = compute_all(which)
    if expected is None:
        import pprint
        pprint.pprint(got, width=200)
        return 0
    bad = [k for k in sorted(set(got) | set(expected)) if got.get(k) != expected.get(k)]
    for k in bad[:20]:
        print('MISMATCH', k, got.get(k), expected.get(k))
    print('cases: %d, mismatches: %d' % (len(got), len(bad)))
    return 1 if bad else 0


EXPECTED = {'binary/col_13x1/da/[0.3, 2.5, 16777217.0]': 'OK:6bc28b1e2dd56b57:float32:binary#e3b0c442',
 'binary/col_13x1/da/[1, 2, 3]': 'OK:6bc28b1e2dd56b57:float32:binary#e3b0c442',
 'binary/col_13x1/da/[]': 'OK:6bc28b1e2dd56b57:float32:binary#e3b0c442',
 'binary/col_13x1/da/[nan, 5]': 'OK:6bc28b1e2dd56b57:float32:binary#e3b0c442',
 'binary/col_13x1/np/[0.3, 2.5, 16777217.0]': 'OK:6bc28b1e2dd56b57:float32:binary#e3b0c442',
 'binary/col_13x1/np/[1, 2, 3]': 'OK:6bc28b1e2dd56b57:float32:binary#e3b0c442',
 'binary/col_13x1/np/[]': 'OK:6bc28b1e2dd56b57:float32:binary#e3b0c442',
 'binary/col_13x1/np/[nan, 5]': 'OK:6bc28b1e2dd56b57:float32:binary#e3b0c442',
 'binary/f32_7x9/da/[0.3, 2.5, 16777217.0]': 'OK:1614c5319fd91574:float32:binary#e3b0c442',
 'binary/f32_7x9/da/[1, 2, 3]': 'OK:1614c5319fd91574:float32:binary#e3b0c442',
 'binary/f32_7x9/da/[]': 'OK:1614c5319fd91574:float32:binary#e3b0c442',
 'binary/f32_7x9/da/[nan, 5]': 'OK:1614c5319fd91574:float32:binary#e3b0c442',
 'binary/f32_7x9/np/[0.3, 2.5, 16777217.0]': 'OK:1614c5319fd91574:float32:binary#e3b0c442',
 'binary/f32_7x9/np/[1, 2, 3]': 'OK:1614c5319fd91574:float32:binary#e3b0c442',
 'binary/f32_7x9/np/[]': 'OK:1614c5319fd91574:float32:binary#e3b0c442',
 'binary/f32_7x9/np/[nan, 5]': 'OK:1614c5319fd91574:float32:binary#e3b0c442',
 'binary/f64_7x9/da/[0.3, 2.5, 16777217.0]': 'OK:8688fd5d3807ac16:float64:binary#e3b0c442',
 'binary/f64_7x9/da/[1, 2, 3]': 'OK:8688fd5d3807ac16:float64:binary#e3b0c442',
 'binary/f64_7x9/da/[]': 'OK:8688fd5d3807ac16:float64:binary#e3b0c442',
 'binary/f64_7x9/da/[nan, 5]': 'OK:8688fd5d3807ac16:float64:binary#e3b0c442',
 'binary/f64_7x9/np/[0.3, 2.5, 16777217.0]': 'OK:8688fd5d3807ac16:float64:binary#e3b0c442',
 'binary/f64_7x9/np/[1, 2, 3]': 'OK:8688fd5d3807ac16:float64:binary#e3b0c442',
 'binary/f64_7x9/np/[]': 'OK:8688fd5d3807ac16:float64:binary#e3b0c442',
 'binary/f64_7x9/np/[nan, 5]': 'OK:8688fd5d3807ac16:float64:binary#e3b0c442',
 'binary/int32_6x5/da/[0.3, 2.5, 16777217.0]': 'OK:987de10873a61049:int32:binary#e3b0c442',
 'binary/int32_6x5/da/[1, 2, 3]': 'OK:77e741e91b16b173:int32:binary#e3b0c442',
 'binary/int32_6x5/da/[]': 'OK:987de10873a61049:int32:binary#e3b0c442',
 'binary/int32_6x5/da/[nan, 5]': 'OK:987de10873a61049:int32:binary#e3b0c442',
 'binary/int32_6x5/np/[0.3, 2.5, 16777217.0]': 'OK:987de10873a61049:int32:binary#e3b0c442',
 'binary/int32_6x5/np/[1, 2, 3]': 'OK:77e741e91b16b173:int32:binary#e3b0c442',
 'binary/int32_6x5/np/[]': 'OK:987de10873a61049:int32:binary#e3b0c442',
 'binary/int32_6x5/np/[nan, 5]': 'OK:987de10873a61049:int32:binary#e3b0c442',
 'binary/int64_4x4/da/[0.3, 2.5, 16777217.0]': 'OK:1f7842d50c808a31:int64:binary#e3b0c442',
 'binary/int64_4x4/da/[1, 2, 3]': 'OK:1f7842d50c808a31:int64:binary#e3b0c442',
 'binary/int64_4x4/da/[]': 'OK:1f7842d50c808a31:int64:binary#e3b0c442',
 'binary/int64_4x4/da/[nan, 5]': 'OK:1f7842d50c808a31:int64:binary#e3b0c442',
 'binary/int64_4x4/np/[0.3, 2.5, 16777217.0]': 'OK:1f7842d50c808a31:int64:binary#e3b0c442',
 'binary/int64_4x4/np/[1, 2, 3]': 'OK:1f7842d50c808a31:int64:binary#e3b0c442',
 'binary/int64_4x4/np/[]': 'OK:1f7842d50c808a31:int64:binary#e3b0c442',
 'binary/int64_4x4/np/[nan, 5]': 'OK:1f7842d50c808a31:int64:binary#e3b0c442',
 'binary/nans_12x10/da/[0.3, 2.5, 16777217.0]': 'OK:f863f8f79966868e:float64:binary#e3b0c442',
 'binary/nans_12x10/da/[1, 2, 3]': 'OK:f863f8f79966868e:float64:binary#e3b0c442',
 'binary/nans_12x10/da/[]': 'OK:f863f8f79966868e:float64:binary#e3b0c442',
 'binary/nans_12x10/da/[nan, 5]': 'OK:f863f8f79966868e:float64:binary#e3b0c442',
 'binary/nans_12x10/np/[0.3, 2.5, 16777217.0]': 'OK:f863f8f79966868e:float64:binary#e3b0c442',
 'binary/nans_12x10/np/[1, 2, 3]': 'OK:f863f8f79966868e:float64:binary#e3b0c442',
 'binary/nans_12x10/np/[]': 'OK:f863f8f79966868e:float64:binary#e3b0c442',
 'binary/nans_12x10/np/[nan, 5]': 'OK:f863f8f79966868e:float64:binary#e3b0c442',
 'binary/nonf32_3x4/da/[0.3, 2.5, 16777217.0]': 'OK:2df3e3880a4357d8:float64:binary#e3b0c442',
 'binary/nonf32_3x4/da/[1, 2, 3]': 'OK:97960148a812ab12:float64:binary#e3b0c442',
 'binary/nonf32_3x4/da/[]': 'OK:97960148a812ab12:float64:binary#e3b0c442',
 'binary/nonf32_3x4/da/[nan, 5]': 'OK:97960148a812ab12:float64:binary#e3b0c442',
 'binary/nonf32_3x4/np/[0.3, 2.5, 16777217.0]': 'OK:2df3e3880a4357d8:float64:binary#e3b0c442',
 'binary/nonf32_3x4/np/[1, 2, 3]': 'OK:97960148a812ab12:float64:binary#e3b0c442',
 'binary/nonf32_3x4/np/[]': 'OK:97960148a812ab12:float64:binary#e3b0c442',
 'binary/nonf32_3x4/np/[nan, 5]': 'OK:97960148a812ab12:float64:binary#e3b0c442',
 'binary/row_1x13/da/[0.3, 2.5, 16777217.0]': 'OK:bf2f81e85f93e255:float64:binary#e3b0c442',
 'binary/row_1x13/da/[1, 2, 3]': 'OK:bf2f81e85f93e255:float64:binary#e3b0c442',
 'binary/row_1x13/da/[]': 'OK:bf2f81e85f93e255:float64:binary#e3b0c442',
 'binary/row_1x13/da/[nan, 5]': 'OK:bf2f81e85f93e255:float64:binary#e3b0c442',
 'binary/row_1x13/np/[0.3, 2.5, 16777217.0]': 'OK:bf2f81e85f93e255:float64:binary#e3b0c442',
 'binary/row_1x13/np/[1, 2, 3]': 'OK:bf2f81e85f93e255:float64:binary#e3b0c442',
 'binary/row_1x13/np/[]': 'OK:bf2f81e85f93e255:float64:binary#e3b0c442',
 'binary/row_1x13/np/[nan, 5]': 'OK:bf2f81e85f93e255:float64:binary#e3b0c442',
 'binary/ties_5x11/da/[0.3, 2.5, 16777217.0]': 'OK:36671fe2fb235725:float64:binary#e3b0c442',
 'binary/ties_5x11/da/[1, 2, 3]': 'OK:5f4e4959410cae27:float64:binary#e3b0c442',
 'binary/ties_5x11/da/[]': 'OK:36671fe2fb235725:float64:binary#e3b0c442',
 'binary/ties_5x11/da/[nan, 5]': 'OK:5ae04a520d400395:float64:binary#e3b0c442',
 'binary/ties_5x11/np/[0.3, 2.5, 16777217.0]': 'OK:36671fe2fb235725:float64:binary#e3b0c442',
 'binary/ties_5x11/np/[1, 2, 3]': 'OK:5f4e4959410cae27:float64:binary#e3b0c442',
 'binary/ties_5x11/np/[]': 'OK:36671fe2fb235725:float64:binary#e3b0c442',
 'binary/ties_5x11/np/[nan, 5]': 'OK:5ae04a520d400395:float64:binary#e3b0c442',
 'equal_interval/col_13x1/da/2': 'OK:1ef1924c8d02458b:float32:equal_interval#e3b0c442',
 'equal_interval/col_13x1/da/3': 'OK:baf22a6ec283a2e1:float32:equal_interval#e3b0c442',
 'equal_interval/col_13x1/da/5': 'OK:a5e2eac013ffb171:float32:equal_interval#e3b0c442',
 'equal_interval/col_13x1/da/8': 'OK:7e74d4cd0330f117:float32:equal_interval#e3b0c442',
 'equal_interval/col_13x1/np/2': 'OK:1ef1924c8d02458b:float32:equal_interval#e3b0c442',
 'equal_interval/col_13x1/np/3': 'OK:baf22a6ec283a2e1:float32:equal_interval#e3b0c442',
 'equal_interval/col_13x1/np/5': 'OK:a5e2eac013ffb171:float32:equal_interval#e3b0c442',
 'equal_interval/col_13x1/np/8': 'OK:7e74d4cd0330f117:float32:equal_interval#e3b0c442',
 'equal_interval/f32_7x9/da/2': 'OK:22669a4ea46109d4:float32:equal_interval#e3b0c442',
 'equal_interval/f32_7x9/da/3': 'OK:a43c3cbe97865027:float32:equal_interval#e3b0c442',
 'equal_interval/f32_7x9/da/5': 'OK:b35deed2332d56ca:float32:equal_interval#e3b0c442',
 'equal_interval/f32_7x9/da/8': 'OK:0935f67fea622e5c:float32:equal_interval#e3b0c442',
 'equal_interval/f32_7x9/np/2': 'OK:22669a4ea46109d4:float32:equal_interval#e3b0c442',
 'equal_interval/f32_7x9/np/3': 'OK:a43c3cbe97865027:float32:equal_interval#e3b0c442',
 'equal_interval/f32_7x9/np/5': 'OK:b35deed2332d56ca:float32:equal_interval#e3b0c442',
 'equal_interval/f32_7x9/np/8': 'OK:0935f67fea622e5c:float32:equal_interval#e3b0c442',
 'equal_interval/f64_7x9/da/2': 'OK:22669a4ea46109d4:float32:equal_interval#e3b0c442',
 'equal_interval/f64_7x9/da/3': 'OK:a43c3cbe97865027:float32:equal_interval#e3b0c442',
 'equal_interval/f64_7x9/da/5': 'OK:b35deed2332d56ca:float32:equal_interval#e3b0c442',
 'equal_interval/f64_7x9/da/8': 'OK:0935f67fea622e5c:float32:equal_interval#e3b0c442',
 'equal_interval/f64_7x9/np/2': 'OK:22669a4ea46109d4:float32:equal_interval#e3b0c442',
 'equal_interval/f64_7x9/np/3': 'OK:a43c3cbe97865027:float32:equal_interval#e3b0c442',
 'equal_interval/f64_7x9/np/5': 'OK:b35deed2332d56ca:float32:equal_interval#e3b0c442',
 'equal_interval/f64_7x9/np/8': 'OK:0935f67fea622e5c:float32:equal_interval#e3b0c442',
 'equal_interval/int32_6x5/da/2': 'OK:a579d56d467c5dbf:float32:equal_interval#e3b0c442',
 'equal_interval/int32_6x5/da/3': 'OK:93a0a279c14e7b2f:float32:equal_interval#e3b0c442',
 'equal_interval/int32_6x5/da/5': 'OK:6282c86aafed4453:float32:equal_interval#e3b0c442',
 'equal_interval/int32_6x5/da/8': 'OK:51dfe1fc34c3be25:float32:equal_interval#e3b0c442',
 'equal_interval/int32_6x5/np/2': 'OK:a579d56d467c5dbf:float32:equal_interval#e3b0c442',
 'equal_interval/int32_6x5/np/3': 'OK:93a0a279c14e7b2f:float32:equal_interval#e3b0c442',
 'equal_interval/int32_6x5/np/5': 'OK:6282c86aafed4453:float32:equal_interval#e3b0c442',
 'equal_interval/int32_6x5/np/8': 'OK:51dfe1fc34c3be25:float32:equal_interval#e3b0c442',
 'equal_interval/int64_4x4/da/2': 'OK:778ab72c4d67b92d:float32:equal_interval#e3b0c442',
 'equal_interval/int64_4x4/da/3': 'OK:222193fe47ded4ea:float32:equal_interval#e3b0c442',
 'equal_interval/int64_4x4/da/5': 'OK:4f8340b7ddc1689c:float32:equal_interval#e3b0c442',
 'equal_interval/int64_4x4/da/8': 'OK:6babe2e12821a08f:float32:equal_interval#e3b0c442',
 'equal_interval/int64_4x4/np/2': 'OK:778ab72c4d67b92d:float32:equal_interval#e3b0c442',
 'equal_interval/int64_4x4/np/3': 'OK:222193fe47ded4ea:float32:equal_interval#e3b0c442',
 'equal_interval/int64_4x4/np/5': 'OK:4f8340b7ddc1689c:float32:equal_interval#e3b0c442',
 'equal_interval/int64_4x4/np/8': 'OK:6babe2e12821a08f:float32:equal_interval#e3b0c442',
 'equal_interval/nans_12x10/da/2': 'OK:ed7c0cd8b13db0c8:float32:equal_interval#e3b0c442',
 'equal_interval/nans_12x10/da/3': 'OK:c7e02c03007b8b00:float32:equal_interval#e3b0c442',
 'equal_interval/nans_12x10/da/5': 'OK:5a1349b0a713042e:float32:equal_interval#e3b0c442',
 'equal_interval/nans_12x10/da/8': 'OK:cb346821fe0fb4a0:float32:equal_interval#e3b0c442',
 'equal_interval/nans_12x10/np/2': 'OK:ed7c0cd8b13db0c8:float32:equal_interval#e3b0c442',
 'equal_interval/nans_12x10/np/3': 'OK:c7e02c03007b8b00:float32:equal_interval#e3b0c442',
 'equal_interval/nans_12x10/np/5': 'OK:5a1349b0a713042e:float32:equal_interval#e3b0c442',
 'equal_interval/nans_12x10/np/8': 'OK:cb346821fe0fb4a0:float32:equal_interval#e3b0c442',
 'equal_interval/nonf32_3x4/da/2': 'OK:6c3ed5e08c7a4a10:float32:equal_interval#e3b0c442',
 'equal_interval/nonf32_3x4/da/3': 'OK:189669de5b764866:float32:equal_interval#e3b0c442',
 'equal_interval/nonf32_3x4/da/5': 'OK:e6682d323bebe263:float32:equal_interval#e3b0c442',
 'equal_interval/nonf32_3x4/da/8': 'OK:80bebe3ea1575c2b:float32:equal_interval#e3b0c442',
 'equal_interval/nonf32_3x4/np/2': 'OK:6c3ed5e08c7a4a10:float32:equal_interval#e3b0c442',
 'equal_interval/nonf32_3x4/np/3': 'OK:189669de5b764866:float32:equal_interval#e3b0c442',
 'equal_interval/nonf32_3x4/np/5': 'OK:e6682d323bebe263:float32:equal_interval#e3b0c442',
 'equal_interval/nonf32_3x4/np/8': 'OK:80bebe3ea1575c2b:float32:equal_interval#e3b0c442',
 'equal_interval/row_1x13/da/2': 'OK:9a8776d5d1ddb706:float32:equal_interval#e3b0c442',
 'equal_interval/row_1x13/da/3': 'OK:dfb277fc23146fd1:float32:equal_interval#e3b0c442',
 'equal_interval/row_1x13/da/5': 'OK:2693eb23abbeb206:float32:equal_interval#e3b0c442',
 'equal_interval/row_1x13/da/8': 'OK:8dcb79afe1c61bb8:float32:equal_interval#e3b0c442',
 'equal_interval/row_1x13/np/2': 'OK:9a8776d5d1ddb706:float32:equal_interval#e3b0c442',
 'equal_interval/row_1x13/np/3': 'OK:dfb277fc23146fd1:float32:equal_interval#e3b0c442',
 'equal_interval/row_1x13/np/5': 'OK:2693eb23abbeb206:float32:equal_interval#e3b0c442',
 'equal_interval/row_1x13/np/8': 'OK:8dcb79afe1c61bb8:float32:equal_interval#e3b0c442',
 'equal_interval/ties_5x11/da/2': 'OK:be1d3ac75dce59e2:float32:equal_interval#e3b0c442',
 'equal_interval/ties_5x11/da/3': 'OK:b74e77360b205ba2:float32:equal_interval#e3b0c442',
 'equal_interval/ties_5x11/da/5': 'OK:4a281ee964256c55:float32:equal_interval#e3b0c442',
 'equal_interval/ties_5x11/da/8': 'OK:ac405f398920e03d:float32:equal_interval#e3b0c442',
 'equal_interval/ties_5x11/np/2': 'OK:be1d3ac75dce59e2:float32:equal_interval#e3b0c442',
 'equal_interval/ties_5x11/np/3': 'OK:b74e77360b205ba2:float32:equal_interval#e3b0c442',
 'equal_interval/ties_5x11/np/5': 'OK:4a281ee964256c55:float32:equal_interval#e3b0c442',
 'equal_interval/ties_5x11/np/8': 'OK:ac405f398920e03d:float32:equal_interval#e3b0c442',
 'natural_breaks/big/np/4/200': 'OK:337272a2f13f471f:float32:natural_breaks#e3b0c442',
 'natural_breaks/big/np/4/555': 'OK:095702bdbc0e3021:float32:natural_breaks#e3b0c442',
 'natural_breaks/big/np/6/200': 'OK:a34c46f078f2c610:float32:natural_breaks#e3b0c442',
 'natural_breaks/big/np/6/555': 'OK:f8f3f7791e57b7bb:float32:natural_breaks#e3b0c442',
 'natural_breaks/col_13x1/da/2/17': 'ERR:NotImplementedError:natural_breaks() does not support dask with numpy backed DataArray.#e3b0c442',
 'natural_breaks/col_13x1/da/2/20000': 'ERR:NotImplementedError:natural_breaks() does not support dask with numpy backed DataArray.#e3b0c442',
 'natural_breaks/col_13x1/da/2/3': 'ERR:NotImplementedError:natural_breaks() does not support dask with numpy backed DataArray.#e3b0c442',
 'natural_breaks/col_13x1/da/2/None': 'ERR:NotImplementedError:natural_breaks() does not support dask with numpy backed DataArray.#e3b0c442',
 'natural_breaks/col_13x1/da/3/17': 'ERR:NotImplementedError:natural_breaks() does not support dask with numpy backed DataArray.#e3b0c442',
 'natural_breaks/col_13x1/da/3/20000': 'ERR:NotImplementedError:natural_breaks() does not support dask with numpy backed DataArray.#e3b0c442',
 'natural_breaks/col_13x1/da/3/3': 'ERR:NotImplementedError:natural_breaks() does not support dask with numpy backed DataArray.#e3b0c442',
 'natural_breaks/col_13x1/da/3/None': 'ERR:NotImplementedError:natural_breaks() does not support dask with numpy backed DataArray.#e3b0c442',
 'natural_breaks/col_13x1/da/5/17': 'ERR:NotImplementedError:natural_breaks() does not support dask with numpy backed DataArray.#e3b0c442',
 'natural_breaks/col_13x1/da/5/20000': 'ERR:NotImplementedError:natural_breaks() does not support dask with numpy backed DataArray.#e3b0c442',
 'natural_breaks/col_13x1/da/5/3': 'ERR:NotImplementedError:natural_breaks() does not support dask with numpy backed DataArray.#e3b0c442',
 'natural_breaks/col_13x1/da/5/None': 'ERR:NotImplementedError:natural_breaks() does not support dask with numpy backed DataArray.#e3b0c442',
 'natural_breaks/col_13x1/da/8/17': 'ERR:NotImplementedError:natural_breaks() does not support dask with numpy backed DataArray.#e3b0c442',
 'natural_breaks/col_13x1/da/8/20000': 'ERR:NotImplementedError:natural_breaks() does not support dask with numpy backed DataArray.#e3b0c442',
 'natural_breaks/col_13x1/da/8/3': 'ERR:NotImplementedError:natural_breaks() does not support dask with numpy backed DataArray.#e3b0c442',
 'natural_breaks/col_13x1/da/8/None': 'ERR:NotImplementedError:natural_breaks() does not support dask with numpy backed DataArray.#e3b0c442',
 'natural_breaks/col_13x1/np/2/17': 'OK:1ef1924c8d02458b:float32:natural_breaks#e3b0c442',
 'natural_breaks/col_13x1/np/2/20000': 'OK:1ef1924c8d02458b:float32:natural_breaks#e3b0c442',
 'natural_breaks/col_13x1/np/2/3': 'OK:f9a615446f98fcde:float32:natural_breaks#e3b0c442',
 'natural_breaks/col_13x1/np/2/None': 'OK:1ef1924c8d02458b:float32:natural_breaks#e3b0c442',
 'natural_breaks/col_13x1/np/3/17': 'OK:ff863fc37d3e33bd:float32:natural_breaks#e3b0c442',
 'natural_breaks/col_13x1/np/3/20000': 'OK:ff863fc37d3e33bd:float32:natural_breaks#e3b0c442',
 'natural_breaks/col_13x1/np/3/3': 'OK:b21ac20c2725bca1:float32:natural_breaks#e3b0c442',
 'natural_breaks/col_13x1/np/3/None': 'OK:ff863fc37d3e33bd:float32:natural_breaks#e3b0c442',
 'natural_breaks/col_13x1/np/5/17': 'OK:9fe17f33536997fc:float32:natural_breaks#e3b0c442',
 'natural_breaks/col_13x1/np/5/20000': 'OK:9fe17f33536997fc:float32:natural_breaks#e3b0c442',
 'natural_breaks/col_13x1/np/5/3': 'OK:b21ac20c2725bca1:float32:natural_breaks#97f99fb6',
 'natural_breaks/col_13x1/np/5/None': 'OK:9fe17f33536997fc:float32:natural_breaks#e3b0c442',
 'natural_breaks/col_13x1/np/8/17': 'OK:b9206c7787f96d30:float32:natural_breaks#e3b0c442',
 'natural_breaks/col_13x1/np/8/20000': 'OK:b9206c7787f96d30:float32:natural_breaks#e3b0c442',
 'natural_breaks/col_13x1/np/8/3': 'OK:b21ac20c2725bca1:float32:natural_breaks#97f99fb6',
 'natural_breaks/col_13x1/np/8/None': 'OK:b9206c7787f96d30:float32:natural_breaks#e3b0c442',
 'natural_breaks/f32_7x9/da/2/17': 'ERR:NotImplementedError:natural_breaks() does not support dask with numpy backed DataArray.#e3b0c442',
 'natural_breaks/f32_7x9/da/2/20000': 'ERR:NotImplementedError:natural_breaks() does not support dask with numpy backed DataArray.#e3b0c442',
 'natural_breaks/f32_7x9/da/2/3': 'ERR:NotImplementedError:natural_breaks() does not support dask with numpy backed DataArray.#e3b0c442',
 'natural_breaks/f32_7x9/da/2/None': 'ERR:NotImplementedError:natural_breaks() does not support dask with numpy backed DataArray.#e3b0c442',
 'natural_breaks/f32_7x9/da/3/17': 'ERR:NotImplementedError:natural_breaks() does not support dask with numpy backed DataArray.#e3b0c442',
 'natural_breaks/f32_7x9/da/3/20000': 'ERR:NotImplementedError:natural_breaks() does not support dask with numpy backed DataArray.#e3b0c442',
 'natural_breaks/f32_7x9/da/3/3': 'ERR:NotImplementedError:natural_breaks() does not support dask with numpy backed DataArray.#e3b0c442',
 'natural_breaks/f32_7x9/da/3/None': 'ERR:NotImplementedError:natural_breaks() does not support dask with numpy backed DataArray.#e3b0c442',
 'natural_breaks/f32_7x9/da/5/17': 'ERR:NotImplementedError:natural_breaks() does not support dask with numpy backed DataArray.#e3b0c442',
 'natural_breaks/f32_7x9/da/5/20000': 'ERR:NotImplementedError:natural_breaks() does not support dask with numpy backed DataArray.#e3b0c442',
 'natural_breaks/f32_7x9/da/5/3': 'ERR:NotImplementedError:natural_breaks() does not support dask with numpy backed DataArray.#e3b0c442',
 'natural_breaks/f32_7x9/da/5/None': 'ERR:NotImplementedError:natural_breaks() does not support dask with numpy backed DataArray.#e3b0c442',
 'natural_breaks/f32_7x9/da/8/17': 'ERR:NotImplementedError:natural_breaks() does not support dask with numpy backed DataArray.#e3b0c442',
 'natural_breaks/f32_7x9/da/8/20000': 'ERR:NotImplementedError:natural_breaks() does not support dask with numpy backed DataArray.#e3b0c442',
 'natural_breaks/f32_7x9/da/8/3': 'ERR:NotImplementedError:natural_breaks() does not support dask with numpy backed DataArray.#e3b0c442',
 'natural_breaks/f32_7x9/da/8/None': 'ERR:NotImplementedError:natural_breaks() does not support dask with numpy backed DataArray.#e3b0c442',
 'natural_breaks/f32_7x9/np/2/17': 'OK:990d1aa6e9828993:float32:natural_breaks#e3b0c442',
 'natural_breaks/f32_7x9/np/2/20000': 'OK:8cc426b5de5cff49:float32:natural_breaks#e3b0c442',
 'natural_breaks/f32_7x9/np/2/3': 'OK:78e997ed32fc4dd9:float32:natural_breaks#e3b0c442',
 'natural_breaks/f32_7x9/np/2/None': 'OK:8cc426b5de5cff49:float32:natural_breaks#e3b0c442',
 'natural_breaks/f32_7x9/np/3/17': 'OK:98375aa75a704f55:float32:natural_breaks#e3b0c442',
 'natural_breaks/f32_7x9/np/3/20000': 'OK:8a1a50bb7775512f:float32:natural_breaks#e3b0c442',
 'natural_breaks/f32_7x9/np/3/3': 'OK:bd06cda8e75b5f85:float32:natural_breaks#e3b0c442',
 'natural_breaks/f32_7x9/np/3/None': 'OK:8a1a50bb7775512f:float32:natural_breaks#e3b0c442',
 'natural_breaks/f32_7x9/np/5/17': 'OK:645db285b300f456:float32:natural_breaks#e3b0c442',
 'natural_breaks/f32_7x9/np/5/20000': 'OK:08c5fb924d325012:float32:natural_breaks#e3b0c442',
 'natural_breaks/f32_7x9/np/5/3': 'OK:bd06cda8e75b5f85:float32:natural_breaks#97f99fb6',
 'natural_breaks/f32_7x9/np/5/None': 'OK:08c5fb924d325012:float32:natural_breaks#e3b0c442',
 'natural_breaks/f32_7x9/np/8/17': 'OK:513733b4d620bded:float32:natural_breaks#e3b0c442',
 'natural_breaks/f32_7x9/np/8/20000': 'OK:a47c4fa617a85c3b:float32:natural_breaks#e3b0c442',
 'natural_breaks/f32_7x9/np/8/3': 'OK:bd06cda8e75b5f85:float32:natural_breaks#97f99fb6',
 'natural_breaks/f32_7x9/np/8/None': 'OK:a47c4fa617a85c3b:float32:natural_breaks#e3b0c442',
 'natural_breaks/f64_7x9/da/2/17': 'ERR:NotImplementedError:natural_breaks() does not support dask with numpy backed DataArray.#e3b0c442',
 'natural_breaks/f64_7x9/da/2/20000': 'ERR:NotImplementedError:natural_breaks() does not support dask with numpy backed DataArray.#e3b0c442',
 'natural_breaks/f64_7x9/da/2/3': 'ERR:NotImplementedError:natural_breaks() does not support dask with numpy backed DataArray.#e3b0c442',
 'natural_breaks/f64_7x9/da/2/None': 'ERR:NotImplementedError:natural_breaks() does not support dask with numpy backed DataArray.#e3b0c442',
 'natural_breaks/f64_7x9/da/3/17': 'ERR:NotImplementedError:natural_breaks() does not support dask with numpy backed DataArray.#e3b0c442',
 'natural_breaks/f64_7x9/da/3/20000': 'ERR:NotImplementedError:natural_breaks() does not support dask with numpy backed DataArray.#e3b0c442',
 'natural_breaks/f64_7x9/da/3/3': 'ERR:NotImplementedError:natural_breaks() does not support dask with numpy backed DataArray.#e3b0c442',
 'natural_breaks/f64_7x9/da/3/None': 'ERR:NotImplementedError:natural_breaks() does not support dask with numpy backed DataArray.#e3b0c442',
 'natural_breaks/f64_7x9/da/5/17': 'ERR:NotImplementedError:natural_breaks() does not support dask with numpy backed DataArray.#e3b0c442',
 'natural_breaks/f64_7x9/da/5/20000': 'ERR:NotImplementedError:natural_breaks() does not support dask with numpy backed DataArray.#e3b0c442',
 'natural_breaks/f64_7x9/da/5/3': 'ERR:NotImplementedError:natural_breaks() does not support dask with numpy backed DataArray.#e3b0c442',
 'natural_breaks/f64_7x9/da/5/None': 'ERR:NotImplementedError:natural_breaks() does not support dask with numpy backed DataArray.#e3b0c442',
 'natural_breaks/f64_7x9/da/8/17': 'ERR:NotImplementedError:natural_breaks() does not support dask with numpy backed DataArray.#e3b0c442',
 'natural_breaks/f64_7x9/da/8/20000': 'ERR:NotImplementedError:natural_breaks() does not support dask with numpy backed DataArray.#e3b0c442',
 'natural_breaks/f64_7x9/da/8/3': 'ERR:NotImplementedError:natural_breaks() does not support dask with numpy backed DataArray.#e3b0c442',
 'natural_breaks/f64_7x9/da/8/None': 'ERR:NotImplementedError:natural_breaks() does not support dask with numpy backed DataArray.#e3b0c442',
 'natural_breaks/f64_7x9/np/2/17': 'OK:990d1aa6e9828993:float32:natural_breaks#e3b0c442',
 'natural_breaks/f64_7x9/np/2/20000': 'OK:8cc426b5de5cff49:float32:natural_breaks#e3b0c442',
 'natural_breaks/f64_7x9/np/2/3': 'OK:78e997ed32fc4dd9:float32:natural_breaks#e3b0c442',
 'natural_breaks/f64_7x9/np/2/None': 'OK:8cc426b5de5cff49:float32:natural_breaks#e3b0c442',
 'natural_breaks/f64_7x9/np/3/17': 'OK:98375aa75a704f55:float32:natural_breaks#e3b0c442',
 'natural_breaks/f64_7x9/np/3/20000': 'OK:8a1a50bb7775512f:float32:natural_breaks#e3b0c442',
 'natural_breaks/f64_7x9/np/3/3': 'OK:bd06cda8e75b5f85:float32:natural_breaks#e3b0c442',
 'natural_breaks/f64_7x9/np/3/None': 'OK:8a1a50bb7775512f:float32:natural_breaks#e3b0c442',
 'natural_breaks/f64_7x9/np/5/17': 'OK:645db285b300f456:float32:natural_breaks#e3b0c442',
 'natural_breaks/f64_7x9/np/5/20000': 'OK:08c5fb924d325012:float32:natural_breaks#e3b0c442',
 'natural_breaks/f64_7x9/np/5/3': 'OK:bd06cda8e75b5f85:float32:natural_breaks#97f99fb6',
 'natural_breaks/f64_7x9/np/5/None': 'OK:08c5fb924d325012:float32:natural_breaks#e3b0c442',
 'natural_breaks/f64_7x9/np/8/17': 'OK:513733b4d620bded:float32:natural_breaks#e3b0c442',
 'natural_breaks/f64_7x9/np/8/20000': 'OK:a47c4fa617a85c3b:float32:natural_breaks#e3b0c442',
 'natural_breaks/f64_7x9/np/8/3': 'OK:bd06cda8e75b5f85:float32:natural_breaks#97f99fb6',
 'natural_breaks/f64_7x9/np/8/None': 'OK:a47c4fa617a85c3b:float32:natural_breaks#e3b0c442',
 'natural_breaks/int32_6x5/da/2/17': 'ERR:NotImplementedError:natural_breaks() does not support dask with numpy backed DataArray.#e3b0c442',
 'natural_breaks/int32_6x5/da/2/20000': 'ERR:NotImplementedError:natural_breaks() does not support dask with numpy backed DataArray.#e3b0c442',
 'natural_breaks/int32_6x5/da/2/3': 'ERR:NotImplementedError:natural_breaks() does not support dask with numpy backed DataArray.#e3b0c442',
 'natural_breaks/int32_6x5/da/2/None': 'ERR:NotImplementedError:natural_breaks() does not support dask with numpy backed DataArray.#e3b0c442',
 'natural_breaks/int32_6x5/da/3/17': 'ERR:NotImplementedError:natural_breaks() does not support dask with numpy backed DataArray.#e3b0c442',
 'natural_breaks/int32_6x5/da/3/20000': 'ERR:NotImplementedError:natural_breaks() does not support dask with numpy backed DataArray.#e3b0c442',
 'natural_breaks/int32_6x5/da/3/3': 'ERR:NotImplementedError:natural_breaks() does not support dask with numpy backed DataArray.#e3b0c442',
 'natural_breaks/int32_6x5/da/3/None': 'ERR:NotImplementedError:natural_breaks() does not support dask with numpy backed DataArray.#e3b0c442',
 'natural_breaks/int32_6x5/da/5/17': 'ERR:NotImplementedError:natural_breaks() does not support dask with numpy backed DataArray.#e3b0c442',
 'natural_breaks/int32_6x5/da/5/20000': 'ERR:NotImplementedError:natural_breaks() does not support dask with numpy backed DataArray.#e3b0c442',
 'natural_breaks/int32_6x5/da/5/3': 'ERR:NotImplementedError:natural_breaks() does not support dask with numpy backed DataArray.#e3b0c442',
 'natural_breaks/int32_6x5/da/5/None': 'ERR:NotImplementedError:natural_breaks() does not support dask with numpy backed DataArray.#e3b0c442',
 'natural_breaks/int32_6x5/da/8/17': 'ERR:NotImplementedError:natural_breaks() does not support dask with numpy backed DataArray.#e3b0c442',
 'natural_breaks/int32_6x5/da/8/20000': 'ERR:NotImplementedError:natural_breaks() does not support dask with numpy backed DataArray.#e3b0c442',
 'natural_breaks/int32_6x5/da/8/3': 'ERR:NotImplementedError:natural_breaks() does not support dask with numpy backed DataArray.#e3b0c442',
 'natural_breaks/int32_6x5/da/8/None': 'ERR:NotImplementedError:natural_breaks() does not support dask with numpy backed DataArray.#e3b0c442',
 'natural_breaks/int32_6x5/np/2/17': 'OK:2c337e688181890c:float32:natural_breaks#e3b0c442',
 'natural_breaks/int32_6x5/np/2/20000': 'OK:fc0fbb3b73c37b4c:float32:natural_breaks#e3b0c442',
 'natural_breaks/int32_6x5/np/2/3': 'OK:66bd5fd43ea4dd7f:float32:natural_breaks#e3b0c442',
 'natural_breaks/int32_6x5/np/2/None': 'OK:fc0fbb3b73c37b4c:float32:natural_breaks#e3b0c442',
 'natural_breaks/int32_6x5/np/3/17': 'OK:8df13d5a7627ed2d:float32:natural_breaks#e3b0c442',
 'natural_breaks/int32_6x5/np/3/20000': 'OK:8df13d5a7627ed2d:float32:natural_breaks#e3b0c442',
 'natural_breaks/int32_6x5/np/3/3': 'OK:131ef2ada8a4e0bc:float32:natural_breaks#e3b0c442',
 'natural_breaks/int32_6x5/np/3/None': 'OK:8df13d5a7627ed2d:float32:natural_breaks#e3b0c442',
 'natural_breaks/int32_6x5/np/5/17': 'OK:32416eb6750f939f:float32:natural_breaks#e3b0c442',
 'natural_breaks/int32_6x5/np/5/20000': 'OK:6282c86aafed4453:float32:natural_breaks#e3b0c442',
 'natural_breaks/int32_6x5/np/5/3': 'OK:131ef2ada8a4e0bc:float32:natural_breaks#97f99fb6',
 'natural_breaks/int32_6x5/np/5/None': 'OK:6282c86aafed4453:float32:natural_breaks#e3b0c442',
 'natural_breaks/int32_6x5/np/8/17': 'OK:78b405c47620b091:float32:natural_breaks#e3b0c442',
 'natural_breaks/int32_6x5/np/8/20000': 'OK:51dfe1fc34c3be25:float32:natural_breaks#e3b0c442',
 'natural_breaks/int32_6x5/np/8/3': 'OK:131ef2ada8a4e0bc:float32:natural_breaks#97f99fb6',
 'natural_breaks/int32_6x5/np/8/None': 'OK:51dfe1fc34c3be25:float32:natural_breaks#e3b0c442',
 'natural_breaks/int64_4x4/da/2/17': 'ERR:NotImplementedError:natural_breaks() does not support dask with numpy backed DataArray.#e3b0c442',
 'natural_breaks/int64_4x4/da/2/20000': 'ERR:NotImplementedError:natural_breaks() does not support dask with numpy backed DataArray.#e3b0c442',
 'natural_breaks/int64_4x4/da/2/3': 'ERR:NotImplementedError:natural_breaks() does not support dask with numpy backed DataArray.#e3b0c442',
 'natural_breaks/int64_4x4/da/2/None': 'ERR:NotImplementedError:natural_breaks() does not support dask with numpy backed DataArray.#e3b0c442',
 'natural_breaks/int64_4x4/da/3/17': 'ERR:NotImplementedError:natural_breaks() does not support dask with numpy backed DataArray.#e3b0c442',
 'natural_breaks/int64_4x4/da/3/20000': 'ERR:NotImplementedError:natural_breaks() does not support dask with numpy backed DataArray.#e3b0c442',
 'natural_breaks/int64_4x4/da/3/3': 'ERR:NotImplementedError:natural_breaks() does not support dask with numpy backed DataArray.#e3b0c442',
 'natural_breaks/int64_4x4/da/3/None': 'ERR:NotImplementedError:natural_breaks() does not support dask with numpy backed DataArray.#e3b0c442',
 'natural_breaks/int64_4x4/da/5/17': 'ERR:NotImplementedError:natural_breaks() does not support dask with numpy backed DataArray.#e3b0c442',
 'natural_breaks/int64_4x4/da/5/20000': 'ERR:NotImplementedError:natural_breaks() does not support dask with numpy backed DataArray.#e3b0c442',
 'natural_breaks/int64_4x4/da/5/3': 'ERR:NotImplementedError:natural_breaks() does not support dask with numpy backed DataArray.#e3b0c442',
 'natural_breaks/int64_4x4/da/5/None': 'ERR:NotImplementedError:natural_breaks() does not support dask with numpy backed DataArray.#e3b0c442',
 'natural_breaks/int64_4x4/da/8/17': 'ERR:NotImplementedError:natural_breaks() does not support dask with numpy backed DataArray.#e3b0c442',
 'natural_breaks/int64_4x4/da/8/20000': 'ERR:NotImplementedError:natural_breaks() does not support dask with numpy backed DataArray.#e3b0c442',
 'natural_breaks/int64_4x4/da/8/3': 'ERR:NotImplementedError:natural_breaks() does not support dask with numpy backed DataArray.#e3b0c442',
 'natural_breaks/int64_4x4/da/8/None': 'ERR:NotImplementedError:natural_breaks() does not support dask with numpy backed DataArray.#e3b0c442',
 'natural_breaks/int64_4x4/np/2/17': 'OK:778ab72c4d67b92d:float32:natural_breaks#e3b0c442',
 'natural_breaks/int64_4x4/np/2/20000': 'OK:778ab72c4d67b92d:float32:natural_breaks#e3b0c442',
 'natural_breaks/int64_4x4/np/2/3': 'OK:791e1040b3440ad0:float32:natural_breaks#e3b0c442',
 'natural_breaks/int64_4x4/np/2/None': 'OK:778ab72c4d67b92d:float32:natural_breaks#e3b0c442',
 'natural_breaks/int64_4x4/np/3/17': 'OK:7fb80b5660dc8536:float32:natural_breaks#e3b0c442',
 'natural_breaks/int64_4x4/np/3/20000': 'OK:7fb80b5660dc8536:float32:natural_breaks#e3b0c442',
 'natural_breaks/int64_4x4/np/3/3': 'OK:3ac0fd71d8505c05:float32:natural_breaks#e3b0c442',
 'natural_breaks/int64_4x4/np/3/None': 'OK:7fb80b5660dc8536:float32:natural_breaks#e3b0c442',
 'natural_breaks/int64_4x4/np/5/17': 'OK:c87fa6f6f3a5f8e8:float32:natural_breaks#e3b0c442',
 'natural_breaks/int64_4x4/np/5/20000': 'OK:c87fa6f6f3a5f8e8:float32:natural_breaks#e3b0c442',
 'natural_breaks/int64_4x4/np/5/3': 'OK:3ac0fd71d8505c05:float32:natural_breaks#97f99fb6',
 'natural_breaks/int64_4x4/np/5/None': 'OK:c87fa6f6f3a5f8e8:float32:natural_breaks#e3b0c442',
 'natural_breaks/int64_4x4/np/8/17': 'OK:8d5461173ebe55ff:float32:natural_breaks#e3b0c442',
 'natural_breaks/int64_4x4/np/8/20000': 'OK:8d5461173ebe55ff:float32:natural_breaks#e3b0c442',
 'natural_breaks/int64_4x4/np/8/3': 'OK:3ac0fd71d8505c05:float32:natural_breaks#97f99fb6',
 'natural_breaks/int64_4x4/np/8/None': 'OK:8d5461173ebe55ff:float32:natural_breaks#e3b0c442',
 'natural_breaks/nans_12x10/da/2/17': 'ERR:NotImplementedError:natural_breaks() does not support dask with numpy backed DataArray.#e3b0c442',
 'natural_breaks/nans_12x10/da/2/20000': 'ERR:NotImplementedError:natural_breaks() does not support dask with numpy backed DataArray.#e3b0c442',
 'natural_breaks/nans_12x10/da/2/3': 'ERR:NotImplementedError:natural_breaks() does not support dask with numpy backed DataArray.#e3b0c442',
 'natural_breaks/nans_12x10/da/2/None': 'ERR:NotImplementedError:natural_breaks() does not support dask with numpy backed DataArray.#e3b0c442',
 'natural_breaks/nans_12x10/da/3/17': 'ERR:NotImplementedError:natural_breaks() does not support dask with numpy backed DataArray.#e3b0c442',
 'natural_breaks/nans_12x10/da/3/20000': 'ERR:NotImplementedError:natural_breaks() does not support dask with numpy backed DataArray.#e3b0c442',
 'natural_breaks/nans_12x10/da/3/3': 'ERR:NotImplementedError:natural_breaks() does not support dask with numpy backed DataArray.#e3b0c442',
 'natural_breaks/nans_12x10/da/3/None': 'ERR:NotImplementedError:natural_breaks() does not support dask with numpy backed DataArray.#e3b0c442',
 'natural_breaks/nans_12x10/da/5/17': 'ERR:NotImplementedError:natural_breaks() does not support dask with numpy backed DataArray.#e3b0c442',
 'natural_breaks/nans_12x10/da/5/20000': 'ERR:NotImplementedError:natural_breaks() does not support dask with numpy backed DataArray.#e3b0c442',
 'natural_breaks/nans_12x10/da/5/3': 'ERR:NotImplementedError:natural_breaks() does not support dask with numpy backed DataArray.#e3b0c442',
 'natural_breaks/nans_12x10/da/5/None': 'ERR:NotImplementedError:natural_breaks() does not support dask with numpy backed DataArray.#e3b0c442',
 'natural_breaks/nans_12x10/da/8/17': 'ERR:NotImplementedError:natural_breaks() does not support dask with numpy backed DataArray.#e3b0c442',
 'natural_breaks/nans_12x10/da/8/20000': 'ERR:NotImplementedError:natural_breaks() does not support dask with numpy backed DataArray.#e3b0c442',
 'natural_breaks/nans_12x10/da/8/3': 'ERR:NotImplementedError:natural_breaks() does not support dask with numpy backed DataArray.#e3b0c442',
 'natural_breaks/nans_12x10/da/8/None': 'ERR:NotImplementedError:natural_breaks() does not support dask with numpy backed DataArray.#e3b0c442',
 'natural_breaks/nans_12x10/np/2/17': 'OK:038253093fb1b9f1:float32:natural_breaks#e3b0c442',
 'natural_breaks/nans_12x10/np/2/20000': 'OK:4a33a4653c961e33:float32:natural_breaks#e3b0c442',
 'natural_breaks/nans_12x10/np/2/3': 'OK:038253093fb1b9f1:float32:natural_breaks#e3b0c442',
 'natural_breaks/nans_12x10/np/2/None': 'OK:4a33a4653c961e33:float32:natural_breaks#e3b0c442',
 'natural_breaks/nans_12x10/np/3/17': 'OK:cc42b58f0e5bc990:float32:natural_breaks#e3b0c442',
 'natural_breaks/nans_12x10/np/3/20000': 'OK:c7e02c03007b8b00:float32:natural_breaks#e3b0c442',
 'natural_breaks/nans_12x10/np/3/3': 'OK:0a3fc495c4a2215f:float32:natural_breaks#e3b0c442',
 'natural_breaks/nans_12x10/np/3/None': 'OK:c7e02c03007b8b00:float32:natural_breaks#e3b0c442',
 'natural_breaks/nans_12x10/np/5/17': 'OK:0fbffce62f9c52f9:float32:natural_breaks#e3b0c442',
 'natural_breaks/nans_12x10/np/5/20000': 'OK:5224d345d1abe088:float32:natural_breaks#e3b0c442',
 'natural_breaks/nans_12x10/np/5/3': 'OK:0a3fc495c4a2215f:float32:natural_breaks#97f99fb6',
 'natural_breaks/nans_12x10/np/5/None': 'OK:5224d345d1abe088:float32:natural_breaks#e3b0c442',
 'natural_breaks/nans_12x10/np/8/17': 'OK:47f7efc6dc738b87:float32:natural_breaks#e3b0c442',
 'natural_breaks/nans_12x10/np/8/20000': 'OK:16b892d98313fe4c:float32:natural_breaks#e3b0c442',
 'natural_breaks/nans_12x10/np/8/3': 'OK:0a3fc495c4a2215f:float32:natural_breaks#97f99fb6',
 'natural_breaks/nans_12x10/np/8/None': 'OK:16b892d98313fe4c:float32:natural_breaks#e3b0c442',
 'natural_breaks/nonf32_3x4/da/2/17': 'ERR:NotImplementedError:natural_breaks() does not support dask with numpy backed DataArray.#e3b0c442',
 'natural_breaks/nonf32_3x4/da/2/20000': 'ERR:NotImplementedError:natural_breaks() does not support dask with numpy backed DataArray.#e3b0c442',
 'natural_breaks/nonf32_3x4/da/2/3': 'ERR:NotImplementedError:natural_breaks() does not support dask with numpy backed DataArray.#e3b0c442',
 'natural_breaks/nonf32_3x4/da/2/None': 'ERR:NotImplementedError:natural_breaks() does not support dask with numpy backed DataArray.#e3b0c442',
 'natural_breaks/nonf32_3x4/da/3/17': 'ERR:NotImplementedError:natural_breaks() does not support dask with numpy backed DataArray.#e3b0c442',
 'natural_breaks/nonf32_3x4/da/3/20000': 'ERR:NotImplementedError:natural_breaks() does not support dask with numpy backed DataArray.#e3b0c442',
 'natural_breaks/nonf32_3x4/da/3/3': 'ERR:NotImplementedError:natural_breaks() does not support dask with numpy backed DataArray.#e3b0c442',
 'natural_breaks/nonf32_3x4/da/3/None': 'ERR:NotImplementedError:natural_breaks() does not support dask with numpy backed DataArray.#e3b0c442',
 'natural_breaks/nonf32_3x4/da/5/17': 'ERR:NotImplementedError:natural_breaks() does not support dask with numpy backed DataArray.#e3b0c442',
 'natural_breaks/nonf32_3x4/da/5/20000': 'ERR:NotImplementedError:natural_breaks() does not support dask with numpy backed DataArray.#e3b0c442',
 'natural_breaks/nonf32_3x4/da/5/3': 'ERR:NotImplementedError:natural_breaks() does not support dask with numpy backed DataArray.#e3b0c442',
 'natural_breaks/nonf32_3x4/da/5/None': 'ERR:NotImplementedError:natural_breaks() does not support dask with numpy backed DataArray.#e3b0c442',
 'natural_breaks/nonf32_3x4/da/8/17': 'ERR:NotImplementedError:natural_breaks() does not support dask with numpy backed DataArray.#e3b0c442',
 'natural_breaks/nonf32_3x4/da/8/20000': 'ERR:NotImplementedError:natural_breaks() does not support dask with numpy backed DataArray.#e3b0c442',
 'natural_breaks/nonf32_3x4/da/8/3': 'ERR:NotImplementedError:natural_breaks() does not support dask with numpy backed DataArray.#e3b0c442',
 'natural_breaks/nonf32_3x4/da/8/None': 'ERR:NotImplementedError:natural_breaks() does not support dask with numpy backed DataArray.#e3b0c442',
 'natural_breaks/nonf32_3x4/np/2/17': 'OK:6c3ed5e08c7a4a10:float32:natural_breaks#e3b0c442',
 'natural_breaks/nonf32_3x4/np/2/20000': 'OK:6c3ed5e08c7a4a10:float32:natural_breaks#e3b0c442',
 'natural_breaks/nonf32_3x4/np/2/3': 'OK:ac0f80ce797de8fa:float32:natural_breaks#97f99fb6',
 'natural_breaks/nonf32_3x4/np/2/None': 'OK:6c3ed5e08c7a4a10:float32:natural_breaks#e3b0c442',
 'natural_breaks/nonf32_3x4/np/3/17': 'OK:bddc9db0e87c9bfa:float32:natural_breaks#e3b0c442',
 'natural_breaks/nonf32_3x4/np/3/20000': 'OK:bddc9db0e87c9bfa:float32:natural_breaks#e3b0c442',
 'natural_breaks/nonf32_3x4/np/3/3': 'OK:ac0f80ce797de8fa:float32:natural_breaks#97f99fb6',
 'natural_breaks/nonf32_3x4/np/3/None': 'OK:bddc9db0e87c9bfa:float32:natural_breaks#e3b0c442',
 'natural_breaks/nonf32_3x4/np/5/17': 'OK:293a115c58793970:float32:natural_breaks#e3b0c442',
 'natural_breaks/nonf32_3x4/np/5/20000': 'OK:293a115c58793970:float32:natural_breaks#e3b0c442',
 'natural_breaks/nonf32_3x4/np/5/3': 'OK:ac0f80ce797de8fa:float32:natural_breaks#97f99fb6',
 'natural_breaks/nonf32_3x4/np/5/None': 'OK:293a115c58793970:float32:natural_breaks#e3b0c442',
 'natural_breaks/nonf32_3x4/np/8/17': 'OK:344c50fd6a17a97c:float32:natural_breaks#e3b0c442',
 'natural_breaks/nonf32_3x4/np/8/20000': 'OK:344c50fd6a17a97c:float32:natural_breaks#e3b0c442',
 'natural_breaks/nonf32_3x4/np/8/3': 'OK:ac0f80ce797de8fa:float32:natural_breaks#97f99fb6',
 'natural_breaks/nonf32_3x4/np/8/None': 'OK:344c50fd6a17a97c:float32:natural_breaks#e3b0c442',
 'natural_breaks/row_1x13/da/2/17': 'ERR:NotImplementedError:natural_breaks() does not support dask with numpy backed DataArray.#e3b0c442',
 'natural_breaks/row_1x13/da/2/20000': 'ERR:NotImplementedError:natural_breaks() does not support dask with numpy backed DataArray.#e3b0c442',
 'natural_breaks/row_1x13/da/2/3': 'ERR:NotImplementedError:natural_breaks() does not support dask with numpy backed DataArray.#e3b0c442',
 'natural_breaks/row_1x13/da/2/None': 'ERR:NotImplementedError:natural_breaks() does not support dask with numpy backed DataArray.#e3b0c442',
 'natural_breaks/row_1x13/da/3/17': 'ERR:NotImplementedError:natural_breaks() does not support dask with numpy backed DataArray.#e3b0c442',
 'natural_breaks/row_1x13/da/3/20000': 'ERR:NotImplementedError:natural_breaks() does not support dask with numpy backed DataArray.#e3b0c442',
 'natural_breaks/row_1x13/da/3/3': 'ERR:NotImplementedError:natural_breaks() does not support dask with numpy backed DataArray.#e3b0c442',
 'natural_breaks/row_1x13/da/3/None': 'ERR:NotImplementedError:natural_breaks() does not support dask with numpy backed DataArray.#e3b0c442',
 'natural_breaks/row_1x13/da/5/17': 'ERR:NotImplementedError:natural_breaks() does not support dask with numpy backed DataArray.#e3b0c442',
 'natural_breaks/row_1x13/da/5/20000': 'ERR:NotImplementedError:natural_breaks() does not support dask with numpy backed DataArray.#e3b0c442',
 'natural_breaks/row_1x13/da/5/3': 'ERR:NotImplementedError:natural_breaks() does not support dask with numpy backed DataArray.#e3b0c442',
 'natural_breaks/row_1x13/da/5/None': 'ERR:NotImplementedError:natural_breaks() does not support dask with numpy backed DataArray.#e3b0c442',
 'natural_breaks/row_1x13/da/8/17': 'ERR:NotImplementedError:natural_breaks() does not support dask with numpy backed DataArray.#e3b0c442',
 'natural_breaks/row_1x13/da/8/20000': 'ERR:NotImplementedError:natural_breaks() does not support dask with numpy backed DataArray.#e3b0c442',
 'natural_breaks/row_1x13/da/8/3': 'ERR:NotImplementedError:natural_breaks() does not support dask with numpy backed DataArray.#e3b0c442',
 'natural_breaks/row_1x13/da/8/None': 'ERR:NotImplementedError:natural_breaks() does not support dask with numpy backed DataArray.#e3b0c442',
 'natural_breaks/row_1x13/np/2/17': 'OK:9a8776d5d1ddb706:float32:natural_breaks#e3b0c442',
 'natural_breaks/row_1x13/np/2/20000': 'OK:9a8776d5d1ddb706:float32:natural_breaks#e3b0c442',
 'natural_breaks/row_1x13/np/2/3': 'OK:498ad5ff48587671:float32:natural_breaks#e3b0c442',
 'natural_breaks/row_1x13/np/2/None': 'OK:9a8776d5d1ddb706:float32:natural_breaks#e3b0c442',
 'natural_breaks/row_1x13/np/3/17': 'OK:1756944750f414b4:float32:natural_breaks#e3b0c442',
 'natural_breaks/row_1x13/np/3/20000': 'OK:1756944750f414b4:float32:natural_breaks#e3b0c442',
 'natural_breaks/row_1x13/np/3/3': 'OK:e409e9280876daaf:float32:natural_breaks#e3b0c442',
 'natural_breaks/row_1x13/np/3/None': 'OK:1756944750f414b4:float32:natural_breaks#e3b0c442',
 'natural_breaks/row_1x13/np/5/17': 'OK:4a5652db37dbe31e:float32:natural_breaks#e3b0c442',
 'natural_breaks/row_1x13/np/5/20000': 'OK:4a5652db37dbe31e:float32:natural_breaks#e3b0c442',
 'natural_breaks/row_1x13/np/5/3': 'OK:e409e9280876daaf:float32:natural_breaks#97f99fb6',
 'natural_breaks/row_1x13/np/5/None': 'OK:4a5652db37dbe31e:float32:natural_breaks#e3b0c442',
 'natural_breaks/row_1x13/np/8/17': 'OK:0a72f50f94485e52:float32:natural_breaks#e3b0c442',
 'natural_breaks/row_1x13/np/8/20000': 'OK:0a72f50f94485e52:float32:natural_breaks#e3b0c442',
 'natural_breaks/row_1x13/np/8/3': 'OK:e409e9280876daaf:float32:natural_breaks#97f99fb6',
 'natural_breaks/row_1x13/np/8/None': 'OK:0a72f50f94485e52:float32:natural_breaks#e3b0c442',
 'natural_breaks/ties_5x11/da/2/17': 'ERR:NotImplementedError:natural_breaks() does not support dask with numpy backed DataArray.#e3b0c442',
 'natural_breaks/ties_5x11/da/2/20000': 'ERR:NotImplementedError:natural_breaks() does not support dask with numpy backed DataArray.#e3b0c442',
 'natural_breaks/ties_5x11/da/2/3': 'ERR:NotImplementedError:natural_breaks() does not support dask with numpy backed DataArray.#e3b0c442',
 'natural_breaks/ties_5x11/da/2/None': 'ERR:NotImplementedError:natural_breaks() does not support dask with numpy backed DataArray.#e3b0c442',
 'natural_breaks/ties_5x11/da/3/17': 'ERR:NotImplementedError:natural_breaks() does not support dask with numpy backed DataArray.#e3b0c442',
 'natural_breaks/ties_5x11/da/3/20000': 'ERR:NotImplementedError:natural_breaks() does not support dask with numpy backed DataArray.#e3b0c442',
 'natural_breaks/ties_5x11/da/3/3': 'ERR:NotImplementedError:natural_breaks() does not support dask with numpy backed DataArray.#e3b0c442',
 'natural_breaks/ties_5x11/da/3/None': 'ERR:NotImplementedError:natural_breaks() does not support dask with numpy backed DataArray.#e3b0c442',
 'natural_breaks/ties_5x11/da/5/17': 'ERR:NotImplementedError:natural_breaks() does not support dask with numpy backed DataArray.#e3b0c442',
 'natural_breaks/ties_5x11/da/5/20000': 'ERR:NotImplementedError:natural_breaks() does not support dask with numpy backed DataArray.#e3b0c442',
 'natural_breaks/ties_5x11/da/5/3': 'ERR:NotImplementedError:natural_breaks() does not support dask with numpy backed DataArray.#e3b0c442',
 'natural_breaks/ties_5x11/da/5/None': 'ERR:NotImplementedError:natural_breaks() does not support dask with numpy backed DataArray.#e3b0c442',
 'natural_breaks/ties_5x11/da/8/17': 'ERR:NotImplementedError:natural_breaks() does not support dask with numpy backed DataArray.#e3b0c442',
 'natural_breaks/ties_5x11/da/8/20000': 'ERR:NotImplementedError:natural_breaks() does not support dask with numpy backed DataArray.#e3b0c442',
 'natural_breaks/ties_5x11/da/8/3': 'ERR:NotImplementedError:natural_breaks() does not support dask with numpy backed DataArray.#e3b0c442',
 'natural_breaks/ties_5x11/da/8/None': 'ERR:NotImplementedError:natural_breaks() does not support dask with numpy backed DataArray.#e3b0c442',
 'natural_breaks/ties_5x11/np/2/17': 'OK:8b6231de5e7671c8:float32:natural_breaks#e3b0c442',
 'natural_breaks/ties_5x11/np/2/20000': 'OK:be1d3ac75dce59e2:float32:natural_breaks#e3b0c442',
 'natural_breaks/ties_5x11/np/2/3': 'OK:be1d3ac75dce59e2:float32:natural_breaks#e3b0c442',
 'natural_breaks/ties_5x11/np/2/None': 'OK:be1d3ac75dce59e2:float32:natural_breaks#e3b0c442',
 'natural_breaks/ties_5x11/np/3/17': 'OK:b74e77360b205ba2:float32:natural_breaks#e3b0c442',
 'natural_breaks/ties_5x11/np/3/20000': 'OK:b74e77360b205ba2:float32:natural_breaks#e3b0c442',
 'natural_breaks/ties_5x11/np/3/3': 'OK:be1d3ac75dce59e2:float32:natural_breaks#97f99fb6',
 'natural_breaks/ties_5x11/np/3/None': 'OK:b74e77360b205ba2:float32:natural_breaks#e3b0c442',
 'natural_breaks/ties_5x11/np/5/17': 'OK:4a281ee964256c55:float32:natural_breaks#e3b0c442',
 'natural_breaks/ties_5x11/np/5/20000': 'OK:384b26665e4c7c17:float32:natural_breaks#e3b0c442',
 'natural_breaks/ties_5x11/np/5/3': 'OK:be1d3ac75dce59e2:float32:natural_breaks#97f99fb6',
 'natural_breaks/ties_5x11/np/5/None': 'OK:384b26665e4c7c17:float32:natural_breaks#e3b0c442',
 'natural_breaks/ties_5x11/np/8/17': 'OK:8f5bb70b0498619b:float32:natural_breaks#97f99fb6',
 'natural_breaks/ties_5x11/np/8/20000': 'OK:8f5bb70b0498619b:float32:natural_breaks#97f99fb6',
 'natural_breaks/ties_5x11/np/8/3': 'OK:be1d3ac75dce59e2:float32:natural_breaks#97f99fb6',
 'natural_breaks/ties_5x11/np/8/None': 'OK:8f5bb70b0498619b:float32:natural_breaks#97f99fb6',
 'quantile/col_13x1/da/2': 'OK:96972eb6da9753fb:float32:quantile#e3b0c442',
 'quantile/col_13x1/da/3': 'OK:4a21fdcd49e92668:float32:quantile#e3b0c442',
 'quantile/col_13x1/da/5': 'OK:8a525af591260d4d:float32:quantile#e3b0c442',
 'quantile/col_13x1/da/8': 'OK:6e0f5d0cba45d43f:float32:quantile#e3b0c442',
 'quantile/col_13x1/np/2': 'OK:c2c288187f706b19:float32:quantile#e3b0c442',
 'quantile/col_13x1/np/3': 'OK:3a21e77714957984:float32:quantile#e3b0c442',
 'quantile/col_13x1/np/5': 'OK:f42c1174ea07033e:float32:quantile#e3b0c442',
 'quantile/col_13x1/np/8': 'OK:61c8f8cef52cb599:float32:quantile#e3b0c442',
 'quantile/f32_7x9/da/2': 'OK:b60af3988ed695aa:float32:quantile#e3b0c442',
 'quantile/f32_7x9/da/3': 'OK:2e0f594a13b40890:float32:quantile#e3b0c442',
 'quantile/f32_7x9/da/5': 'OK:a4a009bef1a316c3:float32:quantile#e3b0c442',
 'quantile/f32_7x9/da/8': 'OK:0a375589129de0a4:float32:quantile#e3b0c442',
 'quantile/f32_7x9/np/2': 'OK:f3f67c09ac953d84:float32:quantile#e3b0c442',
 'quantile/f32_7x9/np/3': 'OK:888b5d4337ac2318:float32:quantile#e3b0c442',
 'quantile/f32_7x9/np/5': 'OK:6ae388272fb47f3c:float32:quantile#e3b0c442',
 'quantile/f32_7x9/np/8': 'OK:9436b3420a6903e3:float32:quantile#e3b0c442',
 'quantile/f64_7x9/da/2': 'OK:b60af3988ed695aa:float32:quantile#e3b0c442',
 'quantile/f64_7x9/da/3': 'OK:2e0f594a13b40890:float32:quantile#e3b0c442',
 'quantile/f64_7x9/da/5': 'OK:a4a009bef1a316c3:float32:quantile#e3b0c442',
 'quantile/f64_7x9/da/8': 'OK:0a375589129de0a4:float32:quantile#e3b0c442',
 'quantile/f64_7x9/np/2': 'OK:f3f67c09ac953d84:float32:quantile#e3b0c442',
 'quantile/f64_7x9/np/3': 'OK:888b5d4337ac2318:float32:quantile#e3b0c442',
 'quantile/f64_7x9/np/5': 'OK:6ae388272fb47f3c:float32:quantile#e3b0c442',
 'quantile/f64_7x9/np/8': 'OK:9436b3420a6903e3:float32:quantile#e3b0c442',
 'quantile/int32_6x5/da/2': 'OK:a579d56d467c5dbf:float32:quantile#e3b0c442',
 'quantile/int32_6x5/da/3': 'OK:3d75c78aa01cff85:float32:quantile#e3b0c442',
 'quantile/int32_6x5/da/5': 'OK:c760b511670362c5:float32:quantile#e3b0c442',
 'quantile/int32_6x5/da/8': 'OK:a84593cbad3cb9b5:float32:quantile#e3b0c442',
 'quantile/int32_6x5/np/2': 'OK:fc0fbb3b73c37b4c:float32:quantile#e3b0c442',
 'quantile/int32_6x5/np/3': 'OK:b01e8d376a5bf0fa:float32:quantile#e3b0c442',
 'quantile/int32_6x5/np/5': 'OK:6ca0211fa05aefe3:float32:quantile#e3b0c442',
 'quantile/int32_6x5/np/8': 'OK:aa6cc0469c0da903:float32:quantile#e3b0c442',
 'quantile/int64_4x4/da/2': 'OK:77a2d00036d2122d:float32:quantile#e3b0c442',
 'quantile/int64_4x4/da/3': 'OK:e208462c09e975f2:float32:quantile#e3b0c442',
 'quantile/int64_4x4/da/5': 'OK:6eb1945f3a622ae9:float32:quantile#e3b0c442',
 'quantile/int64_4x4/da/8': 'OK:6fca58e927e57f71:float32:quantile#e3b0c442',
 'quantile/int64_4x4/np/2': 'OK:9252449a8c525824:float32:quantile#e3b0c442',
 'quantile/int64_4x4/np/3': 'OK:c836f17614844dd4:float32:quantile#e3b0c442',
 'quantile/int64_4x4/np/5': 'OK:e246da3d4875a1a4:float32:quantile#e3b0c442',
 'quantile/int64_4x4/np/8': 'OK:3f8700e519a38643:float32:quantile#e3b0c442',
 'quantile/nans_12x10/da/2': 'OK:d3b288a19ee86a16:float32:quantile#e3b0c442',
 'quantile/nans_12x10/da/3': 'OK:617683cecfc910ad:float32:quantile#e3b0c442',
 'quantile/nans_12x10/da/5': 'OK:276501d38d8c8f06:float32:quantile#e3b0c442',
 'quantile/nans_12x10/da/8': 'OK:b00c8566acb850b7:float32:quantile#e3b0c442',
 'quantile/nans_12x10/np/2': 'OK:4a33a4653c961e33:float32:quantile#e3b0c442',
 'quantile/nans_12x10/np/3': 'OK:5e60514e114a3c20:float32:quantile#e3b0c442',
 'quantile/nans_12x10/np/5': 'OK:25455105ed9c2407:float32:quantile#e3b0c442',
 'quantile/nans_12x10/np/8': 'OK:a5f1678f90e5d817:float32:quantile#e3b0c442',
 'quantile/nonf32_3x4/da/2': 'OK:c3bc54f38eb2adaa:float32:quantile#e3b0c442',
 'quantile/nonf32_3x4/da/3': 'OK:fb4953400a7f86ce:float32:quantile#e3b0c442',
 'quantile/nonf32_3x4/da/5': 'OK:9e7568233f033638:float32:quantile#e3b0c442',
 'quantile/nonf32_3x4/da/8': 'OK:7b6ce8381f9a384b:float32:quantile#e3b0c442',
 'quantile/nonf32_3x4/np/2': 'OK:3d85bd635d1966d8:float32:quantile#e3b0c442',
 'quantile/nonf32_3x4/np/3': 'OK:fb4953400a7f86ce:float32:quantile#e3b0c442',
 'quantile/nonf32_3x4/np/5': 'OK:1aac08a320de60eb:float32:quantile#e3b0c442',
 'quantile/nonf32_3x4/np/8': 'OK:08e8ef6eb0b881ac:float32:quantile#e3b0c442',
 'quantile/row_1x13/da/2': 'OK:9a8776d5d1ddb706:float32:quantile#e3b0c442',
 'quantile/row_1x13/da/3': 'OK:dfb277fc23146fd1:float32:quantile#e3b0c442',
 'quantile/row_1x13/da/5': 'OK:9637f47fa578f812:float32:quantile#e3b0c442',
 'quantile/row_1x13/da/8': 'OK:9c763e2937ee2543:float32:quantile#e3b0c442',
 'quantile/row_1x13/np/2': 'OK:9a8776d5d1ddb706:float32:quantile#e3b0c442',
 'quantile/row_1x13/np/3': 'OK:16d773f285205231:float32:quantile#e3b0c442',
 'quantile/row_1x13/np/5': 'OK:c3220bf51c5dc69a:float32:quantile#e3b0c442',
 'quantile/row_1x13/np/8': 'OK:3abe64a860b1d431:float32:quantile#e3b0c442',
 'quantile/ties_5x11/da/2': 'OK:8b6231de5e7671c8:float32:quantile#e3b0c442',
 'quantile/ties_5x11/da/3': 'OK:6d3c11aa91d2f524:float32:quantile#e3b0c442',
 'quantile/ties_5x11/da/5': 'OK:60b5840db61490cf:float32:quantile#e3b0c442',
 'quantile/ties_5x11/da/8': 'OK:35d6c6420ac84142:float32:quantile#e3b0c442',
 'quantile/ties_5x11/np/2': 'OK:8b6231de5e7671c8:float32:quantile#e3b0c442',
 'quantile/ties_5x11/np/3': 'OK:0a7991f8b07f51e3:float32:quantile#e3b0c442',
 'quantile/ties_5x11/np/5': 'OK:60b5840db61490cf:float32:quantile#a44edd30',
 'quantile/ties_5x11/np/8': 'OK:35d6c6420ac84142:float32:quantile#bd5ecee3',
 'reclassify/col_13x1/da/[-20, -17, -14, -11, -8, -5, -2, 1, 4, 7, 10, 13, 16, 19]': 'OK:b50fb650a9004ae7:float32:reclassify#e3b0c442',
 'reclassify/col_13x1/da/[-inf, 0, inf]': 'OK:bce8e39810eb6310:float32:reclassify#e3b0c442',
 'reclassify/col_13x1/da/[0, 2, 4]': 'OK:66ff2ac7278ca3a7:float32:reclassify#e3b0c442',
 'reclassify/col_13x1/da/[1.5]': 'OK:eaca4cff3cb02c15:float32:reclassify#e3b0c442',
 'reclassify/col_13x1/da/[np.float64(-0.7596025824546814), np.float64(-0.31276947259903), np.float64(-0.27194120883941664), np.float64(1.921973896026612), np.float64(2.8692712783813477)]': 'OK:c14bd45576b59ef4:float32:reclassify#e3b0c442',
 'reclassify/col_13x1/da/mismatch': 'ERR:ValueError:bins and new_values mismatch. Should have same length.#e3b0c442',
 'reclassify/col_13x1/np/[-20, -17, -14, -11, -8, -5, -2, 1, 4, 7, 10, 13, 16, 19]': 'OK:b50fb650a9004ae7:float32:reclassify#e3b0c442',
 'reclassify/col_13x1/np/[-inf, 0, inf]': 'OK:bce8e39810eb6310:float32:reclassify#e3b0c442',
 'reclassify/col_13x1/np/[0, 2, 4]': 'OK:66ff2ac7278ca3a7:float32:reclassify#e3b0c442',
 'reclassify/col_13x1/np/[1.5]': 'OK:eaca4cff3cb02c15:float32:reclassify#e3b0c442',
 'reclassify/col_13x1/np/[np.float64(-0.7596025824546814), np.float64(-0.31276947259903), np.float64(-0.27194120883941664), np.float64(1.921973896026612), np.float64(2.8692712783813477)]': 'OK:c14bd45576b59ef4:float32:reclassify#e3b0c442',
 'reclassify/col_13x1/np/mismatch': 'ERR:ValueError:bins and new_values mismatch. Should have same length.#e3b0c442',
 'reclassify/f32_7x9/da/[-20, -17, -14, -11, -8, -5, -2, 1, 4, 7, 10, 13, 16, 19]': 'OK:5daca7696bed49a2:float32:reclassify#e3b0c442',
 'reclassify/f32_7x9/da/[-inf, 0, inf]': 'OK:cfa6b21cc1e10911:float32:reclassify#e3b0c442',
 'reclassify/f32_7x9/da/[0, 2, 4]': 'OK:e48b7fd6405bcc53:float32:reclassify#e3b0c442',
 'reclassify/f32_7x9/da/[1.5]': 'OK:ea7236e917ddfea3:float32:reclassify#e3b0c442',
 'reclassify/f32_7x9/da/[np.float64(-34.12450904846191), np.float64(-13.450443410873415), np.float64(-13.115850443840026), np.float64(35.44489288330079), np.float64(49.71644973754883)]': 'OK:960335d0c1147a31:float32:reclassify#e3b0c442',
 'reclassify/f32_7x9/da/mismatch': 'ERR:ValueError:bins and new_values mismatch. Should have same length.#e3b0c442',
 'reclassify/f32_7x9/np/[-20, -17, -14, -11, -8, -5, -2, 1, 4, 7, 10, 13, 16, 19]': 'OK:5daca7696bed49a2:float32:reclassify#e3b0c442',
 'reclassify/f32_7x9/np/[-inf, 0, inf]': 'OK:cfa6b21cc1e10911:float32:reclassify#e3b0c442',
 'reclassify/f32_7x9/np/[0, 2, 4]': 'OK:e48b7fd6405bcc53:float32:reclassify#e3b0c442',
 'reclassify/f32_7x9/np/[1.5]': 'OK:ea7236e917ddfea3:float32:reclassify#e3b0c442',
 'reclassify/f32_7x9/np/[np.float64(-34.12450904846191), np.float64(-13.450443410873415), np.float64(-13.115850443840026), np.float64(35.44489288330079), np.float64(49.71644973754883)]': 'OK:960335d0c1147a31:float32:reclassify#e3b0c442',
 'reclassify/f32_7x9/np/mismatch': 'ERR:ValueError:bins and new_values mismatch. Should have same length.#e3b0c442',
 'reclassify/f64_7x9/da/[-20, -17, -14, -11, -8, -5, -2, 1, 4, 7, 10, 13, 16, 19]': 'OK:5daca7696bed49a2:float32:reclassify#e3b0c442',
 'reclassify/f64_7x9/da/[-inf, 0, inf]': 'OK:cfa6b21cc1e10911:float32:reclassify#e3b0c442',
 'reclassify/f64_7x9/da/[0, 2, 4]': 'OK:e48b7fd6405bcc53:float32:reclassify#e3b0c442',
 'reclassify/f64_7x9/da/[1.5]': 'OK:ea7236e917ddfea3:float32:reclassify#e3b0c442',
 'reclassify/f64_7x9/da/[np.float64(-34.12450747214321), np.float64(-13.450443013225243), np.float64(-13.115850012565655), np.float64(35.444893262687856), np.float64(49.716449956846674)]': 'OK:960335d0c1147a31:float32:reclassify#e3b0c442',
 'reclassify/f64_7x9/da/mismatch': 'ERR:ValueError:bins and new_values mismatch. Should have same length.#e3b0c442',
 'reclassify/f64_7x9/np/[-20, -17, -14, -11, -8, -5, -2, 1, 4, 7, 10, 13, 16, 19]': 'OK:5daca7696bed49a2:float32:reclassify#e3b0c442',
 'reclassify/f64_7x9/np/[-inf, 0, inf]': 'OK:cfa6b21cc1e10911:float32:reclassify#e3b0c442',
 'reclassify/f64_7x9/np/[0, 2, 4]': 'OK:e48b7fd6405bcc53:float32:reclassify#e3b0c442',
 'reclassify/f64_7x9/np/[1.5]': 'OK:ea7236e917ddfea3:float32:reclassify#e3b0c442',
 'reclassify/f64_7x9/np/[np.float64(-34.12450747214321), np.float64(-13.450443013225243), np.float64(-13.115850012565655), np.float64(35.444893262687856), np.float64(49.716449956846674)]': 'OK:960335d0c1147a31:float32:reclassify#e3b0c442',
 'reclassify/f64_7x9/np/mismatch': 'ERR:ValueError:bins and new_values mismatch. Should have same length.#e3b0c442',
 'reclassify/int32_6x5/da/[-20, -17, -14, -11, -8, -5, -2, 1, 4, 7, 10, 13, 16, 19]': 'OK:f828fa30c86de0a2:float32:reclassify#e3b0c442',
 'reclassify/int32_6x5/da/[-inf, 0, inf]': 'OK:7ebf2046b1cea748:float32:reclassify#e3b0c442',
 'reclassify/int32_6x5/da/[0, 2, 4]': 'OK:42608e3f64ac76b8:float32:reclassify#e3b0c442',
 'reclassify/int32_6x5/da/[1.5]': 'OK:63d0d1c91f1cef0b:float32:reclassify#e3b0c442',
 'reclassify/int32_6x5/da/[np.float64(-15.2), np.float64(-8.0), np.float64(-8.0), np.float64(7.0), np.float64(19.0)]': 'OK:b90c5c05ff01a4b3:float32:reclassify#e3b0c442',
 'reclassify/int32_6x5/da/mismatch': 'ERR:ValueError:bins and new_values mismatch. Should have same length.#e3b0c442',
 'reclassify/int32_6x5/np/[-20, -17, -14, -11, -8, -5, -2, 1, 4, 7, 10, 13, 16, 19]': 'OK:f828fa30c86de0a2:float32:reclassify#e3b0c442',
 'reclassify/int32_6x5/np/[-inf, 0, inf]': 'OK:7ebf2046b1cea748:float32:reclassify#e3b0c442',
 'reclassify/int32_6x5/np/[0, 2, 4]': 'OK:42608e3f64ac76b8:float32:reclassify#e3b0c442',
 'reclassify/int32_6x5/np/[1.5]': 'OK:63d0d1c91f1cef0b:float32:reclassify#e3b0c442',
 'reclassify/int32_6x5/np/[np.float64(-15.2), np.float64(-8.0), np.float64(-8.0), np.float64(7.0), np.float64(19.0)]': 'OK:b90c5c05ff01a4b3:float32:reclassify#e3b0c442',
 'reclassify/int32_6x5/np/mismatch': 'ERR:ValueError:bins and new_values mismatch. Should have same length.#e3b0c442',
 'reclassify/int64_4x4/da/[-20, -17, -14, -11, -8, -5, -2, 1, 4, 7, 10, 13, 16, 19]': 'OK:d644f4c585b04259:float32:reclassify#e3b0c442',
 'reclassify/int64_4x4/da/[-inf, 0, inf]': 'OK:ee3fe0497e430b11:float32:reclassify#e3b0c442',
 'reclassify/int64_4x4/da/[0, 2, 4]': 'OK:d644f4c585b04259:float32:reclassify#e3b0c442',
 'reclassify/int64_4x4/da/[1.5]': 'OK:d644f4c585b04259:float32:reclassify#e3b0c442',
 'reclassify/int64_4x4/da/[np.float64(100.5), np.float64(476.25), np.float64(476.925), np.float64(929.0), np.float64(966.0)]': 'OK:a32f49bbc23a8c73:float32:reclassify#e3b0c442',
 'reclassify/int64_4x4/da/mismatch': 'ERR:ValueError:bins and new_values mismatch. Should have same length.#e3b0c442',
 'reclassify/int64_4x4/np/[-20, -17, -14, -11, -8, -5, -2, 1, 4, 7, 10, 13, 16, 19]': 'OK:d644f4c585b04259:float32:reclassify#e3b0c442',
 'reclassify/int64_4x4/np/[-inf, 0, inf]': 'OK:ee3fe0497e430b11:float32:reclassify#e3b0c442',
 'reclassify/int64_4x4/np/[0, 2, 4]': 'OK:d644f4c585b04259:float32:reclassify#e3b0c442',
 'reclassify/int64_4x4/np/[1.5]': 'OK:d644f4c585b04259:float32:reclassify#e3b0c442',
 'reclassify/int64_4x4/np/[np.float64(100.5), np.float64(476.25), np.float64(476.925), np.float64(929.0), np.float64(966.0)]': 'OK:a32f49bbc23a8c73:float32:reclassify#e3b0c442',
 'reclassify/int64_4x4/np/mismatch': 'ERR:ValueError:bins and new_values mismatch. Should have same length.#e3b0c442',
 'reclassify/nans_12x10/da/[-20, -17, -14, -11, -8, -5, -2, 1, 4, 7, 10, 13, 16, 19]': 'OK:1fdbcd3458b4273f:float32:reclassify#e3b0c442',
 'reclassify/nans_12x10/da/[-inf, 0, inf]': 'OK:05a56566f260c31c:float32:reclassify#e3b0c442',
 'reclassify/nans_12x10/da/[0, 2, 4]': 'OK:41143fb440fdeaf5:float32:reclassify#e3b0c442',
 'reclassify/nans_12x10/da/[1.5]': 'OK:1fdbcd3458b4273f:float32:reclassify#e3b0c442',
 'reclassify/nans_12x10/da/[np.float64(0.0914944515318854), np.float64(0.3444489194614143), np.float64(0.34938780038427025), np.float64(0.7707485394723727), np.float64(0.9925431023803425)]': 'OK:27df708fdc12cc78:float32:reclassify#e3b0c442',
 'reclassify/nans_12x10/da/mismatch': 'ERR:ValueError:bins and new_values mismatch. Should have same length.#e3b0c442',
 'reclassify/nans_12x10/np/[-20, -17, -14, -11, -8, -5, -2, 1, 4, 7, 10, 13, 16, 19]': 'OK:1fdbcd3458b4273f:float32:reclassify#e3b0c442',
 'reclassify/nans_12x10/np/[-inf, 0, inf]': 'OK:05a56566f260c31c:float32:reclassify#e3b0c442',
 'reclassify/nans_12x10/np/[0, 2, 4]': 'OK:41143fb440fdeaf5:float32:reclassify#e3b0c442',
 'reclassify/nans_12x10/np/[1.5]': 'OK:1fdbcd3458b4273f:float32:reclassify#e3b0c442',
 'reclassify/nans_12x10/np/[np.float64(0.0914944515318854), np.float64(0.3444489194614143), np.float64(0.34938780038427025), np.float64(0.7707485394723727), np.float64(0.9925431023803425)]': 'OK:27df708fdc12cc78:float32:reclassify#e3b0c442',
 'reclassify/nans_12x10/np/mismatch': 'ERR:ValueError:bins and new_values mismatch. Should have same length.#e3b0c442',
 'reclassify/nonf32_3x4/da/[-20, -17, -14, -11, -8, -5, -2, 1, 4, 7, 10, 13, 16, 19]': 'OK:b46f55b839fd1879:float32:reclassify#e3b0c442',
 'reclassify/nonf32_3x4/da/[-inf, 0, inf]': 'OK:04e743b2e0305ec4:float32:reclassify#e3b0c442',
 'reclassify/nonf32_3x4/da/[0, 2, 4]': 'OK:cb2a90117bc825fe:float32:reclassify#e3b0c442',
 'reclassify/nonf32_3x4/da/[1.5]': 'OK:45cd017fb2e2debd:float32:reclassify#e3b0c442',
 'reclassify/nonf32_3x4/da/[np.float64(-1677721.6990999996), np.float64(0.3), np.float64(0.3), np.float64(16777217.4), np.float64(10000000001.0)]': 'OK:91ea6af587f2f8e8:float32:reclassify#e3b0c442',
 'reclassify/nonf32_3x4/da/mismatch': 'ERR:ValueError:bins and new_values mismatch. Should have same length.#e3b0c442',
 'reclassify/nonf32_3x4/np/[-20, -17, -14, -11, -8, -5, -2, 1, 4, 7, 10, 13, 16, 19]': 'OK:b46f55b839fd1879:float32:reclassify#e3b0c442',
 'reclassify/nonf32_3x4/np/[-inf, 0, inf]': 'OK:04e743b2e0305ec4:float32:reclassify#e3b0c442',
 'reclassify/nonf32_3x4/np/[0, 2, 4]': 'OK:cb2a90117bc825fe:float32:reclassify#e3b0c442',
 'reclassify/nonf32_3x4/np/[1.5]': 'OK:45cd017fb2e2debd:float32:reclassify#e3b0c442',
 'reclassify/nonf32_3x4/np/[np.float64(-1677721.6990999996), np.float64(0.3), np.float64(0.3), np.float64(16777217.4), np.float64(10000000001.0)]': 'OK:91ea6af587f2f8e8:float32:reclassify#e3b0c442',
 'reclassify/nonf32_3x4/np/mismatch': 'ERR:ValueError:bins and new_values mismatch. Should have same length.#e3b0c442',
 'reclassify/row_1x13/da/[-20, -17, -14, -11, -8, -5, -2, 1, 4, 7, 10, 13, 16, 19]': 'OK:9171c138f10d4d51:float32:reclassify#e3b0c442',
 'reclassify/row_1x13/da/[-inf, 0, inf]': 'OK:98b44239b011069b:float32:reclassify#e3b0c442',
 'reclassify/row_1x13/da/[0, 2, 4]': 'OK:5a837349b1823ebd:float32:reclassify#e3b0c442',
 'reclassify/row_1x13/da/[1.5]': 'OK:fc3d3b14d917b840:float32:reclassify#e3b0c442',
 'reclassify/row_1x13/da/[np.float64(-1.302923981160398), np.float64(-0.8012579772439368), np.float64(-0.7694638594026756), np.float64(2.1980409653890813), np.float64(4.771227265239637)]': 'OK:9335db4d06e668b5:float32:reclassify#e3b0c442',
 'reclassify/row_1x13/da/mismatch': 'ERR:ValueError:bins and new_values mismatch. Should have same length.#e3b0c442',
 'reclassify/row_1x13/np/[-20, -17, -14, -11, -8, -5, -2, 1, 4, 7, 10, 13, 16, 19]': 'OK:9171c138f10d4d51:float32:reclassify#e3b0c442',
 'reclassify/row_1x13/np/[-inf, 0, inf]': 'OK:98b44239b011069b:float32:reclassify#e3b0c442',
 'reclassify/row_1x13/np/[0, 2, 4]': 'OK:5a837349b1823ebd:float32:reclassify#e3b0c442',
 'reclassify/row_1x13/np/[1.5]': 'OK:fc3d3b14d917b840:float32:reclassify#e3b0c442',
 'reclassify/row_1x13/np/[np.float64(-1.302923981160398), np.float64(-0.8012579772439368), np.float64(-0.7694638594026756), np.float64(2.1980409653890813), np.float64(4.771227265239637)]': 'OK:9335db4d06e668b5:float32:reclassify#e3b0c442',
 'reclassify/row_1x13/np/mismatch': 'ERR:ValueError:bins and new_values mismatch. Should have same length.#e3b0c442',
 'reclassify/ties_5x11/da/[-20, -17, -14, -11, -8, -5, -2, 1, 4, 7, 10, 13, 16, 19]': 'OK:c6d1c07c84864e96:float32:reclassify#e3b0c442',
 'reclassify/ties_5x11/da/[-inf, 0, inf]': 'OK:c7481bf6cfb33d31:float32:reclassify#e3b0c442',
 'reclassify/ties_5x11/da/[0, 2, 4]': 'OK:e61821d96710bfb9:float32:reclassify#e3b0c442',
 'reclassify/ties_5x11/da/[1.5]': 'OK:973c1f8cd7a6d5f1:float32:reclassify#e3b0c442',
 'reclassify/ties_5x11/da/[np.float64(0.0), np.float64(2.0), np.float64(2.0), np.float64(5.0), np.float64(5.0)]': 'OK:b329781e56d5d61a:float32:reclassify#e3b0c442',
 'reclassify/ties_5x11/da/mismatch': 'ERR:ValueError:bins and new_values mismatch. Should have same length.#e3b0c442',
 'reclassify/ties_5x11/np/[-20, -17, -14, -11, -8, -5, -2, 1, 4, 7, 10, 13, 16, 19]': 'OK:c6d1c07c84864e96:float32:reclassify#e3b0c442',
 'reclassify/ties_5x11/np/[-inf, 0, inf]': 'OK:c7481bf6cfb33d31:float32:reclassify#e3b0c442',
 'reclassify/ties_5x11/np/[0, 2, 4]': 'OK:e61821d96710bfb9:float32:reclassify#e3b0c442',
 'reclassify/ties_5x11/np/[1.5]': 'OK:973c1f8cd7a6d5f1:float32:reclassify#e3b0c442',
 'reclassify/ties_5x11/np/[np.float64(0.0), np.float64(2.0), np.float64(2.0), np.float64(5.0), np.float64(5.0)]': 'OK:b329781e56d5d61a:float32:reclassify#e3b0c442',
 'reclassify/ties_5x11/np/mismatch': 'ERR:ValueError:bins and new_values mismatch. Should have same length.#e3b0c442',
 'reclassify_exh/[-1.0, 0.0, 1.0, 2.0, 3.0]': 'OK',
 'reclassify_exh/[-1.0, 0.0, 1.0, 2.0]': 'OK',
 'reclassify_exh/[-1.0, 0.0, 1.0, 3.0]': 'OK',
 'reclassify_exh/[-1.0, 0.0, 1.0]': 'OK',
 'reclassify_exh/[-1.0, 0.0, 2.0, 3.0]': 'OK',
 'reclassify_exh/[-1.0, 0.0, 2.0]': 'OK',
 'reclassify_exh/[-1.0, 0.0, 3.0]': 'OK',
 'reclassify_exh/[-1.0, 0.0]': 'OK',
 'reclassify_exh/[-1.0, 1.0, 2.0, 3.0]': 'OK',
 'reclassify_exh/[-1.0, 1.0, 2.0]': 'OK',
 'reclassify_exh/[-1.0, 1.0, 3.0]': 'OK',
 'reclassify_exh/[-1.0, 1.0]': 'OK',
 'reclassify_exh/[-1.0, 2.0, 3.0]': 'OK',
 'reclassify_exh/[-1.0, 2.0]': 'OK',
 'reclassify_exh/[-1.0, 3.0]': 'OK',
 'reclassify_exh/[-1.0]': 'OK',
 'reclassify_exh/[0.0, 1.0, 2.0, 3.0]': 'OK',
 'reclassify_exh/[0.0, 1.0, 2.0]': 'OK',
 'reclassify_exh/[0.0, 1.0, 3.0]': 'OK',
 'reclassify_exh/[0.0, 1.0]': 'OK',
 'reclassify_exh/[0.0, 2.0, 3.0]': 'OK',
 'reclassify_exh/[0.0, 2.0]': 'OK',
 'reclassify_exh/[0.0, 3.0]': 'OK',
 'reclassify_exh/[0.0]': 'OK',
 'reclassify_exh/[1.0, 2.0, 3.0]': 'OK',
 'reclassify_exh/[1.0, 2.0]': 'OK',
 'reclassify_exh/[1.0, 3.0]': 'OK',
 'reclassify_exh/[1.0]': 'OK',
 'reclassify_exh/[2.0, 3.0]': 'OK',
 'reclassify_exh/[2.0]': 'OK',
 'reclassify_exh/[3.0]': 'OK'}


def jenks_matrix_digests():
    # digests of the internal Jenks matrices and break vectors (names unchanged by the refactoring)
    from xrspatial.classify import _run_numpy_jenks_matrices, _run_jenks
    rs = np.random.RandomState(99)
    out = {}
    for n in (2, 3, 7, 31, 100):
        for dt in (np.float32, np.float64):
            v = np.sort(rs.gamma(2.0, 5.0, n)).astype(dt)
            v[n // 2:] = np.sort(np.round(v[n // 2:]))  # some ties
            v.sort()
            for k in (2, 3, 5):
                if k > n:
                    continue
                lcl, vc = _run_numpy_jenks_matrices(v.copy(), k)
                br = _run_jenks(v.copy(), k)
                out['%d/%s/%d' % (n, np.dtype(dt).name, k)] = \
                    digest(lcl) + digest(vc) + digest(br)
    return out

JM_EXPECTED = {'100/float32/2': '38125a65e0df102d035312ed6905a0c53f1c09f3a06fd710',
 '100/float32/3': '526dfb0b5846679e7f0fdf2e678ab08a50c9d0b4abd3b5f1',
 '100/float32/5': 'b88037d5e6072ac441010878975f832018bf0078cd209c2d',
 '100/float64/2': '2417328d870e1c3f2bce13bfcaff67794b081c71517151db',
 '100/float64/3': '446942191f83f991d7e2108a6b437d4ab75f8ed5d614730f',
 '100/float64/5': 'a7b45b3a19750ca59f491320fc0c071e37374078388aaee3',
 '2/float32/2': 'f10a68e88c4dd46e0870e689370dc4d5c5577628eee18360',
 '2/float64/2': 'f10a68e88c4dd46ebdc5623bc4331da2cafbe49a9801928c',
 '3/float32/2': '97bd742b160658825bf91d3eab8686143c70cb69683b4429',
 '3/float32/3': '977f5ba10a079b94b1b0520f35f10fb14829a8eabd567e72',
 '3/float64/2': '97bd742b16065882be8556162a2f7372106681c958e3764b',
 '3/float64/3': '977f5ba10a079b94284d42c2e195c08d5708f113d3b06ec3',
 '31/float32/2': 'a367bc19bdcd1642cbaa90eb2a0871a3ae7e0afae074e3aa',
 '31/float32/3': 'b37df251e93101c2923d69ae58b4a8d4eecbee13e77121e6',
 '31/float32/5': 'b2c28e51b24f08b0fb37309702026cb6b7dd03d52fb9b355',
 '31/float64/2': '478318caf8a4a16cf43b6725a68ac12a5516bfa96a228c99',
 '31/float64/3': 'ac05f5d9e2dc66a6a1dc7d66f0015743ec5fcdea17966a09',
 '31/float64/5': '29902c91ad88dbfdb6dff44bedd0f6974fd0d540b863af7d',
 '7/float32/2': '3de99207ed2fd4ae7547d5395fb859fe93f7a52d99ecd9c6',
 '7/float32/3': '6f885ec3ba441a930d272286b4bbf4fd573b497a26d7fc22',
 '7/float32/5': '9fc43a11faf35b355e4795753db9f6d06ab42838b0e43d5b',
 '7/float64/2': 'b613499a5791c3fa0fa8ff99740edd73f09b87d0aef8754c',
 '7/float64/3': '1907d344794ad52db5d329388d3d2caf5232905788abb925',
 '7/float64/5': '817849cabd0056efa86fb060087870c3db0048afd59ffb48'}

def extra_checks8():
    # independent checks aimed at the natural_breaks wrapper phases
    rc = 0
    # 1. all-NaN raster: error type/message recorded from the unmodified tree
    try:
        natural_breaks(xr.DataArray(np.full((3, 3), np.nan)), k=3)
        print('all-NaN: no error'); rc = 1
    except ValueError as e:
        if 'zero-size array' not in str(e):
            print('all-NaN: unexpected message', e); rc = 1
    # 2. input raster must not be modified (sampling works on copies)
    rs = np.random.RandomState(3)
    arr = rs.uniform(0, 10, (9, 8)); arr[1, 1] = np.nan
    keep = arr.copy()
    for ns in (None, 10, 72, 1000):
        natural_breaks(xr.DataArray(arr), num_sample=ns, k=4)
        if not np.array_equal(arr, keep, equal_nan=True):
            print('input modified, num_sample', ns); rc = 1
    # 3. full-sample result is the optimal (min within-class SSD) partition and
    #    classes are ordered, integers in [0, k-1], NaN preserved
    import itertools
    vals = np.array([[1., 2., 3., 10., 11., 12., 30., 31., 50., np.nan, 52., 90.]])
    for k in (2, 3, 4):
        r = natural_breaks(xr.DataArray(vals), num_sample=None, k=k).data
        fin = np.isfinite(vals)
        if not (np.isnan(r[~fin]).all() and np.isfinite(r[fin]).all()):
            print('nan handling', k); rc = 1
        v = np.sort(vals[fin]); lab = r[fin][np.argsort(vals[fin])]
        if (np.diff(lab) < 0).any() or lab.min() < 0 or lab.max() > k - 1 \
                or not np.array_equal(lab, np.round(lab)):
            print('order/range', k, lab); rc = 1
        def ssd(parts):
            return sum(((p - p.mean()) ** 2).sum() for p in parts)
        best = min(ssd(np.split(v, list(c)))
                   for c in itertools.combinations(range(1, len(v)), k - 1))
        got = ssd([v[lab == c] for c in np.unique(lab)])
        if abs(got - best) > 1e-6 * max(1.0, best):
            print('not optimal', k, got, best); rc = 1
    # 4. "not enough unique values" warning is emitted exactly once, as Warning
    with warnings.catch_warnings(record=True) as w:
        warnings.simplefilter('always')
        r = natural_breaks(xr.DataArray(np.array([[1., 1., 2.], [2., 1., np.inf]])), k=5).data
    msgs = [x for x in w if 'Not enough unique values' in str(x.message)]
    exp = np.array([[0., 0., 1.], [1., 0., np.nan]], dtype=np.float32)
    if len(msgs) != 1 or 'Using k=2 instead' not in str(msgs[0].message) \
            or r.dtype != np.float32 or not np.array_equal(r, exp, equal_nan=True):
        print('few-unique path', len(msgs), r); rc = 1
    print('extra checks rc=%d' % rc)
    return rc


def extra_checks():
    rc = extra_checks8()
    got = jenks_matrix_digests()
    bad = [k for k in sorted(set(got) | set(JM_EXPECTED)) if got.get(k) != JM_EXPECTED.get(k)]
    for k in bad:
        print('JENKS MATRIX MISMATCH', k)
    print('jenks matrix cases: %d, mismatches: %d' % (len(got), len(bad)))
    return 1 if (rc or bad) else 0

if __name__ == '__main__':
    rc = main('binary,reclassify,quantile,equal_interval,natural_breaks'.split(','), EXPECTED)
    rc = extra_checks() or rc
    sys.exit(rc)
