"""Differential test for property C08 (slope / aspect / curvature / hillshade).

Runs the public functions on a deterministic family of rasters (several dtypes,
NaN / inf cells, ties, odd shapes, res attr vs coordinates, numpy and dask) and
compares a digest of every result (dtype, shape, bytes with canonical NaN)
against digests recorded from the unmodified tree.  On top of the recorded
digests, results are also compared against an independent float64 numpy
implementation of the documented formulas.

usage: equiv.py            -> compare, exit 0 if identical
       equiv.py --record   -> print the digest table of the current tree
"""
import hashlib
import sys
import warnings

import dask.array as da
import numpy as np
import xarray as xr

import xrspatial
from xrspatial import aspect, curvature, hillshade, slope
from xrspatial.utils import ArrayTypeFunctionMapping, calc_res, get_dataarray_resolution

warnings.filterwarnings('ignore')

FUNCS = ('aspect',)

EXPECTED = {
    '12x9-float32-k3|resbad|dask(12, 9)|aspect': "ok|Array|aspect|('y', 'x')|['res']|a74fe228c7e91e6a9615|chunks=((12,), (9,))",
    '12x9-float32-k3|resbad|dask(12, 9)|res': '0.28125|1.6363636363636365|float|float',
    '12x9-float32-k3|resbad|dask(2, 4)|aspect': "ok|Array|aspect|('y', 'x')|['res']|a74fe228c7e91e6a9615|chunks=((2, 2, 2, 2, 2, 2), (4, 4, 1))",
    '12x9-float32-k3|resbad|dask(2, 4)|res': '0.28125|1.6363636363636365|float|float',
    '12x9-float32-k3|resbad|dask(3, 3)|aspect': "ok|Array|aspect|('y', 'x')|['res']|a74fe228c7e91e6a9615|chunks=((3, 3, 3, 3), (3, 3, 3))",
    '12x9-float32-k3|resbad|dask(3, 3)|res': '0.28125|1.6363636363636365|float|float',
    '12x9-float32-k3|resbad|numpy|aspect': "ok|ndarray|aspect|('y', 'x')|['res']|a74fe228c7e91e6a9615",
    '12x9-float32-k3|resbad|numpy|res': '0.28125|1.6363636363636365|float|float',
    '12x9-float64-k0|resnpf32|dask(12, 9)|aspect': "ok|Array|aspect|('y', 'x')|['res']|4469c16819758fdcebbd|chunks=((12,), (9,))",
    '12x9-float64-k0|resnpf32|dask(12, 9)|res': '0.28125|1.6363636363636365|float|float',
    '12x9-float64-k0|resnpf32|dask(2, 4)|aspect': "ok|Array|aspect|('y', 'x')|['res']|4469c16819758fdcebbd|chunks=((2, 2, 2, 2, 2, 2), (4, 4, 1))",
    '12x9-float64-k0|resnpf32|dask(2, 4)|res': '0.28125|1.6363636363636365|float|float',
    '12x9-float64-k0|resnpf32|dask(3, 3)|aspect': "ok|Array|aspect|('y', 'x')|['res']|4469c16819758fdcebbd|chunks=((3, 3, 3, 3), (3, 3, 3))",
    '12x9-float64-k0|resnpf32|dask(3, 3)|res': '0.28125|1.6363636363636365|float|float',
    '12x9-float64-k0|resnpf32|numpy|aspect': "ok|ndarray|aspect|('y', 'x')|['res']|4469c16819758fdcebbd",
    '12x9-float64-k0|resnpf32|numpy|res': '0.28125|1.6363636363636365|float|float',
    '12x9-int32-k0|resscalar|dask(12, 9)|aspect': "ok|Array|aspect|('y', 'x')|['res']|999d6cd1d769c82dadc0|chunks=((12,), (9,))",
    '12x9-int32-k0|resscalar|dask(12, 9)|res': '3.0|3.0|int|int',
    '12x9-int32-k0|resscalar|dask(2, 4)|aspect': "ok|Array|aspect|('y', 'x')|['res']|999d6cd1d769c82dadc0|chunks=((2, 2, 2, 2, 2, 2), (4, 4, 1))",
    '12x9-int32-k0|resscalar|dask(2, 4)|res': '3.0|3.0|int|int',
    '12x9-int32-k0|resscalar|dask(3, 3)|aspect': "ok|Array|aspect|('y', 'x')|['res']|999d6cd1d769c82dadc0|chunks=((3, 3, 3, 3), (3, 3, 3))",
    '12x9-int32-k0|resscalar|dask(3, 3)|res': '3.0|3.0|int|int',
    '12x9-int32-k0|resscalar|numpy|aspect': "ok|ndarray|aspect|('y', 'x')|['res']|999d6cd1d769c82dadc0",
    '12x9-int32-k0|resscalar|numpy|res': '3.0|3.0|int|int',
    '12x9-int64-k1|reslist|dask(12, 9)|aspect': "ok|Array|aspect|('y', 'x')|['res']|9cbb1aabe527b1597174|chunks=((12,), (9,))",
    '12x9-int64-k1|reslist|dask(12, 9)|res': '2.0|3.0|int|float',
    '12x9-int64-k1|reslist|dask(2, 4)|aspect': "ok|Array|aspect|('y', 'x')|['res']|9cbb1aabe527b1597174|chunks=((2, 2, 2, 2, 2, 2), (4, 4, 1))",
    '12x9-int64-k1|reslist|dask(2, 4)|res': '2.0|3.0|int|float',
    '12x9-int64-k1|reslist|dask(3, 3)|aspect': "ok|Array|aspect|('y', 'x')|['res']|9cbb1aabe527b1597174|chunks=((3, 3, 3, 3), (3, 3, 3))",
    '12x9-int64-k1|reslist|dask(3, 3)|res': '2.0|3.0|int|float',
    '12x9-int64-k1|reslist|numpy|aspect': "ok|ndarray|aspect|('y', 'x')|['res']|9cbb1aabe527b1597174",
    '12x9-int64-k1|reslist|numpy|res': '2.0|3.0|int|float',
    '12x9-int8-k3|resxy|dask(12, 9)|aspect': "ok|Array|aspect|('y', 'x')|['res']|8d204fbbcc35ecb51369|chunks=((12,), (9,))",
    '12x9-int8-k3|resxy|dask(12, 9)|res': '2.5|0.5|float|float',
    '12x9-int8-k3|resxy|dask(2, 4)|aspect': "ok|Array|aspect|('y', 'x')|['res']|8d204fbbcc35ecb51369|chunks=((2, 2, 2, 2, 2, 2), (4, 4, 1))",
    '12x9-int8-k3|resxy|dask(2, 4)|res': '2.5|0.5|float|float',
    '12x9-int8-k3|resxy|dask(3, 3)|aspect': "ok|Array|aspect|('y', 'x')|['res']|8d204fbbcc35ecb51369|chunks=((3, 3, 3, 3), (3, 3, 3))",
    '12x9-int8-k3|resxy|dask(3, 3)|res': '2.5|0.5|float|float',
    '12x9-int8-k3|resxy|numpy|aspect': "ok|ndarray|aspect|('y', 'x')|['res']|8d204fbbcc35ecb51369",
    '12x9-int8-k3|resxy|numpy|res': '2.5|0.5|float|float',
    '12x9-uint16-k2|resnp|dask(12, 9)|aspect': "ok|Array|aspect|('y', 'x')|['res']|abcfe993462e26359716|chunks=((12,), (9,))",
    '12x9-uint16-k2|resnp|dask(12, 9)|res': '10.0|20.0|float64|float64',
    '12x9-uint16-k2|resnp|dask(2, 4)|aspect': "ok|Array|aspect|('y', 'x')|['res']|abcfe993462e26359716|chunks=((2, 2, 2, 2, 2, 2), (4, 4, 1))",
    '12x9-uint16-k2|resnp|dask(2, 4)|res': '10.0|20.0|float64|float64',
    '12x9-uint16-k2|resnp|dask(3, 3)|aspect': "ok|Array|aspect|('y', 'x')|['res']|abcfe993462e26359716|chunks=((3, 3, 3, 3), (3, 3, 3))",
    '12x9-uint16-k2|resnp|dask(3, 3)|res': '10.0|20.0|float64|float64',
    '12x9-uint16-k2|resnp|numpy|aspect': "ok|ndarray|aspect|('y', 'x')|['res']|abcfe993462e26359716",
    '12x9-uint16-k2|resnp|numpy|res': '10.0|20.0|float64|float64',
    '1d|aspect': 'exc|TypingError',
    '1x1-float32-k0|reslist|dask(1, 1)|aspect': "ok|Array|aspect|('y', 'x')|['res']|3d8106d92e9af40a7249|chunks=((1,), (1,))",
    '1x1-float32-k0|reslist|dask(1, 1)|res': '2.0|3.0|int|float',
    '1x1-float32-k0|reslist|dask(2, 4)|aspect': "ok|Array|aspect|('y', 'x')|['res']|3d8106d92e9af40a7249|chunks=((1,), (1,))",
    '1x1-float32-k0|reslist|dask(2, 4)|res': '2.0|3.0|int|float',
    '1x1-float32-k0|reslist|dask(3, 3)|aspect': "ok|Array|aspect|('y', 'x')|['res']|3d8106d92e9af40a7249|chunks=((1,), (1,))",
    '1x1-float32-k0|reslist|dask(3, 3)|res': '2.0|3.0|int|float',
    '1x1-float32-k0|reslist|numpy|aspect': "ok|ndarray|aspect|('y', 'x')|['res']|3d8106d92e9af40a7249",
    '1x1-float32-k0|reslist|numpy|res': '2.0|3.0|int|float',
    '1x1-float64-k1|resnp|dask(1, 1)|aspect': "ok|Array|aspect|('y', 'x')|['res']|3d8106d92e9af40a7249|chunks=((1,), (1,))",
    '1x1-float64-k1|resnp|dask(1, 1)|res': '10.0|20.0|float64|float64',
    '1x1-float64-k1|resnp|dask(2, 4)|aspect': "ok|Array|aspect|('y', 'x')|['res']|3d8106d92e9af40a7249|chunks=((1,), (1,))",
    '1x1-float64-k1|resnp|dask(2, 4)|res': '10.0|20.0|float64|float64',
    '1x1-float64-k1|resnp|dask(3, 3)|aspect': "ok|Array|aspect|('y', 'x')|['res']|3d8106d92e9af40a7249|chunks=((1,), (1,))",
    '1x1-float64-k1|resnp|dask(3, 3)|res': '10.0|20.0|float64|float64',
    '1x1-float64-k1|resnp|numpy|aspect': "ok|ndarray|aspect|('y', 'x')|['res']|3d8106d92e9af40a7249",
    '1x1-float64-k1|resnp|numpy|res': '10.0|20.0|float64|float64',
    '1x1-int32-k1|res11|dask(1, 1)|aspect': "ok|Array|aspect|('y', 'x')|['res']|3d8106d92e9af40a7249|chunks=((1,), (1,))",
    '1x1-int32-k1|res11|dask(1, 1)|res': '1.0|1.0|int|int',
    '1x1-int32-k1|res11|dask(2, 4)|aspect': "ok|Array|aspect|('y', 'x')|['res']|3d8106d92e9af40a7249|chunks=((1,), (1,))",
    '1x1-int32-k1|res11|dask(2, 4)|res': '1.0|1.0|int|int',
    '1x1-int32-k1|res11|dask(3, 3)|aspect': "ok|Array|aspect|('y', 'x')|['res']|3d8106d92e9af40a7249|chunks=((1,), (1,))",
    '1x1-int32-k1|res11|dask(3, 3)|res': '1.0|1.0|int|int',
    '1x1-int32-k1|res11|numpy|aspect': "ok|ndarray|aspect|('y', 'x')|['res']|3d8106d92e9af40a7249",
    '1x1-int32-k1|res11|numpy|res': '1.0|1.0|int|int',
    '1x1-int64-k2|resxy|dask(1, 1)|aspect': "ok|Array|aspect|('y', 'x')|['res']|3d8106d92e9af40a7249|chunks=((1,), (1,))",
    '1x1-int64-k2|resxy|dask(1, 1)|res': '2.5|0.5|float|float',
    '1x1-int64-k2|resxy|dask(2, 4)|aspect': "ok|Array|aspect|('y', 'x')|['res']|3d8106d92e9af40a7249|chunks=((1,), (1,))",
    '1x1-int64-k2|resxy|dask(2, 4)|res': '2.5|0.5|float|float',
    '1x1-int64-k2|resxy|dask(3, 3)|aspect': "ok|Array|aspect|('y', 'x')|['res']|3d8106d92e9af40a7249|chunks=((1,), (1,))",
    '1x1-int64-k2|resxy|dask(3, 3)|res': '2.5|0.5|float|float',
    '1x1-int64-k2|resxy|numpy|aspect': "ok|ndarray|aspect|('y', 'x')|['res']|3d8106d92e9af40a7249",
    '1x1-int64-k2|resxy|numpy|res': '2.5|0.5|float|float',
    '1x1-int8-k0|nores|dask(1, 1)|aspect': "ok|Array|aspect|('y', 'x')|[]|3d8106d92e9af40a7249|chunks=((1,), (1,))",
    '1x1-int8-k0|nores|dask(1, 1)|res': 'exc|ZeroDivisionError|float division by zero',
    '1x1-int8-k0|nores|dask(2, 4)|aspect': "ok|Array|aspect|('y', 'x')|[]|3d8106d92e9af40a7249|chunks=((1,), (1,))",
    '1x1-int8-k0|nores|dask(2, 4)|res': 'exc|ZeroDivisionError|float division by zero',
    '1x1-int8-k0|nores|dask(3, 3)|aspect': "ok|Array|aspect|('y', 'x')|[]|3d8106d92e9af40a7249|chunks=((1,), (1,))",
    '1x1-int8-k0|nores|dask(3, 3)|res': 'exc|ZeroDivisionError|float division by zero',
    '1x1-int8-k0|nores|numpy|aspect': "ok|ndarray|aspect|('y', 'x')|[]|3d8106d92e9af40a7249",
    '1x1-int8-k0|nores|numpy|res': 'exc|ZeroDivisionError|float division by zero',
    '1x1-uint16-k3|resscalar|dask(1, 1)|aspect': "ok|Array|aspect|('y', 'x')|['res']|3d8106d92e9af40a7249|chunks=((1,), (1,))",
    '1x1-uint16-k3|resscalar|dask(1, 1)|res': '3.0|3.0|int|int',
    '1x1-uint16-k3|resscalar|dask(2, 4)|aspect': "ok|Array|aspect|('y', 'x')|['res']|3d8106d92e9af40a7249|chunks=((1,), (1,))",
    '1x1-uint16-k3|resscalar|dask(2, 4)|res': '3.0|3.0|int|int',
    '1x1-uint16-k3|resscalar|dask(3, 3)|aspect': "ok|Array|aspect|('y', 'x')|['res']|3d8106d92e9af40a7249|chunks=((1,), (1,))",
    '1x1-uint16-k3|resscalar|dask(3, 3)|res': '3.0|3.0|int|int',
    '1x1-uint16-k3|resscalar|numpy|aspect': "ok|ndarray|aspect|('y', 'x')|['res']|3d8106d92e9af40a7249",
    '1x1-uint16-k3|resscalar|numpy|res': '3.0|3.0|int|int',
    '1x6-float32-k1|resxy|dask(1, 6)|aspect': "ok|Array|aspect|('y', 'x')|['res']|e739b214884fbc158e0f|chunks=((1,), (6,))",
    '1x6-float32-k1|resxy|dask(1, 6)|res': '2.5|0.5|float|float',
    '1x6-float32-k1|resxy|dask(2, 4)|aspect': "ok|Array|aspect|('y', 'x')|['res']|e739b214884fbc158e0f|chunks=((1,), (4, 2))",
    '1x6-float32-k1|resxy|dask(2, 4)|res': '2.5|0.5|float|float',
    '1x6-float32-k1|resxy|dask(3, 3)|aspect': "ok|Array|aspect|('y', 'x')|['res']|e739b214884fbc158e0f|chunks=((1,), (3, 3))",
    '1x6-float32-k1|resxy|dask(3, 3)|res': '2.5|0.5|float|float',
    '1x6-float32-k1|resxy|numpy|aspect': "ok|ndarray|aspect|('y', 'x')|['res']|e739b214884fbc158e0f",
    '1x6-float32-k1|resxy|numpy|res': '2.5|0.5|float|float',
    '1x6-float64-k2|resscalar|dask(1, 6)|aspect': "ok|Array|aspect|('y', 'x')|['res']|e739b214884fbc158e0f|chunks=((1,), (6,))",
    '1x6-float64-k2|resscalar|dask(1, 6)|res': '3.0|3.0|int|int',
    '1x6-float64-k2|resscalar|dask(2, 4)|aspect': "ok|Array|aspect|('y', 'x')|['res']|e739b214884fbc158e0f|chunks=((1,), (4, 2))",
    '1x6-float64-k2|resscalar|dask(2, 4)|res': '3.0|3.0|int|int',
    '1x6-float64-k2|resscalar|dask(3, 3)|aspect': "ok|Array|aspect|('y', 'x')|['res']|e739b214884fbc158e0f|chunks=((1,), (3, 3))",
    '1x6-float64-k2|resscalar|dask(3, 3)|res': '3.0|3.0|int|int',
    '1x6-float64-k2|resscalar|numpy|aspect': "ok|ndarray|aspect|('y', 'x')|['res']|e739b214884fbc158e0f",
    '1x6-float64-k2|resscalar|numpy|res': '3.0|3.0|int|int',
    '1x6-int32-k2|resnpf32|dask(1, 6)|aspect': "ok|Array|aspect|('y', 'x')|['res']|e739b214884fbc158e0f|chunks=((1,), (6,))",
    '1x6-int32-k2|resnpf32|dask(1, 6)|res': 'exc|ZeroDivisionError|float division by zero',
    '1x6-int32-k2|resnpf32|dask(2, 4)|aspect': "ok|Array|aspect|('y', 'x')|['res']|e739b214884fbc158e0f|chunks=((1,), (4, 2))",
    '1x6-int32-k2|resnpf32|dask(2, 4)|res': 'exc|ZeroDivisionError|float division by zero',
    '1x6-int32-k2|resnpf32|dask(3, 3)|aspect': "ok|Array|aspect|('y', 'x')|['res']|e739b214884fbc158e0f|chunks=((1,), (3, 3))",
    '1x6-int32-k2|resnpf32|dask(3, 3)|res': 'exc|ZeroDivisionError|float division by zero',
    '1x6-int32-k2|resnpf32|numpy|aspect': "ok|ndarray|aspect|('y', 'x')|['res']|e739b214884fbc158e0f",
    '1x6-int32-k2|resnpf32|numpy|res': 'exc|ZeroDivisionError|float division by zero',
    '1x6-int64-k3|nores|dask(1, 6)|aspect': "ok|Array|aspect|('y', 'x')|[]|e739b214884fbc158e0f|chunks=((1,), (6,))",
    '1x6-int64-k3|nores|dask(1, 6)|res': 'exc|ZeroDivisionError|float division by zero',
    '1x6-int64-k3|nores|dask(2, 4)|aspect': "ok|Array|aspect|('y', 'x')|[]|e739b214884fbc158e0f|chunks=((1,), (4, 2))",
    '1x6-int64-k3|nores|dask(2, 4)|res': 'exc|ZeroDivisionError|float division by zero',
    '1x6-int64-k3|nores|dask(3, 3)|aspect': "ok|Array|aspect|('y', 'x')|[]|e739b214884fbc158e0f|chunks=((1,), (3, 3))",
    '1x6-int64-k3|nores|dask(3, 3)|res': 'exc|ZeroDivisionError|float division by zero',
    '1x6-int64-k3|nores|numpy|aspect': "ok|ndarray|aspect|('y', 'x')|[]|e739b214884fbc158e0f",
    '1x6-int64-k3|nores|numpy|res': 'exc|ZeroDivisionError|float division by zero',
    '1x6-int8-k1|resbad|dask(1, 6)|aspect': "ok|Array|aspect|('y', 'x')|['res']|e739b214884fbc158e0f|chunks=((1,), (6,))",
    '1x6-int8-k1|resbad|dask(1, 6)|res': 'exc|ZeroDivisionError|float division by zero',
    '1x6-int8-k1|resbad|dask(2, 4)|aspect': "ok|Array|aspect|('y', 'x')|['res']|e739b214884fbc158e0f|chunks=((1,), (4, 2))",
    '1x6-int8-k1|resbad|dask(2, 4)|res': 'exc|ZeroDivisionError|float division by zero',
    '1x6-int8-k1|resbad|dask(3, 3)|aspect': "ok|Array|aspect|('y', 'x')|['res']|e739b214884fbc158e0f|chunks=((1,), (3, 3))",
    '1x6-int8-k1|resbad|dask(3, 3)|res': 'exc|ZeroDivisionError|float division by zero',
    '1x6-int8-k1|resbad|numpy|aspect': "ok|ndarray|aspect|('y', 'x')|['res']|e739b214884fbc158e0f",
    '1x6-int8-k1|resbad|numpy|res': 'exc|ZeroDivisionError|float division by zero',
    '1x6-uint16-k0|res11|dask(1, 6)|aspect': "ok|Array|aspect|('y', 'x')|['res']|e739b214884fbc158e0f|chunks=((1,), (6,))",
    '1x6-uint16-k0|res11|dask(1, 6)|res': '1.0|1.0|int|int',
    '1x6-uint16-k0|res11|dask(2, 4)|aspect': "ok|Array|aspect|('y', 'x')|['res']|e739b214884fbc158e0f|chunks=((1,), (4, 2))",
    '1x6-uint16-k0|res11|dask(2, 4)|res': '1.0|1.0|int|int',
    '1x6-uint16-k0|res11|dask(3, 3)|aspect': "ok|Array|aspect|('y', 'x')|['res']|e739b214884fbc158e0f|chunks=((1,), (3, 3))",
    '1x6-uint16-k0|res11|dask(3, 3)|res': '1.0|1.0|int|int',
    '1x6-uint16-k0|res11|numpy|aspect': "ok|ndarray|aspect|('y', 'x')|['res']|e739b214884fbc158e0f",
    '1x6-uint16-k0|res11|numpy|res': '1.0|1.0|int|int',
    '2x5-float32-k3|resbad|dask(2, 4)|aspect': "ok|Array|aspect|('y', 'x')|['res']|2727f5cf2f29fd0877fe|chunks=((2,), (4, 1))",
    '2x5-float32-k3|resbad|dask(2, 4)|res': '0.3125|3.0|float|float',
    '2x5-float32-k3|resbad|dask(2, 5)|aspect': "ok|Array|aspect|('y', 'x')|['res']|2727f5cf2f29fd0877fe|chunks=((2,), (5,))",
    '2x5-float32-k3|resbad|dask(2, 5)|res': '0.3125|3.0|float|float',
    '2x5-float32-k3|resbad|dask(3, 3)|aspect': "ok|Array|aspect|('y', 'x')|['res']|2727f5cf2f29fd0877fe|chunks=((2,), (3, 2))",
    '2x5-float32-k3|resbad|dask(3, 3)|res': '0.3125|3.0|float|float',
    '2x5-float32-k3|resbad|numpy|aspect': "ok|ndarray|aspect|('y', 'x')|['res']|2727f5cf2f29fd0877fe",
    '2x5-float32-k3|resbad|numpy|res': '0.3125|3.0|float|float',
    '2x5-float64-k0|resnpf32|dask(2, 4)|aspect': "ok|Array|aspect|('y', 'x')|['res']|2727f5cf2f29fd0877fe|chunks=((2,), (4, 1))",
    '2x5-float64-k0|resnpf32|dask(2, 4)|res': '0.3125|3.0|float|float',
    '2x5-float64-k0|resnpf32|dask(2, 5)|aspect': "ok|Array|aspect|('y', 'x')|['res']|2727f5cf2f29fd0877fe|chunks=((2,), (5,))",
    '2x5-float64-k0|resnpf32|dask(2, 5)|res': '0.3125|3.0|float|float',
    '2x5-float64-k0|resnpf32|dask(3, 3)|aspect': "ok|Array|aspect|('y', 'x')|['res']|2727f5cf2f29fd0877fe|chunks=((2,), (3, 2))",
    '2x5-float64-k0|resnpf32|dask(3, 3)|res': '0.3125|3.0|float|float',
    '2x5-float64-k0|resnpf32|numpy|aspect': "ok|ndarray|aspect|('y', 'x')|['res']|2727f5cf2f29fd0877fe",
    '2x5-float64-k0|resnpf32|numpy|res': '0.3125|3.0|float|float',
    '2x5-int32-k0|resscalar|dask(2, 4)|aspect': "ok|Array|aspect|('y', 'x')|['res']|2727f5cf2f29fd0877fe|chunks=((2,), (4, 1))",
    '2x5-int32-k0|resscalar|dask(2, 4)|res': '3.0|3.0|int|int',
    '2x5-int32-k0|resscalar|dask(2, 5)|aspect': "ok|Array|aspect|('y', 'x')|['res']|2727f5cf2f29fd0877fe|chunks=((2,), (5,))",
    '2x5-int32-k0|resscalar|dask(2, 5)|res': '3.0|3.0|int|int',
    '2x5-int32-k0|resscalar|dask(3, 3)|aspect': "ok|Array|aspect|('y', 'x')|['res']|2727f5cf2f29fd0877fe|chunks=((2,), (3, 2))",
    '2x5-int32-k0|resscalar|dask(3, 3)|res': '3.0|3.0|int|int',
    '2x5-int32-k0|resscalar|numpy|aspect': "ok|ndarray|aspect|('y', 'x')|['res']|2727f5cf2f29fd0877fe",
    '2x5-int32-k0|resscalar|numpy|res': '3.0|3.0|int|int',
    '2x5-int64-k1|reslist|dask(2, 4)|aspect': "ok|Array|aspect|('y', 'x')|['res']|2727f5cf2f29fd0877fe|chunks=((2,), (4, 1))",
    '2x5-int64-k1|reslist|dask(2, 4)|res': '2.0|3.0|int|float',
    '2x5-int64-k1|reslist|dask(2, 5)|aspect': "ok|Array|aspect|('y', 'x')|['res']|2727f5cf2f29fd0877fe|chunks=((2,), (5,))",
    '2x5-int64-k1|reslist|dask(2, 5)|res': '2.0|3.0|int|float',
    '2x5-int64-k1|reslist|dask(3, 3)|aspect': "ok|Array|aspect|('y', 'x')|['res']|2727f5cf2f29fd0877fe|chunks=((2,), (3, 2))",
    '2x5-int64-k1|reslist|dask(3, 3)|res': '2.0|3.0|int|float',
    '2x5-int64-k1|reslist|numpy|aspect': "ok|ndarray|aspect|('y', 'x')|['res']|2727f5cf2f29fd0877fe",
    '2x5-int64-k1|reslist|numpy|res': '2.0|3.0|int|float',
    '2x5-int8-k3|resxy|dask(2, 4)|aspect': "ok|Array|aspect|('y', 'x')|['res']|2727f5cf2f29fd0877fe|chunks=((2,), (4, 1))",
    '2x5-int8-k3|resxy|dask(2, 4)|res': '2.5|0.5|float|float',
    '2x5-int8-k3|resxy|dask(2, 5)|aspect': "ok|Array|aspect|('y', 'x')|['res']|2727f5cf2f29fd0877fe|chunks=((2,), (5,))",
    '2x5-int8-k3|resxy|dask(2, 5)|res': '2.5|0.5|float|float',
    '2x5-int8-k3|resxy|dask(3, 3)|aspect': "ok|Array|aspect|('y', 'x')|['res']|2727f5cf2f29fd0877fe|chunks=((2,), (3, 2))",
    '2x5-int8-k3|resxy|dask(3, 3)|res': '2.5|0.5|float|float',
    '2x5-int8-k3|resxy|numpy|aspect': "ok|ndarray|aspect|('y', 'x')|['res']|2727f5cf2f29fd0877fe",
    '2x5-int8-k3|resxy|numpy|res': '2.5|0.5|float|float',
    '2x5-uint16-k2|resnp|dask(2, 4)|aspect': "ok|Array|aspect|('y', 'x')|['res']|2727f5cf2f29fd0877fe|chunks=((2,), (4, 1))",
    '2x5-uint16-k2|resnp|dask(2, 4)|res': '10.0|20.0|float64|float64',
    '2x5-uint16-k2|resnp|dask(2, 5)|aspect': "ok|Array|aspect|('y', 'x')|['res']|2727f5cf2f29fd0877fe|chunks=((2,), (5,))",
    '2x5-uint16-k2|resnp|dask(2, 5)|res': '10.0|20.0|float64|float64',
    '2x5-uint16-k2|resnp|dask(3, 3)|aspect': "ok|Array|aspect|('y', 'x')|['res']|2727f5cf2f29fd0877fe|chunks=((2,), (3, 2))",
    '2x5-uint16-k2|resnp|dask(3, 3)|res': '10.0|20.0|float64|float64',
    '2x5-uint16-k2|resnp|numpy|aspect': "ok|ndarray|aspect|('y', 'x')|['res']|2727f5cf2f29fd0877fe",
    '2x5-uint16-k2|resnp|numpy|res': '10.0|20.0|float64|float64',
    '3d|aspect': 'exc|TypingError',
    '3x3-float32-k0|reslist|dask(2, 4)|aspect': "ok|Array|aspect|('y', 'x')|['res']|1a875ff48d092440ec53|chunks=((2, 1), (3,))",
    '3x3-float32-k0|reslist|dask(2, 4)|res': '2.0|3.0|int|float',
    '3x3-float32-k0|reslist|dask(3, 3)|aspect': "ok|Array|aspect|('y', 'x')|['res']|1a875ff48d092440ec53|chunks=((3,), (3,))",
    '3x3-float32-k0|reslist|dask(3, 3)|res': '2.0|3.0|int|float',
    '3x3-float32-k0|reslist|numpy|aspect': "ok|ndarray|aspect|('y', 'x')|['res']|1a875ff48d092440ec53",
    '3x3-float32-k0|reslist|numpy|res': '2.0|3.0|int|float',
    '3x3-float64-k1|resnp|dask(2, 4)|aspect': "ok|Array|aspect|('y', 'x')|['res']|1a875ff48d092440ec53|chunks=((2, 1), (3,))",
    '3x3-float64-k1|resnp|dask(2, 4)|res': '10.0|20.0|float64|float64',
    '3x3-float64-k1|resnp|dask(3, 3)|aspect': "ok|Array|aspect|('y', 'x')|['res']|1a875ff48d092440ec53|chunks=((3,), (3,))",
    '3x3-float64-k1|resnp|dask(3, 3)|res': '10.0|20.0|float64|float64',
    '3x3-float64-k1|resnp|numpy|aspect': "ok|ndarray|aspect|('y', 'x')|['res']|1a875ff48d092440ec53",
    '3x3-float64-k1|resnp|numpy|res': '10.0|20.0|float64|float64',
    '3x3-int32-k1|res11|dask(2, 4)|aspect': "ok|Array|aspect|('y', 'x')|['res']|2752f6965542ef27d068|chunks=((2, 1), (3,))",
    '3x3-int32-k1|res11|dask(2, 4)|res': '1.0|1.0|int|int',
    '3x3-int32-k1|res11|dask(3, 3)|aspect': "ok|Array|aspect|('y', 'x')|['res']|2752f6965542ef27d068|chunks=((3,), (3,))",
    '3x3-int32-k1|res11|dask(3, 3)|res': '1.0|1.0|int|int',
    '3x3-int32-k1|res11|numpy|aspect': "ok|ndarray|aspect|('y', 'x')|['res']|2752f6965542ef27d068",
    '3x3-int32-k1|res11|numpy|res': '1.0|1.0|int|int',
    '3x3-int64-k2|resxy|dask(2, 4)|aspect': "ok|Array|aspect|('y', 'x')|['res']|0c0fb66ea8e0b9719061|chunks=((2, 1), (3,))",
    '3x3-int64-k2|resxy|dask(2, 4)|res': '2.5|0.5|float|float',
    '3x3-int64-k2|resxy|dask(3, 3)|aspect': "ok|Array|aspect|('y', 'x')|['res']|0c0fb66ea8e0b9719061|chunks=((3,), (3,))",
    '3x3-int64-k2|resxy|dask(3, 3)|res': '2.5|0.5|float|float',
    '3x3-int64-k2|resxy|numpy|aspect': "ok|ndarray|aspect|('y', 'x')|['res']|0c0fb66ea8e0b9719061",
    '3x3-int64-k2|resxy|numpy|res': '2.5|0.5|float|float',
    '3x3-int8-k0|nores|dask(2, 4)|aspect': "ok|Array|aspect|('y', 'x')|[]|e437088ac3dc4751face|chunks=((2, 1), (3,))",
    '3x3-int8-k0|nores|dask(2, 4)|res': '0.375|2.25|float|float',
    '3x3-int8-k0|nores|dask(3, 3)|aspect': "ok|Array|aspect|('y', 'x')|[]|e437088ac3dc4751face|chunks=((3,), (3,))",
    '3x3-int8-k0|nores|dask(3, 3)|res': '0.375|2.25|float|float',
    '3x3-int8-k0|nores|numpy|aspect': "ok|ndarray|aspect|('y', 'x')|[]|e437088ac3dc4751face",
    '3x3-int8-k0|nores|numpy|res': '0.375|2.25|float|float',
    '3x3-uint16-k3|resscalar|dask(2, 4)|aspect': "ok|Array|aspect|('y', 'x')|['res']|62342d651af80a48a3fa|chunks=((2, 1), (3,))",
    '3x3-uint16-k3|resscalar|dask(2, 4)|res': '3.0|3.0|int|int',
    '3x3-uint16-k3|resscalar|dask(3, 3)|aspect': "ok|Array|aspect|('y', 'x')|['res']|62342d651af80a48a3fa|chunks=((3,), (3,))",
    '3x3-uint16-k3|resscalar|dask(3, 3)|res': '3.0|3.0|int|int',
    '3x3-uint16-k3|resscalar|numpy|aspect': "ok|ndarray|aspect|('y', 'x')|['res']|62342d651af80a48a3fa",
    '3x3-uint16-k3|resscalar|numpy|res': '3.0|3.0|int|int',
    '5x4-float32-k1|resxy|dask(2, 4)|aspect': "ok|Array|aspect|('y', 'x')|['res']|25b63e758e56f0a2067c|chunks=((2, 2, 1), (4,))",
    '5x4-float32-k1|resxy|dask(2, 4)|res': '2.5|0.5|float|float',
    '5x4-float32-k1|resxy|dask(3, 3)|aspect': "ok|Array|aspect|('y', 'x')|['res']|25b63e758e56f0a2067c|chunks=((3, 2), (3, 1))",
    '5x4-float32-k1|resxy|dask(3, 3)|res': '2.5|0.5|float|float',
    '5x4-float32-k1|resxy|dask(5, 4)|aspect': "ok|Array|aspect|('y', 'x')|['res']|25b63e758e56f0a2067c|chunks=((5,), (4,))",
    '5x4-float32-k1|resxy|dask(5, 4)|res': '2.5|0.5|float|float',
    '5x4-float32-k1|resxy|numpy|aspect': "ok|ndarray|aspect|('y', 'x')|['res']|25b63e758e56f0a2067c",
    '5x4-float32-k1|resxy|numpy|res': '2.5|0.5|float|float',
    '5x4-float64-k2|resscalar|dask(2, 4)|aspect': "ok|Array|aspect|('y', 'x')|['res']|b883d338fb990b5dc5a4|chunks=((2, 2, 1), (4,))",
    '5x4-float64-k2|resscalar|dask(2, 4)|res': '3.0|3.0|int|int',
    '5x4-float64-k2|resscalar|dask(3, 3)|aspect': "ok|Array|aspect|('y', 'x')|['res']|b883d338fb990b5dc5a4|chunks=((3, 2), (3, 1))",
    '5x4-float64-k2|resscalar|dask(3, 3)|res': '3.0|3.0|int|int',
    '5x4-float64-k2|resscalar|dask(5, 4)|aspect': "ok|Array|aspect|('y', 'x')|['res']|b883d338fb990b5dc5a4|chunks=((5,), (4,))",
    '5x4-float64-k2|resscalar|dask(5, 4)|res': '3.0|3.0|int|int',
    '5x4-float64-k2|resscalar|numpy|aspect': "ok|ndarray|aspect|('y', 'x')|['res']|b883d338fb990b5dc5a4",
    '5x4-float64-k2|resscalar|numpy|res': '3.0|3.0|int|int',
    '5x4-int32-k2|resnpf32|dask(2, 4)|aspect': "ok|Array|aspect|('y', 'x')|['res']|cb6858d24d5c4e8464e9|chunks=((2, 2, 1), (4,))",
    '5x4-int32-k2|resnpf32|dask(2, 4)|res': '0.3333333333333333|1.875|float|float',
    '5x4-int32-k2|resnpf32|dask(3, 3)|aspect': "ok|Array|aspect|('y', 'x')|['res']|cb6858d24d5c4e8464e9|chunks=((3, 2), (3, 1))",
    '5x4-int32-k2|resnpf32|dask(3, 3)|res': '0.3333333333333333|1.875|float|float',
    '5x4-int32-k2|resnpf32|dask(5, 4)|aspect': "ok|Array|aspect|('y', 'x')|['res']|cb6858d24d5c4e8464e9|chunks=((5,), (4,))",
    '5x4-int32-k2|resnpf32|dask(5, 4)|res': '0.3333333333333333|1.875|float|float',
    '5x4-int32-k2|resnpf32|numpy|aspect': "ok|ndarray|aspect|('y', 'x')|['res']|cb6858d24d5c4e8464e9",
    '5x4-int32-k2|resnpf32|numpy|res': '0.3333333333333333|1.875|float|float',
    '5x4-int64-k3|nores|dask(2, 4)|aspect': "ok|Array|aspect|('y', 'x')|[]|9de9ef521569b40ee5d0|chunks=((2, 2, 1), (4,))",
    '5x4-int64-k3|nores|dask(2, 4)|res': '0.3333333333333333|1.875|float|float',
    '5x4-int64-k3|nores|dask(3, 3)|aspect': "ok|Array|aspect|('y', 'x')|[]|9de9ef521569b40ee5d0|chunks=((3, 2), (3, 1))",
    '5x4-int64-k3|nores|dask(3, 3)|res': '0.3333333333333333|1.875|float|float',
    '5x4-int64-k3|nores|dask(5, 4)|aspect': "ok|Array|aspect|('y', 'x')|[]|9de9ef521569b40ee5d0|chunks=((5,), (4,))",
    '5x4-int64-k3|nores|dask(5, 4)|res': '0.3333333333333333|1.875|float|float',
    '5x4-int64-k3|nores|numpy|aspect': "ok|ndarray|aspect|('y', 'x')|[]|9de9ef521569b40ee5d0",
    '5x4-int64-k3|nores|numpy|res': '0.3333333333333333|1.875|float|float',
    '5x4-int8-k1|resbad|dask(2, 4)|aspect': "ok|Array|aspect|('y', 'x')|['res']|c16716615f8b0865b27a|chunks=((2, 2, 1), (4,))",
    '5x4-int8-k1|resbad|dask(2, 4)|res': '0.3333333333333333|1.875|float|float',
    '5x4-int8-k1|resbad|dask(3, 3)|aspect': "ok|Array|aspect|('y', 'x')|['res']|c16716615f8b0865b27a|chunks=((3, 2), (3, 1))",
    '5x4-int8-k1|resbad|dask(3, 3)|res': '0.3333333333333333|1.875|float|float',
    '5x4-int8-k1|resbad|dask(5, 4)|aspect': "ok|Array|aspect|('y', 'x')|['res']|c16716615f8b0865b27a|chunks=((5,), (4,))",
    '5x4-int8-k1|resbad|dask(5, 4)|res': '0.3333333333333333|1.875|float|float',
    '5x4-int8-k1|resbad|numpy|aspect': "ok|ndarray|aspect|('y', 'x')|['res']|c16716615f8b0865b27a",
    '5x4-int8-k1|resbad|numpy|res': '0.3333333333333333|1.875|float|float',
    '5x4-uint16-k0|res11|dask(2, 4)|aspect': "ok|Array|aspect|('y', 'x')|['res']|1ded2cddccf8ed6be95a|chunks=((2, 2, 1), (4,))",
    '5x4-uint16-k0|res11|dask(2, 4)|res': '1.0|1.0|int|int',
    '5x4-uint16-k0|res11|dask(3, 3)|aspect': "ok|Array|aspect|('y', 'x')|['res']|1ded2cddccf8ed6be95a|chunks=((3, 2), (3, 1))",
    '5x4-uint16-k0|res11|dask(3, 3)|res': '1.0|1.0|int|int',
    '5x4-uint16-k0|res11|dask(5, 4)|aspect': "ok|Array|aspect|('y', 'x')|['res']|1ded2cddccf8ed6be95a|chunks=((5,), (4,))",
    '5x4-uint16-k0|res11|dask(5, 4)|res': '1.0|1.0|int|int',
    '5x4-uint16-k0|res11|numpy|aspect': "ok|ndarray|aspect|('y', 'x')|['res']|1ded2cddccf8ed6be95a",
    '5x4-uint16-k0|res11|numpy|res': '1.0|1.0|int|int',
    '6x1-float32-k2|nores|dask(2, 4)|aspect': "ok|Array|aspect|('y', 'x')|[]|b0beda72bcdda20b98d3|chunks=((2, 2, 2), (1,))",
    '6x1-float32-k2|nores|dask(2, 4)|res': 'exc|ZeroDivisionError|float division by zero',
    '6x1-float32-k2|nores|dask(3, 3)|aspect': "ok|Array|aspect|('y', 'x')|[]|b0beda72bcdda20b98d3|chunks=((3, 3), (1,))",
    '6x1-float32-k2|nores|dask(3, 3)|res': 'exc|ZeroDivisionError|float division by zero',
    '6x1-float32-k2|nores|dask(6, 1)|aspect': "ok|Array|aspect|('y', 'x')|[]|b0beda72bcdda20b98d3|chunks=((6,), (1,))",
    '6x1-float32-k2|nores|dask(6, 1)|res': 'exc|ZeroDivisionError|float division by zero',
    '6x1-float32-k2|nores|numpy|aspect': "ok|ndarray|aspect|('y', 'x')|[]|b0beda72bcdda20b98d3",
    '6x1-float32-k2|nores|numpy|res': 'exc|ZeroDivisionError|float division by zero',
    '6x1-float64-k3|res11|dask(2, 4)|aspect': "ok|Array|aspect|('y', 'x')|['res']|b0beda72bcdda20b98d3|chunks=((2, 2, 2), (1,))",
    '6x1-float64-k3|res11|dask(2, 4)|res': '1.0|1.0|int|int',
    '6x1-float64-k3|res11|dask(3, 3)|aspect': "ok|Array|aspect|('y', 'x')|['res']|b0beda72bcdda20b98d3|chunks=((3, 3), (1,))",
    '6x1-float64-k3|res11|dask(3, 3)|res': '1.0|1.0|int|int',
    '6x1-float64-k3|res11|dask(6, 1)|aspect': "ok|Array|aspect|('y', 'x')|['res']|b0beda72bcdda20b98d3|chunks=((6,), (1,))",
    '6x1-float64-k3|res11|dask(6, 1)|res': '1.0|1.0|int|int',
    '6x1-float64-k3|res11|numpy|aspect': "ok|ndarray|aspect|('y', 'x')|['res']|b0beda72bcdda20b98d3",
    '6x1-float64-k3|res11|numpy|res': '1.0|1.0|int|int',
    '6x1-int32-k3|resnp|dask(2, 4)|aspect': "ok|Array|aspect|('y', 'x')|['res']|b0beda72bcdda20b98d3|chunks=((2, 2, 2), (1,))",
    '6x1-int32-k3|resnp|dask(2, 4)|res': '10.0|20.0|float64|float64',
    '6x1-int32-k3|resnp|dask(3, 3)|aspect': "ok|Array|aspect|('y', 'x')|['res']|b0beda72bcdda20b98d3|chunks=((3, 3), (1,))",
    '6x1-int32-k3|resnp|dask(3, 3)|res': '10.0|20.0|float64|float64',
    '6x1-int32-k3|resnp|dask(6, 1)|aspect': "ok|Array|aspect|('y', 'x')|['res']|b0beda72bcdda20b98d3|chunks=((6,), (1,))",
    '6x1-int32-k3|resnp|dask(6, 1)|res': '10.0|20.0|float64|float64',
    '6x1-int32-k3|resnp|numpy|aspect': "ok|ndarray|aspect|('y', 'x')|['res']|b0beda72bcdda20b98d3",
    '6x1-int32-k3|resnp|numpy|res': '10.0|20.0|float64|float64',
    '6x1-int64-k0|resbad|dask(2, 4)|aspect': "ok|Array|aspect|('y', 'x')|['res']|b0beda72bcdda20b98d3|chunks=((2, 2, 2), (1,))",
    '6x1-int64-k0|resbad|dask(2, 4)|res': 'exc|ZeroDivisionError|float division by zero',
    '6x1-int64-k0|resbad|dask(3, 3)|aspect': "ok|Array|aspect|('y', 'x')|['res']|b0beda72bcdda20b98d3|chunks=((3, 3), (1,))",
    '6x1-int64-k0|resbad|dask(3, 3)|res': 'exc|ZeroDivisionError|float division by zero',
    '6x1-int64-k0|resbad|dask(6, 1)|aspect': "ok|Array|aspect|('y', 'x')|['res']|b0beda72bcdda20b98d3|chunks=((6,), (1,))",
    '6x1-int64-k0|resbad|dask(6, 1)|res': 'exc|ZeroDivisionError|float division by zero',
    '6x1-int64-k0|resbad|numpy|aspect': "ok|ndarray|aspect|('y', 'x')|['res']|b0beda72bcdda20b98d3",
    '6x1-int64-k0|resbad|numpy|res': 'exc|ZeroDivisionError|float division by zero',
    '6x1-int8-k2|reslist|dask(2, 4)|aspect': "ok|Array|aspect|('y', 'x')|['res']|b0beda72bcdda20b98d3|chunks=((2, 2, 2), (1,))",
    '6x1-int8-k2|reslist|dask(2, 4)|res': '2.0|3.0|int|float',
    '6x1-int8-k2|reslist|dask(3, 3)|aspect': "ok|Array|aspect|('y', 'x')|['res']|b0beda72bcdda20b98d3|chunks=((3, 3), (1,))",
    '6x1-int8-k2|reslist|dask(3, 3)|res': '2.0|3.0|int|float',
    '6x1-int8-k2|reslist|dask(6, 1)|aspect': "ok|Array|aspect|('y', 'x')|['res']|b0beda72bcdda20b98d3|chunks=((6,), (1,))",
    '6x1-int8-k2|reslist|dask(6, 1)|res': '2.0|3.0|int|float',
    '6x1-int8-k2|reslist|numpy|aspect': "ok|ndarray|aspect|('y', 'x')|['res']|b0beda72bcdda20b98d3",
    '6x1-int8-k2|reslist|numpy|res': '2.0|3.0|int|float',
    '6x1-uint16-k1|resnpf32|dask(2, 4)|aspect': "ok|Array|aspect|('y', 'x')|['res']|b0beda72bcdda20b98d3|chunks=((2, 2, 2), (1,))",
    '6x1-uint16-k1|resnpf32|dask(2, 4)|res': 'exc|ZeroDivisionError|float division by zero',
    '6x1-uint16-k1|resnpf32|dask(3, 3)|aspect': "ok|Array|aspect|('y', 'x')|['res']|b0beda72bcdda20b98d3|chunks=((3, 3), (1,))",
    '6x1-uint16-k1|resnpf32|dask(3, 3)|res': 'exc|ZeroDivisionError|float division by zero',
    '6x1-uint16-k1|resnpf32|dask(6, 1)|aspect': "ok|Array|aspect|('y', 'x')|['res']|b0beda72bcdda20b98d3|chunks=((6,), (1,))",
    '6x1-uint16-k1|resnpf32|dask(6, 1)|res': 'exc|ZeroDivisionError|float division by zero',
    '6x1-uint16-k1|resnpf32|numpy|aspect': "ok|ndarray|aspect|('y', 'x')|['res']|b0beda72bcdda20b98d3",
    '6x1-uint16-k1|resnpf32|numpy|res': 'exc|ZeroDivisionError|float division by zero',
    '7x11-float32-k2|nores|dask(2, 4)|aspect': "ok|Array|aspect|('y', 'x')|[]|11e6548b5195e4b9de76|chunks=((2, 2, 2, 1), (4, 4, 3))",
    '7x11-float32-k2|nores|dask(2, 4)|res': '0.275|1.75|float|float',
    '7x11-float32-k2|nores|dask(3, 3)|aspect': "ok|Array|aspect|('y', 'x')|[]|11e6548b5195e4b9de76|chunks=((3, 3, 1), (3, 3, 3, 2))",
    '7x11-float32-k2|nores|dask(3, 3)|res': '0.275|1.75|float|float',
    '7x11-float32-k2|nores|dask(7, 11)|aspect': "ok|Array|aspect|('y', 'x')|[]|11e6548b5195e4b9de76|chunks=((7,), (11,))",
    '7x11-float32-k2|nores|dask(7, 11)|res': '0.275|1.75|float|float',
    '7x11-float32-k2|nores|numpy|aspect': "ok|ndarray|aspect|('y', 'x')|[]|11e6548b5195e4b9de76",
    '7x11-float32-k2|nores|numpy|res': '0.275|1.75|float|float',
    '7x11-float64-k3|res11|dask(2, 4)|aspect': "ok|Array|aspect|('y', 'x')|['res']|6611bbe2237f0b66cef4|chunks=((2, 2, 2, 1), (4, 4, 3))",
    '7x11-float64-k3|res11|dask(2, 4)|res': '1.0|1.0|int|int',
    '7x11-float64-k3|res11|dask(3, 3)|aspect': "ok|Array|aspect|('y', 'x')|['res']|6611bbe2237f0b66cef4|chunks=((3, 3, 1), (3, 3, 3, 2))",
    '7x11-float64-k3|res11|dask(3, 3)|res': '1.0|1.0|int|int',
    '7x11-float64-k3|res11|dask(7, 11)|aspect': "ok|Array|aspect|('y', 'x')|['res']|6611bbe2237f0b66cef4|chunks=((7,), (11,))",
    '7x11-float64-k3|res11|dask(7, 11)|res': '1.0|1.0|int|int',
    '7x11-float64-k3|res11|numpy|aspect': "ok|ndarray|aspect|('y', 'x')|['res']|6611bbe2237f0b66cef4",
    '7x11-float64-k3|res11|numpy|res': '1.0|1.0|int|int',
    '7x11-int32-k3|resnp|dask(2, 4)|aspect': "ok|Array|aspect|('y', 'x')|['res']|15e3a80647332306a01e|chunks=((2, 2, 2, 1), (4, 4, 3))",
    '7x11-int32-k3|resnp|dask(2, 4)|res': '10.0|20.0|float64|float64',
    '7x11-int32-k3|resnp|dask(3, 3)|aspect': "ok|Array|aspect|('y', 'x')|['res']|15e3a80647332306a01e|chunks=((3, 3, 1), (3, 3, 3, 2))",
    '7x11-int32-k3|resnp|dask(3, 3)|res': '10.0|20.0|float64|float64',
    '7x11-int32-k3|resnp|dask(7, 11)|aspect': "ok|Array|aspect|('y', 'x')|['res']|15e3a80647332306a01e|chunks=((7,), (11,))",
    '7x11-int32-k3|resnp|dask(7, 11)|res': '10.0|20.0|float64|float64',
    '7x11-int32-k3|resnp|numpy|aspect': "ok|ndarray|aspect|('y', 'x')|['res']|15e3a80647332306a01e",
    '7x11-int32-k3|resnp|numpy|res': '10.0|20.0|float64|float64',
    '7x11-int64-k0|resbad|dask(2, 4)|aspect': "ok|Array|aspect|('y', 'x')|['res']|37aee35ff1dc8bf67929|chunks=((2, 2, 2, 1), (4, 4, 3))",
    '7x11-int64-k0|resbad|dask(2, 4)|res': '0.275|1.75|float|float',
    '7x11-int64-k0|resbad|dask(3, 3)|aspect': "ok|Array|aspect|('y', 'x')|['res']|37aee35ff1dc8bf67929|chunks=((3, 3, 1), (3, 3, 3, 2))",
    '7x11-int64-k0|resbad|dask(3, 3)|res': '0.275|1.75|float|float',
    '7x11-int64-k0|resbad|dask(7, 11)|aspect': "ok|Array|aspect|('y', 'x')|['res']|37aee35ff1dc8bf67929|chunks=((7,), (11,))",
    '7x11-int64-k0|resbad|dask(7, 11)|res': '0.275|1.75|float|float',
    '7x11-int64-k0|resbad|numpy|aspect': "ok|ndarray|aspect|('y', 'x')|['res']|37aee35ff1dc8bf67929",
    '7x11-int64-k0|resbad|numpy|res': '0.275|1.75|float|float',
    '7x11-int8-k2|reslist|dask(2, 4)|aspect': "ok|Array|aspect|('y', 'x')|['res']|9e5ea70c367e624d3c64|chunks=((2, 2, 2, 1), (4, 4, 3))",
    '7x11-int8-k2|reslist|dask(2, 4)|res': '2.0|3.0|int|float',
    '7x11-int8-k2|reslist|dask(3, 3)|aspect': "ok|Array|aspect|('y', 'x')|['res']|9e5ea70c367e624d3c64|chunks=((3, 3, 1), (3, 3, 3, 2))",
    '7x11-int8-k2|reslist|dask(3, 3)|res': '2.0|3.0|int|float',
    '7x11-int8-k2|reslist|dask(7, 11)|aspect': "ok|Array|aspect|('y', 'x')|['res']|9e5ea70c367e624d3c64|chunks=((7,), (11,))",
    '7x11-int8-k2|reslist|dask(7, 11)|res': '2.0|3.0|int|float',
    '7x11-int8-k2|reslist|numpy|aspect': "ok|ndarray|aspect|('y', 'x')|['res']|9e5ea70c367e624d3c64",
    '7x11-int8-k2|reslist|numpy|res': '2.0|3.0|int|float',
    '7x11-uint16-k1|resnpf32|dask(2, 4)|aspect': "ok|Array|aspect|('y', 'x')|['res']|2bf8d6f70b2d80f76778|chunks=((2, 2, 2, 1), (4, 4, 3))",
    '7x11-uint16-k1|resnpf32|dask(2, 4)|res': '0.275|1.75|float|float',
    '7x11-uint16-k1|resnpf32|dask(3, 3)|aspect': "ok|Array|aspect|('y', 'x')|['res']|2bf8d6f70b2d80f76778|chunks=((3, 3, 1), (3, 3, 3, 2))",
    '7x11-uint16-k1|resnpf32|dask(3, 3)|res': '0.275|1.75|float|float',
    '7x11-uint16-k1|resnpf32|dask(7, 11)|aspect': "ok|Array|aspect|('y', 'x')|['res']|2bf8d6f70b2d80f76778|chunks=((7,), (11,))",
    '7x11-uint16-k1|resnpf32|dask(7, 11)|res': '0.275|1.75|float|float',
    '7x11-uint16-k1|resnpf32|numpy|aspect': "ok|ndarray|aspect|('y', 'x')|['res']|2bf8d6f70b2d80f76778",
    '7x11-uint16-k1|resnpf32|numpy|res': '0.275|1.75|float|float',
    'calcres|nores|False': '1.0|1.0',
    'calcres|nores|True': '0.4|2.0',
    'calcres|res11|False': '1.0|1.0',
    'calcres|res11|True': '0.4|2.0',
    'calcres|res3|False': '1.0|1.0',
    'calcres|res3|True': '0.4|2.0',
    'calcres|resbad|False': '1.0|1.0',
    'calcres|resbad|True': '0.4|2.0',
    'calcres|resbool|False': '1.0|1.0',
    'calcres|resbool|True': '0.4|2.0',
    'calcres|resdict|False': '1.0|1.0',
    'calcres|resdict|True': '0.4|2.0',
    'calcres|reslist|False': '1.0|1.0',
    'calcres|reslist|True': '0.4|2.0',
    'calcres|resmixed|False': '1.0|1.0',
    'calcres|resmixed|True': '0.4|2.0',
    'calcres|resneg|False': '1.0|1.0',
    'calcres|resneg|True': '0.4|2.0',
    'calcres|resnone|False': '1.0|1.0',
    'calcres|resnone|True': '0.4|2.0',
    'calcres|resnp0d|False': '1.0|1.0',
    'calcres|resnp0d|True': '0.4|2.0',
    'calcres|resnpf32|False': '1.0|1.0',
    'calcres|resnpf32|True': '0.4|2.0',
    'calcres|resnpf64|False': '1.0|1.0',
    'calcres|resnpf64|True': '0.4|2.0',
    'calcres|resnpint|False': '1.0|1.0',
    'calcres|resnpint|True': '0.4|2.0',
    'calcres|resnp|False': '1.0|1.0',
    'calcres|resnp|True': '0.4|2.0',
    'calcres|resscalar|False': '1.0|1.0',
    'calcres|resscalar|True': '0.4|2.0',
    'calcres|resxy|False': '1.0|1.0',
    'calcres|resxy|True': '0.4|2.0',
    'empty|aspect': "ok|ndarray|aspect|('dim_0', 'dim_1')|['res']|ae1ea45b7376296b0788",
    'fake|aspect': "exc|TypeError|Unsupported Array Type: <class '__main__.collect.<locals>.Fake'>",
    'getres|nores|False': '1.0|1.0|float|float',
    'getres|nores|True': '0.4|2.0|float|float',
    'getres|res11|False': '1|1|int|int',
    'getres|res11|True': '1|1|int|int',
    'getres|res3|False': '1.0|1.0|float|float',
    'getres|res3|True': '0.4|2.0|float|float',
    'getres|resbad|False': '1.0|1.0|float|float',
    'getres|resbad|True': '0.4|2.0|float|float',
    'getres|resbool|False': 'True|True|bool|bool',
    'getres|resbool|True': 'True|True|bool|bool',
    'getres|resdict|False': '1.0|1.0|float|float',
    'getres|resdict|True': '0.4|2.0|float|float',
    'getres|reslist|False': '2|3.0|int|float',
    'getres|reslist|True': '2|3.0|int|float',
    'getres|resmixed|False': '1.0|1.0|float|float',
    'getres|resmixed|True': '0.4|2.0|float|float',
    'getres|resneg|False': '-2|5|int|int',
    'getres|resneg|True': '-2|5|int|int',
    'getres|resnone|False': '1.0|1.0|float|float',
    'getres|resnone|True': '0.4|2.0|float|float',
    'getres|resnp0d|False': '1.0|1.0|float|float',
    'getres|resnp0d|True': '0.4|2.0|float|float',
    'getres|resnpf32|False': '1.0|1.0|float|float',
    'getres|resnpf32|True': '0.4|2.0|float|float',
    'getres|resnpf64|False': 'np.float64(2.0)|np.float64(3.0)|float64|float64',
    'getres|resnpf64|True': 'np.float64(2.0)|np.float64(3.0)|float64|float64',
    'getres|resnpint|False': '1.0|1.0|float|float',
    'getres|resnpint|True': '0.4|2.0|float|float',
    'getres|resnp|False': 'np.float64(10.0)|np.float64(20.0)|float64|float64',
    'getres|resnp|True': 'np.float64(10.0)|np.float64(20.0)|float64|float64',
    'getres|resscalar|False': '3|3|int|int',
    'getres|resscalar|True': '3|3|int|int',
    'getres|resxy|False': '2.5|0.5|float|float',
    'getres|resxy|True': '2.5|0.5|float|float',
    'mapper': 'np|dk',
    'mapper-fake': "TypeError|Unsupported Array Type: <class '__main__.collect.<locals>.Fake'>",
}


def digest(arr):
    arr = np.asarray(arr)
    if arr.dtype.kind == 'f':
        arr = np.where(np.isnan(arr), np.array(np.nan, dtype=arr.dtype), arr)
        arr = arr.astype(arr.dtype)
    h = hashlib.sha256()
    h.update(str(arr.dtype).encode())
    h.update(str(arr.shape).encode())
    h.update(np.ascontiguousarray(arr).tobytes())
    return h.hexdigest()[:20]


def make_rasters():
    rng = np.random.RandomState(20240808)
    shapes = [(1, 1), (1, 6), (6, 1), (2, 5), (3, 3), (5, 4), (7, 11), (12, 9)]
    dtypes = ['int8', 'int32', 'int64', 'uint16', 'float32', 'float64']
    out = []
    for si, shape in enumerate(shapes):
        for di, dt in enumerate(dtypes):
            kind = (si + di) % 4
            if kind == 0:      # ties: small integers
                data = rng.randint(0, 4, size=shape)
            elif kind == 1:    # rough surface
                data = rng.randint(0, 100, size=shape)
            elif kind == 2:    # flat with one bump
                data = np.full(shape, 7)
                data[shape[0] // 2, shape[1] // 2] = 9
            else:              # smooth ramp + noise
                yy, xx = np.mgrid[0:shape[0], 0:shape[1]]
                data = 3 * yy - 2 * xx + 40 + rng.randint(0, 3, size=shape)
            data = data.astype(dt)
            if dt.startswith('float'):
                data = data + rng.rand(*shape).astype(dt) * (kind == 1)
                data = data.astype(dt)
                if data.size > 4:
                    flat = data.reshape(-1)
                    flat[rng.randint(0, data.size)] = np.nan
                    if kind == 3:
                        flat[rng.randint(0, data.size)] = np.inf
                        flat[rng.randint(0, data.size)] = -np.inf
            out.append(('%s-%s-k%d' % ('x'.join(map(str, shape)), dt, kind), data))
    return out


RES_VARIANTS = [
    ('nores', None),
    ('res11', (1, 1)),
    ('resxy', (2.5, 0.5)),
    ('resscalar', 3),
    ('reslist', [2, 3.0]),
    ('resnp', np.array([10.0, 20.0])),
    ('resbad', 'abc'),
    ('resnpf32', (np.float32(2.0), np.float32(4.0))),
]

ANGLES = [(225, 25), (0, 90), (90, 0), (315.5, 45.25), (400, -10)]


def build(data, res_name, res, backend, chunks):
    h, w = data.shape
    arr = data if backend == 'numpy' else da.from_array(data, chunks=chunks)
    attrs = {} if res is None else {'res': res}
    agg = xr.DataArray(arr, dims=['y', 'x'], attrs=attrs, name='elev')
    if res_name in ('nores', 'resbad', 'resnpf32'):
        agg['y'] = np.linspace(h * 1.5, 0, h)      # y cell size 1.5*h/(h-1)
        agg['x'] = np.linspace(0, w * 0.25, w)     # x cell size differs
    return agg


def run(func, agg, **kw):
    try:
        r = func(agg, **kw)
        lazy = isinstance(r.data, da.Array)
        extra = ''
        if lazy:
            extra = '|chunks=%s' % (r.data.chunks,)
        val = r.data.compute() if lazy else r.data
        return 'ok|%s|%s|%s|%s|%s%s' % (type(r.data).__name__, r.name, r.dims,
                                         sorted(r.attrs), digest(val), extra), val
    except Exception as e:  # noqa
        if type(e).__name__ == 'TypingError':   # numba text mentions bytecode temporaries
            return 'exc|TypingError', None
        return 'exc|%s|%s' % (type(e).__name__, str(e)[:120]), None


# ---------------------------------------------------------------- reference
def ref_slope(data, cx, cy):
    d = data.astype(np.float32).astype(np.float64)
    out = np.full(d.shape, np.nan)
    if d.shape[0] < 3 or d.shape[1] < 3:
        return out
    a = d[2:, :-2]; b = d[2:, 1:-1]; c = d[2:, 2:]
    dd = d[1:-1, :-2]; f = d[1:-1, 2:]
    g = d[:-2, :-2]; hh = d[:-2, 1:-1]; i = d[:-2, 2:]
    dzdx = ((c + 2 * f + i) - (a + 2 * dd + g)) / (8 * cx)
    dzdy = ((g + 2 * hh + i) - (a + 2 * b + c)) / (8 * cy)
    out[1:-1, 1:-1] = np.degrees(np.arctan(np.hypot(dzdx, dzdy)))
    return out


def ref_curvature(data, cx, cy):
    d = data.astype(np.float32).astype(np.float64)
    cs = (cx + cy) / 2
    out = np.full(d.shape, np.nan)
    if d.shape[0] < 3 or d.shape[1] < 3:
        return out
    z = d[1:-1, 1:-1]
    dd = (d[2:, 1:-1] + d[:-2, 1:-1]) / 2 - z
    ee = (d[1:-1, 2:] + d[1:-1, :-2]) / 2 - z
    out[1:-1, 1:-1] = -2 * (dd + ee) * 100 / (cs * cs)
    return out


def ref_aspect(data):
    d = data.astype(np.float32).astype(np.float64)
    out = np.full(d.shape, np.nan)
    if d.shape[0] < 3 or d.shape[1] < 3:
        return out
    a = d[:-2, :-2]; b = d[:-2, 1:-1]; c = d[:-2, 2:]
    dd = d[1:-1, :-2]; f = d[1:-1, 2:]
    g = d[2:, :-2]; hh = d[2:, 1:-1]; i = d[2:, 2:]
    dzdx = ((c + 2 * f + i) - (a + 2 * dd + g)) / 8
    dzdy = ((g + 2 * hh + i) - (a + 2 * b + c)) / 8
    asp = np.degrees(np.arctan2(dzdy, -dzdx))
    comp = np.where(asp > 90.0, 450.0 - asp, 90.0 - asp)
    comp = np.where((dzdx == 0) & (dzdy == 0), -1.0, comp)
    out[1:-1, 1:-1] = comp
    return out


def ref_hillshade(data, az, alt):
    d = data.astype(np.float32).astype(np.float64)
    out = np.full(d.shape, np.nan)
    if d.shape[0] < 3 or d.shape[1] < 3:
        return out
    gx = (d[2:, 1:-1] - d[:-2, 1:-1]) / 2
    gy = (d[1:-1, 2:] - d[1:-1, :-2]) / 2
    sl = np.pi / 2 - np.arctan(np.hypot(gx, gy))
    asp = np.arctan2(-gx, gy)
    azr = np.radians(360.0 - az)
    altr = np.radians(alt)
    sh = np.sin(altr) * np.sin(sl) + np.cos(altr) * np.cos(sl) * np.cos(azr - np.pi / 2 - asp)
    out[1:-1, 1:-1] = (sh + 1) / 2
    return out


def close(val, ref, tol):
    if val is None:
        return True
    val = np.asarray(val, dtype=np.float64)
    with np.errstate(all='ignore'):
        same_nan = np.array_equal(np.isnan(val), np.isnan(ref))
        ok = np.isclose(val, ref, rtol=tol, atol=tol, equal_nan=True)
    return same_nan and bool(ok.all())


def collect():
    assert xrspatial.__file__.startswith('/tmp/t5/TC08/'), xrspatial.__file__
    table = {}
    ref_fail = []
    rasters = make_rasters()
    for ri, (rname, data) in enumerate(rasters):
        res_name, res = RES_VARIANTS[ri % len(RES_VARIANTS)]
        backends = [('numpy', None), ('dask', (3, 3)), ('dask', (2, 4)), ('dask', data.shape)]
        for backend, chunks in backends:
            agg = build(data, res_name, res, backend, chunks)
            key0 = '%s|%s|%s%s' % (rname, res_name, backend, '' if chunks is None else chunks)
            try:
                cx, cy = get_dataarray_resolution(agg)
                table[key0 + '|res'] = '%r|%r|%s|%s' % (float(cx), float(cy),
                                                        type(cx).__name__, type(cy).__name__)
            except Exception as e:  # noqa
                cx = cy = None
                table[key0 + '|res'] = 'exc|%s|%s' % (type(e).__name__, str(e)[:120])
            if 'slope' in FUNCS:
                s, val = run(slope, agg)
                table[key0 + '|slope'] = s
                if val is not None and not close(val, ref_slope(data, cx, cy), 2e-3):
                    ref_fail.append(key0 + '|slope')
            if 'curvature' in FUNCS:
                s, val = run(curvature, agg, name='c')
                table[key0 + '|curvature'] = s
                if val is not None and np.isfinite(data.astype('f8')).all() \
                        and not close(val, ref_curvature(data, cx, cy), 1e-3):
                    ref_fail.append(key0 + '|curvature')
            if 'aspect' in FUNCS:
                s, val = run(aspect, agg)
                table[key0 + '|aspect'] = s
                if val is not None and not close(val, ref_aspect(data), 1e-3):
                    ref_fail.append(key0 + '|aspect')
            if 'hillshade' in FUNCS:
                az, alt = ANGLES[ri % len(ANGLES)]
                s, val = run(hillshade, agg, azimuth=az, angle_altitude=alt)
                table[key0 + '|hillshade'] = s
                if val is not None and not close(val, ref_hillshade(data, az, alt), 1e-5):
                    ref_fail.append(key0 + '|hillshade')
                s, val = run(hillshade, agg)
                table[key0 + '|hillshade-default'] = s

    # extra cases ----------------------------------------------------------
    base = np.arange(30, dtype='f8').reshape(5, 6) ** 1.5
    # unsupported array type and other error paths: messages must be identical
    bad = xr.DataArray(base)
    bad.data  # noqa
    class Fake:  # noqa
        def __init__(self, d):
            self.data = d
            self.attrs = {}
            self.coords = {}
            self.dims = ('y', 'x')
            self.shape = (2, 2)
    fake = Fake([[1, 2], [3, 4]])
    for nm, fn in (('slope', slope), ('curvature', curvature), ('aspect', aspect),
                   ('hillshade', hillshade)):
        if nm in FUNCS:
            fake.attrs = {'res': (1, 1)}
            table['fake|' + nm] = run(fn, fake)[0]
    if 'hillshade' in FUNCS:
        table['shadows'] = run(hillshade, xr.DataArray(base), shadows=True)[0]
    try:
        ArrayTypeFunctionMapping(1, 2, 3, 4)(fake)
        table['mapper-fake'] = 'no error'
    except Exception as e:  # noqa
        table['mapper-fake'] = '%s|%s' % (type(e).__name__, e)
    m = ArrayTypeFunctionMapping('np', 'cp', 'dk', 'dkcp')
    table['mapper'] = '%s|%s' % (m(xr.DataArray(base)), m(xr.DataArray(da.from_array(base, chunks=2))))

    # resolution helper on its own
    for rn, res in RES_VARIANTS + [('res3', (1, 2, 3)), ('resbool', True), ('resmixed', (1, 'a')),
                                   ('resnp0d', np.array(2.0)), ('resnone', None),
                                   ('resdict', {'a': 1}), ('resneg', (-2, 5)),
                                   ('resnpint', (np.int64(2), np.int64(3))),
                                   ('resnpf64', (np.float64(2), np.float64(3)))]:
        agg = xr.DataArray(base, dims=['y', 'x'], attrs={} if res is None else {'res': res})
        for coords in (False, True):
            if coords:
                agg = agg.assign_coords(y=np.linspace(9, 1, 5), x=np.linspace(0, 2, 6))
            try:
                cx, cy = get_dataarray_resolution(agg)
                s = '%r|%r|%s|%s' % (cx, cy, type(cx).__name__, type(cy).__name__)
            except Exception as e:  # noqa
                s = 'exc|%s|%s' % (type(e).__name__, str(e)[:120])
            table['getres|%s|%s' % (rn, coords)] = s
            try:
                xr_, yr_ = calc_res(agg)
                s = '%r|%r' % (xr_, yr_)
            except Exception as e:  # noqa
                s = 'exc|%s|%s' % (type(e).__name__, str(e)[:120])
            table['calcres|%s|%s' % (rn, coords)] = s
            for nm, fn in (('slope', slope), ('curvature', curvature)):
                if nm in FUNCS:
                    table['%s|%s|%s' % (nm, rn, coords)] = run(fn, agg)[0]
    # 3-D input / 1-D input error behaviour
    for nm, fn in (('slope', slope), ('curvature', curvature), ('aspect', aspect),
                   ('hillshade', hillshade)):
        if nm in FUNCS:
            table['1d|' + nm] = run(fn, xr.DataArray(np.arange(5.0), attrs={'res': 1}))[0]
            table['3d|' + nm] = run(fn, xr.DataArray(np.zeros((2, 4, 4)), attrs={'res': 1}))[0]
            table['empty|' + nm] = run(fn, xr.DataArray(np.zeros((0, 4)), attrs={'res': 1}))[0]
    return table, ref_fail


def main():
    table, ref_fail = collect()
    if '--record' in sys.argv:
        print('{')
        for k in sorted(table):
            print('    %r: %r,' % (k, table[k]))
        print('}')
        return 0
    bad = 0
    for k in sorted(set(table) | set(EXPECTED)):
        if table.get(k) != EXPECTED.get(k):
            bad += 1
            if bad <= 20:
                print('MISMATCH', k, '\n   got     ', table.get(k), '\n   expected', EXPECTED.get(k))
    for k in ref_fail:
        print('REFERENCE MISMATCH', k)
    print('%d cases, %d mismatches, %d reference failures' % (len(table), bad, len(ref_fail)))
    return 1 if (bad or ref_fail) else 0


if __name__ == '__main__':
    sys.exit(main())
