"""Differential test for the multispectral refactoring (true_color band handling, normalized ratio).

Usage (from inside the worktree):
    PYTHONPATH=<worktree> python equiv.py            # check, exit 0 if identical
    PYTHONPATH=<worktree> python equiv.py --record   # print digests of the current tree

Checks
  1. sha256 digests (dtype + shape + bytes, canonical NaN) of every result recorded from the
     unmodified tree: true_color, ndvi, ndmi, nbr, nbr2 on numpy and dask inputs,
  2. independent numpy references (vectorised normalized ratio; alpha band / sigmoid stretch of
     true_color),
  3. dask result identical to the numpy result for several chunkings (incl. 1-cell chunks),
     synchronous and threaded schedulers; result lazy until computed.
"""
import hashlib
import sys
import warnings

import dask
import dask.array as da
import numpy as np
import xarray as xr

import xrspatial
from xrspatial.multispectral import nbr, nbr2, ndmi, ndvi, true_color

warnings.simplefilter('ignore')
RECORD = '--record' in sys.argv
failures = []
digests = {}


def digest(a):
    a = np.ascontiguousarray(a)
    if a.dtype.kind == 'f':
        a = np.where(np.isnan(a), np.array(np.nan, dtype=a.dtype), a)
    h = hashlib.sha256()
    h.update(str(a.dtype).encode())
    h.update(str(a.shape).encode())
    h.update(a.tobytes())
    return h.hexdigest()[:16]


def same(a, b):
    a = np.asarray(a)
    b = np.asarray(b)
    return a.dtype == b.dtype and a.shape == b.shape and digest(a) == digest(b)


def check(name, cond):
    if not cond:
        failures.append(name)


def make_bands():
    """dict name -> (band1, band2, band3) numpy arrays of one common shape/dtype."""
    rng = np.random.RandomState(2024)
    out = {}
    for (h, w) in [(1, 1), (1, 6), (5, 1), (4, 7), (9, 5)]:
        trip = [rng.uniform(0, 3000, size=(h, w)) for _ in range(3)]
        out['f64_%dx%d' % (h, w)] = tuple(trip)
        out['f32_%dx%d' % (h, w)] = tuple(t.astype(np.float32) for t in trip)
        out['u16_%dx%d' % (h, w)] = tuple(t.astype(np.uint16) for t in trip)
        out['i32_%dx%d' % (h, w)] = tuple((t / 500).astype(np.int32) - 2 for t in trip)
        nan_trip = []
        for k, t in enumerate(trip):
            g = np.round(t / 600.0)
            flat = g.ravel()
            flat[k::4] = np.nan
            if flat.size > 6:
                flat[5] = 0.0
                flat[6] = -flat[6]
            nan_trip.append(g)
        # make band2 == -band1 in some cells -> zero denominator
        nan_trip[1].ravel()[::3] = -nan_trip[0].ravel()[::3]
        out['nan_%dx%d' % (h, w)] = tuple(nan_trip)
    out['const_3x4'] = tuple(np.full((3, 4), v) for v in (7.0, 7.0, 2.0))
    out['allnan_2x3'] = tuple(np.full((2, 3), np.nan) for _ in range(3))
    return out


def chunkings(h, w):
    cands = [(1, 1), (2, 3), (3, 2), (h, w),
             ((1, h - 1) if h > 1 else (1,), (w - 1, 1) if w > 1 else (1,))]
    seen = []
    for c in cands:
        if c not in seen:
            seen.append(c)
    return seen


def mk(data, h, w):
    return xr.DataArray(data, dims=['y', 'x'],
                        coords={'y': np.arange(h)[::-1] * 10.0, 'x': np.arange(w) * 10.0},
                        attrs={'res': (10, 10), 'src': 'unit-test'})


# ---------------------------------------------------------------- references
def ref_ratio(a, b):
    a = np.asarray(a).astype('f4')
    b = np.asarray(b).astype('f4')
    with np.errstate(all='ignore'):
        num = a - b
        den = a + b
        return np.where(den == 0, np.float32(np.nan), num / den).astype(np.float32)


def ref_normalize(band, c, th):
    d = np.asarray(band).astype('f4')
    out = np.full(d.shape, np.nan, dtype=np.float32)
    with np.errstate(all='ignore'):
        mn = np.nanmin(d)
        mx = np.nanmax(d)
        rng_ = mx - mn
        if rng_ != 0:
            norm = ((d - mn) / rng_)
            norm = 1 / (1 + np.exp(c * (th - norm.astype(np.float64))))
            out[:] = norm * 255
    return out


def ref_true_color(r, g, b, nodata, c, th):
    h, w = r.shape
    out = np.zeros((h, w, 4), dtype=np.uint8)
    for k, band in enumerate((r, g, b)):
        out[:, :, k] = ref_normalize(band, c, th).astype(np.uint8)
    rr = np.asarray(r)
    out[:, :, 3] = np.where(np.isnan(rr) | (rr <= nodata), 0, 255)
    return out


def run():
    print('library under test:', xrspatial.__file__)
    bands = make_bands()
    ratio_funcs = {'ndvi': ndvi, 'ndmi': ndmi, 'nbr': nbr, 'nbr2': nbr2}
    for bname, (b1, b2, b3) in bands.items():
        h, w = b1.shape
        # ---------------- normalized ratios
        for fname, fn in ratio_funcs.items():
            key = '%s/%s' % (fname, bname)
            res = fn(mk(b1, h, w), mk(b2, h, w))
            r = res.data
            check('np type ' + key, isinstance(r, np.ndarray) and r.dtype == np.float32)
            check('meta ' + key, res.name == fname and res.attrs == {'res': (10, 10),
                                                                     'src': 'unit-test'})
            digests[key] = digest(r)
            check('ref ' + key, same(r, ref_ratio(b1, b2)))
            if fname in ('ndvi', 'nbr2'):
                for ch in chunkings(h, w):
                    dres = fn(mk(da.from_array(b1, chunks=ch), h, w),
                              mk(da.from_array(b2, chunks=ch), h, w))
                    check('lazy ' + key, isinstance(dres.data, da.Array))
                    with dask.config.set(scheduler='synchronous'):
                        d1 = dres.data.compute()
                    check('dask==numpy %s %s' % (key, ch), same(d1, r))
                with dask.config.set(scheduler='threads', num_workers=3):
                    d2 = fn(mk(da.from_array(b1, chunks=(2, 2)), h, w),
                            mk(da.from_array(b2, chunks=(2, 2)), h, w)).data.compute()
                check('dask threads ' + key, same(d2, r))

        # ---------------- true_color
        for pname, kw in (('default', {}),
                          ('nodata0', {'nodata': 0}),
                          ('params', {'nodata': 2, 'c': 4.5, 'th': 0.3, 'name': 'rgb'})):
            key = 'true_color/%s/%s' % (bname, pname)
            res = true_color(mk(b1, h, w), mk(b2, h, w), mk(b3, h, w), **kw)
            r = res.data
            check('np type ' + key, isinstance(r, np.ndarray) and r.dtype == np.uint8
                  and r.shape == (h, w, 4))
            check('meta ' + key, res.name == kw.get('name', 'true_color')
                  and res.dims == ('y', 'x', 'band')
                  and list(res['band'].values) == [0, 1, 2, 3]
                  and res.attrs == {'res': (10, 10), 'src': 'unit-test'})
            digests[key] = digest(r)
            ref = ref_true_color(b1, b2, b3, kw.get('nodata', 1), kw.get('c', 10.0),
                                 kw.get('th', 0.125))
            # alpha band must match exactly; colour bands exactly wherever the input is not NaN
            check('ref alpha ' + key, np.array_equal(r[:, :, 3], ref[:, :, 3]))
            for k, band in enumerate((b1, b2, b3)):
                ok = ~np.isnan(np.asarray(band, dtype=float))
                check('ref band%d %s' % (k, key), np.array_equal(r[:, :, k][ok], ref[:, :, k][ok]))
            for ch in chunkings(h, w):
                dres = true_color(mk(da.from_array(b1, chunks=ch), h, w),
                                  mk(da.from_array(b2, chunks=ch), h, w),
                                  mk(da.from_array(b3, chunks=ch), h, w), **kw)
                check('lazy ' + key, isinstance(dres.data, da.Array))
                check('dask shape ' + key, dres.shape == (h, w, 4) and dres.dtype == np.uint8)
                with dask.config.set(scheduler='synchronous'):
                    d1 = dres.data.compute()
                digests['dask/%s/%s' % (key, ch)] = digest(d1)
                check('dask==numpy %s %s' % (key, ch), same(d1, r))
            with dask.config.set(scheduler='threads', num_workers=4):
                d2 = true_color(mk(da.from_array(b1, chunks=(2, 2)), h, w),
                                mk(da.from_array(b2, chunks=(2, 2)), h, w),
                                mk(da.from_array(b3, chunks=(2, 2)), h, w), **kw).data.compute()
            check('dask threads ' + key, same(d2, r))


EXPECTED = {
    'dask/true_color/allnan_2x3/default/((1, 1), (2, 1))': '099f18ac7f808b58',
    'dask/true_color/allnan_2x3/default/(1, 1)': '099f18ac7f808b58',
    'dask/true_color/allnan_2x3/default/(2, 3)': '099f18ac7f808b58',
    'dask/true_color/allnan_2x3/default/(3, 2)': '099f18ac7f808b58',
    'dask/true_color/allnan_2x3/nodata0/((1, 1), (2, 1))': '099f18ac7f808b58',
    'dask/true_color/allnan_2x3/nodata0/(1, 1)': '099f18ac7f808b58',
    'dask/true_color/allnan_2x3/nodata0/(2, 3)': '099f18ac7f808b58',
    'dask/true_color/allnan_2x3/nodata0/(3, 2)': '099f18ac7f808b58',
    'dask/true_color/allnan_2x3/params/((1, 1), (2, 1))': '099f18ac7f808b58',
    'dask/true_color/allnan_2x3/params/(1, 1)': '099f18ac7f808b58',
    'dask/true_color/allnan_2x3/params/(2, 3)': '099f18ac7f808b58',
    'dask/true_color/allnan_2x3/params/(3, 2)': '099f18ac7f808b58',
    'dask/true_color/const_3x4/default/((1, 2), (3, 1))': '8c757b271406dc26',
    'dask/true_color/const_3x4/default/(1, 1)': '8c757b271406dc26',
    'dask/true_color/const_3x4/default/(2, 3)': '8c757b271406dc26',
    'dask/true_color/const_3x4/default/(3, 2)': '8c757b271406dc26',
    'dask/true_color/const_3x4/default/(3, 4)': '8c757b271406dc26',
    'dask/true_color/const_3x4/nodata0/((1, 2), (3, 1))': '8c757b271406dc26',
    'dask/true_color/const_3x4/nodata0/(1, 1)': '8c757b271406dc26',
    'dask/true_color/const_3x4/nodata0/(2, 3)': '8c757b271406dc26',
    'dask/true_color/const_3x4/nodata0/(3, 2)': '8c757b271406dc26',
    'dask/true_color/const_3x4/nodata0/(3, 4)': '8c757b271406dc26',
    'dask/true_color/const_3x4/params/((1, 2), (3, 1))': '8c757b271406dc26',
    'dask/true_color/const_3x4/params/(1, 1)': '8c757b271406dc26',
    'dask/true_color/const_3x4/params/(2, 3)': '8c757b271406dc26',
    'dask/true_color/const_3x4/params/(3, 2)': '8c757b271406dc26',
    'dask/true_color/const_3x4/params/(3, 4)': '8c757b271406dc26',
    'dask/true_color/f32_1x1/default/((1,), (1,))': 'f8790b091027ae22',
    'dask/true_color/f32_1x1/default/(1, 1)': 'f8790b091027ae22',
    'dask/true_color/f32_1x1/default/(2, 3)': 'f8790b091027ae22',
    'dask/true_color/f32_1x1/default/(3, 2)': 'f8790b091027ae22',
    'dask/true_color/f32_1x1/nodata0/((1,), (1,))': 'f8790b091027ae22',
    'dask/true_color/f32_1x1/nodata0/(1, 1)': 'f8790b091027ae22',
    'dask/true_color/f32_1x1/nodata0/(2, 3)': 'f8790b091027ae22',
    'dask/true_color/f32_1x1/nodata0/(3, 2)': 'f8790b091027ae22',
    'dask/true_color/f32_1x1/params/((1,), (1,))': 'f8790b091027ae22',
    'dask/true_color/f32_1x1/params/(1, 1)': 'f8790b091027ae22',
    'dask/true_color/f32_1x1/params/(2, 3)': 'f8790b091027ae22',
    'dask/true_color/f32_1x1/params/(3, 2)': 'f8790b091027ae22',
    'dask/true_color/f32_1x6/default/((1,), (5, 1))': 'b6fc735752282935',
    'dask/true_color/f32_1x6/default/(1, 1)': 'b6fc735752282935',
    'dask/true_color/f32_1x6/default/(1, 6)': 'b6fc735752282935',
    'dask/true_color/f32_1x6/default/(2, 3)': 'b6fc735752282935',
    'dask/true_color/f32_1x6/default/(3, 2)': 'b6fc735752282935',
    'dask/true_color/f32_1x6/nodata0/((1,), (5, 1))': 'b6fc735752282935',
    'dask/true_color/f32_1x6/nodata0/(1, 1)': 'b6fc735752282935',
    'dask/true_color/f32_1x6/nodata0/(1, 6)': 'b6fc735752282935',
    'dask/true_color/f32_1x6/nodata0/(2, 3)': 'b6fc735752282935',
    'dask/true_color/f32_1x6/nodata0/(3, 2)': 'b6fc735752282935',
    'dask/true_color/f32_1x6/params/((1,), (5, 1))': '514c769695920b2d',
    'dask/true_color/f32_1x6/params/(1, 1)': '514c769695920b2d',
    'dask/true_color/f32_1x6/params/(1, 6)': '514c769695920b2d',
    'dask/true_color/f32_1x6/params/(2, 3)': '514c769695920b2d',
    'dask/true_color/f32_1x6/params/(3, 2)': '514c769695920b2d',
    'dask/true_color/f32_4x7/default/((1, 3), (6, 1))': '81ece13c53da20d9',
    'dask/true_color/f32_4x7/default/(1, 1)': '81ece13c53da20d9',
    'dask/true_color/f32_4x7/default/(2, 3)': '81ece13c53da20d9',
    'dask/true_color/f32_4x7/default/(3, 2)': '81ece13c53da20d9',
    'dask/true_color/f32_4x7/default/(4, 7)': '81ece13c53da20d9',
    'dask/true_color/f32_4x7/nodata0/((1, 3), (6, 1))': '81ece13c53da20d9',
    'dask/true_color/f32_4x7/nodata0/(1, 1)': '81ece13c53da20d9',
    'dask/true_color/f32_4x7/nodata0/(2, 3)': '81ece13c53da20d9',
    'dask/true_color/f32_4x7/nodata0/(3, 2)': '81ece13c53da20d9',
    'dask/true_color/f32_4x7/nodata0/(4, 7)': '81ece13c53da20d9',
    'dask/true_color/f32_4x7/params/((1, 3), (6, 1))': 'c798125cf0897eb9',
    'dask/true_color/f32_4x7/params/(1, 1)': 'c798125cf0897eb9',
    'dask/true_color/f32_4x7/params/(2, 3)': 'c798125cf0897eb9',
    'dask/true_color/f32_4x7/params/(3, 2)': 'c798125cf0897eb9',
    'dask/true_color/f32_4x7/params/(4, 7)': 'c798125cf0897eb9',
    'dask/true_color/f32_5x1/default/((1, 4), (1,))': '2be41564de7b545e',
    'dask/true_color/f32_5x1/default/(1, 1)': '2be41564de7b545e',
    'dask/true_color/f32_5x1/default/(2, 3)': '2be41564de7b545e',
    'dask/true_color/f32_5x1/default/(3, 2)': '2be41564de7b545e',
    'dask/true_color/f32_5x1/default/(5, 1)': '2be41564de7b545e',
    'dask/true_color/f32_5x1/nodata0/((1, 4), (1,))': '2be41564de7b545e',
    'dask/true_color/f32_5x1/nodata0/(1, 1)': '2be41564de7b545e',
    'dask/true_color/f32_5x1/nodata0/(2, 3)': '2be41564de7b545e',
    'dask/true_color/f32_5x1/nodata0/(3, 2)': '2be41564de7b545e',
    'dask/true_color/f32_5x1/nodata0/(5, 1)': '2be41564de7b545e',
    'dask/true_color/f32_5x1/params/((1, 4), (1,))': '1381876bda14a95c',
    'dask/true_color/f32_5x1/params/(1, 1)': '1381876bda14a95c',
    'dask/true_color/f32_5x1/params/(2, 3)': '1381876bda14a95c',
    'dask/true_color/f32_5x1/params/(3, 2)': '1381876bda14a95c',
    'dask/true_color/f32_5x1/params/(5, 1)': '1381876bda14a95c',
    'dask/true_color/f32_9x5/default/((1, 8), (4, 1))': 'c9ccc9c3c3f9ca7c',
    'dask/true_color/f32_9x5/default/(1, 1)': 'c9ccc9c3c3f9ca7c',
    'dask/true_color/f32_9x5/default/(2, 3)': 'c9ccc9c3c3f9ca7c',
    'dask/true_color/f32_9x5/default/(3, 2)': 'c9ccc9c3c3f9ca7c',
    'dask/true_color/f32_9x5/default/(9, 5)': 'c9ccc9c3c3f9ca7c',
    'dask/true_color/f32_9x5/nodata0/((1, 8), (4, 1))': 'c9ccc9c3c3f9ca7c',
    'dask/true_color/f32_9x5/nodata0/(1, 1)': 'c9ccc9c3c3f9ca7c',
    'dask/true_color/f32_9x5/nodata0/(2, 3)': 'c9ccc9c3c3f9ca7c',
    'dask/true_color/f32_9x5/nodata0/(3, 2)': 'c9ccc9c3c3f9ca7c',
    'dask/true_color/f32_9x5/nodata0/(9, 5)': 'c9ccc9c3c3f9ca7c',
    'dask/true_color/f32_9x5/params/((1, 8), (4, 1))': '542015e8a5ed24e2',
    'dask/true_color/f32_9x5/params/(1, 1)': '542015e8a5ed24e2',
    'dask/true_color/f32_9x5/params/(2, 3)': '542015e8a5ed24e2',
    'dask/true_color/f32_9x5/params/(3, 2)': '542015e8a5ed24e2',
    'dask/true_color/f32_9x5/params/(9, 5)': '542015e8a5ed24e2',
    'dask/true_color/f64_1x1/default/((1,), (1,))': 'f8790b091027ae22',
    'dask/true_color/f64_1x1/default/(1, 1)': 'f8790b091027ae22',
    'dask/true_color/f64_1x1/default/(2, 3)': 'f8790b091027ae22',
    'dask/true_color/f64_1x1/default/(3, 2)': 'f8790b091027ae22',
    'dask/true_color/f64_1x1/nodata0/((1,), (1,))': 'f8790b091027ae22',
    'dask/true_color/f64_1x1/nodata0/(1, 1)': 'f8790b091027ae22',
    'dask/true_color/f64_1x1/nodata0/(2, 3)': 'f8790b091027ae22',
    'dask/true_color/f64_1x1/nodata0/(3, 2)': 'f8790b091027ae22',
    'dask/true_color/f64_1x1/params/((1,), (1,))': 'f8790b091027ae22',
    'dask/true_color/f64_1x1/params/(1, 1)': 'f8790b091027ae22',
    'dask/true_color/f64_1x1/params/(2, 3)': 'f8790b091027ae22',
    'dask/true_color/f64_1x1/params/(3, 2)': 'f8790b091027ae22',
    'dask/true_color/f64_1x6/default/((1,), (5, 1))': 'b6fc735752282935',
    'dask/true_color/f64_1x6/default/(1, 1)': 'b6fc735752282935',
    'dask/true_color/f64_1x6/default/(1, 6)': 'b6fc735752282935',
    'dask/true_color/f64_1x6/default/(2, 3)': 'b6fc735752282935',
    'dask/true_color/f64_1x6/default/(3, 2)': 'b6fc735752282935',
    'dask/true_color/f64_1x6/nodata0/((1,), (5, 1))': 'b6fc735752282935',
    'dask/true_color/f64_1x6/nodata0/(1, 1)': 'b6fc735752282935',
    'dask/true_color/f64_1x6/nodata0/(1, 6)': 'b6fc735752282935',
    'dask/true_color/f64_1x6/nodata0/(2, 3)': 'b6fc735752282935',
    'dask/true_color/f64_1x6/nodata0/(3, 2)': 'b6fc735752282935',
    'dask/true_color/f64_1x6/params/((1,), (5, 1))': '514c769695920b2d',
    'dask/true_color/f64_1x6/params/(1, 1)': '514c769695920b2d',
    'dask/true_color/f64_1x6/params/(1, 6)': '514c769695920b2d',
    'dask/true_color/f64_1x6/params/(2, 3)': '514c769695920b2d',
    'dask/true_color/f64_1x6/params/(3, 2)': '514c769695920b2d',
    'dask/true_color/f64_4x7/default/((1, 3), (6, 1))': '81ece13c53da20d9',
    'dask/true_color/f64_4x7/default/(1, 1)': '81ece13c53da20d9',
    'dask/true_color/f64_4x7/default/(2, 3)': '81ece13c53da20d9',
    'dask/true_color/f64_4x7/default/(3, 2)': '81ece13c53da20d9',
    'dask/true_color/f64_4x7/default/(4, 7)': '81ece13c53da20d9',
    'dask/true_color/f64_4x7/nodata0/((1, 3), (6, 1))': '81ece13c53da20d9',
    'dask/true_color/f64_4x7/nodata0/(1, 1)': '81ece13c53da20d9',
    'dask/true_color/f64_4x7/nodata0/(2, 3)': '81ece13c53da20d9',
    'dask/true_color/f64_4x7/nodata0/(3, 2)': '81ece13c53da20d9',
    'dask/true_color/f64_4x7/nodata0/(4, 7)': '81ece13c53da20d9',
    'dask/true_color/f64_4x7/params/((1, 3), (6, 1))': 'c798125cf0897eb9',
    'dask/true_color/f64_4x7/params/(1, 1)': 'c798125cf0897eb9',
    'dask/true_color/f64_4x7/params/(2, 3)': 'c798125cf0897eb9',
    'dask/true_color/f64_4x7/params/(3, 2)': 'c798125cf0897eb9',
    'dask/true_color/f64_4x7/params/(4, 7)': 'c798125cf0897eb9',
    'dask/true_color/f64_5x1/default/((1, 4), (1,))': '2be41564de7b545e',
    'dask/true_color/f64_5x1/default/(1, 1)': '2be41564de7b545e',
    'dask/true_color/f64_5x1/default/(2, 3)': '2be41564de7b545e',
    'dask/true_color/f64_5x1/default/(3, 2)': '2be41564de7b545e',
    'dask/true_color/f64_5x1/default/(5, 1)': '2be41564de7b545e',
    'dask/true_color/f64_5x1/nodata0/((1, 4), (1,))': '2be41564de7b545e',
    'dask/true_color/f64_5x1/nodata0/(1, 1)': '2be41564de7b545e',
    'dask/true_color/f64_5x1/nodata0/(2, 3)': '2be41564de7b545e',
    'dask/true_color/f64_5x1/nodata0/(3, 2)': '2be41564de7b545e',
    'dask/true_color/f64_5x1/nodata0/(5, 1)': '2be41564de7b545e',
    'dask/true_color/f64_5x1/params/((1, 4), (1,))': '1381876bda14a95c',
    'dask/true_color/f64_5x1/params/(1, 1)': '1381876bda14a95c',
    'dask/true_color/f64_5x1/params/(2, 3)': '1381876bda14a95c',
    'dask/true_color/f64_5x1/params/(3, 2)': '1381876bda14a95c',
    'dask/true_color/f64_5x1/params/(5, 1)': '1381876bda14a95c',
    'dask/true_color/f64_9x5/default/((1, 8), (4, 1))': 'c9ccc9c3c3f9ca7c',
    'dask/true_color/f64_9x5/default/(1, 1)': 'c9ccc9c3c3f9ca7c',
    'dask/true_color/f64_9x5/default/(2, 3)': 'c9ccc9c3c3f9ca7c',
    'dask/true_color/f64_9x5/default/(3, 2)': 'c9ccc9c3c3f9ca7c',
    'dask/true_color/f64_9x5/default/(9, 5)': 'c9ccc9c3c3f9ca7c',
    'dask/true_color/f64_9x5/nodata0/((1, 8), (4, 1))': 'c9ccc9c3c3f9ca7c',
    'dask/true_color/f64_9x5/nodata0/(1, 1)': 'c9ccc9c3c3f9ca7c',
    'dask/true_color/f64_9x5/nodata0/(2, 3)': 'c9ccc9c3c3f9ca7c',
    'dask/true_color/f64_9x5/nodata0/(3, 2)': 'c9ccc9c3c3f9ca7c',
    'dask/true_color/f64_9x5/nodata0/(9, 5)': 'c9ccc9c3c3f9ca7c',
    'dask/true_color/f64_9x5/params/((1, 8), (4, 1))': '542015e8a5ed24e2',
    'dask/true_color/f64_9x5/params/(1, 1)': '542015e8a5ed24e2',
    'dask/true_color/f64_9x5/params/(2, 3)': '542015e8a5ed24e2',
    'dask/true_color/f64_9x5/params/(3, 2)': '542015e8a5ed24e2',
    'dask/true_color/f64_9x5/params/(9, 5)': '542015e8a5ed24e2',
    'dask/true_color/i32_1x1/default/((1,), (1,))': 'a6ab1aa09ccdbd2a',
    'dask/true_color/i32_1x1/default/(1, 1)': 'a6ab1aa09ccdbd2a',
    'dask/true_color/i32_1x1/default/(2, 3)': 'a6ab1aa09ccdbd2a',
    'dask/true_color/i32_1x1/default/(3, 2)': 'a6ab1aa09ccdbd2a',
    'dask/true_color/i32_1x1/nodata0/((1,), (1,))': 'f8790b091027ae22',
    'dask/true_color/i32_1x1/nodata0/(1, 1)': 'f8790b091027ae22',
    'dask/true_color/i32_1x1/nodata0/(2, 3)': 'f8790b091027ae22',
    'dask/true_color/i32_1x1/nodata0/(3, 2)': 'f8790b091027ae22',
    'dask/true_color/i32_1x1/params/((1,), (1,))': 'a6ab1aa09ccdbd2a',
    'dask/true_color/i32_1x1/params/(1, 1)': 'a6ab1aa09ccdbd2a',
    'dask/true_color/i32_1x1/params/(2, 3)': 'a6ab1aa09ccdbd2a',
    'dask/true_color/i32_1x1/params/(3, 2)': 'a6ab1aa09ccdbd2a',
    'dask/true_color/i32_1x6/default/((1,), (5, 1))': '9ac151e67018977b',
    'dask/true_color/i32_1x6/default/(1, 1)': '9ac151e67018977b',
    'dask/true_color/i32_1x6/default/(1, 6)': '9ac151e67018977b',
    'dask/true_color/i32_1x6/default/(2, 3)': '9ac151e67018977b',
    'dask/true_color/i32_1x6/default/(3, 2)': '9ac151e67018977b',
    'dask/true_color/i32_1x6/nodata0/((1,), (5, 1))': '9ac151e67018977b',
    'dask/true_color/i32_1x6/nodata0/(1, 1)': '9ac151e67018977b',
    'dask/true_color/i32_1x6/nodata0/(1, 6)': '9ac151e67018977b',
    'dask/true_color/i32_1x6/nodata0/(2, 3)': '9ac151e67018977b',
    'dask/true_color/i32_1x6/nodata0/(3, 2)': '9ac151e67018977b',
    'dask/true_color/i32_1x6/params/((1,), (5, 1))': '663e91e8e1bf022f',
    'dask/true_color/i32_1x6/params/(1, 1)': '663e91e8e1bf022f',
    'dask/true_color/i32_1x6/params/(1, 6)': '663e91e8e1bf022f',
    'dask/true_color/i32_1x6/params/(2, 3)': '663e91e8e1bf022f',
    'dask/true_color/i32_1x6/params/(3, 2)': '663e91e8e1bf022f',
    'dask/true_color/i32_4x7/default/((1, 3), (6, 1))': '79883a9d1f5451d8',
    'dask/true_color/i32_4x7/default/(1, 1)': '79883a9d1f5451d8',
    'dask/true_color/i32_4x7/default/(2, 3)': '79883a9d1f5451d8',
    'dask/true_color/i32_4x7/default/(3, 2)': '79883a9d1f5451d8',
    'dask/true_color/i32_4x7/default/(4, 7)': '79883a9d1f5451d8',
    'dask/true_color/i32_4x7/nodata0/((1, 3), (6, 1))': '648062dda3a304da',
    'dask/true_color/i32_4x7/nodata0/(1, 1)': '648062dda3a304da',
    'dask/true_color/i32_4x7/nodata0/(2, 3)': '648062dda3a304da',
    'dask/true_color/i32_4x7/nodata0/(3, 2)': '648062dda3a304da',
    'dask/true_color/i32_4x7/nodata0/(4, 7)': '648062dda3a304da',
    'dask/true_color/i32_4x7/params/((1, 3), (6, 1))': '2645ad292a943b9d',
    'dask/true_color/i32_4x7/params/(1, 1)': '2645ad292a943b9d',
    'dask/true_color/i32_4x7/params/(2, 3)': '2645ad292a943b9d',
    'dask/true_color/i32_4x7/params/(3, 2)': '2645ad292a943b9d',
    'dask/true_color/i32_4x7/params/(4, 7)': '2645ad292a943b9d',
    'dask/true_color/i32_5x1/default/((1, 4), (1,))': 'fee0668a65c0bfbd',
    'dask/true_color/i32_5x1/default/(1, 1)': 'fee0668a65c0bfbd',
    'dask/true_color/i32_5x1/default/(2, 3)': 'fee0668a65c0bfbd',
    'dask/true_color/i32_5x1/default/(3, 2)': 'fee0668a65c0bfbd',
    'dask/true_color/i32_5x1/default/(5, 1)': 'fee0668a65c0bfbd',
    'dask/true_color/i32_5x1/nodata0/((1, 4), (1,))': 'fee0668a65c0bfbd',
    'dask/true_color/i32_5x1/nodata0/(1, 1)': 'fee0668a65c0bfbd',
    'dask/true_color/i32_5x1/nodata0/(2, 3)': 'fee0668a65c0bfbd',
    'dask/true_color/i32_5x1/nodata0/(3, 2)': 'fee0668a65c0bfbd',
    'dask/true_color/i32_5x1/nodata0/(5, 1)': 'fee0668a65c0bfbd',
    'dask/true_color/i32_5x1/params/((1, 4), (1,))': '50c6a6c8f7331726',
    'dask/true_color/i32_5x1/params/(1, 1)': '50c6a6c8f7331726',
    'dask/true_color/i32_5x1/params/(2, 3)': '50c6a6c8f7331726',
    'dask/true_color/i32_5x1/params/(3, 2)': '50c6a6c8f7331726',
    'dask/true_color/i32_5x1/params/(5, 1)': '50c6a6c8f7331726',
    'dask/true_color/i32_9x5/default/((1, 8), (4, 1))': '4164396882669844',
    'dask/true_color/i32_9x5/default/(1, 1)': '4164396882669844',
    'dask/true_color/i32_9x5/default/(2, 3)': '4164396882669844',
    'dask/true_color/i32_9x5/default/(3, 2)': '4164396882669844',
    'dask/true_color/i32_9x5/default/(9, 5)': '4164396882669844',
    'dask/true_color/i32_9x5/nodata0/((1, 8), (4, 1))': '8e99b42ea806dc0f',
    'dask/true_color/i32_9x5/nodata0/(1, 1)': '8e99b42ea806dc0f',
    'dask/true_color/i32_9x5/nodata0/(2, 3)': '8e99b42ea806dc0f',
    'dask/true_color/i32_9x5/nodata0/(3, 2)': '8e99b42ea806dc0f',
    'dask/true_color/i32_9x5/nodata0/(9, 5)': '8e99b42ea806dc0f',
    'dask/true_color/i32_9x5/params/((1, 8), (4, 1))': '485ee4db30e26729',
    'dask/true_color/i32_9x5/params/(1, 1)': '485ee4db30e26729',
    'dask/true_color/i32_9x5/params/(2, 3)': '485ee4db30e26729',
    'dask/true_color/i32_9x5/params/(3, 2)': '485ee4db30e26729',
    'dask/true_color/i32_9x5/params/(9, 5)': '485ee4db30e26729',
    'dask/true_color/nan_1x1/default/((1,), (1,))': 'a6ab1aa09ccdbd2a',
    'dask/true_color/nan_1x1/default/(1, 1)': 'a6ab1aa09ccdbd2a',
    'dask/true_color/nan_1x1/default/(2, 3)': 'a6ab1aa09ccdbd2a',
    'dask/true_color/nan_1x1/default/(3, 2)': 'a6ab1aa09ccdbd2a',
    'dask/true_color/nan_1x1/nodata0/((1,), (1,))': 'a6ab1aa09ccdbd2a',
    'dask/true_color/nan_1x1/nodata0/(1, 1)': 'a6ab1aa09ccdbd2a',
    'dask/true_color/nan_1x1/nodata0/(2, 3)': 'a6ab1aa09ccdbd2a',
    'dask/true_color/nan_1x1/nodata0/(3, 2)': 'a6ab1aa09ccdbd2a',
    'dask/true_color/nan_1x1/params/((1,), (1,))': 'a6ab1aa09ccdbd2a',
    'dask/true_color/nan_1x1/params/(1, 1)': 'a6ab1aa09ccdbd2a',
    'dask/true_color/nan_1x1/params/(2, 3)': 'a6ab1aa09ccdbd2a',
    'dask/true_color/nan_1x1/params/(3, 2)': 'a6ab1aa09ccdbd2a',
    'dask/true_color/nan_1x6/default/((1,), (5, 1))': 'e5e45ad3ca8ac69e',
    'dask/true_color/nan_1x6/default/(1, 1)': 'e5e45ad3ca8ac69e',
    'dask/true_color/nan_1x6/default/(1, 6)': 'e5e45ad3ca8ac69e',
    'dask/true_color/nan_1x6/default/(2, 3)': 'e5e45ad3ca8ac69e',
    'dask/true_color/nan_1x6/default/(3, 2)': 'e5e45ad3ca8ac69e',
    'dask/true_color/nan_1x6/nodata0/((1,), (5, 1))': '8f66739d9ed05362',
    'dask/true_color/nan_1x6/nodata0/(1, 1)': '8f66739d9ed05362',
    'dask/true_color/nan_1x6/nodata0/(1, 6)': '8f66739d9ed05362',
    'dask/true_color/nan_1x6/nodata0/(2, 3)': '8f66739d9ed05362',
    'dask/true_color/nan_1x6/nodata0/(3, 2)': '8f66739d9ed05362',
    'dask/true_color/nan_1x6/params/((1,), (5, 1))': '14e1968c6bfd502a',
    'dask/true_color/nan_1x6/params/(1, 1)': '14e1968c6bfd502a',
    'dask/true_color/nan_1x6/params/(1, 6)': '14e1968c6bfd502a',
    'dask/true_color/nan_1x6/params/(2, 3)': '14e1968c6bfd502a',
    'dask/true_color/nan_1x6/params/(3, 2)': '14e1968c6bfd502a',
    'dask/true_color/nan_4x7/default/((1, 3), (6, 1))': '02cc9c0e1c7d723f',
    'dask/true_color/nan_4x7/default/(1, 1)': '02cc9c0e1c7d723f',
    'dask/true_color/nan_4x7/default/(2, 3)': '02cc9c0e1c7d723f',
    'dask/true_color/nan_4x7/default/(3, 2)': '02cc9c0e1c7d723f',
    'dask/true_color/nan_4x7/default/(4, 7)': '02cc9c0e1c7d723f',
    'dask/true_color/nan_4x7/nodata0/((1, 3), (6, 1))': 'edea2fd61f7db224',
    'dask/true_color/nan_4x7/nodata0/(1, 1)': 'edea2fd61f7db224',
    'dask/true_color/nan_4x7/nodata0/(2, 3)': 'edea2fd61f7db224',
    'dask/true_color/nan_4x7/nodata0/(3, 2)': 'edea2fd61f7db224',
    'dask/true_color/nan_4x7/nodata0/(4, 7)': 'edea2fd61f7db224',
    'dask/true_color/nan_4x7/params/((1, 3), (6, 1))': '77d7bf5270046d67',
    'dask/true_color/nan_4x7/params/(1, 1)': '77d7bf5270046d67',
    'dask/true_color/nan_4x7/params/(2, 3)': '77d7bf5270046d67',
    'dask/true_color/nan_4x7/params/(3, 2)': '77d7bf5270046d67',
    'dask/true_color/nan_4x7/params/(4, 7)': '77d7bf5270046d67',
    'dask/true_color/nan_5x1/default/((1, 4), (1,))': 'b2fb0f0b1ca9cd8a',
    'dask/true_color/nan_5x1/default/(1, 1)': 'b2fb0f0b1ca9cd8a',
    'dask/true_color/nan_5x1/default/(2, 3)': 'b2fb0f0b1ca9cd8a',
    'dask/true_color/nan_5x1/default/(3, 2)': 'b2fb0f0b1ca9cd8a',
    'dask/true_color/nan_5x1/default/(5, 1)': 'b2fb0f0b1ca9cd8a',
    'dask/true_color/nan_5x1/nodata0/((1, 4), (1,))': 'd399b58809f3bc75',
    'dask/true_color/nan_5x1/nodata0/(1, 1)': 'd399b58809f3bc75',
    'dask/true_color/nan_5x1/nodata0/(2, 3)': 'd399b58809f3bc75',
    'dask/true_color/nan_5x1/nodata0/(3, 2)': 'd399b58809f3bc75',
    'dask/true_color/nan_5x1/nodata0/(5, 1)': 'd399b58809f3bc75',
    'dask/true_color/nan_5x1/params/((1, 4), (1,))': 'efda561fbc988b8b',
    'dask/true_color/nan_5x1/params/(1, 1)': 'efda561fbc988b8b',
    'dask/true_color/nan_5x1/params/(2, 3)': 'efda561fbc988b8b',
    'dask/true_color/nan_5x1/params/(3, 2)': 'efda561fbc988b8b',
    'dask/true_color/nan_5x1/params/(5, 1)': 'efda561fbc988b8b',
    'dask/true_color/nan_9x5/default/((1, 8), (4, 1))': '073a0e53cbe70326',
    'dask/true_color/nan_9x5/default/(1, 1)': '073a0e53cbe70326',
    'dask/true_color/nan_9x5/default/(2, 3)': '073a0e53cbe70326',
    'dask/true_color/nan_9x5/default/(3, 2)': '073a0e53cbe70326',
    'dask/true_color/nan_9x5/default/(9, 5)': '073a0e53cbe70326',
    'dask/true_color/nan_9x5/nodata0/((1, 8), (4, 1))': 'bfa46eb4447aa0e8',
    'dask/true_color/nan_9x5/nodata0/(1, 1)': 'bfa46eb4447aa0e8',
    'dask/true_color/nan_9x5/nodata0/(2, 3)': 'bfa46eb4447aa0e8',
    'dask/true_color/nan_9x5/nodata0/(3, 2)': 'bfa46eb4447aa0e8',
    'dask/true_color/nan_9x5/nodata0/(9, 5)': 'bfa46eb4447aa0e8',
    'dask/true_color/nan_9x5/params/((1, 8), (4, 1))': 'a2107d54041523c5',
    'dask/true_color/nan_9x5/params/(1, 1)': 'a2107d54041523c5',
    'dask/true_color/nan_9x5/params/(2, 3)': 'a2107d54041523c5',
    'dask/true_color/nan_9x5/params/(3, 2)': 'a2107d54041523c5',
    'dask/true_color/nan_9x5/params/(9, 5)': 'a2107d54041523c5',
    'dask/true_color/u16_1x1/default/((1,), (1,))': 'f8790b091027ae22',
    'dask/true_color/u16_1x1/default/(1, 1)': 'f8790b091027ae22',
    'dask/true_color/u16_1x1/default/(2, 3)': 'f8790b091027ae22',
    'dask/true_color/u16_1x1/default/(3, 2)': 'f8790b091027ae22',
    'dask/true_color/u16_1x1/nodata0/((1,), (1,))': 'f8790b091027ae22',
    'dask/true_color/u16_1x1/nodata0/(1, 1)': 'f8790b091027ae22',
    'dask/true_color/u16_1x1/nodata0/(2, 3)': 'f8790b091027ae22',
    'dask/true_color/u16_1x1/nodata0/(3, 2)': 'f8790b091027ae22',
    'dask/true_color/u16_1x1/params/((1,), (1,))': 'f8790b091027ae22',
    'dask/true_color/u16_1x1/params/(1, 1)': 'f8790b091027ae22',
    'dask/true_color/u16_1x1/params/(2, 3)': 'f8790b091027ae22',
    'dask/true_color/u16_1x1/params/(3, 2)': 'f8790b091027ae22',
    'dask/true_color/u16_1x6/default/((1,), (5, 1))': 'b6fc735752282935',
    'dask/true_color/u16_1x6/default/(1, 1)': 'b6fc735752282935',
    'dask/true_color/u16_1x6/default/(1, 6)': 'b6fc735752282935',
    'dask/true_color/u16_1x6/default/(2, 3)': 'b6fc735752282935',
    'dask/true_color/u16_1x6/default/(3, 2)': 'b6fc735752282935',
    'dask/true_color/u16_1x6/nodata0/((1,), (5, 1))': 'b6fc735752282935',
    'dask/true_color/u16_1x6/nodata0/(1, 1)': 'b6fc735752282935',
    'dask/true_color/u16_1x6/nodata0/(1, 6)': 'b6fc735752282935',
    'dask/true_color/u16_1x6/nodata0/(2, 3)': 'b6fc735752282935',
    'dask/true_color/u16_1x6/nodata0/(3, 2)': 'b6fc735752282935',
    'dask/true_color/u16_1x6/params/((1,), (5, 1))': '514c769695920b2d',
    'dask/true_color/u16_1x6/params/(1, 1)': '514c769695920b2d',
    'dask/true_color/u16_1x6/params/(1, 6)': '514c769695920b2d',
    'dask/true_color/u16_1x6/params/(2, 3)': '514c769695920b2d',
    'dask/true_color/u16_1x6/params/(3, 2)': '514c769695920b2d',
    'dask/true_color/u16_4x7/default/((1, 3), (6, 1))': '2e348f786ff63343',
    'dask/true_color/u16_4x7/default/(1, 1)': '2e348f786ff63343',
    'dask/true_color/u16_4x7/default/(2, 3)': '2e348f786ff63343',
    'dask/true_color/u16_4x7/default/(3, 2)': '2e348f786ff63343',
    'dask/true_color/u16_4x7/default/(4, 7)': '2e348f786ff63343',
    'dask/true_color/u16_4x7/nodata0/((1, 3), (6, 1))': '2e348f786ff63343',
    'dask/true_color/u16_4x7/nodata0/(1, 1)': '2e348f786ff63343',
    'dask/true_color/u16_4x7/nodata0/(2, 3)': '2e348f786ff63343',
    'dask/true_color/u16_4x7/nodata0/(3, 2)': '2e348f786ff63343',
    'dask/true_color/u16_4x7/nodata0/(4, 7)': '2e348f786ff63343',
    'dask/true_color/u16_4x7/params/((1, 3), (6, 1))': '39fe9b0f308721ea',
    'dask/true_color/u16_4x7/params/(1, 1)': '39fe9b0f308721ea',
    'dask/true_color/u16_4x7/params/(2, 3)': '39fe9b0f308721ea',
    'dask/true_color/u16_4x7/params/(3, 2)': '39fe9b0f308721ea',
    'dask/true_color/u16_4x7/params/(4, 7)': '39fe9b0f308721ea',
    'dask/true_color/u16_5x1/default/((1, 4), (1,))': '2be41564de7b545e',
    'dask/true_color/u16_5x1/default/(1, 1)': '2be41564de7b545e',
    'dask/true_color/u16_5x1/default/(2, 3)': '2be41564de7b545e',
    'dask/true_color/u16_5x1/default/(3, 2)': '2be41564de7b545e',
    'dask/true_color/u16_5x1/default/(5, 1)': '2be41564de7b545e',
    'dask/true_color/u16_5x1/nodata0/((1, 4), (1,))': '2be41564de7b545e',
    'dask/true_color/u16_5x1/nodata0/(1, 1)': '2be41564de7b545e',
    'dask/true_color/u16_5x1/nodata0/(2, 3)': '2be41564de7b545e',
    'dask/true_color/u16_5x1/nodata0/(3, 2)': '2be41564de7b545e',
    'dask/true_color/u16_5x1/nodata0/(5, 1)': '2be41564de7b545e',
    'dask/true_color/u16_5x1/params/((1, 4), (1,))': '1381876bda14a95c',
    'dask/true_color/u16_5x1/params/(1, 1)': '1381876bda14a95c',
    'dask/true_color/u16_5x1/params/(2, 3)': '1381876bda14a95c',
    'dask/true_color/u16_5x1/params/(3, 2)': '1381876bda14a95c',
    'dask/true_color/u16_5x1/params/(5, 1)': '1381876bda14a95c',
    'dask/true_color/u16_9x5/default/((1, 8), (4, 1))': 'eeec9405cd5a253c',
    'dask/true_color/u16_9x5/default/(1, 1)': 'eeec9405cd5a253c',
    'dask/true_color/u16_9x5/default/(2, 3)': 'eeec9405cd5a253c',
    'dask/true_color/u16_9x5/default/(3, 2)': 'eeec9405cd5a253c',
    'dask/true_color/u16_9x5/default/(9, 5)': 'eeec9405cd5a253c',
    'dask/true_color/u16_9x5/nodata0/((1, 8), (4, 1))': 'eeec9405cd5a253c',
    'dask/true_color/u16_9x5/nodata0/(1, 1)': 'eeec9405cd5a253c',
    'dask/true_color/u16_9x5/nodata0/(2, 3)': 'eeec9405cd5a253c',
    'dask/true_color/u16_9x5/nodata0/(3, 2)': 'eeec9405cd5a253c',
    'dask/true_color/u16_9x5/nodata0/(9, 5)': 'eeec9405cd5a253c',
    'dask/true_color/u16_9x5/params/((1, 8), (4, 1))': '4e1803f1ac6f5daf',
    'dask/true_color/u16_9x5/params/(1, 1)': '4e1803f1ac6f5daf',
    'dask/true_color/u16_9x5/params/(2, 3)': '4e1803f1ac6f5daf',
    'dask/true_color/u16_9x5/params/(3, 2)': '4e1803f1ac6f5daf',
    'dask/true_color/u16_9x5/params/(9, 5)': '4e1803f1ac6f5daf',
    'nbr/allnan_2x3': '36a431c062617106',
    'nbr/const_3x4': 'fd04be91b2b25054',
    'nbr/f32_1x1': '07d190caa54f43c3',
    'nbr/f32_1x6': 'f67c503dcdf91ba9',
    'nbr/f32_4x7': '0ce8225c1df70271',
    'nbr/f32_5x1': 'aa12aeaf97ba9b26',
    'nbr/f32_9x5': '9345161956a2b6c5',
    'nbr/f64_1x1': '07d190caa54f43c3',
    'nbr/f64_1x6': 'f67c503dcdf91ba9',
    'nbr/f64_4x7': '0ce8225c1df70271',
    'nbr/f64_5x1': 'aa12aeaf97ba9b26',
    'nbr/f64_9x5': '9345161956a2b6c5',
    'nbr/i32_1x1': 'f468d638504f2a2b',
    'nbr/i32_1x6': '351437ea7b0539c8',
    'nbr/i32_4x7': '54f1f5fcf0ad8960',
    'nbr/i32_5x1': 'bffcdc52fc1e7735',
    'nbr/i32_9x5': 'b8f35801cba4f3d4',
    'nbr/nan_1x1': '3d8106d92e9af40a',
    'nbr/nan_1x6': 'be8c631fbde7e334',
    'nbr/nan_4x7': '7de1e6b86b336e32',
    'nbr/nan_5x1': '2a4acd688b30432d',
    'nbr/nan_9x5': 'd2a6f48b28a84681',
    'nbr/u16_1x1': 'c6f83e00068f3e79',
    'nbr/u16_1x6': '0fe2898ea114a904',
    'nbr/u16_4x7': 'd257b358baa7f9ab',
    'nbr/u16_5x1': '7804c9fc94957903',
    'nbr/u16_9x5': '3c920ff2ba1b2b56',
    'nbr2/allnan_2x3': '36a431c062617106',
    'nbr2/const_3x4': 'fd04be91b2b25054',
    'nbr2/f32_1x1': '07d190caa54f43c3',
    'nbr2/f32_1x6': 'f67c503dcdf91ba9',
    'nbr2/f32_4x7': '0ce8225c1df70271',
    'nbr2/f32_5x1': 'aa12aeaf97ba9b26',
    'nbr2/f32_9x5': '9345161956a2b6c5',
    'nbr2/f64_1x1': '07d190caa54f43c3',
    'nbr2/f64_1x6': 'f67c503dcdf91ba9',
    'nbr2/f64_4x7': '0ce8225c1df70271',
    'nbr2/f64_5x1': 'aa12aeaf97ba9b26',
    'nbr2/f64_9x5': '9345161956a2b6c5',
    'nbr2/i32_1x1': 'f468d638504f2a2b',
    'nbr2/i32_1x6': '351437ea7b0539c8',
    'nbr2/i32_4x7': '54f1f5fcf0ad8960',
    'nbr2/i32_5x1': 'bffcdc52fc1e7735',
    'nbr2/i32_9x5': 'b8f35801cba4f3d4',
    'nbr2/nan_1x1': '3d8106d92e9af40a',
    'nbr2/nan_1x6': 'be8c631fbde7e334',
    'nbr2/nan_4x7': '7de1e6b86b336e32',
    'nbr2/nan_5x1': '2a4acd688b30432d',
    'nbr2/nan_9x5': 'd2a6f48b28a84681',
    'nbr2/u16_1x1': 'c6f83e00068f3e79',
    'nbr2/u16_1x6': '0fe2898ea114a904',
    'nbr2/u16_4x7': 'd257b358baa7f9ab',
    'nbr2/u16_5x1': '7804c9fc94957903',
    'nbr2/u16_9x5': '3c920ff2ba1b2b56',
    'ndmi/allnan_2x3': '36a431c062617106',
    'ndmi/const_3x4': 'fd04be91b2b25054',
    'ndmi/f32_1x1': '07d190caa54f43c3',
    'ndmi/f32_1x6': 'f67c503dcdf91ba9',
    'ndmi/f32_4x7': '0ce8225c1df70271',
    'ndmi/f32_5x1': 'aa12aeaf97ba9b26',
    'ndmi/f32_9x5': '9345161956a2b6c5',
    'ndmi/f64_1x1': '07d190caa54f43c3',
    'ndmi/f64_1x6': 'f67c503dcdf91ba9',
    'ndmi/f64_4x7': '0ce8225c1df70271',
    'ndmi/f64_5x1': 'aa12aeaf97ba9b26',
    'ndmi/f64_9x5': '9345161956a2b6c5',
    'ndmi/i32_1x1': 'f468d638504f2a2b',
    'ndmi/i32_1x6': '351437ea7b0539c8',
    'ndmi/i32_4x7': '54f1f5fcf0ad8960',
    'ndmi/i32_5x1': 'bffcdc52fc1e7735',
    'ndmi/i32_9x5': 'b8f35801cba4f3d4',
    'ndmi/nan_1x1': '3d8106d92e9af40a',
    'ndmi/nan_1x6': 'be8c631fbde7e334',
    'ndmi/nan_4x7': '7de1e6b86b336e32',
    'ndmi/nan_5x1': '2a4acd688b30432d',
    'ndmi/nan_9x5': 'd2a6f48b28a84681',
    'ndmi/u16_1x1': 'c6f83e00068f3e79',
    'ndmi/u16_1x6': '0fe2898ea114a904',
    'ndmi/u16_4x7': 'd257b358baa7f9ab',
    'ndmi/u16_5x1': '7804c9fc94957903',
    'ndmi/u16_9x5': '3c920ff2ba1b2b56',
    'ndvi/allnan_2x3': '36a431c062617106',
    'ndvi/const_3x4': 'fd04be91b2b25054',
    'ndvi/f32_1x1': '07d190caa54f43c3',
    'ndvi/f32_1x6': 'f67c503dcdf91ba9',
    'ndvi/f32_4x7': '0ce8225c1df70271',
    'ndvi/f32_5x1': 'aa12aeaf97ba9b26',
    'ndvi/f32_9x5': '9345161956a2b6c5',
    'ndvi/f64_1x1': '07d190caa54f43c3',
    'ndvi/f64_1x6': 'f67c503dcdf91ba9',
    'ndvi/f64_4x7': '0ce8225c1df70271',
    'ndvi/f64_5x1': 'aa12aeaf97ba9b26',
    'ndvi/f64_9x5': '9345161956a2b6c5',
    'ndvi/i32_1x1': 'f468d638504f2a2b',
    'ndvi/i32_1x6': '351437ea7b0539c8',
    'ndvi/i32_4x7': '54f1f5fcf0ad8960',
    'ndvi/i32_5x1': 'bffcdc52fc1e7735',
    'ndvi/i32_9x5': 'b8f35801cba4f3d4',
    'ndvi/nan_1x1': '3d8106d92e9af40a',
    'ndvi/nan_1x6': 'be8c631fbde7e334',
    'ndvi/nan_4x7': '7de1e6b86b336e32',
    'ndvi/nan_5x1': '2a4acd688b30432d',
    'ndvi/nan_9x5': 'd2a6f48b28a84681',
    'ndvi/u16_1x1': 'c6f83e00068f3e79',
    'ndvi/u16_1x6': '0fe2898ea114a904',
    'ndvi/u16_4x7': 'd257b358baa7f9ab',
    'ndvi/u16_5x1': '7804c9fc94957903',
    'ndvi/u16_9x5': '3c920ff2ba1b2b56',
    'true_color/allnan_2x3/default': '099f18ac7f808b58',
    'true_color/allnan_2x3/nodata0': '099f18ac7f808b58',
    'true_color/allnan_2x3/params': '099f18ac7f808b58',
    'true_color/const_3x4/default': '8c757b271406dc26',
    'true_color/const_3x4/nodata0': '8c757b271406dc26',
    'true_color/const_3x4/params': '8c757b271406dc26',
    'true_color/f32_1x1/default': 'f8790b091027ae22',
    'true_color/f32_1x1/nodata0': 'f8790b091027ae22',
    'true_color/f32_1x1/params': 'f8790b091027ae22',
    'true_color/f32_1x6/default': 'b6fc735752282935',
    'true_color/f32_1x6/nodata0': 'b6fc735752282935',
    'true_color/f32_1x6/params': '514c769695920b2d',
    'true_color/f32_4x7/default': '81ece13c53da20d9',
    'true_color/f32_4x7/nodata0': '81ece13c53da20d9',
    'true_color/f32_4x7/params': 'c798125cf0897eb9',
    'true_color/f32_5x1/default': '2be41564de7b545e',
    'true_color/f32_5x1/nodata0': '2be41564de7b545e',
    'true_color/f32_5x1/params': '1381876bda14a95c',
    'true_color/f32_9x5/default': 'c9ccc9c3c3f9ca7c',
    'true_color/f32_9x5/nodata0': 'c9ccc9c3c3f9ca7c',
    'true_color/f32_9x5/params': '542015e8a5ed24e2',
    'true_color/f64_1x1/default': 'f8790b091027ae22',
    'true_color/f64_1x1/nodata0': 'f8790b091027ae22',
    'true_color/f64_1x1/params': 'f8790b091027ae22',
    'true_color/f64_1x6/default': 'b6fc735752282935',
    'true_color/f64_1x6/nodata0': 'b6fc735752282935',
    'true_color/f64_1x6/params': '514c769695920b2d',
    'true_color/f64_4x7/default': '81ece13c53da20d9',
    'true_color/f64_4x7/nodata0': '81ece13c53da20d9',
    'true_color/f64_4x7/params': 'c798125cf0897eb9',
    'true_color/f64_5x1/default': '2be41564de7b545e',
    'true_color/f64_5x1/nodata0': '2be41564de7b545e',
    'true_color/f64_5x1/params': '1381876bda14a95c',
    'true_color/f64_9x5/default': 'c9ccc9c3c3f9ca7c',
    'true_color/f64_9x5/nodata0': 'c9ccc9c3c3f9ca7c',
    'true_color/f64_9x5/params': '542015e8a5ed24e2',
    'true_color/i32_1x1/default': 'a6ab1aa09ccdbd2a',
    'true_color/i32_1x1/nodata0': 'f8790b091027ae22',
    'true_color/i32_1x1/params': 'a6ab1aa09ccdbd2a',
    'true_color/i32_1x6/default': '9ac151e67018977b',
    'true_color/i32_1x6/nodata0': '9ac151e67018977b',
    'true_color/i32_1x6/params': '663e91e8e1bf022f',
    'true_color/i32_4x7/default': '79883a9d1f5451d8',
    'true_color/i32_4x7/nodata0': '648062dda3a304da',
    'true_color/i32_4x7/params': '2645ad292a943b9d',
    'true_color/i32_5x1/default': 'fee0668a65c0bfbd',
    'true_color/i32_5x1/nodata0': 'fee0668a65c0bfbd',
    'true_color/i32_5x1/params': '50c6a6c8f7331726',
    'true_color/i32_9x5/default': '4164396882669844',
    'true_color/i32_9x5/nodata0': '8e99b42ea806dc0f',
    'true_color/i32_9x5/params': '485ee4db30e26729',
    'true_color/nan_1x1/default': 'a6ab1aa09ccdbd2a',
    'true_color/nan_1x1/nodata0': 'a6ab1aa09ccdbd2a',
    'true_color/nan_1x1/params': 'a6ab1aa09ccdbd2a',
    'true_color/nan_1x6/default': 'e5e45ad3ca8ac69e',
    'true_color/nan_1x6/nodata0': '8f66739d9ed05362',
    'true_color/nan_1x6/params': '14e1968c6bfd502a',
    'true_color/nan_4x7/default': '02cc9c0e1c7d723f',
    'true_color/nan_4x7/nodata0': 'edea2fd61f7db224',
    'true_color/nan_4x7/params': '77d7bf5270046d67',
    'true_color/nan_5x1/default': 'b2fb0f0b1ca9cd8a',
    'true_color/nan_5x1/nodata0': 'd399b58809f3bc75',
    'true_color/nan_5x1/params': 'efda561fbc988b8b',
    'true_color/nan_9x5/default': '073a0e53cbe70326',
    'true_color/nan_9x5/nodata0': 'bfa46eb4447aa0e8',
    'true_color/nan_9x5/params': 'a2107d54041523c5',
    'true_color/u16_1x1/default': 'f8790b091027ae22',
    'true_color/u16_1x1/nodata0': 'f8790b091027ae22',
    'true_color/u16_1x1/params': 'f8790b091027ae22',
    'true_color/u16_1x6/default': 'b6fc735752282935',
    'true_color/u16_1x6/nodata0': 'b6fc735752282935',
    'true_color/u16_1x6/params': '514c769695920b2d',
    'true_color/u16_4x7/default': '2e348f786ff63343',
    'true_color/u16_4x7/nodata0': '2e348f786ff63343',
    'true_color/u16_4x7/params': '39fe9b0f308721ea',
    'true_color/u16_5x1/default': '2be41564de7b545e',
    'true_color/u16_5x1/nodata0': '2be41564de7b545e',
    'true_color/u16_5x1/params': '1381876bda14a95c',
    'true_color/u16_9x5/default': 'eeec9405cd5a253c',
    'true_color/u16_9x5/nodata0': 'eeec9405cd5a253c',
    'true_color/u16_9x5/params': '4e1803f1ac6f5daf',
}


if __name__ == '__main__':
    run()
    if RECORD:
        print('EXPECTED = {')
        for k in sorted(digests):
            print('    %r: %r,' % (k, digests[k]))
        print('}')
        for f in failures:
            sys.stderr.write('FAIL ' + f + '\n')
        sys.exit(1 if failures else 0)
    if set(EXPECTED) != set(digests):
        failures.append('key set differs')
    for k, v in EXPECTED.items():
        if digests.get(k) != v:
            failures.append('digest ' + k)
    if failures:
        print('FAIL (%d):' % len(failures))
        for f in failures[:40]:
            print('  ', f)
        sys.exit(1)
    print('OK: %d digests identical, references and dask==numpy checks passed' % len(digests))
    sys.exit(0)
