"""Differential test for xrspatial.zonal.crosstab (property C04).

Two independent checks:
  1. every well-defined case is compared with a brute-force contingency table
     computed here with plain Python/NumPy loops;
  2. every case (including the ones that raise) is reduced to a digest of
     column labels, column dtypes and raw bytes, and compared with the digests
     recorded on the unmodified tree (RECORDED below).

Exit code 0 if everything is identical, 1 otherwise.
`python equiv.py --record` prints the digests of the tree it runs on.
"""
import hashlib
import json
import sys
import warnings

import dask
import dask.array as da
import numpy as np
import xarray as xr

import xrspatial
from xrspatial.zonal import crosstab

warnings.simplefilter("ignore")
dask.config.set(scheduler="synchronous")

RECORDED = {
    'bad-agg-2d': '40582b428c3847f1',
    'bad-agg-3d': 'd380271f67ef8e2f',
    'bad-agg-3d-dask': 'bbdf397b55215840',
    'bad-layer': '9bee868ae5f8fcc5',
    'bad-shape': 'b74d91628074b5b2',
    'bad-zone-dtype': '2d68cc5968d637c5',
    'da(1, 1)|2d|(1, 1)|float32|int64': '8a1b5e1a23a0c12f',
    'da(1, 1)|2d|(1, 1)|float64|float32': '0b008d001ebb728e',
    'da(1, 1)|2d|(1, 1)|int32|int8': '1dcbd716eed74a5e',
    'da(1, 1)|2d|(1, 1)|int64|int32': 'd69445ee539d000d',
    'da(1, 1)|2d|(2, 3)|float32|int32': '34bbf861c9c43771',
    'da(1, 1)|2d|(2, 3)|float64|int64': '37a9edfcb1ee4075',
    'da(1, 1)|2d|(2, 3)|int32|uint16': '9c8bca89812de12a',
    'da(1, 1)|2d|(2, 3)|int64|int8': '8965b41ac9234da6',
    'da(1, 1)|3d|(2, 3)|float64|float32': 'd8546a7abf021aab',
    'da(1, 1)|3d|(2, 3)|int32|int32': 'e6fe506c92a0cc5e',
    'da(1, 1)|3d|(2, 3)|int64|float64': '31ece6b46d471517',
    'da(1, 2)|2d|(1, 1)|float32|int64': '685cf6d0ca879e15',
    'da(1, 2)|2d|(1, 1)|float64|float32': '4dc8f967cd2c1280',
    'da(1, 2)|2d|(1, 1)|int32|int8': '5332c6a92544a65d',
    'da(1, 2)|2d|(1, 1)|int64|int32': '2a0df984c8c6888b',
    'da(1, 3)|2d|(2, 3)|float32|int32': 'efc18e6ecff56186',
    'da(1, 3)|2d|(2, 3)|float64|int64': '101ce41110643fc2',
    'da(1, 3)|2d|(2, 3)|int32|uint16': '52897f4bef6c7c05',
    'da(1, 3)|2d|(2, 3)|int64|int8': '2bf5bc65a19e27de',
    'da(1, 3)|3d|(2, 3)|float64|float32': '8a9e00af47591789',
    'da(1, 3)|3d|(2, 3)|int32|int32': '2fccdef10bba5e5b',
    'da(1, 3)|3d|(2, 3)|int64|float64': '5bc8e9ebc658cfcf',
    'da(1, 4)|2d|(5, 4)|float32|int8': '8a1d2ad805b27a5c',
    'da(1, 4)|2d|(5, 4)|float64|int32': '3b7bca305ae91892',
    'da(1, 4)|2d|(5, 4)|int32|float64': '6762ee61d14e5ebb',
    'da(1, 4)|2d|(5, 4)|int64|uint16': 'a454da9c6e9f11a4',
    'da(1, 4)|3d|(5, 4)|float64|float32': '1fbdb92856a487b1',
    'da(1, 4)|3d|(5, 4)|int32|int32': '2e41aa8b71f43037',
    'da(1, 4)|3d|(5, 4)|int64|float64': 'd61ecabdf22d58e7',
    'da(1, 5)|2d|(12, 5)|float32|float64': '24d7afaf37fd56a1',
    'da(1, 5)|2d|(12, 5)|float64|uint16': '1fc00cf41bb5255c',
    'da(1, 5)|2d|(12, 5)|int32|int64': '07fd3b81314d0157',
    'da(1, 5)|2d|(12, 5)|int64|float32': '343db3777d474b68',
    'da(1, 5)|3d|(12, 5)|float64|float32': '8c6ef14cb1031bce',
    'da(1, 5)|3d|(12, 5)|int32|int32': 'e786bfb2d2a2a5a0',
    'da(1, 5)|3d|(12, 5)|int64|float64': '929b7bec19e6f173',
    'da(1, 9)|2d|(7, 9)|float32|uint16': '0fdf376f75908d9c',
    'da(1, 9)|2d|(7, 9)|float64|int8': '2d7ab80a6c33f4bf',
    'da(1, 9)|2d|(7, 9)|int32|float32': '3d97719387f77f79',
    'da(1, 9)|2d|(7, 9)|int64|float64': '4e6784016d1202d5',
    'da(1, 9)|3d|(7, 9)|float64|float32': '1c7d7d63e3a4d772',
    'da(1, 9)|3d|(7, 9)|int32|int32': 'd18c00e16b256288',
    'da(1, 9)|3d|(7, 9)|int64|float64': 'b87775bc97b0e49b',
    'da(12, 2)|2d|(12, 5)|float32|float64': '496553c794ad95ef',
    'da(12, 2)|2d|(12, 5)|float64|uint16': 'fb851abaeac47057',
    'da(12, 2)|2d|(12, 5)|int32|int64': '9ef0b6ee56922602',
    'da(12, 2)|2d|(12, 5)|int64|float32': '59f20881fc9c2587',
    'da(12, 2)|3d|(12, 5)|float64|float32': '52b681b5cf4b42e3',
    'da(12, 2)|3d|(12, 5)|int32|int32': '2e40a346937014ba',
    'da(12, 2)|3d|(12, 5)|int64|float64': 'c7ed9a80075deaf1',
    'da(12, 5)|2d|(12, 5)|float32|float64': '826d211dd007d596',
    'da(12, 5)|2d|(12, 5)|float64|uint16': '1da5c1df0b81aa87',
    'da(12, 5)|2d|(12, 5)|int32|int64': 'b5f46a2753092ad6',
    'da(12, 5)|2d|(12, 5)|int64|float32': 'd14c33e6fa86d920',
    'da(12, 5)|3d|(12, 5)|float64|float32': '56c7d0299768c120',
    'da(12, 5)|3d|(12, 5)|int32|int32': '7d41d82227cc6ebe',
    'da(12, 5)|3d|(12, 5)|int64|float64': '0e6b4c633d83d8f6',
    'da(2, 2)|2d|(2, 3)|float32|int32': 'e5e2f4a184c47af8',
    'da(2, 2)|2d|(2, 3)|float64|int64': 'ded2951aa1b28b40',
    'da(2, 2)|2d|(2, 3)|int32|uint16': 'a921e6a3b2ef94ad',
    'da(2, 2)|2d|(2, 3)|int64|int8': 'c066d15d9cc73010',
    'da(2, 2)|2d|(5, 4)|float32|int8': '8dc23dbd70b5850c',
    'da(2, 2)|2d|(5, 4)|float64|int32': '5215a804f2009520',
    'da(2, 2)|2d|(5, 4)|int32|float64': 'd53cef54be452db0',
    'da(2, 2)|2d|(5, 4)|int64|uint16': 'a80c562118586bc3',
    'da(2, 2)|3d|(2, 3)|float64|float32': '1252201ef84e9d76',
    'da(2, 2)|3d|(2, 3)|int32|int32': '98755fda0dc5b313',
    'da(2, 2)|3d|(2, 3)|int64|float64': '39dfdc6fcee5132d',
    'da(2, 2)|3d|(5, 4)|float64|float32': '3b7f4e23b3478de9',
    'da(2, 2)|3d|(5, 4)|int32|int32': 'e26ce60ec34ed051',
    'da(2, 2)|3d|(5, 4)|int64|float64': '8364846e544884c7',
    'da(2, 3)|2d|(2, 3)|float32|int32': 'b9a6a6cd99d9b3c1',
    'da(2, 3)|2d|(2, 3)|float64|int64': '4d1e78879df82c1b',
    'da(2, 3)|2d|(2, 3)|int32|uint16': 'feceb235f0a6fd0e',
    'da(2, 3)|2d|(2, 3)|int64|int8': '13fbd5b02e713388',
    'da(2, 3)|3d|(2, 3)|float64|float32': '68b50543bdb08bb2',
    'da(2, 3)|3d|(2, 3)|int32|int32': 'f1bc12372547929d',
    'da(2, 3)|3d|(2, 3)|int64|float64': '16b92c80d2af3456',
    'da(3, 4)|2d|(1, 1)|float32|int64': '91f17a98de43ec9a',
    'da(3, 4)|2d|(1, 1)|float64|float32': 'df2d85fb891928ef',
    'da(3, 4)|2d|(1, 1)|int32|int8': '23a4c5f256510315',
    'da(3, 4)|2d|(1, 1)|int64|int32': 'c4b2544de1c335b0',
    'da(3, 4)|2d|(12, 5)|float32|float64': '91f82a10193354b4',
    'da(3, 4)|2d|(12, 5)|float64|uint16': 'af7c3342b14d0b7a',
    'da(3, 4)|2d|(12, 5)|int32|int64': '37851c3d7d4128db',
    'da(3, 4)|2d|(12, 5)|int64|float32': '701995a640ec5a96',
    'da(3, 4)|2d|(2, 3)|float32|int32': '7dcf9d9645f8685e',
    'da(3, 4)|2d|(2, 3)|float64|int64': 'b2b55d032ad212bb',
    'da(3, 4)|2d|(2, 3)|int32|uint16': 'b49a2a6129335319',
    'da(3, 4)|2d|(2, 3)|int64|int8': 'f4b303643f32e177',
    'da(3, 4)|2d|(5, 4)|float32|int8': '2155e155ca26184e',
    'da(3, 4)|2d|(5, 4)|float64|int32': '96e1a78569fbfedc',
    'da(3, 4)|2d|(5, 4)|int32|float64': '1231c46502b82691',
    'da(3, 4)|2d|(5, 4)|int64|uint16': '452ec46f7844e7cc',
    'da(3, 4)|2d|(7, 9)|float32|uint16': '4d4b886399d79976',
    'da(3, 4)|2d|(7, 9)|float64|int8': '8e3cae98de0db172',
    'da(3, 4)|2d|(7, 9)|int32|float32': 'a9fc3cd03c7ff25b',
    'da(3, 4)|2d|(7, 9)|int64|float64': '8939ca792e702538',
    'da(3, 4)|3d|(12, 5)|float64|float32': '477faad69fdef2bd',
    'da(3, 4)|3d|(12, 5)|int32|int32': '60bbaf524c1df0c5',
    'da(3, 4)|3d|(12, 5)|int64|float64': 'f088ca519be67188',
    'da(3, 4)|3d|(2, 3)|float64|float32': 'ee5503369689b295',
    'da(3, 4)|3d|(2, 3)|int32|int32': '0b59b9912c529bbe',
    'da(3, 4)|3d|(2, 3)|int64|float64': '0d8a99f03d14d63e',
    'da(3, 4)|3d|(5, 4)|float64|float32': 'b7558d09aa6cfb3e',
    'da(3, 4)|3d|(5, 4)|int32|int32': '6614f4097a24560a',
    'da(3, 4)|3d|(5, 4)|int64|float64': '01b79c78010d028b',
    'da(3, 4)|3d|(7, 9)|float64|float32': '6e99fd48ac670bf6',
    'da(3, 4)|3d|(7, 9)|int32|int32': '2166d876b7b5d69f',
    'da(3, 4)|3d|(7, 9)|int64|float64': '2994f90d73241d3f',
    'da(5, 2)|2d|(5, 4)|float32|int8': 'b8b6fdce62047080',
    'da(5, 2)|2d|(5, 4)|float64|int32': '8841973baa284c6f',
    'da(5, 2)|2d|(5, 4)|int32|float64': 'a22dfeb22329b4a9',
    'da(5, 2)|2d|(5, 4)|int64|uint16': 'ea4e292bce6c6db1',
    'da(5, 2)|3d|(5, 4)|float64|float32': '5849ef4e112b2e0a',
    'da(5, 2)|3d|(5, 4)|int32|int32': 'b2968d5bf3feccde',
    'da(5, 2)|3d|(5, 4)|int64|float64': 'eb26cef0fcc69801',
    'da(5, 4)|2d|(5, 4)|float32|int8': 'c498f0586445607b',
    'da(5, 4)|2d|(5, 4)|float64|int32': '4aa8d12a12354e15',
    'da(5, 4)|2d|(5, 4)|int32|float64': 'a95c355d5626c8dc',
    'da(5, 4)|2d|(5, 4)|int64|uint16': '268ee1f321d60637',
    'da(5, 4)|3d|(5, 4)|float64|float32': '4e3e727b8303a0d4',
    'da(5, 4)|3d|(5, 4)|int32|int32': '083c3f7f779d7a77',
    'da(5, 4)|3d|(5, 4)|int64|float64': '8ba43bc20bd7e20b',
    'da(6, 2)|2d|(12, 5)|float32|float64': '60ef7d1d83affdc6',
    'da(6, 2)|2d|(12, 5)|float64|uint16': '082c58c813933633',
    'da(6, 2)|2d|(12, 5)|int32|int64': 'b5ef56eda3826fd8',
    'da(6, 2)|2d|(12, 5)|int64|float32': '32a4740f548656de',
    'da(6, 2)|3d|(12, 5)|float64|float32': '19b8bbb46b523d65',
    'da(6, 2)|3d|(12, 5)|int32|int32': '76df9905ce7cafa8',
    'da(6, 2)|3d|(12, 5)|int64|float64': '80ee4d8be6dfdab3',
    'da(7, 2)|2d|(7, 9)|float32|uint16': '76343f156717f4bf',
    'da(7, 2)|2d|(7, 9)|float64|int8': 'd203cdd67344ad14',
    'da(7, 2)|2d|(7, 9)|int32|float32': '43d2c96c506c401a',
    'da(7, 2)|2d|(7, 9)|int64|float64': 'cc0d3fce05f8b3f1',
    'da(7, 2)|3d|(7, 9)|float64|float32': 'c0cb5891dd0e0029',
    'da(7, 2)|3d|(7, 9)|int32|int32': '7aa4f1d3558b6b43',
    'da(7, 2)|3d|(7, 9)|int64|float64': '0e8e161831ac7e2e',
    'da(7, 9)|2d|(7, 9)|float32|uint16': '0216b74be0f9188f',
    'da(7, 9)|2d|(7, 9)|float64|int8': '54271cc823834048',
    'da(7, 9)|2d|(7, 9)|int32|float32': '96ceffd2357af8f7',
    'da(7, 9)|2d|(7, 9)|int64|float64': 'b0c3c052dea599a0',
    'da(7, 9)|3d|(7, 9)|float64|float32': '4986da11e95362db',
    'da(7, 9)|3d|(7, 9)|int32|int32': '2cc656ccdfa0341e',
    'da(7, 9)|3d|(7, 9)|int64|float64': '5c3ada6f6094b4f4',
    'da|3d-layer-last|count': '509e7ab6f9be1a81',
    'int-layers': 'a0569d24a66f4bae',
    'np|2d|(1, 1)|float32|int64': 'f5afd2ce3bafb1e3',
    'np|2d|(1, 1)|float64|float32': '9828e7aede197506',
    'np|2d|(1, 1)|int32|int8': '40b9f4f9d45f157e',
    'np|2d|(1, 1)|int64|int32': 'd64037bb9698af61',
    'np|2d|(12, 5)|float32|float64': '1a0074e0ab7a0584',
    'np|2d|(12, 5)|float64|uint16': 'c3c792db044a6e57',
    'np|2d|(12, 5)|int32|int64': '84a27cca56cab9ad',
    'np|2d|(12, 5)|int64|float32': 'fa9561de13fef149',
    'np|2d|(2, 3)|float32|int32': '8272441bf0361f34',
    'np|2d|(2, 3)|float64|int64': '3ae0381f9738d6d0',
    'np|2d|(2, 3)|int32|uint16': '4027f2a93d56e1dc',
    'np|2d|(2, 3)|int64|int8': 'e78efe712d6ec42c',
    'np|2d|(5, 4)|float32|int8': '005869bcf8a9939f',
    'np|2d|(5, 4)|float64|int32': '54abd2a271e229c4',
    'np|2d|(5, 4)|int32|float64': '50951cc471797bd1',
    'np|2d|(5, 4)|int64|uint16': '426ffa36bf687f19',
    'np|2d|(7, 9)|float32|uint16': 'c51aa4e07271139f',
    'np|2d|(7, 9)|float64|int8': '5dcb73500f814358',
    'np|2d|(7, 9)|int32|float32': '50e590aea5ae7eb3',
    'np|2d|(7, 9)|int64|float64': 'fa99ce12a0e994c5',
    'np|3d-layer-last|count': 'eb4628f713f7d457',
    'np|3d-layer-last|sum': '317efabfc4408f1d',
    'np|3d|(12, 5)|float64|float32': '959c384f50711094',
    'np|3d|(12, 5)|int32|int32': 'd6ee1a41c58f99dd',
    'np|3d|(12, 5)|int64|float64': 'da7e4e908e3b4e4f',
    'np|3d|(2, 3)|float64|float32': '581a765e026f1d7a',
    'np|3d|(2, 3)|int32|int32': '6b5045e57d870f6c',
    'np|3d|(2, 3)|int64|float64': '84741378aaac4e17',
    'np|3d|(5, 4)|float64|float32': '5247f7ddef6f6417',
    'np|3d|(5, 4)|int32|int32': 'eab2bbdd85cadd40',
    'np|3d|(5, 4)|int64|float64': '692bcef16d0ddb7b',
    'np|3d|(7, 9)|float64|float32': '8a0c01782218c07f',
    'np|3d|(7, 9)|int32|int32': '1420b85506033d37',
    'np|3d|(7, 9)|int64|float64': '953f185b7f076cdf',
}


# --------------------------------------------------------------------------
# inputs
# --------------------------------------------------------------------------
def make_zones(rng, shape, dtype):
    z = rng.randint(0, 5, size=shape) * 3 - 2       # ids in {-2, 1, 4, 7, 10}
    z = z.astype(dtype)
    if np.issubdtype(dtype, np.floating) and z.size > 3:
        flat = z.ravel()
        flat[rng.randint(0, z.size)] = np.nan
        flat[rng.randint(0, z.size)] = np.inf
        flat[rng.randint(0, z.size)] = -np.inf
    return z


def make_values(rng, shape, dtype):
    v = rng.randint(0, 6, size=shape).astype(dtype)
    if np.issubdtype(dtype, np.floating) and v.size > 3:
        flat = v.ravel()
        for _ in range(max(1, v.size // 7)):
            flat[rng.randint(0, v.size)] = np.nan
        flat[rng.randint(0, v.size)] = np.inf
        flat[rng.randint(0, v.size)] = 2.5
    return v


def chunk_for(shape, k):
    options = [
        (max(1, shape[0] // 2), max(1, shape[1] // 2)),
        (1, shape[1]),
        (shape[0], 2),
        shape,
        (3, 4),
    ]
    return options[k % len(options)]


# --------------------------------------------------------------------------
# brute-force reference
# --------------------------------------------------------------------------
def _valid(x, nodata):
    ok = np.isfinite(x)
    if nodata is not None:
        ok &= (x != nodata)
    return ok


def reference_2d(z, v, nodata, zone_ids, cat_ids, agg):
    all_zones = sorted(set(z[np.isfinite(z)].tolist()))
    all_cats = sorted(set(v[_valid(v, nodata)].tolist()))
    zsel = all_zones if zone_ids is None else [a for a in all_zones if a in zone_ids]
    csel = all_cats if cat_ids is None else [c for c in cat_ids if c in all_cats]
    rows = []
    for zid in zsel:
        inzone = (z == zid)
        total = int((inzone & _valid(v, nodata)).sum())
        row = []
        for c in csel:
            n = int((inzone & _valid(v, nodata) & (v == c)).sum())
            if agg == "count":
                row.append(float(n))
            else:
                row.append(np.nan if total == 0 else n / np.float32(total) * 100)
        rows.append(row)
    return zsel, csel, np.array(rows, dtype=float).reshape(len(zsel), len(csel))


_AGGS = dict(
    mean=np.mean, max=np.max, min=np.min, sum=np.sum, std=np.std, var=np.var,
    count=lambda a: a.size,
)


def reference_3d(z, v, layers, nodata, zone_ids, cat_ids, agg):
    all_zones = sorted(set(z[np.isfinite(z)].tolist()))
    zsel = all_zones if zone_ids is None else [a for a in all_zones if a in zone_ids]
    csel = list(layers) if cat_ids is None else [c for c in cat_ids if c in layers]
    rows = []
    for zid in zsel:
        row = []
        for c in csel:
            lay = v[list(layers).index(c)]
            cells = lay[(z == zid) & _valid(lay, nodata)]
            row.append(float(_AGGS[agg](cells)))
        rows.append(row)
    return zsel, csel, np.array(rows, dtype=float).reshape(len(zsel), len(csel))


def check_against_reference(name, df, ref, failures):
    zsel, csel, table = ref
    cols = list(df.columns)
    if cols != ["zone"] + list(csel):
        failures.append(f"{name}: columns {cols} != {['zone'] + list(csel)}")
        return
    if [float(a) for a in df["zone"].tolist()] != [float(a) for a in zsel]:
        failures.append(f"{name}: zone labels {df['zone'].tolist()} != {zsel}")
        return
    got = np.array(
        [df[c].to_numpy().astype(float) for c in csel], dtype=float
    ).reshape(len(csel), len(zsel)).T
    if not np.allclose(got, table, rtol=1e-6, atol=0, equal_nan=True):
        failures.append(f"{name}: values differ from brute force\n{got}\n{table}")


# --------------------------------------------------------------------------
# digests
# --------------------------------------------------------------------------
def digest(df):
    h = hashlib.sha256()
    h.update(repr([(type(c).__name__, c) for c in df.columns]).encode())
    for c in df.columns:
        col = df[c].to_numpy()
        h.update(str(col.dtype).encode())
        if col.dtype == object:
            h.update(repr(col.tolist()).encode())
        else:
            h.update(np.ascontiguousarray(col).tobytes())
    h.update(repr(list(df.index)).encode())
    return h.hexdigest()[:12]


def run_one(name, zones, values, kwargs, ref_fn, results, failures):
    try:
        out = crosstab(zones=zones, values=values, **kwargs)
        lazy = hasattr(out, "compute")
        df = out.compute() if lazy else out
        df = df.reset_index(drop=True) if lazy else df
        results[name] = ("lazy:" if lazy else "eager:") + digest(df)
    except Exception as e:  # recorded as well: must fail the same way
        results[name] = "raises:" + type(e).__name__ + ":" + \
            hashlib.sha256(str(e).encode()).hexdigest()[:8]
        return
    if ref_fn is not None:
        try:
            ref = ref_fn()
        except ValueError:
            return
        check_against_reference(name, df, ref, failures)


ZONE_SELECTIONS = [
    None, [1, 4], [10, -2, 4], [7, 99, 1], [99], [4, 4, 1], [10, 7, 4, 1, -2],
]
CAT_SELECTIONS_2D = [None, [0, 3], [5, 1, 2], [4, 77, 0], [77], [3, 2, 1, 0]]
NODATA = [None, 0, 3, 2.5]


def all_cases():
    results, failures = {}, []
    rng = np.random.RandomState(20240404)
    shapes = [(1, 1), (2, 3), (5, 4), (7, 9), (12, 5)]
    zdtypes = [np.int32, np.int64, np.float32, np.float64]
    vdtypes = [np.int8, np.int32, np.int64, np.float32, np.float64, np.uint16]

    # ---- 2-D -------------------------------------------------------------
    k = 0
    for si, shape in enumerate(shapes):
        for zd in zdtypes:
            vd = vdtypes[(k + si) % len(vdtypes)]
            z = make_zones(rng, shape, zd)
            v = make_values(rng, shape, vd)
            for sel in range(len(ZONE_SELECTIONS)):
                zone_ids = ZONE_SELECTIONS[sel]
                cat_ids = CAT_SELECTIONS_2D[(sel + k) % len(CAT_SELECTIONS_2D)]
                nodata = NODATA[(sel + si + k) % len(NODATA)]
                for agg in ("count", "percentage"):
                    kw = dict(zone_ids=zone_ids, cat_ids=cat_ids,
                              nodata_values=nodata, agg=agg)
                    tag = f"2d|{shape}|{np.dtype(zd)}|{np.dtype(vd)}|{zone_ids}|{cat_ids}|{nodata}|{agg}"

                    def ref_fn():
                        return reference_2d(z, v, nodata, zone_ids, cat_ids, agg)
                    run_one("np|" + tag, xr.DataArray(z.copy()), xr.DataArray(v.copy()),
                            kw, ref_fn, results, failures)
                    ch = chunk_for(shape, sel + k)
                    run_one(f"da{ch}|" + tag,
                            xr.DataArray(da.from_array(z.copy(), chunks=ch)),
                            xr.DataArray(da.from_array(v.copy(), chunks=ch)),
                            kw, ref_fn, results, failures)
            k += 1

    # ---- 3-D -------------------------------------------------------------
    layer_names = ["a", "b", "c"]
    cat3 = [None, ["c", "a"], ["b"], ["b", "zz", "a"], ["c", "b", "a"]]
    k = 0
    for si, shape in enumerate(shapes[1:]):
        for zd in (np.int64, np.float64, np.int32):
            vd = [np.float64, np.float32, np.int32, np.int64][(k + si) % 4]
            z = make_zones(rng, shape, zd)
            v = make_values(rng, (3,) + shape, vd)
            for sel in range(len(ZONE_SELECTIONS)):
                zone_ids = ZONE_SELECTIONS[sel]
                cat_ids = cat3[(sel + k) % len(cat3)]
                nodata = NODATA[(sel + k) % len(NODATA)]
                for agg in ("mean", "max", "min", "sum", "std", "var", "count"):
                    kw = dict(zone_ids=zone_ids, cat_ids=cat_ids,
                              nodata_values=nodata, agg=agg)
                    tag = f"3d|{shape}|{np.dtype(zd)}|{np.dtype(vd)}|{zone_ids}|{cat_ids}|{nodata}|{agg}"

                    def ref_fn():
                        return reference_3d(z, v, layer_names, nodata,
                                            zone_ids, cat_ids, agg)
                    vals = xr.DataArray(v.copy(), dims=["lyr", "y", "x"],
                                        coords={"lyr": layer_names})
                    run_one("np|" + tag, xr.DataArray(z.copy(), dims=["y", "x"]),
                            vals, kw, ref_fn, results, failures)
                    if agg == "count" or sel == 0:
                        ch = chunk_for(shape, sel + k)
                        dvals = xr.DataArray(
                            da.from_array(v.copy(), chunks=(2,) + ch),
                            dims=["lyr", "y", "x"], coords={"lyr": layer_names})
                        run_one(f"da{ch}|" + tag,
                                xr.DataArray(da.from_array(z.copy(), chunks=ch),
                                             dims=["y", "x"]),
                                dvals, kw, ref_fn, results, failures)
            k += 1

    # ---- 3-D with the category layer not in front (layer=-1) ---------------
    z = make_zones(rng, (6, 5), np.int64)
    v = make_values(rng, (6, 5, 3), np.float64)
    for agg in ("count", "sum"):
        for backend in ("np", "da"):
            if backend == "da" and agg != "count":
                continue
            zz = z.copy() if backend == "np" else da.from_array(z.copy(), chunks=(3, 5))
            vv = v.copy() if backend == "np" else da.from_array(v.copy(), chunks=(3, 5, 1))
            vals = xr.DataArray(vv, dims=["y", "x", "lyr"], coords={"lyr": layer_names})

            def ref_fn():
                return reference_3d(z, np.moveaxis(v, -1, 0), layer_names, 1,
                                    [4, 1], None, agg)
            run_one(f"{backend}|3d-layer-last|{agg}", xr.DataArray(zz, dims=["y", "x"]),
                    vals, dict(zone_ids=[4, 1], layer=-1, nodata_values=1, agg=agg),
                    ref_fn, results, failures)

    # ---- invalid arguments must keep failing the same way ------------------
    z = make_zones(rng, (4, 4), np.int64)
    v = make_values(rng, (4, 4), np.float64)
    run_one("bad-agg-2d", xr.DataArray(z), xr.DataArray(v), dict(agg="mean"),
            None, results, failures)
    run_one("bad-shape", xr.DataArray(z), xr.DataArray(v[:3]), {}, None, results, failures)
    run_one("bad-zone-dtype", xr.DataArray(z.astype(bool)), xr.DataArray(v), {},
            None, results, failures)
    v3 = xr.DataArray(make_values(rng, (2, 4, 4), np.float64), dims=["l", "y", "x"],
                      coords={"l": [10, 20]})
    run_one("bad-agg-3d", xr.DataArray(z, dims=["y", "x"]), v3, dict(agg="percentage"),
            None, results, failures)
    run_one("bad-layer", xr.DataArray(z, dims=["y", "x"]), v3, dict(layer=5),
            None, results, failures)
    run_one("bad-agg-3d-dask", xr.DataArray(da.from_array(z, chunks=2), dims=["y", "x"]),
            v3.chunk(2), dict(agg="mean"), None, results, failures)
    run_one("int-layers", xr.DataArray(z, dims=["y", "x"]), v3,
            dict(cat_ids=[20, 10], agg="max"), None, results, failures)
    return results, failures


def grouped(results):
    # one digest per (backend, ndim, shape, zone dtype, value dtype) group
    groups = {}
    for name in sorted(results):
        key = "|".join(name.split("|")[:5])
        groups.setdefault(key, hashlib.sha256()).update(
            (name + "=" + results[name] + ";").encode())
    return {k: h.hexdigest()[:16] for k, h in groups.items()}


def main():
    print("xrspatial from", xrspatial.__file__)
    cases, failures = all_cases()
    n_cases = len(cases)
    n_raise = sum(1 for r in cases.values() if r.startswith("raises:"))
    results = grouped(cases)
    if "--record" in sys.argv:
        with open(sys.argv[sys.argv.index("--record") + 1], "w") as f:
            json.dump(results, f, indent=0, sort_keys=True)
        print("recorded", len(results), "groups")
    print(f"{n_cases} cases ({n_raise} raising) in {len(results)} groups, "
          f"{len(failures)} brute-force mismatches")
    for f in failures[:10]:
        print("REFERENCE MISMATCH:", f)
    bad = 0
    if "--record" not in sys.argv:
        if set(results) != set(RECORDED):
            print("case set differs from the recorded one")
            bad += 1
        for name, d in results.items():
            if RECORDED.get(name) != d:
                bad += 1
                if bad <= 10:
                    print("DIGEST MISMATCH:", name, RECORDED.get(name), "->", d)
    if failures or bad:
        print("FAIL")
        sys.exit(1)
    print("OK: identical")
    sys.exit(0)


if __name__ == "__main__":
    main()
