"""Differential test for xrspatial.viewshed (property C05).

Runs viewshed on a deterministic family of inputs (several dtypes, NaNs,
ties/plateaus, odd shapes, square / non-square / descending coordinates,
observer at corners/edges/interior, negative observer heights, target heights,
error paths incl. a dask-backed raster) and compares a bit-exact digest of
every outcome with the digests recorded from the unmodified tree.

Usage:  cd <worktree> && PYTHONPATH=<worktree> python equiv.py [--record]
Exit status 0 iff every outcome is identical to the recorded one.
"""
import hashlib
import io
import sys
import contextlib
import warnings

import numpy as np
import xarray as xr

import xrspatial
from xrspatial import viewshed

warnings.filterwarnings("ignore")

EXPECTED = {
    'g/(2, 2)/rand/float64/r0c0/0': 'b0e6dcc507d058c819928a1e',
    'g/(2, 2)/rand/float64/r0c1/1': 'c115e8b53d58d4cae8d11533',
    'g/(2, 2)/rand/float64/r1c0/2': 'a7347b7af93677d1207ee0fb',
    'g/(2, 2)/rand/float64/r1c1/3': '670ba42dc1fcddc651fc0baf',
    'g/(2, 2)/ties/uint8/r0c0/4': '540b91293f6c8cd8571ee1ab',
    'g/(2, 2)/ties/uint8/r0c1/5': 'f99ba5e9ce60a7dea82388ba',
    'g/(2, 2)/ties/uint8/r1c0/6': 'a0d10c49fa2777591bae9511',
    'g/(2, 2)/ties/uint8/r1c1/7': 'd4bf12ac9e1a0aca78f178e5',
    'g/(2, 2)/plateau/int32/r0c0/8': '10cd4576256472d700488219',
    'g/(2, 2)/plateau/int32/r0c1/9': 'b2a28840d943470eac6b8f20',
    'g/(2, 2)/plateau/int32/r1c0/10': '848222e1053c65ad114fece0',
    'g/(2, 2)/plateau/int32/r1c1/11': 'fc997081cb647a914f1a5932',
    'g/(2, 2)/flat/float64/r0c0/12': '067ce828b7b6243a32d101c6',
    'g/(2, 2)/flat/float64/r0c1/13': '67c5f420866e87789f06e39c',
    'g/(2, 2)/flat/float64/r1c0/14': '4f586566e5827044463fb5c0',
    'g/(2, 2)/flat/float64/r1c1/15': '9d4d61027d07d179209011b2',
    'g/(2, 2)/ramp/uint8/r0c0/16': 'a239e3c11b802850237b342d',
    'g/(2, 2)/ramp/uint8/r0c1/17': '297c32f93a98fc8ce723f790',
    'g/(2, 2)/ramp/uint8/r1c0/18': '6e9178214e697fb8d8624a44',
    'g/(2, 2)/ramp/uint8/r1c1/19': 'f03a6d0808b8a938b47d4ab8',
    'g/(2, 2)/bowl/int32/r0c0/20': 'e4aa1707daa6b58f2460535d',
    'g/(2, 2)/bowl/int32/r0c1/21': 'fc4362e851feba7c3007c464',
    'g/(2, 2)/bowl/int32/r1c0/22': '2b62b0c94eb96c998e65954d',
    'g/(2, 2)/bowl/int32/r1c1/23': '52862b17a5cfb8fdd25c0f26',
    'g/(2, 7)/rand/float64/r0c0/24': '0f60bfcd089a395531112c27',
    'g/(2, 7)/rand/float64/r0c3/25': '77c42837ac6c394353ec57ef',
    'g/(2, 7)/rand/float64/r0c6/26': 'b9496676914abecab69b1e53',
    'g/(2, 7)/rand/float64/r1c0/27': '6ec9f2a3dd266ca1422ac24a',
    'g/(2, 7)/rand/float64/r1c1/28': '10d301d3bca2cf5b45b58e57',
    'g/(2, 7)/rand/float64/r1c3/29': '13f83b15cd18202600d974d8',
    'g/(2, 7)/rand/float64/r1c6/30': 'c7940c2e5bbaec4ce4ddc64c',
    'g/(2, 7)/ties/float32/r0c0/31': '154d638c7bd093ee1b6f3031',
    'g/(2, 7)/ties/float32/r0c3/32': 'dc79e7453af8612e036dad0f',
    'g/(2, 7)/ties/float32/r0c6/33': 'fead52b37bfbe2f2f8cd17bd',
    'g/(2, 7)/ties/float32/r1c0/34': '730c5360aec5a59158b426d1',
    'g/(2, 7)/ties/float32/r1c1/35': 'c5998a43717f7347caaefa31',
    'g/(2, 7)/ties/float32/r1c3/36': 'e550ebbb66846072172747e4',
    'g/(2, 7)/ties/float32/r1c6/37': 'd70d494cb79e0eea73a7ecee',
    'g/(2, 7)/plateau/int32/r0c0/38': 'a1883839a55e1791f4791011',
    'g/(2, 7)/plateau/int32/r0c3/39': 'bce394beb744ebb286649b7a',
    'g/(2, 7)/plateau/int32/r0c6/40': '4ec5da0f5ba439df6df0dbb1',
    'g/(2, 7)/plateau/int32/r1c0/41': 'd2dbe8369d1ca3cdc5c25a7e',
    'g/(2, 7)/plateau/int32/r1c3/42': '3eb6fbfe0456cb2a42d33457',
    'g/(2, 7)/plateau/int32/r1c6/43': '46de0782619c8f3289a96e19',
    'g/(2, 7)/flat/int32/r0c0/44': '3a43c0f9c6387374dce48349',
    'g/(2, 7)/flat/int32/r0c3/45': '849e1aefee520f6e906269ff',
    'g/(2, 7)/flat/int32/r0c6/46': 'e8ab2ae0b9cd51896ae76155',
    'g/(2, 7)/flat/int32/r1c0/47': 'c0d2d3e1bfa3847535845771',
    'g/(2, 7)/flat/int32/r1c1/48': 'ec62cbae4bebcc3c61e40e6e',
    'g/(2, 7)/flat/int32/r1c3/49': 'da17d397143dfb5387bbbc3e',
    'g/(2, 7)/flat/int32/r1c6/50': 'b6a4b0c17ee9af59d47f78f2',
    'g/(2, 7)/ramp/int64/r0c0/51': '1a5f68c294255e846c7c34d6',
    'g/(2, 7)/ramp/int64/r0c3/52': '6f782ec7715435fd06708c10',
    'g/(2, 7)/ramp/int64/r0c6/53': '14cf6f61ab5584a5f4883c83',
    'g/(2, 7)/ramp/int64/r1c0/54': '757c346ff141c84af3e1a8ce',
    'g/(2, 7)/ramp/int64/r1c3/55': 'e550480d6db6954679315fcc',
    'g/(2, 7)/ramp/int64/r1c4/56': '27156e70991a3fa22336685f',
    'g/(2, 7)/ramp/int64/r1c6/57': '6ca78342670cd4114f06f8de',
    'g/(2, 7)/bowl/uint8/r0c0/58': 'd60ed837783c323876501907',
    'g/(2, 7)/bowl/uint8/r0c3/59': '1d747a7f20402968a6228d24',
    'g/(2, 7)/bowl/uint8/r0c6/60': 'fc46db0419a0f722a34576b7',
    'g/(2, 7)/bowl/uint8/r1c0/61': '992b83c916839f7e38da1935',
    'g/(2, 7)/bowl/uint8/r1c3/62': '7a2110897edec93df0a7e611',
    'g/(2, 7)/bowl/uint8/r1c6/63': 'dc6ee63dcd5bffd20d2ad46f',
    'g/(7, 2)/rand/uint8/r0c0/64': '2c92a381eb0b24f1e942d18e',
    'g/(7, 2)/rand/uint8/r0c1/65': 'cd88ba7a89ba1978e502e193',
    'g/(7, 2)/rand/uint8/r2c1/66': 'b4546ef1f9927bbcd85c4b9c',
    'g/(7, 2)/rand/uint8/r3c0/67': 'f3aedc43dd368cd2907a3e76',
    'g/(7, 2)/rand/uint8/r3c1/68': '907b079d2f7a01b4346994c7',
    'g/(7, 2)/rand/uint8/r6c0/69': '031d56af60f002ef4d4d1f71',
    'g/(7, 2)/rand/uint8/r6c1/70': 'a566346718664322b3cb493c',
    'g/(7, 2)/ties/int16/r0c0/71': 'fadd41f638c7f40b8192401c',
    'g/(7, 2)/ties/int16/r0c1/72': 'fe159d508e0bb0a67101c373',
    'g/(7, 2)/ties/int16/r1c0/73': 'ba8b0545092fdf98f3b2b72d',
    'g/(7, 2)/ties/int16/r3c0/74': '9a400d343f1c525ab55aa9b2',
    'g/(7, 2)/ties/int16/r3c1/75': 'a657969cb2824bbe7f157d4a',
    'g/(7, 2)/ties/int16/r6c0/76': 'bbec176c8df4dc07677ba320',
    'g/(7, 2)/ties/int16/r6c1/77': '9f02f7039ca3e86ad1a2d380',
    'g/(7, 2)/plateau/float64/r0c0/78': '5822647b2c98ee2a872f5c2c',
    'g/(7, 2)/plateau/float64/r0c1/79': 'd0cf251f829a59f451b3912b',
    'g/(7, 2)/plateau/float64/r3c0/80': 'faa00a854f6e14da10d1cd1c',
    'g/(7, 2)/plateau/float64/r3c1/81': '8ee6e4743bc28da3e05eaa17',
    'g/(7, 2)/plateau/float64/r5c0/82': '59031edbf9d72dd9d44da5dc',
    'g/(7, 2)/plateau/float64/r6c0/83': '6553ddaaec8c22e31ba6c381',
    'g/(7, 2)/plateau/float64/r6c1/84': '41ee8248aa67c0580ebbbca5',
    'g/(7, 2)/flat/float32/r0c0/85': 'c3603574280f282a9657ab1d',
    'g/(7, 2)/flat/float32/r0c1/86': '728a759f8209031e5a434865',
    'g/(7, 2)/flat/float32/r3c0/87': '3bcb95d6ec971b506679a5c8',
    'g/(7, 2)/flat/float32/r3c1/88': 'd9cf10706801f5e91503a53a',
    'g/(7, 2)/flat/float32/r4c1/89': '0253aa68ceb2ec65bfa94fb5',
    'g/(7, 2)/flat/float32/r6c0/90': '34b2b4e5514655a5c84d278a',
    'g/(7, 2)/flat/float32/r6c1/91': '03845f53b6305de4c03411d9',
    'g/(7, 2)/ramp/int32/r0c0/92': '539a3f847eb15203169a4b3c',
    'g/(7, 2)/ramp/int32/r0c1/93': 'd15df74751cfdfef11f18f04',
    'g/(7, 2)/ramp/int32/r3c0/94': '8858ef5f94a5918ddc72f590',
    'g/(7, 2)/ramp/int32/r3c1/95': 'd4f029243a4cd602e8ef3314',
    'g/(7, 2)/ramp/int32/r6c0/96': '59d434579656e8c909f337fa',
    'g/(7, 2)/ramp/int32/r6c1/97': 'd5871a4a4f82135395b9a234',
    'g/(7, 2)/bowl/int32/r0c0/98': '367d006533ed0af50551e5ea',
    'g/(7, 2)/bowl/int32/r0c1/99': '1f2a72ecdb9db63aea214f78',
    'g/(7, 2)/bowl/int32/r3c0/100': 'b0bcf60a030d86c2bcbfae0a',
    'g/(7, 2)/bowl/int32/r3c1/101': '5f61452fb724a0d0b13e174d',
    'g/(7, 2)/bowl/int32/r5c0/102': '895de1dbc9aff29abc3e2403',
    'g/(7, 2)/bowl/int32/r6c0/103': '41c3928cfab36dc6e01d9fac',
    'g/(7, 2)/bowl/int32/r6c1/104': '13bf51d5e4c058a0df1b0d94',
    'g/(3, 3)/rand/int64/r0c0/105': '11341b6c044adc8f1916337b',
    'g/(3, 3)/rand/int64/r0c1/106': 'dbb6c4616de93076ddd03ce5',
    'g/(3, 3)/rand/int64/r0c2/107': 'ec2606df0e8a658c68ff2c71',
    'g/(3, 3)/rand/int64/r1c0/108': '45123271a896cc19a5d109d2',
    'g/(3, 3)/rand/int64/r1c1/109': '562482451e3d595e5baf1d05',
    'g/(3, 3)/rand/int64/r1c2/110': 'f2d8be7f4f8312a852d7ec24',
    'g/(3, 3)/rand/int64/r2c0/111': 'b3d04d401c5cce0c1cac4728',
    'g/(3, 3)/rand/int64/r2c1/112': '534b89913188fe303cb65aba',
    'g/(3, 3)/rand/int64/r2c2/113': 'c8ec30a548ea4b40281a29ad',
    'g/(3, 3)/ties/float64/r0c0/114': 'dc7bc9d4c29812e77895d793',
    'g/(3, 3)/ties/float64/r0c1/115': '29dffa4e1e998da07765cd31',
    'g/(3, 3)/ties/float64/r0c2/116': '60211304e1ca4923887b1582',
    'g/(3, 3)/ties/float64/r1c0/117': '345a907786e0801fd3359b0c',
    'g/(3, 3)/ties/float64/r1c1/118': '53a9dbf8d4ed29579dc8a22d',
    'g/(3, 3)/ties/float64/r1c2/119': '3ee44d79d4cc0e7812a35594',
    'g/(3, 3)/ties/float64/r2c0/120': 'fbe8006be1234c1c31d501f9',
    'g/(3, 3)/ties/float64/r2c1/121': 'f5acda7f24c1cb473fbcb3e8',
    'g/(3, 3)/ties/float64/r2c2/122': '88c7ad3501d7415de38dd1cc',
    'g/(3, 3)/plateau/int64/r0c0/123': '7b42774d29928abb3a8e13dd',
    'g/(3, 3)/plateau/int64/r0c1/124': '7214b650ebf1f9ab2988c488',
    'g/(3, 3)/plateau/int64/r0c2/125': 'f30f0efa63f5b795c08745fb',
    'g/(3, 3)/plateau/int64/r1c0/126': 'df586f8da27dc2696672976e',
    'g/(3, 3)/plateau/int64/r1c1/127': '8190ef46dd19d01e0e0dbde6',
    'g/(3, 3)/plateau/int64/r1c2/128': '4e342deb4984f5706507c0c2',
    'g/(3, 3)/plateau/int64/r2c0/129': '05a9059377999ca6ccc177dd',
    'g/(3, 3)/plateau/int64/r2c1/130': 'df031dcc418bf3a4a21d0e4e',
    'g/(3, 3)/plateau/int64/r2c2/131': 'd0ddfca94b4b49890b388418',
    'g/(3, 3)/flat/float64/r0c0/132': '5e0e96235657722decf57d2e',
    'g/(3, 3)/flat/float64/r0c1/133': '194584ed37d2415c7b697d07',
    'g/(3, 3)/flat/float64/r0c2/134': '51266598a81658a04dc03c28',
    'g/(3, 3)/flat/float64/r1c0/135': 'e7f929f1623071a3ff1ca33b',
    'g/(3, 3)/flat/float64/r1c1/136': '831a7c1a13ff453d8fad4c53',
    'g/(3, 3)/flat/float64/r1c2/137': 'daec063993d2efb9ed7baa16',
    'g/(3, 3)/flat/float64/r2c0/138': 'a3267f82533f8a35f9f36c5b',
    'g/(3, 3)/flat/float64/r2c1/139': '8ca8f03d3f53832204233b85',
    'g/(3, 3)/flat/float64/r2c2/140': 'c44e278fd3545171cffcaa4f',
    'g/(3, 3)/ramp/int64/r0c0/141': '848d1820fd511746458331d1',
    'g/(3, 3)/ramp/int64/r0c1/142': '992f3f05a2dfccd150066445',
    'g/(3, 3)/ramp/int64/r0c2/143': '953332280d854d56eb5278f3',
    'g/(3, 3)/ramp/int64/r1c0/144': 'ee474c07acae9752ed1617d1',
    'g/(3, 3)/ramp/int64/r1c1/145': '23c7e0565ec4367055b24bdf',
    'g/(3, 3)/ramp/int64/r1c2/146': '33ab6c5715db3bdc36151d28',
    'g/(3, 3)/ramp/int64/r2c0/147': 'd568137ac946fd3ccb8ec3be',
    'g/(3, 3)/ramp/int64/r2c1/148': '750a18dc98b03a9bb5d11a5b',
    'g/(3, 3)/ramp/int64/r2c2/149': '9e454ec8825ab8c7f601ca4f',
    'g/(3, 3)/bowl/float64/r0c0/150': '9a9f5b396f3cf7336158fd7a',
    'g/(3, 3)/bowl/float64/r0c1/151': '18c734b143ff445307b3f555',
    'g/(3, 3)/bowl/float64/r0c2/152': '2f59f85bbaaa46e632ea9272',
    'g/(3, 3)/bowl/float64/r1c0/153': '4a8995e16f1e8f962f8e6898',
    'g/(3, 3)/bowl/float64/r1c1/154': '275aafea74af34cdc3b11cfe',
    'g/(3, 3)/bowl/float64/r1c2/155': '49d6f01978e43fb5acc5af06',
    'g/(3, 3)/bowl/float64/r2c0/156': '88f0178c16c3ec25405b55ea',
    'g/(3, 3)/bowl/float64/r2c1/157': '2112fe2112d941b4fcd87431',
    'g/(3, 3)/bowl/float64/r2c2/158': '8ca8a26a865102f154ecb7b0',
    'g/(5, 5)/rand/int64/r0c0/159': '58ca291e5e7d3d64078f2d5f',
    'g/(5, 5)/rand/int64/r0c2/160': 'cef7deda8c8805f81b3b2977',
    'g/(5, 5)/rand/int64/r0c4/161': '34ee244a1310e40ed47da252',
    'g/(5, 5)/rand/int64/r2c0/162': '690bb8facab277e07d4e4b0b',
    'g/(5, 5)/rand/int64/r2c2/163': '9c5090354fc25c25743188a1',
    'g/(5, 5)/rand/int64/r2c4/164': '987be54275439e2785a910cc',
    'g/(5, 5)/rand/int64/r4c0/165': 'e5621697b6bb794d1cad4269',
    'g/(5, 5)/rand/int64/r4c2/166': '18cbd66062024fef69df5cdf',
    'g/(5, 5)/rand/int64/r4c4/167': '0502c3690fe67ac50e35fde2',
    'g/(5, 5)/ties/float64/r0c0/168': '9577c3cec754947701de944c',
    'g/(5, 5)/ties/float64/r0c2/169': 'cca08ca3c04f42daceaf458d',
    'g/(5, 5)/ties/float64/r0c4/170': 'b9c7d5d35fab26e9b6a0a31d',
    'g/(5, 5)/ties/float64/r2c0/171': '3ac81c0962cdf34d2ad71fa5',
    'g/(5, 5)/ties/float64/r2c2/172': 'd6945f9828d41888c4bf55cf',
    'g/(5, 5)/ties/float64/r2c4/173': '8d54f84a61454500515e3dfd',
    'g/(5, 5)/ties/float64/r3c1/174': 'c16bc9079d69d1a7f7c99da1',
    'g/(5, 5)/ties/float64/r4c0/175': 'f3880a98c831173c0ffe4d74',
    'g/(5, 5)/ties/float64/r4c2/176': 'ab2042b433ad5d1e23541738',
    'g/(5, 5)/ties/float64/r4c4/177': 'f2f1e10137a14333d2b299c9',
    'g/(5, 5)/plateau/uint8/r0c0/178': 'f0c2a6b146c162cc64e2db53',
    'g/(5, 5)/plateau/uint8/r0c2/179': '109400d39b18bdf8d6c90a4f',
    'g/(5, 5)/plateau/uint8/r0c4/180': '286195074a7c1e408c2b59ff',
    'g/(5, 5)/plateau/uint8/r2c0/181': 'ef5cb7c20e910b19428fd823',
    'g/(5, 5)/plateau/uint8/r2c2/182': 'c775484959e34cb09dfe526e',
    'g/(5, 5)/plateau/uint8/r2c3/183': 'ca9cda3689b2ae1a71a133f3',
    'g/(5, 5)/plateau/uint8/r2c4/184': '3840f032ef4dc3f1fe0cd840',
    'g/(5, 5)/plateau/uint8/r4c0/185': '38296e38fbc15ee6ba501db3',
    'g/(5, 5)/plateau/uint8/r4c2/186': 'b0fa3dc95244855a833da687',
    'g/(5, 5)/plateau/uint8/r4c4/187': '150a8708fec6adfb00428265',
    'g/(5, 5)/flat/int32/r0c0/188': '1ee702ee777d2d2ebfa19969',
    'g/(5, 5)/flat/int32/r0c2/189': '897de129ccfd70db4f9a8d90',
    'g/(5, 5)/flat/int32/r0c4/190': '9dd2f43fc1ec12246be7561c',
    'g/(5, 5)/flat/int32/r2c0/191': 'aba4c7a1a951b7ed0a410251',
    'g/(5, 5)/flat/int32/r2c2/192': '1c784e349d1b38fd2f02d7c8',
    'g/(5, 5)/flat/int32/r2c4/193': '1f337a55e6598e424bd1341a',
    'g/(5, 5)/flat/int32/r4c0/194': '0f9640efea6ec72bcb64495e',
    'g/(5, 5)/flat/int32/r4c2/195': '48d97b01b0a27f0ad8189063',
    'g/(5, 5)/flat/int32/r4c4/196': '31747eecea4640e33c7f6c01',
    'g/(5, 5)/ramp/int16/r0c0/197': 'e91e14ae76804e6007f569d0',
    'g/(5, 5)/ramp/int16/r0c2/198': 'cc35c11e516d7ecd706d7c1d',
    'g/(5, 5)/ramp/int16/r0c4/199': 'd4300048b8ebb8e50f94485c',
    'g/(5, 5)/ramp/int16/r2c0/200': '4b70d486cf59aeb6ddb2fe1d',
    'g/(5, 5)/ramp/int16/r2c2/201': '37e27d1ce7845ecce0a060ce',
    'g/(5, 5)/ramp/int16/r2c3/202': '590238f0b9c0ae911efc3796',
    'g/(5, 5)/ramp/int16/r2c4/203': 'e35971b349f76fb41847eeb9',
    'g/(5, 5)/ramp/int16/r4c0/204': 'fbb05050b2d8233460aa9731',
    'g/(5, 5)/ramp/int16/r4c2/205': '315f2b51c6295484c0f4fb43',
    'g/(5, 5)/ramp/int16/r4c4/206': '5f546ed045d1b12226d4b463',
    'g/(5, 5)/bowl/int64/r0c0/207': '71c4b07f19d128c523223115',
    'g/(5, 5)/bowl/int64/r0c2/208': '66f86a28ce88df619a50bfac',
    'g/(5, 5)/bowl/int64/r0c4/209': 'aa6e44741afdb46848d798bc',
    'g/(5, 5)/bowl/int64/r1c3/210': '94e290a18bcce3ca9fa1b200',
    'g/(5, 5)/bowl/int64/r2c0/211': '649a0c9e7f6b9fcb49c00db1',
    'g/(5, 5)/bowl/int64/r2c2/212': 'afdf2ef27e51be6aa69fbabc',
    'g/(5, 5)/bowl/int64/r2c4/213': 'd05d67395b89d8545122497c',
    'g/(5, 5)/bowl/int64/r4c0/214': '849d021dbc8bce103cabab29',
    'g/(5, 5)/bowl/int64/r4c2/215': 'fe9c1f8377490c133108c5fd',
    'g/(5, 5)/bowl/int64/r4c4/216': '33aa358ad155e4ad2bb176c5',
    'g/(6, 9)/rand/float32/r0c0/217': '1d1e25ff69b908ea5e4e67e1',
    'g/(6, 9)/rand/float32/r0c4/218': '635949a988541581dcaae683',
    'g/(6, 9)/rand/float32/r0c8/219': 'aa1f8a3e6e6ad010c2944286',
    'g/(6, 9)/rand/float32/r2c7/220': '2bc61dca1e724be2cbd4c4a5',
    'g/(6, 9)/rand/float32/r3c0/221': 'd1c41b713d4062c6857f3a3e',
    'g/(6, 9)/rand/float32/r3c4/222': 'b49ba7f71a8576fdab679706',
    'g/(6, 9)/rand/float32/r3c8/223': '674cb5d2244fb6ca8073b568',
    'g/(6, 9)/rand/float32/r5c0/224': '75d73f934a4821f338c6918d',
    'g/(6, 9)/rand/float32/r5c4/225': 'fb46630f9e48cc36f7c3e877',
    'g/(6, 9)/rand/float32/r5c8/226': '341c40266df1434a0f7f5d1e',
    'g/(6, 9)/ties/int16/r0c0/227': 'c3e180a3cb886fac26722a15',
    'g/(6, 9)/ties/int16/r0c1/228': '20dc98346e1c341a531c68ec',
    'g/(6, 9)/ties/int16/r0c4/229': '456c021c0f338608675653f6',
    'g/(6, 9)/ties/int16/r0c8/230': '9de9513b22557088db3ef1aa',
    'g/(6, 9)/ties/int16/r3c0/231': '0ab0474d3dc9a2c9a680b6be',
    'g/(6, 9)/ties/int16/r3c4/232': '771d9480cd1138bb47bd3d26',
    'g/(6, 9)/ties/int16/r3c8/233': 'ab3fd06a49ce7faa75306409',
    'g/(6, 9)/ties/int16/r5c0/234': '5c706c22de614339e232f437',
    'g/(6, 9)/ties/int16/r5c4/235': '1e47a8abc2537bb604777bae',
    'g/(6, 9)/ties/int16/r5c8/236': 'deb25a082874cce195fb0442',
    'g/(6, 9)/plateau/int64/r0c0/237': 'db1240985a77d570af058151',
    'g/(6, 9)/plateau/int64/r0c4/238': '92d3b49d2f5f760178b126e0',
    'g/(6, 9)/plateau/int64/r0c8/239': '4f2d6d249b0b9f5f8202d106',
    'g/(6, 9)/plateau/int64/r3c0/240': 'ae18d283d96e3ccf9944f928',
    'g/(6, 9)/plateau/int64/r3c4/241': 'c60bfe09c7233deb4e2f6b8a',
    'g/(6, 9)/plateau/int64/r3c8/242': '7ef7f1a04739955954603aaf',
    'g/(6, 9)/plateau/int64/r5c0/243': '366356e72b67cde9dc29ed4a',
    'g/(6, 9)/plateau/int64/r5c4/244': '31a186e24f422833ed8ccc2b',
    'g/(6, 9)/plateau/int64/r5c8/245': '111bd04cc1fdc01ea6552800',
    'g/(6, 9)/flat/float64/r0c0/246': 'e7df8df946f86bd0923b1ff4',
    'g/(6, 9)/flat/float64/r0c4/247': 'b8a02f97bfd3b97733f5acaa',
    'g/(6, 9)/flat/float64/r0c8/248': 'b2b6a35b0be809483bb8a10c',
    'g/(6, 9)/flat/float64/r2c7/249': '8c2598b5bcb5d69519eda07e',
    'g/(6, 9)/flat/float64/r3c0/250': 'a4053cee9e6823218ac46a85',
    'g/(6, 9)/flat/float64/r3c4/251': '7391afa71e004d89cff4be79',
    'g/(6, 9)/flat/float64/r3c8/252': '22b205dcb7ef557ef77e426c',
    'g/(6, 9)/flat/float64/r5c0/253': '6eec945f3e84b78843c3987b',
    'g/(6, 9)/flat/float64/r5c4/254': 'af3400545cc46ded3ce0f103',
    'g/(6, 9)/flat/float64/r5c8/255': '6c199beed4f7c1bc46b71b07',
    'g/(6, 9)/ramp/uint8/r0c0/256': '28375ec615def9b90870bfbf',
    'g/(6, 9)/ramp/uint8/r0c4/257': '0d4c1119832782468abcb4d2',
    'g/(6, 9)/ramp/uint8/r0c8/258': '28e8818b74e4883fa0bb4290',
    'g/(6, 9)/ramp/uint8/r3c0/259': 'f4aa3ee16cce6a8728a915ac',
    'g/(6, 9)/ramp/uint8/r3c4/260': 'fdc83f2214cecee362af0fef',
    'g/(6, 9)/ramp/uint8/r3c8/261': '38f164d5a8a52a94eb46ae33',
    'g/(6, 9)/ramp/uint8/r4c6/262': '23e180f0ea27b79bcface45b',
    'g/(6, 9)/ramp/uint8/r5c0/263': '1ff5c6257dfce24895615d18',
    'g/(6, 9)/ramp/uint8/r5c4/264': '2b3c036a672375761b60c1f0',
    'g/(6, 9)/ramp/uint8/r5c8/265': 'f18f64a7adea6f9f7b690f19',
    'g/(6, 9)/bowl/int32/r0c0/266': '559188f09e5c6ffd221460c9',
    'g/(6, 9)/bowl/int32/r0c4/267': '70850bcc6c7dba9f957c31a9',
    'g/(6, 9)/bowl/int32/r0c6/268': '0dce80deeb04543edb6063ed',
    'g/(6, 9)/bowl/int32/r0c8/269': 'd1155bce1e05b543f4be8a9b',
    'g/(6, 9)/bowl/int32/r3c0/270': '5d8ad10a180d9d3d15ab594f',
    'g/(6, 9)/bowl/int32/r3c4/271': '9737b96764d7471cf2482467',
    'g/(6, 9)/bowl/int32/r3c8/272': '06ad99f915dfddd57bdff5a0',
    'g/(6, 9)/bowl/int32/r5c0/273': '140728edbdefc38693a32a9b',
    'g/(6, 9)/bowl/int32/r5c4/274': 'a4019289716c75d81c3cbdaa',
    'g/(6, 9)/bowl/int32/r5c8/275': 'e83e57398657e727887f56cf',
    'g/(13, 8)/rand/float64/r0c0/276': 'fc08c3653b574b1eb9ac4236',
    'g/(13, 8)/rand/float64/r0c4/277': 'a58010a068eff10a0e2b9afb',
    'g/(13, 8)/rand/float64/r0c7/278': 'c4a0a1a57e3e666da881dd99',
    'g/(13, 8)/rand/float64/r3c7/279': 'a67bc1ac39c5137ffde036c8',
    'g/(13, 8)/rand/float64/r6c0/280': '2c5a098789c24a426191fa10',
    'g/(13, 8)/rand/float64/r6c4/281': 'b89e2737d7bd301b48a85c04',
    'g/(13, 8)/rand/float64/r6c7/282': 'd1c7b16e114846f8771c1119',
    'g/(13, 8)/rand/float64/r12c0/283': '39971d449b798c1e2da068ec',
    'g/(13, 8)/rand/float64/r12c4/284': '3cbce0d87b22f22d3bfcb0a1',
    'g/(13, 8)/rand/float64/r12c7/285': '7f5ecd02931b40c4259f54bb',
    'g/(13, 8)/ties/uint8/r0c0/286': 'dc0310d4b69abea2ff7bc350',
    'g/(13, 8)/ties/uint8/r0c4/287': 'f0e7c59a989aad3560706c53',
    'g/(13, 8)/ties/uint8/r0c7/288': '1cd975faabfb51c5fc335509',
    'g/(13, 8)/ties/uint8/r6c0/289': 'e6e2608459feaf0ec981fc1f',
    'g/(13, 8)/ties/uint8/r6c4/290': '9d2f5396017fb13a7ba82047',
    'g/(13, 8)/ties/uint8/r6c7/291': 'b570e77a3601cb26c78a291d',
    'g/(13, 8)/ties/uint8/r8c1/292': '3f3b722c110a32b348ddfd68',
    'g/(13, 8)/ties/uint8/r12c0/293': '81c16cea589a961366762420',
    'g/(13, 8)/ties/uint8/r12c4/294': '4b288f55fcc17a6e39224d49',
    'g/(13, 8)/ties/uint8/r12c7/295': '3a71d3a651ceda63caf871d7',
    'g/(13, 8)/plateau/int32/r0c0/296': 'd36f1b3eadf2ab77b919a1a2',
    'g/(13, 8)/plateau/int32/r0c4/297': '08a1419a5451dbef40ada5e9',
    'g/(13, 8)/plateau/int32/r0c7/298': 'dc047ed2eeca03d7f86899b3',
    'g/(13, 8)/plateau/int32/r5c2/299': '6022610df12629abfccbffd2',
    'g/(13, 8)/plateau/int32/r6c0/300': '5b6f5945e5496cec34862eb5',
    'g/(13, 8)/plateau/int32/r6c4/301': 'a2d2af33c308b6bf4e524ab8',
    'g/(13, 8)/plateau/int32/r6c7/302': 'b0e76ed45a9c846884b3f97e',
    'g/(13, 8)/plateau/int32/r12c0/303': '500b4f7310bb41b3017afcb7',
    'g/(13, 8)/plateau/int32/r12c4/304': '25df6a10f9cd2a0f04775bb7',
    'g/(13, 8)/plateau/int32/r12c7/305': '7bb6e11869e1b2fba46ac4db',
    'g/(13, 8)/flat/float64/r0c0/306': '96e33676215b687d360a827c',
    'g/(13, 8)/flat/float64/r0c4/307': '0ab1b556bc7d3e4d583a2436',
    'g/(13, 8)/flat/float64/r0c7/308': '4533f59084c2d9589c1da2b0',
    'g/(13, 8)/flat/float64/r6c0/309': '30b95382d6a34e1cfe842096',
    'g/(13, 8)/flat/float64/r6c4/310': '0afa2bde045bd3960c67c1fb',
    'g/(13, 8)/flat/float64/r6c7/311': '6ae251d5c563cf692e31ea48',
    'g/(13, 8)/flat/float64/r12c0/312': 'd0ce7295db6863b6e0c90abc',
    'g/(13, 8)/flat/float64/r12c4/313': 'd2e5764daf913d2583f28899',
    'g/(13, 8)/flat/float64/r12c7/314': '0f151556ecc0d84c0fa47a24',
    'g/(13, 8)/ramp/int64/r0c0/315': 'ed645b0280b397414db5bc63',
    'g/(13, 8)/ramp/int64/r0c4/316': '6d36e3a12ae20454e9fbb00f',
    'g/(13, 8)/ramp/int64/r0c7/317': '33f1d5b4a3d2942d86fe34f8',
    'g/(13, 8)/ramp/int64/r6c0/318': '650961afc73de21828283e6a',
    'g/(13, 8)/ramp/int64/r6c1/319': '6f34598da2429510322e892b',
    'g/(13, 8)/ramp/int64/r6c4/320': '16aefbb12e19ad93f22ef08d',
    'g/(13, 8)/ramp/int64/r6c7/321': '6fd84c08b72da2684d5c184f',
    'g/(13, 8)/ramp/int64/r12c0/322': 'b579d17e535b953e0443bb91',
    'g/(13, 8)/ramp/int64/r12c4/323': 'cb18875e6f41d107917c52f9',
    'g/(13, 8)/ramp/int64/r12c7/324': '4e5f8869ba7ffd7e853932f8',
    'g/(13, 8)/bowl/float32/r0c0/325': '1b818c1672c08f598ba15bee',
    'g/(13, 8)/bowl/float32/r0c4/326': 'd39b650a332d6fb3e9988016',
    'g/(13, 8)/bowl/float32/r0c7/327': '93f14ee60b09bc492bae0601',
    'g/(13, 8)/bowl/float32/r6c0/328': 'c7f35e2c59ae63a3dc8682e1',
    'g/(13, 8)/bowl/float32/r6c4/329': '55a9b7ea505d52b3e7bc3418',
    'g/(13, 8)/bowl/float32/r6c7/330': '9583df236b69bae7b7876a95',
    'g/(13, 8)/bowl/float32/r11c0/331': '4752ab30850cdd8f62ccc17b',
    'g/(13, 8)/bowl/float32/r12c0/332': 'adf497da902388d341ebd57c',
    'g/(13, 8)/bowl/float32/r12c4/333': '107c3db0437bbff368ab17ea',
    'g/(13, 8)/bowl/float32/r12c7/334': '8c0659f55ea3da15fe263263',
    'g/(17, 23)/rand/int16/r0c0/335': '03b6a0f117f03f2bafabbc23',
    'g/(17, 23)/rand/int16/r0c11/336': 'd04ffc4a4c237ac7409de55d',
    'g/(17, 23)/rand/int16/r0c22/337': '88975b0180a45aecc2c4bdfd',
    'g/(17, 23)/rand/int16/r8c0/338': 'db0580f4dbc6e3b4b7ddcde7',
    'g/(17, 23)/rand/int16/r8c8/339': '83ec41ed46747df140f6441f',
    'g/(17, 23)/rand/int16/r8c11/340': '3c97acf9ae5c932dbc287068',
    'g/(17, 23)/rand/int16/r8c22/341': 'c3b41549cdc49742e1955860',
    'g/(17, 23)/rand/int16/r16c0/342': '8c640cf46c5589a5b4b10ac7',
    'g/(17, 23)/rand/int16/r16c11/343': '9b5724a8f5ee6bab5294b49f',
    'g/(17, 23)/rand/int16/r16c22/344': '961c748021b3017d7716acae',
    'g/(17, 23)/ties/int64/r0c0/345': '7d598c1c74e5c8374bcdd0ed',
    'g/(17, 23)/ties/int64/r0c11/346': '8da55d584123d9525e2ac92e',
    'g/(17, 23)/ties/int64/r0c22/347': '5a5e98f9dcf4d482faa4c840',
    'g/(17, 23)/ties/int64/r8c0/348': '5bbb5fad0423f41fcadfef91',
    'g/(17, 23)/ties/int64/r8c11/349': 'f040affda68cf396df66a943',
    'g/(17, 23)/ties/int64/r8c22/350': 'b768de968b9f1c9e4948b3a7',
    'g/(17, 23)/ties/int64/r16c0/351': '828398f045aabe4469ab203e',
    'g/(17, 23)/ties/int64/r16c7/352': '25e44eddf22dfa608922fec9',
    'g/(17, 23)/ties/int64/r16c11/353': 'ec518959a11b11e24cf70423',
    'g/(17, 23)/ties/int64/r16c22/354': 'dec99588ae0b988df1ee1208',
    'g/(17, 23)/plateau/float32/r0c0/355': '2fd036978594e68245f4ce15',
    'g/(17, 23)/plateau/float32/r0c11/356': 'c1146e23e497fc341a8086e1',
    'g/(17, 23)/plateau/float32/r0c22/357': '569dd3092b18d7f22f1c4fbd',
    'g/(17, 23)/plateau/float32/r7c6/358': '0b143d15d83be55ba54a6d91',
    'g/(17, 23)/plateau/float32/r8c0/359': '1c9c6ea03247f153e658803e',
    'g/(17, 23)/plateau/float32/r8c11/360': '241b82f83f5ccf27ba338c19',
    'g/(17, 23)/plateau/float32/r8c22/361': 'a754ab51dff70b30f66a89b9',
    'g/(17, 23)/plateau/float32/r16c0/362': '8e77890979ec33b100e704cc',
    'g/(17, 23)/plateau/float32/r16c11/363': '5c5bfa92c6257be827cbe3aa',
    'g/(17, 23)/plateau/float32/r16c22/364': '6965f44d7801ce005347d983',
    'g/(17, 23)/flat/int16/r0c0/365': '9939b8911ce6cf6def23e0da',
    'g/(17, 23)/flat/int16/r0c11/366': '3d11b44db4c0170f19e856f2',
    'g/(17, 23)/flat/int16/r0c22/367': '1e15a544a59c8a806b32ccf6',
    'g/(17, 23)/flat/int16/r8c0/368': '0c0038f11e6572314332f156',
    'g/(17, 23)/flat/int16/r8c11/369': '1aec6424d7823c354f846abe',
    'g/(17, 23)/flat/int16/r8c22/370': '28dd05b0a1e642777cdda100',
    'g/(17, 23)/flat/int16/r10c21/371': '720339bfdc6d67ef93ced9a6',
    'g/(17, 23)/flat/int16/r16c0/372': 'ccf6f1ac0c7f4cbfe0ca2869',
    'g/(17, 23)/flat/int16/r16c11/373': 'ec8d4572441594454d564f8b',
    'g/(17, 23)/flat/int16/r16c22/374': '5c03ceded97324d683ae173f',
    'g/(17, 23)/ramp/int64/r0c0/375': 'd1372e8bfd1e11eb39d6c1b9',
    'g/(17, 23)/ramp/int64/r0c11/376': '14542ddfdec23c67f52f4648',
    'g/(17, 23)/ramp/int64/r0c22/377': '7223af0a5097899868bc0ad3',
    'g/(17, 23)/ramp/int64/r8c0/378': '0571ef2267fba1d1311b4f42',
    'g/(17, 23)/ramp/int64/r8c11/379': '7f0ffeb0f329a63090ed9af8',
    'g/(17, 23)/ramp/int64/r8c22/380': 'b4d06c502e6793c2dac35088',
    'g/(17, 23)/ramp/int64/r16c0/381': '90214756c445a01ae3db7164',
    'g/(17, 23)/ramp/int64/r16c11/382': '137fe3f88e5fb8fe2fa9a560',
    'g/(17, 23)/ramp/int64/r16c22/383': '36cee6de2bc3cbf7139bf75a',
    'g/(17, 23)/bowl/float64/r0c0/384': 'a21c5ee229427e1df8a81fe0',
    'g/(17, 23)/bowl/float64/r0c11/385': 'cbb98971adc3551aaf8062b9',
    'g/(17, 23)/bowl/float64/r0c22/386': 'b023822f18072a8d14c50b25',
    'g/(17, 23)/bowl/float64/r8c0/387': '383fac2357da3f43e9b1f0cc',
    'g/(17, 23)/bowl/float64/r8c11/388': '3df95fe4c4a4928b8d92ccde',
    'g/(17, 23)/bowl/float64/r8c22/389': 'fc05515480c29dd1c200cfc7',
    'g/(17, 23)/bowl/float64/r16c0/390': '8cee6bc1ba38b4a6586b1e3e',
    'g/(17, 23)/bowl/float64/r16c3/391': '3763879797c43d5132c8c421',
    'g/(17, 23)/bowl/float64/r16c11/392': '3075df482518b449fbb84900',
    'g/(17, 23)/bowl/float64/r16c22/393': '6e6dc8bfe4c6835b3eeaa1b2',
    'doc/int64': '257f769563497c76da140f37',
    'docpos/int64': '758e26e0c44ab0d55bd70d44',
    'intcoords/int64': 'ae12ca81b04401f0731e0339',
    'doc/float64': '257f769563497c76da140f37',
    'docpos/float64': '758e26e0c44ab0d55bd70d44',
    'intcoords/float64': 'ae12ca81b04401f0731e0339',
    'doc/int8': '257f769563497c76da140f37',
    'docpos/int8': '758e26e0c44ab0d55bd70d44',
    'intcoords/int8': 'ae12ca81b04401f0731e0339',
    'nan/(5, 5)/0-0/float64': 'b5acf8e0c4b6b45d2b6ef01a',
    'nan/(5, 5)/0-0/float32': '30b10a7ac5e35f365eb1b5a7',
    'nan/(5, 5)/2-2/float64': '4cc8cc0a44b75e08820df56c',
    'nan/(5, 5)/2-2/float32': '7cbcde5b7bd510af32be7ba3',
    'nan/(5, 5)/4-4/float64': 'da9180036d355c4fb8f85019',
    'nan/(5, 5)/4-4/float32': 'c3da0b9275274a643f769020',
    'nan/(5, 5)/2-0/float64': '148259030078a12af60f87fd',
    'nan/(5, 5)/2-0/float32': 'e202cbf113d23a5f4106b22a',
    'nan/(6, 9)/0-0/float64': 'dab56c081b3b5724483272ee',
    'nan/(6, 9)/0-0/float32': 'ce47103e3b30e52a74741a8c',
    'nan/(6, 9)/3-4/float64': '4938f3e46097f435f68d6d0b',
    'nan/(6, 9)/3-4/float32': '1093c143c3385b3a25618202',
    'nan/(6, 9)/5-8/float64': '619f3a5c59756f48da74e86e',
    'nan/(6, 9)/5-8/float32': '913aa9a92a25182ab207ecee',
    'nan/(6, 9)/3-0/float64': '512b34ca04551a94efa55f62',
    'nan/(6, 9)/3-0/float32': 'eb59f9e91c7569ae86846bac',
    'nan/(9, 4)/0-0/float64': '38c8521cfe6eb4c870c9abae',
    'nan/(9, 4)/0-0/float32': '6cb20f857c417d96c62b8b70',
    'nan/(9, 4)/4-2/float64': '28948820fdef372791a709a8',
    'nan/(9, 4)/4-2/float32': 'c74c472ffd132dfdb9afa741',
    'nan/(9, 4)/8-3/float64': '9af9a151773e81ac79b49d72',
    'nan/(9, 4)/8-3/float32': '6f775ae4862f71def34b4e7e',
    'nan/(9, 4)/4-0/float64': '28948820fdef372791a709a8',
    'nan/(9, 4)/4-0/float32': 'c74c472ffd132dfdb9afa741',
    'nan/observer': 'dc9d63bd51bf933f6ae53147',
    'nan/row': '484c9271cedfd8b7cf85373a',
    'err/-0.5,1': 'f5cfc8369ac577d63c350812',
    'err/4.01,1': 'f5cfc8369ac577d63c350812',
    'err/2,-1e-09': 'd483b6e2a9ee141159e5cb1f',
    'err/2,3.5': 'd483b6e2a9ee141159e5cb1f',
    'err/99,99': 'f5cfc8369ac577d63c350812',
    'err/nan,1': 'f5cfc8369ac577d63c350812',
    'err/dask': '299d9179cc99102ff1e11814',
    'odd/transposed-dims': 'a22b0d0f6548079035afc85d',
}


def _digest(case_out):
    h = hashlib.sha256()
    for part in case_out:
        if isinstance(part, np.ndarray):
            h.update(str(part.dtype).encode())
            h.update(str(part.shape).encode())
            h.update(np.ascontiguousarray(part).tobytes())
        else:
            h.update(repr(part).encode())
        h.update(b"|")
    return h.hexdigest()[:24]


def make_terrain(rng, kind, shape, dtype):
    h, w = shape
    if kind == "rand":
        a = rng.uniform(-50, 50, size=shape)
    elif kind == "ties":          # few distinct integer levels -> many ties
        a = rng.integers(0, 4, size=shape).astype(float)
    elif kind == "plateau":
        a = np.zeros(shape)
        a[h // 3: h // 3 + max(1, h // 3), w // 4: w // 4 + max(1, w // 2)] = 7
    elif kind == "flat":
        a = np.full(shape, 1.3)
    elif kind == "ramp":
        yy, xx = np.mgrid[0:h, 0:w]
        a = 2.0 * xx - 1.5 * yy
    elif kind == "bowl":
        yy, xx = np.mgrid[0:h, 0:w]
        a = 0.3 * ((xx - w / 2.0) ** 2 + (yy - h / 2.0) ** 2)
    else:
        raise AssertionError(kind)
    if np.issubdtype(np.dtype(dtype), np.unsignedinteger):
        a = np.abs(a)
    return a.astype(dtype)


def make_raster(arr, xs, ys):
    return xr.DataArray(arr.copy(), coords=dict(x=xs, y=ys), dims=["y", "x"],
                        attrs={"res": 1, "tag": "t"}, name="terrain")


def run_case(raster, x, y, kwargs, positional=False):
    """Return a list of hashable/array parts describing the full outcome."""
    out = []
    buf = io.StringIO()
    try:
        with contextlib.redirect_stdout(buf):
            if positional:
                v = viewshed(raster, x, y, *kwargs)
            else:
                v = viewshed(raster, x=x, y=y, **kwargs)
    except Exception as exc:  # error type and message are part of behaviour
        out.append(("EXC", type(exc).__name__, str(exc)))
    else:
        out.append(type(v).__name__)
        out.append(type(v.data).__name__)
        out.append(np.asarray(v.data))
        out.append(tuple(v.dims))
        out.append(sorted((k, repr(val)) for k, val in v.attrs.items()))
        out.append(repr(v.name))
        for c in v.dims:
            out.append(np.asarray(v[c].values))
    # side effects on the input raster (the cpu path rewrites raster.values)
    out.append(str(raster.dtype))
    out.append(type(raster.data).__name__)
    try:
        out.append(np.asarray(raster.data))
    except Exception as exc:
        out.append(("EXC-in", type(exc).__name__))
    return out


def all_cases():
    rng = np.random.default_rng(20240505)
    cases = []   # (label, thunk)

    shapes = [(2, 2), (2, 7), (7, 2), (3, 3), (5, 5), (6, 9), (13, 8), (17, 23)]
    kinds = ["rand", "ties", "plateau", "flat", "ramp", "bowl"]
    dtypes = [np.float64, np.float32, np.int32, np.int64, np.uint8, np.int16]
    res_opts = [(1.0, 1.0), (0.5, 1.5), (30.0, 10.0), (2.0, 0.25)]

    n = 0
    for shape in shapes:
        h, w = shape
        for kind in kinds:
            dtype = dtypes[n % len(dtypes)]
            ew, ns = res_opts[n % len(res_opts)]
            descending = (n % 3 == 1)
            xs = 100.0 + np.arange(w) * ew
            ys = -7.0 + np.arange(h) * ns
            if descending:
                ys = ys[::-1].copy()
            arr = make_terrain(rng, kind, shape, dtype)
            # observer cells: 4 corners, edge midpoints, interior + random
            cells = {(0, 0), (0, w - 1), (h - 1, 0), (h - 1, w - 1),
                     (0, w // 2), (h // 2, 0), (h - 1, w // 2), (h // 2, w - 1),
                     (h // 2, w // 2),
                     (int(rng.integers(0, h)), int(rng.integers(0, w)))}
            for (r, c) in sorted(cells):
                k = n % 7
                obs = [0, 5, 2.5, -1, -3.5, 0.001, 100][k]
                tgt = [0, 1, 0, 2.5, 0, 0.5, -1][(n // 2) % 7]
                # jitter the query point inside the cell (nearest lookup)
                jx = float(rng.uniform(-0.45, 0.45)) * ew if n % 2 else 0.0
                jy = float(rng.uniform(-0.45, 0.45)) * ns if n % 2 else 0.0
                x = float(np.clip(xs[c] + jx, xs.min(), xs.max()))
                y = float(np.clip(ys[r] + jy, ys.min(), ys.max()))
                kw = {}
                if n % 5 != 0:
                    kw["observer_elev"] = obs
                if n % 4 != 0:
                    kw["target_elev"] = tgt
                label = "g/%s/%s/%s/r%dc%d/%d" % (shape, kind, np.dtype(dtype).name, r, c, n)
                cases.append((label, (lambda a=arr, xs=xs, ys=ys, x=x, y=y, kw=kw:
                                      run_case(make_raster(a, xs, ys), x, y, kw))))
                n += 1

    # integer coordinates / integer x,y arguments, positional call
    arr = np.array([[0, 0, 1, 0, 0],
                    [1, 3, 0, 0, 0],
                    [10, 2, 5, 2, -1],
                    [11, 1, 2, 9, 0]])
    for dt in (np.int64, np.float64, np.int8):
        xs = np.linspace(1, 5, 5)
        ys = np.linspace(1, 4, 4)
        cases.append(("doc/%s" % np.dtype(dt).name,
                      (lambda dt=dt, xs=xs, ys=ys:
                       run_case(make_raster(arr.astype(dt), xs, ys), 3, 2, {}))))
        cases.append(("docpos/%s" % np.dtype(dt).name,
                      (lambda dt=dt, xs=xs, ys=ys:
                       run_case(make_raster(arr.astype(dt), xs, ys), 3, 2, (4, 1),
                                positional=True))))
        xi = np.arange(5)
        yi = np.arange(4)
        cases.append(("intcoords/%s" % np.dtype(dt).name,
                      (lambda dt=dt, xi=xi, yi=yi:
                       run_case(make_raster(arr.astype(dt), xi, yi), 4, 0,
                                {"observer_elev": 3}))))

    # NaN terrains (outcome, whatever it is, must be unchanged)
    for i, shape in enumerate([(5, 5), (6, 9), (9, 4)]):
        h, w = shape
        a = rng.uniform(0, 10, size=shape)
        nanmask = rng.uniform(size=shape) < 0.15
        a[nanmask] = np.nan
        xs = np.arange(w) * 1.0
        ys = np.arange(h) * 2.0
        for (r, c) in [(0, 0), (h // 2, w // 2), (h - 1, w - 1), (h // 2, 0)]:
            for dt in (np.float64, np.float32):
                cases.append(("nan/%s/%d-%d/%s" % (shape, r, c, np.dtype(dt).name),
                              (lambda a=a, xs=xs, ys=ys, r=r, c=c, dt=dt:
                               run_case(make_raster(a.astype(dt), xs, ys),
                                        xs[c], ys[r], {"observer_elev": 1 + r}))))
    # NaN at the observer cell itself
    a = rng.uniform(0, 10, size=(5, 6))
    a[2, 3] = np.nan
    cases.append(("nan/observer",
                  lambda a=a: run_case(make_raster(a, np.arange(6.), np.arange(5.)),
                                       3.0, 2.0, {"observer_elev": 2})))
    # all-NaN row through the observer
    a = rng.uniform(0, 10, size=(5, 6))
    a[2, 4:] = np.nan
    cases.append(("nan/row",
                  lambda a=a: run_case(make_raster(a, np.arange(6.), np.arange(5.)),
                                       1.0, 2.0, {"observer_elev": 2})))

    # error paths
    a = rng.uniform(0, 10, size=(4, 5))
    xs = np.arange(5.0)
    ys = np.arange(4.0)
    for (x, y) in [(-0.5, 1), (4.01, 1), (2, -1e-9), (2, 3.5), (99, 99), (np.nan, 1)]:
        cases.append(("err/%r,%r" % (x, y),
                      (lambda x=x, y=y: run_case(make_raster(a, xs, ys), x, y, {}))))
    try:
        import dask.array as da
    except Exception:
        da = None
    if da is not None:
        def dask_case():
            r = xr.DataArray(da.from_array(a.copy(), chunks=(2, 3)),
                             coords=dict(x=xs, y=ys), dims=["y", "x"])
            return run_case(r, 2.0, 1.0, {"observer_elev": 1})
        cases.append(("err/dask", dask_case))
    # non-DataArray-ish data (list-backed -> numpy) and transposed dims
    def tdims():
        r = xr.DataArray(a.copy().T, coords=dict(x=xs, y=ys), dims=["x", "y"])
        return run_case(r, 2.0, 1.0, {})
    cases.append(("odd/transposed-dims", tdims))
    return cases


def main():
    record = "--record" in sys.argv
    print("xrspatial from:", xrspatial.__file__)
    got = {}
    for label, thunk in all_cases():
        got[label] = _digest(thunk())
    if record:
        print("EXPECTED = {")
        for k in got:
            print("    %r: %r," % (k, got[k]))
        print("}")
        return 0
    bad = [k for k in got if EXPECTED.get(k) != got[k]]
    missing = [k for k in EXPECTED if k not in got]
    print("cases: %d, mismatches: %d, missing: %d" % (len(got), len(bad), len(missing)))
    for k in bad[:20]:
        print("  MISMATCH", k, EXPECTED.get(k), got[k])
    # independent sanity check: flat terrain, observer above -> everything
    # visible with the analytic vertical angle
    ny, nx = 5, 4
    xs = np.arange(nx) * 0.5
    ys = np.arange(ny) * 1.5
    flat = xr.DataArray(np.full((ny, nx), 1.3), coords=dict(x=xs, y=ys), dims=["y", "x"])
    v = viewshed(flat, x=0, y=0, observer_elev=5, target_elev=1)
    xs2, ys2 = np.meshgrid(xs, ys)
    ang = np.rad2deg(np.arctan2(np.sqrt(xs2 ** 2 + ys2 ** 2), 4.0))
    ang[0, 0] = 180
    ok_flat = np.allclose(v.data, ang, rtol=1e-12, atol=1e-12)
    print("flat analytic check:", ok_flat)
    return 0 if (not bad and not missing and ok_flat) else 1


if __name__ == "__main__":
    sys.exit(main())
